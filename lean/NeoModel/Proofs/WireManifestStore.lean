/-
C17 — manifest and deployed contract in their STORED form (`stackitem.SerializeConvertible` /
`DeserializeConvertible` around `ToStackItem` / `FromStackItem`): store-then-load is the identity, whatever the loader
accepts is well-formed and re-storing it is stable.
-/
import NeoModel.Proofs.WireManifest
import NeoModel.Proofs.WireNef
namespace NeoModel.Wire
open NeoModel.Generated
open Codec
namespace Item

/-! ### `wfB` = structure (`wfCoreB`) + byte strings within MaxSize; the second follows from the size of the encoding -/

mutual
def wfCoreB (prot : Bool) : Item → Bool
  | .byteArray _ => true
  | .buffer _ => true
  | .bool _ => true
  | .int c => decide (canonInt c = c) && decide (c.length ≤ WireLimits.bigintMaxBytesLen)
  | .array l => wfCoreListB prot l
  | .struct l => wfCoreListB prot l
  | .map m => wfCorePairsB prot m && keysOkB [] m
  | .null => true
  | .interop => prot
  | .pointer p => prot && decide (p < 2 ^ 64)
  | .invalid => prot
def wfCoreListB (prot : Bool) : List Item → Bool
  | [] => true
  | x :: xs => wfCoreB prot x && wfCoreListB prot xs
def wfCorePairsB (prot : Bool) : List (Item × Item) → Bool
  | [] => true
  | (k, v) :: rest => wfCoreB prot k && wfCoreB prot v && wfCorePairsB prot rest
end

theorem enc_le_encList {l : List Item} {x : Item} (h : x ∈ l) : (enc x).length ≤ (encList l).length := by
  induction l with
  | nil => simp at h
  | cons y ys ih =>
    simp only [encList, List.length_append]
    simp at h
    rcases h with h | h
    · subst h; omega
    · have := ih h; omega

theorem enc_le_encPairs {m : List (Item × Item)} {p : Item × Item} (h : p ∈ m) :
    (enc p.1).length + (enc p.2).length ≤ (encPairs m).length := by
  induction m with
  | nil => simp at h
  | cons q qs ih =>
    obtain ⟨k, v⟩ := q
    simp only [encPairs, List.length_append]
    simp at h
    rcases h with h | h
    · subst h; simp
    · have := ih h; omega

theorem wfCoreListB_mem {prot : Bool} {l : List Item} (h : wfCoreListB prot l = true) {x : Item} (hx : x ∈ l) :
    wfCoreB prot x = true := by
  induction l with
  | nil => simp at hx
  | cons y ys ih =>
    simp only [wfCoreListB, Bool.and_eq_true] at h
    simp at hx
    rcases hx with hx | hx
    · subst hx; exact h.1
    · exact ih h.2 hx

theorem wfCorePairsB_mem {prot : Bool} {m : List (Item × Item)} (h : wfCorePairsB prot m = true) {p : Item × Item}
    (hp : p ∈ m) : wfCoreB prot p.1 = true ∧ wfCoreB prot p.2 = true := by
  induction m with
  | nil => simp at hp
  | cons q qs ih =>
    obtain ⟨k, v⟩ := q
    simp only [wfCorePairsB, Bool.and_eq_true] at h
    simp at hp
    rcases hp with hp | hp
    · subst hp; exact ⟨h.1.1, h.1.2⟩
    · exact ih h.2 hp

theorem wfListB_of_mem {prot : Bool} {l : List Item} (h : ∀ x ∈ l, wfB prot x = true) : wfListB prot l = true := by
  induction l with
  | nil => rfl
  | cons y ys ih =>
    simp only [wfListB, Bool.and_eq_true]
    exact ⟨h y (by simp), ih (fun x hx => h x (by simp [hx]))⟩

theorem wfPairsB_of_mem {prot : Bool} {m : List (Item × Item)}
    (h : ∀ p ∈ m, wfB prot p.1 = true ∧ wfB prot p.2 = true) : wfPairsB prot m = true := by
  induction m with
  | nil => rfl
  | cons q qs ih =>
    obtain ⟨k, v⟩ := q
    simp only [wfPairsB, Bool.and_eq_true]
    have := h (k, v) (by simp)
    exact ⟨⟨this.1, this.2⟩, ih (fun x hx => h x (by simp [hx]))⟩

/-- an item of the right structure whose encoding fits MaxSize is well-formed (every byte string in it fits). -/
theorem wfB_of_core {prot : Bool} : ∀ n v, count v ≤ n → wfCoreB prot v = true →
    (enc v).length ≤ WireLimits.stackMaxSize → wfB prot v = true := by
  intro n
  induction n with
  | zero => intro v hc _ _; have := count_pos v; omega
  | succ n ih =>
    intro v hc hw hs
    cases v with
    | byteArray b =>
      simp only [enc, List.length_cons, List.length_append] at hs
      simp only [wfB, decide_eq_true_eq]; omega
    | buffer b =>
      simp only [enc, List.length_cons, List.length_append] at hs
      simp only [wfB, decide_eq_true_eq]; omega
    | bool b => rfl
    | int c => simpa [wfB, wfCoreB] using hw
    | null => rfl
    | interop => simpa [wfB, wfCoreB] using hw
    | pointer p => simpa [wfB, wfCoreB] using hw
    | invalid => simpa [wfB, wfCoreB] using hw
    | array l =>
      simp only [count] at hc
      simp only [wfCoreB] at hw
      simp only [enc, List.length_cons, List.length_append] at hs
      simp only [wfB]
      exact wfListB_of_mem (fun x hx => ih x (by have := count_le_countList hx; omega) (wfCoreListB_mem hw hx)
        (by have := enc_le_encList hx; omega))
    | struct l =>
      simp only [count] at hc
      simp only [wfCoreB] at hw
      simp only [enc, List.length_cons, List.length_append] at hs
      simp only [wfB]
      exact wfListB_of_mem (fun x hx => ih x (by have := count_le_countList hx; omega) (wfCoreListB_mem hw hx)
        (by have := enc_le_encList hx; omega))
    | map m =>
      simp only [count] at hc
      simp only [wfCoreB, Bool.and_eq_true] at hw
      simp only [enc, List.length_cons, List.length_append] at hs
      simp only [wfB, Bool.and_eq_true]
      refine ⟨wfPairsB_of_mem (fun p hp => ?_), hw.2⟩
      have hcp := count_le_countPairs hp
      have hwp := wfCorePairsB_mem hw.1 hp
      have hep := enc_le_encPairs hp
      have := count_pos p.1; have := count_pos p.2
      exact ⟨ih p.1 (by omega) hwp.1 (by omega), ih p.2 (by omega) hwp.2 (by omega)⟩

theorem wfCoreListB_map {α : Type} {prot : Bool} (f : α → Item) (l : List α) (h : ∀ x ∈ l, wfCoreB prot (f x) = true) :
    wfCoreListB prot (l.map f) = true := by
  induction l with
  | nil => rfl
  | cons y ys ih =>
    simp only [List.map_cons, wfCoreListB, Bool.and_eq_true]
    exact ⟨h y (by simp), ih (fun x hx => h x (by simp [hx]))⟩

/-- what the serialiser accepts (without interop/pointer/nil in it) is read back by the deserialiser, given only the
STRUCTURAL well-formedness: the size bounds of `wfB` follow from the serialiser's own size check. -/
theorem serialize_roundtrip_core (v : Item) (b r : Bytes) (hw : wfCoreB false v = true)
    (hs : serialize false v = some b) : decode false (b ++ r) = some (v, r) := by
  have hs' := hs
  simp only [serialize] at hs'
  split at hs'
  · simp at hs'
  · split at hs'
    · simp at hs'
    · split at hs'
      · simp at hs'
      · rename_i h1 _ h3
        simp at hs'
        subst hs'
        have hwf := wfB_of_core (count v) v (Nat.le_refl _) hw (by omega)
        have hle : WireLimits.stackMaxSerialized ≤ WireLimits.stackMaxDeserialized := by decide
        have h := rt_all (count v) v (Nat.le_refl _) hwf (WireLimits.stackMaxDeserialized + 1)
          WireLimits.stackMaxDeserialized r (by omega) (by omega) (by decide)
        simp only [decode, h, Option.map_some]

end Item

/-! ### the items `ToStackItem` builds are structurally well-formed -/

theorem intBytes_len32 (n : Int) : (intBytes n).length ≤ WireLimits.bigintMaxBytesLen := by
  have := intBytes_length n
  have : WireLimits.bigintMaxBytesLen = 32 := rfl
  omega

theorem MParam.toItem_core (p : MParam) : Item.wfCoreB false p.toItem = true := by
  simp [MParam.toItem, Item.wfCoreB, Item.wfCoreListB, intBytes_canon, intBytes_len32]

theorem MMethod.toItem_core (m : MMethod) : Item.wfCoreB false m.toItem = true := by
  simp only [MMethod.toItem, Item.wfCoreB, Item.wfCoreListB, intBytes_canon, intBytes_len32, decide_true, Bool.and_true,
    Bool.true_and]
  exact Item.wfCoreListB_map _ _ (fun p _ => MParam.toItem_core p)

theorem MEvent.toItem_core (e : MEvent) : Item.wfCoreB false e.toItem = true := by
  simp only [MEvent.toItem, Item.wfCoreB, Item.wfCoreListB, Bool.and_true, Bool.true_and]
  exact Item.wfCoreListB_map _ _ (fun p _ => MParam.toItem_core p)

theorem PermDesc.toItem_core (d : PermDesc) : Item.wfCoreB false d.toItem = true := by
  cases d <;> rfl

theorem MPerm.toItem_core (p : MPerm) : Item.wfCoreB false p.toItem = true := by
  obtain ⟨c, ms⟩ := p
  cases ms with
  | none => simp [MPerm.toItem, Item.wfCoreB, Item.wfCoreListB, PermDesc.toItem_core]
  | some l =>
    simp only [MPerm.toItem, Item.wfCoreB, Item.wfCoreListB, PermDesc.toItem_core, Bool.and_true, Bool.true_and]
    exact Item.wfCoreListB_map _ _ (fun _ _ => rfl)

theorem MGroup.toItem_core (g : MGroup) : Item.wfCoreB false g.toItem = true := by
  simp [MGroup.toItem, Item.wfCoreB, Item.wfCoreListB]

theorem Manifest.toItem_core (norm : Bytes → Bytes) (m : Manifest) : Item.wfCoreB false (m.toItem norm) = true := by
  have hg := Item.wfCoreListB_map (prot := false) MGroup.toItem m.groups (fun g _ => MGroup.toItem_core g)
  have hst := Item.wfCoreListB_map (prot := false) Item.byteArray m.standards (fun _ _ => rfl)
  have hm := Item.wfCoreListB_map (prot := false) MMethod.toItem m.methods (fun g _ => MMethod.toItem_core g)
  have he := Item.wfCoreListB_map (prot := false) MEvent.toItem m.events (fun g _ => MEvent.toItem_core g)
  have hp := Item.wfCoreListB_map (prot := false) MPerm.toItem m.perms (fun g _ => MPerm.toItem_core g)
  cases ht : m.trusts with
  | none =>
    simp [Manifest.toItem, Item.wfCoreB, Item.wfCoreListB, Item.wfCorePairsB, Item.keysOkB, hg, hst, hm, he, hp, ht]
  | some l =>
    have hl := Item.wfCoreListB_map (prot := false) PermDesc.toItem l (fun g _ => PermDesc.toItem_core g)
    simp [Manifest.toItem, Item.wfCoreB, Item.wfCoreListB, Item.wfCorePairsB, Item.keysOkB, hg, hst, hm, he, hp, ht, hl]

/-- C17 (manifest, stored form): what `Serialize(ToStackItem(m))` writes for a well-formed manifest is read back by
`Deserialize` + `FromStackItem` (whatever follows it) to the same manifest, Extra as `extraToStackItem` wrote it. -/
theorem Manifest.store_load (norm : Bytes → Bytes) (cv : Curve) (hs : cv.Sound) (m : Manifest) (b r : Bytes)
    (hw : m.wf cv) (hst : Manifest.store norm m = some b) :
    Manifest.load cv (b ++ r) = some (m.normExtra norm) := by
  unfold Manifest.store at hst
  have hd := Item.serialize_roundtrip_core _ b r (Manifest.toItem_core norm m) hst
  simp only [Manifest.load, hd]
  exact Manifest.roundtrip norm cv hs m hw

end NeoModel.Wire

namespace NeoModel.Wire
open NeoModel.Generated
open Codec

/-! ### deployed contract -/

def Contract.wf (H : Bytes → Bytes) (cv : Curve) (c : Contract) : Prop :=
  (WireManifest.contractIdLo ≤ c.id ∧ c.id ≤ WireManifest.contractIdHi)
    ∧ (c.updateCounter : Int) ≤ WireManifest.contractUpdateCounterHi ∧ c.hash.length = WireManifest.uint160Size
    ∧ (nefC H).wf c.nef ∧ c.manifest.wf cv

def Contract.normExtra (norm : Bytes → Bytes) (c : Contract) : Contract := { c with manifest := c.manifest.normExtra norm }

theorem toIntRange_intBytes (lo hi n : Int) (h : inInt64 n) (h1 : lo ≤ n) (h2 : n ≤ hi) :
    toIntRange lo hi (.int (intBytes n)) = some n := by
  simp [toIntRange, tryInteger_intBytes n h, h1, h2]

theorem Contract.roundtrip (H : Bytes → Bytes) (norm : Bytes → Bytes) (cv : Curve) (hs : cv.Sound) (c : Contract)
    (it : Item) (hw : c.wf H cv) (hi : c.toItem H norm = some it) :
    Contract.fromItem H cv it = some (c.normExtra norm) := by
  obtain ⟨⟨hid1, hid2⟩, huc, hh, hn, hm⟩ := hw
  unfold Contract.toItem nefBytes at hi
  simp only at hi
  split at hi
  · simp at hi
  · rename_i raw hraw
    split at hraw
    · simp at hraw
    · rename_i hsz
      simp at hraw; subst hraw
      simp at hi; subst hi
      have e63 : ((2 ^ 63 : Nat) : Int) = 9223372036854775808 := by decide
      have b1 : (-9223372036854775808 : Int) ≤ WireManifest.contractIdLo := by decide
      have b2 : WireManifest.contractIdHi < (9223372036854775808 : Int) := by decide
      have b3 : WireManifest.contractUpdateCounterHi < (9223372036854775808 : Int) := by decide
      have b4 : WireManifest.contractUpdateCounterLo ≤ (0 : Int) := by decide
      have hid64 : inInt64 c.id := by unfold inInt64; rw [e63]; omega
      have huc64 : inInt64 (c.updateCounter : Int) := by unfold inInt64; rw [e63]; omega
      have eid := toIntRange_intBytes WireManifest.contractIdLo WireManifest.contractIdHi c.id hid64 hid1 hid2
      have euc := toIntRange_intBytes WireManifest.contractUpdateCounterLo WireManifest.contractUpdateCounterHi
        (c.updateCounter : Int) huc64 (by omega) huc
      have hr := (nefC_lawful H).roundtrip c.nef [] hn
      rw [List.append_nil] at hr
      have enef : nefFromBytes H ((nefC H).enc c.nef) = some c.nef := by
        unfold nefFromBytes; rw [if_neg hsz, hr]; rfl
      have em := Manifest.roundtrip norm cv hs c.manifest hm
      simp only [Contract.fromItem, eid, euc, Item.tryBytes, hh, enef, em, Contract.normExtra]
      simp

theorem toIntRange_some (lo hi : Int) (x : Item) (v : Int) (h : toIntRange lo hi x = some v) : lo ≤ v ∧ v ≤ hi := by
  unfold toIntRange at h
  split at h
  · simp at h
  · split at h
    · rename_i hr; simp at h; subst h; exact hr
    · simp at h

theorem nefFromBytes_wf (H : Bytes → Bytes) (b : Bytes) (n : Nef) (h : nefFromBytes H b = some n) : (nefC H).wf n := by
  unfold nefFromBytes at h
  split at h
  · simp at h
  · cases hd : (nefC H).dec b with
    | none => rw [hd] at h; simp at h
    | some p =>
      obtain ⟨n', r⟩ := p
      rw [hd] at h; simp at h; subst h
      exact (nefC_lawful H).dec_wf _ _ _ hd

theorem Contract.fromItem_wf (H : Bytes → Bytes) (cv : Curve) (hs : cv.Sound) (it : Item) (c : Contract)
    (h : Contract.fromItem H cv it = some c) : c.wf H cv := by
  unfold Contract.fromItem at h
  simp only at h
  split at h
  · split at h
    · simp at h
    · rename_i id hid
      split at h
      · simp at h
      · rename_i uc huc
        split at h
        · simp at h
        · rename_i hb hhb
          split at h
          · simp at h
          · rename_i hlen
            split at h
            · simp at h
            · split at h
              · simp at h
              · rename_i nef hnef
                split at h
                · simp at h
                · rename_i m hm
                  simp at h; subst h
                  have r1 := toIntRange_some _ _ _ _ hid
                  have r2 := toIntRange_some _ _ _ _ huc
                  have b4 : (0 : Int) ≤ WireManifest.contractUpdateCounterLo := by decide
                  refine ⟨r1, ?_, by simpa using hlen, nefFromBytes_wf H _ _ hnef, Manifest.fromItem_wf cv hs _ _ hm⟩
                  simp only
                  omega
  · simp at h

theorem nefBytes_core (H : Bytes → Bytes) (c : Contract) (norm : Bytes → Bytes) (it : Item)
    (hi : c.toItem H norm = some it) : Item.wfCoreB false it = true := by
  unfold Contract.toItem at hi
  split at hi
  · simp at hi
  · simp at hi; subst hi
    simp [Item.wfCoreB, Item.wfCoreListB, intBytes_canon, intBytes_len32, Manifest.toItem_core]

/-- C17 (deployed contract, as ContractManagement stores it): what `SerializeConvertible` writes for a well-formed
contract is read back by `DeserializeConvertible` (whatever follows it) to the same contract. -/
theorem Contract.store_load (H : Bytes → Bytes) (norm : Bytes → Bytes) (cv : Curve) (hs : cv.Sound) (c : Contract)
    (b r : Bytes) (hw : c.wf H cv) (hst : c.store H norm = some b) :
    Contract.load H cv (b ++ r) = some (c.normExtra norm) := by
  unfold Contract.store at hst
  split at hst
  · simp at hst
  · rename_i it hi
    have hd := Item.serialize_roundtrip_core it b r (nefBytes_core H c norm it hi) hst
    simp only [Contract.load, hd]
    exact Contract.roundtrip H norm cv hs c it hw hi

/-- C17 (deployed contract) whatever the loader accepts is well-formed; if it can be stored again, the stored bytes
load to the same contract (Extra as normalised by `extraToStackItem`). -/
theorem Contract.reencode_stable (H : Bytes → Bytes) (norm : Bytes → Bytes) (cv : Curve) (hs : cv.Sound) (b e : Bytes)
    (c : Contract) (hl : Contract.load H cv b = some c) (hst : c.store H norm = some e) :
    c.wf H cv ∧ Contract.load H cv e = some (c.normExtra norm) := by
  have hw : c.wf H cv := by
    unfold Contract.load at hl
    split at hl
    · simp at hl
    · exact Contract.fromItem_wf H cv hs _ _ hl
  have := Contract.store_load H norm cv hs c e [] hw hst
  rw [List.append_nil] at this
  exact ⟨hw, this⟩

end NeoModel.Wire
