/-
C11 helper lemmas: the node store (`sget/sput/sdel`), the refcount map (`bumpH/applyEvs`) and
`flush`, each characterised per key.
-/
import NeoModel.Model.MptRc
import NeoModel.Proofs.MptRcOcc
set_option linter.unusedSimpArgs false
namespace NeoModel.MptRc
open NeoModel.Mpt

/-! ### store -/

theorem bytesLt_irrefl (a : Bytes) : bytesLt a a = false := by
  induction a with
  | nil => rfl
  | cons x a ih => simp [bytesLt, ih]

theorem sget_sdel (s : Store) (k k' : Bytes) : sget (sdel s k) k' = if k' = k then none else sget s k' := by
  induction s with
  | nil => simp [sdel, sget]
  | cons e s ih =>
    obtain ⟨a, c⟩ := e
    simp only [sdel, List.filter] at ih ⊢
    by_cases ha : a = k
    · subst ha
      simp only [ne_eq, not_true_eq_false, decide_false]
      rw [ih]
      by_cases hk : k' = a
      · simp [hk]
      · have : ¬ a = k' := fun e => hk e.symm
        simp [hk, sget, this]
    · simp only [ne_eq, ha, not_false_eq_true, decide_true, sget]
      rw [ih]
      by_cases hk : k' = k
      · subst hk; simp [ha]
      · simp [hk]

theorem sget_sins_ne (s : Store) (k k' : Bytes) (c : Cell) (h : k' ≠ k) : sget (sins k c s) k' = sget s k' := by
  induction s with
  | nil => simp [sins, sget, Ne.symm h]
  | cons e s ih =>
    obtain ⟨a, c'⟩ := e
    simp only [sins]
    split
    · simp only [sget, ih]
    · simp [sget, Ne.symm h]

theorem sget_sins_self (s : Store) (k : Bytes) (c : Cell) : sget (sins k c s) k = some c := by
  induction s with
  | nil => simp [sins, sget]
  | cons e s ih =>
    obtain ⟨a, c'⟩ := e
    simp only [sins]
    split
    · rename_i hlt
      have : a ≠ k := by
        intro e; subst e; rw [bytesLt_irrefl] at hlt; cases hlt
      simp [sget, this, ih]
    · simp [sget]

theorem sget_sput (s : Store) (k k' : Bytes) (c : Cell) :
    sget (sput s k c) k' = if k' = k then some c else sget s k' := by
  by_cases h : k' = k
  · subst h; simp [sput, sget_sins_self]
  · simp [sput, sget_sins_ne _ _ _ _ h, sget_sdel, h]

theorem sget_setCell (s : Store) (h k : Bytes) (oc : Option Cell) :
    sget (setCell s h oc) k = if k = h then oc else sget s k := by
  cases oc with
  | none => simp [setCell, sget_sdel]
  | some c => simp [setCell, sget_sput]

/-! ### refcount map -/

def mget (m : RcMap) (k : Bytes) : Option RcEntry :=
  match m with
  | [] => none
  | (k', e) :: r => if k' = k then some e else mget r k

def mkeys (m : RcMap) : List Bytes := m.map (·.1)

theorem mget_none_of_not_mem {m : RcMap} {k : Bytes} (h : k ∉ mkeys m) : mget m k = none := by
  induction m with
  | nil => rfl
  | cons x m ih =>
    obtain ⟨a, e⟩ := x
    simp only [mkeys, List.map_cons, List.mem_cons, not_or] at h
    simp only [mget]
    rw [if_neg (fun e => h.1 e.symm)]
    exact ih h.2

theorem mget_bumpH (m : RcMap) (h bs : Bytes) (d : Int) (k : Bytes) :
    mget (bumpH h bs d m) k =
      if k = h then
        some (match mget m h with
          | some e => { e with delta := e.delta + d }
          | none => { bytes := bs, initial := 0, delta := d })
      else mget m k := by
  induction m with
  | nil =>
    by_cases hk : k = h
    · subst hk; simp [bumpH, mget]
    · simp [bumpH, mget, hk, Ne.symm hk]
  | cons x m ih =>
    obtain ⟨a, e⟩ := x
    simp only [bumpH]
    by_cases ha : a = h
    · subst ha
      simp only [if_true, mget]
      by_cases hk : k = a
      · subst hk; simp
      · simp [hk, Ne.symm hk]
    · simp only [ha, if_false, mget]
      rw [ih]
      by_cases hk : k = h
      · subst hk; simp [ha]
      · simp only [hk, if_false]

theorem mkeys_bumpH (m : RcMap) (h bs : Bytes) (d : Int) :
    mkeys (bumpH h bs d m) = if h ∈ mkeys m then mkeys m else mkeys m ++ [h] := by
  induction m with
  | nil => simp [bumpH, mkeys]
  | cons x m ih =>
    obtain ⟨a, e⟩ := x
    simp only [bumpH]
    by_cases ha : a = h
    · subst ha; simp [mkeys]
    · simp only [ha, if_false, mkeys, List.map_cons, List.mem_cons] at ih ⊢
      rw [ih]
      have : ¬ h = a := fun e => ha e.symm
      simp only [this, false_or]
      split <;> simp_all

theorem nodup_bumpH (m : RcMap) (h bs : Bytes) (d : Int) (hn : (mkeys m).Nodup) :
    (mkeys (bumpH h bs d m)).Nodup := by
  rw [mkeys_bumpH]
  split
  · exact hn
  · rename_i hnm
    exact List.nodup_append.mpr ⟨hn, by simp, by
      intro a ha b hb
      simp at hb; subst hb
      intro e; subst e; exact hnm ha⟩

theorem mget_some_mem {m : RcMap} {k : Bytes} {e : RcEntry} (h : mget m k = some e) : k ∈ mkeys m := by
  induction m with
  | nil => simp [mget] at h
  | cons x m ih =>
    obtain ⟨a, e'⟩ := x
    simp only [mget] at h
    by_cases ha : a = k
    · subst ha; simp [mkeys]
    · rw [if_neg ha] at h
      simp only [mkeys, List.map_cons, List.mem_cons]
      exact Or.inr (ih h)

/-- "has hash `h`". -/
def hP (H : Bytes → Bytes) (h : Bytes) : Node → Bool := fun n => hash H n == h

/-- the delta recorded for hash `k` (0 if there is no entry). -/
def dlt (m : RcMap) (k : Bytes) : Int :=
  match mget m k with
  | some e => e.delta
  | none => 0

/-- the cached stored count for hash `k` (0 if there is no entry). -/
def ini (m : RcMap) (k : Bytes) : Nat :=
  match mget m k with
  | some e => e.initial
  | none => 0

/-- every entry's bytes hash to its key. -/
def MapOK (H : Bytes → Bytes) (m : RcMap) : Prop := ∀ k e, mget m k = some e → H e.bytes = k

theorem mget_bump (H : Bytes → Bytes) (m : RcMap) (ev : Ev) (k : Bytes) :
    mget (bump H m ev) k =
      if k = hash H ev.2 then
        some (match mget m (hash H ev.2) with
          | some e => { e with delta := e.delta + (if ev.1 then 1 else -1) }
          | none => { bytes := enc H ev.2, initial := 0, delta := (if ev.1 then 1 else -1) })
      else mget m k := by
  simp only [bump]; exact mget_bumpH _ _ _ _ _

theorem dlt_bump (H : Bytes → Bytes) (m : RcMap) (ev : Ev) (k : Bytes) :
    dlt (bump H m ev) k = dlt m k + net (hP H k) [ev] := by
  obtain ⟨sg, n⟩ := ev
  simp only [dlt, mget_bump]
  by_cases hk : k = hash H n
  · subst hk
    cases hm : mget m (hash H n) <;> cases sg <;>
      simp [net_single_add, net_single_rm, hP, b2n]
  · have : (hash H n == k) = false := by simpa using fun e => hk e.symm
    cases sg <;> simp [hk, net_single_add, net_single_rm, hP, b2n, this]

theorem ini_bump (H : Bytes → Bytes) (m : RcMap) (ev : Ev) (k : Bytes) :
    ini (bump H m ev) k = ini m k := by
  simp only [ini, mget_bump]
  by_cases hk : k = hash H ev.2
  · subst hk; cases hm : mget m (hash H ev.2) <;> simp
  · simp [hk]

theorem mapOK_bump (H : Bytes → Bytes) (m : RcMap) (ev : Ev) (h : MapOK H m) : MapOK H (bump H m ev) := by
  intro k e he
  rw [mget_bump] at he
  by_cases hk : k = hash H ev.2
  · subst hk
    simp only [if_true, Option.some.injEq] at he
    cases hm : mget m (hash H ev.2) with
    | none => rw [hm] at he; subst he; rfl
    | some e0 =>
      rw [hm] at he
      simp only at he
      subst he
      exact h _ e0 hm
  · rw [if_neg hk] at he; exact h _ _ he

theorem nodup_bump (H : Bytes → Bytes) (m : RcMap) (ev : Ev) (hn : (mkeys m).Nodup) :
    (mkeys (bump H m ev)).Nodup := nodup_bumpH _ _ _ _ hn

/-- trie.go:488-516 over a whole operation: the map's delta for hash `k` moves by the net of the
events on nodes with that hash; cached counts are untouched. -/
theorem applyEvs_spec (H : Bytes → Bytes) (evs : Evs) : ∀ (m : RcMap), (mkeys m).Nodup → MapOK H m →
    (mkeys (applyEvs H m evs)).Nodup ∧ MapOK H (applyEvs H m evs) ∧
    ∀ k, dlt (applyEvs H m evs) k = dlt m k + net (hP H k) evs ∧ ini (applyEvs H m evs) k = ini m k := by
  induction evs with
  | nil => intro m hn hok; exact ⟨hn, hok, fun k => by simp [applyEvs, net_nil]⟩
  | cons ev evs ih =>
    intro m hn hok
    have := ih (bump H m ev) (nodup_bump H m ev hn) (mapOK_bump H m ev hok)
    refine ⟨this.1, this.2.1, fun k => ?_⟩
    have hk := this.2.2 k
    simp only [applyEvs, List.foldl_cons] at hk ⊢
    rw [hk.1, hk.2, dlt_bump, ini_bump]
    have : net (hP H k) (ev :: evs) = net (hP H k) [ev] + net (hP H k) evs := by
      rw [← net_append]; rfl
    rw [this]
    exact ⟨by omega, rfl⟩

/-! ### flush, per key -/

/-- the record under a hash after `Flush`, given the record before and the map entry (if any). -/
def cellAfter (mode : Mode) (idx : Nat) (c : Option Cell) : Option RcEntry → Option Cell
  | none => c
  | some e =>
    match estep mode idx c e with
    | some (oc, _) => oc
    | none => c

/-- the map entry after `Flush`. -/
def entAfter (mode : Mode) (idx : Nat) (c : Option Cell) : Option RcEntry → Option RcEntry
  | none => none
  | some e =>
    match estep mode idx c e with
    | some (_, oe) => oe
    | none => none

theorem flush_spec (mode : Mode) (idx : Nat) : ∀ (m : RcMap) (s : Store), (mkeys m).Nodup →
    (∀ k e, mget m k = some e → estep mode idx (sget s k) e ≠ none) →
    ∃ m' s', flush mode idx m s = some (m', s') ∧
      (∀ k, sget s' k = cellAfter mode idx (sget s k) (mget m k)) ∧
      (∀ k, mget m' k = entAfter mode idx (sget s k) (mget m k)) ∧
      (mkeys m').Nodup := by
  intro m
  induction m with
  | nil => intro s _ _; exact ⟨[], s, rfl, fun k => rfl, fun k => rfl, List.nodup_nil⟩
  | cons x rest ih =>
    intro s hn hok
    obtain ⟨h, e⟩ := x
    have hn' := List.nodup_cons.mp hn
    have hh : mget ((h, e) :: rest) h = some e := by simp [mget]
    cases hs : estep mode idx (sget s h) e with
    | none => exact absurd hs (hok h e hh)
    | some r =>
      obtain ⟨oc, oe⟩ := r
      have hrest : ∀ k e', mget rest k = some e' → k ≠ h := by
        intro k e' hk hkh; subst hkh; exact hn'.1 (mget_some_mem hk)
      obtain ⟨m'', s', hf, hcell, hent, hnd⟩ := ih (setCell s h oc) hn'.2 (by
        intro k e' hk
        have hne := hrest k e' hk
        rw [sget_setCell, if_neg hne]
        apply hok k e'
        simp only [mget]; rw [if_neg (Ne.symm hne)]; exact hk)
      have hnone : mget rest h = none := mget_none_of_not_mem hn'.1
      have hcellk : ∀ k, sget s' k = cellAfter mode idx (sget s k) (mget ((h, e) :: rest) k) := by
        intro k
        rw [hcell k, sget_setCell]
        by_cases hk : k = h
        · subst hk
          simp [hnone, cellAfter, mget, hs]
        · have : ¬ h = k := fun e => hk e.symm
          simp [hk, mget, this]
      have hnotin : h ∉ mkeys m'' := by
        intro hmem
        have : mget m'' h ≠ none := by
          clear hent hcell hf hcellk
          induction m'' with
          | nil => simp [mkeys] at hmem
          | cons y ys ihy =>
            obtain ⟨a, ea⟩ := y
            simp only [mget]
            by_cases ha : a = h
            · simp [ha]
            · simp only [ha, if_false]
              apply ihy
              · exact (List.nodup_cons.mp hnd).2
              · simp only [mkeys, List.map_cons, List.mem_cons] at hmem
                rcases hmem with hm | hm
                · exact absurd hm.symm ha
                · exact hm
        apply this
        rw [hent h, hnone]; rfl
      cases oe with
      | none =>
        refine ⟨m'', s', ?_, hcellk, ?_, hnd⟩
        · simp only [flush, hs, hf, List.nil_append]
        · intro k
          by_cases hk : k = h
          · subst hk
            rw [mget_none_of_not_mem hnotin]
            simp [mget, entAfter, hs]
          · have hne : ¬ h = k := fun e => hk e.symm
            have h2 := hent k
            rw [sget_setCell, if_neg hk] at h2
            simp [mget, hne, h2]
      | some e' =>
        refine ⟨(h, e') :: m'', s', ?_, hcellk, ?_, ?_⟩
        · simp only [flush, hs, hf, List.singleton_append]
        · intro k
          by_cases hk : k = h
          · subst hk
            simp [mget, entAfter, hs]
          · have hne : ¬ h = k := fun e => hk e.symm
            have h2 := hent k
            rw [sget_setCell, if_neg hk] at h2
            simp [mget, hne, h2]
        · simp only [mkeys, List.map_cons]
          exact List.nodup_cons.mpr ⟨hnotin, hnd⟩

end NeoModel.MptRc
