/-
C09 helper lemmas: the pure merge is sorted and holds exactly the cached values plus the lower
items no cached entry shadows.
-/
import NeoModel.Proofs.StoreMerge
set_option linter.unusedSimpArgs false
set_option linter.unusedVariables false
namespace NeoModel.Store

/-- strictly ordered by key in the direction of the scan. -/
def SortedK {β : Type} (bw : Bool) (l : List (Key × β)) : Prop := l.Pairwise (fun a b => ltDir bw a.1 b.1 = true)

theorem mem_emitOf (m : KVE) (q : Key) (w : Val) : (q, w) ∈ emitOf m ↔ m = (q, some w) := by
  obtain ⟨a, b⟩ := m
  cases b with
  | none => simp [emitOf]
  | some v => simp [emitOf]; constructor <;> (rintro ⟨h1, h2⟩; exact ⟨h1.symm, h2.symm⟩)

theorem mem_flatMap_emitOf (l : List KVE) (q : Key) (w : Val) :
    (q, w) ∈ l.flatMap emitOf ↔ (q, some w) ∈ l := by
  simp only [List.mem_flatMap, mem_emitOf]
  constructor
  · rintro ⟨m, hm, rfl⟩; exact hm
  · intro h; exact ⟨_, h, rfl⟩

theorem key_of_mem_flatMap_emitOf (l : List KVE) (e : KV) (h : e ∈ l.flatMap emitOf) : ∃ m ∈ l, m.1 = e.1 := by
  obtain ⟨q, w⟩ := e
  exact ⟨_, (mem_flatMap_emitOf l q w).mp h, rfl⟩

theorem sorted_flatMap_emitOf (bw : Bool) (l : List KVE) (h : SortedK bw l) : SortedK bw (l.flatMap emitOf) := by
  unfold SortedK at *
  induction l with
  | nil => simp
  | cons m rest ih =>
    rw [List.pairwise_cons] at h
    rw [List.flatMap_cons, List.pairwise_append]
    refine ⟨?_, ih h.2, ?_⟩
    · cases hm : m.2 <;> simp [emitOf, hm]
    · intro a ha b hb
      obtain ⟨m', hm', hk⟩ := key_of_mem_flatMap_emitOf rest b hb
      have : a.1 = m.1 := by
        cases hm : m.2 with
        | none => simp [emitOf, hm] at ha
        | some v => simp [emitOf, hm] at ha; rw [ha]
      rw [this, ← hk]; exact h.1 m' hm'

theorem mem_takeWhile_imp' {α : Type} (p : α → Bool) (l : List α) (x : α) (h : x ∈ l.takeWhile p) : p x = true := by
  induction l with
  | nil => cases h
  | cons a t ih =>
    by_cases ha : p a = true
    · rw [List.takeWhile_cons_of_pos ha] at h
      rcases List.mem_cons.mp h with rfl | h'
      · exact ha
      · exact ih h'
    · rw [List.takeWhile_cons_of_neg ha] at h; cases h

theorem stepRest_eq (bw : Bool) (k : Key) (pend : List KVE) :
    stepRest bw k pend = pend.dropWhile (fun m => ltDir bw m.1 k) := by
  induction pend with
  | nil => rfl
  | cons m rest ih =>
    by_cases h : ltDir bw m.1 k = true
    · simp [stepRest, h, ih, List.dropWhile_cons]
    · simp [stepRest, h, List.dropWhile_cons]

/-- the lower item is emitted unless the first pending cached item has the same key. -/
def tailItem (k : Key) (v : Val) : List KVE → List KV
  | [] => [(k, v)]
  | m :: _ => if m.1 != k then [(k, v)] else []

theorem stepItems_eq (bw : Bool) (k : Key) (v : Val) (pend : List KVE) :
    stepItems bw k v pend =
      (pend.takeWhile (fun m => ltDir bw m.1 k)).flatMap emitOf ++ tailItem k v (stepRest bw k pend) := by
  induction pend with
  | nil => rfl
  | cons m rest ih =>
    by_cases h : ltDir bw m.1 k = true
    · simp [stepItems, stepRest, h, ih, List.takeWhile_cons, List.append_assoc]
    · simp [stepItems, stepRest, h, List.takeWhile_cons, tailItem]

theorem sorted_sublist {β : Type} {bw : Bool} {l l' : List (Key × β)} (h : SortedK bw l) (hs : l'.Sublist l) : SortedK bw l' :=
  List.Pairwise.sublist hs h

/-- facts about the split of a sorted pending list at `k`. -/
theorem split_facts (bw : Bool) (k : Key) (pend : List KVE) (hs : SortedK bw pend) :
    let D := pend.takeWhile (fun m => ltDir bw m.1 k)
    let R := stepRest bw k pend
    pend = D ++ R ∧ (∀ m ∈ D, ltDir bw m.1 k = true) ∧ SortedK bw D ∧ SortedK bw R ∧
      (∀ m ∈ R, m.1 = k ∨ ltDir bw k m.1 = true) ∧
      ((tailItem k ([] : Val) R).length = 1 ↔ ∀ m ∈ pend, m.1 ≠ k) := by
  rw [stepRest_eq]
  have happ : pend = pend.takeWhile (fun m => ltDir bw m.1 k) ++ pend.dropWhile (fun m => ltDir bw m.1 k) :=
    (List.takeWhile_append_dropWhile).symm
  have hD : ∀ m ∈ pend.takeWhile (fun m => ltDir bw m.1 k), ltDir bw m.1 k = true := by
    intro m hm; exact mem_takeWhile_imp' (fun m => ltDir bw m.1 k) pend m hm
  have hsD : SortedK bw (pend.takeWhile (fun m => ltDir bw m.1 k)) := sorted_sublist hs (List.takeWhile_sublist _)
  have hsR : SortedK bw (pend.dropWhile (fun m => ltDir bw m.1 k)) := sorted_sublist hs (List.dropWhile_sublist _)
  have hR : ∀ m ∈ pend.dropWhile (fun m => ltDir bw m.1 k), m.1 = k ∨ ltDir bw k m.1 = true := by
    intro m hm
    cases hdw : pend.dropWhile (fun m => ltDir bw m.1 k) with
    | nil => rw [hdw] at hm; cases hm
    | cons h t =>
      have hh : ¬ (ltDir bw h.1 k = true) := by
        have := List.head_dropWhile_not (fun (m : KVE) => ltDir bw m.1 k) (l := pend) (by rw [hdw]; simp)
        simp only [hdw, List.head_cons] at this
        simp [this]
      have hhead : h.1 = k ∨ ltDir bw k h.1 = true := by
        rcases ltDir_tri bw h.1 k with h1 | h1 | h1
        · exact absurd h1 hh
        · exact Or.inl h1
        · exact Or.inr h1
      rw [hdw] at hm hsR
      rcases List.mem_cons.mp hm with rfl | hm'
      · exact hhead
      · right
        have hlt : ltDir bw h.1 m.1 = true := (List.pairwise_cons.mp hsR).1 m hm'
        rcases hhead with h1 | h1
        · rw [← h1]; exact hlt
        · exact ltDir_trans h1 hlt
  refine ⟨happ, hD, hsD, hsR, hR, ?_⟩
  constructor
  · intro hl m hm
    rw [happ] at hm
    rcases List.mem_append.mp hm with h1 | h1
    · intro e; have := hD m h1; rw [e, ltDir_irrefl] at this; cases this
    · cases hdw : pend.dropWhile (fun m => ltDir bw m.1 k) with
      | nil => rw [hdw] at h1; cases h1
      | cons h t =>
        rw [hdw] at hl h1 hsR
        simp only [tailItem] at hl
        have hne : h.1 ≠ k := by
          intro e; simp [e] at hl
        have hgt : ltDir bw k h.1 = true := by
          rcases hR h (by rw [hdw]; exact List.mem_cons_self) with h2 | h2
          · exact absurd h2 hne
          · exact h2
        rcases List.mem_cons.mp h1 with rfl | hm'
        · exact hne
        · intro e
          have hlt : ltDir bw h.1 m.1 = true := (List.pairwise_cons.mp hsR).1 m hm'
          have := ltDir_trans hgt hlt
          rw [e, ltDir_irrefl] at this; cases this
  · intro hall
    cases hdw : pend.dropWhile (fun m => ltDir bw m.1 k) with
    | nil => simp [tailItem]
    | cons h t =>
      have : h ∈ pend := by
        rw [happ, hdw]; exact List.mem_append_right _ List.mem_cons_self
      have hne := hall h this
      simp [tailItem, hne]

theorem mem_tailItem (k : Key) (v : Val) (R : List KVE) (e : KV) :
    e ∈ tailItem k v R ↔ e = (k, v) ∧ (tailItem k ([] : Val) R).length = 1 := by
  cases R with
  | nil => simp [tailItem]
  | cons m t =>
    by_cases h : (m.1 != k) = true
    · simp [tailItem, h]
    · simp [tailItem, h]

/-- membership in the merge: a cached value, or a lower item no cached entry (value or deletion) shadows. -/
theorem mem_mergeP (bw : Bool) (ps : List KV) (pend : List KVE) (hp : SortedK bw pend) (hps : SortedK bw ps)
    (q : Key) (w : Val) :
    (q, w) ∈ mergeP bw pend ps ↔ (q, some w) ∈ pend ∨ ((q, w) ∈ ps ∧ ∀ m ∈ pend, m.1 ≠ q) := by
  induction ps generalizing pend with
  | nil => simp only [mergeP]; rw [mem_flatMap_emitOf]; simp
  | cons kv ps ih =>
    obtain ⟨k, v⟩ := kv
    have hps' := List.pairwise_cons.mp hps
    obtain ⟨happ, hD, hsD, hsR, hR, htail⟩ := split_facts bw k pend hp
    simp only [mergeP]
    rw [List.mem_append, ih _ hsR hps'.2, stepItems_eq, List.mem_append, mem_flatMap_emitOf, mem_tailItem, htail]
    have hmemP : ∀ x, x ∈ pend ↔ x ∈ pend.takeWhile (fun m => ltDir bw m.1 k) ∨ x ∈ stepRest bw k pend := by
      intro x; rw [← List.mem_append, ← happ]
    constructor
    · rintro ((h | ⟨h1, h2⟩) | (h | ⟨h1, h2⟩))
      · exact Or.inl ((hmemP _).mpr (Or.inl h))
      · right
        rw [Prod.mk.injEq] at h1
        refine ⟨by rw [h1.1, h1.2]; exact List.mem_cons_self, ?_⟩
        rw [h1.1]; exact h2
      · exact Or.inl ((hmemP _).mpr (Or.inr h))
      · right
        refine ⟨List.mem_cons_of_mem _ h1, ?_⟩
        intro m hm
        rcases (hmemP m).mp hm with hm' | hm'
        · intro e
          have h3 := hD m hm'
          have h4 : ltDir bw k q = true := hps'.1 (q, w) h1
          have := ltDir_trans h3 h4
          rw [e, ltDir_irrefl] at this; cases this
        · exact h2 m hm'
    · rintro (h | ⟨h1, h2⟩)
      · rcases (hmemP _).mp h with h' | h'
        · exact Or.inl (Or.inl h')
        · exact Or.inr (Or.inl h')
      · rcases List.mem_cons.mp h1 with h' | h'
        · left; right
          rw [Prod.mk.injEq] at h'
          refine ⟨by rw [h'.1, h'.2], ?_⟩
          rw [← h'.1]; exact h2
        · right; right
          exact ⟨h', fun m hm => h2 m ((hmemP m).mpr (Or.inr hm))⟩

theorem sorted_mergeP (bw : Bool) (ps : List KV) (pend : List KVE) (hp : SortedK bw pend) (hps : SortedK bw ps) :
    SortedK bw (mergeP bw pend ps) := by
  induction ps generalizing pend with
  | nil => exact sorted_flatMap_emitOf bw pend hp
  | cons kv ps ih =>
    obtain ⟨k, v⟩ := kv
    have hps' := List.pairwise_cons.mp hps
    obtain ⟨happ, hD, hsD, hsR, hR, htail⟩ := split_facts bw k pend hp
    simp only [mergeP]
    unfold SortedK
    rw [List.pairwise_append]
    refine ⟨?_, ih _ hsR hps'.2, ?_⟩
    · rw [stepItems_eq, List.pairwise_append]
      refine ⟨sorted_flatMap_emitOf bw _ hsD, ?_, ?_⟩
      · cases hR' : stepRest bw k pend with
        | nil => simp [tailItem]
        | cons m t => by_cases h : (m.1 != k) = true <;> simp [tailItem, h]
      · intro a ha b hb
        obtain ⟨m, hm, hk⟩ := key_of_mem_flatMap_emitOf _ a ha
        have hb' := (mem_tailItem k v _ b).mp hb
        rw [hb'.1, ← hk]; exact hD m hm
    · intro a ha b hb
      obtain ⟨bq, bw'⟩ := b
      have hb' := (mem_mergeP bw ps _ hsR hps'.2 bq bw').mp hb
      rw [stepItems_eq, List.mem_append] at ha
      -- keys of `a`: below k, or k itself (and then nothing pending equals k)
      have hbk : (bq = k ∧ (∃ m ∈ stepRest bw k pend, m.1 = k)) ∨ ltDir bw k bq = true := by
        rcases hb' with h | ⟨h, _⟩
        · rcases hR _ h with h1 | h1
          · exact Or.inl ⟨h1, _, h, h1⟩
          · exact Or.inr h1
        · exact Or.inr (hps'.1 _ h)
      rcases ha with ha | ha
      · obtain ⟨m, hm, hk⟩ := key_of_mem_flatMap_emitOf _ a ha
        have h1 := hD m hm
        rw [← hk]
        rcases hbk with ⟨h2, _⟩ | h2
        · rw [h2]; exact h1
        · exact ltDir_trans h1 h2
      · have ha' := (mem_tailItem k v _ a).mp ha
        rw [ha'.1]
        rcases hbk with ⟨h2, m, hm, hmk⟩ | h2
        · have := (htail.mp ha'.2) m (by rw [happ]; exact List.mem_append_right _ hm)
          exact absurd hmk this
        · exact h2

end NeoModel.Store
