/-
C09 helper lemmas: `flatten` is an abstraction function — reads return it, writes and change sets
update it, every flush step leaves it alone.
-/
import NeoModel.Proofs.StoreMap
set_option linter.unusedSimpArgs false
namespace NeoModel.Store

theorem get_flatten (s : Store) (k : Key) : s.get k = s.flatten k := by
  induction s with
  | memB m st =>
    simp only [Store.get, Store.flatten, overlay, layerSays, Layer.choose, SpecMap.empty]
    cases mapGet (if isStor k = true then st else m) k with
    | none => rfl
    | some x => cases x <;> rfl
  | level db => rfl
  | bolt db => rfl
  | cached L ps ih =>
    simp only [Store.get, Store.flatten, overlay, layerSays, ih]
    cases mapGet (L.choose k) k with
    | none => rfl
    | some x => cases x <;> rfl

theorem isStor_of_eq {a b : Key} (h : a = b) : isStor a = isStor b := by rw [h]

theorem layerSays_set (L : Layer) (k : Key) (v : Option Val) (q : Key) :
    layerSays (L.set k v) q = if q = k then some v else layerSays L q := by
  unfold layerSays Layer.set Layer.choose
  by_cases hk : isStor k = true <;> by_cases hq : isStor q = true <;> simp [hk, hq, mapGet_set]
  · intro e; rw [e] at hq; exact absurd hk hq
  · intro e; rw [e] at hq; exact absurd hq hk

theorem overlay_set (L : Layer) (f : SpecMap) (k : Key) (v : Option Val) :
    overlay (L.set k v) f = (overlay L f).set k v := by
  funext q
  simp only [overlay, SpecMap.set, layerSays_set]
  by_cases h : q = k
  · simp [h]; cases v <;> rfl
  · simp [h]

/-- a write to the top store is that write on the ordered map. -/
theorem flatten_put (L : Layer) (ps : Store) (k : Key) (v : Option Val) :
    ((Store.cached L ps).put k v).flatten = (Store.cached L ps).flatten.set k v := by
  simp only [Store.put, Store.flatten, overlay_set]

theorem layerSays_putCS (L : Layer) (p st : GoMap) (hp : MapWF p) (hst : MapWF st) (q : Key) :
    layerSays (L.putCS p st) q =
      match layerSays { priv := false, mem := p, stor := st } q with
      | some x => some x
      | none => layerSays L q := by
  unfold layerSays Layer.putCS Layer.choose
  by_cases hq : isStor q = true
  · simp only [hq, if_true, mapGet_copy _ _ hst]
    cases mapGet st q <;> rfl
  · simp only [hq, Bool.false_eq_true, ↓reduceIte, mapGet_copy _ _ hp]
    cases mapGet p q <;> rfl

/-- a change set is a layer laid on top. -/
theorem overlay_putCS (L : Layer) (p st : GoMap) (hp : MapWF p) (hst : MapWF st) (f : SpecMap) :
    overlay (L.putCS p st) f = overlay { priv := false, mem := p, stor := st } (overlay L f) := by
  funext q
  simp only [overlay, layerSays_putCS L p st hp hst]
  cases layerSays { priv := false, mem := p, stor := st } q with
  | none => rfl
  | some x => cases x <;> rfl

theorem overlay_congr_says (L L' : Layer) (f : SpecMap) (h : ∀ q, layerSays L q = layerSays L' q) :
    overlay L f = overlay L' f := by
  funext q; simp only [overlay, h]

theorem overlay_idem (L : Layer) (f : SpecMap) : overlay L (overlay L f) = overlay L f := by
  funext q
  simp only [overlay]
  cases h : layerSays L q with
  | none => simp [h]
  | some x => cases x <;> rfl

theorem overlay_empty_layer (pr : Bool) (nm : Bool) (f : SpecMap) :
    overlay { priv := pr, mem := [], stor := [], nilMaps := nm } f = f := by
  funext q
  simp [overlay, layerSays, Layer.choose, mapGet_nil]

/-! disk: lookup after dbApply -/
theorem lookup_cons (e : KV) (db : List KV) (q : Key) :
    List.lookup q (e :: db) = if q = e.1 then some e.2 else List.lookup q db := by
  obtain ⟨a, b⟩ := e
  simp only [List.lookup]
  by_cases h : q = a
  · subst h; simp
  · have : (q == a) = false := by simpa using h
    simp [this, h]

theorem lookup_filter_ne (db : List KV) (k q : Key) :
    List.lookup q (db.filter (fun e => e.1 != k)) = if q = k then none else List.lookup q db := by
  induction db with
  | nil => simp
  | cons e m ih =>
    by_cases he : e.1 = k
    · have : (e.1 != k) = false := by simp [he]
      rw [List.filter_cons_of_neg (by simp [this])]
      rw [ih, lookup_cons]
      by_cases hq : q = k
      · simp [hq]
      · simp [hq, he]
    · have : (e.1 != k) = true := by simp [he]
      rw [List.filter_cons_of_pos (by simp [this])]
      rw [lookup_cons, lookup_cons, ih]
      by_cases hq : q = k
      · subst hq
        have : ¬ q = e.1 := fun h => he h.symm
        simp [this]
      · simp [hq]

theorem lookup_dbPut (db : List KV) (k : Key) (v : Val) (q : Key) :
    List.lookup q (dbPut db k v) = if q = k then some v else List.lookup q db := by
  unfold dbPut; rw [lookup_cons, lookup_filter_ne]; by_cases h : q = k <;> simp [h]

theorem lookup_dbDel (db : List KV) (k q : Key) :
    List.lookup q (dbDel db k) = if q = k then none else List.lookup q db := lookup_filter_ne db k q

theorem lookup_dbApply (db : List KV) (m : GoMap) (hm : MapWF m) (q : Key) :
    List.lookup q (dbApply db m) =
      match mapGet m q with
      | some (some v) => some v
      | some none => none
      | none => List.lookup q db := by
  unfold dbApply
  induction m generalizing db with
  | nil => simp [mapGet_nil]
  | cons e m ih =>
    unfold MapWF at hm
    simp only [List.map_cons, List.nodup_cons] at hm
    rw [List.foldl_cons, ih _ hm.2, mapGet_cons]
    by_cases hq : q = e.1
    · rw [hq]
      have : mapGet m e.1 = none := (mapGet_none_iff m e.1).mpr hm.1
      simp only [this, if_true]
      cases e.2 with
      | none => simp [lookup_dbDel]
      | some v => simp [lookup_dbPut]
    · simp only [hq, if_false]
      cases mapGet m q with
      | some v => cases v <;> rfl
      | none =>
        cases e.2 with
        | none => simp [lookup_dbDel, hq]
        | some v => simp [lookup_dbPut, hq]

theorem keys_filter_sub' (db : List KV) (p : KV → Bool) (k : Key)
    (h : k ∈ (db.filter p).map Prod.fst) : k ∈ db.map Prod.fst := by
  simp only [List.mem_map, List.mem_filter] at *
  obtain ⟨e, ⟨he, _⟩, rfl⟩ := h
  exact ⟨e, he, rfl⟩

theorem DbWF_filter (db : List KV) (p : KV → Bool) (h : DbWF db) : DbWF (db.filter p) := by
  unfold DbWF at *
  induction db with
  | nil => simp
  | cons e m ih =>
    simp only [List.map_cons, List.nodup_cons] at h
    by_cases hp : p e = true
    · rw [List.filter_cons_of_pos hp]
      simp only [List.map_cons, List.nodup_cons]
      exact ⟨fun hin => h.1 (keys_filter_sub' m p _ hin), ih h.2⟩
    · rw [List.filter_cons_of_neg hp]; exact ih h.2

theorem DbWF_put (db : List KV) (k : Key) (v : Val) (h : DbWF db) : DbWF (dbPut db k v) := by
  unfold dbPut DbWF
  simp only [List.map_cons, List.nodup_cons]
  refine ⟨?_, DbWF_filter db _ h⟩
  intro hin
  simp only [List.mem_map, List.mem_filter] at hin
  obtain ⟨e, ⟨_, hne⟩, he⟩ := hin
  simp [he] at hne

theorem DbWF_apply (db : List KV) (m : GoMap) (h : DbWF db) : DbWF (dbApply db m) := by
  unfold dbApply
  induction m generalizing db with
  | nil => exact h
  | cons e m ih =>
    rw [List.foldl_cons]; apply ih
    cases e.2 with
    | none => exact DbWF_filter db _ h
    | some v => exact DbWF_put db _ v h

/-- `PutChangeSet` on any store = the batch laid over the ordered map, all of it at once. -/
theorem flatten_putChangeSet (s : Store) (p st : GoMap) (hp : MapWF p) (hst : MapWF st)
    (hpl : Placed p st) :
    (s.putChangeSet p st).flatten = overlay { priv := false, mem := p, stor := st } s.flatten := by
  cases s with
  | memB m s0 =>
    simp only [Store.putChangeSet, Store.flatten]
    have := overlay_putCS { priv := false, mem := m, stor := s0 } p st hp hst SpecMap.empty
    simpa [Layer.putCS] using this
  | cached L ps =>
    simp only [Store.putChangeSet, Store.flatten]
    exact overlay_putCS L p st hp hst _
  | level db =>
    funext q
    simp only [Store.putChangeSet, Store.flatten, overlay, layerSays, Layer.choose]
    rw [lookup_dbApply _ _ hst, lookup_dbApply _ _ hp]
    by_cases hq : isStor q = true
    · have : mapGet p q = none := by
        rw [mapGet_none_iff]; intro hin
        obtain ⟨e, he, rfl⟩ := List.mem_map.mp hin
        have := hpl.1 e he; rw [this] at hq; cases hq
      simp only [hq, this, if_true]
      cases mapGet st q with
      | none => rfl
      | some x => cases x <;> rfl
    · have : mapGet st q = none := by
        rw [mapGet_none_iff]; intro hin
        obtain ⟨e, he, rfl⟩ := List.mem_map.mp hin
        have := hpl.2 e he; exact hq this
      simp only [hq, this, Bool.false_eq_true, ↓reduceIte]
      cases mapGet p q with
      | none => rfl
      | some x => cases x <;> rfl
  | bolt db =>
    funext q
    simp only [Store.putChangeSet, Store.flatten, overlay, layerSays, Layer.choose]
    rw [lookup_dbApply _ _ hst, lookup_dbApply _ _ hp]
    by_cases hq : isStor q = true
    · have : mapGet p q = none := by
        rw [mapGet_none_iff]; intro hin
        obtain ⟨e, he, rfl⟩ := List.mem_map.mp hin
        have := hpl.1 e he; rw [this] at hq; cases hq
      simp only [hq, this, if_true]
      cases mapGet st q with
      | none => rfl
      | some x => cases x <;> rfl
    · have : mapGet st q = none := by
        rw [mapGet_none_iff]; intro hin
        obtain ⟨e, he, rfl⟩ := List.mem_map.mp hin
        have := hpl.2 e he; exact hq this
      simp only [hq, this, Bool.false_eq_true, ↓reduceIte]
      cases mapGet p q with
      | none => rfl
      | some x => cases x <;> rfl

end NeoModel.Store
