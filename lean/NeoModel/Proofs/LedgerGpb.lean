/-
C01 — NEO gasPerBlock with its guards (Guarded.gpb), FULL statement: the cache is append-only (two sets in one block
leave two records of the same index), storage overwrites, InitializeCache reads the records back sorted. The caches
of a running and a restarted node differ as lists; GetGASPerBlock answers alike for EVERY index.

  GpbJ b s c    c is ordered by index (≤), every index ≤ b, for every index the LAST cached record is the stored
                one, storage has one record per index
-/
import NeoModel.Model.Ledger.Guarded
import NeoModel.Proofs.LedgerRel
import NeoModel.Proofs.LedgerComp
import NeoModel.Proofs.LedgerProduct
namespace NeoModel.Ledger.Guarded
open NeoModel.Ledger Components Comp

abbrev Recs := List (Nat × Int)

structure GpbJ (b : Nat) (s c : Recs) : Prop where
  sorted : c.Pairwise (fun x y => x.1 ≤ y.1)
  bound : ∀ e ∈ c, e.1 ≤ b
  agree : ∀ k, aget s k = aget c.reverse k
  nodup : (s.map (·.1)).Nodup

theorem GpbJ.mono {b b' : Nat} {s c : Recs} (h : GpbJ b s c) (hb : b ≤ b') : GpbJ b' s c :=
  ⟨h.sorted, fun e he => Nat.le_trans (h.bound e he) hb, h.agree, h.nodup⟩

theorem aget_cons (x : Nat × Int) (l : Recs) (k : Nat) :
    aget (x :: l) k = if x.1 == k then some x.2 else aget l k := by
  simp only [aget, List.find?]
  cases h : (x.1 == k) <;> simp

theorem keys_aput_nodup (s : Recs) (k : Nat) (v : Int) (h : (s.map (·.1)).Nodup) : ((aput s k v).map (·.1)).Nodup := by
  simp only [aput, List.map_cons, List.nodup_cons]
  refine ⟨?_, ?_⟩
  · intro hm
    obtain ⟨e, he, hk⟩ := List.mem_map.mp hm
    have := (List.mem_filter.mp he).2
    simp at this
    exact this hk
  · exact h.sublist ((List.filter_sublist).map _)

/-- one successful setGasPerBlock in a block of index `h` -/
theorem gpb_step (h : Nat) (s c : Recs) (v : Int) (hj : GpbJ (h + 1) s c) :
    GpbJ (h + 1) (aput s (h + 1) v) (c ++ [(h + 1, v)]) where
  sorted := by
    apply List.pairwise_append.mpr
    refine ⟨hj.sorted, List.pairwise_singleton _ _, ?_⟩
    intro a ha b hb
    simp only [List.mem_singleton] at hb
    subst hb
    exact hj.bound a ha
  bound := by
    intro e he
    simp only [List.mem_append, List.mem_singleton] at he
    rcases he with he | he
    · exact hj.bound e he
    · subst he; exact Nat.le_refl _
  agree := by
    intro k
    simp only [List.reverse_append, List.reverse_singleton, List.singleton_append]
    rw [aget_cons]
    by_cases e : k = h + 1
    · subst e; simp [aget_aput_same]
    · have : ((h + 1, v) : Nat × Int).1 ≠ k := fun x => e x.symm
      simp only [beq_iff_eq, this, if_false]
      rw [aget_aput_other _ _ _ _ e]
      exact hj.agree k
  nodup := keys_aput_nodup s _ v hj.nodup

theorem gpb_rel (e : Env) : (gpb.fix e).Rel (fun h => GpbJ (h + 1)) where
  step := by
    intro h s c o s' c' hj he
    simp only [EComp.fix, gpb] at he
    split at he; · simp at he
    split at he; · simp at he
    simp only [Option.some.injEq, Prod.mk.injEq] at he
    rw [← he.1, ← he.2]
    exact gpb_step h s c o.op hj
  noLeak := fun _ _ => rfl
  blind := by
    intro s c₁ c₂ h o _ _
    simp only [EComp.fix, gpb]
    split
    · rfl
    · split <;> rfl

-- lookup ---------------------------------------------------------------------------------------------------------

/-- GetGASPerBlock as a function of "the record of index k, if any" alone: the record of the greatest index ≤ i -/
def specF (f : Nat → Option Int) : Nat → Option Int
  | 0 => f 0
  | i + 1 => match f (i + 1) with
    | some v => some v
    | none => specF f i

theorem find_eq_none_of_le (d : Recs) (i : Nat) (h : ∀ y ∈ d, y.1 ≤ i) : d.find? (fun e => e.1 == i + 1) = none := by
  apply List.find?_eq_none.mpr
  intro y hy
  have := h y hy
  simp; omega

theorem find_desc (d : Recs) (i : Nat) (hd : d.Pairwise (fun a b => b.1 ≤ a.1)) :
    d.find? (fun e => decide (e.1 ≤ i + 1)) =
      match d.find? (fun e => e.1 == i + 1) with
      | some x => some x
      | none => d.find? (fun e => decide (e.1 ≤ i)) := by
  induction d with
  | nil => rfl
  | cons x r ih =>
    have hp := List.pairwise_cons.mp hd
    by_cases h1 : x.1 = i + 1
    · simp [List.find?, h1]
    · by_cases h2 : x.1 ≤ i
      · have hr : ∀ y ∈ r, y.1 ≤ i := fun y hy => Nat.le_trans (hp.1 y hy) h2
        have hn := find_eq_none_of_le r i hr
        have a : decide (x.1 ≤ i + 1) = true := by simp; omega
        have b : (x.1 == i + 1) = false := by simp [h1]
        have c : decide (x.1 ≤ i) = true := by simp [h2]
        simp only [List.find?, a, b, c, hn]
      · have a : decide (x.1 ≤ i + 1) = false := by simp; omega
        have b : (x.1 == i + 1) = false := by simp [h1]
        have c : decide (x.1 ≤ i) = false := by simp [h2]
        simp only [List.find?, a, b, c]
        exact ih hp.2

theorem gpbLookup_succ (c : Recs) (i : Nat) (hs : c.Pairwise (fun x y => x.1 ≤ y.1)) :
    gpbLookup c (i + 1) = match aget c.reverse (i + 1) with
      | some v => some v
      | none => gpbLookup c i := by
  have hd : c.reverse.Pairwise (fun a b => b.1 ≤ a.1) := List.pairwise_reverse.mpr hs
  unfold gpbLookup aget
  rw [find_desc c.reverse i hd]
  cases List.find? (fun e => e.1 == i + 1) c.reverse with
  | none => rfl
  | some x => rfl

theorem gpbLookup_zero (c : Recs) : gpbLookup c 0 = aget c.reverse 0 := by
  unfold gpbLookup aget
  have : (fun e : Nat × Int => decide (e.1 ≤ 0)) = (fun e => e.1 == 0) := by
    funext e
    cases h : e.1 with
    | zero => rfl
    | succ n => simp
  rw [this]

/-- what GetGASPerBlock answers is determined by storage alone -/
theorem gpbLookup_spec {b : Nat} {s c : Recs} (hj : GpbJ b s c) (i : Nat) : gpbLookup c i = specF (aget s) i := by
  induction i with
  | zero => rw [gpbLookup_zero, ← hj.agree]; rfl
  | succ i ih =>
    rw [gpbLookup_succ c i hj.sorted, ← hj.agree, ih]; rfl

/-- GetGASPerBlock on the append-only cache returns the LAST record with index ≤ i: a record appended with an index
    ≤ i wins over everything before it (two records of the same index: the later one, as storage keeps it) … -/
theorem gpbLookup_append_le (l : Recs) (k : Nat) (v : Int) (i : Nat) (h : k ≤ i) :
    gpbLookup (l ++ [(k, v)]) i = some v := by
  simp [gpbLookup, h]

/-- … and a record appended with a greater index is invisible at i -/
theorem gpbLookup_append_gt (l : Recs) (k : Nat) (v : Int) (i : Nat) (h : i < k) :
    gpbLookup (l ++ [(k, v)]) i = gpbLookup l i := by
  have : ¬ k ≤ i := by omega
  simp [gpbLookup, this]

-- InitializeCache ------------------------------------------------------------------------------------------------------

theorem insertRec_perm (x : Nat × Int) (l : Recs) : (insertRec x l).Perm (x :: l) := by
  induction l with
  | nil => exact List.Perm.refl _
  | cons y r ih =>
    simp only [insertRec]
    split
    · exact List.Perm.refl _
    · exact ((List.Perm.cons y ih).trans (List.Perm.swap x y r))

theorem sort_perm (l : Recs) : (l.foldr insertRec []).Perm l := by
  induction l with
  | nil => exact List.Perm.refl _
  | cons x r ih => simp only [List.foldr_cons]; exact (insertRec_perm x _).trans (List.Perm.cons x ih)

theorem insertRec_sorted (x : Nat × Int) (l : Recs) (h : l.Pairwise (fun a b => a.1 ≤ b.1)) :
    (insertRec x l).Pairwise (fun a b => a.1 ≤ b.1) := by
  induction l with
  | nil => exact List.pairwise_singleton _ _
  | cons y r ih =>
    have hp := List.pairwise_cons.mp h
    simp only [insertRec]
    split
    · rename_i hxy
      apply List.pairwise_cons.mpr
      refine ⟨?_, h⟩
      intro e he
      rcases List.mem_cons.mp he with he | he
      · subst he; exact hxy
      · exact Nat.le_trans hxy (hp.1 e he)
    · rename_i hxy
      apply List.pairwise_cons.mpr
      refine ⟨?_, ih hp.2⟩
      intro e he
      have := (insertRec_perm x r).mem_iff.mp he
      rcases List.mem_cons.mp this with he | he
      · subst he; omega
      · exact hp.1 e he

theorem sort_sorted (l : Recs) : (l.foldr insertRec []).Pairwise (fun a b => a.1 ≤ b.1) := by
  induction l with
  | nil => exact List.Pairwise.nil
  | cons x r ih => simp only [List.foldr_cons]; exact insertRec_sorted x _ ih

theorem aget_mem {l : Recs} {k : Nat} {v : Int} (h : aget l k = some v) : (k, v) ∈ l := by
  unfold aget at h
  cases hf : l.find? (fun e => e.1 == k) with
  | none => simp [hf] at h
  | some e =>
    simp only [hf, Option.map_some, Option.some.injEq] at h
    have hm := List.mem_of_find?_eq_some hf
    have hk := List.find?_some hf
    simp only [beq_iff_eq] at hk
    have : e = (k, v) := by cases e; simp_all
    rw [← this]; exact hm

theorem aget_of_mem {l : Recs} (hn : (l.map (·.1)).Nodup) {k : Nat} {v : Int} (h : (k, v) ∈ l) : aget l k = some v := by
  induction l with
  | nil => simp at h
  | cons x r ih =>
    simp only [List.map_cons, List.nodup_cons] at hn
    rw [aget_cons]
    by_cases hx : x.1 = k
    · simp only [hx, beq_self_eq_true, if_true]
      rcases List.mem_cons.mp h with he | he
      · rw [← he]
      · exfalso
        apply hn.1
        rw [hx]
        exact List.mem_map.mpr ⟨(k, v), he, rfl⟩
    · have : (x.1 == k) = false := by simp [hx]
      simp only [this]
      rcases List.mem_cons.mp h with he | he
      · exfalso; apply hx; rw [← he]
      · exact ih hn.2 he

theorem aget_congr_of_mem {l₁ l₂ : Recs} (h1 : (l₁.map (·.1)).Nodup) (h2 : (l₂.map (·.1)).Nodup)
    (hm : ∀ e, e ∈ l₁ ↔ e ∈ l₂) (k : Nat) : aget l₁ k = aget l₂ k := by
  cases ha : aget l₁ k with
  | some v => exact (aget_of_mem h2 ((hm _).mp (aget_mem ha))).symm
  | none =>
    cases hb : aget l₂ k with
    | none => rfl
    | some v =>
      have := aget_of_mem h1 ((hm _).mpr (aget_mem hb))
      rw [ha] at this; simp at this

/-- InitializeCache yields a fitting cache for any storage some fitting cache exists for -/
theorem gpb_init {b : Nat} {s c : Recs} (hj : GpbJ b s c) : GpbJ b s (gpb.init s) := by
  have hp : (gpb.init s).Perm s := sort_perm s
  refine ⟨sort_sorted s, ?_, ?_, hj.nodup⟩
  · intro e he
    have hes : e ∈ s := hp.mem_iff.mp he
    have : aget s e.1 = some e.2 := aget_of_mem hj.nodup (by cases e; exact hes)
    rw [hj.agree] at this
    have hm := aget_mem this
    exact hj.bound _ (List.mem_reverse.mp hm)
  · intro k
    have hp' : (gpb.init s).reverse.Perm s := (List.reverse_perm _).trans hp
    apply aget_congr_of_mem hj.nodup
    · exact (hp'.map _).nodup_iff.mpr hj.nodup
    · intro e; exact hp'.mem_iff.symm

-- the system ---------------------------------------------------------------------------------------------------------

/-- NEO gasPerBlock as an environment-reading system; the getters' answer is GetGASPerBlock for every index -/
def gpbU : EUSys Env Recs Recs (List (CTx (GCall Int))) (List Bool) (Nat → Option Int) :=
  { gpb.toEUSys with getters := fun c _ => gpbLookup c }

def GpbGood (s c : Recs) (h : Nat) : Prop := GpbJ (h + 1) s c

theorem gpbU_adequate (e : Env) : UAdequate (gpbU.fix e) GpbGood where
  good_restart := fun _ _ _ g => gpb_init g
  good_step := by
    intro s c h b g
    exact runBlock_rel (gpb.fix e) (gpb_rel e).toInv (h + 1) b s c (g.mono (Nat.le_succ _))
  good_det := by
    intro s c₁ c₂ h g1 g2
    refine ⟨?_, ?_⟩
    · show gpbLookup c₁ = gpbLookup c₂
      funext i
      rw [gpbLookup_spec g1, gpbLookup_spec g2]
    · intro b
      exact runBlock_blind (gpb.fix e) (gpb_rel e) (h + 1) b s c₁ c₂ (g1.mono (Nat.le_succ _)) (g2.mono (Nat.le_succ _))

/-- the state NEO.Initialize leaves at genesis (native_neo.go:349-354): one record of index 0 -/
theorem gpb_genesis_good (v : Int) : GpbGood [(0, v)] [(0, v)] 0 :=
  ⟨List.pairwise_singleton _ _, by intro e he; simp at he; subst he; simp, fun _ => rfl, by simp⟩

/-- over any history of blocks (each in its own environment) and restarts the invariant holds -/
theorem gpb_erun_good (steps : List (EComp.EStep Env (GCall Int))) :
    ∀ n : CNode Recs Recs, GpbGood n.store n.cache n.height →
      GpbGood (gpb.erun n steps).store (gpb.erun n steps).cache (gpb.erun n steps).height := by
  induction steps with
  | nil => intro n h; exact h
  | cons st ss ih =>
    intro n h
    simp only [EComp.erun]
    apply ih
    cases st with
    | block e txs => exact (gpbU_adequate e).good_step n.store n.cache n.height txs h
    | restart => exact gpb_init h

-- the settings: a consequence of the guards that read the cache ---------------------------------------------------

theorem cval_aput (c : List (Nat × Int)) (k k' : Nat) (v : Int) :
    cval (aput c k v) k' = if k' = k then v else cval c k' := by
  unfold cval
  by_cases e : k' = k
  · subst e; simp [aget_aput_same]
  · simp only [e, if_false]; rw [aget_aput_other _ _ _ _ e]

/-- MaxValidUntilBlockIncrement < MaxTraceableBlocks (what setMaxValidUntilBlockIncrement and setMaxTraceableBlocks
    each check against the CACHED value of the other) -/
def VubInv (s : List (Nat × Int)) : Prop := cval s kVUB < cval s kMTB

theorem gsetCheck_vub (e : Env) (c : List (Nat × Int)) (o : GSetOp) (k : Nat) (v : Int)
    (h : gsetCheck e c o = some (k, v)) (hi : VubInv c) : VubInv (aput c k v) := by
  unfold VubInv at *
  rw [cval_aput, cval_aput]
  cases o with
  | attrFee t w =>
    simp only [gsetCheck] at h
    split at h; · simp at h
    split at h; · simp at h
    split at h; · simp at h
    rename_i h1 h2 h3
    simp only [Option.some.injEq, Prod.mk.injEq] at h
    have hv : validAttr t = true := by simpa using h2
    have hk : k ≠ kVUB ∧ k ≠ kMTB := by
      rw [← h.1]
      simp only [validAttr, Bool.or_eq_true, beq_iff_eq] at hv
      simp only [kVUB, kMTB]
      omega
    simp only [kVUB, kMTB] at hk ⊢
    have a : ¬ (100 = k) := fun x => hk.1 x.symm
    have b : ¬ (101 = k) := fun x => hk.2 x.symm
    simp only [a, b, if_false]
    exact hi
  | maxVUB w =>
    simp only [gsetCheck] at h
    split at h; · simp at h
    split at h; · simp at h
    split at h; · simp at h
    rename_i h1 h2 h3
    simp only [Option.some.injEq, Prod.mk.injEq] at h
    rw [← h.1, ← h.2]
    simp only [kVUB, kMTB] at h3 ⊢
    simp at h3 ⊢
    exact h3
  | maxTraceable w =>
    simp only [gsetCheck] at h
    split at h; · simp at h
    split at h; · simp at h
    split at h; · simp at h
    split at h; · simp at h
    rename_i h1 h2 h3 h4
    simp only [Option.some.injEq, Prod.mk.injEq] at h
    rw [← h.1, ← h.2]
    simp only [kVUB, kMTB] at h4 ⊢
    simp at h4 ⊢
    exact h4
  | msPerBlock w =>
    simp only [gsetCheck] at h
    split at h; · simp at h
    split at h; · simp at h
    simp only [Option.some.injEq, Prod.mk.injEq] at h
    rw [← h.1]; simp only [kVUB, kMTB, kMSPB]; simpa [VubInv, kVUB, kMTB] using hi
  | nvbDelta w =>
    simp only [gsetCheck] at h
    split at h; · simp at h
    split at h; · simp at h
    simp only [Option.some.injEq, Prod.mk.injEq] at h
    rw [← h.1]; simp only [kVUB, kMTB, kNVBD]; simpa [VubInv, kVUB, kMTB] using hi
  | oraclePrice w =>
    simp only [gsetCheck] at h
    split at h; · simp at h
    simp only [Option.some.injEq, Prod.mk.injEq] at h
    rw [← h.1]; simp only [kVUB, kMTB, kOracle]; simpa [VubInv, kVUB, kMTB] using hi
  | registerPrice w =>
    simp only [gsetCheck] at h
    split at h; · simp at h
    simp only [Option.some.injEq, Prod.mk.injEq] at h
    rw [← h.1]; simp only [kVUB, kMTB, kRegister]; simpa [VubInv, kVUB, kMTB] using hi

/-- on a coherent state (cache = storage) the invariant is preserved by every successful guarded call -/
theorem gsettings_inv_vub (e : Env) : (gsettings.fix e).Inv (fun _ s c => c = s ∧ VubInv s) where
  noLeak := fun _ _ => rfl
  step := by
    intro h s c o s' c' hj he
    obtain ⟨hc, hi⟩ := hj
    subst hc
    simp only [EComp.fix, gsettings] at he
    split at he; · simp at he
    rename_i k v hk
    split at he; · simp at he
    simp only [Option.some.injEq, Prod.mk.injEq] at he
    rw [← he.1, ← he.2]
    exact ⟨rfl, gsetCheck_vub e c o.op k v hk hi⟩

theorem gsettings_erun_vub (steps : List (EComp.EStep Env (GCall GSetOp))) :
    ∀ n : CNode (List (Nat × Int)) (List (Nat × Int)), (n.cache = n.store ∧ VubInv n.store) →
      ((gsettings.erun n steps).cache = (gsettings.erun n steps).store ∧ VubInv (gsettings.erun n steps).store) := by
  induction steps with
  | nil => intro n hn; exact hn
  | cons st ss ih =>
    intro n hn
    simp only [EComp.erun]
    apply ih
    cases st with
    | block e txs => exact runBlock_rel (gsettings.fix e) (gsettings_inv_vub e) (n.height + 1) txs n.store n.cache hn
    | restart => exact ⟨rfl, hn.2⟩

end NeoModel.Ledger.Guarded
