/-
C04 (DESIGN C04.4): why a Copy() that SHARES some containers with the original is still a deep copy for
the purposes of the copy-on-write layering — a two-level heap model of a native cache object.

A cache object has fields 0..nf-1; every field holds a reference to a container (a Go map / slice /
pointer target; scalar fields are containers of their own). `share f` says what Copy() does with field f:
`false` = the container is cloned (maps.Clone / slices.Clone / value copy), `true` = the reference is copied
(plain assignment: the container is shared with the original) — the column `action` of the regenerated
table Generated/CacheCopy.lean. Writers either re-bind a field to a fresh container (`writeWhole`, the
write kind `whole` of the table) or modify the container in place (`writeInPlace`: `elem`, `delete`,
`whole-self`, …). The obligation `copyOK` of Proofs/ExecCacheCopy.lean says: in-place writes occur only on
fields with `share = false`. Under exactly that condition every object is independent of every other one:
what `CStack` (Model/Exec.lean) assumes when it abstracts a cache object to one value in one cell.
-/
namespace NeoModel.Exec.Deep

structure H where
  objs : Nat → Nat → Nat      -- object → field → container
  conts : Nat → Nat           -- container → content
  nobj : Nat                  -- next fresh object
  ncont : Nat                 -- next fresh container

/-- what an object shows: the content of each of its fields. -/
def deep (h : H) (o f : Nat) : Nat := h.conts (h.objs o f)

/-- all references are allocated; the container of a NON-shared field is referenced by no other slot. -/
def Inv (share : Nat → Bool) (nf : Nat) (h : H) : Prop :=
  (∀ o f, o < h.nobj → f < nf → h.objs o f < h.ncont) ∧
  (∀ o f o' f', o < h.nobj → o' < h.nobj → f < nf → f' < nf → share f = false →
    h.objs o f = h.objs o' f' → o = o' ∧ f = f')

/-- `Copy()`: a fresh object; cloned fields get fresh containers with the same content, shared fields
    the same container. -/
def copy (share : Nat → Bool) (nf : Nat) (h : H) (o : Nat) : H :=
  { objs := fun o' f => if o' = h.nobj then (if share f then h.objs o f else h.ncont + f) else h.objs o' f,
    conts := fun c => if h.ncont ≤ c ∧ c < h.ncont + nf then h.conts (h.objs o (c - h.ncont)) else h.conts c,
    nobj := h.nobj + 1, ncont := h.ncont + nf }

/-- `x.f = <fresh container with content v>`. -/
def writeWhole (h : H) (o f v : Nat) : H :=
  { h with objs := fun o' f' => if o' = o ∧ f' = f then h.ncont else h.objs o' f',
           conts := fun c => if c = h.ncont then v else h.conts c, ncont := h.ncont + 1 }

/-- `x.f[k] = …`, `delete(x.f, k)`, `x.f = append(x.f, …)`: the container itself changes. -/
def writeInPlace (h : H) (o f v : Nat) : H :=
  { h with conts := fun c => if c = h.objs o f then v else h.conts c }

theorem copy_spec (share : Nat → Bool) (nf : Nat) (h : H) (o : Nat) (hi : Inv share nf h) (ho : o < h.nobj) :
    Inv share nf (copy share nf h o) ∧
    (∀ f, f < nf → deep (copy share nf h o) h.nobj f = deep h o f) ∧
    (∀ o' f, o' < h.nobj → f < nf → deep (copy share nf h o) o' f = deep h o' f) := by
  obtain ⟨h1, h2⟩ := hi
  refine ⟨⟨?_, ?_⟩, ?_, ?_⟩
  · intro o' f ho' hf
    simp only [copy] at ho' ⊢
    by_cases e : o' = h.nobj
    · simp only [e, if_true]
      by_cases s : share f = true
      · simp only [s, if_true]; have := h1 o f ho hf; omega
      · simp only [s, if_false, Bool.false_eq_true]; omega
    · simp only [e, if_false]; have := h1 o' f (by omega) hf; omega
  · intro a f b f' ha hb hf hf' hs e
    simp only [copy] at ha hb e
    simp only [hs, Bool.false_eq_true, if_false] at e
    by_cases ea : a = h.nobj
    · simp only [ea, if_true] at e
      by_cases eb : b = h.nobj
      · simp only [eb, if_true] at e
        by_cases s' : share f' = true
        · simp only [s', if_true] at e; have := h1 o f' ho hf'; omega
        · simp only [s', if_false, Bool.false_eq_true] at e; exact ⟨by omega, by omega⟩
      · simp only [eb, if_false] at e; have := h1 b f' (by omega) hf'; omega
    · simp only [ea, if_false] at e
      by_cases eb : b = h.nobj
      · simp only [eb, if_true] at e
        by_cases s' : share f' = true
        · simp only [s', if_true] at e
          -- the original's shared field f' holds the container of a's non-shared field f: impossible unless same slot
          have := h2 a f o f' (by omega) ho hf hf' hs e
          -- then a = o and f = f', but share f = false while share f' = true
          obtain ⟨_, e2⟩ := this
          rw [e2] at hs; rw [hs] at s'; cases s'
        · simp only [s', if_false, Bool.false_eq_true] at e; have := h1 a f (by omega) hf; omega
      · simp only [eb, if_false] at e; exact h2 a f b f' (by omega) (by omega) hf hf' hs e
  · intro f hf
    simp only [deep, copy, if_true]
    by_cases s : share f = true
    · simp only [s, if_true]
      have := h1 o f ho hf
      have hc : ¬ (h.ncont ≤ h.objs o f ∧ h.objs o f < h.ncont + nf) := by omega
      simp only [hc, if_false]
    · simp only [s, if_false, Bool.false_eq_true]
      have hc : h.ncont ≤ h.ncont + f ∧ h.ncont + f < h.ncont + nf := by omega
      simp only [hc, and_self, if_true, Nat.add_sub_cancel_left]
  · intro o' f ho' hf
    simp only [deep, copy]
    have e : ¬ o' = h.nobj := by omega
    simp only [e, if_false]
    have := h1 o' f ho' hf
    have hc : ¬ (h.ncont ≤ h.objs o' f ∧ h.objs o' f < h.ncont + nf) := by omega
    simp only [hc, if_false]

theorem writeWhole_spec (share : Nat → Bool) (nf : Nat) (h : H) (o f v : Nat) (hi : Inv share nf h) :
    Inv share nf (writeWhole h o f v) ∧ deep (writeWhole h o f v) o f = v ∧
    (∀ o' f', o' < h.nobj → f' < nf → (o' ≠ o ∨ f' ≠ f) → deep (writeWhole h o f v) o' f' = deep h o' f') := by
  obtain ⟨h1, h2⟩ := hi
  refine ⟨⟨?_, ?_⟩, ?_, ?_⟩
  · intro o' f' ho' hf'
    simp only [writeWhole] at ho' ⊢
    split
    · omega
    · have := h1 o' f' ho' hf'; omega
  · intro a fa b fb ha hb hfa hfb hs e
    simp only [writeWhole] at ha hb e
    by_cases ca : a = o ∧ fa = f
    · simp only [ca, and_self, if_true] at e
      by_cases cb : b = o ∧ fb = f
      · exact ⟨ca.1.trans cb.1.symm, ca.2.trans cb.2.symm⟩
      · simp only [cb, if_false] at e; have := h1 b fb hb hfb; omega
    · simp only [ca, if_false] at e
      by_cases cb : b = o ∧ fb = f
      · simp only [cb, and_self, if_true] at e; have := h1 a fa ha hfa; omega
      · simp only [cb, if_false] at e; exact h2 a fa b fb ha hb hfa hfb hs e
  · simp [deep, writeWhole]
  · intro o' f' ho' hf' hne
    simp only [deep, writeWhole]
    have c : ¬ (o' = o ∧ f' = f) := by intro ⟨a, b⟩; rcases hne with x | x <;> contradiction
    simp only [c, if_false]
    have := h1 o' f' ho' hf'
    have c2 : ¬ h.objs o' f' = h.ncont := by omega
    simp only [c2, if_false]

/-- an in-place write to a field whose container Copy() CLONES changes that one slot and nothing else. -/
theorem writeInPlace_spec (share : Nat → Bool) (nf : Nat) (h : H) (o f v : Nat) (hi : Inv share nf h) (ho : o < h.nobj)
    (hf : f < nf) (hs : share f = false) :
    Inv share nf (writeInPlace h o f v) ∧ deep (writeInPlace h o f v) o f = v ∧
    (∀ o' f', o' < h.nobj → f' < nf → (o' ≠ o ∨ f' ≠ f) → deep (writeInPlace h o f v) o' f' = deep h o' f') := by
  refine ⟨hi, by simp [deep, writeInPlace], ?_⟩
  intro o' f' ho' hf' hne
  simp only [deep, writeInPlace]
  have c : ¬ h.objs o' f' = h.objs o f := by
    intro e
    obtain ⟨a, b⟩ := hi.2 o f o' f' ho ho' hf hf' hs e.symm
    rcases hne with x | x
    · exact x a.symm
    · exact x b.symm
  simp only [c, if_false]

/-- ... whereas an in-place write to a SHARED field is seen by the object it was copied from: the reason
    why the table obligation forbids it (a cache of two fields, field 1 shared, copied, written in place). -/
theorem writeInPlace_shared_leaks :
    let share : Nat → Bool := fun f => f == 1
    let h0 : H := ⟨fun _ f => f, fun c => 10 + c, 1, 2⟩
    let h1 := copy share 2 h0 0
    deep (writeInPlace h1 1 1 99) 0 1 = 99 ∧ deep h1 0 1 = 11 ∧ deep (writeWhole h1 1 1 99) 0 1 = 11 := by
  decide

-- non-vacuity of the hypotheses: the initial one-object heap satisfies the invariant
example : Inv (fun f => f == 1) 2 ⟨fun _ f => f, fun c => 10 + c, 1, 2⟩ := by
  refine ⟨fun o f ho hf => by simp only at *; omega, fun o f o' f' ho ho' hf hf' _ e => ?_⟩
  simp only at *
  exact ⟨by omega, e⟩

end NeoModel.Exec.Deep
