/-
C01 — components whose cache is NOT a function of storage (NeoCache.gasPerBlock is append-only while storage
overwrites): a relational invariant `J` between storage and cache replaces `cache = init storage`, and
"cache-blindness" (the outcome and the storage effect of a call do not depend on the cache) replaces uniqueness of the
fitting cache. Generic lemmas over `Comp`.
-/
import NeoModel.Model.Ledger.Comp
namespace NeoModel.Ledger.Comp
variable {S C O : Type}

structure Inv (K : Comp S C O) (J : Nat → S → C → Prop) : Prop where
  /-- a successful call in a block of index `h` preserves the invariant -/
  step : ∀ h s c o s' c', J h s c → K.exec s c h o = some (s', c') → J h s' c'
  noLeak : ∀ c o, K.leak c o = c

structure Rel (K : Comp S C O) (J : Nat → S → C → Prop) : Prop extends Inv K J where
  /-- success and storage effect of a call do not depend on WHICH fitting cache the node holds -/
  blind : ∀ s c₁ c₂ h o, J h s c₁ → J h s c₂ → (K.exec s c₁ h o).map (·.1) = (K.exec s c₂ h o).map (·.1)

theorem leaks_id' (K : Comp S C O) (hl : ∀ c o, K.leak c o = c) (ops : List O) : ∀ c, K.leaks c ops = c := by
  induction ops with
  | nil => intro c; rfl
  | cons o os ih => intro c; simp only [leaks, hl]; exact ih c

theorem runOps_rel (K : Comp S C O) {J} (hR : K.Inv J) (h : Nat) (ops : List O) :
    ∀ s c s' c', J h s c → K.runOps s c h ops = some (s', c') → J h s' c' := by
  induction ops with
  | nil => intro s c s' c' hj hr; simp only [runOps, Option.some.injEq, Prod.mk.injEq] at hr; rw [← hr.1, ← hr.2]; exact hj
  | cons o os ih =>
    intro s c s' c' hj hr
    simp only [runOps] at hr
    cases he : K.exec s c h o with
    | none => simp [he] at hr
    | some p =>
      obtain ⟨s1, c1⟩ := p
      simp only [he] at hr
      exact ih s1 c1 s' c' (hR.step h s c o s1 c1 hj he) hr

theorem runTx_rel (K : Comp S C O) {J} (hR : K.Inv J) (h : Nat) (s : S) (c : C) (tx : CTx O) (hj : J h s c) :
    J h (K.runTx s c h tx).1 (K.runTx s c h tx).2 := by
  unfold runTx
  cases hr : K.runOps s c h tx.ops with
  | none => simp only [leaks_id' K hR.noLeak]; exact hj
  | some p =>
    obtain ⟨s', c'⟩ := p
    by_cases ht : tx.halts = true
    · simp only [ht, if_true]; exact runOps_rel K hR h tx.ops s c s' c' hj hr
    · simp only [ht, leaks_id' K hR.noLeak]; exact hj

theorem runBlock_rel (K : Comp S C O) {J} (hR : K.Inv J) (h : Nat) (txs : List (CTx O)) :
    ∀ s c, J h s c → J h (K.runBlock s c h txs).1 (K.runBlock s c h txs).2 := by
  induction txs with
  | nil => intro s c hj; exact hj
  | cons tx txs ih => intro s c hj; simp only [runBlock]; exact ih _ _ (runTx_rel K hR h s c tx hj)

theorem runOps_blind (K : Comp S C O) {J} (hR : K.Rel J) (h : Nat) (ops : List O) :
    ∀ s c₁ c₂, J h s c₁ → J h s c₂ → (K.runOps s c₁ h ops).map (·.1) = (K.runOps s c₂ h ops).map (·.1) := by
  induction ops with
  | nil => intro s c₁ c₂ _ _; rfl
  | cons o os ih =>
    intro s c₁ c₂ j1 j2
    have hb := hR.blind s c₁ c₂ h o j1 j2
    simp only [runOps]
    cases h1 : K.exec s c₁ h o with
    | none =>
      cases h2 : K.exec s c₂ h o with
      | none => rfl
      | some q => rw [h1, h2] at hb; simp at hb
    | some p =>
      cases h2 : K.exec s c₂ h o with
      | none => rw [h1, h2] at hb; simp at hb
      | some q =>
        obtain ⟨s1, d1⟩ := p
        obtain ⟨s2, d2⟩ := q
        rw [h1, h2] at hb
        simp only [Option.map_some, Option.some.injEq] at hb
        subst hb
        exact ih s1 d1 d2 (hR.step h s c₁ o s1 d1 j1 h1) (hR.step h s c₂ o s1 d2 j2 h2)

theorem runTx_blind (K : Comp S C O) {J} (hR : K.Rel J) (h : Nat) (s : S) (c₁ c₂ : C) (tx : CTx O)
    (j1 : J h s c₁) (j2 : J h s c₂) :
    (K.runTx s c₁ h tx).1 = (K.runTx s c₂ h tx).1 ∧ K.txOk s c₁ h tx = K.txOk s c₂ h tx := by
  have hb := runOps_blind K hR h tx.ops s c₁ c₂ j1 j2
  unfold runTx txOk
  cases h1 : K.runOps s c₁ h tx.ops with
  | none =>
    cases h2 : K.runOps s c₂ h tx.ops with
    | none => exact ⟨rfl, rfl⟩
    | some q => rw [h1, h2] at hb; simp at hb
  | some p =>
    cases h2 : K.runOps s c₂ h tx.ops with
    | none => rw [h1, h2] at hb; simp at hb
    | some q =>
      obtain ⟨s1, d1⟩ := p
      obtain ⟨s2, d2⟩ := q
      rw [h1, h2] at hb
      simp only [Option.map_some, Option.some.injEq] at hb
      subst hb
      by_cases ht : tx.halts = true
      · simp [ht]
      · simp [ht]

theorem runBlock_blind (K : Comp S C O) {J} (hR : K.Rel J) (h : Nat) (txs : List (CTx O)) :
    ∀ s c₁ c₂, J h s c₁ → J h s c₂ →
      (K.runBlock s c₁ h txs).1 = (K.runBlock s c₂ h txs).1 ∧ K.runBlockR s c₁ h txs = K.runBlockR s c₂ h txs := by
  induction txs with
  | nil => intro s c₁ c₂ _ _; exact ⟨rfl, rfl⟩
  | cons tx txs ih =>
    intro s c₁ c₂ j1 j2
    have ht := runTx_blind K hR h s c₁ c₂ tx j1 j2
    have k1 := runTx_rel K hR.toInv h s c₁ tx j1
    have k2 := runTx_rel K hR.toInv h s c₂ tx j2
    simp only [runBlock, runBlockR]
    rw [ht.2]
    rw [ht.1] at k1
    have := ih (K.runTx s c₂ h tx).1 (K.runTx s c₁ h tx).2 (K.runTx s c₂ h tx).2 k1 k2
    rw [ht.1]
    exact ⟨this.1, by rw [this.2]⟩

end NeoModel.Ledger.Comp
