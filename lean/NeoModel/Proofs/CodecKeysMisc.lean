/-
Helper lemmas for C18: the BFT / majority builders, the private-key scalar bytes.
-/
import NeoModel.Model.Codec.KeysMisc
import NeoModel.Proofs.CodecMsCanon
namespace NeoModel.Codec

theorem defaultHonest_spec (n : Nat) (hn : 1 ≤ n) :
    ∃ m : Nat, defaultHonest n = (m : Int) ∧ 1 ≤ m ∧ m ≤ n ∧ 2 * n < 3 * m ∧ 3 * m ≤ 2 * n + 3 := by
  refine ⟨n - (n - 1) / 3, ?_, ?_, ?_, ?_, ?_⟩
  · unfold defaultHonest
    have : ((n : Int) - 1).tdiv 3 = (((n - 1) / 3 : Nat) : Int) := by
      have h : ((n : Int) - 1) = ((n - 1 : Nat) : Int) := by omega
      rw [h, Int.tdiv_eq_ediv_of_nonneg (by omega)]
      rfl
    rw [this]; omega
  all_goals omega

theorem majorityHonest_spec (n : Nat) (hn : 1 ≤ n) :
    ∃ m : Nat, majorityHonest n = (m : Int) ∧ 1 ≤ m ∧ m ≤ n ∧ n < 2 * m ∧ 2 * m ≤ n + 2 := by
  refine ⟨n - (n - 1) / 2, ?_, ?_, ?_, ?_, ?_⟩
  · unfold majorityHonest
    have : ((n : Int) - 1).tdiv 2 = (((n - 1) / 2 : Nat) : Int) := by
      have h : ((n : Int) - 1) = ((n - 1 : Nat) : Int) := by omega
      rw [h, Int.tdiv_eq_ediv_of_nonneg (by omega)]
      rfl
    rw [this]; omega
  all_goals omega

/-- the default (BFT) and majority builders succeed on 1..1024 keys and parse back to their `m`. -/
theorem parse_createDefault (keys : List PubKey) (h1 : 1 ≤ keys.length) (h3 : keys.length ≤ 1024)
    (hinf : ∀ k ∈ keys, k ≠ none) :
    (∃ s m, createDefaultMultiSigK keys = some s ∧ parseMultiSig s = some (m, (sortKeys keys).map pkBytes) ∧
        2 * keys.length < 3 * m ∧ m ≤ keys.length) ∧
    (∃ s m, createMajorityMultiSigK keys = some s ∧ parseMultiSig s = some (m, (sortKeys keys).map pkBytes) ∧
        keys.length < 2 * m ∧ m ≤ keys.length) := by
  constructor
  · obtain ⟨m, hm, hm1, hm2, hm3, _⟩ := defaultHonest_spec keys.length h1
    obtain ⟨s, hs, hp⟩ := parse_createK m keys hm1 hm2 h3 hinf
    exact ⟨s, m, by unfold createDefaultMultiSigK; rw [hm]; exact hs, hp, hm3, hm2⟩
  · obtain ⟨m, hm, hm1, hm2, hm3, _⟩ := majorityHonest_spec keys.length h1
    obtain ⟨s, hs, hp⟩ := parse_createK m keys hm1 hm2 h3 hinf
    exact ⟨s, m, by unfold createMajorityMultiSigK; rw [hm]; exact hs, hp, hm3, hm2⟩

theorem priv_roundtrip (b : Bytes) (d : Nat) :
    (privFromBytes b = some d ↔ b.length = 32 ∧ d < 2 ^ 256 ∧ b = privBytes d) ∧
    (d < 2 ^ 256 → privFromBytes (privBytes d) = some d) := by
  have h256 : (256 : Nat) ^ 32 = 2 ^ 256 := by decide
  have fwd : d < 2 ^ 256 → privFromBytes (privBytes d) = some d := by
    intro hd
    simp [privFromBytes, privBytes, leBytes_length, leVal_leBytes 32 d (by rw [h256]; exact hd)]
  refine ⟨⟨?_, ?_⟩, fwd⟩
  · intro h
    unfold privFromBytes at h
    by_cases c : (b.length != 32) = true
    · simp [c] at h
    simp only [c, Bool.false_eq_true, if_false, Option.some.injEq] at h
    have hl : b.length = 32 := by simpa using c
    subst h
    refine ⟨hl, ?_, ?_⟩
    · have := leVal_lt b.reverse
      rw [List.length_reverse, hl, h256] at this; exact this
    · unfold privBytes
      have := leBytes_leVal b.reverse
      rw [List.length_reverse, hl] at this
      rw [this, List.reverse_reverse]
  · rintro ⟨_, hd, rfl⟩; exact fwd hd

end NeoModel.Codec
