/-
C11 helper lemmas: the node — MemCachedStore layers, the persist timer and tryRunGC of
Blockchain.Run — simulated by the single-store model: its run is the run of a compiled history
(blocks, GC(g) with the indices tryRunGC computes), and every index stays MaxTraceableBlocks below
the persisted height.
-/
import NeoModel.Model.MptRc.Layered
import NeoModel.Proofs.MptRcLayered
import NeoModel.Proofs.MptRcLazy
import NeoModel.Proofs.MptRcGoTie
import NeoModel.Proofs.MptRcRead
import NeoModel.Proofs.MptProofs
set_option linter.unusedSimpArgs false
namespace NeoModel.MptRc
open NeoModel.Mpt

/-! ### the node (layers, persist timer, tryRunGC) against a history of the single-store model -/

/-- the operations of the single-store model one node event amounts to: a block is a block, a
persist is nothing, `tryRunGC` is `GC(g)` with the index the node computes (or nothing). -/
def compileEv (c : Chain) : ChainEv → List Op
  | .addBlock ops ld _ => .blockL c.next ops ld :: (if collapseAfter c then [.reset] else [])
  | .persist _ => []
  | .runGC =>
    match c.pendOld with
    | none => []
    | some old =>
      match tryRunGC c.cfg c.mtb old c.persisted with
      | none => []
      | some g => [.gc g]
  | .restart => [.reset]

def compileRun (H : Bytes → Bytes) : Chain → List ChainEv → List Op
  | _, [] => []
  | c, e :: r =>
    compileEv c e ++
      (match stepChain H c e with
       | some c' => compileRun H c' r
       | none => [])

theorem newMtbOf_le (old : Nat) (nm : Option Nat) : newMtbOf old nm ≤ old := by
  unfold newMtbOf
  cases nm with
  | none => exact Nat.le_refl _
  | some v => simp only; split <;> omega

/-- the simulation relation: `s` is the single-store state of the node state `c`. `top` = the height
of the last block, `pn` = number of blocks that have reached the persistent store. -/
structure Sim (H : Bytes → Bytes) (c : Chain) (s : St) (top : Option Nat) (pn : Nat) : Prop where
  rep : Rep c.lay s.store
  mode : c.mode = .gc
  root : s.root = c.root
  rc : s.rc = c.rc
  hist : s.hist = c.hist
  inv : Inv H .gc top s
  top_eq : top = if c.next = 0 then none else some (c.next - 1)
  pn_le : pn ≤ c.next
  pers : c.persisted = pn - 1
  fresh : UpFresh pn c.lay
  ndl : StoreND c.lay.low
  gcAt : s.gcAt = 0 ∨ s.gcAt + c.mtb ≤ c.persisted
  gcs : ∀ g ∈ c.gcs, g + c.mtb ≤ c.persisted

theorem sim_init (H : Bytes → Bytes) (cfg : GcCfg) (mtb : Nat) :
    Sim H { cfg := cfg, mtb := mtb } { mode := .gc } none 0 where
  rep := fun _ => rfl
  mode := rfl
  root := rfl
  rc := rfl
  hist := rfl
  inv := inv_init H .gc
  top_eq := rfl
  pn_le := Nat.le_refl _
  pers := rfl
  fresh := fun _ _ _ h => by simp [uget] at h
  ndl := List.nodup_nil
  gcAt := Or.inl rfl
  gcs := fun _ h => by simp at h

theorem runOps_one (H : Bytes → Bytes) (s : St) (o : Op) (s' : St) (h : stepOp H s o = some s') :
    runOps H s [o] = some s' := by
  simp only [runOps, h]

theorem runOps_two (H : Bytes → Bytes) (s : St) (o1 o2 : Op) (s1 s2 : St) (h1 : stepOp H s o1 = some s1)
    (h2 : stepOp H s1 o2 = some s2) : runOps H s [o1, o2] = some s2 := by
  simp only [runOps, h1, h2]

theorem sim_step (H : Bytes → Bytes) (c : Chain) (s : St) (top : Option Nat) (pn : Nat)
    (hs : Sim H c s top pn) (ev : ChainEv) :
    ∃ c' s' top' pn', stepChain H c ev = some c' ∧ runOps H s (compileEv c ev) = some s' ∧
      Sim H c' s' top' pn' := by
  cases ev with
  | addBlock ops ld nm =>
    have hh : ∀ h, top = some h → h < c.next := by
      intro h ht
      rw [hs.top_eq] at ht
      by_cases h0 : c.next = 0
      · simp [h0] at ht
      · simp only [h0, if_false, Option.some.injEq] at ht; omega
    obtain ⟨s', hc, hinv', hroot', hhist', hgc', _⟩ :=
      commitL_inv H .gc rfl top s c.next ops ld hs.inv hh
    have hget : c.lay.get = sget s.store := funext hs.rep
    have hmode : s.mode = .gc := hs.inv.mode_eq
    have hc0 := hc
    simp only [commitL, computeL, hmode] at hc
    cases hf : flush .gc c.next (applyActs H .gc (sget s.store) s.rc (interleave (blockEvs s.root ops) ld)) s.store with
    | none => simp [hf] at hc
    | some r =>
      obtain ⟨m', st'⟩ := r
      simp only [hf, Option.some.injEq] at hc
      have hsim := flushL_sim .gc c.next (applyActs H .gc (sget s.store) s.rc (interleave (blockEvs s.root ops) ld))
        c.lay s.store hs.rep
      rw [hf] at hsim
      obtain ⟨l', hfl, hrep'⟩ := hsim
      obtain ⟨hfresh', hlow'⟩ := flushL_fresh .gc c.next pn hs.pn_le _ _ _ _ hs.fresh hfl
      have hcl : computeLay H c.mode c.next c.root c.rc c.lay ops ld = some (trieAfter c.root ops, m', l') := by
        simp only [computeLay, hs.mode, hget, ← hs.rc, ← hs.root, hfl]
      have hrun1 : stepOp H s (.blockL c.next ops ld) = some s' := hc0
      have hrc' : s'.rc = m' := by rw [← hc]
      have hst' : s'.store = st' := by rw [← hc]
      have hmtb := newMtbOf_le c.mtb nm
      have hgcAt : s'.gcAt = 0 ∨ s'.gcAt + newMtbOf c.mtb nm ≤ c.persisted := by
        rw [hgc']
        rcases hs.gcAt with h | h
        · exact Or.inl h
        · exact Or.inr (by omega)
      have hgcs : ∀ g ∈ c.gcs, g + newMtbOf c.mtb nm ≤ c.persisted := fun g hg => by
        have := hs.gcs g hg; omega
      cases hca : collapseAfter c with
      | false =>
        refine ⟨_, s', some c.next, pn, (by simp only [stepChain, hcl]; rfl),
          (by simp only [compileEv, hca]; exact runOps_one H s _ s' hrun1), ?_⟩
        exact {
          rep := by rw [hst']; exact hrep'
          mode := hs.mode
          root := by rw [hroot', hs.root]
          rc := by simp [hca, hrc']
          hist := by rw [hhist', hs.hist, hs.root]
          inv := hinv'
          top_eq := by simp
          pn_le := Nat.le_succ_of_le hs.pn_le
          pers := hs.pers
          fresh := hfresh'
          ndl := by show StoreND l'.low; rw [hlow']; exact hs.ndl
          gcAt := hgcAt
          gcs := hgcs }
      | true =>
        refine ⟨_, reset s', some c.next, pn, (by simp only [stepChain, hcl]; rfl),
          (by simp only [compileEv, hca]; exact runOps_two H s _ _ s' _ hrun1 rfl), ?_⟩
        exact {
          rep := by show Rep l' s'.store; rw [hst']; exact hrep'
          mode := hs.mode
          root := by show s'.root = _; rw [hroot', hs.root]
          rc := by simp [hca, reset]
          hist := by show s'.hist = _; rw [hhist', hs.hist, hs.root]
          inv := reset_inv H .gc _ _ hinv'
          top_eq := by simp
          pn_le := Nat.le_succ_of_le hs.pn_le
          pers := hs.pers
          fresh := hfresh'
          ndl := by show StoreND l'.low; rw [hlow']; exact hs.ndl
          gcAt := hgcAt
          gcs := hgcs }
  | persist fromRun =>
    refine ⟨_, s, top, c.next, rfl, rfl, ?_⟩
    have hp : c.persisted ≤ c.next - 1 := by have := hs.pers; have := hs.pn_le; omega
    exact {
      rep := rep_persist hs.rep
      mode := hs.mode
      root := hs.root
      rc := hs.rc
      hist := hs.hist
      inv := hs.inv
      top_eq := hs.top_eq
      pn_le := Nat.le_refl _
      pers := rfl
      fresh := fun _ _ _ h => by simp [Lay.persist, uget] at h
      ndl := nd_view _ hs.ndl
      gcAt := by
        rcases hs.gcAt with h | h
        · exact Or.inl h
        · exact Or.inr (by show s.gcAt + c.mtb ≤ c.next - 1; omega)
      gcs := fun g hg => by have := hs.gcs g hg; show g + c.mtb ≤ c.next - 1; omega }
  | runGC =>
    cases hpo : c.pendOld with
    | none => exact ⟨c, s, top, pn, by simp [stepChain, hpo], by simp [compileEv, hpo, runOps], hs⟩
    | some old =>
      cases hg : tryRunGC c.cfg c.mtb old c.persisted with
      | none =>
        refine ⟨_, s, top, pn, (by simp only [stepChain, hpo, hg]; rfl), by simp [compileEv, hpo, hg, runOps], ?_⟩
        exact { hs with }
      | some g =>
        have hb := tryRunGC_bound _ _ _ _ _ hg
        have hpos := tryRunGC_newH_pos _ _ _ _ _ hg
        have hup : UpAbove g c.lay := by
          intro k b n hu
          have := hs.fresh k b n hu
          have := hs.pers
          omega
        refine ⟨_, gcSt s g, top, pn, (by simp only [stepChain, hpo, hg]; rfl), by simp [compileEv, hpo, hg, runOps, stepOp], ?_⟩
        exact {
          rep := rep_gcLow hs.rep hs.ndl hs.inv.nd g hup
          mode := hs.mode
          root := hs.root
          rc := hs.rc
          hist := hs.hist
          inv := gc_inv H .gc top s g hs.inv
          top_eq := hs.top_eq
          pn_le := hs.pn_le
          pers := hs.pers
          fresh := hs.fresh
          ndl := nd_gc g _ hs.ndl
          gcAt := by
            right
            show max s.gcAt g + c.mtb ≤ c.persisted
            rcases hs.gcAt with h | h
            · rw [h]; simp; exact hb
            · omega
          gcs := fun g' hg' => by
            simp only [List.mem_cons] at hg'
            rcases hg' with rfl | hg'
            · exact hb
            · exact hs.gcs g' hg' }
  | restart =>
    refine ⟨_, reset s, top, pn, rfl, rfl, ?_⟩
    exact {
      rep := hs.rep
      mode := hs.mode
      root := hs.root
      rc := rfl
      hist := hs.hist
      inv := reset_inv H .gc top s hs.inv
      top_eq := hs.top_eq
      pn_le := hs.pn_le
      pers := hs.pers
      fresh := hs.fresh
      ndl := hs.ndl
      gcAt := hs.gcAt
      gcs := hs.gcs }

theorem runOps_append (H : Bytes → Bytes) (a b : List Op) (s s1 : St) (h : runOps H s a = some s1) :
    runOps H s (a ++ b) = runOps H s1 b := by
  induction a generalizing s with
  | nil => simp only [runOps, Option.some.injEq] at h; subst h; rfl
  | cons o a ih =>
    simp only [runOps, List.cons_append] at h ⊢
    cases ho : stepOp H s o with
    | none => simp [ho] at h
    | some s2 => simp only [ho] at h ⊢; exact ih s2 h

/-- the node never panics in `Flush`, and its run is the run of the compiled history on the
single-store model. -/
theorem sim_run (H : Bytes → Bytes) (evs : List ChainEv) : ∀ (c : Chain) (s : St) (top : Option Nat) (pn : Nat),
    Sim H c s top pn →
    ∃ c' s' top' pn', runChain H c evs = some c' ∧ runOps H s (compileRun H c evs) = some s' ∧
      Sim H c' s' top' pn' := by
  induction evs with
  | nil => intro c s top pn hs; exact ⟨c, s, top, pn, rfl, rfl, hs⟩
  | cons e r ih =>
    intro c s top pn hs
    obtain ⟨c1, s1, top1, pn1, hc1, hr1, hs1⟩ := sim_step H c s top pn hs e
    obtain ⟨c', s', top', pn', hc', hr', hs'⟩ := ih c1 s1 top1 pn1 hs1
    refine ⟨c', s', top', pn', by simp only [runChain, hc1, hc'], ?_, hs'⟩
    simp only [compileRun, hc1]
    rw [runOps_append H _ _ s s1 hr1]; exact hr'

/-- reading a retained root through a store that satisfies the history invariant. -/
theorem inv_read {H : Bytes → Bytes} (h32 : ∀ b, (H b).length = 32) {top : Option Nat} {s : St}
    (hinv : Inv H .gc top s) (e : Nat × Node) (he : e ∈ s.hist) (hge : s.gcAt ≤ e.1)
    (hne : e.2.isEmpty = false) (hb : Bounded e.2)
    (hcf : CollFree H (storeBytes s.store ++ nodeEncs H e.2)) (p : Path) (v : Val) :
    (lookup e.2 p = some v → ∃ n, ∀ fuel, n ≤ fuel → swalk s.store fuel (hash H e.2) p = .found v) ∧
    (∀ fuel, swalk s.store fuel (hash H e.2) p = .found v → lookup e.2 p = some v) := by
  have hk : Kept H s.store e.2 e.1 := hinv.kept rfl e he hge
  have hin := nodeEncs_in_store hk hinv.exact.bytes hcf
  have hcf' : CollFree H (storeBytes s.store) :=
    collFree_subset hcf (fun x hx => List.mem_append_left _ hx)
  have hsw : ∀ f h p, swalk s.store f h p = walk H (storeBytes s.store) f h p :=
    swalk_eq_walk (H := H) hinv.nd hinv.exact.bytes
  obtain ⟨h1, h2⟩ := reopen_get h32 e.2 hb hne (storeBytes s.store) hin hcf' p v
  refine ⟨fun hl => ?_, fun fuel hf => h1 fuel (by rw [← hsw]; exact hf)⟩
  obtain ⟨n, hn⟩ := h2 hl
  exact ⟨n, fun fuel hf => by rw [hsw]; exact hn fuel hf⟩

theorem storeBytes_sub_of_rep {l : Lay} {s : Store} (h : Rep l s) (hns : StoreND s) :
    ∀ x ∈ storeBytes s, x ∈ storeBytes l.view := by
  intro x hx
  obtain ⟨⟨k, c⟩, hm, hbytes⟩ := List.mem_map.mp hx
  have hs := sget_of_mem hns hm
  have : sget l.view k = some c := by rw [sget_view, h k]; exact hs
  rw [← hbytes]; exact bytes_mem_of_sget this

end NeoModel.MptRc
