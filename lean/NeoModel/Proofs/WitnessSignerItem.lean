/-
C15 — Signer.FromStackItem / ToStackItem: what is accepted, and the round trip. Core Lean only.
-/
import NeoModel.Proofs.WitnessItems
import NeoModel.Proofs.WitnessEncode
namespace NeoModel.Witness

theorem itemsMapMA_spec {α : Type} (dec : Item → Option α) : ∀ (items : List Item) (cs : List α),
    itemsMapMA dec items = some cs → cs.length = items.length ∧ ∀ c ∈ cs, ∃ x ∈ items, dec x = some c
  | [], cs, h => by simp [itemsMapMA] at h; subst h; simp
  | x :: xs, cs, h => by
    simp only [itemsMapMA] at h
    split at h
    · cases h
    · rename_i c hc
      split at h
      · cases h
      · rename_i cs' hcs
        cases h
        have ih := itemsMapMA_spec dec xs cs' hcs
        refine ⟨by simp [ih.1], ?_⟩
        intro c' hc'
        rcases List.mem_cons.mp hc' with rfl | hm
        · exact ⟨x, by simp, hc⟩
        · obtain ⟨y, hy, hd⟩ := ih.2 c' hm
          exact ⟨y, by simp [hy], hd⟩

theorem listOfItems_spec {α : Type} (dec : Item → Option α) (it : Item) (cs : List α)
    (h : listOfItems dec it = some cs) : cs.length ≤ maxSubitems ∧ ∀ c ∈ cs, ∃ x, dec x = some c := by
  unfold listOfItems at h
  split at h
  · cases h
  · rename_i xs _
    split at h
    · cases h
    · have := itemsMapMA_spec dec xs cs h
      refine ⟨by rw [this.1]; omega, fun c hc => ?_⟩
      obtain ⟨x, _, hx⟩ := this.2 c hc
      exact ⟨x, hx⟩

/-- What `Signer.FromStackItem` accepts, for any item: a scope BYTE (any value: it is not validated), at most
16 contracts / groups / rules, every rule Deny / Allow with a condition within the limits. -/
theorem signerFromItem_spec (dk : Bytes → Option Key) (it : Item) (s : Signer)
    (h : signerFromItem dk it = some s) :
    s.scopes ≤ 255 ∧ s.allowedContracts.length ≤ maxSubitems ∧ s.allowedGroups.length ≤ maxSubitems ∧
    s.rules.length ≤ maxSubitems ∧ ∀ r ∈ s.rules, r.wellFormed := by
  unfold signerFromItem at h
  split at h
  · rename_i a sc cs gs rs _
    split at h
    · rename_i acc sv c g r _ hsc hc hg hr
      cases h
      have h1 := listOfItems_spec _ _ _ hc
      have h2 := listOfItems_spec _ _ _ hg
      have h3 := listOfItems_spec _ _ _ hr
      refine ⟨?_, h1.1, h2.1, h3.1, ?_⟩
      · unfold Item.toUint8 at hsc
        split at hsc
        · cases hsc
        · split at hsc
          · rename_i hi; cases hsc; show Int.toNat _ ≤ 255; omega
          · cases hsc
      · intro x hx
        obtain ⟨y, hy⟩ := h3.2 x hx
        exact ruleFromItem_wellformed dk y x hy
    · cases h
  · cases h

theorem itemsMapMA_map {α : Type} (dec : Item → Option α) (enc : α → Item) : ∀ xs : List α,
    (∀ x ∈ xs, dec (enc x) = some x) → itemsMapMA dec (xs.map enc) = some xs
  | [], _ => rfl
  | x :: xs, h => by
    simp only [List.map_cons, itemsMapMA, h x (by simp), itemsMapMA_map dec enc xs (fun y hy => h y (by simp [hy]))]

theorem listOfItems_map {α : Type} (dec : Item → Option α) (enc : α → Item) (xs : List α)
    (hl : xs.length ≤ maxSubitems) (h : ∀ x ∈ xs, dec (enc x) = some x) :
    listOfItems dec (.array (xs.map enc)) = some xs := by
  unfold listOfItems
  simp only [Item.elems?, List.length_map]
  rw [if_neg (by omega)]
  exact itemsMapMA_map dec enc xs h

/-- `FromStackItem (ToStackItem s) = s` for every signer with a scope byte, 20-byte hashes, at most 16
entries per list and well-formed rules. -/
theorem signerFromItem_toItem (dk : Bytes → Option Key) (ek : Key → Bytes) (hk : ∀ k, dk (ek k) = some k)
    (s : Signer) (hb : s.scopes ≤ 255) (hh : s.hashesOk)
    (hlc : s.allowedContracts.length ≤ maxSubitems) (hlg : s.allowedGroups.length ≤ maxSubitems)
    (hlr : s.rules.length ≤ maxSubitems) (hrw : ∀ r ∈ s.rules, r.wellFormed) :
    signerFromItem dk (signerToItem ek s) = some s := by
  obtain ⟨hacc, hcs, hrs⟩ := hh
  have e1 := toUint160_beBytes s.account hacc
  have e2 := toUint8_int s.scopes hb
  have e3 := listOfItems_map Item.toUint160 (fun h => Item.bytes (beBytes 20 h)) s.allowedContracts hlc
    (fun h hm => toUint160_beBytes h (hcs h hm))
  have e4 := listOfItems_map (fun x => x.tryBytes.bind dk) (fun k => Item.bytes (ek k)) s.allowedGroups hlg
    (fun k _ => by simp [Item.tryBytes, hk k])
  have e5 := listOfItems_map (ruleFromItem dk) (ruleToItem ek) s.rules hlr
    (fun r hm => ruleFromItem_toItem dk ek hk r (hrw r hm) (hrs r hm))
  simp only [signerFromItem, signerToItem, Item.elems?, e1, e2, e3, e4, e5]

end NeoModel.Witness
