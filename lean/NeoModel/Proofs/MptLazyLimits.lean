/-
The side conditions of the schedule theorem (Proofs/MptLazyRun.lean `lrun_erun`) from the size limits of
the operations: a well-formed trie is at most twice as high as its longest key, so after any history
within the limits of `Put` the trie is `Bounded` and a fuel of 549 suffices.
-/
import NeoModel.Proofs.MptLazyRun
import NeoModel.Proofs.MptHistory
import NeoModel.Proofs.MptProofs
namespace NeoModel.Mpt

/-- the maximum over the children is attained (or is 0). -/
theorem height_branch_attained (cs : Nib → Node) (v : Option Val) :
    height (.branch cs v) = 1 ∨ ∃ i, height (.branch cs v) = height (cs i) + 1 := by
  have : ∀ (l : List Nib), (l.map fun i => height (cs i)).foldr max 0 = 0 ∨
      ∃ i, (l.map fun i => height (cs i)).foldr max 0 = height (cs i) := by
    intro l
    induction l with
    | nil => left; rfl
    | cons a l ih =>
      simp only [List.map_cons, List.foldr_cons]
      rcases Nat.le_total (height (cs a)) ((l.map fun i => height (cs i)).foldr max 0) with h | h
      · rw [Nat.max_eq_right h]; exact ih
      · rw [Nat.max_eq_left h]; right; exact ⟨a, rfl⟩
  rcases this (List.finRange 16) with h | ⟨i, h⟩
  · left; simp [height, h]
  · right; exact ⟨i, by simp [height, h]⟩

/-- a well-formed non-empty trie is no higher than twice its longest key (+1): every extension and
every branch level lies on the path to some key. -/
theorem height_le_key (t : Node) (hw : WF t) (hne : t.isEmpty = false) :
    ∃ p v, lookup t p = some v ∧ height t ≤ 2 * p.length + 1 := by
  induction t with
  | empty => simp [Node.isEmpty] at hne
  | leaf w => exact ⟨[], w, by simp [lookup], by simp [height]⟩
  | ext k n ih =>
    obtain ⟨hk, hne', _, hn⟩ := hw
    obtain ⟨p, v, hp, hh⟩ := ih hn hne'
    refine ⟨k ++ p, v, by simp [lookup_ext, stripPre_append, hp], ?_⟩
    have : 1 ≤ k.length := by cases k with | nil => exact absurd rfl hk | cons a k => simp
    simp only [height, List.length_append]; omega
  | branch cs v ih =>
    obtain ⟨hk, hc⟩ := hw
    rcases height_branch_attained cs v with h1 | ⟨i, hi⟩
    · obtain ⟨j, hj⟩ := exists_kid_of_count hc
      obtain ⟨p, hp⟩ := exists_key (cs j) (hk j) hj
      cases hv : lookup (cs j) p with
      | none => exact absurd hv hp
      | some x => exact ⟨j :: p, x, by simpa [lookup] using hv, by rw [h1]; simp⟩
    · cases hie : (cs i).isEmpty with
      | true =>
        have : height (cs i) = 0 := by rw [isEmpty_iff.mp hie]; rfl
        obtain ⟨j, hj⟩ := exists_kid_of_count hc
        obtain ⟨p, hp⟩ := exists_key (cs j) (hk j) hj
        cases hv : lookup (cs j) p with
        | none => exact absurd hv hp
        | some x => exact ⟨j :: p, x, by simpa [lookup] using hv, by rw [hi, this]; simp⟩
      | false =>
        obtain ⟨p, x, hp, hh⟩ := ih i (hk i) hie
        exact ⟨i :: p, x, by simpa [lookup] using hp, by rw [hi]; simp; omega⟩

/-- the size limits of `Trie.Put` / the storage layer on one operation: keys of at most 136 nibbles
(68 bytes), values of at most `MaxValueLength` bytes. -/
def Op.lim : Op → Prop
  | .put p v => p.length ≤ maxPathLength ∧ v.length ≤ maxValueLength
  | .del _ => True
  | .batch m => ∀ e ∈ m, e.1.length ≤ maxPathLength ∧ ∀ w, e.2 = some w → w.length ≤ maxValueLength

theorem lookup_mem {m : List KV} {q : Path} {ov : Option Val} (h : m.lookup q = some ov) : (q, ov) ∈ m := by
  induction m with
  | nil => simp [List.lookup] at h
  | cons e m ih =>
    obtain ⟨k, x⟩ := e
    simp only [List.lookup] at h
    split at h
    · next heq => simp at heq; injection h with h; subst h; simp [heq]
    · simp [ih h]

theorem specOp_lim (f : Path → Option Val) (o : Op) (ho : o.lim)
    (hf : ∀ q v, f q = some v → q.length ≤ maxPathLength ∧ v.length ≤ maxValueLength) :
    ∀ q v, specOp f o q = some v → q.length ≤ maxPathLength ∧ v.length ≤ maxValueLength := by
  intro q v h
  cases o with
  | put p x =>
    simp only [specOp] at h
    split at h
    · next e => subst e; injection h with h; subst h; exact ho
    · exact hf q v h
  | del p =>
    simp only [specOp] at h
    split at h
    · cases h
    · exact hf q v h
  | batch m =>
    simp only [specOp, applyBatch] at h
    cases hl : m.lookup q with
    | none => rw [hl] at h; exact hf q v h
    | some ov =>
      rw [hl] at h
      simp only at h
      subst h
      have := ho _ (lookup_mem hl)
      exact ⟨this.1, this.2 v rfl⟩

theorem foldl_specOp_lim (ops : List Op) (hl : ∀ o ∈ ops, o.lim) (f : Path → Option Val)
    (hf : ∀ q v, f q = some v → q.length ≤ maxPathLength ∧ v.length ≤ maxValueLength) :
    ∀ q v, ops.foldl specOp f q = some v → q.length ≤ maxPathLength ∧ v.length ≤ maxValueLength := by
  induction ops generalizing f with
  | nil => exact hf
  | cons o ops ih =>
    simp only [List.foldl_cons]
    exact ih (fun o' ho' => hl o' (by simp [ho'])) _ (specOp_lim f o (hl o (by simp)) hf)

/-- after any history of operations within the size limits the trie is `Bounded` and at most 273
high, so a fuel of 549 is enough for every lazy operation on it. -/
theorem run_bounded (ops : List Op) (hok : ∀ o ∈ ops, o.ok) (hl : ∀ o ∈ ops, o.lim) :
    Bounded (run ops) ∧ 2 * height (run ops) + 3 ≤ 549 := by
  obtain ⟨hw, hlk⟩ := run_spec ops hok
  have hc : ∀ q v, lookup (run ops) q = some v → q.length ≤ maxPathLength ∧ v.length ≤ maxValueLength := by
    intro q v h
    rw [hlk] at h
    exact foldl_specOp_lim ops hl _ (by intro q v h; cases h) q v h
  refine ⟨bounded_of_contents _ hw hc, ?_⟩
  cases hne : (run ops).isEmpty with
  | true => rw [isEmpty_iff.mp hne]; simp [height]
  | false =>
    obtain ⟨p, v, hp, hh⟩ := height_le_key _ hw hne
    have := (hc p v hp).1
    unfold maxPathLength at this
    omega


/-- the history of mutating operations inside a schedule. -/
def mutOps : List LOp → List Op
  | [] => []
  | .put p v :: ops => .put p v :: mutOps ops
  | .del p :: ops => .del p :: mutOps ops
  | .batch m :: ops => .batch m :: mutOps ops
  | _ :: ops => mutOps ops

theorem mutOps_append (a b : List LOp) : mutOps (a ++ b) = mutOps a ++ mutOps b := by
  induction a with
  | nil => rfl
  | cons o a ih => cases o <;> simp [mutOps, ih]

theorem estep_run (H : Bytes → Bytes) (ms : List Op) (o : LOp) :
    (estep H (run ms) o).1 = run (ms ++ mutOps [o]) := by
  cases o <;> simp [estep, mutOps, run, List.foldl_append, applyOp]

/-- the side conditions of `lrun_erun` from the size limits of the operations: only the absence of
hash collisions inside each trie the history passes through remains an assumption. -/
theorem goodRun_of_limits (H : Bytes → Bytes) (ops : List LOp)
    (hd : ∀ o ∈ mutOps ops, o.ok) (hl : ∀ o ∈ mutOps ops, o.lim)
    (hcf : ∀ pre, pre <+: ops → CollFree H (nodeEncs H (run (mutOps pre)))) :
    GoodRun H 549 .empty ops := by
  have key : ∀ (rest done : List LOp), ops = done ++ rest → GoodRun H 549 (run (mutOps done)) rest := by
    intro rest
    induction rest with
    | nil =>
      intro done he
      have hm : mutOps ops = mutOps done := by rw [he]; simp
      obtain ⟨hb, hh⟩ := run_bounded (mutOps done) (fun o ho => hd o (hm ▸ ho)) (fun o ho => hl o (hm ▸ ho))
      exact ⟨hb, hcf done ⟨[], by simp [he]⟩, hh⟩
    | cons o rest ih =>
      intro done he
      have hsub : ∀ x ∈ mutOps done, x ∈ mutOps ops := by
        intro x hx; rw [he, mutOps_append]; simp [hx]
      obtain ⟨hb, hh⟩ := run_bounded (mutOps done) (fun x hx => hd x (hsub x hx)) (fun x hx => hl x (hsub x hx))
      refine ⟨⟨hb, hcf done ⟨o :: rest, he.symm⟩, hh⟩, ?_⟩
      rw [estep_run, ← mutOps_append]
      exact ih (done ++ [o]) (by simp [he])
  exact key ops [] rfl


theorem erun_state (H : Bytes → Bytes) : ∀ (ops : List LOp) (t : Node),
    (erun H t ops).1 = (mutOps ops).foldl applyOp t := by
  intro ops
  induction ops with
  | nil => intro t; rfl
  | cons o ops ih => intro t; cases o <;> simp [erun, estep, mutOps, ih, applyOp]

end NeoModel.Mpt
