/- C19 helper lemmas: synchronous round, phase B (responses). -/
import NeoModel.Proofs.DbftLiveA
namespace NeoModel.Dbft

/-- a send step followed by the delivery of its broadcast to everybody else -/
theorem run_macro (c : Cfg) (s : State) (a : Action) (i : Nat) (m : Msg) (nodes1 : Nat → Node)
    (en : Enabled c s a) (hap : apply c s a = ⟨nodes1, bcast c i m ++ s.net⟩) :
    run c s (a :: deliverAll c i m) = some ⟨learnL nodes1 m.items (others c i), s.net⟩ := by
  rw [run_cons_enabled _ en, hap, bcast_eq]
  exact run_deliverL c nodes1 s.net m (others c i)

/-- what everybody holds after such a macro step -/
theorem macro_known (c : Cfg) (nodes : Nat → Node) (j : Nat) (nd' : Node) (its : List Item)
    (hk : ∀ it, it ∈ (nodes j).known → it ∈ nd'.known) (hself : ∀ it, it ∈ its → it ∈ nd'.known) :
    (∀ i it, it ∈ (nodes i).known → it ∈ (learnL (upd nodes j nd') its (others c j) i).known) ∧
    (∀ i, i < c.n → ∀ it, it ∈ its → it ∈ (learnL (upd nodes j nd') its (others c j) i).known) := by
  constructor
  · intro i it h
    apply learnL_mono
    by_cases hij : i = j
    · subst hij; rw [upd_same]; exact hk it h
    · rw [upd_other _ _ _ hij]; exact h
  · intro i hi it hit
    by_cases hij : i = j
    · subst hij; apply learnL_mono; rw [upd_same]; exact hself it hit
    · exact learnL_learn _ _ _ _ _ (mem_others.mpr ⟨hi, hij⟩) hit

/-- `s'` extends `s` inside a round: heights, views, ledgers and the network are as before, knowledge grew -/
structure Ext (s s' : State) : Prop where
  hgt : ∀ i, (s'.nodes i).height = (s.nodes i).height
  vw : ∀ i, (s'.nodes i).view = (s.nodes i).view
  chn : ∀ i, (s'.nodes i).chain = (s.nodes i).chain
  kn : ∀ i it, it ∈ (s.nodes i).known → it ∈ (s'.nodes i).known
  net : s'.net = s.net

theorem Ext.refl (s : State) : Ext s s := ⟨fun _ => rfl, fun _ => rfl, fun _ => rfl, fun _ _ h => h, rfl⟩
theorem Ext.trans {a b c : State} (h1 : Ext a b) (h2 : Ext b c) : Ext a c :=
  ⟨fun i => (h2.hgt i).trans (h1.hgt i), fun i => (h2.vw i).trans (h1.vw i), fun i => (h2.chn i).trans (h1.chn i),
   fun i it h => h2.kn i it (h1.kn i it h), h2.net.trans h1.net⟩

/-- Phase B: every backup in `L` answers the request and its answer reaches everybody. -/
theorem phaseB (c : Cfg) (h : Nat) (b : Block) (hbh : b.h = h) (hbv : b.v = 0)
    (hver : ∀ j, c.verify j b = true) :
    ∀ (L : List Nat), L.Nodup → ∀ (s : State),
      (∀ i, i < c.n → (s.nodes i).height = h ∧ (s.nodes i).view = 0 ∧
        Item.prepReq (c.primary h 0) b ∈ (s.nodes i).known) →
      (∀ j, j ∈ L → j < c.n ∧ j ≠ c.primary h 0 ∧ ∀ x, x ∈ (s.nodes j).myPreps → x.h < h) →
      ∃ s', run c s (L.flatMap (fun j => Action.sendPrepResp j b :: deliverAll c j (.item (.prepResp j b)))) = some s' ∧
        Ext s s' ∧ (∀ i, (s'.nodes i).myCommits = (s.nodes i).myCommits) ∧
        (∀ i, i ∉ L → (s'.nodes i).myPreps = (s.nodes i).myPreps) ∧
        (∀ i x, x ∈ (s'.nodes i).myPreps → x ∈ (s.nodes i).myPreps ∨ x = b) ∧
        (∀ j, j ∈ L → ∀ i, i < c.n → Item.prepResp j b ∈ (s'.nodes i).known) := by
  intro L
  induction L with
  | nil =>
    intro _ s _ _
    exact ⟨s, by simp [run], Ext.refl s, fun _ => rfl, fun _ _ => rfl, fun _ _ hx => Or.inl hx, fun _ hj => by simp at hj⟩
  | cons j L ih =>
    intro hnd s hmid hfresh
    obtain ⟨hjL, hndL⟩ := List.nodup_cons.mp hnd
    obtain ⟨hjn, hjp, hjf⟩ := hfresh j List.mem_cons_self
    obtain ⟨hjh, hjv, hjr⟩ := hmid j hjn
    have en : Enabled c s (.sendPrepResp j b) := by
      refine ⟨hjn, by rw [hbh, hjh], by rw [hbv, hjv], by rw [hbh, hbv]; exact hjp, by rw [hbh, hbv]; exact hjr, ?_, hver j⟩
      intro x hx hc; have := hjf x hx; omega
    -- the state after j's macro step
    let ndj : Node := { s.nodes j with known := addKnown (s.nodes j).known (.prepResp j b), myPreps := b :: (s.nodes j).myPreps }
    let s1 : State := ⟨learnL (upd s.nodes j ndj) [.prepResp j b] (others c j), s.net⟩
    have hrun1 : run c s (.sendPrepResp j b :: deliverAll c j (.item (.prepResp j b))) = some s1 :=
      run_macro c s _ j _ _ en rfl
    have hcore : ∀ i, SameCore (s1.nodes i) (upd s.nodes j ndj i) := fun i => learnL_core _ _ _ i
    obtain ⟨hkn, hall⟩ := macro_known c s.nodes j ndj [.prepResp j b]
      (fun it hit => mem_addKnown.mpr (Or.inr hit))
      (fun it hit => by simp at hit; subst hit; exact mem_addKnown.mpr (Or.inl rfl))
    have hupd : ∀ i, i ≠ j → upd s.nodes j ndj i = s.nodes i := fun i hi => upd_other _ _ _ hi
    have hext1 : Ext s s1 := by
      refine ⟨fun i => ?_, fun i => ?_, fun i => ?_, hkn, rfl⟩
      · rw [(hcore i).1]; by_cases hi : i = j
        · subst hi; rw [upd_same]
        · rw [hupd i hi]
      · rw [(hcore i).2.1]; by_cases hi : i = j
        · subst hi; rw [upd_same]
        · rw [hupd i hi]
      · rw [(hcore i).2.2.1]; by_cases hi : i = j
        · subst hi; rw [upd_same]
        · rw [hupd i hi]
    have hcm1 : ∀ i, (s1.nodes i).myCommits = (s.nodes i).myCommits := by
      intro i; rw [(hcore i).2.2.2.2]; by_cases hi : i = j
      · subst hi; rw [upd_same]
      · rw [hupd i hi]
    have hpp1 : ∀ i, i ≠ j → (s1.nodes i).myPreps = (s.nodes i).myPreps := by
      intro i hi; rw [(hcore i).2.2.2.1, hupd i hi]
    have hppj : (s1.nodes j).myPreps = b :: (s.nodes j).myPreps := by
      rw [(hcore j).2.2.2.1, upd_same]
    -- the rest of the list
    have hmid1 : ∀ i, i < c.n → (s1.nodes i).height = h ∧ (s1.nodes i).view = 0 ∧
        Item.prepReq (c.primary h 0) b ∈ (s1.nodes i).known := by
      intro i hi
      obtain ⟨a1, a2, a3⟩ := hmid i hi
      exact ⟨by rw [hext1.hgt]; exact a1, by rw [hext1.vw]; exact a2, hext1.kn i _ a3⟩
    have hfresh1 : ∀ k, k ∈ L → k < c.n ∧ k ≠ c.primary h 0 ∧ ∀ x, x ∈ (s1.nodes k).myPreps → x.h < h := by
      intro k hk
      obtain ⟨b1, b2, b3⟩ := hfresh k (List.mem_cons_of_mem _ hk)
      have hkj : k ≠ j := fun e => hjL (e ▸ hk)
      exact ⟨b1, b2, by rw [hpp1 k hkj]; exact b3⟩
    obtain ⟨s', hrun', hext', hcm', hpp', hppb', hresp'⟩ := ih hndL s1 hmid1 hfresh1
    refine ⟨s', ?_, hext1.trans hext', fun i => (hcm' i).trans (hcm1 i), ?_, ?_, ?_⟩
    · rw [List.flatMap_cons, run_append, hrun1]; exact hrun'
    · intro i hi
      have hij : i ≠ j := fun e => hi (e ▸ List.mem_cons_self)
      have hiL : i ∉ L := fun e => hi (List.mem_cons_of_mem _ e)
      rw [hpp' i hiL, hpp1 i hij]
    · intro i x hx
      rcases hppb' i x hx with hx1 | hx1
      · by_cases hij : i = j
        · subst hij; rw [hppj] at hx1
          rcases List.mem_cons.mp hx1 with e | m
          · exact Or.inr e
          · exact Or.inl m
        · rw [hpp1 i hij] at hx1; exact Or.inl hx1
      · exact Or.inr hx1
    · intro k hk i hi
      rcases List.mem_cons.mp hk with e | m
      · subst e; exact hext'.kn i _ (hall i hi _ (by simp))
      · exact hresp' k m i hi

end NeoModel.Dbft
