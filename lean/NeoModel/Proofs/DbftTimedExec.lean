/-
C19 — a timed step semantics for the guarded-command model and the synchronous round as a TIMED EXECUTION.
A timed run attaches an instant to every step; time never goes back, no validator's timer may be overdue when a
step is taken (urgency), a `timeout i` step happens exactly at validator i's deadline. Deadlines follow the machine's
formulas (Model/DbftMach.lean `afterRequest`, `roundTimeout`; check.go:46 after a Commit); timer EXTENSIONS
(dbft.go:747-751) are left out, so the deadlines here are lower bounds of the real ones — sound for "nothing is
overdue". `lb` is lastBlockTime (check.go:8-14: the first checkPrepare of the round).
-/
import NeoModel.Proofs.DbftTimed
import NeoModel.Proofs.DbftLive
namespace NeoModel.Dbft.Timed
open NeoModel.Dbft NeoModel.Dbft.Mach

structure TS where
  now : Nat
  dl : Nat → Nat      -- timer deadline of each validator
  lb : Nat → Nat      -- lastBlockTime of each validator

def setAt (f : Nat → Nat) (i v : Nat) : Nat → Nat := fun k => if k = i then v else f k

/-- what a step does to the clocks at instant `t` (height `h` being decided, `tpb` = TimePerBlock) -/
def tupd (c : Cfg) (tpb h : Nat) (ts : TS) (a : Action) (t : Nat) : TS :=
  match a with
  | .sendPrepReq i _ => { now := t, dl := setAt ts.dl i (t + afterRequest tpb 0), lb := setAt ts.lb i t }
  | .deliver k (.item (.prepReq _ _)) => { now := t, dl := ts.dl, lb := setAt ts.lb k t }
  | .sendCommit i _ => { now := t, dl := setAt ts.dl i (t + tpb), lb := ts.lb }
  | .accept i _ =>
    { now := t, lb := ts.lb,
      dl := setAt ts.dl i (t + roundTimeout tpb (decide (i = c.primary (h + 1) 0)) 0 0 (some (some (t - ts.lb i)))) }
  | _ => { ts with now := t }

/-- the timing guard of a step -/
def tguard (c : Cfg) (ts : TS) (a : Action) (t : Nat) : Prop :=
  ts.now ≤ t ∧ (∀ k, k < c.n → t ≤ ts.dl k) ∧ (∀ i, a = .timeout i → t = ts.dl i)

/-- timed runs -/
inductive TRun (c : Cfg) (tpb h : Nat) : TS → List (Action × Nat) → TS → Prop where
  | nil (ts : TS) : TRun c tpb h ts [] ts
  | cons {ts ts' : TS} {a : Action} {t : Nat} {rest : List (Action × Nat)} :
      tguard c ts a t → TRun c tpb h (tupd c tpb h ts a t) rest ts' → TRun c tpb h ts ((a, t) :: rest) ts'

theorem TRun.append {c : Cfg} {tpb h : Nat} {a b d : TS} {l1 l2 : List (Action × Nat)}
    (h1 : TRun c tpb h a l1 b) (h2 : TRun c tpb h b l2 d) : TRun c tpb h a (l1 ++ l2) d := by
  induction h1 with
  | nil => exact h2
  | cons g _ ih => exact TRun.cons g (ih h2)

def noTimeout (a : Action) : Prop := ∀ i, a ≠ .timeout i

theorem tupd_dl_ge (c : Cfg) (tpb h : Nat) (ts : TS) (a : Action) (t : Nat) (k : Nat) (hk : t ≤ ts.dl k) :
    t ≤ (tupd c tpb h ts a t).dl k := by
  unfold tupd
  split <;> simp only [setAt] <;> (try split) <;> omega

theorem tupd_now (c : Cfg) (tpb h : Nat) (ts : TS) (a : Action) (t : Nat) : (tupd c tpb h ts a t).now = t := by
  unfold tupd; split <;> rfl

/-- a segment: steps (none of them a timeout) all taken at one instant at which nothing is overdue -/
theorem trun_segment (c : Cfg) (tpb h t : Nat) (L : List Action) :
    ∀ ts : TS, ts.now ≤ t → (∀ k, k < c.n → t ≤ ts.dl k) → (∀ a ∈ L, noTimeout a) →
      TRun c tpb h ts (L.map fun a => (a, t)) (L.foldl (fun ts a => tupd c tpb h ts a t) ts) := by
  induction L with
  | nil => intro ts _ _ _; exact TRun.nil ts
  | cons a rest ih =>
    intro ts hn hd hnt
    simp only [List.map_cons, List.foldl_cons]
    refine TRun.cons ⟨hn, hd, fun i hi => absurd hi (hnt a (by simp) i)⟩ ?_
    apply ih
    · rw [tupd_now]; exact Nat.le_refl _
    · intro k hk; exact tupd_dl_ge c tpb h ts a t k (hd k hk)
    · intro b hb; exact hnt b (by simp [hb])

/-- … at the end of which nothing is overdue either -/
theorem fold_dl_ge (c : Cfg) (tpb h t : Nat) (L : List Action) :
    ∀ ts : TS, (∀ k, k < c.n → t ≤ ts.dl k) → ∀ k, k < c.n → t ≤ (L.foldl (fun ts a => tupd c tpb h ts a t) ts).dl k := by
  induction L with
  | nil => intro ts hd; exact hd
  | cons a rest ih =>
    intro ts hd
    simp only [List.foldl_cons]
    exact ih _ (fun k hk => tupd_dl_ge c tpb h ts a t k (hd k hk))

theorem fold_now (c : Cfg) (tpb h t : Nat) (L : List Action) (ts : TS) (hne : L ≠ []) :
    (L.foldl (fun ts a => tupd c tpb h ts a t) ts).now = t := by
  induction L generalizing ts with
  | nil => exact absurd rfl hne
  | cons a rest ih =>
    simp only [List.foldl_cons]
    cases rest with
    | nil => exact tupd_now c tpb h ts a t
    | cons b r => exact ih _ (by simp)

/-- steps that do not touch the clocks -/
def Neutral (c : Cfg) (tpb h : Nat) (a : Action) : Prop :=
  ∀ ts t, (tupd c tpb h ts a t).dl = ts.dl ∧ (tupd c tpb h ts a t).lb = ts.lb

theorem fold_neutral (c : Cfg) (tpb h t : Nat) (L : List Action) (hL : ∀ a ∈ L, Neutral c tpb h a) (ts : TS) :
    (L.foldl (fun ts a => tupd c tpb h ts a t) ts).dl = ts.dl ∧ (L.foldl (fun ts a => tupd c tpb h ts a t) ts).lb = ts.lb := by
  induction L generalizing ts with
  | nil => exact ⟨rfl, rfl⟩
  | cons a rest ih =>
    simp only [List.foldl_cons]
    obtain ⟨h1, h2⟩ := ih (fun b hb => hL b (by simp [hb])) (tupd c tpb h ts a t)
    obtain ⟨h3, h4⟩ := hL a (by simp) ts t
    exact ⟨h1.trans h3, h2.trans h4⟩

theorem neutral_deliverAll (c : Cfg) (tpb h i : Nat) (it : Item) (hit : ∀ f b, it ≠ .prepReq f b) :
    ∀ a ∈ deliverAll c i (.item it), Neutral c tpb h a := by
  intro a ha
  unfold deliverAll at ha
  rw [List.mem_map] at ha
  obtain ⟨k, _, rfl⟩ := ha
  intro ts t
  cases it with
  | prepReq f b => exact absurd rfl (hit f b)
  | _ => exact ⟨rfl, rfl⟩

/-- S1: the PrepareRequest reaches a list of backups at `t`: their lastBlockTime is `t` -/
theorem fold_deliverReq (c : Cfg) (tpb h t f : Nat) (b : Block) (js : List Nat) (ts : TS) :
    let r := (js.map fun k => Action.deliver k (.item (.prepReq f b))).foldl (fun ts a => tupd c tpb h ts a t) ts
    r.dl = ts.dl ∧ ∀ k, r.lb k = if k ∈ js then t else ts.lb k := by
  induction js generalizing ts with
  | nil => exact ⟨rfl, fun k => by simp⟩
  | cons j rest ih =>
    simp only [List.map_cons, List.foldl_cons]
    obtain ⟨h1, h2⟩ := ih (tupd c tpb h ts (.deliver j (.item (.prepReq f b))) t)
    refine ⟨h1, fun k => ?_⟩
    rw [h2 k]
    simp only [tupd, setAt, List.mem_cons]
    by_cases hk : k ∈ rest
    · simp [hk]
    · by_cases hkj : k = j <;> simp [hk, hkj]

/-- S3: the validators of a list send their Commits at `t` (and the Commits are delivered): their deadline is `t + tpb` -/
theorem fold_commits (c : Cfg) (tpb h t : Nat) (b : Block) (js : List Nat) (ts : TS) :
    let r := (js.flatMap fun i => Action.sendCommit i b :: deliverAll c i (.item (.commit i b))).foldl
      (fun ts a => tupd c tpb h ts a t) ts
    r.lb = ts.lb ∧ ∀ k, r.dl k = if k ∈ js then t + tpb else ts.dl k := by
  induction js generalizing ts with
  | nil => exact ⟨rfl, fun k => by simp⟩
  | cons j rest ih =>
    simp only [List.flatMap_cons, List.foldl_append, List.foldl_cons]
    obtain ⟨n1, n2⟩ := fold_neutral c tpb h t (deliverAll c j (.item (.commit j b)))
      (neutral_deliverAll c tpb h j _ (by intro f b' hh; cases hh)) (tupd c tpb h ts (.sendCommit j b) t)
    obtain ⟨h1, h2⟩ := ih ((deliverAll c j (.item (.commit j b))).foldl (fun ts a => tupd c tpb h ts a t)
      (tupd c tpb h ts (.sendCommit j b) t))
    refine ⟨by rw [h1, n2]; rfl, fun k => ?_⟩
    rw [h2 k, n1]
    simp only [tupd, setAt, List.mem_cons]
    by_cases hk : k ∈ rest
    · simp [hk]
    · by_cases hkj : k = j <;> simp [hk, hkj]

/-- S4: the validators of a list take the block at `t`: their timer is re-armed for the next height -/
theorem fold_accepts (c : Cfg) (tpb h t : Nat) (b : Block) (js : List Nat) (ts : TS) :
    let r := (js.map fun i => Action.accept i b).foldl (fun ts a => tupd c tpb h ts a t) ts
    r.lb = ts.lb ∧ ∀ k, r.dl k = if k ∈ js then
      t + roundTimeout tpb (decide (k = c.primary (h + 1) 0)) 0 0 (some (some (t - ts.lb k))) else ts.dl k := by
  induction js generalizing ts with
  | nil => exact ⟨rfl, fun k => by simp⟩
  | cons j rest ih =>
    simp only [List.map_cons, List.foldl_cons]
    obtain ⟨h1, h2⟩ := ih (tupd c tpb h ts (.accept j b) t)
    refine ⟨by rw [h1]; rfl, fun k => ?_⟩
    rw [h2 k]
    simp only [tupd, setAt, List.mem_cons]
    by_cases hk : k ∈ rest
    · simp [hk]
    · by_cases hkj : k = j
      · subst hkj; simp [hk]
      · simp [hk, hkj]

theorem fold_now_le (c : Cfg) (tpb h t : Nat) (L : List Action) (ts : TS) (hn : ts.now ≤ t) :
    (L.foldl (fun ts a => tupd c tpb h ts a t) ts).now ≤ t := by
  cases L with
  | nil => exact hn
  | cons a r => rw [fold_now c tpb h t (a :: r) ts (by simp)]; exact Nat.le_refl _

theorem mem_others (c : Cfg) (i k : Nat) : k ∈ others c i ↔ k < c.n ∧ k ≠ i := by
  unfold others; simp

/-- the synchronous round of height `h` as a timed schedule: the primary's timer fires at `P1` and it proposes;
the request arrives at `t1`, the responses are sent and arrive at `t2`, the Commits at `t3`, where the blocks are
taken -/
def timedRound (c : Cfg) (h p P1 t1 t2 t3 : Nat) : List (Action × Nat) :=
  let pr := c.primary h 0
  let b : Block := ⟨h, 0, p⟩
  ([Action.timeout pr, .sendPrepReq pr p].map fun a => (a, P1)) ++
  ((deliverAll c pr (.item (.prepReq pr b))).map fun a => (a, t1)) ++
  (((others c pr).flatMap fun j => Action.sendPrepResp j b :: deliverAll c j (.item (.prepResp j b))).map fun a => (a, t2)) ++
  (((List.range c.n).flatMap fun i => Action.sendCommit i b :: deliverAll c i (.item (.commit i b))).map fun a => (a, t3)) ++
  (((List.range c.n).map fun i => Action.accept i b).map fun a => (a, t3))

/-- its steps are the steps of the (untimed) synchronous round -/
theorem timedRound_steps (c : Cfg) (h p P1 t1 t2 t3 : Nat) :
    (timedRound c h p P1 t1 t2 t3).map (·.1) = fairRound c h p := by
  unfold timedRound fairRound
  simp only [List.map_append, List.map_map]
  have : ∀ t : Nat, (Prod.fst ∘ fun a : Action => (a, t)) = id := fun t => rfl
  simp only [this, List.map_id]
  rfl

/-- the clocks at the start of a synchronous round whose predecessor was proposed at `P0`: every validator's
lastBlockTime lies in `[P0, P0+δ]`, its timer was armed by Reset (deadline = lastBlockTime + TimePerBlock for the
primary of the new height, + 2·TimePerBlock for a backup), and it is not later than `P0 + 3δ` -/
def ClocksOk (c : Cfg) (tpb δ P0 pr : Nat) (ts : TS) : Prop :=
  ts.now ≤ P0 + 3 * δ ∧ ∀ k, k < c.n → P0 ≤ ts.lb k ∧ ts.lb k ≤ P0 + δ ∧
    ts.dl k = ts.lb k + (if k = pr then tpb else 2 * tpb)

theorem primary_lt (c : Cfg) (hn : 0 < c.n) (h v : Nat) : c.primary h v < c.n := Nat.mod_lt _ hn

/-- C19 (liveness under synchrony as a TIMED EXECUTION, one height, every n): hop delays `d1 d2 d3 ≤ δ` with
`4δ < TimePerBlock` (one δ more than `sync_round_timed`: in the step order of `fairRound` a Commit is sent in the same
hop in which it is delivered, and timer extensions are not counted), clocks `ClocksOk` for the previous proposal time `P0`. Then the timed schedule of the synchronous
round — primary's timeout exactly at its deadline `P1 = lastBlockTime + TimePerBlock`, request delivered at `P1+d1`,
responses at `+d2`, Commits and blocks at `+d3` — is a timed run: time never goes back, NO validator's timer is overdue
at any step (no ChangeView can be triggered), the only timeout is the primary's; it ends no later than `P1 + 3δ` with
the clocks `ClocksOk` for `P1` and the next height's primary. -/
theorem sync_round_timed_exec (c : Cfg) (hn : 0 < c.n) (tpb δ P0 h p d1 d2 d3 : Nat) (hδ : 4 * δ < tpb)
    (h1 : d1 ≤ δ) (h2 : d2 ≤ δ) (h3 : d3 ≤ δ) (ts : TS) (hok : ClocksOk c tpb δ P0 (c.primary h 0) ts) :
    let P1 := ts.lb (c.primary h 0) + tpb
    ∃ ts', TRun c tpb h ts (timedRound c h p P1 (P1 + d1) (P1 + d1 + d2) (P1 + d1 + d2 + d3)) ts' ∧
      P0 + tpb ≤ P1 ∧ P1 ≤ P0 + tpb + δ ∧ ClocksOk c tpb δ P1 (c.primary (h + 1) 0) ts' := by
  intro P1
  obtain ⟨hnow, hk⟩ := hok
  have hpr := primary_lt c hn h 0
  obtain ⟨hp1, hp2, hp3⟩ := hk _ hpr
  simp only [if_true] at hp3
  have hP1a : P0 + tpb ≤ P1 := by show P0 + tpb ≤ ts.lb _ + tpb; omega
  have hP1b : P1 ≤ P0 + tpb + δ := by show ts.lb _ + tpb ≤ _; omega
  have hdl : ∀ k, k < c.n → P1 ≤ ts.dl k ∧ (k ≠ c.primary h 0 → P0 + 2 * tpb ≤ ts.dl k) := by
    intro k hkn
    obtain ⟨a1, a2, a3⟩ := hk k hkn
    by_cases hkp : k = c.primary h 0
    · subst hkp; simp only [if_true] at a3; exact ⟨by omega, fun hne => absurd rfl hne⟩
    · simp only [hkp, if_false] at a3; exact ⟨by omega, fun _ => by omega⟩
  -- segment 0: the primary's timer fires and it proposes
  let tsA : TS := tupd c tpb h (tupd c tpb h ts (.timeout (c.primary h 0)) P1) (.sendPrepReq (c.primary h 0) p) P1
  have hA_dl : ∀ k, tsA.dl k = if k = c.primary h 0 then P1 + tpb else ts.dl k := by
    intro k; simp only [tsA, tupd, setAt, (primary_timeouts tpb 0).2.2.1]
  have hA_lb : ∀ k, tsA.lb k = if k = c.primary h 0 then P1 else ts.lb k := by
    intro k; simp only [tsA, tupd, setAt]
  have hA_now : tsA.now = P1 := rfl
  have hAge : ∀ t, t ≤ P1 + 3 * δ → ∀ k, k < c.n → t ≤ tsA.dl k := by
    intro t ht k hkn
    rw [hA_dl]
    split
    · omega
    · next hne => have := (hdl k hkn).2 hne; omega
  -- segment 1: the request arrives
  let L1 := deliverAll c (c.primary h 0) (.item (.prepReq (c.primary h 0) ⟨h, 0, p⟩))
  let tsB := L1.foldl (fun ts a => tupd c tpb h ts a (P1 + d1)) tsA
  have hB := fold_deliverReq c tpb h (P1 + d1) (c.primary h 0) ⟨h, 0, p⟩ (others c (c.primary h 0)) tsA
  have hL1 : L1 = (others c (c.primary h 0)).map fun k => Action.deliver k (.item (.prepReq (c.primary h 0) ⟨h, 0, p⟩)) := rfl
  have hB_dl : tsB.dl = tsA.dl := by show (L1.foldl _ tsA).dl = _; rw [hL1]; exact hB.1
  have hB_lb : ∀ k, tsB.lb k = if k ∈ others c (c.primary h 0) then P1 + d1 else tsA.lb k := by
    intro k; show (L1.foldl _ tsA).lb k = _; rw [hL1]; exact hB.2 k
  have r1 := trun_segment c tpb h (P1 + d1) L1 tsA (by rw [hA_now]; omega) (hAge _ (by omega))
    (by intro a ha i hi; rw [hL1, List.mem_map] at ha; obtain ⟨k, _, rfl⟩ := ha; cases hi)
  -- segment 2: the responses
  let L2 := (others c (c.primary h 0)).flatMap fun j =>
    Action.sendPrepResp j ⟨h, 0, p⟩ :: deliverAll c j (.item (.prepResp j ⟨h, 0, p⟩))
  let tsC := L2.foldl (fun ts a => tupd c tpb h ts a (P1 + d1 + d2)) tsB
  have hneu2 : ∀ a ∈ L2, Neutral c tpb h a := by
    intro a ha
    simp only [L2, List.mem_flatMap, List.mem_cons] at ha
    obtain ⟨j, _, ha | ha⟩ := ha
    · subst ha; intro ts' t; exact ⟨rfl, rfl⟩
    · exact neutral_deliverAll c tpb h j _ (by intro f b' hh; cases hh) a ha
  obtain ⟨hC_dl, hC_lb⟩ := fold_neutral c tpb h (P1 + d1 + d2) L2 hneu2 tsB
  have r2 := trun_segment c tpb h (P1 + d1 + d2) L2 tsB
    (Nat.le_trans (fold_now_le c tpb h (P1 + d1) L1 tsA (by rw [hA_now]; omega)) (by omega))
    (by intro k hkn; rw [hB_dl]; exact hAge _ (by omega) k hkn)
    (by
      intro a ha i hi
      simp only [L2, List.mem_flatMap, List.mem_cons] at ha
      obtain ⟨j, _, ha | ha⟩ := ha
      · subst ha; cases hi
      · unfold deliverAll at ha; rw [List.mem_map] at ha; obtain ⟨k, _, rfl⟩ := ha; cases hi)
  -- segment 3: the Commits
  let L3 := (List.range c.n).flatMap fun i => Action.sendCommit i ⟨h, 0, p⟩ :: deliverAll c i (.item (.commit i ⟨h, 0, p⟩))
  let tsD := L3.foldl (fun ts a => tupd c tpb h ts a (P1 + d1 + d2 + d3)) tsC
  obtain ⟨hD_lb, hD_dl⟩ := fold_commits c tpb h (P1 + d1 + d2 + d3) ⟨h, 0, p⟩ (List.range c.n) tsC
  have r3 := trun_segment c tpb h (P1 + d1 + d2 + d3) L3 tsC
    (Nat.le_trans (fold_now_le c tpb h (P1 + d1 + d2) L2 tsB
      (Nat.le_trans (fold_now_le c tpb h (P1 + d1) L1 tsA (by rw [hA_now]; omega)) (by omega))) (by omega))
    (by intro k hkn; rw [hC_dl, hB_dl]; exact hAge _ (by omega) k hkn)
    (by
      intro a ha i hi
      simp only [L3, List.mem_flatMap, List.mem_cons] at ha
      obtain ⟨j, _, ha | ha⟩ := ha
      · subst ha; cases hi
      · unfold deliverAll at ha; rw [List.mem_map] at ha; obtain ⟨k, _, rfl⟩ := ha; cases hi)
  -- segment 4: the blocks are taken
  let L4 := (List.range c.n).map fun i => Action.accept i ⟨h, 0, p⟩
  let tsE := L4.foldl (fun ts a => tupd c tpb h ts a (P1 + d1 + d2 + d3)) tsD
  obtain ⟨hE_lb, hE_dl⟩ := fold_accepts c tpb h (P1 + d1 + d2 + d3) ⟨h, 0, p⟩ (List.range c.n) tsD
  have hDnow : tsD.now ≤ P1 + d1 + d2 + d3 := fold_now_le c tpb h _ L3 tsC
    (Nat.le_trans (fold_now_le c tpb h (P1 + d1 + d2) L2 tsB
      (Nat.le_trans (fold_now_le c tpb h (P1 + d1) L1 tsA (by rw [hA_now]; omega)) (by omega))) (by omega))
  have r4 := trun_segment c tpb h (P1 + d1 + d2 + d3) L4 tsD hDnow
    (by intro k hkn; rw [hD_dl k]; simp only [List.mem_range, hkn, if_true]; omega)
    (by intro a ha i hi; simp only [L4, List.mem_map] at ha; obtain ⟨k, _, rfl⟩ := ha; cases hi)
  refine ⟨tsE, ?_, hP1a, hP1b, ?_, ?_⟩
  · -- the timed run
    unfold timedRound
    simp only [List.map_cons, List.map_nil]
    refine TRun.append (TRun.append (TRun.append (TRun.append ?_ r1) r2) r3) r4
    refine TRun.cons ⟨by omega, fun k hkn => (hdl k hkn).1, fun i hi => ?_⟩ (TRun.cons ⟨Nat.le_refl _, ?_, fun i hi => by cases hi⟩ (TRun.nil _))
    · cases hi; show P1 = ts.dl _; omega
    · intro k hkn; show P1 ≤ ts.dl k; exact (hdl k hkn).1
  · exact Nat.le_trans (fold_now_le c tpb h _ L4 tsD hDnow) (by omega)
  · intro k hkn
    have hlbk : tsE.lb k = if k = c.primary h 0 then P1 else P1 + d1 := by
      show (L4.foldl _ tsD).lb k = _
      rw [hE_lb]; show (L3.foldl _ tsC).lb k = _
      rw [hD_lb, hC_lb, hB_lb k, hA_lb k]
      by_cases hkp : k = c.primary h 0
      · simp [hkp, mem_others]
      · simp [hkp, mem_others, hkn]
    have hdlk : tsE.dl k = P1 + d1 + d2 + d3 +
        roundTimeout tpb (decide (k = c.primary (h + 1) 0)) 0 0 (some (some (P1 + d1 + d2 + d3 - tsD.lb k))) := by
      show (L4.foldl _ tsD).dl k = _
      rw [hE_dl k]; simp only [List.mem_range, hkn, if_true]
    have hlbD : tsD.lb k = tsE.lb k := by
      show tsD.lb k = (L4.foldl _ tsD).lb k
      rw [hE_lb]
    rw [hdlk, hlbD, hlbk]
    by_cases hkp : k = c.primary h 0
    · simp only [hkp, if_true]
      refine ⟨Nat.le_refl _, by omega, ?_⟩
      by_cases hq : c.primary h 0 = c.primary (h + 1) 0
      · simp only [hq, decide_true, roundTimeout, baseTimeout, if_true, beq_self_eq_true]; omega
      · simp only [hq, decide_false, roundTimeout, baseTimeout, shl_eq, Bool.false_eq_true, if_false]; omega
    · simp only [hkp, if_false]
      refine ⟨by omega, by omega, ?_⟩
      by_cases hq : k = c.primary (h + 1) 0
      · simp only [hq, decide_true, roundTimeout, baseTimeout, if_true, beq_self_eq_true]; omega
      · simp only [hq, decide_false, roundTimeout, baseTimeout, shl_eq, Bool.false_eq_true, if_false]; omega

end NeoModel.Dbft.Timed
