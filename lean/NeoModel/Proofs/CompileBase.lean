/-
CompileBase — infrastructure for the compiler-correctness proofs of C14: label lookup, reachability of the
assembly machine, code placement, the environment/slot relation, single-step lemmas, operator lemmas.
-/
import NeoModel.Model.Compile
namespace NeoModel.CompileProofs
open NeoModel.MiniVm NeoModel.MiniVm.Asm NeoModel.MiniGo NeoModel.Compile

/-- labels marked in a piece of code. -/
def labelsOf : Code → List Nat
  | [] => []
  | .lbl l :: r => l :: labelsOf r
  | .ins _ :: r => labelsOf r

theorem labelsOf_append (a b : Code) : labelsOf (a ++ b) = labelsOf a ++ labelsOf b := by
  induction a with
  | nil => rfl
  | cons x r ih => cases x <;> simp [labelsOf, ih]

/-- `findLabel` finds the unique mark. -/
theorem findLabel_unique (pre post : Code) (l : Nat) (h : l ∉ labelsOf pre) :
    findLabel (pre ++ .lbl l :: post) l = some pre.length := by
  induction pre with
  | nil => simp [findLabel]
  | cons x r ih =>
    cases x with
    | ins op => simp [labelsOf] at h; simp [findLabel, ih h]
    | lbl k =>
      simp [labelsOf] at h
      have hk : (k == l) = false := by simp; omega
      simp [findLabel, hk, ih h.2]

theorem findLabel_nodup (C pre post : Code) (l : Nat) (hC : C = pre ++ .lbl l :: post)
    (hn : (labelsOf C).Nodup) : findLabel C l = some pre.length := by
  subst hC
  apply findLabel_unique
  rw [labelsOf_append] at hn
  simp [labelsOf] at hn
  intro hmem
  have := (List.nodup_append.mp hn).2.2 l hmem l (by simp)
  exact this rfl

/-- the machine runs `n` steps without stopping and reaches `s'`. -/
def Reach (C : Code) (s s' : State) : Prop := ∃ n, run C n s = .running s'

theorem run_add (C : Code) (n m : Nat) (s s' : State) (h : run C n s = .running s') :
    run C (n + m) s = run C m s' := by
  induction n generalizing s with
  | zero => simp [run] at h; subst h; simp
  | succ n ih =>
    have : n + 1 + m = (n + m) + 1 := by omega
    rw [this]
    simp only [run] at h ⊢
    cases hs : step C s with
    | running s1 => rw [hs] at h; simp only at h ⊢; exact ih s1 h
    | halt st => rw [hs] at h; simp at h
    | fault => rw [hs] at h; simp at h

theorem Reach.refl (C : Code) (s : State) : Reach C s s := ⟨0, rfl⟩

theorem Reach.trans {C : Code} {a b c : State} (h1 : Reach C a b) (h2 : Reach C b c) : Reach C a c := by
  obtain ⟨n, hn⟩ := h1
  obtain ⟨m, hm⟩ := h2
  exact ⟨n + m, by rw [run_add C n m a b hn]; exact hm⟩

theorem Reach.step {C : Code} {a b : State} (h : Asm.step C a = .running b) : Reach C a b :=
  ⟨1, by simp [run, h]⟩

/-- `c` sits in `C` at index `pc`. -/
def Placed (C : Code) (pc : Nat) (c : Code) : Prop := ∃ pre post, C = pre ++ c ++ post ∧ pre.length = pc

theorem Placed.left {C : Code} {pc : Nat} {a b : Code} (h : Placed C pc (a ++ b)) : Placed C pc a := by
  obtain ⟨pre, post, hC, hl⟩ := h
  exact ⟨pre, b ++ post, by simp [hC], hl⟩

theorem Placed.right {C : Code} {pc : Nat} {a b : Code} (h : Placed C pc (a ++ b)) : Placed C (pc + a.length) b := by
  obtain ⟨pre, post, hC, hl⟩ := h
  exact ⟨pre ++ a, post, by simp [hC], by simp [hl]⟩

theorem Placed.head {C : Code} {pc : Nat} {it : Item} {r : Code} (h : Placed C pc (it :: r)) : C[pc]? = some it := by
  obtain ⟨pre, post, hC, hl⟩ := h
  subst hC; subst hl
  simp

theorem Placed.tail {C : Code} {pc : Nat} {it : Item} {r : Code} (h : Placed C pc (it :: r)) : Placed C (pc + 1) r := by
  have := Placed.right (a := [it]) (b := r) (by simpa using h)
  simpa using this

theorem Placed.label {C : Code} {pc l : Nat} {r : Code} (h : Placed C pc (.lbl l :: r))
    (hn : (labelsOf C).Nodup) : findLabel C l = some pc := by
  obtain ⟨pre, post, hC, hl⟩ := h
  rw [← hl]
  exact findLabel_nodup C pre (r ++ post) l (by simp [hC]) hn

end NeoModel.CompileProofs

namespace NeoModel.CompileProofs
open NeoModel.MiniVm NeoModel.MiniVm.Asm NeoModel.MiniGo NeoModel.Compile

/-- one block frame against one compile-time scope: same names in the same order, slot holds the value. -/
def FrameRel (locals : List Val) : MiniGo.Frame → List (String × Nat) → Prop
  | [], [] => True
  | (x, v) :: fr, (y, i) :: sf => x = y ∧ locals[i]? = some v ∧ FrameRel locals fr sf
  | _, _ => False

def FramesRel (locals : List Val) : List MiniGo.Frame → Scopes → Prop
  | [], [] => True
  | f :: fs, s :: ss => FrameRel locals f s ∧ FramesRel locals fs ss
  | _, _ => False

/-- the run-time environment is what the slots hold. -/
structure VarsRel (cx : Ctx) (sc : Scopes) (env : Env) (locals args : List Val) : Prop where
  frames : FramesRel locals env.frames sc
  argNames : env.args.map Prod.fst = cx.args
  argVals : env.args.map Prod.snd = args

theorem frame_lookup {locals : List Val} {fr : MiniGo.Frame} {sf : List (String × Nat)} (h : FrameRel locals fr sf) (x : String) :
    (∀ v, fr.lookup x = some v → ∃ i, sf.lookup x = some i ∧ locals[i]? = some v) ∧
    (fr.lookup x = none → sf.lookup x = none) := by
  induction fr generalizing sf with
  | nil => cases sf <;> simp_all [FrameRel, List.lookup]
  | cons p fr ih =>
    obtain ⟨y, v⟩ := p
    cases sf with
    | nil => simp [FrameRel] at h
    | cons q sf =>
      obtain ⟨z, i⟩ := q
      simp only [FrameRel] at h
      obtain ⟨hyz, hv, hr⟩ := h
      subst hyz
      simp only [List.lookup]
      cases hxy : x == y with
      | true => simp [hv]
      | false => simpa using ih hr

theorem frames_lookup {locals : List Val} {fs : List MiniGo.Frame} {sc : Scopes} (h : FramesRel locals fs sc) (x : String) :
    (∀ v, lookupFrames fs x = some v → ∃ i, lookupSlot sc x = some i ∧ locals[i]? = some v) ∧
    (lookupFrames fs x = none → lookupSlot sc x = none) := by
  induction fs generalizing sc with
  | nil => cases sc <;> simp_all [FramesRel, lookupFrames, lookupSlot]
  | cons f fs ih =>
    cases sc with
    | nil => simp [FramesRel] at h
    | cons s ss =>
      simp only [FramesRel] at h
      obtain ⟨hf, hr⟩ := h
      have := frame_lookup hf x
      simp only [lookupFrames, lookupSlot]
      cases hl : f.lookup x with
      | some v =>
        obtain ⟨i, hi, hv⟩ := this.1 v hl
        simp [hi, hv]
      | none =>
        simp [this.2 hl]
        exact ih hr

theorem args_lookup (fr : MiniGo.Frame) (x : String) :
    (∀ v, fr.lookup x = some v → ∃ j, indexOf (fr.map Prod.fst) x = some j ∧ (fr.map Prod.snd)[j]? = some v) := by
  induction fr with
  | nil => simp [List.lookup]
  | cons p fr ih =>
    obtain ⟨y, w⟩ := p
    intro v
    simp only [List.lookup, List.map, indexOf]
    cases hxy : x == y with
    | true =>
      have hxy' : x = y := by simpa using hxy
      subst hxy'
      simp
    | false =>
      have hne : x ≠ y := by simpa using hxy
      have : (y == x) = false := by simp; exact fun h => hne h.symm
      simp only [this]
      intro hv
      obtain ⟨j, hj, hjv⟩ := ih v hv
      exact ⟨j + 1, by simp [hj], by simpa using hjv⟩

/-- reading a variable: the emitted load pushes its value. -/
theorem load_correct {cx : Ctx} {sc : Scopes} {env : Env} {locals args : List Val}
    (h : VarsRel cx sc env locals args) {x : String} {v : Val} (hg : env.get x = some v) :
    ∃ op : Op Nat, loadVar cx sc x = [.ins op] ∧ (op = .ldloc (match lookupSlot sc x with | some i => i | none => 0) ∨ ∃ j, op = .ldarg j) ∧
      ∀ stk, stepData op stk locals args = some (v :: stk, locals, args) := by
  unfold Env.get at hg
  have hf := frames_lookup h.frames x
  cases hl : lookupFrames env.frames x with
  | some w =>
    rw [hl] at hg
    simp at hg; subst hg
    obtain ⟨i, hi, hv⟩ := hf.1 w hl
    refine ⟨.ldloc i, by simp [loadVar, hi], Or.inl (by simp [hi]), ?_⟩
    intro stk
    simp [stepData, hv]
  | none =>
    rw [hl] at hg
    simp at hg
    have hs := hf.2 hl
    obtain ⟨j, hj, hjv⟩ := args_lookup env.args x v hg
    rw [h.argNames] at hj
    rw [h.argVals] at hjv
    refine ⟨.ldarg j, by simp [loadVar, hs, hj], Or.inr ⟨j, rfl⟩, ?_⟩
    intro stk
    simp [stepData, hjv]

end NeoModel.CompileProofs

namespace NeoModel.CompileProofs
open NeoModel.MiniVm NeoModel.MiniVm.Asm NeoModel.MiniGo NeoModel.Compile

def isData {τ : Type} : Op τ → Bool
  | .jmp _ | .jmpIf _ | .jmpIfNot _ | .jmpCmp _ _ | .call _ | .ret | .initSlot _ _ => false
  | _ => true

theorem step_data {C : Code} {s : State} {op : Op Nat} {stk loc ar : List Val}
    (hf : C[s.pc]? = some (.ins op)) (hctl : isData op = true)
    (hd : stepData op s.stack s.locals s.args = some (stk, loc, ar)) :
    Asm.step C s = .running { s with pc := s.pc + 1, stack := stk, locals := loc, args := ar } := by
  cases op <;> simp [isData] at hctl <;> simp [Asm.step, hf, stepOp, hd]

theorem step_lbl {C : Code} {s : State} {l : Nat} (hf : C[s.pc]? = some (.lbl l)) :
    Asm.step C s = .running { s with pc := s.pc + 1 } := by
  simp [Asm.step, hf]

theorem step_jmp {C : Code} {s : State} {l tp : Nat} (hf : C[s.pc]? = some (.ins (.jmp l)))
    (hl : findLabel C l = some tp) : Asm.step C s = .running { s with pc := tp } := by
  simp [Asm.step, hf, stepOp, hl]

theorem step_jmpIf {C : Code} {s : State} {l tp : Nat} {v : Val} {r : List Val} (hf : C[s.pc]? = some (.ins (.jmpIf l)))
    (hl : findLabel C l = some tp) (hs : s.stack = v :: r) :
    Asm.step C s = .running { s with pc := if v.toBool then tp else s.pc + 1, stack := r } := by
  simp [Asm.step, hf, stepOp, hl, hs]

theorem step_jmpIfNot {C : Code} {s : State} {l tp : Nat} {v : Val} {r : List Val} (hf : C[s.pc]? = some (.ins (.jmpIfNot l)))
    (hl : findLabel C l = some tp) (hs : s.stack = v :: r) :
    Asm.step C s = .running { s with pc := if v.toBool then s.pc + 1 else tp, stack := r } := by
  simp [Asm.step, hf, stepOp, hl, hs]

theorem step_jmpCmp {C : Code} {s : State} {l tp : Nat} {c : Cmp} {x y : Int} {r : List Val}
    (hf : C[s.pc]? = some (.ins (.jmpCmp c l)))
    (hl : findLabel C l = some tp) (hs : s.stack = .int y :: .int x :: r) :
    Asm.step C s = .running { s with pc := if c.eval x y then tp else s.pc + 1, stack := r } := by
  simp [Asm.step, hf, stepOp, hl, hs, Val.toInt?]

end NeoModel.CompileProofs

namespace NeoModel.CompileProofs
open NeoModel.MiniVm NeoModel.MiniVm.Asm NeoModel.MiniGo NeoModel.Compile

def NoCall : Expr → Prop
  | .paren e | .neg e | .not e => NoCall e
  | .bin _ a b => NoCall a ∧ NoCall b
  | .call0 _ | .call1 _ _ | .call2 _ _ _ | .call3 _ _ _ _ => False
  | _ => True

/-- what the code emitted for an expression in mode `m` achieves when the expression has value `v`. -/
def Post (C : Code) (m : Mode) (len : Nat) (s : State) (v : Val) : Prop :=
  match m with
  | .val => Reach C s { s with pc := s.pc + len, stack := v :: s.stack }
  | .jump cond t => ∀ tp, findLabel C t = some tp →
      Reach C s { s with pc := if v.toBool == cond then tp else s.pc + len }

theorem withMode_placed {C : Code} {pc : Nat} {m : Mode} {c : Code} (hp : Placed C pc (withMode m c)) : Placed C pc c := by
  cases m with
  | val => simpa [withMode] using hp
  | jump cond t => simp only [withMode] at hp; exact hp.left

theorem withMode_post {C : Code} {m : Mode} {c : Code} {s : State} {v : Val}
    (hp : Placed C s.pc (withMode m c))
    (hr : Reach C s { s with pc := s.pc + c.length, stack := v :: s.stack }) :
    Post C m (withMode m c).length s v := by
  cases m with
  | val => simpa [withMode, Post] using hr
  | jump cond t =>
    simp only [withMode, Post]
    intro tp hl
    refine hr.trans ?_
    have hj : C[s.pc + c.length]? = some (jumpOn cond t) := (Placed.right hp).head
    cases cond with
    | true =>
      simp only [jumpOn] at hj
      have := step_jmpIf (C := C) (s := { s with pc := s.pc + c.length, stack := v :: s.stack }) (v := v) (r := s.stack) hj hl rfl
      refine (Reach.step this).trans ?_
      simp [Nat.add_assoc]
      exact Reach.refl _ _
    | false =>
      simp only [jumpOn] at hj
      have := step_jmpIfNot (C := C) (s := { s with pc := s.pc + c.length, stack := v :: s.stack }) (v := v) (r := s.stack) hj hl rfl
      refine (Reach.step this).trans ?_
      simp [Nat.add_assoc]
      cases v.toBool <;> simp <;> exact Reach.refl _ _

end NeoModel.CompileProofs

namespace NeoModel.CompileProofs
open NeoModel.MiniVm NeoModel.MiniVm.Asm NeoModel.MiniGo NeoModel.Compile

theorem inInt64_fits {n : Int} (h : inInt64 n = true) : fits256 n = true := by
  simp [inInt64, fits256] at *
  omega

theorem chk_ok {n : Int} {v : Val} (h : chk n = .ok v) : v = .int n ∧ fits256 n = true := by
  unfold chk at h
  split at h
  · rename_i hi
    cases h
    exact ⟨rfl, inInt64_fits hi⟩
  · cases h

/-- the statement proved by induction on the fuel. -/
def ExprOK (P : Prog) (cx : Ctx) (sc : Scopes) (env : Env) (fuel : Nat) : Prop :=
  ∀ (e : Expr) (m : Mode) (nl : Nat) (C : Code) (s : State) (v : Val),
    NoCall e → evalE fuel P env e = .ok v →
    Placed C s.pc (compE cx sc e m nl).1 → (labelsOf C).Nodup →
    VarsRel cx sc env s.locals s.args →
    Post C m (compE cx sc e m nl).1.length s v

theorem push_post {C : Code} {m : Mode} {s : State} {v : Val} {op : Op Nat}
    (hp : Placed C s.pc (withMode m [.ins op])) (hd : isData op = true)
    (hs : stepData op s.stack s.locals s.args = some (v :: s.stack, s.locals, s.args)) :
    Post C m (withMode m [.ins op]).length s v := by
  apply withMode_post hp
  have hf : C[s.pc]? = some (.ins op) := (withMode_placed hp).head
  have := step_data hf hd hs
  refine (Reach.step this).trans ?_
  simp
  exact Reach.refl _ _

theorem exprOK_zero (P : Prog) (cx : Ctx) (sc : Scopes) (env : Env) : ExprOK P cx sc env 0 := by
  intro e m nl C s v _ hev
  simp [evalE] at hev

end NeoModel.CompileProofs

namespace NeoModel.CompileProofs
open NeoModel.MiniVm NeoModel.MiniVm.Asm NeoModel.MiniGo NeoModel.Compile

def Strict (op : BinOp) : Prop := op ≠ .land ∧ op ≠ .lor

theorem evalE_bin_strict {fuel : Nat} {P : Prog} {env : Env} {op : BinOp} {a b : Expr} {v : Val}
    (hop : Strict op) (h : evalE (fuel + 1) P env (.bin op a b) = .ok v) :
    ∃ x y, evalE fuel P env a = .ok x ∧ evalE fuel P env b = .ok y ∧ evalBin op x y = .ok v := by
  obtain ⟨h1, h2⟩ := hop
  cases op <;> first | exact absurd rfl h1 | exact absurd rfl h2 | skip
  all_goals
    simp only [evalE] at h
    cases hx : evalE fuel P env a <;> rw [hx] at h <;> simp only at h <;> try (cases h; done)
    cases hy : evalE fuel P env b <;> rw [hy] at h <;> simp only at h <;> try (cases h; done)
    exact ⟨_, _, rfl, rfl, h⟩

theorem evalBin_token {op : BinOp} {x y v : Val} (hop : Strict op) (h : evalBin op x y = .ok v)
    (stk loc ar : List Val) :
    stepData (tokenOp op) (y :: x :: stk) loc ar = some (v :: stk, loc, ar) := by
  obtain ⟨h1, h2⟩ := hop
  cases op with
  | land => exact absurd rfl h1
  | lor => exact absurd rfl h2
  | add | sub | mul =>
    cases x <;> cases y <;> simp only [evalBin] at h <;> try (cases h; done)
    obtain ⟨rfl, hf⟩ := chk_ok h
    simp [tokenOp, stepData, binInt, Val.toInt?, mkInt, hf]
  | div | mod =>
    cases x <;> cases y <;> simp only [evalBin] at h <;> try (cases h; done)
    rename_i n1 n2
    split at h
    · cases h
    · rename_i hz
      obtain ⟨rfl, hf⟩ := chk_ok h
      have hz' : ¬ (n2 = (0 : Int)) := by simpa using hz
      simp [tokenOp, stepData, binInt, Val.toInt?, mkInt, hf, hz']
  | lt | le | gt | ge | eq | ne =>
    cases x <;> cases y <;> simp only [evalBin] at h <;> try (cases h; done)
    cases h
    simp [tokenOp, stepData, binInt, cmpOp, Val.toInt?]
  | eqb | neb =>
    cases x <;> cases y <;> simp only [evalBin] at h <;> try (cases h; done)
    cases h
    rename_i b1 b2
    cases b1 <;> cases b2 <;> simp [tokenOp, stepData, Val.equals]

theorem evalBin_jump {op : BinOp} {c : Cmp} {x y v : Val} (hj : jumpFor op = some c) (h : evalBin op x y = .ok v) :
    ∃ i j, x = .int i ∧ y = .int j ∧ v = .bool (c.eval i j) := by
  cases op <;> simp [jumpFor] at hj <;> subst hj <;>
    (cases x <;> cases y <;> simp only [evalBin] at h <;> try (cases h; done)) <;>
    (cases h; exact ⟨_, _, rfl, rfl, by simp [Cmp.eval]⟩)

theorem negCmp_eval (c : Cmp) (i j : Int) : (negCmp c).eval i j = !c.eval i j := by
  cases c <;> simp only [negCmp, Cmp.eval]
  · simp [bne]
  · simp [bne]
  · by_cases h : i > j <;> simp [h] <;> omega
  · by_cases h : i ≥ j <;> simp [h] <;> omega
  · by_cases h : i < j <;> simp [h] <;> omega
  · by_cases h : i ≤ j <;> simp [h] <;> omega

end NeoModel.CompileProofs

namespace NeoModel.CompileProofs
open NeoModel.MiniVm NeoModel.MiniVm.Asm NeoModel.MiniGo NeoModel.Compile

/-- `&&` (cs = false) and `||` (cs = true): either the left operand decides, or the right one is the value. -/
theorem evalE_logic {fuel : Nat} {P : Prog} {env : Env} {op : BinOp} {a b : Expr} {v : Val}
    (hop : op = .land ∨ op = .lor) (h : evalE (fuel + 1) P env (.bin op a b) = .ok v) :
    let cs := op == .lor
    (evalE fuel P env a = .ok (.bool cs) ∧ v = .bool cs) ∨
    (evalE fuel P env a = .ok (.bool (!cs)) ∧ ∃ y, evalE fuel P env b = .ok (.bool y) ∧ v = .bool y) := by
  rcases hop with rfl | rfl
  all_goals
    simp only [evalE] at h
    cases hx : evalE fuel P env a with
    | ok x =>
      rw [hx] at h
      cases x with
      | bool bx =>
        cases bx
        all_goals simp only at h
        all_goals first
          | (cases h; left; exact ⟨rfl, rfl⟩)
          | (right
             refine ⟨rfl, ?_⟩
             cases hy : evalE fuel P env b with
             | ok y =>
               rw [hy] at h
               cases y with
               | bool yb => simp only at h; cases h; exact ⟨_, rfl, rfl⟩
               | int n => simp at h
               | null => simp at h
             | panic => rw [hy] at h; simp at h
             | overflow => rw [hy] at h; simp at h
             | stuck => rw [hy] at h; simp at h
             | timeout => rw [hy] at h; simp at h)
      | int n => simp at h
      | null => simp at h
    | panic => rw [hx] at h; simp at h
    | overflow => rw [hx] at h; simp at h
    | stuck => rw [hx] at h; simp at h
    | timeout => rw [hx] at h; simp at h

end NeoModel.CompileProofs

namespace NeoModel.CompileProofs
open NeoModel.MiniVm NeoModel.MiniVm.Asm NeoModel.MiniGo NeoModel.Compile

theorem compE_logic_jump (cx : Ctx) (sc : Scopes) (op : BinOp) (a b : Expr) (cond : Bool) (t nl : Nat)
    (hop : op = .land ∨ op = .lor) :
    compE cx sc (.bin op a b) (.jump cond t) nl =
      ((compE cx sc a (.jump (op == .lor) (if cond == (op == .lor) then t else nl)) (nl + 1)).1 ++
        (compE cx sc b (.jump cond t) (compE cx sc a (.jump (op == .lor) (if cond == (op == .lor) then t else nl)) (nl + 1)).2).1 ++
        [.lbl nl],
       (compE cx sc b (.jump cond t) (compE cx sc a (.jump (op == .lor) (if cond == (op == .lor) then t else nl)) (nl + 1)).2).2) := by
  rcases hop with rfl | rfl <;> rfl

theorem compE_logic_val (cx : Ctx) (sc : Scopes) (op : BinOp) (a b : Expr) (nl : Nat)
    (hop : op = .land ∨ op = .lor) :
    compE cx sc (.bin op a b) .val nl =
      ((compE cx sc a (.jump (op == .lor) (nl + 1)) (nl + 2)).1 ++
        (compE cx sc b .val (compE cx sc a (.jump (op == .lor) (nl + 1)) (nl + 2)).2).1 ++
        [.ins (.jmp nl), .lbl (nl + 1), .ins (if (op == .lor) then .pushT else .pushF), .lbl nl],
       (compE cx sc b .val (compE cx sc a (.jump (op == .lor) (nl + 1)) (nl + 2)).2).2) := by
  rcases hop with rfl | rfl <;> rfl

end NeoModel.CompileProofs

