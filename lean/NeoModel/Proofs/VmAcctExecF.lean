/-
C12 proofs, part 5h: PACKMAP (vm.go:1320-1336): keys and values leave the stack uncounted-for
(`popNoRef`); a repeated key and the value it had are discounted by hand.
-/
import NeoModel.Proofs.VmAcctExecE
namespace NeoModel.VmAcct

variable {rest : Nat → Nat} {n : Nat}

/-- the keys among the next `k` key/value pairs on the stack -/
def pairKeys : Nat → List Item → List Item
  | 0, _ => []
  | k + 1, key :: _ :: r => key :: pairKeys k r
  | _ + 1, _ => []

theorem packMapLoop_inv : ∀ (ds : List Int) (ents : List Item) (w : W) (ents' : List Item) (w' : W),
    InvC w.c (fun j => (cnt j w.st + rest j) + cnt j ents) ((w.st.length + n) + ents.length) →
    (∀ x ∈ pairKeys ds.length w.st, x.cid = none) →
    packMapLoop ds ents w = some (ents', w') →
    InvC w'.c (fun j => (cnt j w'.st + rest j) + cnt j ents') ((w'.st.length + n) + ents'.length) ∧
      w'.c.heap.length = w.c.heap.length := by
  intro ds
  induction ds with
  | nil =>
    intro ents w ents' w' inv _ h
    simp only [packMapLoop, Option.some.injEq, Prod.mk.injEq] at h
    obtain ⟨rfl, rfl⟩ := h
    exact ⟨inv, rfl⟩
  | cons d ds ih =>
    intro ents w ents' w' inv hk h
    simp only [packMapLoop] at h
    cases hst : w.st with
    | nil => simp [hst] at h
    | cons key t =>
      cases t with
      | nil => simp [hst] at h
      | cons val r =>
        simp only [hst] at h
        have hkey : key.cid = none := hk key (by simp [pairKeys, hst])
        rw [if_neg (by simp [hkey])] at h
        have hk' : ∀ x ∈ pairKeys ds.length r, x.cid = none := by
          intro x hx; apply hk x; simp [pairKeys, hst, hx]
        by_cases hd : d < 0
        · simp only [hd, if_true] at h
          refine ih (ents ++ [key, val]) { w with st := r } ents' w' ?_ hk' h
          refine inv.congr ?_ ?_
          · intro j; simp only [hst, cnt_cons, cnt_append, cnt_nil]; omega
          · simp only [hst, List.length_cons, List.length_append, List.length_nil]; omega
        · simp only [hd, if_false] at h
          cases hg : ents[2 * d.toNat + 1]? with
          | none => simp [hg] at h
          | some old =>
            simp only [hg] at h
            have hcs := fun j => cnt_set j ents (2 * d.toNat + 1) old val hg
            -- the key is dropped (a primitive: `refs--`), the old value is removed, the new one takes its place
            have i1 : InvC ({ w.c with refs := w.c.refs + -1 } : Ctr)
                (fun j => ((cnt j r + rest j) + cnt j (listSet ents (2 * d.toNat + 1) val)) + cnt j [old])
                (((r.length + n) + (listSet ents (2 * d.toNat + 1) val).length) + 1) := by
              refine ⟨inv.wf, fun j => ?_, ?_⟩
              · have := inv.rc j; have := (hcs j).1
                simp only [hst, cnt_cons, cnt_nil, hkey, listSet] at *
                simp at *; omega
              · have := inv.refs; have := (hcs 0).2
                simp only [hst, List.length_cons, listSet] at *
                push_cast at *; omega
            obtain ⟨i2, ss⟩ := inv_rem old i1
            obtain ⟨i3, l3⟩ := ih (listSet ents (2 * d.toNat + 1) val)
              { ({ w with st := r } : W).addRefs (-1) with c := (({ w with st := r } : W).addRefs (-1)).c.rem old } ents' w' i2 hk' h
            exact ⟨i3, by rw [l3]; exact ss.1⟩

theorem pairKeys_len_le (k : Nat) : ∀ (st : List Item), (pairKeys k st).length ≤ k := by
  induction k with
  | zero => intro st; simp [pairKeys]
  | succ k ih =>
    intro st
    match st with
    | [] => simp [pairKeys]
    | [_] => simp [pairKeys]
    | key :: _ :: r => simp only [pairKeys, List.length_cons]; have := ih r; omega

theorem packmap_inv {w w' : W} (k : Nat) (dups : List Int) (inv : InvW w rest n)
    (hkeys : ∀ x ∈ pairKeys k (w.st.drop 1), x.cid = none)
    (h : execS (.packmap k dups) w = some (.ok w')) : InvW w' rest n := by
  simp only [execS] at h
  cases hp : w.pop with
  | none => simp [hp] at h
  | some r =>
    obtain ⟨y, w1⟩ := r
    simp only [hp] at h
    obtain ⟨i1, _, _, hst⟩ := pop_inv inv hp
    split at h
    · cases h
    · rename_i hlen
      have hlen' : dups.length = k := by
        apply Classical.byContradiction; intro hne; exact hlen hne
      cases hl : packMapLoop dups [] w1 with
      | none => simp [hl] at h
      | some p =>
        obtain ⟨ents, w2⟩ := p
        simp only [hl, W.alloc, W.setHeap, W.pushNoRef, W.addRefs, okW, Option.some.injEq, Outcome.ok.injEq] at h
        rw [← h]
        have hk1 : ∀ x ∈ pairKeys dups.length w1.st, x.cid = none := by
          rw [hlen']; intro x hx; apply hkeys x; rw [hst]; simpa using hx
        obtain ⟨i2, _⟩ := packMapLoop_inv (rest := rest) (n := n) dups [] w1 ents w2 (i1.congr (by intro j; simp) (by simp)) hk1 hl
        have i3 := inv_alloc1 ents i2
        refine ⟨i3.wf, fun j => ?_, ?_⟩
        · have := i3.rc j
          have hm := cnt_mk Kind.map w2.c.heap.length j
          simp only [cnt_cons, cnt_nil, Kind.mk] at hm ⊢
          dsimp only at this ⊢
          rw [this]; omega
        · have := i3.refs
          simp only [List.length_cons] at this ⊢
          push_cast at this ⊢; omega

end NeoModel.VmAcct
