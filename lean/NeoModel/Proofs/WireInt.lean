/-
C17 — the number a stack-item integer denotes: canonicalisation (`bigint.ToBytes ∘ bigint.FromBytes`, the byte-level
`canonInt`) keeps the number, and the little-endian two's complement bytes of a number that fits denote it.
-/
import NeoModel.Proofs.WireItem
import NeoModel.Proofs.WireVarUint
namespace NeoModel.Wire
open NeoModel.Generated
namespace Item

/-- unsigned value of a byte string given most significant byte first. -/
def beU : Bytes → Nat
  | [] => 0
  | a :: t => a.toNat * 256 ^ t.length + beU t

/-- signed (two's complement) value of a byte string given most significant byte first. -/
def beS : Bytes → Int
  | [] => 0
  | a :: t => if a.toNat ≥ 0x80 then (beU (a :: t) : Int) - (256 ^ (t.length + 1) : Nat) else (beU (a :: t) : Int)

theorem leVal_append_single (xs : Bytes) (a : UInt8) : leVal (xs ++ [a]) = leVal xs + a.toNat * 256 ^ xs.length := by
  induction xs with
  | nil => simp [leVal]
  | cons b bs ih =>
    simp only [List.cons_append, leVal, ih, List.length_cons, Nat.pow_succ]
    rw [Nat.mul_add]
    have : 256 * (a.toNat * 256 ^ bs.length) = a.toNat * (256 ^ bs.length * 256) := by
      rw [Nat.mul_comm (256 ^ bs.length) 256, ← Nat.mul_assoc, ← Nat.mul_assoc, Nat.mul_comm 256 a.toNat]
    omega

theorem leVal_reverse (l : Bytes) : leVal l.reverse = beU l := by
  induction l with
  | nil => rfl
  | cons a t ih =>
    simp only [List.reverse_cons, leVal_append_single, ih, List.length_reverse, beU]
    omega

theorem beU_lt (l : Bytes) : beU l < 256 ^ l.length := by
  induction l with
  | nil => simp [beU]
  | cons a t ih =>
    simp only [beU, List.length_cons, Nat.pow_succ]
    have := a.toNat_lt
    have h1 : a.toNat * 256 ^ t.length ≤ 255 * 256 ^ t.length := Nat.mul_le_mul_right _ (by omega)
    omega

theorem intFromLE_eq_beS (d : Bytes) : intFromLE d = beS d.reverse := by
  unfold intFromLE
  cases h : d.reverse with
  | nil =>
    have : d = [] := by simpa using h
    subst this; simp [beS]
  | cons a t =>
    have hl : d.getLast? = some a := by
      rw [List.getLast?_eq_head?_reverse, h]; rfl
    have hv : leVal d = beU (a :: t) := by
      rw [← leVal_reverse, ← h, List.reverse_reverse]
    have hlen : d.length = t.length + 1 := by
      have := congrArg List.length h; simpa using this
    simp only [hl, beS, hv, hlen]

theorem beS_stripNeg (l : Bytes) : ∀ a : UInt8, a.toNat ≥ 0x80 → beS (stripNeg (a :: l)) = beS (a :: l) := by
  induction l with
  | nil => intro a _; simp [stripNeg]
  | cons x t ih =>
    intro a ha
    rw [stripNeg_cons2]
    split
    · rename_i hc
      obtain ⟨h1, h2⟩ := hc
      rw [ih x h2]
      subst h1
      have e1 : beS (x :: t) = (beU (x :: t) : Int) - (256 ^ (t.length + 1) : Nat) := by
        show (if x.toNat ≥ 0x80 then _ else _) = _
        rw [if_pos h2]
      have e2 : beS ((0xff : UInt8) :: x :: t) = (beU ((0xff : UInt8) :: x :: t) : Int) - (256 ^ (t.length + 1 + 1) : Nat) := by
        simp only [beS, List.length_cons]
        rw [if_pos (by decide)]
      have e3 : beU ((0xff : UInt8) :: x :: t) = 255 * 256 ^ (t.length + 1) + beU (x :: t) := rfl
      have e4 : 256 ^ (t.length + 1 + 1) = 256 ^ (t.length + 1) * 256 := Nat.pow_succ ..
      rw [e1, e2, e3, e4]
      generalize 256 ^ (t.length + 1) = P
      generalize beU (x :: t) = U
      omega
    · rfl

theorem beS_stripPos (l : Bytes) : ∀ a : UInt8, a.toNat < 0x80 → beS (stripPos (a :: l)) = beS (a :: l) := by
  induction l with
  | nil =>
    intro a ha
    simp only [stripPos]
    split
    · rename_i h0; subst h0; simp [beS, beU]
    · rfl
  | cons x t ih =>
    intro a ha
    rw [stripPos_cons2]
    split
    · rename_i hc
      obtain ⟨h1, h2⟩ := hc
      rw [ih x h2]
      subst h1
      have h0 : (0 : UInt8).toNat = 0 := rfl
      have hx : ¬ x.toNat ≥ 0x80 := by omega
      simp [beS, beU, h0, hx]
    · rfl

theorem beS_stripSign (l : Bytes) : beS (stripSign l) = beS l := by
  cases l with
  | nil => rfl
  | cons a t =>
    rw [stripSign_cons]
    split
    · rename_i h; exact beS_stripNeg t a h
    · rename_i h; exact beS_stripPos t a (by omega)

/-- canonicalisation keeps the number: `bigint.ToBytes (bigint.FromBytes d)` denotes what `d` denotes. -/
theorem intFromLE_canonInt (d : Bytes) : intFromLE (canonInt d) = intFromLE d := by
  rw [intFromLE_eq_beS, intFromLE_eq_beS]
  simp only [canonInt, List.reverse_reverse]
  exact beS_stripSign _

end Item

theorem leBytes_getLast (n w : Nat) : (leBytes (n + 1) w).getLast? = some (UInt8.ofNat (w / 256 ^ n % 256)) := by
  induction n generalizing w with
  | zero => simp [leBytes]
  | succ n ih =>
    have e : leBytes (n + 1 + 1) w = UInt8.ofNat (w % 256) :: leBytes (n + 1) (w / 256) := rfl
    rw [e]
    have hne : leBytes (n + 1) (w / 256) ≠ [] := by
      intro h; have := congrArg List.length h; simp [leBytes_length] at this
    rw [List.getLast?_cons_of_ne_nil hne, ih, Nat.div_div_eq_div_mul, Nat.pow_succ, Nat.mul_comm]

/-- the two's complement value of the `n+1` little-endian bytes of `v mod 256^(n+1)` is `v` when `v` fits. -/
theorem intFromLE_leBytes (n : Nat) (v : Int) (hlo : -((256 ^ n * 128 : Nat) : Int) ≤ v) (hhi : v < ((256 ^ n * 128 : Nat) : Int)) :
    Item.intFromLE (leBytes (n + 1) (v % ((256 ^ (n + 1) : Nat) : Int)).toNat) = v := by
  have hM : 256 ^ (n + 1) = 256 ^ n * 256 := Nat.pow_succ ..
  generalize hw : (v % ((256 ^ (n + 1) : Nat) : Int)).toNat = w
  have hpos : 0 < 256 ^ n := Nat.pow_pos (by decide)
  have hwlt : w < 256 ^ (n + 1) := by
    have h1 : v % ((256 ^ (n + 1) : Nat) : Int) < ((256 ^ (n + 1) : Nat) : Int) :=
      Int.emod_lt_of_pos _ (by rw [hM]; omega)
    have h0 : 0 ≤ v % ((256 ^ (n + 1) : Nat) : Int) := Int.emod_nonneg _ (by rw [hM]; omega)
    omega
  have hwv : (w : Int) = if v < 0 then v + ((256 ^ (n + 1) : Nat) : Int) else v := by
    have h0 : 0 ≤ v % ((256 ^ (n + 1) : Nat) : Int) := Int.emod_nonneg _ (by rw [hM]; omega)
    have hwe : (w : Int) = v % ((256 ^ (n + 1) : Nat) : Int) := by omega
    rw [hwe]
    split
    · rename_i hneg
      rw [← Int.add_emod_right]
      exact Int.emod_eq_of_lt (by rw [hM]; omega) (by rw [hM]; omega)
    · exact Int.emod_eq_of_lt (by omega) (by rw [hM]; omega)
  unfold Item.intFromLE
  rw [leBytes_getLast, leVal_leBytes _ _ hwlt, leBytes_length]
  have hq : w / 256 ^ n < 256 := by
    rw [Nat.div_lt_iff_lt_mul hpos, Nat.mul_comm]; rw [hM] at hwlt; exact hwlt
  have htop : (UInt8.ofNat (w / 256 ^ n % 256)).toNat = w / 256 ^ n := by
    simp [UInt8.toNat_ofNat']; omega
  simp only [htop]
  have hdiv : w / 256 ^ n ≥ 128 ↔ w ≥ 128 * 256 ^ n := by
    rw [ge_iff_le, Nat.le_div_iff_mul_le hpos]
  split
  · rename_i hge
    have := hdiv.mp hge
    split at hwv <;> omega
  · rename_i hlt
    have : ¬ w ≥ 128 * 256 ^ n := fun h => hlt (hdiv.mpr h)
    split at hwv <;> omega

end NeoModel.Wire
