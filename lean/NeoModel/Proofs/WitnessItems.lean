/-
C15 — the stack-item decoder of conditions and rules: what it accepts is within the limits, and it inverts ToStackItem.
Core Lean only (helpers of Props/C15Decode.lean).
-/
import NeoModel.Model.Witness.Items
import NeoModel.Proofs.WitnessDecode
namespace NeoModel.Witness

theorem itemsMapM_spec (dec : Item → Option Cond) : ∀ (items : List Item) (cs : List Cond),
    itemsMapM dec items = some cs → cs.length = items.length ∧ ∀ c ∈ cs, ∃ x ∈ items, dec x = some c
  | [], cs, h => by simp [itemsMapM] at h; subst h; simp
  | x :: xs, cs, h => by
    simp only [itemsMapM] at h
    split at h
    · cases h
    · rename_i c hc
      split at h
      · cases h
      · rename_i cs' hcs
        cases h
        have ih := itemsMapM_spec dec xs cs' hcs
        refine ⟨by simp [ih.1], ?_⟩
        intro c' hc'
        rcases List.mem_cons.mp hc' with rfl | hm
        · exact ⟨x, by simp, hc⟩
        · obtain ⟨y, hy, hd⟩ := ih.2 c' hm
          exact ⟨y, by simp [hy], hd⟩

theorem condList_bounded (dec : Item → Option Cond) (d : Nat)
    (hdec : ∀ x c, dec x = some c → c.depth ≤ d ∧ c.widthOk = true) (a : Item) (cs : List Cond)
    (h : condList dec a = some cs) :
    depthList cs ≤ d ∧ widthOkList cs = true ∧ cs.length ≠ 0 ∧ cs.length ≤ maxSubitems := by
  unfold condList at h
  split at h
  · cases h
  · rename_i items _
    split at h
    · cases h
    · rename_i hl0
      split at h
      · cases h
      · rename_i hl
        have hs := itemsMapM_spec dec items cs h
        have hall : ∀ c ∈ cs, c.depth ≤ d ∧ c.widthOk = true := by
          intro c hc
          obtain ⟨x, _, hx⟩ := hs.2 c hc
          exact hdec x c hx
        refine ⟨depthList_le (fun c hc => (hall c hc).1), widthOkList_of (fun c hc => (hall c hc).2), ?_, ?_⟩
        · rw [hs.1]; exact hl0
        · rw [hs.1]; omega

theorem condPayload_bounded (dk : Bytes → Option Key) (dec : Item → Option Cond) (d : Nat)
    (hdec : ∀ x c, dec x = some c → c.depth ≤ d ∧ c.widthOk = true) (t : Nat) (a : Item) (c : Cond)
    (h : condPayload dk dec t a = some c) : c.depth ≤ d + 1 ∧ c.widthOk = true := by
  unfold condPayload at h
  split at h
  · simp only [Option.map_eq_some_iff] at h; obtain ⟨b, _, rfl⟩ := h; simp [Cond.depth, Cond.widthOk]
  split at h
  · simp only [Option.map_eq_some_iff] at h
    obtain ⟨c', hc', rfl⟩ := h
    have := hdec a c' hc'
    simp only [Cond.depth, Cond.widthOk]; exact ⟨by omega, this.2⟩
  split at h
  · simp only [Option.map_eq_some_iff] at h
    obtain ⟨cs, hcs, rfl⟩ := h
    have := condList_bounded dec d hdec a cs hcs
    simp [Cond.depth, Cond.widthOk, this.1, this.2.1, this.2.2.1, this.2.2.2]
  split at h
  · simp only [Option.map_eq_some_iff] at h
    obtain ⟨cs, hcs, rfl⟩ := h
    have := condList_bounded dec d hdec a cs hcs
    simp [Cond.depth, Cond.widthOk, this.1, this.2.1, this.2.2.1, this.2.2.2]
  split at h
  · simp only [Option.map_eq_some_iff] at h; obtain ⟨b, _, rfl⟩ := h; simp [Cond.depth, Cond.widthOk]
  split at h
  · simp only [Option.map_eq_some_iff] at h; obtain ⟨b, _, rfl⟩ := h; simp [Cond.depth, Cond.widthOk]
  split at h
  · simp only [Option.map_eq_some_iff] at h; obtain ⟨b, _, rfl⟩ := h; simp [Cond.depth, Cond.widthOk]
  split at h
  · simp only [Option.map_eq_some_iff] at h; obtain ⟨b, _, rfl⟩ := h; simp [Cond.depth, Cond.widthOk]
  · cases h

/-- Whatever `condFromStackItem` accepts is within the nesting bound it was given and every And/Or has
1..16 operands — for any item whatsoever (any types, lengths, nesting). -/
theorem condFromItem_bounded (dk : Bytes → Option Key) : ∀ (d : Nat) (it : Item) (c : Cond),
    condFromItem dk d it = some c → c.depth ≤ d ∧ c.widthOk = true
  | 0, it, c, h => by simp [condFromItem] at h
  | d+1, it, c, h => by
    simp only [condFromItem] at h
    split at h
    · cases h
    · cases h
    · split at h
      · cases h
      · split at h
        · cases h; simp [Cond.depth, Cond.widthOk]
        · cases h
    · split at h
      · cases h
      · split at h
        · cases h
        · exact condPayload_bounded dk _ d (condFromItem_bounded dk d) _ _ c h
    · cases h


theorem toUint8_int (t : Nat) (h : t ≤ 255) : (Item.int (t : Int)).toUint8 = some t := by
  simp [Item.toUint8, Item.tryInteger]; omega

theorem toUint160_beBytes (h : Hash) (hh : h < 2 ^ 160) : (Item.bytes (beBytes 20 h)).toUint160 = some h := by
  simp only [Item.toUint160, Item.tryBytes, beBytes_length, beVal_beBytes, if_true]
  rw [Nat.mod_eq_of_lt (by simpa using hh)]

theorem condsToItems_length (ek : Key → Bytes) : ∀ cs : List Cond, (condsToItems ek cs).length = cs.length
  | [] => rfl
  | c :: cs => by simp [condsToItems, condsToItems_length ek cs]

theorem itemsMapM_condsToItems (dec : Item → Option Cond) (ek : Key → Bytes) : ∀ cs : List Cond,
    (∀ c ∈ cs, dec (condToItem ek c) = some c) → itemsMapM dec (condsToItems ek cs) = some cs
  | [], _ => rfl
  | c :: cs, h => by
    simp only [condsToItems, itemsMapM, h c (by simp),
      itemsMapM_condsToItems dec ek cs (fun x hx => h x (by simp [hx]))]

theorem condList_condsToItems (dec : Item → Option Cond) (ek : Key → Bytes) (cs : List Cond)
    (hl0 : cs.length ≠ 0) (hl : cs.length ≤ maxSubitems) (h : ∀ c ∈ cs, dec (condToItem ek c) = some c) :
    condList dec (.array (condsToItems ek cs)) = some cs := by
  unfold condList
  simp only [Item.elems?, condsToItems_length]
  rw [if_neg hl0, if_neg (by omega)]
  exact itemsMapM_condsToItems dec ek cs h

/-- Every tree within the permitted nesting and width (20-byte hashes, a key codec that round-trips) is
decoded back from its stack-item form: `condFromStackItem ∘ ToStackItem = id`. -/
theorem condFromItem_toItem (dk : Bytes → Option Key) (ek : Key → Bytes) (hk : ∀ k, dk (ek k) = some k) :
    ∀ (c : Cond) (d : Nat), c.depth ≤ d → c.widthOk = true → c.hashesOk →
      condFromItem dk d (condToItem ek c) = some c
  | c, 0, hd, _, _ => by have := depth_pos c; omega
  | .boolean b, d+1, _, _, _ => by
      simp only [condToItem, condFromItem, Item.elems?, toUint8_int tBoolean.toNat (by decide)]
      simp [tBoolean, tCalledByEntry, condPayload, Item.tryBool]
  | .not c, d+1, hd, hw, hh => by
      simp only [Cond.depth] at hd
      simp only [Cond.widthOk] at hw
      simp only [Cond.hashesOk] at hh
      have ih := condFromItem_toItem dk ek hk c d (by omega) hw hh
      simp only [condToItem, condFromItem, Item.elems?, toUint8_int tNot.toNat (by decide)]
      simp [tNot, tBoolean, tCalledByEntry, condPayload, ih]
  | .and cs, d+1, hd, hw, hh => by
      simp only [Cond.depth] at hd
      simp only [Cond.widthOk, Bool.and_eq_true] at hw
      simp only [Cond.hashesOk] at hh
      have hdl := (depthList_le_iff cs d).mp (by omega)
      have hwl := (widthOkList_iff cs).mp hw.2
      have hhl := (hashesOkList_iff cs).mp hh
      have ih : ∀ c ∈ cs, condFromItem dk d (condToItem ek c) = some c :=
        fun c hc => condFromItem_toItem dk ek hk c d (hdl c hc) (hwl c hc) (hhl c hc)
      have := condList_condsToItems (condFromItem dk d) ek cs (by simpa using hw.1.1) (by simpa using hw.1.2) ih
      simp only [condToItem, condFromItem, Item.elems?, toUint8_int tAnd.toNat (by decide)]
      simp [tAnd, tNot, tBoolean, tCalledByEntry, condPayload, this]
  | .or cs, d+1, hd, hw, hh => by
      simp only [Cond.depth] at hd
      simp only [Cond.widthOk, Bool.and_eq_true] at hw
      simp only [Cond.hashesOk] at hh
      have hdl := (depthList_le_iff cs d).mp (by omega)
      have hwl := (widthOkList_iff cs).mp hw.2
      have hhl := (hashesOkList_iff cs).mp hh
      have ih : ∀ c ∈ cs, condFromItem dk d (condToItem ek c) = some c :=
        fun c hc => condFromItem_toItem dk ek hk c d (hdl c hc) (hwl c hc) (hhl c hc)
      have := condList_condsToItems (condFromItem dk d) ek cs (by simpa using hw.1.1) (by simpa using hw.1.2) ih
      simp only [condToItem, condFromItem, Item.elems?, toUint8_int tOr.toNat (by decide)]
      simp [tOr, tAnd, tNot, tBoolean, tCalledByEntry, condPayload, this]
  | .scriptHash h, d+1, _, _, hh => by
      simp only [Cond.hashesOk] at hh
      simp only [condToItem, condFromItem, Item.elems?, toUint8_int tScriptHash.toNat (by decide)]
      simp [tScriptHash, tOr, tAnd, tNot, tBoolean, tCalledByEntry,
        condPayload, toUint160_beBytes h hh]
  | .group k, d+1, _, _, _ => by
      simp only [condToItem, condFromItem, Item.elems?, toUint8_int tGroup.toNat (by decide)]
      simp [tGroup, tScriptHash, tOr, tAnd, tNot, tBoolean,
        tCalledByEntry, condPayload, Item.tryBytes, hk k]
  | .calledByEntry, d+1, _, _, _ => by
      simp only [condToItem, condFromItem, Item.elems?, toUint8_int tCalledByEntry.toNat (by decide)]
      simp
  | .calledByContract h, d+1, _, _, hh => by
      simp only [Cond.hashesOk] at hh
      simp only [condToItem, condFromItem, Item.elems?, toUint8_int tCalledByContract.toNat (by decide)]
      simp [tCalledByContract, tGroup, tScriptHash, tOr, tAnd, tNot,
        tBoolean, tCalledByEntry, condPayload, toUint160_beBytes h hh]
  | .calledByGroup k, d+1, _, _, _ => by
      simp only [condToItem, condFromItem, Item.elems?, toUint8_int tCalledByGroup.toNat (by decide)]
      simp [tCalledByGroup, tCalledByContract, tGroup, tScriptHash,
        tOr, tAnd, tNot, tBoolean, tCalledByEntry, condPayload, Item.tryBytes, hk k]

/-- `WitnessRule.FromStackItem` accepts only Deny / Allow rules whose condition is within the limits. -/
theorem ruleFromItem_wellformed (dk : Bytes → Option Key) (it : Item) (r : Rule)
    (h : ruleFromItem dk it = some r) : r.wellFormed := by
  unfold ruleFromItem at h
  split at h
  · cases h
  · rename_i a c _
    split at h
    · cases h
    · rename_i act _
      split at h
      · cases h
      · rename_i hact
        simp only [Option.map_eq_some_iff] at h
        obtain ⟨cond, hc, rfl⟩ := h
        have hb := condFromItem_bounded dk _ _ _ hc
        refine ⟨?_, hb.1, hb.2⟩
        simp only [ne_eq, not_and, Decidable.not_not] at hact
        by_cases h0 : act = 0
        · exact Or.inl h0
        · exact Or.inr (hact h0)
  · cases h

/-- ... and every such rule is decoded back from `ToStackItem`. -/
theorem ruleFromItem_toItem (dk : Bytes → Option Key) (ek : Key → Bytes) (hk : ∀ k, dk (ek k) = some k)
    (r : Rule) (hw : r.wellFormed) (hh : r.cond.hashesOk) : ruleFromItem dk (ruleToItem ek r) = some r := by
  obtain ⟨ha, hd, hwd⟩ := hw
  have hc := condFromItem_toItem dk ek hk r.cond maxConditionNesting hd hwd hh
  have hle : r.action ≤ 255 := by rcases ha with h | h <;> simp [h, actAllow]
  have hact : ¬ (r.action ≠ 0 ∧ r.action ≠ actAllow) := by rcases ha with h | h <;> simp [h]
  simp only [ruleFromItem, ruleToItem, Item.elems?, toUint8_int r.action hle, hc, if_neg hact, Option.map_some]

end NeoModel.Witness
