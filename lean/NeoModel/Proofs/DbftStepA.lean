/- C19 helper lemmas: sendPrepareRequest preserves the invariant. -/
import NeoModel.Proofs.DbftNode
namespace NeoModel.Dbft

theorem grows_upd {s : State} {i : Nat} {nd' : Node} {net' : List (Nat × Msg)}
    (gp : ∀ b, b ∈ (s.nodes i).myPreps → b ∈ nd'.myPreps)
    (gc : ∀ b, b ∈ (s.nodes i).myCommits → b ∈ nd'.myCommits) :
    Grows s ⟨upd s.nodes i nd', net'⟩ := by
  constructor
  · intro j b h
    show b ∈ (upd s.nodes i nd' j).myPreps
    by_cases hji : j = i
    · subst hji; rw [upd_same]; exact gp b h
    · rw [upd_other _ _ _ hji]; exact h
  · intro j b h
    show b ∈ (upd s.nodes i nd' j).myCommits
    by_cases hji : j = i
    · subst hji; rw [upd_same]; exact gc b h
    · rw [upd_other _ _ _ hji]; exact h

theorem inv_sendPrepReq (c : Cfg) (s : State) (i p : Nat) (inv : Inv c s)
    (en : Enabled c s (.sendPrepReq i p)) : Inv c (apply c s (.sendPrepReq i p)) := by
  obtain ⟨hi, hprim, hno, hprop⟩ := en
  generalize hnd : s.nodes i = nd at *
  simp only [apply, hnd]
  generalize hb : (⟨nd.height, nd.view, p⟩ : Block) = b at *
  have hbh : b.h = nd.height := by rw [← hb]
  have hbv : b.v = nd.view := by rw [← hb]
  have hpb : i = c.primary b.h b.v := by rw [hbh, hbv]; exact hprim
  have gp : ∀ b', b' ∈ (s.nodes i).myPreps → b' ∈ b :: nd.myPreps := by
    intro b' h; rw [hnd] at h; exact List.mem_cons_of_mem _ h
  have gc : ∀ b', b' ∈ (s.nodes i).myCommits → b' ∈ nd.myCommits := by
    intro b' h; rw [hnd] at h; exact h
  have g := grows_upd (s := s) (i := i)
    (nd' := { nd with known := addKnown nd.known (.prepReq i b), myPreps := b :: nd.myPreps })
    (net' := bcast c i (.item (.prepReq i b)) ++ s.net) gp gc
  have hnew : Prov c ⟨upd s.nodes i { nd with known := addKnown nd.known (.prepReq i b), myPreps := b :: nd.myPreps },
      bcast c i (.item (.prepReq i b)) ++ s.net⟩ (.prepReq i b) := by
    refine ⟨hi, hpb, ?_⟩
    show b ∈ (upd s.nodes i _ i).myPreps
    rw [upd_same]; exact List.mem_cons_self
  apply inv_node inv i { nd with known := addKnown nd.known (.prepReq i b), myPreps := b :: nd.myPreps }
    (bcast c i (.item (.prepReq i b)) ++ s.net) gp gc
  · intro it h
    rcases mem_addKnown.mp h with h | h
    · subst h; exact hnew
    · exact (inv.knownProv i it (by rw [hnd]; exact h)).mono g
  · intro to m h it hit
    rcases List.mem_append.mp h with h | h
    · rw [mem_bcast h] at hit; simp [Msg.items] at hit; subst hit; exact hnew
    · exact (inv.netProv to m h it hit).mono g
  · intro b1 b2 h1 h2; exact inv.commitUniq i b1 b2 (by rw [hnd]; exact h1) (by rw [hnd]; exact h2)
  · intro b1 h1; exact signed_mono g b1 (inv.chainQuorum i b1 (by rw [hnd]; exact h1))
  · intro b1 h1; have := inv.commitHeight i b1 (by rw [hnd]; exact h1); rw [hnd] at this; exact this
  · intro b1 h1
    rcases List.mem_cons.mp h1 with h1 | h1
    · subst h1; exact Nat.le_of_eq hbh
    · have := inv.prepHeight i b1 (by rw [hnd]; exact h1); rw [hnd] at this; exact this
  · intro b1 h1; have := inv.viewFrozen i b1 (by rw [hnd]; exact h1); rw [hnd] at this; exact this
  · intro b1 h1
    rcases List.mem_cons.mp h1 with h1 | h1
    · subst h1; intro _; exact Nat.le_of_eq hbv
    · have := inv.prepView i b1 (by rw [hnd]; exact h1); rw [hnd] at this; exact this
  · intro b1 b2 h1 h2 hh hv
    rcases List.mem_cons.mp h1 with e1 | m1 <;> rcases List.mem_cons.mp h2 with e2 | m2
    · rw [e1, e2]
    · subst e1; exact absurd ⟨by omega, by omega⟩ (hno b2 m2)
    · subst e2; exact absurd ⟨by omega, by omega⟩ (hno b1 m1)
    · exact inv.prepUniq i b1 b2 (by rw [hnd]; exact m1) (by rw [hnd]; exact m2) hh hv
  · intro b1 h1
    rcases List.mem_cons.mp h1 with h1 | h1
    · subst h1; rw [← hpb, upd_same]; exact List.mem_cons_self
    · exact g.preps _ _ (inv.prepFollows i b1 (by rw [hnd]; exact h1))
  · intro b1 h1; exact preparedBy_mono g b1 (inv.commitPrepared i b1 (by rw [hnd]; exact h1))
  · intro b1 h1
    rcases List.mem_cons.mp h1 with h1 | h1
    · subst h1; exact ⟨fun _ => hprop, fun h => absurd hpb h⟩
    · exact inv.checked i b1 (by rw [hnd]; exact h1)
  · intro b1 h1; have := inv.chainHeight i b1 (by rw [hnd]; exact h1); rw [hnd] at this; exact this
  · have := inv.chainShape i; rw [hnd] at this; exact this

end NeoModel.Dbft
