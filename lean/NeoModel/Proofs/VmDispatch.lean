/-
C13, tie of the specification's dispatch to the instruction switch of pkg/vm/vm.go `execute`.

`Generated/VmCases.lean` is regenerated from vm.go with go/ast on every check run: the opcode range
handled before the switch, the label groups of every `case` clause, the inner `switch op` labels,
the `default:` clause, every ordering comparison written in a clause or in a helper of it, and the
values of the limit constants. The obligations below are re-checked against the current source by
`lake build`:
  * `execute_handles_each_once`  every opcode of the opcode table is handled by exactly one clause
    (or the PUSHINT prefix), nothing else is, and an unknown opcode panics (FAULT);
  * `spec_dispatch_covers`       the specification decodes exactly this set and dispatches every
    member to a defined instruction (never to its own "not an instruction" default);
  * `inner_labels_in_group`      the inner switches only name labels of their own clause;
  * `comparisons_agree`          the comparisons (with their `<` / `<=` and the limit constant they
    mention) are the ones the specification was written against (frozen copy with the place in the
    specification that mirrors each);
  * `limit_values_agree`         the limit constants have the values the specification uses.
-/
import NeoModel.Model.Vm
import NeoModel.Generated.Opcodes
import NeoModel.Generated.VmCases
open NeoModel NeoModel.Vm
namespace NeoModel.Vm.C13

/-- all opcode bytes `execute` handles: the PUSHINT prefix and the labels of every clause. -/
def goHandled : List Nat :=
  List.range (Generated.VmCases.pushIntUpTo + 1) ++ Generated.VmCases.groups.flatten

set_option maxRecDepth 40000 in
/-- **every opcode of the opcode table is handled exactly once** by `execute` (no label occurs in
two clauses, no valid opcode is missing, no label is an invalid opcode), and the switch ends in a
`default:` that panics. -/
theorem execute_handles_each_once :
    goHandled.Nodup ∧
    (List.range 256).all (fun b => goHandled.contains b == Generated.Opcodes.table.any (·.1 == b)) = true ∧
    Generated.VmCases.hasDefault = true ∧ Generated.VmCases.defaultPanics = true := by
  refine ⟨by decide +kernel, by decide +kernel, rfl, rfl⟩

/-- does the specification dispatch `op` to a defined instruction? (`exec` on a loaded empty
script: anything but the fall-through error of `execPure`.) -/
def specDispatches (op : Op) : Bool :=
  match exec (Vm.load #[] [] none) { op := op, opByte := 0, param := [], ip := 0, next := 0 } with
  | .error e => e != "not a stack instruction"
  | .ok _ => true

set_option maxRecDepth 40000 in
/-- **the specification's dispatch covers the same set**: a byte decodes to an instruction of the
specification iff `execute` handles it, and every such instruction is dispatched by `exec`. -/
theorem spec_dispatch_covers :
    (List.range 256).all (fun b =>
      match Op.ofByte (UInt8.ofNat b) with
      | some op => goHandled.contains b && specDispatches op
      | none => !goHandled.contains b) = true := by
  decide +kernel

-- non-vacuity: the fall-through exists (an instruction value that is not dispatched would be seen)
example : specDispatches (.pushData 1) = true ∧ specDispatches .ret = true ∧
    (match execPure .ret [] [] #[] with | .error e => e == "not a stack instruction" | _ => false) = true := by
  decide +kernel

/-- the inner `switch op` of a grouped clause names only labels of that clause. -/
theorem inner_labels_in_group :
    Generated.VmCases.inner.all (fun e =>
      match Generated.VmCases.groups.find? (fun g => g.head? == some e.1) with
      | some g => e.2.all (fun ls => ls.all g.contains)
      | none => false) = true := by
  decide +kernel

/-- the comparisons the specification (Model/Vm/Ops.lean `execPure`, Model/Vm/Machine.lean `exec`)
was written against: (first label of the clause, source text of the comparison), in source order. -/
def expectedComparisons : List (String × String) := [
  ("INITSLOT", "parameter[0] > 0"),
  ("INITSLOT", "parameter[1] > 0"),
  ("NEWBUFFER", "n < 0"),
  ("NEWBUFFER", "n > stackitem.MaxSize"),
  ("MEMCPY", "n < 0"),
  ("MEMCPY", "si < 0"),
  ("MEMCPY", "sum < 0"),
  ("MEMCPY", "sum > len(src)"),
  ("MEMCPY", "di < 0"),
  ("MEMCPY", "sum < 0"),
  ("MEMCPY", "sum > len(dst)"),
  ("CAT", "l > stackitem.MaxSize"),
  ("SUBSTR", "l < 0"),
  ("SUBSTR", "o < 0"),
  ("SUBSTR", "last > len(s)"),
  ("LEFT", "l < 0"),
  ("LEFT", "l > t"),
  ("RIGHT", "l < 0"),
  ("RIGHT", "l > t"),
  ("DROP", "v.estack.Len() < 1"),
  ("NIP", "v.estack.Len() < 2"),
  ("XDROP", "n < 0"),
  ("XDROP", "v.estack.Len() < n+1"),
  ("OVER", "v.estack.Len() < 2"),
  ("PICK", "n < 0"),
  ("PICK", "v.estack.Len() < n+1"),
  ("TUCK", "v.estack.Len() < 2"),
  ("EQUAL", "v.estack.Len() < 2"),
  ("POW", "ei > maxSHLArg"),
  ("MODPOW", "base.Cmp(bigZero) <= 0"),
  ("MODPOW", "modulus.Cmp(bigTwo) < 0"),
  ("MODPOW", "base.Sign() < 0"),
  ("SHL", "b < 0"),
  ("SHL", "b > maxSHLArg"),
  ("LT", "cmp <= 0"),
  ("LT", "cmp >= 0"),
  ("WITHIN", "a.Cmp(x) <= 0"),
  ("NEWARRAY", "n < 0"),
  ("NEWARRAY", "n > MaxStackSize"),
  ("PACKMAP", "n < 0"),
  ("PACKMAP", "n*2 > v.estack.Len()"),
  ("PACKSTRUCT", "n < 0"),
  ("PACKSTRUCT", "n > v.estack.Len()"),
  ("UNPACK", "i >= 0"),
  ("UNPACK", "i >= 0"),
  ("UNPACK", "i >= 0"),
  ("UNPACK", "i >= 0"),
  ("PICKITEM", "index < 0"),
  ("PICKITEM", "index >= len(arr)"),
  ("PICKITEM", "index < 0"),
  ("PICKITEM", "index < 0"),
  ("PICKITEM", "index >= len(arr)"),
  ("SETITEM", "index < 0"),
  ("SETITEM", "index >= len(arr)"),
  ("SETITEM", "i >= 0"),
  ("SETITEM", "index < 0"),
  ("SETITEM", "index >= t.Len()"),
  ("SETITEM", "b < math.MinInt8"),
  ("SETITEM", "b > math.MaxUint8"),
  ("REMOVE", "k < 0"),
  ("REMOVE", "k >= len(a)"),
  ("REMOVE", "k < 0"),
  ("REMOVE", "k >= len(a)"),
  ("REMOVE", "index >= 0"),
  ("RET", "oldCtx.retCount >= 0"),
  ("RET", "i > 0"),
  ("HASKEY", "v.estack.Len() < 2"),
  ("HASKEY", "index < 0"),
  ("HASKEY", "index >= stackitem.MaxSize"),
  ("HASKEY", "index < len(c.Array())"),
  ("HASKEY", "index < 0"),
  ("HASKEY", "index >= stackitem.MaxSize"),
  ("HASKEY", "index < len(t.Value().([]byte))"),
  ("TRY", "ctx.tryStack.Len() >= MaxTryNestingDepth"),
  ("func toInt", "n < math.MinInt32"),
  ("func toInt", "n > math.MaxInt32"),
  ("func checkInvocationStackSize", "len(v.istack) >= MaxInvocationStackSize"),
  ("func handleException", "pop < len(v.istack)"),
  ("func handleException", "j < ictx.tryStack.Len()")
]

/-- **comparisons_agree.** Every ordering comparison of `execute` and its helpers — operand, `<` vs
`<=`, and the limit constant — is the one the specification mirrors; a changed boundary in vm.go
changes the regenerated table and breaks this obligation even if no generated input reaches it. -/
theorem comparisons_agree : Generated.VmCases.comparisons = expectedComparisons := by decide +kernel

/-- the limit constants of vm.go / stackitem have the values the specification uses. -/
theorem limit_values_agree :
    Generated.VmCases.limitValues =
      [("MaxInvocationStackSize", maxInvocationStackSize), ("MaxStackSize", maxStackSize),
       ("MaxTryNestingDepth", maxTryNestingDepth), ("maxSHLArg", maxShift),
       ("stackitem.MaxBigIntegerSizeBits", 8 * maxIntBytes), ("stackitem.MaxKeySize", maxKeySize),
       ("stackitem.MaxSize", maxItemSize)] := by decide

end NeoModel.Vm.C13
