/-
C08 helper: `Add` as a whole on a pool that satisfies the invariant: failure changes at most the balance
cache, success keeps the invariant and removes only conflicting transactions, a replaced oracle response
and — from a full pool — the lowest-priority entry.
-/
import NeoModel.Proofs.MempoolInsert
namespace NeoModel.Mempool

/-- the fields outside the property's own state: item stamps and data, the resend settings and log,
the subscription flag and everything sent on the events channel -/
def SameAux (mp mp' : Pool) : Prop :=
  mp'.stamp = mp.stamp ∧ mp'.data = mp.data ∧ mp'.resendThreshold = mp.resendThreshold ∧ mp'.resent = mp.resent ∧
  mp'.subsOn = mp.subsOn ∧ mp'.events = mp.events

theorem SameAux.refl (mp : Pool) : SameAux mp mp := ⟨rfl, rfl, rfl, rfl, rfl, rfl⟩

/-- A failed `Add` may only have filled the balance cache of the new transaction's payer
(with the balance the `Feer` reports and an empty fee sum); every other field is unchanged
(no event is sent, no item stamp or data changes). -/
def CacheOnly (mp mp' : Pool) (t : Tx) (feer : Feer) : Prop :=
  mp'.txs = mp.txs ∧ mp'.vmap = mp.vmap ∧ mp'.conflicts = mp.conflicts ∧ mp'.oracleResp = mp.oracleResp ∧
  mp'.capacity = mp.capacity ∧ mp'.feePerByte = mp.feePerByte ∧ mp'.panicked = mp.panicked ∧
  (mp'.fees = mp.fees ∨
    (mp.fees (payerOf t) = none ∧
      mp'.fees = upd mp.fees (payerOf t)
        (some { balance := feer.balance (payerOf t).1 (payerOf t).2 % U256, feeSum := 0 }))) ∧
  SameAux mp mp'

theorem CacheOnly.refl (mp : Pool) (t : Tx) (feer : Feer) : CacheOnly mp mp t feer :=
  ⟨rfl, rfl, rfl, rfl, rfl, rfl, rfl, Or.inl rfl, SameAux.refl _⟩

theorem removeAll_length_lt {U : Tx → Prop} (hw : WF U) {mp : Pool} (hi : Inv U mp) (c : Tx) (cs : List Tx)
    (hc : c ∈ mp.txs) : (removeAll mp (c :: cs)).txs.length < mp.txs.length := by
  obtain ⟨_, h2, _, _⟩ := inv_removeAll hw (c :: cs) hi
  rw [h2, ← filter_notin_cons]
  exact Nat.lt_of_le_of_lt (List.length_filter_le _ _) (length_filter_ne_lt mp.txs c hc)

theorem checkBalance_errKind (t : Tx) (b : Fee) (e : Err) (h : (checkBalance t b).2 = some e) :
    e = .funds ∨ e = .conflict := by
  unfold checkBalance at h
  simp only at h
  split at h
  · exact Or.inl (Option.some.inj h).symm
  · split at h
    · exact Or.inr (Option.some.inj h).symm
    · cases h

/-- the errors of `checkTxConflicts`: ErrConflictsAttribute, ErrInsufficientFunds, ErrConflict -/
theorem checkTxConflicts_errKind (mp : Pool) (t : Tx) (feer : Feer) {mp1 : Pool} {e : Err}
    (h : checkTxConflicts mp t feer = (mp1, .error e)) : e = .cattr ∨ e = .funds ∨ e = .conflict := by
  unfold checkTxConflicts at h
  simp only at h
  repeat' split at h
  all_goals first
    | (injection (Prod.mk.inj h).2 with h'; exact Or.inl h'.symm)
    | (rename_i e' he'; injection (Prod.mk.inj h).2 with h'; subst h'; exact Or.inr (checkBalance_errKind _ _ _ he'))
    | cases (Prod.mk.inj h).2

/-- `x` and `t` cannot be pooled together: one names the other in a Conflicts attribute, or both answer the same
oracle request -/
def Related (t x : Tx) : Prop :=
  t.id ∈ x.conflicts ∨ x.id ∈ t.conflicts ∨ (x.oracle = t.oracle ∧ t.oracle ≠ none)

/-- Everything `Add` does on a pool that satisfies the invariant. -/
theorem add_spec {U : Tx → Prop} (hw : WF U) {mp : Pool} (hi : Inv U mp) {t : Tx} (ht : U t) (feer : Feer)
    (hF : FeerOk feer) (d : Nat) :
    (∀ mp' e, add mp t feer d = (mp', some e) → CacheOnly mp mp' t feer ∧ Inv U mp' ∧
      (e = .oom → mp.txs.length = mp.capacity ∧ ∀ x ∈ mp.txs, ge x t)) ∧
    (∀ mp', add mp t feer d = (mp', none) →
      Inv U mp' ∧ mp'.capacity = mp.capacity ∧ mp'.feePerByte = mp.feePerByte ∧ t ∈ mp'.txs ∧
      (∀ x ∈ mp'.txs, x = t ∨ x ∈ mp.txs) ∧
      (∀ x ∈ mp.txs, x ∉ mp'.txs →
        t.id ∈ x.conflicts ∨ x.id ∈ t.conflicts ∨
        (x.oracle = t.oracle ∧ t.oracle ≠ none ∧ x.netFee < t.netFee) ∨
        (mp'.txs.length = mp'.capacity ∧ (∀ y ∈ mp'.txs, ge y x) ∧ 0 < compare t x)) ∧
      -- the exact new list: `L` = the old list without the transactions related to `t`; `t` is inserted at its
      -- index into `L`, after dropping the last item of `L` if `L` still fills the pool
      (∃ L : List Tx, L.Sublist mp.txs ∧ (∀ x ∈ mp.txs, x ∈ L ↔ ¬ Related t x) ∧
        mp'.txs = (if L.length = mp.capacity then L.dropLast else L).take (insertIdx L t) ++ [t] ++
          (if L.length = mp.capacity then L.dropLast else L).drop (insertIdx L t))) := by
  unfold add
  by_cases hdup : (mp.vmap t.id).isSome = true
  · rw [if_pos hdup]
    constructor
    · intro mp' e h
      have := (Prod.mk.inj h).1; subst this
      have he : e = .dup := (Option.some.inj (Prod.mk.inj h).2).symm
      exact ⟨CacheOnly.refl _ _ _, hi, fun h' => by rw [he] at h'; cases h'⟩
    · intro mp' h; cases (Prod.mk.inj h).2
  · rw [if_neg hdup]
    have hfresh0 : ∀ e ∈ mp.txs, e.id ≠ t.id := by
      intro e he hid
      have := (hi.vmap t.id e).mpr ⟨he, hid⟩
      rw [this] at hdup; exact hdup rfl
    cases hck : checkTxConflicts mp t feer with
    | mk mp1 r =>
      cases r with
      | error e0 =>
        have := checkTxConflicts_err hw hi t feer hck
        subst this
        simp only
        constructor
        · intro mp' e h
          have := (Prod.mk.inj h).1; subst this
          have he : e = e0 := (Option.some.inj (Prod.mk.inj h).2).symm
          refine ⟨CacheOnly.refl _ _ _, hi, fun h' => ?_⟩
          rw [he] at h'
          rcases checkTxConflicts_errKind _ t feer hck with h'' | h'' | h'' <;> rw [h''] at h' <;> cases h'
        · intro mp' h; cases (Prod.mk.inj h).2
      | ok rm =>
        simp only
        obtain ⟨actual, hmp1, hent, hcase, hrm1, hrmrel, hrmnd, hrm3, hrm4, hbal⟩ := checkTxConflicts_ok hw hi ht feer hF hck
        have hi1 : Inv U mp1 := by rw [hmp1]; exact inv_fees_upd hi _ _ hent
        have hco : CacheOnly mp mp1 t feer := by
          rw [hmp1]
          refine ⟨rfl, rfl, rfl, rfl, rfl, rfl, rfl, ?_, SameAux.refl _⟩
          rcases hcase with h | ⟨h1, h2⟩
          · exact Or.inl (upd_self_eq _ _ _ h)
          · exact Or.inr ⟨h1, by rw [h2]⟩
        have htx1 : mp1.txs = mp.txs := by rw [hmp1]
        have hfe1 : mp1.fees (payerOf t) = some actual := by rw [hmp1]; exact upd_same _ _ _
        obtain ⟨o1, o2, o3⟩ := oracleStage_spec hw hi1 t
        rw [if_neg (by rw [o1]; simp)]
        by_cases hflag : (oracleStage mp1 t).2 = true
        · rw [if_neg (by rw [hflag]; simp)]
          obtain ⟨p1, p2, p3, p4, p5, p6, p7, p8⟩ := o3 hflag
          obtain ⟨q1, q2, q3, q4⟩ := inv_removeAll hw rm p1
          -- facts about the list after the removals
          have hsub3 : (removeAll (oracleStage mp1 t).1 rm).txs.Sublist mp.txs := by
            rw [q2, ← htx1]; exact (List.filter_sublist).trans p4
          have hnotrm : ∀ e ∈ (removeAll (oracleStage mp1 t).1 rm).txs, e ∉ rm := by
            intro e he her
            rw [q2] at he
            have := (List.mem_filter.mp he).2
            have hin : (rm.map (·.id)).contains e.id = true := by
              simp only [List.contains_eq_mem, List.mem_map, decide_eq_true_eq]
              exact ⟨e, her, rfl⟩
            rw [hin] at this; cases this
          obtain ⟨fe2, hfe2, hb2⟩ := p8 (payerOf t) actual hfe1
          obtain ⟨fe3, hfe3, hb3⟩ := balKeep_removeAll (payerOf t) rm (oracleStage mp1 t).1 fe2 hfe2
          have hsum3 : sumFees (payerOf t) (removeAll (oracleStage mp1 t).1 rm).txs
              ≤ sumFees (payerOf t) (mp.txs.filter (fun x => !(rm.map (·.id)).contains x.id)) := by
            rw [q2]; apply sumFees_sublist
            rw [← htx1]; exact p4.filter _
          obtain ⟨s1, s2⟩ := insertStage_spec hw q1 ht feer d
            (fun e he => hfresh0 e (hsub3.subset he))
            (fun e he hc => hnotrm e he (hrm3 e (hsub3.subset he) hc))
            (fun e he hc => hnotrm e he (hrm4 e (hsub3.subset he) hc))
            (fun i hi' e he => p7 i hi' e (by rw [q2] at he; exact (List.mem_filter.mp he).1))
            fe3 hfe3 (by rw [hb3, hb2]; omega)
          constructor
          · intro mp' e h
            obtain ⟨_, t2, t3, t4⟩ := s1 mp' e h
            -- the pool was full: nothing can have been removed before
            have hlen : mp.txs.length ≤ (removeAll (oracleStage mp1 t).1 rm).txs.length := by
              rw [t3, q3, p2, hco.2.2.2.2.1]; exact hi.cap
            have hsame : (oracleStage mp1 t).1 = mp1 := by
              rcases p5 with h' | h'
              · exact h'
              · have := hsub3.length_le
                have h4 : (removeAll (oracleStage mp1 t).1 rm).txs.length ≤ (oracleStage mp1 t).1.txs.length := by
                  rw [q2]; exact List.length_filter_le _ _
                rw [htx1] at h'; omega
            have hrmnil : rm = [] := by
              cases rm with
              | nil => rfl
              | cons c cs =>
                have hc : c ∈ (oracleStage mp1 t).1.txs := by
                  rw [hsame, htx1]; exact hrm1 c List.mem_cons_self
                have := removeAll_length_lt hw p1 c cs hc
                rw [hsame, htx1] at this; rw [hsame] at hlen; omega
            rw [t2, hrmnil, hsame]
            refine ⟨hco, hi1, fun _ => ⟨?_, ?_⟩⟩
            · rw [hrmnil, hsame] at t3
              have t3' : mp1.txs.length = mp1.capacity := t3
              rw [htx1, hco.2.2.2.2.1] at t3'
              exact t3'
            · rw [hrmnil, hsame] at t4
              have t4' : ∀ x ∈ mp1.txs, ge x t := t4
              rw [htx1] at t4'
              exact t4'
          · intro mp' h
            obtain ⟨r1, r2, r3, r4, r5, r6, r7⟩ := s2 mp' h
            have hgone : ∀ x ∈ mp.txs, x ∉ (removeAll (oracleStage mp1 t).1 rm).txs →
                t.id ∈ x.conflicts ∨ x.id ∈ t.conflicts ∨ (x.oracle = t.oracle ∧ t.oracle ≠ none ∧ x.netFee < t.netFee) := by
              intro x hx hx3
              by_cases hx2 : x ∈ (oracleStage mp1 t).1.txs
              · -- removed as a conflict
                have : x ∈ rm := by
                  rw [q2] at hx3
                  have hc : (rm.map (·.id)).contains x.id = true := by
                    cases hcc : (rm.map (·.id)).contains x.id with
                    | true => rfl
                    | false =>
                      exfalso; apply hx3
                      exact List.mem_filter.mpr ⟨hx2, by rw [hcc]; rfl⟩
                  simp only [List.contains_eq_mem, List.mem_map, decide_eq_true_eq] at hc
                  obtain ⟨c, hc1, hc2⟩ := hc
                  have : c = x := hi.list.idEq hw (hrm1 c hc1) hx hc2
                  subst this; exact hc1
                rcases hrmrel x this with h' | h'
                · exact Or.inl h'
                · exact Or.inr (Or.inl h')
              · exact Or.inr (Or.inr (p6 x (by rw [htx1]; exact hx) hx2))
            refine ⟨r1, by rw [r2, q3, p2, hco.2.2.2.2.1], by rw [r3, q4, p3, hco.2.2.2.2.2.1], r4, ?_, ?_, ?_⟩
            · intro x hx
              rcases r5 x hx with h' | h'
              · exact Or.inl h'
              · exact Or.inr (hsub3.subset h')
            · intro x hx hnx
              by_cases hx3 : x ∈ (removeAll (oracleStage mp1 t).1 rm).txs
              · obtain ⟨u1, u2, u3⟩ := r6 x hx3 hnx
                refine Or.inr (Or.inr (Or.inr ⟨?_, ?_, u3⟩))
                · exact u1
                · intro y hy
                  rcases r5 y hy with h' | h'
                  · rw [h']; unfold ge; omega
                  · exact u2 y h'
              · rcases hgone x hx hx3 with h' | h' | h'
                · exact Or.inl h'
                · exact Or.inr (Or.inl h')
                · exact Or.inr (Or.inr (Or.inl h'))
            · refine ⟨(removeAll (oracleStage mp1 t).1 rm).txs, hsub3, ?_, ?_⟩
              · intro x hx
                constructor
                · intro hx3 hrel
                  rcases hrel with h' | h' | ⟨h1', h2'⟩
                  · exact hnotrm x hx3 (hrm3 x hx h')
                  · exact hnotrm x hx3 (hrm4 x hx h')
                  · cases hto : t.oracle with
                    | none => exact h2' hto
                    | some i =>
                      have hxo : x ∈ (oracleStage mp1 t).1.txs := by
                        rw [q2] at hx3; exact (List.mem_filter.mp hx3).1
                      exact p7 i hto x hxo (by rw [h1', hto])
                · intro hnr
                  apply Classical.byContradiction
                  intro hx3
                  rcases hgone x hx hx3 with h' | h' | ⟨h1', h2', _⟩
                  · exact hnr (Or.inl h')
                  · exact hnr (Or.inr (Or.inl h'))
                  · exact hnr (Or.inr (Or.inr ⟨h1', h2'⟩))
              · rw [q3, p2, hco.2.2.2.2.1] at r7
                exact r7
        · have hf : (oracleStage mp1 t).2 = false := by
            cases h' : (oracleStage mp1 t).2 with
            | true => exact absurd h' hflag
            | false => rfl
          rw [if_pos (by rw [hf]; rfl)]
          constructor
          · intro mp' e h
            have := (Prod.mk.inj h).1; subst this
            have he : e = .oracle := (Option.some.inj (Prod.mk.inj h).2).symm
            rw [o2 hf]
            exact ⟨hco, hi1, fun h' => by rw [he] at h'; cases h'⟩
          · intro mp' h; cases (Prod.mk.inj h).2

end NeoModel.Mempool
