/-
C09 helper lemmas: the byte-string order (`lexLt`, `lexLe`, `ltDir`) is a strict total order.
-/
import NeoModel.Model.Store.Spec
set_option linter.unusedSimpArgs false
namespace NeoModel.Store

theorem u8_lt_irrefl (a : UInt8) : ¬ a < a := by
  rw [UInt8.lt_iff_toNat_lt]; omega
theorem u8_tri (a b : UInt8) : a < b ∨ a = b ∨ b < a := by
  rcases Nat.lt_trichotomy a.toNat b.toNat with h | h | h
  · left; exact UInt8.lt_iff_toNat_lt.mpr h
  · right; left; exact UInt8.toNat_inj.mp h
  · right; right; exact UInt8.lt_iff_toNat_lt.mpr h
theorem u8_lt_trans {a b c : UInt8} (h1 : a < b) (h2 : b < c) : a < c := by
  rw [UInt8.lt_iff_toNat_lt] at *; omega
theorem u8_lt_asymm {a b : UInt8} (h1 : a < b) : ¬ b < a := by
  rw [UInt8.lt_iff_toNat_lt] at *; omega

theorem lexLt_irrefl (a : Bytes) : lexLt a a = false := by
  induction a with
  | nil => rfl
  | cons x xs ih => simp [lexLt, u8_lt_irrefl, ih]

theorem lexLt_trans {a b c : Bytes} : lexLt a b = true → lexLt b c = true → lexLt a c = true := by
  induction a generalizing b c with
  | nil =>
    cases b with
    | nil => simp [lexLt]
    | cons y ys => cases c <;> simp [lexLt]
  | cons x xs ih =>
    cases b with
    | nil => simp [lexLt]
    | cons y ys =>
      cases c with
      | nil => simp [lexLt]
      | cons z zs =>
        simp only [lexLt]
        intro h1 h2
        rcases u8_tri x y with hxy | hxy | hxy
        · rcases u8_tri y z with hyz | hyz | hyz
          · simp [u8_lt_trans hxy hyz]
          · subst hyz; simp [hxy]
          · simp [hyz, u8_lt_asymm hyz] at h2
        · subst hxy
          rcases u8_tri x z with hyz | hyz | hyz
          · simp [hyz]
          · subst hyz
            simp [u8_lt_irrefl] at h1 h2 ⊢
            exact ih h1 h2
          · simp [hyz, u8_lt_asymm hyz] at h2
        · simp [hxy, u8_lt_asymm hxy] at h1

theorem lexLt_asymm {a b : Bytes} (h : lexLt a b = true) : lexLt b a = false := by
  cases hb : lexLt b a with
  | false => rfl
  | true => have := lexLt_trans h hb; rw [lexLt_irrefl] at this; cases this

theorem lexLt_tri (a b : Bytes) : lexLt a b = true ∨ a = b ∨ lexLt b a = true := by
  induction a generalizing b with
  | nil => cases b <;> simp [lexLt]
  | cons x xs ih =>
    cases b with
    | nil => simp [lexLt]
    | cons y ys =>
      simp only [lexLt]
      rcases u8_tri x y with h | h | h
      · simp [h]
      · subst h
        simp [u8_lt_irrefl]
        exact ih ys
      · simp [h, u8_lt_asymm h]

theorem lexLt_ne {a b : Bytes} (h : lexLt a b = true) : a ≠ b := by
  intro e; subst e; rw [lexLt_irrefl] at h; cases h

/-- a common prefix does not matter. -/
theorem lexLt_append_left (p a b : Bytes) : lexLt (p ++ a) (p ++ b) = lexLt a b := by
  induction p with
  | nil => rfl
  | cons x xs ih => simp [lexLt, u8_lt_irrefl, ih]

theorem lexLe_append_left (p a b : Bytes) : lexLe (p ++ a) (p ++ b) = lexLe a b := by
  simp [lexLe, lexLt_append_left]

theorem lexLe_refl (a : Bytes) : lexLe a a = true := by simp [lexLe, lexLt_irrefl]

theorem lexLe_total (a b : Bytes) : (lexLe a b || lexLe b a) = true := by
  simp only [lexLe]
  rcases lexLt_tri a b with h | h | h
  · simp [lexLt_asymm h]
  · subst h; simp [lexLt_irrefl]
  · simp [lexLt_asymm h]

theorem lexLe_trans {a b c : Bytes} (h1 : lexLe a b = true) (h2 : lexLe b c = true) : lexLe a c = true := by
  simp only [lexLe, Bool.not_eq_true'] at *
  rcases lexLt_tri a c with h | h | h
  · exact lexLt_asymm h
  · subst h; exact lexLt_irrefl a
  · -- c < a, a ≤ b → c < b contradiction with b ≤ c
    rcases lexLt_tri a b with h' | h' | h'
    · have := lexLt_trans h h'; rw [h2] at this; cases this
    · subst h'; rw [h2] at h; cases h
    · rw [h1] at h'; cases h'

theorem lexLe_iff (a b : Bytes) : lexLe a b = true ↔ lexLt a b = true ∨ a = b := by
  simp only [lexLe, Bool.not_eq_true']
  rcases lexLt_tri a b with h | h | h
  · simp [h, lexLt_asymm h]
  · subst h; simp [lexLt_irrefl]
  · simp [h, lexLt_asymm h]
    intro e; subst e; rw [lexLt_irrefl] at h; cases h

/-! direction-generic -/
theorem ltDir_irrefl (bw : Bool) (a : Bytes) : ltDir bw a a = false := by
  cases bw <;> simp [ltDir, lexLt_irrefl]
theorem ltDir_trans {bw : Bool} {a b c : Bytes} (h1 : ltDir bw a b = true) (h2 : ltDir bw b c = true) : ltDir bw a c = true := by
  cases bw <;> simp [ltDir] at *
  · exact lexLt_trans h1 h2
  · exact lexLt_trans h2 h1
theorem ltDir_asymm {bw : Bool} {a b : Bytes} (h : ltDir bw a b = true) : ltDir bw b a = false := by
  cases bw <;> simp [ltDir] at * <;> exact lexLt_asymm h
theorem ltDir_tri (bw : Bool) (a b : Bytes) : ltDir bw a b = true ∨ a = b ∨ ltDir bw b a = true := by
  cases bw <;> simp [ltDir]
  · exact lexLt_tri a b
  · rcases lexLt_tri a b with h | h | h
    · right; right; exact h
    · right; left; exact h
    · left; exact h

end NeoModel.Store
