/-
Helper for C18 / signatures: algebraic completeness of abstract ECDSA.
-/
import NeoModel.Model.Codec.Sig
namespace NeoModel.Codec
variable {F G : Type} [DecidableEq F]

/-- algebraic completeness: a signature made with an invertible nonce, whose `s` is invertible,
verifies under the matching public key, for every private scalar and digest. -/
theorem EcdsaAlg.verify_sign_aux (E : EcdsaAlg F G) (d k z : F)
    (hk : E.mul k (E.inv k) = E.one)
    (hs : E.mul (E.sign d k z).2 (E.inv (E.sign d k z).2) = E.one) :
    E.verify (E.smul d E.base) z (E.sign d k z) = true := by
  unfold EcdsaAlg.verify
  simp only [decide_eq_true_eq]
  generalize hr : (E.sign d k z).1 = r
  generalize hsv : (E.sign d k z).2 = s at hs
  have hr' : r = E.xco (E.smul k E.base) := by rw [← hr]; rfl
  have hs' : s = E.mul (E.inv k) (E.add z (E.mul r d)) := by rw [← hsv, hr']; rfl
  -- k * s = z + r d
  have hks : E.mul k s = E.add z (E.mul r d) := by
    rw [hs', ← E.mul_assoc, hk, E.mul_comm, E.mul_one]
  -- the point computed by the verifier is k·B
  have hpoint : E.gadd (E.smul (E.mul z (E.inv s)) E.base) (E.smul (E.mul r (E.inv s)) (E.smul d E.base))
      = E.smul k E.base := by
    rw [E.smul_smul, ← E.smul_add]
    congr 1
    have e1 : E.mul (E.mul r (E.inv s)) d = E.mul (E.mul r d) (E.inv s) := by
      rw [E.mul_assoc, E.mul_comm (E.inv s) d, ← E.mul_assoc]
    rw [e1, ← E.add_mul, ← hks, E.mul_assoc, hs, E.mul_one]
  rw [hpoint, hr']

end NeoModel.Codec
