/- C19 helper lemmas: the invariant of the dBFT model and the frame lemmas for steps. -/
import NeoModel.Proofs.DbftCount
namespace NeoModel.Dbft

theorem mem_addKnown {l : List Item} {it x : Item} : x ∈ addKnown l it ↔ x = it ∨ x ∈ l := by
  unfold addKnown
  split
  · constructor
    · intro h; exact Or.inr h
    · intro h; cases h with
      | inl h => subst h; assumption
      | inr h => exact h
  · simp

theorem mem_addAll {its l : List Item} {x : Item} : x ∈ addAll l its ↔ x ∈ its ∨ x ∈ l := by
  unfold addAll
  induction its generalizing l with
  | nil => simp
  | cons a as ih =>
    simp only [List.foldl_cons, List.mem_cons]
    rw [ih, mem_addKnown]
    constructor
    · rintro (h | h | h)
      · exact Or.inl (Or.inr h)
      · exact Or.inl (Or.inl h)
      · exact Or.inr h
    · rintro ((h | h) | h)
      · exact Or.inr (Or.inl h)
      · exact Or.inl h
      · exact Or.inr (Or.inr h)

theorem mem_bcast {c : Cfg} {i to : Nat} {m m' : Msg} (h : (to, m') ∈ bcast c i m) : m' = m := by
  unfold bcast at h
  simp only [List.mem_map, List.mem_filter] at h
  obtain ⟨j, _, hj⟩ := h
  exact (Prod.mk.inj hj).2.symm

/-- Where a payload comes from: it was built by its sender's own send step. -/
def Prov (c : Cfg) (s : State) : Item → Prop
  | .prepReq j b => j < c.n ∧ j = c.primary b.h b.v ∧ b ∈ (s.nodes j).myPreps
  | .prepResp j b => j < c.n ∧ j ≠ c.primary b.h b.v ∧ b ∈ (s.nodes j).myPreps
  | .commit j b => j < c.n ∧ b ∈ (s.nodes j).myCommits
  | .changeView .. => True

/-- signers of `b` -/
def signed (s : State) (b : Block) (j : Nat) : Bool := decide (b ∈ (s.nodes j).myCommits)
/-- preparers of `b` -/
def preparedBy (s : State) (b : Block) (j : Nat) : Bool := decide (b ∈ (s.nodes j).myPreps)

/-- a ledger holding exactly the blocks of heights `h-1, h-2, …, 1`, newest first -/
def ChainAt : List Block → Nat → Prop
  | [], h => h = 1
  | b :: rest, h => b.h + 1 = h ∧ ChainAt rest b.h

structure Inv (c : Cfg) (s : State) : Prop where
  knownProv : ∀ i it, it ∈ (s.nodes i).known → Prov c s it
  netProv : ∀ to m, (to, m) ∈ s.net → ∀ it ∈ m.items, Prov c s it
  commitUniq : ∀ i b b', b ∈ (s.nodes i).myCommits → b' ∈ (s.nodes i).myCommits → b.h = b'.h → b = b'
  chainQuorum : ∀ i b, b ∈ (s.nodes i).chain → c.m ≤ countP c.n (signed s b)
  commitHeight : ∀ i b, b ∈ (s.nodes i).myCommits → b.h ≤ (s.nodes i).height
  prepHeight : ∀ i b, b ∈ (s.nodes i).myPreps → b.h ≤ (s.nodes i).height
  viewFrozen : ∀ i b, b ∈ (s.nodes i).myCommits → b.h = (s.nodes i).height → b.v = (s.nodes i).view
  prepView : ∀ i b, b ∈ (s.nodes i).myPreps → b.h = (s.nodes i).height → b.v ≤ (s.nodes i).view
  prepUniq : ∀ i b b', b ∈ (s.nodes i).myPreps → b' ∈ (s.nodes i).myPreps → b.h = b'.h → b.v = b'.v → b = b'
  prepFollows : ∀ i b, b ∈ (s.nodes i).myPreps → b ∈ (s.nodes (c.primary b.h b.v)).myPreps
  commitPrepared : ∀ i b, b ∈ (s.nodes i).myCommits → c.m ≤ countP c.n (preparedBy s b)
  checked : ∀ i b, b ∈ (s.nodes i).myPreps →
    (i = c.primary b.h b.v → c.propose i b = true) ∧ (i ≠ c.primary b.h b.v → c.verify i b = true)
  chainHeight : ∀ i b, b ∈ (s.nodes i).chain → b.h < (s.nodes i).height
  chainShape : ∀ i, ChainAt (s.nodes i).chain (s.nodes i).height

theorem inv_init (c : Cfg) : Inv c init := by
  constructor <;> intros <;> simp_all [init, ChainAt]

/-- A step never removes a signature, a preparation or a ledger block. -/
structure Grows (s s' : State) : Prop where
  preps : ∀ j b, b ∈ (s.nodes j).myPreps → b ∈ (s'.nodes j).myPreps
  commits : ∀ j b, b ∈ (s.nodes j).myCommits → b ∈ (s'.nodes j).myCommits

theorem Prov.mono {c : Cfg} {s s' : State} (g : Grows s s') {it : Item} (h : Prov c s it) : Prov c s' it := by
  cases it with
  | prepReq j b => exact ⟨h.1, h.2.1, g.preps _ _ h.2.2⟩
  | prepResp j b => exact ⟨h.1, h.2.1, g.preps _ _ h.2.2⟩
  | commit j b => exact ⟨h.1, g.commits _ _ h.2⟩
  | changeView => trivial

theorem signed_mono {c : Cfg} {s s' : State} (g : Grows s s') (b : Block) {k : Nat}
    (h : k ≤ countP c.n (signed s b)) : k ≤ countP c.n (signed s' b) :=
  Nat.le_trans h (countP_mono _ _ _ (fun j _ hj => by
    simp only [signed, decide_eq_true_eq] at hj ⊢; exact g.commits _ _ hj))

theorem preparedBy_mono {c : Cfg} {s s' : State} (g : Grows s s') (b : Block) {k : Nat}
    (h : k ≤ countP c.n (preparedBy s b)) : k ≤ countP c.n (preparedBy s' b) :=
  Nat.le_trans h (countP_mono _ _ _ (fun j _ hj => by
    simp only [preparedBy, decide_eq_true_eq] at hj ⊢; exact g.preps _ _ hj))

/-- Steps that touch only `known` and the network. -/
theorem inv_frame {c : Cfg} {s s' : State} (inv : Inv c s)
    (hp : ∀ j, (s'.nodes j).myPreps = (s.nodes j).myPreps)
    (hc : ∀ j, (s'.nodes j).myCommits = (s.nodes j).myCommits)
    (hch : ∀ j, (s'.nodes j).chain = (s.nodes j).chain)
    (hh : ∀ j, (s'.nodes j).height = (s.nodes j).height)
    (hv : ∀ j, (s'.nodes j).view = (s.nodes j).view)
    (hk : ∀ i it, it ∈ (s'.nodes i).known → Prov c s it)
    (hnet : ∀ to m, (to, m) ∈ s'.net → ∀ it ∈ m.items, Prov c s it) : Inv c s' := by
  have g : Grows s s' := ⟨fun j b h => by rw [hp]; exact h, fun j b h => by rw [hc]; exact h⟩
  have hs : ∀ b, signed s' b = signed s b := by intro b; funext j; simp [signed, hc]
  have hpb : ∀ b, preparedBy s' b = preparedBy s b := by intro b; funext j; simp [preparedBy, hp]
  constructor
  · intro i it h; exact (hk i it h).mono g
  · intro to m h it hit; exact (hnet to m h it hit).mono g
  · intro i b b'; rw [hc]; exact inv.commitUniq i b b'
  · intro i b; rw [hch, hs]; exact inv.chainQuorum i b
  · intro i b; rw [hc, hh]; exact inv.commitHeight i b
  · intro i b; rw [hp, hh]; exact inv.prepHeight i b
  · intro i b; rw [hc, hh, hv]; exact inv.viewFrozen i b
  · intro i b; rw [hp, hh, hv]; exact inv.prepView i b
  · intro i b b'; rw [hp]; exact inv.prepUniq i b b'
  · intro i b; rw [hp, hp]; exact inv.prepFollows i b
  · intro i b; rw [hc, hpb]; exact inv.commitPrepared i b
  · intro i b; rw [hp]; exact inv.checked i b
  · intro i b; rw [hch, hh]; exact inv.chainHeight i b
  · intro i; rw [hch, hh]; exact inv.chainShape i

end NeoModel.Dbft
