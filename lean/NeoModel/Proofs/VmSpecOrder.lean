/-
C13 — operands are validated on every path, also where their value is not used.

The specification pops, converts and validates every operand of an instruction before it looks at the value of
any of them; so an operand that is not convertible FAULTs the instruction REGARDLESS of the other operands —
in particular on the paths where its value would not be needed: ASSERTMSG with a true condition still requires
the message to be a valid UTF-8 string; BOOLAND / BOOLOR do not short-circuit; WITHIN, MODMUL, MODPOW, MIN, MAX
convert all their operands; SHL / SHR by 0 still convert the value; a conditional jump converts its operand(s)
whether or not it is taken. (The one deliberate exception of NeoVM is LT/LE/GT/GE with a Null operand:
`compare_null`.) The order of two failing checks decides between a catchable exception and a FAULT:
`setitem_value_checked_after_index`.
-/
import NeoModel.Proofs.VmSpecFresh
open NeoModel NeoModel.Vm
namespace NeoModel.Vm.Spec

/-- **assertmsg_validates_message.** ASSERTMSG FAULTs when the message is not byte-convertible or not valid UTF-8,
whatever the condition is — also when it is true; with a valid message it continues iff the condition converts
to true. -/
theorem assertmsg_validates_message (msg c : Item) (st : List Item) (h : Heap) :
    (msg.toBytes h = none → isFault (execPure .assertMsg [] (msg :: c :: st) h)) ∧
    (∀ m, msg.toBytes h = some m → utf8Valid m = false → isFault (execPure .assertMsg [] (msg :: c :: st) h)) ∧
    (∀ m, msg.toBytes h = some m → utf8Valid m = true →
      execPure .assertMsg [] (msg :: c :: st) h =
        (match c.toBool with
         | none => .error "not a boolean"
         | some true => .ok (.next st h)
         | some false => .error "ASSERTMSG failed")) := by
  refine ⟨?_, ?_, ?_⟩
  · intro hm
    simp [execPure, popBytes_cons_none h msg _ hm, bind, Except.bind, isFault]
  · intro m hm hu
    simp [execPure, popBytes_cons h msg _ m hm, hu, bind, Except.bind, throw, throwThe, MonadExceptOf.throw, isFault]
  · intro m hm hu
    cases hc : c.toBool with
    | none => simp [execPure, popBytes_cons h msg _ m hm, hu, popBool_cons_none c _ hc, bind, Except.bind]
    | some p =>
      cases p <;> simp [execPure, popBytes_cons h msg _ m hm, hu, popBool_cons c _ _ hc, bind, Except.bind]

/-- ABORT / ABORTMSG FAULT whatever is on the stack; ASSERT converts its operand. -/
theorem abort_always (st : List Item) (h : Heap) :
    isFault (execPure .abort [] st h) ∧ isFault (execPure .abortMsg [] st h) := by
  constructor <;> simp [execPure, isFault]

/-- **ternary_type_fault.** WITHIN, MODMUL and MODPOW FAULT as soon as ANY of the three operands is not convertible
to an Integer, whatever the other two are (e.g. MODMUL with modulus 1, WITHIN with an empty interval). -/
theorem ternary_type_fault (a b c : Item) (st : List Item) (h : Heap)
    (hbad : a.toInteger = none ∨ b.toInteger = none ∨ c.toInteger = none) :
    isFault (execPure .within [] (c :: b :: a :: st) h) ∧ isFault (execPure .modMul [] (c :: b :: a :: st) h) ∧
    isFault (execPure .modPow [] (c :: b :: a :: st) h) := by
  have key : ∀ (k : Int → Int → Int → List Item → E Outcome),
      isFault (do let (z, s1) ← popInt (c :: b :: a :: st); let (y, s2) ← popInt s1; let (x, s3) ← popInt s2; k z y x s3) := by
    intro k
    cases hc : c.toInteger with
    | none => simp [popInt_cons_none c _ hc, bind, Except.bind, isFault]
    | some z =>
      cases hb : b.toInteger with
      | none => simp [popInt_cons c _ z hc, popInt_cons_none b _ hb, bind, Except.bind, isFault]
      | some y =>
        have ha : a.toInteger = none := by rcases hbad with h1 | h1 | h1 <;> simp_all
        simp [popInt_cons c _ z hc, popInt_cons b _ y hb, popInt_cons_none a _ ha, bind, Except.bind, isFault]
  refine ⟨?_, ?_, ?_⟩
  · have := key (fun z y x s => next1 (.bool (decide (y ≤ x) && decide (x < z))) s h)
    simpa [execPure, bind, Except.bind] using this
  · have := key (fun z y x s => do pushIntE (← optE "zero modulus" (modMul x y z)) s h)
    simpa [execPure, bind, Except.bind] using this
  · have := key (fun z y x s => do pushIntE (← optE "invalid MODPOW operands" (modPow x y z)) s h)
    simpa [execPure, bind, Except.bind] using this

/-- **shift_value_converted.** SHL / SHR with a valid count — even 0 — FAULT when the value is not convertible. -/
theorem shift_value_converted (n a : Item) (k : Int) (hn : n.toInteger = some k) (hk : 0 ≤ k ∧ k ≤ 256)
    (ha : a.toInteger = none) (st : List Item) (h : Heap) :
    isFault (execPure .shl [] (n :: a :: st) h) ∧ isFault (execPure .shr [] (n :: a :: st) h) := by
  have h32 : -(2:Int)^31 ≤ k ∧ k < (2:Int)^31 := by constructor <;> omega
  have hnot : ¬ (k < 0 ∨ k > (maxShift : Int)) := by simp [maxShift]; omega
  constructor <;>
    simp [execPure, popIdx_cons n _ k hn h32, bind, Except.bind, hnot, popInt_cons_none a _ ha, isFault]

/-- **jump_converts_operands.** A conditional jump converts its operand(s) whether or not it is taken: JMPIF /
JMPIFNOT FAULT on an operand without Boolean conversion, the comparing jumps on an operand without Integer
conversion (either one). -/
theorem jump_converts_operands (a b : Item) (st : List Item) :
    (a.toBool = none → (∃ e, jmpTaken .ifTrue (a :: st) = .error e) ∧ (∃ e, jmpTaken .ifFalse (a :: st) = .error e)) ∧
    ((a.toInteger = none ∨ b.toInteger = none) →
      ∀ c, c ≠ .always → c ≠ .ifTrue → c ≠ .ifFalse → ∃ e, jmpTaken c (b :: a :: st) = .error e) := by
  constructor
  · intro ha
    constructor <;> simp [jmpTaken, popBool_cons_none a _ ha, bind, Except.bind]
  · intro hab c h1 h2 h3
    cases hb : b.toInteger with
    | none => cases c <;> simp_all [jmpTaken, popInt_cons_none b _ hb, bind, Except.bind]
    | some y =>
      have ha : a.toInteger = none := by rcases hab with h | h <;> simp_all
      cases c <;> simp_all [jmpTaken, popInt_cons b _ y hb, popInt_cons_none a _ ha, bind, Except.bind]

/-- **setitem_value_checked_after_index.** Order of two failing checks on a Buffer: an index out of range raises the
CATCHABLE exception even if the value is not storable (not an Integer / outside [-128, 255]); only with a valid
index does the bad value FAULT. -/
theorem setitem_value_checked_after_index (id : Nat) (bs : Bytes) (key v : Item) (i : Int) (st : List Item) (h : Heap)
    (hb : h.getBuf id = some bs) (hi : key.toInteger = some i) (h32 : -(2:Int)^31 ≤ i ∧ i < (2:Int)^31)
    (hns : ∀ s, v ≠ .struct s) (hv : v.toInteger = none) :
    ((i < 0 ∨ i ≥ bs.length) →
      execPure .setItem [] (v :: key :: .buffer id :: st) h = .ok (.throw (outOfRange i) st h)) ∧
    ((0 ≤ i ∧ i < bs.length) → isFault (execPure .setItem [] (v :: key :: .buffer id :: st) h)) := by
  have hk := idx_of key i hi
  have hnk : (!key.validKey) = false := by simp [hk]
  have h32' : toInt32 i = some i := toInt32_of _ h32
  constructor
  · intro hout
    simp [execPure, popE, optE, cloneIfStruct_nonstruct h v hns, hnk, hi, h32', hb, hout, bind, Except.bind, outOfRange]
  · intro hin
    have hnot : ¬ (i < 0 ∨ i ≥ bs.length) := by omega
    simp [execPure, popE, optE, cloneIfStruct_nonstruct h v hns, hnk, hi, h32', hb, hnot, hv, bind, Except.bind, isFault]

-- non-vacuity: ASSERTMSG true with a message that is not UTF-8 faults; with a Map as message too
example : isFault (execPure .assertMsg [] [.bytes [0xff, 0xfe], .bool true] #[]) ∧
    isFault (execPure .assertMsg [] [.map 0, .bool true] #[.entries []]) ∧
    execPure .assertMsg [] [.bytes [0x6d], .bool true] #[] = .ok (.next [] #[]) := by
  refine ⟨(assertmsg_validates_message _ _ _ _).2.1 [0xff, 0xfe] rfl (by decide),
    (assertmsg_validates_message _ _ _ _).1 rfl, by decide +kernel⟩

end NeoModel.Vm.Spec
