/-
C13 — compound-type instructions, part D: element access on Array / Struct is list indexing
(PICKITEM, SETITEM, APPEND, REMOVE, POPITEM, HASKEY, SIZE, CLEARITEMS) and REVERSEITEMS is an involution.
-/
import NeoModel.Proofs.VmSpecCompoundC
open NeoModel NeoModel.Vm
namespace NeoModel.Vm.Spec

/-- an index item: anything convertible to the integer `i`. -/
theorem idx_of (key : Item) (i : Int) (hi : key.toInteger = some i) : key.validKey = true := by
  cases key <;> simp [Item.toInteger] at hi <;> simp [Item.validKey]
  -- ByteString keys of at most 32 bytes are valid keys
  simp [maxIntBytes] at hi; simp [maxKeySize]; omega

/-- **array_ops_spec.** On an Array (or Struct) holding `xs`, with an index convertible to `0 ≤ i < |xs|` and a
non-Struct value `v`: PICKITEM pushes `xs[i]`, SETITEM stores `xs.set i v`, REMOVE erases position `i`,
HASKEY pushes true; APPEND stores `xs ++ [v]`; POPITEM removes and pushes the last element; SIZE pushes
`|xs|`; CLEARITEMS stores `[]`. All of them act on the heap object, so every alias sees the change. -/
theorem array_ops_spec (id : Nat) (xs : List Item) (key v : Item) (i : Int) (st : List Item) (h : Heap)
    (hx : h.getItems id = some xs) (hi : key.toInteger = some i) (hlt : 0 ≤ i ∧ i < xs.length)
    (hl : xs.length < 2^31) (hv : ∀ s, v ≠ .struct s) :
    execPure .pickItem [] (key :: .array id :: st) h = .ok (.next (xs.getD i.toNat .null :: st) h) ∧
    execPure .setItem [] (v :: key :: .array id :: st) h =
      .ok (.next st (Heap.put h id (.items (xs.set i.toNat v)))) ∧
    execPure .remove [] (key :: .array id :: st) h =
      .ok (.next st (Heap.put h id (.items (xs.eraseIdx i.toNat)))) ∧
    execPure .append [] (v :: .array id :: st) h = .ok (.next st (Heap.put h id (.items (xs ++ [v])))) ∧
    execPure .clearItems [] (.array id :: st) h = .ok (.next st (Heap.put h id (.items []))) ∧
    execPure .size [] (.array id :: st) h = .ok (.next (.int ⟨xs.length, lenInRange xs hl⟩ :: st) h) := by
  have hk := idx_of key i hi
  have hnk : (!key.validKey) = false := by simp [hk]
  have h32 : toInt32 i = some i := toInt32_of _ (by constructor <;> omega)
  have hin : ¬ (i < 0 ∨ i ≥ xs.length) := by omega
  have hr := lenInRange xs hl
  refine ⟨?_, ?_, ?_, ?_, ?_, ?_⟩
  · simp [execPure, popE, optE, hnk, hi, h32, seqItems, hx, hin, bind, Except.bind, next1]
  · simp [execPure, popE, optE, cloneIfStruct_nonstruct h v hv, hnk, hi, h32, seqItems, hx, hin, bind, Except.bind]
  · simp [execPure, popE, optE, hnk, hi, h32, seqItems, hx, hin, bind, Except.bind, listRemove_eq_eraseIdx]
  · simp [execPure, popE, optE, cloneIfStruct_nonstruct h v hv, seqItems, hx, bind, Except.bind]
  · simp [execPure, popE, seqItems, hx, bind, Except.bind]
  · simp [execPure, popE, optE, seqItems, hx, bind, Except.bind, pushIntE_eq, intResult_inRange _ hr]

def outOfRange (i : Int) : Item := outOfRangeMsg i

/-- **array_index_bounds.** An index outside `[0, |xs|)` (but within int32): PICKITEM and SETITEM raise the
CATCHABLE exception "The value i is out of range."; REMOVE FAULTs (uncatchable); HASKEY pushes false for
`|xs| ≤ i < 131070` and FAULTs for negative or larger indexes. -/
theorem array_index_bounds (id : Nat) (xs : List Item) (key v : Item) (i : Int) (st : List Item) (h : Heap)
    (hx : h.getItems id = some xs) (hi : key.toInteger = some i) (h32 : -(2:Int)^31 ≤ i ∧ i < (2:Int)^31)
    (hout : i < 0 ∨ i ≥ xs.length) (hv : ∀ s, v ≠ .struct s) :
    execPure .pickItem [] (key :: .array id :: st) h = .ok (.throw (outOfRange i) st h) ∧
    execPure .setItem [] (v :: key :: .array id :: st) h = .ok (.throw (outOfRange i) st h) ∧
    isFault (execPure .remove [] (key :: .array id :: st) h) ∧
    (0 ≤ i ∧ i < 131070 → execPure .hasKey [] (key :: .array id :: st) h = .ok (.next (.bool false :: st) h)) ∧
    (i < 0 ∨ i ≥ 131070 → isFault (execPure .hasKey [] (key :: .array id :: st) h)) := by
  have hk := idx_of key i hi
  have hnk : (!key.validKey) = false := by simp [hk]
  have h32' : toInt32 i = some i := toInt32_of _ h32
  refine ⟨?_, ?_, ?_, ?_, ?_⟩
  · simp [execPure, popE, optE, hnk, hi, h32', seqItems, hx, hout, bind, Except.bind, outOfRange]
  · simp [execPure, popE, optE, cloneIfStruct_nonstruct h v hv, hnk, hi, h32', seqItems, hx, hout, bind, Except.bind,
      outOfRange]
  · simp [execPure, popE, optE, hnk, hi, h32', seqItems, hx, hout, bind, Except.bind, isFault]
  · intro hr
    have hnot : ¬ (i < 0 ∨ i ≥ (maxItemSize : Int)) := by simp [maxItemSize]; omega
    have hf : ¬ i < xs.length := by omega
    simp [execPure, popE, optE, hnk, hi, h32', seqItems, hx, hnot, hf, bind, Except.bind, next1]
  · intro hr
    have hbad : i < 0 ∨ i ≥ (maxItemSize : Int) := by simpa [maxItemSize] using hr
    simp [execPure, popE, optE, hnk, hi, h32', hbad, bind, Except.bind, throw, throwThe, MonadExceptOf.throw, isFault]

theorem haskey_array_true (id : Nat) (xs : List Item) (key : Item) (i : Int) (st : List Item) (h : Heap)
    (hx : h.getItems id = some xs) (hi : key.toInteger = some i) (hlt : 0 ≤ i ∧ i < xs.length) (hm : i < 131070) :
    execPure .hasKey [] (key :: .array id :: st) h = .ok (.next (.bool true :: st) h) := by
  have hk := idx_of key i hi
  have hnk : (!key.validKey) = false := by simp [hk]
  have h32 : toInt32 i = some i := toInt32_of _ (by constructor <;> omega)
  have hnot : ¬ (i < 0 ∨ i ≥ (maxItemSize : Int)) := by simp [maxItemSize]; omega
  simp [execPure, popE, optE, hnk, hi, h32, seqItems, hx, hnot, hlt.2, bind, Except.bind, next1]

/-- POPITEM removes and pushes the last element; on an empty array it FAULTs. -/
theorem popitem_spec (id : Nat) (xs : List Item) (x : Item) (st : List Item) (h : Heap) :
    (h.getItems id = some (xs ++ [x]) →
      execPure .popItem [] (.array id :: st) h = .ok (.next (x :: st) (Heap.put h id (.items xs)))) ∧
    (h.getItems id = some [] → isFault (execPure .popItem [] (.array id :: st) h)) := by
  constructor
  · intro hx
    simp [execPure, popE, seqItems, hx, bind, Except.bind]
  · intro hx
    simp [execPure, popE, seqItems, hx, bind, Except.bind, isFault]

/-- **reverseitems_involution.** REVERSEITEMS stores the reversed list in place; executing it twice on the
same Array restores the heap exactly (every alias sees the original order again). -/
theorem reverseitems_involution (id : Nat) (xs : List Item) (st st' : List Item) (h : Heap)
    (hx : h.getItems id = some xs) :
    execPure .reverseItems [] (.array id :: st) h = .ok (.next st (Heap.put h id (.items xs.reverse))) ∧
    execPure .reverseItems [] (.array id :: st') (Heap.put h id (.items xs.reverse)) = .ok (.next st' h) := by
  have hid := getItems_lt h id xs hx
  have hg : Heap.getItems (Heap.put h id (.items xs.reverse)) id = some xs.reverse := by
    simp [Heap.getItems, heap_get_put_same h id _ hid]
  constructor
  · simp [execPure, popE, seqItems, hx, bind, Except.bind]
  · simp only [execPure, popE, seqItems, hg, bind, Except.bind, Option.map, List.reverse_reverse, heap_put_put]
    rw [heap_put_self h id _ (getItems_get h id xs hx)]

example : let h : Heap := #[.items [.null, .bool true, .bytes [7]]]
    execPure .reverseItems [] [.array 0] h = .ok (.next [] #[.items [.bytes [7], .bool true, .null]]) ∧
    execPure .remove [] [.int ⟨1, by decide⟩, .array 0] h = .ok (.next [] #[.items [.null, .bytes [7]]]) ∧
    execPure .pickItem [] [.int ⟨3, by decide⟩, .array 0] h = .ok (.throw (outOfRange 3) [] h) := by
  decide +kernel

end NeoModel.Vm.Spec
