/-
C08 helper: `removeConflictsOf`, `removeFromMapWithFeesAndAttrs`, `removeInternal`, `Remove` preserve the invariant
and remove exactly the transaction with the given hash.
-/
import NeoModel.Proofs.MempoolInv
namespace NeoModel.Mempool

theorem mem_filter_ne {L : List Tx} {t : Tx} {h : Nat} :
    t ∈ L.filter (fun t => t.id != h) ↔ t ∈ L ∧ t.id ≠ h := by
  simp [List.mem_filter]

theorem removeConflictStep_other (id : Nat) (c : Nat → Option (List Nat)) (h h' : Nat) (hne : h' ≠ h) :
    removeConflictStep id c h h' = c h' := by
  simp [removeConflictStep, hne]

theorem removeConflictStep_same (id : Nat) (c : Nat → Option (List Nat)) (h : Nat) :
    removeConflictStep id c h h = stepEntry id (c h) := by
  simp [removeConflictStep]

theorem foldl_removeConflict (id : Nat) : ∀ (hs : List Nat) (c : Nat → Option (List Nat)) (h' : Nat), hs.Nodup →
    (hs.foldl (removeConflictStep id) c) h' = if h' ∈ hs then stepEntry id (c h') else c h' := by
  intro hs
  induction hs with
  | nil => intro c h' _; simp
  | cons h hs ih =>
    intro c h' hnd
    rw [List.nodup_cons] at hnd
    rw [List.foldl_cons, ih _ _ hnd.2]
    by_cases e : h' = h
    · subst e
      simp [hnd.1, removeConflictStep_same]
    · rw [removeConflictStep_other _ _ _ _ e]
      simp [e]

theorem vmapOk_remove {L : List Tx} {m : Nat → Option Tx} (hv : VmapOk L m) (id : Nat) :
    VmapOk (L.filter (fun t => t.id != id)) (upd m id none) := by
  intro h t
  rw [mem_filter_ne]
  by_cases e : h = id
  · subst e; simp only [upd_same]
    constructor
    · intro x; cases x
    · intro ⟨⟨_, h1⟩, h2⟩; exact absurd h2 h1
  · rw [upd_other _ _ e, hv h t]
    constructor
    · intro ⟨h1, h2⟩; exact ⟨⟨h1, by rw [h2]; exact e⟩, h2⟩
    · intro ⟨⟨h1, _⟩, h2⟩; exact ⟨h1, h2⟩

theorem orcOk_remove {U : Tx → Prop} {L : List Tx} {o : Nat → Option Nat} (hw : WF U) (hL : ListOk U L)
    (ho : OrcOk L o) (itm : Tx) (hm : itm ∈ L) :
    OrcOk (L.filter (fun t => t.id != itm.id))
      (match itm.oracle with
        | some id => upd o id none
        | none => o) := by
  intro i h
  cases hor : itm.oracle with
  | none =>
    simp only
    rw [ho i h]
    constructor
    · intro ⟨t, ht, h1, h2⟩
      refine ⟨t, mem_filter_ne.mpr ⟨ht, ?_⟩, h1, h2⟩
      intro e
      have := hL.idEq hw ht hm e
      subst this; rw [hor] at h2; cases h2
    · intro ⟨t, ht, h1, h2⟩
      exact ⟨t, (mem_filter_ne.mp ht).1, h1, h2⟩
  | some id =>
    simp only
    by_cases e : i = id
    · subst e; simp only [upd_same]
      constructor
      · intro x; cases x
      · intro ⟨t, ht, _, h2⟩
        have ⟨ht1, ht2⟩ := mem_filter_ne.mp ht
        have := hL.orcUniq t ht1 itm hm i h2 hor
        subst this; exact absurd rfl ht2
    · rw [upd_other _ _ e, ho i h]
      constructor
      · intro ⟨t, ht, h1, h2⟩
        refine ⟨t, mem_filter_ne.mpr ⟨ht, ?_⟩, h1, h2⟩
        intro e'
        have := hL.idEq hw ht hm e'
        subst this; rw [hor] at h2; exact e (Option.some.inj h2).symm
      · intro ⟨t, ht, h1, h2⟩
        exact ⟨t, (mem_filter_ne.mp ht).1, h1, h2⟩

theorem subW_eq (a b : Nat) (h1 : b ≤ a) (h2 : a < U256) : subW a b = a - b := by
  unfold subW
  have hb : b % U256 = b := Nat.mod_eq_of_lt (by omega)
  rw [hb]
  have : a + U256 - b = (a - b) + U256 := by omega
  rw [this, Nat.add_mod_right]
  exact Nat.mod_eq_of_lt (by omega)

theorem feesOk_remove {U : Tx → Prop} {L : List Tx} {f : Payer → Option Fee} (hL : ListOk U L)
    (hf : FeesOk L f) (itm : Tx) (hm : itm ∈ L) :
    FeesOk (L.filter (fun t => t.id != itm.id))
      (upd f (payerOf itm) (some { ((f (payerOf itm)).getD { balance := 0, feeSum := 0 }) with
        feeSum := subW ((f (payerOf itm)).getD { balance := 0, feeSum := 0 }).feeSum itm.fee })) := by
  intro q
  have hsum := sumFees_filter_ne q L itm hL.nodup hm
  have hq := hf q
  by_cases e : q = payerOf itm
  · subst e
    simp only [upd_same, FeeEntry]
    simp only [if_true] at hsum
    cases hfq : f (payerOf itm) with
    | none =>
      rw [hfq] at hq; simp only [FeeEntry] at hq
      have h0 : itm.fee = 0 := by omega
      simp only [Option.getD_none, h0]
      refine ⟨?_, ?_, ?_⟩
      · have : subW 0 0 = 0 := by rw [subW_eq 0 0 (Nat.le_refl _) (by unfold U256; exact Nat.two_pow_pos _)]
        rw [this]; omega
      · have : subW 0 0 = 0 := by rw [subW_eq 0 0 (Nat.le_refl _) (by unfold U256; exact Nat.two_pow_pos _)]
        rw [this]; exact Nat.le_refl _
      · exact H256_pos
    | some fe =>
      rw [hfq] at hq; simp only [FeeEntry] at hq
      obtain ⟨h1, h2, h3⟩ := hq
      simp only [Option.getD_some]
      have hle : itm.fee ≤ fe.feeSum := by omega
      rw [subW_eq _ _ hle (by have := two_H256; omega)]
      refine ⟨by omega, by omega, h3⟩
  · rw [upd_other _ _ e]
    have hne : ¬ payerOf itm = q := fun x => e x.symm
    simp only [hne, if_false, Nat.zero_add] at hsum
    cases hfq : f q with
    | none => rw [hfq] at hq; simp only [FeeEntry] at *; omega
    | some fe => rw [hfq] at hq; simp only [FeeEntry] at *; rw [← hsum]; exact hq

theorem confOk_remove {U : Tx → Prop} {L : List Tx} {c : Nat → Option (List Nat)} (hw : WF U) (hL : ListOk U L)
    (hc : ConfOk L c) (itm : Tx) (hm : itm ∈ L) :
    ConfOk (L.filter (fun t => t.id != itm.id)) (removeConflictsOf c itm) := by
  intro h
  unfold removeConflictsOf
  rw [foldl_removeConflict _ _ _ _ (hw.confNodup itm (hL.inU itm hm))]
  have hch := hc h
  by_cases hin : h ∈ itm.conflicts
  · simp only [hin, if_true]
    match hl : c h with
    | none =>
      rw [hl] at hch; simp only [ConfEntry] at hch
      exact absurd hin (hch itm hm)
    | some [] =>
      rw [hl] at hch; simp only [ConfEntry] at hch
      exact absurd rfl hch.1
    | some [x] =>
      rw [hl] at hch; simp only [ConfEntry] at hch
      simp only [stepEntry, ConfEntry]
      intro t ht hht
      have ⟨ht1, ht2⟩ := mem_filter_ne.mp ht
      have h1 : t.id ∈ [x] := (hch.2.2 t.id).mpr ⟨t, ht1, rfl, hht⟩
      have h2 : itm.id ∈ [x] := (hch.2.2 itm.id).mpr ⟨itm, hm, rfl, hin⟩
      simp only [List.mem_singleton] at h1 h2
      exact ht2 (h1.trans h2.symm)
    | some (x :: y :: r) =>
      rw [hl] at hch; simp only [ConfEntry] at hch
      obtain ⟨_, hnd, hmem⟩ := hch
      have hidin : itm.id ∈ x :: y :: r := (hmem itm.id).mpr ⟨itm, hm, rfl, hin⟩
      simp only [stepEntry, hidin, if_true, ConfEntry]
      refine ⟨?_, hnd.erase _, ?_⟩
      · intro he
        have := congrArg List.length he
        rw [List.length_erase_of_mem hidin] at this
        simp at this
      · intro z
        rw [hnd.mem_erase_iff, hmem z]
        constructor
        · intro ⟨hz, t, ht, h1, h2⟩
          exact ⟨t, mem_filter_ne.mpr ⟨ht, by rw [h1]; exact hz⟩, h1, h2⟩
        · intro ⟨t, ht, h1, h2⟩
          have ⟨ht1, ht2⟩ := mem_filter_ne.mp ht
          exact ⟨by rw [← h1]; exact ht2, t, ht1, h1, h2⟩
  · simp only [hin, if_false]
    have key : ∀ t, t ∈ L → h ∈ t.conflicts → t.id ≠ itm.id := by
      intro t ht hht e
      have := hL.idEq hw ht hm e
      subst this; exact hin hht
    cases hl : c h with
    | none =>
      rw [hl] at hch; simp only [ConfEntry] at *
      intro t ht; exact hch t (mem_filter_ne.mp ht).1
    | some l =>
      rw [hl] at hch; simp only [ConfEntry] at *
      refine ⟨hch.1, hch.2.1, ?_⟩
      intro z; rw [hch.2.2 z]
      constructor
      · intro ⟨t, ht, h1, h2⟩
        exact ⟨t, mem_filter_ne.mpr ⟨ht, key t ht h2⟩, h1, h2⟩
      · intro ⟨t, ht, h1, h2⟩
        exact ⟨t, (mem_filter_ne.mp ht).1, h1, h2⟩

theorem removeFromMap_ok {U : Tx → Prop} (hw : WF U) {L : List Tx} (hL : ListOk U L) (mp : Pool)
    (hv : VmapOk L mp.vmap) (hc : ConfOk L mp.conflicts) (ho : OrcOk L mp.oracleResp) (hf : FeesOk L mp.fees)
    (itm : Tx) (hm : itm ∈ L) :
    VmapOk (L.filter (fun t => t.id != itm.id)) (removeFromMap mp itm).vmap ∧
    ConfOk (L.filter (fun t => t.id != itm.id)) (removeFromMap mp itm).conflicts ∧
    OrcOk (L.filter (fun t => t.id != itm.id)) (removeFromMap mp itm).oracleResp ∧
    FeesOk (L.filter (fun t => t.id != itm.id)) (removeFromMap mp itm).fees ∧
    (removeFromMap mp itm).txs = mp.txs ∧ (removeFromMap mp itm).capacity = mp.capacity ∧
    (removeFromMap mp itm).panicked = mp.panicked ∧ (removeFromMap mp itm).feePerByte = mp.feePerByte :=
  ⟨vmapOk_remove hv itm.id, confOk_remove hw hL hc itm hm, orcOk_remove hw hL ho itm hm,
   feesOk_remove hL hf itm hm, rfl, rfl, rfl, rfl⟩

theorem filter_ne_self_of_vmap_none {mp : Pool} (hv : VmapOk mp.txs mp.vmap) {h : Nat} (hn : mp.vmap h = none) :
    mp.txs.filter (fun t => t.id != h) = mp.txs := by
  apply List.filter_eq_self.mpr
  intro a ha
  have : a.id ≠ h := by
    intro e
    have := (hv h a).mpr ⟨ha, e⟩
    rw [hn] at this; cases this
  simpa using this

theorem inv_removeInternal {U : Tx → Prop} (hw : WF U) {mp : Pool} (hi : Inv U mp) (h : Nat) :
    Inv U (removeInternal mp h) ∧ (removeInternal mp h).txs = mp.txs.filter (fun t => t.id != h) ∧
      (removeInternal mp h).capacity = mp.capacity ∧ (removeInternal mp h).feePerByte = mp.feePerByte := by
  unfold removeInternal
  cases hv : mp.vmap h with
  | none => exact ⟨hi, (filter_ne_self_of_vmap_none hi.vmap hv).symm, rfl, rfl⟩
  | some e =>
    obtain ⟨he1, he2⟩ := (hi.vmap h e).mp hv
    obtain ⟨e', h1, h2, h3, h4⟩ := findNum_spec mp.txs h e he1 he2 hi.list.nodup
    simp only [h1]
    obtain ⟨a1, a2, a3, a4, a5, a6, a7, a8⟩ :=
      removeFromMap_ok hw hi.list { mp with txs := mp.txs.eraseIdx (findNum mp.txs h) } hi.vmap hi.conf hi.orc hi.fees e' h2
    rw [h3] at a1 a2 a3 a4
    have htx : (removeFromMap { mp with txs := mp.txs.eraseIdx (findNum mp.txs h) } e').txs
        = mp.txs.filter (fun t => t.id != h) := by rw [a5]; exact h4
    refine ⟨⟨?_, ?_, ?_, ?_, ?_, ?_, ?_⟩, htx, a6, a8⟩
    · rw [a7]; exact hi.noPanic
    · rw [htx, a6]; exact Nat.le_trans (List.length_filter_le _ _) hi.cap
    · rw [htx]; exact hi.list.sublist List.filter_sublist
    · rw [htx]; exact a1
    · rw [htx]; exact a2
    · rw [htx]; exact a3
    · rw [htx]; exact a4

theorem inv_remove {U : Tx → Prop} (hw : WF U) {mp : Pool} (hi : Inv U mp) (h : Nat) : Inv U (remove mp h) :=
  (inv_removeInternal hw hi h).1

/-- `removeAll` removes exactly the listed ids. -/
theorem inv_removeAll {U : Tx → Prop} (hw : WF U) : ∀ (rm : List Tx) {mp : Pool}, Inv U mp →
    Inv U (removeAll mp rm) ∧
      (removeAll mp rm).txs = mp.txs.filter (fun t => !(rm.map (·.id)).contains t.id) ∧
      (removeAll mp rm).capacity = mp.capacity ∧ (removeAll mp rm).feePerByte = mp.feePerByte := by
  intro rm
  induction rm with
  | nil =>
    intro mp hi
    refine ⟨hi, ?_, rfl, rfl⟩
    simp only [removeAll]
    exact (List.filter_eq_self.mpr (by intro a _; simp)).symm
  | cons c cs ih =>
    intro mp hi
    obtain ⟨h1, h2, h3, h4⟩ := inv_removeInternal hw hi c.id
    obtain ⟨g1, g2, g3, g4⟩ := ih h1
    simp only [removeAll]
    refine ⟨g1, ?_, by rw [g3, h3], by rw [g4, h4]⟩
    rw [g2, h2, List.filter_filter]
    congr 1
    funext t
    simp only [List.map_cons, List.contains_cons, Bool.not_or, bne]
    rw [Bool.and_comm]

end NeoModel.Mempool
