/-
Helper lemmas for C04: the frame discipline of the implementation model, for EVERY tree (no
`safe` hypothesis): an execution never touches the layers below the one it started on and never
shortens the notification list below its length at the start.
-/
import NeoModel.Model.Exec
import NeoModel.Proofs.ExecSim
namespace NeoModel.Exec

def Frame (s : ISt) (r : Res ISt) : Prop :=
  match r with
  | .norm s' => s'.below = s.below ∧ s.ev <+: s'.ev
  | .thrown s' => (s'.below = s.below ∧ s.ev <+: s'.ev) ∧ s'.exc = true
  | .fault _ => True

theorem frame_trans {s s1 : ISt} {r} (hb : s1.below = s.below) (hp : s.ev <+: s1.ev) (h : Frame s1 r) : Frame s r := by
  cases r <;> simp only [Frame] at * <;>
    first | exact ⟨h.1.trans hb, hp.trans h.2⟩ | exact ⟨⟨h.1.1.trans hb, hp.trans h.1.2⟩, h.2⟩ | trivial

theorem frame_raise (h : Bool) (s : ISt) : Frame s (raise h s) := by
  unfold raise; split <;> simp [Frame]

theorem frame_end (h hasF : Bool) (rf : ISt → Res ISt) (s : ISt) (hf : ∀ s, Frame s (rf s)) : Frame s (imEnd h hasF rf s) := by
  unfold imEnd
  split
  · have := hf s
    cases hr : rf s with
    | norm s3 =>
      rw [hr] at this
      simp only
      split
      · exact frame_trans this.1 this.2 (frame_raise h s3)
      · exact this
    | thrown s3 => rw [hr] at this; exact this
    | fault s3 => trivial
  · exact ⟨rfl, List.prefix_refl _⟩

theorem frame_finExc (h : Bool) (rf : ISt → Res ISt) (s : ISt) (hf : ∀ s, Frame s (rf s)) : Frame s (imFinExc h rf s) := by
  unfold imFinExc
  have := hf s
  cases hr : rf s with
  | norm s3 =>
    rw [hr] at this
    simp only
    split
    · exact frame_trans this.1 this.2 (frame_raise h s3)
    · trivial
  | thrown s3 => rw [hr] at this; exact this
  | fault s3 => trivial

/-- what the unload callback does to a state whose lower layers are those of the (possibly
    pushed) start state. -/
theorem frame_unload {s s1 : ISt} (wrapped : Bool)
    (hb : s1.below = (if wrapped = true then s.push else s).below) (hp : s.ev <+: s1.ev) :
    (s1.unload wrapped s.ev.length).below = s.below ∧ s.ev <+: (s1.unload wrapped s.ev.length).ev := by
  cases wrapped with
  | false =>
    simp only [Bool.false_eq_true, if_false] at hb
    simp only [ISt.unload, Bool.false_eq_true, if_false]
    exact ⟨hb, hp⟩
  | true =>
    simp only [if_true, ISt.push] at hb
    cases he : s1.exc with
    | true =>
      have hu : s1.unload true s.ev.length = { s1 with top := s.top, below := s.below, ev := s.ev } := by
        simp [ISt.unload, he, ISt.drop, hb, take_prefix hp]
      rw [hu]
      exact ⟨rfl, List.prefix_refl _⟩
    | false =>
      have hu : s1.unload true s.ev.length = { s1 with top := s1.top ++ s.top, below := s.below } := by
        simp [ISt.unload, he, ISt.merge, hb]
      rw [hu]
      exact ⟨rfl, hp⟩

theorem im_frame (t : Tree) : ∀ (x : Ctx) (s : ISt), Frame s (im t x s) := by
  induction t with
  | skip => intro x s; simp [im, Frame]
  | seq a b iha ihb =>
    intro x s
    simp only [im]
    have ha := iha x s
    cases hr : im a x s with
    | norm s1 => rw [hr] at ha; exact frame_trans ha.1 ha.2 (ihb x s1)
    | thrown s1 => rw [hr] at ha; exact ha
    | fault s1 => trivial
  | put k v => intro x s; simp only [im]; split <;> simp [Frame]
  | del k => intro x s; simp only [im]; split <;> simp [Frame]
  | notify e =>
    intro x s; simp only [im]
    split
    · split <;> simp [Frame]
    · trivial
  | ifp k body ih =>
    intro x s
    simp only [im]
    split
    · split
      · exact ih x s
      · exact ⟨rfl, List.prefix_refl _⟩
    · trivial
  | loc body ih => intro x s; simp only [im]; exact ih x s
  | throw => intro x s; simp only [im]; exact frame_raise _ _
  | abort => intro x s; simp [im, Frame]
  | call c' fl body ih =>
    intro x s
    simp only [im]
    split
    · generalize (x.inTry && (x.f.and fl).mut) = wrapped
      have hev0 : (if wrapped = true then s.push else s).ev = s.ev := by split <;> simp [ISt.push]
      have hb := ih ⟨c', x.f.and fl, false, x.h⟩ (if wrapped = true then s.push else s)
      cases hr : im body ⟨c', x.f.and fl, false, x.h⟩ (if wrapped = true then s.push else s) with
      | norm s1 =>
        rw [hr] at hb
        simp only [Frame] at hb
        rw [hev0] at hb
        exact frame_unload wrapped hb.1 hb.2
      | thrown s1 =>
        rw [hr] at hb
        simp only [Frame] at hb
        rw [hev0] at hb
        refine ⟨frame_unload wrapped hb.1.1 hb.1.2, ?_⟩
        simp only [ISt.unload]
        split
        · simp only [hb.2, if_true, ISt.drop]; split <;> rfl
        · exact hb.2
      | fault s1 => trivial
    · trivial
  | try_ body hasC cat hasF fin ihb ihc ihf =>
    intro x s
    simp only [im]
    split
    · trivial
    · have hb := ihb { x with inTry := true, h := true } s
      cases hr : im body { x with inTry := true, h := true } s with
      | norm s1 => rw [hr] at hb; exact frame_trans hb.1 hb.2 (frame_end _ _ _ _ (fun s => ihf x s))
      | thrown s1 =>
        rw [hr] at hb
        have hb := hb.1
        simp only
        split
        · have hc := ihc { x with inTry := x.inTry || hasF, h := x.h || hasF } { s1 with exc := false }
          cases hrc : im cat { x with inTry := x.inTry || hasF, h := x.h || hasF } { s1 with exc := false } with
          | norm s2 =>
            rw [hrc] at hc
            exact frame_trans (hc.1.trans hb.1) (hb.2.trans hc.2) (frame_end _ _ _ _ (fun s => ihf x s))
          | thrown s2 =>
            rw [hrc] at hc
            simp only
            split
            · exact frame_trans (hc.1.1.trans hb.1) (hb.2.trans hc.1.2) (frame_finExc _ _ _ (fun s => ihf x s))
            · exact ⟨⟨hc.1.1.trans hb.1, hb.2.trans hc.1.2⟩, hc.2⟩
          | fault s2 => trivial
        · exact frame_trans hb.1 hb.2 (frame_finExc _ _ _ (fun s => ihf x s))
      | fault s1 => trivial
  | native inner o fl cb k ih ihk =>
    intro x s
    simp only [im]
    split
    · generalize (if inner = true then x.f else x.f.and fl) = f'
      generalize (!inner && x.inTry && f'.mut) = wrapped
      have hev0 : (if wrapped = true then s.push else s).ev = s.ev := by split <;> simp [ISt.push]
      generalize hs0 : (if wrapped = true then s.push else s) = s0 at *
      cases natStep o x.c f' s0.view.get with
      | none => trivial
      | some out =>
        simp only
        have hp1 : s.ev <+: s0.ev ++ out.evs := by rw [hev0]; exact List.prefix_append _ _
        have tail : ∀ (s2 : ISt), s2.below = s0.below → s.ev <+: s2.ev →
            Frame s (match im k ⟨x.c, f', false, x.h⟩ s2 with
              | .norm s3 => .norm (s3.unload wrapped s.ev.length)
              | .thrown s3 => .fault s3
              | .fault s3 => .fault s3) := by
          intro s2 b2 p2
          have hk := ihk ⟨x.c, f', false, x.h⟩ s2
          cases hrk : im k ⟨x.c, f', false, x.h⟩ s2 with
          | norm s3 =>
            rw [hrk] at hk
            exact frame_unload (s := s) wrapped (by rw [hs0]; exact hk.1.trans b2) (p2.trans hk.2)
          | thrown s3 => trivial
          | fault s3 => trivial
        simp only [imPhase]
        by_cases hlim : maxNotifications < (s0.ev ++ out.evs).length
        · simp only [hlim, if_true]; trivial
        simp only [hlim, if_false]
        cases out.cb with
        | none => simp only; exact tail _ rfl hp1
        | some to =>
          simp only
          by_cases hab : out.cbAbort = true
          · simp only [hab, if_true]; trivial
          simp only [hab, if_false, Bool.false_eq_true]
          have hb := ih ⟨to, f', false, x.h⟩ { s0 with top := out.ws ++ s0.top, ev := s0.ev ++ out.evs }
          cases hr : im cb ⟨to, f', false, x.h⟩ { s0 with top := out.ws ++ s0.top, ev := s0.ev ++ out.evs } with
          | norm s2 =>
            rw [hr] at hb
            simp only
            by_cases he : s2.exc = true
            · simp only [he, if_true]; trivial
            · simp only [he, if_false, Bool.false_eq_true]; exact tail s2 hb.1 (hp1.trans hb.2)
          | thrown s2 => trivial
          | fault s2 => trivial
    · trivial

end NeoModel.Exec
