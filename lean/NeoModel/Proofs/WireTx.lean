/-
C17 — lawfulness of the transaction-level codecs, by composition of the combinator lemmas (WireCodec.lean).
-/
import NeoModel.Model.Wire.Tx
import NeoModel.Proofs.WireCodec
namespace NeoModel.Wire
open Codec
open NeoModel.Generated

/-! ### small primitives -/

theorem boolC_lawful : boolC.Lawful where
  roundtrip v r _ := by cases v <;> simp [boolC]
  dec_wf _ _ _ _ := trivial
  dec_suffix b v r h := by
    cases b with
    | nil => simp [boolC] at h
    | cons x xs => simp [boolC] at h; exact ⟨[x], by simp [h.2]⟩
  size_eq v _ := by simp [boolC]
  alloc_ok _ _ _ _ := by simp [boolC]
  alloc_fail _ _ := by simp [boolC]

theorem boolC_strict : boolC.Strict := by
  intro b v r h
  cases b with
  | nil => simp [boolC] at h
  | cons x xs => simp [boolC] at h; simp [← h.2]

theorem compressKey_shape (x y : Bytes) : ∃ p, compressKey x y = p :: x ∧ (p = 2 ∨ p = 3) := by
  unfold compressKey
  split
  · exact ⟨3, rfl, Or.inr rfl⟩
  · exact ⟨2, rfl, Or.inl rfl⟩

theorem pubKeyC_lawful (cv : Curve) (hs : cv.Sound) : (pubKeyC cv).Lawful where
  roundtrip k r hw := by
    obtain ⟨p, x, hk, hp, hx, hv⟩ := hw
    subst hk
    simp only [pubKeyC, List.cons_append, hp, if_true]
    have := takeN_append x r
    rw [hx] at this
    rw [this]; simp [hv]
  dec_wf b k r hd := by
    cases b with
    | nil => simp [pubKeyC] at hd
    | cons p rest =>
      simp only [pubKeyC] at hd ⊢
      split at hd
      · rename_i hp
        split at hd
        · simp at hd
        · rename_i x r' hx
          split at hd
          · rename_i hv
            simp at hd
            exact ⟨p, x, hd.1.symm, hp, (takeN_some hx).1, by rw [← hd.1]; exact hv⟩
          · simp at hd
      · split at hd
        · split at hd
          · simp at hd
          · rename_i x r₁ hx
            split at hd
            · simp at hd
            · rename_i y r₂ hy
              split at hd
              · rename_i hv
                simp at hd
                obtain ⟨q, hq, hq2⟩ := compressKey_shape x y
                refine ⟨q, x, by rw [← hd.1]; exact hq, hq2, (takeN_some hx).1, ?_⟩
                rw [← hd.1]; exact hs x y (takeN_some hx).1 (takeN_some hy).1 hv
              · simp at hd
        · simp at hd
  dec_suffix b k r hd := by
    cases b with
    | nil => simp [pubKeyC] at hd
    | cons p rest =>
      simp only [pubKeyC] at hd
      split at hd
      · split at hd
        · simp at hd
        · rename_i x r' hx
          split at hd
          · simp at hd
            exact ⟨p :: x, by rw [(takeN_some hx).2, hd.2]; simp⟩
          · simp at hd
      · split at hd
        · split at hd
          · simp at hd
          · rename_i x r₁ hx
            split at hd
            · simp at hd
            · rename_i y r₂ hy
              split at hd
              · simp at hd
                exact ⟨p :: (x ++ y), by rw [(takeN_some hx).2, (takeN_some hy).2, hd.2]; simp⟩
              · simp at hd
        · simp at hd
  size_eq k hw := by
    obtain ⟨p, x, hk, _, hx, _⟩ := hw
    subst hk; simp [pubKeyC, hx]
  alloc_ok _ _ _ _ := by simp [pubKeyC]
  alloc_fail _ _ := by simp [pubKeyC]

theorem pubKeyC_strict (cv : Curve) (hs : cv.Sound) : (pubKeyC cv).Strict := by
  intro b k r hd
  obtain ⟨p, hp⟩ := (pubKeyC_lawful cv hs).dec_suffix b k r hd
  have hw := (pubKeyC_lawful cv hs).dec_wf b k r hd
  cases b with
  | nil => simp [pubKeyC] at hd
  | cons q rest =>
    simp only [pubKeyC] at hd
    split at hd
    · split at hd
      · simp at hd
      · rename_i x r' hx
        split at hd
        · simp at hd; rw [← hd.2]; have := (takeN_some hx).2; rw [this]; simp; omega
        · simp at hd
    · split at hd
      · split at hd
        · simp at hd
        · rename_i x r₁ hx
          split at hd
          · simp at hd
          · rename_i y r₂ hy
            split at hd
            · simp at hd; rw [← hd.2, (takeN_some hx).2, (takeN_some hy).2]; simp; omega
            · simp at hd
      · simp at hd

/-! ### witness -/

theorem witnessC_lawful : witnessC.Lawful :=
  map_lawful (seq_lawful (varBytes_lawful _) (varBytes_lawful _)) (fun _ _ => rfl)

theorem witnessC_strict : witnessC.Strict :=
  map_strict (seq_strict_left (varBytes_strict _) (varBytes_lawful _))

/-! ### witness conditions (depth-bounded) -/

theorem condBr_facts (cv : Curve) (hs : cv.Sound) {inner : Codec Cond} (hl : inner.Lawful) (hst : inner.Strict)
    (t : UInt8) : (condBr cv inner t).Lawful
      ∧ (condBr cv inner t).allocK ≤ WireLimits.slotCondition + inner.allocK
      ∧ (condBr cv inner t).allocC ≤ WireLimits.maxSubitems * WireLimits.slotCondition + inner.allocC := by
  have hlist : (condListC inner).Lawful := refine_lawful (array_lawful hl hst)
  unfold condBr
  split
  · exact ⟨map_lawful boolC_lawful (fun _ _ => rfl), by simp [map, boolC], by simp [map, boolC]⟩
  · split
    · exact ⟨map_lawful hl (fun _ _ => rfl), by simp only [map]; omega, by simp only [map]; omega⟩
    · split
      · exact ⟨map_lawful hlist (fun _ _ => rfl), by simp only [map, condListC, refine, array]; omega,
          by simp only [map, condListC, refine, array]; omega⟩
      · split
        · exact ⟨map_lawful hlist (fun _ _ => rfl), by simp only [map, condListC, refine, array]; omega,
            by simp only [map, condListC, refine, array]; omega⟩
        · split
          · exact ⟨map_lawful (fixed_lawful 20) (fun _ _ => rfl), by simp [map, fixed], by simp [map, fixed]⟩
          · split
            · exact ⟨map_lawful (pubKeyC_lawful cv hs) (fun _ _ => rfl), by simp [map, pubKeyC], by simp [map, pubKeyC]⟩
            · split
              · exact ⟨map_lawful (const_lawful ()) (fun _ _ => rfl), by simp [map, const], by simp [map, const]⟩
              · split
                · exact ⟨map_lawful (fixed_lawful 20) (fun _ _ => rfl), by simp [map, fixed], by simp [map, fixed]⟩
                · split
                  · exact ⟨map_lawful (pubKeyC_lawful cv hs) (fun _ _ => rfl), by simp [map, pubKeyC], by simp [map, pubKeyC]⟩
                  · exact ⟨fail_lawful _, by simp [fail], by simp [fail]⟩

theorem condC_facts (cv : Curve) (hs : cv.Sound) : ∀ d,
    (condC cv d).Lawful ∧ (condC cv d).Strict ∧ (condC cv d).allocK = condK d ∧ (condC cv d).allocC = condCap d := by
  intro d
  induction d with
  | zero =>
    refine ⟨fail_lawful _, ?_, by simp [condC, fail, condK], by simp [condC, fail, condCap]⟩
    intro b v r h; simp [condC, fail] at h
  | succ d ih =>
    obtain ⟨hl, hst, hk, hc⟩ := ih
    have hbr := condBr_facts cv hs hl hst
    refine ⟨tagged_lawful (fun t => (hbr t).1) (fun t => ?_) (fun t => ?_),
      tagged_strict (fun t => (hbr t).1), rfl, rfl⟩
    · have := (hbr t).2.1; rw [hk] at this; simp only [condK, Nat.succ_mul] at this ⊢; omega
    · have := (hbr t).2.2; rw [hc] at this; simp only [condCap, Nat.succ_mul] at this ⊢; omega

theorem condC_lawful (cv : Curve) (hs : cv.Sound) (d : Nat) : (condC cv d).Lawful := (condC_facts cv hs d).1
theorem condC_strict (cv : Curve) (hs : cv.Sound) (d : Nat) : (condC cv d).Strict := (condC_facts cv hs d).2.1


/-! ### witness rule, signer -/

theorem ruleC_lawful (cv : Curve) (hs : cv.Sound) : (ruleC cv).Lawful :=
  map_lawful (seq_lawful (refine_lawful byte_lawful) (condC_lawful cv hs _)) (fun _ _ => rfl)

theorem ruleC_strict (cv : Curve) (hs : cv.Sound) : (ruleC cv).Strict :=
  map_strict (seq_strict_left (refine_strict byte_strict) (condC_lawful cv hs _))

theorem optArray_lawful {present : Bool} {slot : Nat} {c : Codec α} (h : c.Lawful) (s : c.Strict) :
    (optArray present slot c).Lawful := by
  unfold optArray; split
  · exact array_lawful h s
  · exact const_lawful _

theorem optArray_K {present : Bool} {slot : Nat} {c : Codec α} :
    (optArray present slot c).allocK ≤ slot + c.allocK := by
  unfold optArray; split <;> simp [array, const]

theorem optArray_C {present : Bool} {slot : Nat} {c : Codec α} :
    (optArray present slot c).allocC ≤ WireLimits.maxSubitems * slot + c.allocC := by
  unfold optArray; split <;> simp [array, const]

theorem seq_allocK (c₁ : Codec α) (c₂ : Codec β) : (seq c₁ c₂).allocK = Nat.max c₁.allocK c₂.allocK := rfl
theorem seq_allocC (c₁ : Codec α) (c₂ : Codec β) : (seq c₁ c₂).allocC = Nat.max c₁.allocC c₂.allocC := rfl

theorem max3_le {a b c A B C : Nat} (h1 : a ≤ A) (h2 : b ≤ B) (h3 : c ≤ C) :
    Nat.max a (Nat.max b c) ≤ Nat.max A (Nat.max B C) := by
  simp only [Nat.max_def]
  split <;> split <;> split <;> split <;> omega

theorem signerBody_facts (cv : Curve) (hs : cv.Sound) (sc : UInt8) :
    (signerBody cv sc).Lawful ∧ (signerBody cv sc).allocK ≤ signerK cv ∧ (signerBody cv sc).allocC ≤ signerCap cv := by
  refine ⟨seq_lawful (optArray_lawful (fixed_lawful 20) (fixed_strict 20 (by decide)))
    (seq_lawful (optArray_lawful (pubKeyC_lawful cv hs) (pubKeyC_strict cv hs))
      (optArray_lawful (ruleC_lawful cv hs) (ruleC_strict cv hs))), ?_, ?_⟩
  · simp only [signerBody, seq_allocK, signerK]
    exact max3_le optArray_K optArray_K optArray_K
  · simp only [signerBody, seq_allocC, signerCap]
    exact max3_le optArray_C optArray_C optArray_C

theorem signerC_lawful (cv : Curve) (hs : cv.Sound) : (signerC cv).Lawful :=
  map_lawful (bind_lawful (seq_lawful (fixed_lawful 20) (refine_lawful byte_lawful))
    (fun p => (signerBody_facts cv hs p.2).1) (fun p => (signerBody_facts cv hs p.2).2.1)
    (fun p => (signerBody_facts cv hs p.2).2.2)) (fun _ _ => rfl)

theorem signerC_strict (cv : Curve) (hs : cv.Sound) : (signerC cv).Strict :=
  map_strict (bind_strict_left (seq_strict_left (fixed_strict 20 (by decide)) (refine_lawful byte_lawful))
    (fun p => (signerBody_facts cv hs p.2).1))


/-! ### transaction attributes -/

theorem oracleC_lawful : oracleC.Lawful :=
  map_lawful (refine_lawful (seq_lawful (uintLE_lawful 8) (seq_lawful (refine_lawful byte_lawful) (varBytes_lawful _))))
    (fun _ _ => rfl)

theorem attrBody_facts (t : UInt8) : (attrBody t).Lawful ∧ (attrBody t).allocK ≤ 1 ∧ (attrBody t).allocC ≤ attrCap := by
  unfold attrBody
  split
  · exact ⟨map_lawful (const_lawful ()) (fun _ _ => rfl), by simp [map, const], by simp [map, const]⟩
  · split
    · refine ⟨oracleC_lawful, ?_, ?_⟩
      · simp [oracleC, map, refine, seq_allocK, uintLE, byte, varBytes]
      · simp only [oracleC, map, refine, seq_allocC, uintLE, byte, varBytes, attrCap]
        simp only [Nat.max_def]; split <;> split <;> omega
    · split
      · exact ⟨map_lawful (uintLE_lawful 4) (fun _ _ => rfl), by simp [map, uintLE], by simp [map, uintLE]⟩
      · split
        · exact ⟨map_lawful (fixed_lawful 32) (fun _ _ => rfl), by simp [map, fixed], by simp [map, fixed]⟩
        · split
          · exact ⟨map_lawful byte_lawful (fun _ _ => rfl), by simp [map, byte], by simp [map, byte]⟩
          · split
            · exact ⟨map_lawful (varBytes_lawful _) (fun _ _ => rfl), by simp [map, varBytes],
                by simp only [map, varBytes, attrCap]; exact Nat.le_max_right _ _⟩
            · exact ⟨fail_lawful _, by simp [fail], by simp [fail]⟩

theorem attrC_lawful : attrC.Lawful :=
  tagged_lawful (fun t => map_lawful (attrBody_facts t).1 (fun _ _ => rfl))
    (fun t => (attrBody_facts t).2.1) (fun t => (attrBody_facts t).2.2)

theorem attrC_strict : attrC.Strict :=
  tagged_strict (fun t => map_lawful (attrBody_facts t).1 (fun _ _ => rfl))

/-! ### transaction -/

theorem txFixedC_lawful : txFixedC.Lawful :=
  seq_lawful byte_lawful (seq_lawful (uintLE_lawful 4) (seq_lawful (uintLE_lawful 8)
    (seq_lawful (uintLE_lawful 8) (uintLE_lawful 4))))

theorem txTailC_facts (ns : Nat) : (txTailC ns).Lawful ∧ (txTailC ns).allocK ≤ txTailK ∧ (txTailC ns).allocC ≤ txTailCap := by
  refine ⟨seq_lawful (array_lawful attrC_lawful attrC_strict) (varBytes_lawful _), Nat.le_refl _, ?_⟩
  simp only [txTailC, seq_allocC, txTailCap, array, varBytes]
  have : (WireLimits.maxAttributes - ns) * WireLimits.slotAttribute ≤ WireLimits.maxAttributes * WireLimits.slotAttribute :=
    Nat.mul_le_mul_right _ (Nat.sub_le _ _)
  simp only [Nat.max_def]; split <;> split <;> omega

theorem signersC_lawful (cv : Curve) (hs : cv.Sound) : (signersC cv).Lawful :=
  refine_lawful (array_lawful (signerC_lawful cv hs) (signerC_strict cv hs))

theorem txBodyC_lawful (cv : Curve) (hs : cv.Sound) : (txBodyC cv).Lawful :=
  refine_lawful (map_lawful (bind_lawful (seq_lawful txFixedC_lawful (signersC_lawful cv hs))
    (fun p => (txTailC_facts p.2.length).1) (fun p => (txTailC_facts p.2.length).2.1)
    (fun p => (txTailC_facts p.2.length).2.2)) (fun _ _ => rfl))

theorem txC_lawful (cv : Curve) (hs : cv.Sound) : (txC cv).Lawful :=
  map_lawful (bind_lawful (txBodyC_lawful cv hs)
    (fun _ => refine_lawful (array_lawful witnessC_lawful witnessC_strict))
    (fun _ => Nat.le_refl _) (fun _ => Nat.le_refl _)) (fun _ _ => rfl)

theorem txC_strict (cv : Curve) (hs : cv.Sound) : (txC cv).Strict :=
  map_strict (bind_strict_left (refine_strict (map_strict (bind_strict_left
    (seq_strict_left (seq_strict_left byte_strict (seq_lawful (uintLE_lawful 4) (seq_lawful (uintLE_lawful 8)
      (seq_lawful (uintLE_lawful 8) (uintLE_lawful 4))))) (signersC_lawful cv hs))
    (fun p => (txTailC_facts p.2.length).1))))
    (fun _ => refine_lawful (array_lawful witnessC_lawful witnessC_strict)))

/-! #### identity and size of a transaction along the two decoding paths -/

/-! ### header, block, state root, extensible payload -/

theorem srRoot_lawful (sr : Bool) : (if sr then fixed 32 else const ([] : Bytes)).Lawful := by
  split
  · exact fixed_lawful 32
  · exact const_lawful _

theorem headerHashableC_lawful (sr : Bool) : (headerHashableC sr).Lawful :=
  seq_lawful (uintLE_lawful 4) (seq_lawful (fixed_lawful 32) (seq_lawful (fixed_lawful 32)
    (seq_lawful (uintLE_lawful 8) (seq_lawful (uintLE_lawful 8) (seq_lawful (uintLE_lawful 4)
      (seq_lawful byte_lawful (seq_lawful (fixed_lawful 20) (srRoot_lawful sr))))))))

theorem headerC_lawful (sr : Bool) : (headerC sr).Lawful :=
  map_lawful (seq_lawful (headerHashableC_lawful sr) (seq_lawful (refine_lawful varUint_lawful) witnessC_lawful))
    (by
      intro a hw
      obtain ⟨_, ⟨_, hn⟩, _⟩ := hw
      simp only [beq_iff_eq] at hn
      obtain ⟨a1, a2, a3⟩ := a
      simp only at hn
      subst hn; rfl)

theorem headerC_strict (sr : Bool) : (headerC sr).Strict := by
  have h1 : (headerHashableC sr).Strict :=
    seq_strict_left (uintLE_strict 4 (by decide))
      (seq_lawful (fixed_lawful 32) (seq_lawful (fixed_lawful 32)
        (seq_lawful (uintLE_lawful 8) (seq_lawful (uintLE_lawful 8) (seq_lawful (uintLE_lawful 4)
          (seq_lawful byte_lawful (seq_lawful (fixed_lawful 20) (srRoot_lawful sr))))))))
  exact map_strict (seq_strict_left h1 (seq_lawful (refine_lawful varUint_lawful) witnessC_lawful))

theorem blockC_lawful (cv : Curve) (hs : cv.Sound) (sr : Bool) : (blockC cv sr).Lawful :=
  map_lawful (seq_lawful (headerC_lawful sr) (array_lawful (txC_lawful cv hs) (txC_strict cv hs))) (fun _ _ => rfl)

theorem stateRootC_lawful : stateRootC.Lawful :=
  map_lawful (seq_lawful byte_lawful (seq_lawful (uintLE_lawful 4) (seq_lawful (fixed_lawful 32)
    (array_lawful witnessC_lawful witnessC_strict)))) (fun _ _ => rfl)

theorem extensibleC_lawful : extensibleC.Lawful :=
  map_lawful (seq_lawful (varBytes_lawful _) (seq_lawful (uintLE_lawful 4) (seq_lawful (uintLE_lawful 4)
    (seq_lawful (fixed_lawful 20) (seq_lawful (varBytes_lawful _)
      (seq_lawful (refine_lawful byte_lawful) witnessC_lawful))))))
    (by
      intro a hw
      obtain ⟨_, _, _, _, _, ⟨_, hn⟩, _⟩ := hw
      simp only [beq_iff_eq] at hn
      obtain ⟨a1, a2, a3, a4, a5, a6, a7⟩ := a
      simp only at hn
      subst hn; rfl)

section
variable {α β : Type}
theorem map_allocK (c : Codec α) (f : α → β) (g : β → α) : (map c f g).allocK = c.allocK := rfl
theorem map_allocC (c : Codec α) (f : α → β) (g : β → α) : (map c f g).allocC = c.allocC := rfl
theorem refine_allocK (c : Codec α) (p : α → Bool) : (refine c p).allocK = c.allocK := rfl
theorem refine_allocC (c : Codec α) (p : α → Bool) : (refine c p).allocC = c.allocC := rfl
theorem bind_allocK (c : Codec α) (f : α → Codec β) (K C : Nat) : (Codec.bind c f K C).allocK = Nat.max c.allocK K := rfl
theorem bind_allocC (c : Codec α) (f : α → Codec β) (K C : Nat) : (Codec.bind c f K C).allocC = Nat.max c.allocC C := rfl
theorem tagged_allocK (t : α → UInt8) (br : UInt8 → Codec α) (K C : Nat) : (tagged t br K C).allocK = K := rfl
theorem tagged_allocC (t : α → UInt8) (br : UInt8 → Codec α) (K C : Nat) : (tagged t br K C).allocC = C := rfl
theorem array_allocK (m s : Nat) (c : Codec α) : (array m s c).allocK = s + c.allocK := rfl
theorem array_allocC (m s : Nat) (c : Codec α) : (array m s c).allocC = m * s + c.allocC := rfl
theorem varBytes_allocK (m : Nat) : (varBytes m).allocK = 1 := rfl
theorem varBytes_allocC (m : Nat) : (varBytes m).allocC = m := rfl
theorem fixed_allocK (n : Nat) : (fixed n).allocK = 0 := rfl
theorem fixed_allocC (n : Nat) : (fixed n).allocC = 0 := rfl
theorem uintLE_allocK (n : Nat) : (uintLE n).allocK = 0 := rfl
theorem uintLE_allocC (n : Nat) : (uintLE n).allocC = 0 := rfl
theorem byte_allocK : byte.allocK = 0 := rfl
theorem byte_allocC : byte.allocC = 0 := rfl
theorem varUint_allocK : varUint.allocK = 0 := rfl
theorem varUint_allocC : varUint.allocC = 0 := rfl
theorem pubKeyC_allocK (cv : Curve) : (pubKeyC cv).allocK = 0 := rfl
theorem pubKeyC_allocC (cv : Curve) : (pubKeyC cv).allocC = 0 := rfl
theorem condC_allocK (cv : Curve) (d : Nat) : (condC cv d).allocK = condK d := by
  cases d <;> simp [condC, fail, condK, tagged]
theorem condC_allocC (cv : Curve) (d : Nat) : (condC cv d).allocC = condCap d := by
  cases d <;> simp [condC, fail, condCap, tagged]
end


/-- the per-byte allocation constant of the transaction decoder, from the regenerated element sizes. -/
theorem txC_allocK_le (cv : Curve) : (txC cv).allocK ≤ 256 := by
  simp only [txC, txBodyC, signersC, signerC, ruleC, witnessC, txFixedC, attrC, signerK, txTailK,
    map_allocK, refine_allocK, bind_allocK, seq_allocK, tagged_allocK, array_allocK, varBytes_allocK, fixed_allocK,
    uintLE_allocK, byte_allocK, pubKeyC_allocK, condC_allocK, condK]
  decide

/-- the constant part of the allocation bound of the transaction decoder, from the regenerated caps. -/
theorem txC_allocC_le (cv : Curve) : (txC cv).allocC ≤ 2 * WireLimits.maxArraySize := by
  simp only [txC, txBodyC, signersC, signerC, ruleC, witnessC, txFixedC, attrC, signerCap, txTailCap, attrCap,
    map_allocC, refine_allocC, bind_allocC, seq_allocC, tagged_allocC, array_allocC, varBytes_allocC, fixed_allocC,
    uintLE_allocC, byte_allocC, pubKeyC_allocC, condC_allocC, condCap]
  decide

end NeoModel.Wire
