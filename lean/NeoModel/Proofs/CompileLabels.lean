/-
CompileLabels — the label marks emitted by the compiler are fresh (distinct, from the counter range consumed), the
output of `compProg` has unique marks and contains the code of every function (`progCode_compProg`), and the
invocation of a function from outside halts with its result (`entry_halt`).
-/
import NeoModel.Proofs.CompileAll
namespace NeoModel.CompileProofs
open NeoModel.MiniVm NeoModel.MiniVm.Asm NeoModel.MiniGo NeoModel.Compile

/-- the label marks of `c` are distinct and lie in [lo, hi). -/
def LabelsIn (c : Code) (lo hi : Nat) : Prop := (∀ l ∈ labelsOf c, lo ≤ l ∧ l < hi) ∧ (labelsOf c).Nodup

theorem labelsIn_nil (lo hi : Nat) : LabelsIn [] lo hi := ⟨by simp [labelsOf], by simp [labelsOf]⟩

theorem labelsIn_ins (op : Op Nat) (lo hi : Nat) : LabelsIn [.ins op] lo hi := ⟨by simp [labelsOf], by simp [labelsOf]⟩

theorem labelsIn_lbl {l lo hi : Nat} (h1 : lo ≤ l) (h2 : l < hi) : LabelsIn [.lbl l] lo hi :=
  ⟨by simp [labelsOf]; exact ⟨h1, h2⟩, by simp [labelsOf]⟩

theorem LabelsIn.mono {c : Code} {lo hi lo' hi' : Nat} (h : LabelsIn c lo hi) (h1 : lo' ≤ lo) (h2 : hi ≤ hi') : LabelsIn c lo' hi' :=
  ⟨fun l hl => ⟨Nat.le_trans h1 (h.1 l hl).1, Nat.lt_of_lt_of_le (h.1 l hl).2 h2⟩, h.2⟩

/-- codes with adjacent label ranges. -/
theorem LabelsIn.append {a b : Code} {lo mid hi : Nat} (ha : LabelsIn a lo mid) (hb : LabelsIn b mid hi)
    (h1 : lo ≤ mid) (h2 : mid ≤ hi) : LabelsIn (a ++ b) lo hi := by
  refine ⟨?_, ?_⟩
  · intro l hl
    rw [labelsOf_append] at hl
    rcases List.mem_append.mp hl with h | h
    · exact ⟨(ha.1 l h).1, Nat.lt_of_lt_of_le (ha.1 l h).2 h2⟩
    · exact ⟨Nat.le_trans h1 (hb.1 l h).1, (hb.1 l h).2⟩
  · rw [labelsOf_append]
    refine List.nodup_append.mpr ⟨ha.2, hb.2, ?_⟩
    intro x hx y hy hxy
    subst hxy
    have := (ha.1 x hx).2
    have := (hb.1 x hy).1
    omega

/-- a mark in front / behind whose label is outside the range of the rest. -/
theorem LabelsIn.snoc_lbl {a : Code} {l lo hi lo' hi' : Nat} (ha : LabelsIn a lo hi) (hout : l < lo ∨ hi ≤ l)
    (h1 : lo' ≤ lo) (h2 : hi ≤ hi') (h3 : lo' ≤ l) (h4 : l < hi') : LabelsIn (a ++ [.lbl l]) lo' hi' := by
  refine ⟨?_, ?_⟩
  · intro x hx
    rw [labelsOf_append] at hx
    rcases List.mem_append.mp hx with h | h
    · exact ⟨Nat.le_trans h1 (ha.1 x h).1, Nat.lt_of_lt_of_le (ha.1 x h).2 h2⟩
    · simp [labelsOf] at h; subst h; exact ⟨h3, h4⟩
  · rw [labelsOf_append]
    refine List.nodup_append.mpr ⟨ha.2, by simp [labelsOf], ?_⟩
    intro x hx y hy hxy
    simp [labelsOf] at hy
    subst hxy; subst hy
    have := ha.1 _ hx
    omega

theorem withMode_labels {m : Mode} {c : Code} {lo hi : Nat} (h : LabelsIn c lo hi) : LabelsIn (withMode m c) lo hi := by
  cases m with
  | val => exact h
  | jump cond t =>
    simp only [withMode]
    refine ⟨?_, ?_⟩
    · intro l hl
      rw [labelsOf_append] at hl
      cases cond <;> simp [jumpOn, labelsOf] at hl <;> exact h.1 l hl
    · rw [labelsOf_append]
      cases cond <;> simp [jumpOn, labelsOf] <;> exact h.2

/-- `LabelsIn` only looks at the marks: instructions can be added freely. -/
theorem LabelsIn.append_ins {a : Code} {lo hi : Nat} (ha : LabelsIn a lo hi) (ops : List (Op Nat)) :
    LabelsIn (a ++ ops.map Item.ins) lo hi := by
  have : labelsOf (ops.map Item.ins) = [] := by
    induction ops with
    | nil => rfl
    | cons o r ih => simp [labelsOf, ih]
  refine ⟨?_, ?_⟩ <;> rw [labelsOf_append, this] <;> simp
  · exact ha.1
  · exact ha.2

theorem LabelsIn.ins_append {a : Code} {lo hi : Nat} (ha : LabelsIn a lo hi) (ops : List (Op Nat)) :
    LabelsIn (ops.map Item.ins ++ a) lo hi := by
  have : labelsOf (ops.map Item.ins) = [] := by
    induction ops with
    | nil => rfl
    | cons o r ih => simp [labelsOf, ih]
  refine ⟨?_, ?_⟩ <;> rw [labelsOf_append, this] <;> simp
  · exact ha.1
  · exact ha.2

end NeoModel.CompileProofs

namespace NeoModel.CompileProofs
open NeoModel.MiniVm NeoModel.MiniVm.Asm NeoModel.MiniGo NeoModel.Compile

theorem loadVar_labels (cx : Ctx) (sc : Scopes) (x : String) (lo hi : Nat) : LabelsIn (loadVar cx sc x) lo hi := by
  unfold loadVar
  split
  · exact labelsIn_ins _ _ _
  · split <;> exact labelsIn_ins _ _ _

theorem storeVar_labels (cx : Ctx) (sc : Scopes) (x : String) (lo hi : Nat) : LabelsIn (storeVar cx sc x) lo hi := by
  unfold storeVar
  split
  · exact labelsIn_ins _ _ _
  · split <;> exact labelsIn_ins _ _ _

theorem labelsIn_one_more {c : Code} {lo hi : Nat} (h : LabelsIn c lo hi) (op : Op Nat) : LabelsIn (c ++ [.ins op]) lo hi := by
  simpa using h.append_ins [op]

theorem labelsIn_two_more {c : Code} {lo hi : Nat} (h : LabelsIn c lo hi) (op1 op2 : Op Nat) :
    LabelsIn (c ++ [.ins op1, .ins op2]) lo hi := by
  simpa using h.append_ins [op1, op2]

/-- the marks that `compE` emits are fresh: distinct, taken from the counter range it consumes. -/
theorem compE_labels (cx : Ctx) (sc : Scopes) : ∀ (e : Expr) (m : Mode) (nl : Nat),
    nl ≤ (compE cx sc e m nl).2 ∧ LabelsIn (compE cx sc e m nl).1 nl (compE cx sc e m nl).2 := by
  intro e
  induction e with
  | lit n => intro m nl; simp only [compE]; exact ⟨Nat.le_refl _, withMode_labels (labelsIn_ins _ _ _)⟩
  | tt => intro m nl; simp only [compE]; exact ⟨Nat.le_refl _, withMode_labels (labelsIn_ins _ _ _)⟩
  | ff => intro m nl; simp only [compE]; exact ⟨Nat.le_refl _, withMode_labels (labelsIn_ins _ _ _)⟩
  | var x => intro m nl; simp only [compE]; exact ⟨Nat.le_refl _, withMode_labels (loadVar_labels _ _ _ _ _)⟩
  | paren e ih => intro m nl; simp only [compE]; exact ⟨(ih .val nl).1, withMode_labels (ih .val nl).2⟩
  | neg e ih => intro m nl; simp only [compE]; exact ⟨(ih .val nl).1, withMode_labels (labelsIn_one_more (ih .val nl).2 _)⟩
  | not e ih => intro m nl; simp only [compE]; exact ⟨(ih .val nl).1, withMode_labels (labelsIn_one_more (ih .val nl).2 _)⟩
  | bin op a b iha ihb =>
    intro m nl
    by_cases hlog : op = .land ∨ op = .lor
    · cases m with
      | jump cond t =>
        rw [compE_logic_jump cx sc op a b cond t nl hlog]
        have ha := iha (.jump (op == .lor) (if cond == (op == .lor) then t else nl)) (nl + 1)
        generalize compE cx sc a (.jump (op == .lor) (if cond == (op == .lor) then t else nl)) (nl + 1) = ra at ha ⊢
        have hb := ihb (.jump cond t) ra.2
        generalize compE cx sc b (.jump cond t) ra.2 = rb at hb ⊢
        refine ⟨by simp only; omega, ?_⟩
        exact (ha.2.append hb.2 ha.1 hb.1).snoc_lbl (Or.inl (by omega)) (by omega) (Nat.le_refl _) (Nat.le_refl _) (by simp only; omega)
      | val =>
        rw [compE_logic_val cx sc op a b nl hlog]
        have ha := iha (.jump (op == .lor) (nl + 1)) (nl + 2)
        generalize compE cx sc a (.jump (op == .lor) (nl + 1)) (nl + 2) = ra at ha ⊢
        have hb := ihb .val ra.2
        generalize compE cx sc b .val ra.2 = rb at hb ⊢
        refine ⟨by simp only; omega, ?_⟩
        have h1 := labelsIn_one_more (ha.2.append hb.2 ha.1 hb.1) (.jmp nl)
        have h2 := h1.snoc_lbl (l := nl + 1) (lo' := nl + 1) (hi' := rb.2) (Or.inl (by omega)) (by omega) (Nat.le_refl _) (Nat.le_refl _) (by omega)
        have h3 := labelsIn_one_more h2 (if (op == .lor) then .pushT else .pushF)
        have h4 := h3.snoc_lbl (l := nl) (lo' := nl) (hi' := rb.2) (Or.inl (by omega)) (by omega) (Nat.le_refl _) (Nat.le_refl _) (by omega)
        simpa using h4
    · have hc : (op == .land || op == .lor) = false := by cases op <;> simp_all
      simp only [compE, hc, Bool.false_eq_true, if_false]
      have ha := iha .val nl
      generalize compE cx sc a .val nl = ra at ha ⊢
      have hb := ihb .val ra.2
      generalize compE cx sc b .val ra.2 = rb at hb ⊢
      have hab := ha.2.append hb.2 ha.1 hb.1
      cases m with
      | val => exact ⟨by simp only; omega, labelsIn_one_more hab _⟩
      | jump cond t =>
        simp only
        cases jumpFor op with
        | some c => exact ⟨by simp only; omega, labelsIn_one_more hab _⟩
        | none =>
          refine ⟨by simp only; omega, ?_⟩
          cases cond <;> simpa [jumpOn] using labelsIn_two_more hab _ _
  | call0 f => intro m nl; simp only [compE]; exact ⟨Nat.le_refl _, withMode_labels (labelsIn_ins _ _ _)⟩
  | call1 f a iha =>
    intro m nl; simp only [compE]
    exact ⟨(iha .val nl).1, withMode_labels (labelsIn_one_more (iha .val nl).2 _)⟩
  | call2 f a b iha ihb =>
    intro m nl
    simp only [compE, emitReverse]
    have ha := iha .val nl
    generalize compE cx sc a .val nl = ra at ha ⊢
    have hb := ihb .val ra.2
    generalize compE cx sc b .val ra.2 = rb at hb ⊢
    refine ⟨by omega, withMode_labels ?_⟩
    have := labelsIn_two_more (ha.2.append hb.2 ha.1 hb.1) .swap (.call (cx.func f).1)
    simpa using this
  | call3 f a b c iha ihb ihc =>
    intro m nl
    simp only [compE, emitReverse]
    have ha := iha .val nl
    generalize compE cx sc a .val nl = ra at ha ⊢
    have hb := ihb .val ra.2
    generalize compE cx sc b .val ra.2 = rb at hb ⊢
    have hc := ihc .val rb.2
    generalize compE cx sc c .val rb.2 = rc at hc ⊢
    refine ⟨by omega, withMode_labels ?_⟩
    have := labelsIn_two_more ((ha.2.append hb.2 ha.1 hb.1).append hc.2 (by omega) hc.1) .reverse3 (.call (cx.func f).1)
    simpa using this

end NeoModel.CompileProofs

namespace NeoModel.CompileProofs
open NeoModel.MiniVm NeoModel.MiniVm.Asm NeoModel.MiniGo NeoModel.Compile

/-- three marks n, n+1, n+2 and code whose marks come from [n+3, hi), in any arrangement. -/
theorem labelsIn_front3 {c inner : Code} {n hi : Nat} (hi3 : n + 3 ≤ hi) (hin : LabelsIn inner (n + 3) hi)
    (hp : (labelsOf c).Perm ([n, n + 1, n + 2] ++ labelsOf inner)) : LabelsIn c n hi := by
  refine ⟨?_, ?_⟩
  · intro l hl
    have := hp.mem_iff.mp hl
    simp only [List.mem_append, List.mem_cons, List.not_mem_nil, or_false] at this
    rcases this with (h | h | h) | h
    · omega
    · omega
    · omega
    · have := hin.1 l h; omega
  · rw [hp.nodup_iff]
    refine List.nodup_append.mpr ⟨by simp, hin.2, ?_⟩
    intro x hx y hy hxy
    subst hxy
    have := hin.1 x hy
    simp at hx
    omega

theorem dropN_labels (n lo hi : Nat) : LabelsIn (dropN n) lo hi := by
  induction n with
  | zero => exact labelsIn_nil _ _
  | succ k ih => simpa [dropN] using ih.ins_append [.drop]

@[simp] theorem newLocal_nl (st : St) (x : String) : (st.newLocal x).nl = st.nl := by
  unfold St.newLocal; cases st.scopes <;> rfl
@[simp] theorem push_nl (st : St) : st.push.nl = st.nl := rfl
@[simp] theorem pop_nl (st : St) : st.pop.nl = st.nl := rfl

theorem labelsIn_cons_ins {c : Code} {lo hi : Nat} (h : LabelsIn c lo hi) (op : Op Nat) : LabelsIn (.ins op :: c) lo hi := by
  simpa using h.ins_append [op]

/-- clauses (`case`, `default`) occur only as the clause chain of a `switch`; `c` = in chain position. -/
def WfS (c : Bool) : Stmt → Prop
  | .skip => True
  | .seq a b => c = false ∧ WfS false a ∧ WfS false b
  | .ite _ t _ e => c = false ∧ WfS false t ∧ WfS false e
  | .loop i _ p b => c = false ∧ WfS false i ∧ WfS false p ∧ WfS false b
  | .block b => c = false ∧ WfS false b
  | .labeled _ s => c = false ∧ WfS false s
  | .switchS _ _ cl => c = false ∧ WfS true cl
  | .caseS _ _ b _ rest => c = true ∧ WfS false b ∧ WfS true rest
  | .defaultS b => c = true ∧ WfS false b
  | _ => c = false

/-- the marks of a clause chain: start labels from the block reserved by the switch, the rest from the counter. -/
def ChainLabels (c : Code) (sb n lo hi : Nat) : Prop :=
  (∀ l ∈ labelsOf c, (sb ≤ l ∧ l < sb + n) ∨ (lo ≤ l ∧ l < hi)) ∧ (labelsOf c).Nodup

theorem dropItems_labels (n lo hi : Nat) : LabelsIn (dropItems n) lo hi := by
  unfold dropItems
  split
  · exact dropN_labels _ _ _
  · exact ⟨by simp [labelsOf], by simp [labelsOf]⟩

@[simp] theorem phantom_nl (cx : Ctx) (st : St) (l : String) : (st.phantom cx l).nl = st.nl := by
  rcases phantom_cases cx st l with h | h <;> rw [h]
  simp

/-- the marks that `compS` emits are fresh (statements), resp. fresh or from the reserved block (clause chains). -/
theorem compS_labels_aux (cx : Ctx) : ∀ (s : Stmt),
    (∀ (lp : LoopCtx) (st : St), WfS false s →
      st.nl ≤ (compS cx lp s st).2.nl ∧ LabelsIn (compS cx lp s st).1 st.nl (compS cx lp s st).2.nl) ∧
    (∀ (lp : LoopCtx) (st : St), WfS true s → st.sb + clauseCount s ≤ st.nl →
      st.nl ≤ (compS cx lp s st).2.nl ∧ ChainLabels (compS cx lp s st).1 st.sb (clauseCount s) st.nl (compS cx lp s st).2.nl) := by
  intro s
  induction s with
  | skip =>
    refine ⟨fun lp st _ => ?_, fun lp st _ _ => ?_⟩
    · simp only [compS]; exact ⟨Nat.le_refl _, labelsIn_nil _ _⟩
    · simp only [compS]; exact ⟨Nat.le_refl _, by simp [labelsOf], by simp [labelsOf]⟩
  | seq a b iha ihb =>
    refine ⟨?_, fun lp st hw _ => by simp [WfS] at hw⟩
    intro lp st hw
    have iha := fun lp st => iha.1 lp st hw.2.1
    have ihb := fun lp st => ihb.1 lp st hw.2.2
    simp only [compS]
    have ha := iha lp st
    have hb := ihb lp (compS cx lp a st).2
    exact ⟨Nat.le_trans ha.1 hb.1, ha.2.append hb.2 ha.1 hb.1⟩
  | define x e =>
    refine ⟨?_, fun lp st hw _ => by simp [WfS] at hw⟩
    intro lp st hw
    simp only [compS, newLocal_nl]
    have he := compE_labels cx st.scopes e .val st.nl
    exact ⟨he.1, he.2.append (storeVar_labels _ _ _ _ _) he.1 (Nat.le_refl _)⟩
  | assign x e =>
    refine ⟨?_, fun lp st hw _ => by simp [WfS] at hw⟩
    intro lp st hw
    simp only [compS]
    have he := compE_labels cx st.scopes e .val st.nl
    exact ⟨he.1, he.2.append (storeVar_labels _ _ _ _ _) he.1 (Nat.le_refl _)⟩
  | opAssign x op e =>
    refine ⟨?_, fun lp st hw _ => by simp [WfS] at hw⟩
    intro lp st hw
    simp only [compS]
    have he := compE_labels cx st.scopes e .val st.nl
    refine ⟨he.1, ?_⟩
    have h1 := (loadVar_labels cx st.scopes x st.nl st.nl).append he.2 (Nat.le_refl _) he.1
    have h2 := labelsIn_one_more h1 (tokenOp op)
    exact h2.append (storeVar_labels _ _ _ _ _) he.1 (Nat.le_refl _)
  | inc x =>
    refine ⟨?_, fun lp st hw _ => by simp [WfS] at hw⟩
    intro lp st hw
    simp only [compS]
    exact ⟨Nat.le_refl _, (labelsIn_one_more (loadVar_labels cx st.scopes x st.nl st.nl) _).append (storeVar_labels _ _ _ _ _) (Nat.le_refl _) (Nat.le_refl _)⟩
  | dec x =>
    refine ⟨?_, fun lp st hw _ => by simp [WfS] at hw⟩
    intro lp st hw
    simp only [compS]
    exact ⟨Nat.le_refl _, (labelsIn_one_more (loadVar_labels cx st.scopes x st.nl st.nl) _).append (storeVar_labels _ _ _ _ _) (Nat.le_refl _) (Nat.le_refl _)⟩
  | varDecl x b init =>
    refine ⟨?_, fun lp st hw _ => by simp [WfS] at hw⟩
    intro lp st hw
    cases init with
    | none =>
      simp only [compS, newLocal_nl]
      exact ⟨Nat.le_refl _, (labelsIn_ins _ _ _).append (storeVar_labels _ _ _ _ _) (Nat.le_refl _) (Nat.le_refl _)⟩
    | some e =>
      simp only [compS, newLocal_nl]
      have he := compE_labels cx st.scopes e .val st.nl
      exact ⟨he.1, he.2.append (storeVar_labels _ _ _ _ _) he.1 (Nat.le_refl _)⟩
  | exprStmt e =>
    refine ⟨?_, fun lp st hw _ => by simp [WfS] at hw⟩
    intro lp st hw
    simp only [compS]
    have he := compE_labels cx st.scopes e .val st.nl
    exact ⟨he.1, he.2.append (dropN_labels _ _ _) he.1 (Nat.le_refl _)⟩
  | discard e =>
    refine ⟨?_, fun lp st hw _ => by simp [WfS] at hw⟩
    intro lp st hw
    simp only [compS]
    have he := compE_labels cx st.scopes e .val st.nl
    exact ⟨he.1, labelsIn_one_more he.2 _⟩
  | panicS e =>
    refine ⟨?_, fun lp st hw _ => by simp [WfS] at hw⟩
    intro lp st hw
    simp only [compS]
    have he := compE_labels cx st.scopes e .val st.nl
    exact ⟨he.1, labelsIn_one_more he.2 _⟩
  | ret e =>
    refine ⟨?_, fun lp st hw _ => by simp [WfS] at hw⟩
    intro lp st hw
    cases e with
    | none => simp only [compS]; exact ⟨Nat.le_refl _, (dropItems_labels _ _ _).append (labelsIn_ins _ _ _) (Nat.le_refl _) (Nat.le_refl _)⟩
    | some e =>
      simp only [compS]
      have he := compE_labels cx st.scopes e .val st.nl
      exact ⟨he.1, labelsIn_one_more ((dropItems_labels _ st.nl st.nl).append he.2 (Nat.le_refl _) he.1) _⟩
  | ret2 e1 e2 =>
    refine ⟨?_, fun lp st hw _ => by simp [WfS] at hw⟩
    intro lp st hw
    simp only [compS]
    have h2 := compE_labels cx st.scopes e2 .val st.nl
    have h1 := compE_labels cx st.scopes e1 .val (compE cx st.scopes e2 .val st.nl).2
    exact ⟨Nat.le_trans h2.1 h1.1, labelsIn_one_more
      ((((dropItems_labels _ st.nl st.nl).append h2.2 (Nat.le_refl _) h2.1)).append h1.2 h2.1 h1.1) _⟩
  | define2 x y e =>
    refine ⟨?_, fun lp st hw _ => by simp [WfS] at hw⟩
    intro lp st hw
    simp only [compS, newLocal_nl]
    have he := compE_labels cx st.scopes e .val st.nl
    exact ⟨he.1, ((labelsIn_two_more he.2 _ _).append (storeVar_labels _ _ _ _ _) he.1 (Nat.le_refl _)).append
      (storeVar_labels _ _ _ _ _) he.1 (Nat.le_refl _)⟩
  | brk =>
    refine ⟨?_, fun lp st hw _ => by simp [WfS] at hw⟩
    intro lp st hw
    simp only [compS]
    refine ⟨Nat.le_refl _, ?_⟩
    split
    · exact (dropItems_labels _ _ _).append (labelsIn_ins _ _ _) (Nat.le_refl _) (Nat.le_refl _)
    · exact labelsIn_nil _ _
  | cont =>
    refine ⟨?_, fun lp st hw _ => by simp [WfS] at hw⟩
    intro lp st hw
    simp only [compS]
    refine ⟨Nat.le_refl _, ?_⟩
    split
    · exact (dropItems_labels _ _ _).append (labelsIn_ins _ _ _) (Nat.le_refl _) (Nat.le_refl _)
    · exact labelsIn_nil _ _
  | block body ih =>
    refine ⟨?_, fun lp st hw _ => by simp [WfS] at hw⟩
    intro lp st hw
    have ih := fun lp st => ih.1 lp st hw.2
    rw [compS_block]
    simpa using ih lp st.push
  | ite c thn k els iht ihe =>
    refine ⟨?_, fun lp st hw _ => by simp [WfS] at hw⟩
    intro lp st hw
    have iht := fun lp st => iht.1 lp st hw.2.1
    have ihe := fun lp st => ihe.1 lp st hw.2.2
    have hc := compE_labels cx (ifSt0 st).scopes c (.jump false (st.nl + 1)) (ifSt0 st).nl
    have hc1 : st.nl + 3 ≤ (ifCond cx c st).2 := hc.1
    have hc2 : LabelsIn (ifCond cx c st).1 (st.nl + 3) (ifCond cx c st).2 := hc.2
    have ht := iht lp (ifStT cx c st)
    have ht1 : (ifCond cx c st).2 ≤ (ifSt1 cx lp c thn st).nl := ht.1
    have ht2 : LabelsIn (compS cx lp thn (ifStT cx c st)).1 (ifCond cx c st).2 (ifSt1 cx lp c thn st).nl := ht.2
    have hct := hc2.append ht2 hc1 ht1
    cases k with
    | none =>
      rw [compS_ite_none]
      refine ⟨by simp only [pop_nl]; omega, ?_⟩
      simp only [pop_nl]
      refine labelsIn_front3 (by omega) hct ?_
      apply List.perm_iff_count.mpr
      intro n
      simp only [labelsOf_append, labelsOf, List.count_append, List.count_cons, List.count_nil]
      omega
    | block =>
      rw [compS_ite_block]
      have he := ihe lp (ifSt1 cx lp c thn st).push
      simp only [push_nl] at he
      refine ⟨by simp only [pop_nl]; omega, ?_⟩
      simp only [pop_nl]
      refine labelsIn_front3 (by omega) (hct.append he.2 (by omega) he.1) ?_
      apply List.perm_iff_count.mpr
      intro n
      simp only [labelsOf_append, labelsOf, List.count_append, List.count_cons, List.count_nil]
      omega
    | elif =>
      rw [compS_ite_elif]
      have he := ihe lp (ifSt1 cx lp c thn st)
      refine ⟨by simp only [pop_nl]; omega, ?_⟩
      simp only [pop_nl]
      refine labelsIn_front3 (by omega) (hct.append he.2 (by omega) he.1) ?_
      apply List.perm_iff_count.mpr
      intro n
      simp only [labelsOf_append, labelsOf, List.count_append, List.count_cons, List.count_nil]
      omega
  | loop init cond post body ihi ihp ihb =>
    refine ⟨?_, fun lp st hw _ => by simp [WfS] at hw⟩
    intro lp st hw
    have ihi := fun lp st => ihi.1 lp st hw.2.1
    have ihp := fun lp st => ihp.1 lp st hw.2.2.1
    have ihb := fun lp st => ihb.1 lp st hw.2.2.2
    rw [compS_loop]
    have hi := ihi lp (forSt0 st)
    have hi1 : st.nl + 3 ≤ (forSt1 cx lp init st).nl := hi.1
    have hi2 : LabelsIn (compS cx lp init (forSt0 st)).1 (st.nl + 3) (forSt1 cx lp init st).nl := hi.2
    have hcnd : (forSt1 cx lp init st).nl ≤ (forCond cx lp init cond st).2 ∧
        LabelsIn (forCond cx lp init cond st).1 (forSt1 cx lp init st).nl (forCond cx lp init cond st).2 := by
      cases cond with
      | none => exact ⟨Nat.le_refl _, labelsIn_nil _ _⟩
      | some c =>
        have := compE_labels cx (forSt1 cx lp init st).scopes c .val (forSt1 cx lp init st).nl
        exact ⟨this.1, labelsIn_one_more this.2 _⟩
    have hb := ihb (forEnt st :: lp) (forStB cx lp init cond st)
    have hb1 : (forCond cx lp init cond st).2 ≤ (forSt3 cx lp init cond body st).nl := hb.1
    have hb2 : LabelsIn (compS cx (forEnt st :: lp) body (forStB cx lp init cond st)).1 (forCond cx lp init cond st).2
        (forSt3 cx lp init cond body st).nl := hb.2
    have hp := ihp lp (forSt3 cx lp init cond body st)
    refine ⟨by simp only [pop_nl]; omega, ?_⟩
    simp only [pop_nl]
    refine labelsIn_front3 (by omega)
      (((hi2.append hcnd.2 hi1 hcnd.1).append hb2 (by omega) hb1).append hp.2 (by omega) hp.1) ?_
    apply List.perm_iff_count.mpr
    intro n
    simp only [labelsOf_append, labelsOf, List.count_append, List.count_cons, List.count_nil]
    omega
  | labeled l s ih =>
    refine ⟨?_, fun lp st hw _ => by simp [WfS] at hw⟩
    intro lp st hw
    rw [compS_labeled]
    exact ih.1 lp { st with nextLabel := some l } hw.2
  | brkL l =>
    refine ⟨?_, fun lp st hw _ => by simp [WfS] at hw⟩
    intro lp st hw
    simp only [compS, phantom_nl]
    refine ⟨Nat.le_refl _, ?_⟩
    refine LabelsIn.append ?_ (loadVar_labels _ _ _ _ _) (Nat.le_refl _) (Nat.le_refl _)
    split
    · exact (dropItems_labels _ _ _).append (labelsIn_ins _ _ _) (Nat.le_refl _) (Nat.le_refl _)
    · exact labelsIn_nil _ _
  | contL l =>
    refine ⟨?_, fun lp st hw _ => by simp [WfS] at hw⟩
    intro lp st hw
    simp only [compS, phantom_nl]
    refine ⟨Nat.le_refl _, ?_⟩
    refine LabelsIn.append ?_ (loadVar_labels _ _ _ _ _) (Nat.le_refl _) (Nat.le_refl _)
    split
    · exact (dropItems_labels _ _ _).append (labelsIn_ins _ _ _) (Nat.le_refl _) (Nat.le_refl _)
    · exact labelsIn_nil _ _
  | switchS tag ti cl ih =>
    refine ⟨?_, fun lp st hw _ => by simp [WfS] at hw⟩
    intro lp st hw
    rw [compS_switch]
    have ht : st.nl ≤ (swTag cx tag st).2 ∧ LabelsIn (swTag cx tag st).1 st.nl (swTag cx tag st).2 := by
      cases tag with
      | none => exact ⟨Nat.le_refl _, labelsIn_ins _ _ _⟩
      | some e => exact compE_labels cx st.push.scopes e .val st.nl
    have hc := ih.2 (swEnt cx tag ti st :: lp) (swSt1 cx tag cl st) hw.2 (by simp [swSt1] <;> omega)
    have hnl1 : (swSt1 cx tag cl st).nl = (swTag cx tag st).2 + 1 + clauseCount cl := rfl
    have hsb1 : (swSt1 cx tag cl st).sb = (swTag cx tag st).2 + 1 := rfl
    rw [hnl1, hsb1] at hc
    generalize (compS cx (swEnt cx tag ti st :: lp) cl (swSt1 cx tag cl st)) = rc at hc ⊢
    generalize (swTag cx tag st) = rt at ht hc ⊢
    obtain ⟨hc1, hc2, hc3⟩ := hc
    refine ⟨by simp only [pop_nl]; omega, ?_, ?_⟩
    · intro l hl
      simp only [labelsOf_append, labelsOf, List.mem_append, List.mem_cons, List.not_mem_nil, or_false] at hl
      simp only [pop_nl]
      rcases hl with (h | h) | h
      · have := ht.2.1 l h; omega
      · rcases hc2 l h with h' | h' <;> omega
      · omega
    · simp only [labelsOf_append, labelsOf]
      refine List.nodup_append.mpr ⟨List.nodup_append.mpr ⟨ht.2.2, hc3, ?_⟩, by simp, ?_⟩
      · intro x hx y hy hxy
        subst hxy
        have := ht.2.1 x hx
        rcases hc2 x hy with h' | h' <;> omega
      · intro x hx y hy hxy
        simp at hy
        subst hxy; subst hy
        rcases List.mem_append.mp hx with h | h
        · have := ht.2.1 _ h; omega
        · rcases hc2 _ h with h' | h' <;> omega
  | caseS e1 e2 body ft rest ihb ihr =>
    refine ⟨fun lp st hw => by simp [WfS] at hw, ?_⟩
    intro lp st hw hsb
    simp only [clauseCount] at hsb ⊢
    rw [compS_case]
    have hT : st.nl + 1 ≤ (csTests cx lp e1 e2 st).2 ∧ LabelsIn (csTests cx lp e1 e2 st).1 (st.nl + 1) (csTests cx lp e1 e2 st).2 := by
      have h1 := compE_labels cx st.scopes e1 .val (st.nl + 1)
      cases e2 with
      | none =>
        simp only [csTests]
        refine ⟨h1.1, ?_⟩
        have := labelsIn_two_more (labelsIn_cons_ins h1.2 .dup) (csEq lp) (.jmpIfNot st.nl)
        simpa using this
      | some e2 =>
        simp only [csTests]
        have h2 := compE_labels cx st.scopes e2 .val (compE cx st.scopes e1 .val (st.nl + 1)).2
        refine ⟨Nat.le_trans h1.1 h2.1, ?_⟩
        have a1 := labelsIn_two_more (labelsIn_cons_ins h1.2 .dup) (csEq lp) (.jmpIf st.sb)
        have a2 := labelsIn_two_more (labelsIn_cons_ins h2.2 .dup) (csEq lp) (.jmpIfNot st.nl)
        have := a1.append a2 h1.1 h2.1
        simpa using this
    have hb := ihb.1 lp (csStB cx lp e1 e2 st) hw.2.1
    have hnlB : (csStB cx lp e1 e2 st).nl = (csTests cx lp e1 e2 st).2 := rfl
    rw [hnlB] at hb
    have hnlR : (csStR cx lp e1 e2 body st).nl = (compS cx lp body (csStB cx lp e1 e2 st)).2.nl := rfl
    have hsbR : (csStR cx lp e1 e2 body st).sb = st.sb + 1 := rfl
    have hr := ihr.2 lp (csStR cx lp e1 e2 body st) hw.2.2 (by rw [hnlR, hsbR]; omega)
    rw [hnlR, hsbR] at hr
    generalize (compS cx lp rest (csStR cx lp e1 e2 body st)) = rr at hr ⊢
    generalize (compS cx lp body (csStB cx lp e1 e2 st)) = rb at hb hr ⊢
    generalize (csTests cx lp e1 e2 st) = rt at hT hb ⊢
    obtain ⟨hr1, hr2, hr3⟩ := hr
    have hfall : labelsOf (if ft then [Item.ins (.jmp (st.sb + 1))] else ([] : Code)) = [] := by split <;> rfl
    dsimp only
    refine ⟨by omega, ?_, ?_⟩
    · intro l hl
      simp only [labelsOf_append, labelsOf, hfall, List.mem_append, List.mem_cons, List.not_mem_nil, or_false, List.append_nil] at hl
      rcases hl with ((((h | h) | h) | h) | h)
      · have := hT.2.1 l h; omega
      · omega
      · have := hb.2.1 l h; omega
      · omega
      · rcases hr2 l h with h' | h' <;> omega
    · simp only [labelsOf_append, labelsOf, hfall, List.append_nil]
      refine List.nodup_append.mpr ⟨List.nodup_append.mpr ⟨List.nodup_append.mpr ⟨List.nodup_append.mpr ⟨hT.2.2, by simp, ?_⟩, hb.2.2, ?_⟩, by simp, ?_⟩, hr3, ?_⟩
      · intro x hx y hy hxy
        simp at hy; subst hxy; subst hy
        have := hT.2.1 _ hx; omega
      · intro x hx y hy hxy
        subst hxy
        have := hb.2.1 _ hy
        rcases List.mem_append.mp hx with h | h
        · have := hT.2.1 _ h; omega
        · simp at h; omega
      · intro x hx y hy hxy
        simp at hy; subst hxy; subst hy
        rcases List.mem_append.mp hx with h | h
        · rcases List.mem_append.mp h with h | h
          · have := hT.2.1 _ h; omega
          · simp at h; omega
        · have := hb.2.1 _ h; omega
      · intro x hx y hy hxy
        subst hxy
        have hy' := hr2 _ hy
        rcases List.mem_append.mp hx with h | h
        · rcases List.mem_append.mp h with h | h
          · rcases List.mem_append.mp h with h | h
            · have := hT.2.1 _ h; omega
            · simp at h; omega
          · have := hb.2.1 _ h; omega
        · simp at h; omega
  | defaultS body ih =>
    refine ⟨fun lp st hw => by simp [WfS] at hw, ?_⟩
    intro lp st hw hsb
    simp only [clauseCount] at hsb ⊢
    rw [compS_default]
    have hb := ih.1 lp (dfStB st) hw.2
    have hnlB : (dfStB st).nl = st.nl + 1 := rfl
    rw [hnlB] at hb
    generalize (compS cx lp body (dfStB st)) = rb at hb ⊢
    refine ⟨by simp only [pop_nl]; omega, ?_, ?_⟩
    · intro l hl
      simp only [labelsOf_append, labelsOf, List.mem_append, List.mem_cons, List.not_mem_nil, or_false] at hl
      simp only [pop_nl]
      rcases hl with (h | h) | h
      · omega
      · have := hb.2.1 l h; omega
      · omega
    · simp only [labelsOf_append, labelsOf]
      refine List.nodup_append.mpr ⟨List.nodup_append.mpr ⟨by simp, hb.2.2, ?_⟩, by simp, ?_⟩
      · intro x hx y hy hxy
        simp at hx; subst hxy; subst hx
        have := hb.2.1 _ hy; omega
      · intro x hx y hy hxy
        simp at hy; subst hxy; subst hy
        rcases List.mem_append.mp hx with h | h
        · simp at h; omega
        · have := hb.2.1 _ h; omega

/-- the marks that `compS` emits for a statement are fresh. -/
theorem compS_labels (cx : Ctx) (s : Stmt) (lp : LoopCtx) (st : St) (hw : WfS false s) :
    st.nl ≤ (compS cx lp s st).2.nl ∧ LabelsIn (compS cx lp s st).1 st.nl (compS cx lp s st).2.nl :=
  (compS_labels_aux cx s).1 lp st hw

end NeoModel.CompileProofs

namespace NeoModel.CompileProofs
open NeoModel.MiniVm NeoModel.MiniVm.Asm NeoModel.MiniGo NeoModel.Compile

mutual
/-- allowed statements are well-formed: clauses occur only as clause chains of `switch` statements. -/
theorem allowed_wfS : ∀ (s : Stmt) (ls : Sigs), Allowed ls s → WfS false s
  | .skip, _, _ => trivial
  | .seq a b, ls, h => by simp only [Allowed] at h; exact ⟨rfl, allowed_wfS a ls h.1, allowed_wfS b ls h.2⟩
  | .ite _ t _ e, ls, h => by simp only [Allowed] at h; exact ⟨rfl, allowed_wfS t ls h.1, allowed_wfS e ls h.2⟩
  | .loop i _ p b, ls, h => by
    simp only [Allowed] at h
    exact ⟨rfl, allowed_wfS i ls h.1, allowed_wfS p ls (noDecl_allowed h.2.1 ls), allowed_wfS b _ h.2.2⟩
  | .block b, ls, h => by simp only [Allowed] at h; exact ⟨rfl, allowed_wfS b ls h⟩
  | .labeled _ (.loop i _ p b), ls, h => by
    simp only [Allowed] at h
    exact ⟨rfl, rfl, allowed_wfS i ls h.1, allowed_wfS p ls (noDecl_allowed h.2.1 ls), allowed_wfS b _ h.2.2⟩
  | .labeled _ (.switchS _ _ cl), ls, h => by simp only [Allowed] at h; exact ⟨rfl, rfl, allowed_chain cl _ h.2⟩
  | .switchS _ _ cl, ls, h => by simp only [Allowed] at h; exact ⟨rfl, allowed_chain cl _ h.2⟩
  | .define _ _, _, _ | .assign _ _, _, _ | .opAssign _ _ _, _, _ | .inc _, _, _ | .dec _, _, _
  | .varDecl _ _ _, _, _ | .exprStmt _, _, _ | .discard _, _, _ | .panicS _, _, _ | .ret _, _, _ | .ret2 _ _, _, _ | .define2 _ _ _, _, _ | .brk, _, _ | .cont, _, _
  | .brkL _, _, _ | .contL _, _, _ => rfl
  | .caseS _ _ _ _ _, _, h => by simp [Allowed] at h
  | .defaultS _, _, h => by simp [Allowed] at h
  | .labeled _ .skip, _, h | .labeled _ (.seq _ _), _, h | .labeled _ (.define _ _), _, h | .labeled _ (.assign _ _), _, h
  | .labeled _ (.opAssign _ _ _), _, h | .labeled _ (.inc _), _, h | .labeled _ (.dec _), _, h | .labeled _ (.varDecl _ _ _), _, h
  | .labeled _ (.exprStmt _), _, h | .labeled _ (.discard _), _, h | .labeled _ (.panicS _), _, h | .labeled _ (.ite _ _ _ _), _, h
  | .labeled _ (.ret _), _, h | .labeled _ (.ret2 _ _), _, h | .labeled _ (.define2 _ _ _), _, h | .labeled _ .brk, _, h | .labeled _ .cont, _, h | .labeled _ (.block _), _, h
  | .labeled _ (.labeled _ _), _, h | .labeled _ (.brkL _), _, h | .labeled _ (.contL _), _, h
  | .labeled _ (.caseS _ _ _ _ _), _, h | .labeled _ (.defaultS _), _, h => by simp [Allowed] at h
theorem allowed_chain : ∀ (cl : Stmt) (ls : Sigs), AllowedCl ls cl → WfS true cl
  | .skip, _, _ => trivial
  | .defaultS b, ls, h => by simp only [AllowedCl] at h; exact ⟨rfl, allowed_wfS b ls h⟩
  | .caseS _ _ b _ rest, ls, h => by simp only [AllowedCl] at h; exact ⟨rfl, allowed_wfS b ls h.1, allowed_chain rest ls h.2.1⟩
  | .seq _ _, _, h | .define _ _, _, h | .assign _ _, _, h | .opAssign _ _ _, _, h | .inc _, _, h | .dec _, _, h
  | .varDecl _ _ _, _, h | .exprStmt _, _, h | .discard _, _, h | .panicS _, _, h | .ite _ _ _ _, _, h
  | .loop _ _ _ _, _, h | .ret _, _, h | .ret2 _ _, _, h | .define2 _ _ _, _, h | .brk, _, h | .cont, _, h | .block _, _, h | .labeled _ _, _, h
  | .brkL _, _, h | .contL _, _, h | .switchS _ _ _, _, h => by simp [AllowedCl] at h
end

theorem compFunc_labels (tbl : List (String × Nat × Nat)) (d : FuncDecl) (label nl : Nat) (hl : label < nl) (hw : WfS false d.body) :
    nl ≤ (compFunc tbl d label nl).2 ∧
    (∀ x ∈ labelsOf (compFunc tbl d label nl).1, x = label ∨ (nl ≤ x ∧ x < (compFunc tbl d label nl).2)) ∧
    (labelsOf (compFunc tbl d label nl).1).Nodup := by
  have hb := compS_labels { funcs := tbl, args := d.params } (.block d.body) [] { nl := nl, cnt := 0, scopes := [[]] } ⟨rfl, hw⟩
  have hcode : (compFunc tbl d label nl).1 =
      [Item.lbl label, initSlotItem (compS { funcs := tbl, args := d.params } [] (.block d.body) { nl := nl, cnt := 0, scopes := [[]] }).2.cnt d.params.length] ++
        (compS { funcs := tbl, args := d.params } [] (.block d.body) { nl := nl, cnt := 0, scopes := [[]] }).1 ++
        (if lastIsRet d.body then [] else [Item.ins .ret]) := rfl
  have hnl : (compFunc tbl d label nl).2 = (compS { funcs := tbl, args := d.params } [] (.block d.body) { nl := nl, cnt := 0, scopes := [[]] }).2.nl := rfl
  rw [hcode, hnl]
  generalize compS { funcs := tbl, args := d.params } [] (.block d.body) { nl := nl, cnt := 0, scopes := [[]] } = r at hb ⊢
  have htail : labelsOf (if lastIsRet d.body then ([] : Code) else [Item.ins .ret]) = [] := by
    split <;> simp [labelsOf]
  have hinit : ∀ a b, labelsOf [Item.lbl label, initSlotItem a b] = [label] := by
    intro a b; simp only [initSlotItem]; split <;> simp [labelsOf]
  refine ⟨hb.1, ?_, ?_⟩
  · intro x hx
    simp only [labelsOf_append, hinit, htail, List.append_nil, List.mem_append, List.mem_cons, List.not_mem_nil, or_false] at hx
    rcases hx with h | h
    · exact Or.inl h
    · exact Or.inr (hb.2.1 x h)
  · simp only [labelsOf_append, hinit, htail, List.append_nil]
    refine List.nodup_append.mpr ⟨by simp, hb.2.2, ?_⟩
    intro x hx y hy hxy
    simp at hx
    subst hxy; subst hx
    have := (hb.2.1 _ hy).1
    simp only at this
    omega

theorem compFuncs_labels (tbl : List (String × Nat × Nat)) : ∀ (l : List FuncDecl) (i nl : Nat), (∀ d ∈ l, WfS false d.body) → i + l.length ≤ nl →
    ∃ nl', nl ≤ nl' ∧
      (∀ x ∈ labelsOf (compFuncs tbl l i nl), (i ≤ x ∧ x < i + l.length) ∨ (nl ≤ x ∧ x < nl')) ∧
      (labelsOf (compFuncs tbl l i nl)).Nodup := by
  intro l
  induction l with
  | nil => intro i nl _ _; exact ⟨nl, Nat.le_refl _, by simp [compFuncs, labelsOf], by simp [compFuncs, labelsOf]⟩
  | cons d r ih =>
    intro i nl hw hle
    simp only [List.length_cons] at hle
    have hf := compFunc_labels tbl d i nl (by omega) (hw d (by simp))
    obtain ⟨nl', h1, h2, h3⟩ := ih (i + 1) (compFunc tbl d i nl).2 (fun d' hd' => hw d' (List.mem_cons_of_mem _ hd')) (by omega)
    simp only [compFuncs]
    refine ⟨nl', by omega, ?_, ?_⟩
    · intro x hx
      rw [labelsOf_append] at hx
      rcases List.mem_append.mp hx with h | h
      · rcases hf.2.1 x h with h | h
        · left; simp only [List.length_cons]; omega
        · right; omega
      · rcases h2 x h with h | h
        · left; simp only [List.length_cons]; omega
        · right; omega
    · rw [labelsOf_append]
      refine List.nodup_append.mpr ⟨hf.2.2, h3, ?_⟩
      intro x hx y hy hxy
      subst hxy
      rcases hf.2.1 x hx with h | h <;> rcases h2 x hy with h' | h' <;> omega

theorem compFuncs_placed (tbl : List (String × Nat × Nat)) : ∀ (l : List FuncDecl) (i nl j : Nat) (d : FuncDecl),
    l[j]? = some d → ∃ pre post nl', compFuncs tbl l i nl = pre ++ (compFunc tbl d (i + j) nl').1 ++ post := by
  intro l
  induction l with
  | nil => intro i nl j d h; simp at h
  | cons a r ih =>
    intro i nl j d h
    cases j with
    | zero =>
      simp at h; subst h
      exact ⟨[], compFuncs tbl r (i + 1) (compFunc tbl a i nl).2, nl, by simp [compFuncs]⟩
    | succ k =>
      simp at h
      obtain ⟨pre, post, nl', he⟩ := ih (i + 1) (compFunc tbl a i nl).2 k d h
      refine ⟨(compFunc tbl a i nl).1 ++ pre, post, nl', ?_⟩
      simp only [compFuncs, he]
      have : i + 1 + k = i + (k + 1) := by omega
      rw [this]; simp

/-- (4) the output of `compProg` satisfies the hypotheses of the simulation theorems: its label marks are unique
    and every function's code sits in it. -/
theorem progCode_compProg (P : Prog) (hw : ∀ d ∈ P, WfS false d.body) : ProgCode (compProg P) P := by
  refine ⟨?_, ?_⟩
  · obtain ⟨_, _, _, h⟩ := compFuncs_labels (funcTable P) P 0 P.length hw (by omega)
    exact h
  · intro i d hi
    obtain ⟨pre, post, nl', he⟩ := compFuncs_placed (funcTable P) P 0 P.length i d hi
    exact ⟨pre.length, nl', pre, post, by simpa [compProg] using he, rfl⟩

/-- … in particular for every program of allowed functions. -/
theorem progCode_of_allowed (P : Prog) (hall : ∀ d ∈ P, Allowed [] d.body) : ProgCode (compProg P) P :=
  progCode_compProg P (fun d hd => allowed_wfS d.body [] (hall d hd))

end NeoModel.CompileProofs

namespace NeoModel.CompileProofs
open NeoModel.MiniVm NeoModel.MiniVm.Asm NeoModel.MiniGo NeoModel.Compile

/-- invocation of a function of the program from outside (no caller frame): the machine halts with the result. -/
theorem entry_halt {P : Prog} {C : Code} (hpc : ProgCode C P) (hall : ∀ d ∈ P, Allowed [] d.body)
    {f : String} {vs rest : List Val} {v : Val} {fuel : Nat}
    (hrun : callF fuel P f vs = .ok v) (hdep : fuel < 1024) :
    ∃ pc0 n, findLabel C (fnLabel P f) = some pc0 ∧
      Asm.run C n { pc := pc0, stack := vs ++ rest, locals := [], args := [], frames := [] } = .halt (v :: rest) := by
  cases fuel with
  | zero => simp [callF] at hrun
  | succ k =>
    simp only [callF] at hrun
    cases hfind : P.find f with
    | none => rw [hfind] at hrun; simp at hrun
    | some d =>
      rw [hfind] at hrun
      simp only at hrun
      by_cases hlen : d.params.length = vs.length
      · have hne : (d.params.length != vs.length) = false := by simp [hlen]
        simp only [hne, Bool.false_eq_true, if_false] at hrun
        cases hex : exec k P { frames := [[]], args := d.params.zip vs } (.block d.body) with
        | ok out =>
          rw [hex] at hrun
          cases out with
          | ret r =>
            match r, hrun, hex with
            | [], hrun, _ => simp at hrun
            | _ :: _ :: _, hrun, _ => simp at hrun
            | [v'], hrun, hex =>
              simp only at hrun
              split at hrun
              · cases hrun
                obtain ⟨i, hi, hlab, _⟩ := fnLabel_of_find hfind
                obtain ⟨pc0, nl, hp⟩ := hpc.funcs i d hi
                have hmem : d ∈ P := List.mem_of_getElem? hi
                have hcode : (compFunc (funcTable P) d i nl).1 =
                    [Item.lbl i, initSlotItem (compS { funcs := funcTable P, args := d.params } [] (.block d.body) { nl := nl, cnt := 0, scopes := [[]] }).2.cnt d.params.length] ++
                      (compS { funcs := funcTable P, args := d.params } [] (.block d.body) { nl := nl, cnt := 0, scopes := [[]] }).1 ++
                      (if lastIsRet d.body then [] else [Item.ins .ret]) := rfl
                rw [hcode] at hp
                generalize hN : (compS { funcs := funcTable P, args := d.params } [] (.block d.body) { nl := nl, cnt := 0, scopes := [[]] }).2.cnt = N at hp
                have hlbl : findLabel C i = some pc0 := hp.left.left.label hpc.nodup
                refine ⟨pc0, ?_⟩
                have h1 := skip_lbl (σ := State.mk pc0 (vs ++ rest) [] [] [] false) hp.left.left
                obtain ⟨b, h2⟩ := initSlot_stepF (C := C) (σ := State.mk (pc0 + 1) (vs ++ rest) [] [] [] false)
                  (N := N) (vs := vs) (rest := rest) hlen hp.left.left.tail.head rfl rfl rfl rfl
                have hrel : VarsRel { funcs := funcTable P, args := d.params } [[]] { frames := [[]], args := d.params.zip vs } (List.replicate N .null) vs :=
                  ⟨by simp [FramesRel, FrameRel], zip_fst _ _ hlen, zip_snd _ _ hlen⟩
                have hwf : Wf { nl := nl, cnt := 0, scopes := [[]] } := ⟨by simp [slotsOf], by simp [slotsOf], by simp⟩
                have hbody := (allOK hpc hall k).stmt { funcs := funcTable P, args := d.params } rfl (.block d.body) [] []
                  { nl := nl, cnt := 0, scopes := [[]] } _ (State.mk (pc0 + 1 + 1) rest (List.replicate N .null) vs [] b) _
                  (by simpa [Allowed] using hall d hmem) ⟨rfl, rfl, by simp [totalSz], by simp [totalSz]⟩
                  (Or.inr ⟨⟨_, rfl⟩, fun e he => by cases he⟩) hex
                  (hp.left.right.cast (by simp)) hrel hwf (by simp [hN]) (by simp; omega)
                obtain ⟨σ3, hr3, hret, hst3, hfr3⟩ := hbody
                obtain ⟨n, hn⟩ := run_halt (stk := v :: rest) (h1.trans (h2.trans hr3))
                  (by simp only at hst3 hfr3; simp [Asm.step, hret, stepOp, hfr3, hst3, totalSz])
                exact ⟨n, by rw [hlab]; exact hlbl, hn⟩
              · cases hrun
          | norm e => simp at hrun
          | brk l e => simp at hrun
          | cont l e => simp at hrun
        | panic => rw [hex] at hrun; simp at hrun
        | overflow => rw [hex] at hrun; simp at hrun
        | stuck => rw [hex] at hrun; simp at hrun
        | timeout => rw [hex] at hrun; simp at hrun
      · have hne : (d.params.length != vs.length) = true := by simpa using hlen
        simp [hne] at hrun

end NeoModel.CompileProofs

