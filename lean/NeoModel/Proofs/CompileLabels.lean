/-
CompileLabels — the label marks emitted by the compiler are fresh (distinct, from the counter range consumed), the
output of `compProg` has unique marks and contains the code of every function (`progCode_compProg`), and the
invocation of a function from outside halts with its result (`entry_halt`).
-/
import NeoModel.Proofs.CompileFull
namespace NeoModel.CompileProofs
open NeoModel.MiniVm NeoModel.MiniVm.Asm NeoModel.MiniGo NeoModel.Compile

/-- the label marks of `c` are distinct and lie in [lo, hi). -/
def LabelsIn (c : Code) (lo hi : Nat) : Prop := (∀ l ∈ labelsOf c, lo ≤ l ∧ l < hi) ∧ (labelsOf c).Nodup

theorem labelsIn_nil (lo hi : Nat) : LabelsIn [] lo hi := ⟨by simp [labelsOf], by simp [labelsOf]⟩

theorem labelsIn_ins (op : Op Nat) (lo hi : Nat) : LabelsIn [.ins op] lo hi := ⟨by simp [labelsOf], by simp [labelsOf]⟩

theorem labelsIn_lbl {l lo hi : Nat} (h1 : lo ≤ l) (h2 : l < hi) : LabelsIn [.lbl l] lo hi :=
  ⟨by simp [labelsOf]; exact ⟨h1, h2⟩, by simp [labelsOf]⟩

theorem LabelsIn.mono {c : Code} {lo hi lo' hi' : Nat} (h : LabelsIn c lo hi) (h1 : lo' ≤ lo) (h2 : hi ≤ hi') : LabelsIn c lo' hi' :=
  ⟨fun l hl => ⟨Nat.le_trans h1 (h.1 l hl).1, Nat.lt_of_lt_of_le (h.1 l hl).2 h2⟩, h.2⟩

/-- codes with adjacent label ranges. -/
theorem LabelsIn.append {a b : Code} {lo mid hi : Nat} (ha : LabelsIn a lo mid) (hb : LabelsIn b mid hi)
    (h1 : lo ≤ mid) (h2 : mid ≤ hi) : LabelsIn (a ++ b) lo hi := by
  refine ⟨?_, ?_⟩
  · intro l hl
    rw [labelsOf_append] at hl
    rcases List.mem_append.mp hl with h | h
    · exact ⟨(ha.1 l h).1, Nat.lt_of_lt_of_le (ha.1 l h).2 h2⟩
    · exact ⟨Nat.le_trans h1 (hb.1 l h).1, (hb.1 l h).2⟩
  · rw [labelsOf_append]
    refine List.nodup_append.mpr ⟨ha.2, hb.2, ?_⟩
    intro x hx y hy hxy
    subst hxy
    have := (ha.1 x hx).2
    have := (hb.1 x hy).1
    omega

/-- a mark in front / behind whose label is outside the range of the rest. -/
theorem LabelsIn.snoc_lbl {a : Code} {l lo hi lo' hi' : Nat} (ha : LabelsIn a lo hi) (hout : l < lo ∨ hi ≤ l)
    (h1 : lo' ≤ lo) (h2 : hi ≤ hi') (h3 : lo' ≤ l) (h4 : l < hi') : LabelsIn (a ++ [.lbl l]) lo' hi' := by
  refine ⟨?_, ?_⟩
  · intro x hx
    rw [labelsOf_append] at hx
    rcases List.mem_append.mp hx with h | h
    · exact ⟨Nat.le_trans h1 (ha.1 x h).1, Nat.lt_of_lt_of_le (ha.1 x h).2 h2⟩
    · simp [labelsOf] at h; subst h; exact ⟨h3, h4⟩
  · rw [labelsOf_append]
    refine List.nodup_append.mpr ⟨ha.2, by simp [labelsOf], ?_⟩
    intro x hx y hy hxy
    simp [labelsOf] at hy
    subst hxy; subst hy
    have := ha.1 _ hx
    omega

theorem withMode_labels {m : Mode} {c : Code} {lo hi : Nat} (h : LabelsIn c lo hi) : LabelsIn (withMode m c) lo hi := by
  cases m with
  | val => exact h
  | jump cond t =>
    simp only [withMode]
    refine ⟨?_, ?_⟩
    · intro l hl
      rw [labelsOf_append] at hl
      cases cond <;> simp [jumpOn, labelsOf] at hl <;> exact h.1 l hl
    · rw [labelsOf_append]
      cases cond <;> simp [jumpOn, labelsOf] <;> exact h.2

/-- `LabelsIn` only looks at the marks: instructions can be added freely. -/
theorem LabelsIn.append_ins {a : Code} {lo hi : Nat} (ha : LabelsIn a lo hi) (ops : List (Op Nat)) :
    LabelsIn (a ++ ops.map Item.ins) lo hi := by
  have : labelsOf (ops.map Item.ins) = [] := by
    induction ops with
    | nil => rfl
    | cons o r ih => simp [labelsOf, ih]
  refine ⟨?_, ?_⟩ <;> rw [labelsOf_append, this] <;> simp
  · exact ha.1
  · exact ha.2

theorem LabelsIn.ins_append {a : Code} {lo hi : Nat} (ha : LabelsIn a lo hi) (ops : List (Op Nat)) :
    LabelsIn (ops.map Item.ins ++ a) lo hi := by
  have : labelsOf (ops.map Item.ins) = [] := by
    induction ops with
    | nil => rfl
    | cons o r ih => simp [labelsOf, ih]
  refine ⟨?_, ?_⟩ <;> rw [labelsOf_append, this] <;> simp
  · exact ha.1
  · exact ha.2

end NeoModel.CompileProofs

namespace NeoModel.CompileProofs
open NeoModel.MiniVm NeoModel.MiniVm.Asm NeoModel.MiniGo NeoModel.Compile

theorem loadVar_labels (cx : Ctx) (sc : Scopes) (x : String) (lo hi : Nat) : LabelsIn (loadVar cx sc x) lo hi := by
  unfold loadVar
  split
  · exact labelsIn_ins _ _ _
  · split <;> exact labelsIn_ins _ _ _

theorem storeVar_labels (cx : Ctx) (sc : Scopes) (x : String) (lo hi : Nat) : LabelsIn (storeVar cx sc x) lo hi := by
  unfold storeVar
  split
  · exact labelsIn_ins _ _ _
  · split <;> exact labelsIn_ins _ _ _

theorem labelsIn_one_more {c : Code} {lo hi : Nat} (h : LabelsIn c lo hi) (op : Op Nat) : LabelsIn (c ++ [.ins op]) lo hi := by
  simpa using h.append_ins [op]

theorem labelsIn_two_more {c : Code} {lo hi : Nat} (h : LabelsIn c lo hi) (op1 op2 : Op Nat) :
    LabelsIn (c ++ [.ins op1, .ins op2]) lo hi := by
  simpa using h.append_ins [op1, op2]

/-- the marks that `compE` emits are fresh: distinct, taken from the counter range it consumes. -/
theorem compE_labels (cx : Ctx) (sc : Scopes) : ∀ (e : Expr) (m : Mode) (nl : Nat),
    nl ≤ (compE cx sc e m nl).2 ∧ LabelsIn (compE cx sc e m nl).1 nl (compE cx sc e m nl).2 := by
  intro e
  induction e with
  | lit n => intro m nl; simp only [compE]; exact ⟨Nat.le_refl _, withMode_labels (labelsIn_ins _ _ _)⟩
  | tt => intro m nl; simp only [compE]; exact ⟨Nat.le_refl _, withMode_labels (labelsIn_ins _ _ _)⟩
  | ff => intro m nl; simp only [compE]; exact ⟨Nat.le_refl _, withMode_labels (labelsIn_ins _ _ _)⟩
  | var x => intro m nl; simp only [compE]; exact ⟨Nat.le_refl _, withMode_labels (loadVar_labels _ _ _ _ _)⟩
  | paren e ih => intro m nl; simp only [compE]; exact ⟨(ih .val nl).1, withMode_labels (ih .val nl).2⟩
  | neg e ih => intro m nl; simp only [compE]; exact ⟨(ih .val nl).1, withMode_labels (labelsIn_one_more (ih .val nl).2 _)⟩
  | not e ih => intro m nl; simp only [compE]; exact ⟨(ih .val nl).1, withMode_labels (labelsIn_one_more (ih .val nl).2 _)⟩
  | bin op a b iha ihb =>
    intro m nl
    by_cases hlog : op = .land ∨ op = .lor
    · cases m with
      | jump cond t =>
        rw [compE_logic_jump cx sc op a b cond t nl hlog]
        have ha := iha (.jump (op == .lor) (if cond == (op == .lor) then t else nl)) (nl + 1)
        generalize compE cx sc a (.jump (op == .lor) (if cond == (op == .lor) then t else nl)) (nl + 1) = ra at ha ⊢
        have hb := ihb (.jump cond t) ra.2
        generalize compE cx sc b (.jump cond t) ra.2 = rb at hb ⊢
        refine ⟨by simp only; omega, ?_⟩
        exact (ha.2.append hb.2 ha.1 hb.1).snoc_lbl (Or.inl (by omega)) (by omega) (Nat.le_refl _) (Nat.le_refl _) (by simp only; omega)
      | val =>
        rw [compE_logic_val cx sc op a b nl hlog]
        have ha := iha (.jump (op == .lor) (nl + 1)) (nl + 2)
        generalize compE cx sc a (.jump (op == .lor) (nl + 1)) (nl + 2) = ra at ha ⊢
        have hb := ihb .val ra.2
        generalize compE cx sc b .val ra.2 = rb at hb ⊢
        refine ⟨by simp only; omega, ?_⟩
        have h1 := labelsIn_one_more (ha.2.append hb.2 ha.1 hb.1) (.jmp nl)
        have h2 := h1.snoc_lbl (l := nl + 1) (lo' := nl + 1) (hi' := rb.2) (Or.inl (by omega)) (by omega) (Nat.le_refl _) (Nat.le_refl _) (by omega)
        have h3 := labelsIn_one_more h2 (if (op == .lor) then .pushT else .pushF)
        have h4 := h3.snoc_lbl (l := nl) (lo' := nl) (hi' := rb.2) (Or.inl (by omega)) (by omega) (Nat.le_refl _) (Nat.le_refl _) (by omega)
        simpa using h4
    · have hc : (op == .land || op == .lor) = false := by cases op <;> simp_all
      simp only [compE, hc, Bool.false_eq_true, if_false]
      have ha := iha .val nl
      generalize compE cx sc a .val nl = ra at ha ⊢
      have hb := ihb .val ra.2
      generalize compE cx sc b .val ra.2 = rb at hb ⊢
      have hab := ha.2.append hb.2 ha.1 hb.1
      cases m with
      | val => exact ⟨by simp only; omega, labelsIn_one_more hab _⟩
      | jump cond t =>
        simp only
        cases jumpFor op with
        | some c => exact ⟨by simp only; omega, labelsIn_one_more hab _⟩
        | none =>
          refine ⟨by simp only; omega, ?_⟩
          cases cond <;> simpa [jumpOn] using labelsIn_two_more hab _ _
  | call0 f => intro m nl; simp only [compE]; exact ⟨Nat.le_refl _, withMode_labels (labelsIn_ins _ _ _)⟩
  | call1 f a iha =>
    intro m nl; simp only [compE]
    exact ⟨(iha .val nl).1, withMode_labels (labelsIn_one_more (iha .val nl).2 _)⟩
  | call2 f a b iha ihb =>
    intro m nl
    simp only [compE, emitReverse]
    have ha := iha .val nl
    generalize compE cx sc a .val nl = ra at ha ⊢
    have hb := ihb .val ra.2
    generalize compE cx sc b .val ra.2 = rb at hb ⊢
    refine ⟨by omega, withMode_labels ?_⟩
    have := labelsIn_two_more (ha.2.append hb.2 ha.1 hb.1) .swap (.call (cx.func f).1)
    simpa using this
  | call3 f a b c iha ihb ihc =>
    intro m nl
    simp only [compE, emitReverse]
    have ha := iha .val nl
    generalize compE cx sc a .val nl = ra at ha ⊢
    have hb := ihb .val ra.2
    generalize compE cx sc b .val ra.2 = rb at hb ⊢
    have hc := ihc .val rb.2
    generalize compE cx sc c .val rb.2 = rc at hc ⊢
    refine ⟨by omega, withMode_labels ?_⟩
    have := labelsIn_two_more ((ha.2.append hb.2 ha.1 hb.1).append hc.2 (by omega) hc.1) .reverse3 (.call (cx.func f).1)
    simpa using this

end NeoModel.CompileProofs

namespace NeoModel.CompileProofs
open NeoModel.MiniVm NeoModel.MiniVm.Asm NeoModel.MiniGo NeoModel.Compile

/-- three marks n, n+1, n+2 and code whose marks come from [n+3, hi), in any arrangement. -/
theorem labelsIn_front3 {c inner : Code} {n hi : Nat} (hi3 : n + 3 ≤ hi) (hin : LabelsIn inner (n + 3) hi)
    (hp : (labelsOf c).Perm ([n, n + 1, n + 2] ++ labelsOf inner)) : LabelsIn c n hi := by
  refine ⟨?_, ?_⟩
  · intro l hl
    have := hp.mem_iff.mp hl
    simp only [List.mem_append, List.mem_cons, List.not_mem_nil, or_false] at this
    rcases this with (h | h | h) | h
    · omega
    · omega
    · omega
    · have := hin.1 l h; omega
  · rw [hp.nodup_iff]
    refine List.nodup_append.mpr ⟨by simp, hin.2, ?_⟩
    intro x hx y hy hxy
    subst hxy
    have := hin.1 x hy
    simp at hx
    omega

theorem dropN_labels (n lo hi : Nat) : LabelsIn (dropN n) lo hi := by
  induction n with
  | zero => exact labelsIn_nil _ _
  | succ k ih => simpa [dropN] using ih.ins_append [.drop]

@[simp] theorem newLocal_nl (st : St) (x : String) : (st.newLocal x).nl = st.nl := by
  unfold St.newLocal; cases st.scopes <;> rfl
@[simp] theorem push_nl (st : St) : st.push.nl = st.nl := rfl
@[simp] theorem pop_nl (st : St) : st.pop.nl = st.nl := rfl

theorem labelsIn_cons_ins {c : Code} {lo hi : Nat} (h : LabelsIn c lo hi) (op : Op Nat) : LabelsIn (.ins op :: c) lo hi := by
  simpa using h.ins_append [op]

/-- the marks that `compS` emits are fresh. -/
theorem compS_labels (cx : Ctx) : ∀ (s : Stmt) (lp : LoopCtx) (st : St),
    st.nl ≤ (compS cx lp s st).2.nl ∧ LabelsIn (compS cx lp s st).1 st.nl (compS cx lp s st).2.nl := by
  intro s
  induction s with
  | skip => intro lp st; simp only [compS]; exact ⟨Nat.le_refl _, labelsIn_nil _ _⟩
  | seq a b iha ihb =>
    intro lp st
    simp only [compS]
    have ha := iha lp st
    have hb := ihb lp (compS cx lp a st).2
    exact ⟨Nat.le_trans ha.1 hb.1, ha.2.append hb.2 ha.1 hb.1⟩
  | define x e =>
    intro lp st
    simp only [compS, newLocal_nl]
    have he := compE_labels cx st.scopes e .val st.nl
    exact ⟨he.1, he.2.append (storeVar_labels _ _ _ _ _) he.1 (Nat.le_refl _)⟩
  | assign x e =>
    intro lp st
    simp only [compS]
    have he := compE_labels cx st.scopes e .val st.nl
    exact ⟨he.1, he.2.append (storeVar_labels _ _ _ _ _) he.1 (Nat.le_refl _)⟩
  | opAssign x op e =>
    intro lp st
    simp only [compS]
    have he := compE_labels cx st.scopes e .val st.nl
    refine ⟨he.1, ?_⟩
    have h1 := (loadVar_labels cx st.scopes x st.nl st.nl).append he.2 (Nat.le_refl _) he.1
    have h2 := labelsIn_one_more h1 (tokenOp op)
    exact h2.append (storeVar_labels _ _ _ _ _) he.1 (Nat.le_refl _)
  | inc x =>
    intro lp st
    simp only [compS]
    exact ⟨Nat.le_refl _, (labelsIn_one_more (loadVar_labels cx st.scopes x st.nl st.nl) _).append (storeVar_labels _ _ _ _ _) (Nat.le_refl _) (Nat.le_refl _)⟩
  | dec x =>
    intro lp st
    simp only [compS]
    exact ⟨Nat.le_refl _, (labelsIn_one_more (loadVar_labels cx st.scopes x st.nl st.nl) _).append (storeVar_labels _ _ _ _ _) (Nat.le_refl _) (Nat.le_refl _)⟩
  | varDecl x b init =>
    intro lp st
    cases init with
    | none =>
      simp only [compS, newLocal_nl]
      exact ⟨Nat.le_refl _, (labelsIn_ins _ _ _).append (storeVar_labels _ _ _ _ _) (Nat.le_refl _) (Nat.le_refl _)⟩
    | some e =>
      simp only [compS, newLocal_nl]
      have he := compE_labels cx (st.newLocal x).scopes e .val st.nl
      exact ⟨he.1, he.2.append (storeVar_labels _ _ _ _ _) he.1 (Nat.le_refl _)⟩
  | exprStmt e =>
    intro lp st
    simp only [compS]
    have he := compE_labels cx st.scopes e .val st.nl
    exact ⟨he.1, he.2.append (dropN_labels _ _ _) he.1 (Nat.le_refl _)⟩
  | discard e =>
    intro lp st
    simp only [compS]
    have he := compE_labels cx st.scopes e .val st.nl
    exact ⟨he.1, labelsIn_one_more he.2 _⟩
  | panicS e =>
    intro lp st
    simp only [compS]
    have he := compE_labels cx st.scopes e .val st.nl
    exact ⟨he.1, labelsIn_one_more he.2 _⟩
  | ret e =>
    intro lp st
    cases e with
    | none => simp only [compS]; exact ⟨Nat.le_refl _, labelsIn_ins _ _ _⟩
    | some e =>
      simp only [compS]
      have he := compE_labels cx st.scopes e .val st.nl
      exact ⟨he.1, labelsIn_one_more he.2 _⟩
  | brk =>
    intro lp st
    simp only [compS]
    refine ⟨Nat.le_refl _, ?_⟩
    cases lp with
    | none => exact labelsIn_nil _ _
    | some p => exact labelsIn_ins _ _ _
  | cont =>
    intro lp st
    simp only [compS]
    refine ⟨Nat.le_refl _, ?_⟩
    cases lp with
    | none => exact labelsIn_nil _ _
    | some p => exact labelsIn_ins _ _ _
  | block body ih =>
    intro lp st
    rw [compS_block]
    simpa using ih lp st.push
  | ite c thn k els iht ihe =>
    intro lp st
    have hc := compE_labels cx (ifSt0 st).scopes c (.jump false (st.nl + 1)) (ifSt0 st).nl
    have hc1 : st.nl + 3 ≤ (ifCond cx c st).2 := hc.1
    have hc2 : LabelsIn (ifCond cx c st).1 (st.nl + 3) (ifCond cx c st).2 := hc.2
    have ht := iht lp (ifStT cx c st)
    have ht1 : (ifCond cx c st).2 ≤ (ifSt1 cx lp c thn st).nl := ht.1
    have ht2 : LabelsIn (compS cx lp thn (ifStT cx c st)).1 (ifCond cx c st).2 (ifSt1 cx lp c thn st).nl := ht.2
    have hct := hc2.append ht2 hc1 ht1
    cases k with
    | none =>
      rw [compS_ite_none]
      refine ⟨by simp only [pop_nl]; omega, ?_⟩
      simp only [pop_nl]
      refine labelsIn_front3 (by omega) hct ?_
      apply List.perm_iff_count.mpr
      intro n
      simp only [labelsOf_append, labelsOf, List.count_append, List.count_cons, List.count_nil]
      omega
    | block =>
      rw [compS_ite_block]
      have he := ihe lp (ifSt1 cx lp c thn st).push
      simp only [push_nl] at he
      refine ⟨by simp only [pop_nl]; omega, ?_⟩
      simp only [pop_nl]
      refine labelsIn_front3 (by omega) (hct.append he.2 (by omega) he.1) ?_
      apply List.perm_iff_count.mpr
      intro n
      simp only [labelsOf_append, labelsOf, List.count_append, List.count_cons, List.count_nil]
      omega
    | elif =>
      rw [compS_ite_elif]
      have he := ihe lp (ifSt1 cx lp c thn st)
      refine ⟨by simp only [pop_nl]; omega, ?_⟩
      simp only [pop_nl]
      refine labelsIn_front3 (by omega) (hct.append he.2 (by omega) he.1) ?_
      apply List.perm_iff_count.mpr
      intro n
      simp only [labelsOf_append, labelsOf, List.count_append, List.count_cons, List.count_nil]
      omega
  | loop init cond post body ihi ihp ihb =>
    intro lp st
    rw [compS_loop]
    have hi := ihi lp (forSt0 st)
    have hi1 : st.nl + 3 ≤ (forSt1 cx lp init st).nl := hi.1
    have hi2 : LabelsIn (compS cx lp init (forSt0 st)).1 (st.nl + 3) (forSt1 cx lp init st).nl := hi.2
    have hcnd : (forSt1 cx lp init st).nl ≤ (forCond cx lp init cond st).2 ∧
        LabelsIn (forCond cx lp init cond st).1 (forSt1 cx lp init st).nl (forCond cx lp init cond st).2 := by
      cases cond with
      | none => exact ⟨Nat.le_refl _, labelsIn_nil _ _⟩
      | some c =>
        have := compE_labels cx (forSt1 cx lp init st).scopes c .val (forSt1 cx lp init st).nl
        exact ⟨this.1, labelsIn_one_more this.2 _⟩
    have hb := ihb (some (st.nl + 1, st.nl + 2)) (forStB cx lp init cond st)
    have hb1 : (forCond cx lp init cond st).2 ≤ (forSt3 cx lp init cond body st).nl := hb.1
    have hb2 : LabelsIn (compS cx (some (st.nl + 1, st.nl + 2)) body (forStB cx lp init cond st)).1 (forCond cx lp init cond st).2
        (forSt3 cx lp init cond body st).nl := hb.2
    have hp := ihp lp (forSt3 cx lp init cond body st)
    refine ⟨by simp only [pop_nl]; omega, ?_⟩
    simp only [pop_nl]
    refine labelsIn_front3 (by omega)
      (((hi2.append hcnd.2 hi1 hcnd.1).append hb2 (by omega) hb1).append hp.2 (by omega) hp.1) ?_
    apply List.perm_iff_count.mpr
    intro n
    simp only [labelsOf_append, labelsOf, List.count_append, List.count_cons, List.count_nil]
    omega

end NeoModel.CompileProofs

namespace NeoModel.CompileProofs
open NeoModel.MiniVm NeoModel.MiniVm.Asm NeoModel.MiniGo NeoModel.Compile

theorem compFunc_labels (tbl : List (String × Nat × Nat)) (d : FuncDecl) (label nl : Nat) (hl : label < nl) :
    nl ≤ (compFunc tbl d label nl).2 ∧
    (∀ x ∈ labelsOf (compFunc tbl d label nl).1, x = label ∨ (nl ≤ x ∧ x < (compFunc tbl d label nl).2)) ∧
    (labelsOf (compFunc tbl d label nl).1).Nodup := by
  have hb := compS_labels { funcs := tbl, args := d.params } (.block d.body) none { nl := nl, cnt := 0, scopes := [[]] }
  have hcode : (compFunc tbl d label nl).1 =
      [Item.lbl label, initSlotItem (compS { funcs := tbl, args := d.params } none (.block d.body) { nl := nl, cnt := 0, scopes := [[]] }).2.cnt d.params.length] ++
        (compS { funcs := tbl, args := d.params } none (.block d.body) { nl := nl, cnt := 0, scopes := [[]] }).1 ++
        (if lastIsRet d.body then [] else [Item.ins .ret]) := rfl
  have hnl : (compFunc tbl d label nl).2 = (compS { funcs := tbl, args := d.params } none (.block d.body) { nl := nl, cnt := 0, scopes := [[]] }).2.nl := rfl
  rw [hcode, hnl]
  generalize compS { funcs := tbl, args := d.params } none (.block d.body) { nl := nl, cnt := 0, scopes := [[]] } = r at hb ⊢
  have htail : labelsOf (if lastIsRet d.body then ([] : Code) else [Item.ins .ret]) = [] := by
    split <;> simp [labelsOf]
  have hinit : ∀ a b, labelsOf [Item.lbl label, initSlotItem a b] = [label] := by
    intro a b; simp only [initSlotItem]; split <;> simp [labelsOf]
  refine ⟨hb.1, ?_, ?_⟩
  · intro x hx
    simp only [labelsOf_append, hinit, htail, List.append_nil, List.mem_append, List.mem_cons, List.not_mem_nil, or_false] at hx
    rcases hx with h | h
    · exact Or.inl h
    · exact Or.inr (hb.2.1 x h)
  · simp only [labelsOf_append, hinit, htail, List.append_nil]
    refine List.nodup_append.mpr ⟨by simp, hb.2.2, ?_⟩
    intro x hx y hy hxy
    simp at hx
    subst hxy; subst hx
    have := (hb.2.1 _ hy).1
    simp only at this
    omega

theorem compFuncs_labels (tbl : List (String × Nat × Nat)) : ∀ (l : List FuncDecl) (i nl : Nat), i + l.length ≤ nl →
    ∃ nl', nl ≤ nl' ∧
      (∀ x ∈ labelsOf (compFuncs tbl l i nl), (i ≤ x ∧ x < i + l.length) ∨ (nl ≤ x ∧ x < nl')) ∧
      (labelsOf (compFuncs tbl l i nl)).Nodup := by
  intro l
  induction l with
  | nil => intro i nl _; exact ⟨nl, Nat.le_refl _, by simp [compFuncs, labelsOf], by simp [compFuncs, labelsOf]⟩
  | cons d r ih =>
    intro i nl hle
    simp only [List.length_cons] at hle
    have hf := compFunc_labels tbl d i nl (by omega)
    obtain ⟨nl', h1, h2, h3⟩ := ih (i + 1) (compFunc tbl d i nl).2 (by omega)
    simp only [compFuncs]
    refine ⟨nl', by omega, ?_, ?_⟩
    · intro x hx
      rw [labelsOf_append] at hx
      rcases List.mem_append.mp hx with h | h
      · rcases hf.2.1 x h with h | h
        · left; simp only [List.length_cons]; omega
        · right; omega
      · rcases h2 x h with h | h
        · left; simp only [List.length_cons]; omega
        · right; omega
    · rw [labelsOf_append]
      refine List.nodup_append.mpr ⟨hf.2.2, h3, ?_⟩
      intro x hx y hy hxy
      subst hxy
      rcases hf.2.1 x hx with h | h <;> rcases h2 x hy with h' | h' <;> omega

theorem compFuncs_placed (tbl : List (String × Nat × Nat)) : ∀ (l : List FuncDecl) (i nl j : Nat) (d : FuncDecl),
    l[j]? = some d → ∃ pre post nl', compFuncs tbl l i nl = pre ++ (compFunc tbl d (i + j) nl').1 ++ post := by
  intro l
  induction l with
  | nil => intro i nl j d h; simp at h
  | cons a r ih =>
    intro i nl j d h
    cases j with
    | zero =>
      simp at h; subst h
      exact ⟨[], compFuncs tbl r (i + 1) (compFunc tbl a i nl).2, nl, by simp [compFuncs]⟩
    | succ k =>
      simp at h
      obtain ⟨pre, post, nl', he⟩ := ih (i + 1) (compFunc tbl a i nl).2 k d h
      refine ⟨(compFunc tbl a i nl).1 ++ pre, post, nl', ?_⟩
      simp only [compFuncs, he]
      have : i + 1 + k = i + (k + 1) := by omega
      rw [this]; simp

/-- (4) the output of `compProg` satisfies the hypotheses of the simulation theorems: its label marks are unique
    and every function's code sits in it. -/
theorem progCode_compProg (P : Prog) : ProgCode (compProg P) P := by
  refine ⟨?_, ?_⟩
  · obtain ⟨_, _, _, h⟩ := compFuncs_labels (funcTable P) P 0 P.length (by omega)
    exact h
  · intro i d hi
    obtain ⟨pre, post, nl', he⟩ := compFuncs_placed (funcTable P) P 0 P.length i d hi
    exact ⟨pre.length, nl', pre, post, by simpa [compProg] using he, rfl⟩

end NeoModel.CompileProofs

namespace NeoModel.CompileProofs
open NeoModel.MiniVm NeoModel.MiniVm.Asm NeoModel.MiniGo NeoModel.Compile

/-- invocation of a function of the program from outside (no caller frame): the machine halts with the result. -/
theorem entry_halt {P : Prog} {C : Code} (hpc : ProgCode C P) (hall : ∀ d ∈ P, Allowed false d.body)
    {f : String} {vs rest : List Val} {v : Val} {fuel : Nat}
    (hrun : callF fuel P f vs = .ok v) (hdep : fuel < 1024) :
    ∃ pc0 n, findLabel C (fnLabel P f) = some pc0 ∧
      Asm.run C n { pc := pc0, stack := vs ++ rest, locals := [], args := [], frames := [] } = .halt (v :: rest) := by
  cases fuel with
  | zero => simp [callF] at hrun
  | succ k =>
    simp only [callF] at hrun
    cases hfind : P.find f with
    | none => rw [hfind] at hrun; simp at hrun
    | some d =>
      rw [hfind] at hrun
      simp only at hrun
      by_cases hlen : d.params.length = vs.length
      · have hne : (d.params.length != vs.length) = false := by simp [hlen]
        simp only [hne, Bool.false_eq_true, if_false] at hrun
        cases hex : exec k P { frames := [[]], args := d.params.zip vs } (.block d.body) with
        | ok out =>
          rw [hex] at hrun
          cases out with
          | ret r =>
            cases r with
            | none => simp at hrun
            | some v' =>
              simp only at hrun
              split at hrun
              · cases hrun
                obtain ⟨i, hi, hlab, _⟩ := fnLabel_of_find hfind
                obtain ⟨pc0, nl, hp⟩ := hpc.funcs i d hi
                have hmem : d ∈ P := List.mem_of_getElem? hi
                have hcode : (compFunc (funcTable P) d i nl).1 =
                    [Item.lbl i, initSlotItem (compS { funcs := funcTable P, args := d.params } none (.block d.body) { nl := nl, cnt := 0, scopes := [[]] }).2.cnt d.params.length] ++
                      (compS { funcs := funcTable P, args := d.params } none (.block d.body) { nl := nl, cnt := 0, scopes := [[]] }).1 ++
                      (if lastIsRet d.body then [] else [Item.ins .ret]) := rfl
                rw [hcode] at hp
                generalize hN : (compS { funcs := funcTable P, args := d.params } none (.block d.body) { nl := nl, cnt := 0, scopes := [[]] }).2.cnt = N at hp
                have hlbl : findLabel C i = some pc0 := hp.left.left.label hpc.nodup
                refine ⟨pc0, ?_⟩
                have h1 := skip_lbl (σ := State.mk pc0 (vs ++ rest) [] [] [] false) hp.left.left
                obtain ⟨b, h2⟩ := initSlot_stepF (C := C) (σ := State.mk (pc0 + 1) (vs ++ rest) [] [] [] false)
                  (N := N) (vs := vs) (rest := rest) hlen hp.left.left.tail.head rfl rfl rfl rfl
                have hrel : VarsRel { funcs := funcTable P, args := d.params } [[]] { frames := [[]], args := d.params.zip vs } (List.replicate N .null) vs :=
                  ⟨by simp [FramesRel, FrameRel], zip_fst _ _ hlen, zip_snd _ _ hlen⟩
                have hwf : Wf { nl := nl, cnt := 0, scopes := [[]] } := ⟨by simp [slotsOf], by simp [slotsOf], by simp⟩
                have hbody := (allOK hpc hall k).stmt { funcs := funcTable P, args := d.params } rfl (.block d.body) none 0 false
                  { nl := nl, cnt := 0, scopes := [[]] } _ (State.mk (pc0 + 1 + 1) rest (List.replicate N .null) vs [] b) _
                  (by simpa [Allowed] using hall d hmem) (by intro h; cases h) (Or.inr ⟨_, rfl⟩) hex
                  (hp.left.right.cast (by simp)) hrel hwf (by simp [hN]) (by simp; omega)
                obtain ⟨σ3, hr3, hret, hst3, hfr3⟩ := hbody
                obtain ⟨n, hn⟩ := run_halt (stk := v :: rest) (h1.trans (h2.trans hr3))
                  (by simp only at hst3 hfr3; simp [Asm.step, hret, stepOp, hfr3, hst3])
                exact ⟨n, by rw [hlab]; exact hlbl, hn⟩
              · cases hrun
          | norm e => simp at hrun
          | brk e => simp at hrun
          | cont e => simp at hrun
        | panic => rw [hex] at hrun; simp at hrun
        | overflow => rw [hex] at hrun; simp at hrun
        | stuck => rw [hex] at hrun; simp at hrun
        | timeout => rw [hex] at hrun; simp at hrun
      · have hne : (d.params.length != vs.length) = true := by simpa using hlen
        simp [hne] at hrun

end NeoModel.CompileProofs

