/-
C12, item sizes in the specification machine, part 2: the helpers that create items or heap objects
(`cloneIfStruct`, `cloneAll`, `convert`, `mapSet`, `packMapLoop`, `flattenKV`, `fillItem`, the
diagnostic messages) keep the size invariant; the tactics that run the weakest-precondition
calculus over an instruction of `execPure`.
-/
import NeoModel.Proofs.VmAcctSpecSizeBase
namespace NeoModel.Vm

/-! ### byte length of the diagnostic strings -/

theorem ba_toList_loop (bs : ByteArray) : ∀ (k i : Nat) (r : List UInt8), bs.size - i = k →
    (ByteArray.toList.loop bs i r).length = r.length + k := by
  intro k
  induction k with
  | zero =>
    intro i r hk
    unfold ByteArray.toList.loop
    have : ¬ i < bs.size := by omega
    simp [this]
  | succ k ih =>
    intro i r hk
    unfold ByteArray.toList.loop
    have : i < bs.size := by omega
    simp only [this, if_true]
    rw [ih (i+1) _ (by omega)]
    simp; omega

theorem ba_toList_length (bs : ByteArray) : bs.toList.length = bs.size := by
  unfold ByteArray.toList
  rw [ba_toList_loop bs bs.size 0 [] (by omega)]; simp

theorem flatMap_enc_le : ∀ (l : List Char), (l.flatMap String.utf8EncodeChar).length ≤ 4 * l.length := by
  intro l
  induction l with
  | nil => simp
  | cons c t ih =>
    simp only [List.flatMap_cons, List.length_append, String.length_utf8EncodeChar, List.length_cons]
    have := Char.utf8Size_le_four c
    omega

/-- a string has at most four bytes per character -/
theorem utf8ByteSize_le (s : String) : s.utf8ByteSize ≤ 4 * s.length := by
  have h1 : s = String.ofList s.toList := String.ofList_toList.symm
  have h2 : s.utf8ByteSize = s.toByteArray.size := rfl
  rw [h2]
  conv => lhs; rw [h1]
  rw [String.toByteArray_ofList]
  simp only [List.utf8Encode]
  have := flatMap_enc_le s.toList
  simpa [String.length] using this

theorem asciiBytes_length (s : String) : (asciiBytes s).length = s.utf8ByteSize := by
  simp only [asciiBytes, String.toUTF8]
  rw [ba_toList_length]; rfl

theorem keyNotFound_ok : ItemOk (.bytes (asciiBytes "Key not found in Map")) := by
  show (asciiBytes "Key not found in Map").length ≤ maxItemSize
  rw [asciiBytes_length]
  have := utf8ByteSize_le "Key not found in Map"
  have : "Key not found in Map".length = 20 := by decide
  simp only [maxItemSize]; omega

theorem natRepr_length (n : Nat) (h : n < 10 ^ 10) : n.repr.length ≤ 10 := (Nat.length_repr_le_iff (by decide)).2 h

/-- the message of the catchable out-of-range exception of PICKITEM / SETITEM (a decimal 32-bit
index inside a fixed text) is a legal item -/
theorem outOfRangeMsg_ok (i : Int) (h : -(2:Int)^31 ≤ i ∧ i < (2:Int)^31) : ItemOk (outOfRangeMsg i) := by
  show (asciiBytes s!"The value {i} is out of range.").length ≤ maxItemSize
  rw [asciiBytes_length]
  simp only [toString, String.utf8ByteSize_append]
  have h1 := utf8ByteSize_le "The value "
  have h2 := utf8ByteSize_le " is out of range."
  have h3 := utf8ByteSize_le i.repr
  have l1 : "The value ".length = 10 := by decide
  have l2 : " is out of range.".length = 17 := by decide
  have l3 : i.repr.length ≤ 11 := by
    cases i with
    | ofNat m =>
      simp only [Int.repr]
      have : m < 10 ^ 10 := by simp only [Int.ofNat_eq_natCast] at h; omega
      have := natRepr_length m this; omega
    | negSucc m =>
      simp only [Int.repr, String.length_append]
      have : m.succ < 10 ^ 10 := by
        have := h.1
        simp only [Int.negSucc_eq] at this; omega
      have := natRepr_length m.succ this
      have : "-".length = 1 := by decide
      omega
  simp only [maxItemSize]; omega

theorem toInt32_range {n i : Int} (h : toInt32 n = some i) : -(2:Int)^31 ≤ i ∧ i < (2:Int)^31 := by
  simp only [toInt32] at h
  split at h
  · simp only [Option.some.injEq] at h; subst h; assumption
  · cases h

/-! ### Struct.Clone, cpValues -/

theorem cloneFields_ok (rec : Heap → Nat → Nat → Option (Heap × Nat × Nat))
    (hrec : ∀ h sid lim h' nid lim', rec h sid lim = some (h', nid, lim') → HeapOk h → HeapOk h') :
    ∀ (xs : List Item) (h : Heap) (lim : Nat) (h' : Heap) (ys : List Item) (lim' : Nat),
      cloneFields rec xs h lim = some (h', ys, lim') → HeapOk h → StackOk xs → HeapOk h' ∧ StackOk ys := by
  intro xs
  induction xs with
  | nil =>
    intro h lim h' ys lim' hc hh _
    simp only [cloneFields, Option.some.injEq, Prod.mk.injEq] at hc
    obtain ⟨rfl, rfl, _⟩ := hc
    exact ⟨hh, stackOk_nil⟩
  | cons x t ih =>
    intro h lim h' ys lim' hc hh hs
    simp only [cloneFields] at hc
    split at hc
    · cases hc
    · have plain : (match cloneFields rec t h (lim - 1) with
          | none => none
          | some (h, ys, lim) => some (h, x :: ys, lim)) = some (h', ys, lim') → HeapOk h' ∧ StackOk ys := by
        intro hc
        split at hc
        · cases hc
        · rename_i h2 ys2 lim2 heq
          simp only [Option.some.injEq, Prod.mk.injEq] at hc
          obtain ⟨rfl, rfl, _⟩ := hc
          obtain ⟨g1, g2⟩ := ih h (lim - 1) h2 ys2 lim2 heq hh hs.tail
          exact ⟨g1, StackOk.cons hs.head g2⟩
      cases x with
      | struct sid =>
        simp only at hc
        split at hc
        · cases hc
        · rename_i h1 nid lim1 hr
          have hh1 := hrec _ _ _ _ _ _ hr hh
          split at hc
          · cases hc
          · rename_i h2 ys2 lim2 heq
            simp only [Option.some.injEq, Prod.mk.injEq] at hc
            obtain ⟨rfl, rfl, _⟩ := hc
            obtain ⟨g1, g2⟩ := ih h1 lim1 h2 ys2 lim2 heq hh1 hs.tail
            exact ⟨g1, StackOk.cons trivial g2⟩
      | null => exact plain hc
      | bool b => exact plain hc
      | int n => exact plain hc
      | bytes b => exact plain hc
      | buffer id => exact plain hc
      | array id => exact plain hc
      | map id => exact plain hc
      | pointer p s => exact plain hc
      | interop id => exact plain hc

theorem cloneStructAux_ok : ∀ (f : Nat) (h : Heap) (id lim : Nat) (h' : Heap) (nid lim' : Nat),
    cloneStructAux f h id lim = some (h', nid, lim') → HeapOk h → HeapOk h' := by
  intro f
  induction f with
  | zero => intro h id lim h' nid lim' hc; simp [cloneStructAux] at hc
  | succ f ih =>
    intro h id lim h' nid lim' hc hh
    simp only [cloneStructAux] at hc
    split at hc
    · cases hc
    · rename_i xs hx
      split at hc
      · cases hc
      · rename_i h2 ys lim2 heq
        simp only [Heap.alloc, Option.some.injEq, Prod.mk.injEq] at hc
        obtain ⟨rfl, _, _⟩ := hc
        obtain ⟨g1, g2⟩ := cloneFields_ok (cloneStructAux f) ih xs h lim h2 ys lim2 heq hh (hh.getItems hx)
        exact g1.push g2

theorem cloneIfStruct_ok {h h' : Heap} {x y : Item} (hc : cloneIfStruct h x = some (h', y)) (hh : HeapOk h) (hx : ItemOk x) :
    HeapOk h' ∧ ItemOk y := by
  cases x with
  | struct id =>
    simp only [cloneIfStruct] at hc
    split at hc
    · cases hc
    · rename_i h1 nid l1 heq
      simp only [Option.some.injEq, Prod.mk.injEq] at hc
      obtain ⟨rfl, rfl⟩ := hc
      exact ⟨cloneStructAux_ok _ _ _ _ _ _ _ heq hh, trivial⟩
  | null => simp only [cloneIfStruct, Option.some.injEq, Prod.mk.injEq] at hc; obtain ⟨rfl, rfl⟩ := hc; exact ⟨hh, hx⟩
  | bool b => simp only [cloneIfStruct, Option.some.injEq, Prod.mk.injEq] at hc; obtain ⟨rfl, rfl⟩ := hc; exact ⟨hh, hx⟩
  | int n => simp only [cloneIfStruct, Option.some.injEq, Prod.mk.injEq] at hc; obtain ⟨rfl, rfl⟩ := hc; exact ⟨hh, hx⟩
  | bytes b => simp only [cloneIfStruct, Option.some.injEq, Prod.mk.injEq] at hc; obtain ⟨rfl, rfl⟩ := hc; exact ⟨hh, hx⟩
  | buffer id => simp only [cloneIfStruct, Option.some.injEq, Prod.mk.injEq] at hc; obtain ⟨rfl, rfl⟩ := hc; exact ⟨hh, hx⟩
  | array id => simp only [cloneIfStruct, Option.some.injEq, Prod.mk.injEq] at hc; obtain ⟨rfl, rfl⟩ := hc; exact ⟨hh, hx⟩
  | map id => simp only [cloneIfStruct, Option.some.injEq, Prod.mk.injEq] at hc; obtain ⟨rfl, rfl⟩ := hc; exact ⟨hh, hx⟩
  | pointer p s => simp only [cloneIfStruct, Option.some.injEq, Prod.mk.injEq] at hc; obtain ⟨rfl, rfl⟩ := hc; exact ⟨hh, hx⟩
  | interop id => simp only [cloneIfStruct, Option.some.injEq, Prod.mk.injEq] at hc; obtain ⟨rfl, rfl⟩ := hc; exact ⟨hh, hx⟩

theorem cloneAll_ok : ∀ (xs : List Item) (h h' : Heap) (ys : List Item), cloneAll h xs = some (h', ys) → HeapOk h → StackOk xs →
    HeapOk h' ∧ StackOk ys := by
  intro xs
  induction xs with
  | nil =>
    intro h h' ys hc hh _
    simp only [cloneAll, Option.some.injEq, Prod.mk.injEq] at hc
    obtain ⟨rfl, rfl⟩ := hc
    exact ⟨hh, stackOk_nil⟩
  | cons x t ih =>
    intro h h' ys hc hh hs
    simp only [cloneAll] at hc
    split at hc
    · cases hc
    · rename_i h1 y heq
      obtain ⟨g1, gy⟩ := cloneIfStruct_ok heq hh hs.head
      split at hc
      · cases hc
      · rename_i h2 ys2 heq2
        simp only [Option.some.injEq, Prod.mk.injEq] at hc
        obtain ⟨rfl, rfl⟩ := hc
        obtain ⟨g2, gys⟩ := ih h1 h2 ys2 heq2 g1 hs.tail
        exact ⟨g2, StackOk.cons gy gys⟩

/-! ### CONVERT -/

theorem convert_ok {h h' : Heap} {x y : Item} {t : UInt8} (hc : convert h x t = some (h', y)) (hh : HeapOk h) (hx : ItemOk x) :
    HeapOk h' ∧ ItemOk y := by
  have prim : ∀ x : Item, ItemOk x →
      (if x.typeByte == t then some (h, x)
        else if t == tInteger then (x.toInteger.bind checkInt).map fun n => (h, .int n)
        else if t == tByteString then (x.toBytes h).map fun b => (h, .bytes b)
        else if t == tBuffer then (x.toBytes h).map fun b => let (h, id) := h.alloc (.buf b); (h, .buffer id)
        else if t == tBoolean then x.toBool.map fun b => (h, .bool b)
        else none) = some (h', y) → HeapOk h' ∧ ItemOk y := by
    intro x hx hc
    split at hc
    · simp only [Option.some.injEq, Prod.mk.injEq] at hc; obtain ⟨rfl, rfl⟩ := hc; exact ⟨hh, hx⟩
    · split at hc
      · simp only [Option.map_eq_some_iff, Prod.mk.injEq] at hc
        obtain ⟨n, _, rfl, rfl⟩ := hc; exact ⟨hh, trivial⟩
      · split at hc
        · simp only [Option.map_eq_some_iff, Prod.mk.injEq] at hc
          obtain ⟨b, hb, rfl, rfl⟩ := hc; exact ⟨hh, toBytes_ok hh hx hb⟩
        · split at hc
          · simp only [Option.map_eq_some_iff, Prod.mk.injEq, Heap.alloc] at hc
            obtain ⟨b, hb, rfl, rfl⟩ := hc
            exact ⟨hh.push (toBytes_ok hh hx hb), trivial⟩
          · split at hc
            · simp only [Option.map_eq_some_iff, Prod.mk.injEq] at hc
              obtain ⟨b, _, rfl, rfl⟩ := hc; exact ⟨hh, trivial⟩
            · cases hc
  cases x with
  | null =>
    simp only [convert] at hc
    split at hc
    · cases hc
    · simp only [Option.some.injEq, Prod.mk.injEq] at hc; obtain ⟨rfl, rfl⟩ := hc; exact ⟨hh, trivial⟩
  | bool b => simp only [convert] at hc; exact prim _ hx hc
  | int n => simp only [convert] at hc; exact prim _ hx hc
  | bytes b => simp only [convert] at hc; exact prim _ hx hc
  | buffer id =>
    simp only [convert] at hc
    split at hc
    · simp only [Option.some.injEq, Prod.mk.injEq] at hc; obtain ⟨rfl, rfl⟩ := hc; exact ⟨hh, trivial⟩
    · split at hc
      · simp only [Option.some.injEq, Prod.mk.injEq] at hc; obtain ⟨rfl, rfl⟩ := hc; exact ⟨hh, trivial⟩
      · split at hc
        · simp only [Option.map_eq_some_iff, Prod.mk.injEq] at hc
          obtain ⟨b, hb, rfl, rfl⟩ := hc; exact ⟨hh, hh.getBuf hb⟩
        · split at hc
          · simp only [Option.bind_eq_some_iff] at hc
            obtain ⟨b, _, hc⟩ := hc
            split at hc
            · cases hc
            · simp only [Option.map_eq_some_iff, Prod.mk.injEq] at hc
              obtain ⟨n, _, rfl, rfl⟩ := hc; exact ⟨hh, trivial⟩
          · cases hc
  | array id =>
    simp only [convert] at hc
    split at hc
    · simp only [Option.some.injEq, Prod.mk.injEq] at hc; obtain ⟨rfl, rfl⟩ := hc; exact ⟨hh, trivial⟩
    · split at hc
      · simp only [Option.map_eq_some_iff, Prod.mk.injEq, Heap.alloc] at hc
        obtain ⟨xs, hxs, rfl, rfl⟩ := hc
        exact ⟨hh.push (hh.getItems hxs), trivial⟩
      · split at hc
        · simp only [Option.some.injEq, Prod.mk.injEq] at hc; obtain ⟨rfl, rfl⟩ := hc; exact ⟨hh, trivial⟩
        · cases hc
  | struct id =>
    simp only [convert] at hc
    split at hc
    · simp only [Option.some.injEq, Prod.mk.injEq] at hc; obtain ⟨rfl, rfl⟩ := hc; exact ⟨hh, trivial⟩
    · split at hc
      · simp only [Option.map_eq_some_iff, Prod.mk.injEq, Heap.alloc] at hc
        obtain ⟨xs, hxs, rfl, rfl⟩ := hc
        exact ⟨hh.push (hh.getItems hxs), trivial⟩
      · split at hc
        · simp only [Option.some.injEq, Prod.mk.injEq] at hc; obtain ⟨rfl, rfl⟩ := hc; exact ⟨hh, trivial⟩
        · cases hc
  | map id =>
    simp only [convert] at hc
    split at hc
    · simp only [Option.some.injEq, Prod.mk.injEq] at hc; obtain ⟨rfl, rfl⟩ := hc; exact ⟨hh, trivial⟩
    · split at hc
      · simp only [Option.some.injEq, Prod.mk.injEq] at hc; obtain ⟨rfl, rfl⟩ := hc; exact ⟨hh, trivial⟩
      · cases hc
  | pointer p s =>
    simp only [convert] at hc
    split at hc
    · simp only [Option.some.injEq, Prod.mk.injEq] at hc; obtain ⟨rfl, rfl⟩ := hc; exact ⟨hh, trivial⟩
    · split at hc
      · simp only [Option.some.injEq, Prod.mk.injEq] at hc; obtain ⟨rfl, rfl⟩ := hc; exact ⟨hh, trivial⟩
      · cases hc
  | interop id =>
    simp only [convert] at hc
    split at hc
    · simp only [Option.some.injEq, Prod.mk.injEq] at hc; obtain ⟨rfl, rfl⟩ := hc; exact ⟨hh, trivial⟩
    · split at hc
      · simp only [Option.some.injEq, Prod.mk.injEq] at hc; obtain ⟨rfl, rfl⟩ := hc; exact ⟨hh, trivial⟩
      · cases hc

/-! ### maps -/

def EntriesOk (kv : List (Item × Item)) : Prop := ∀ e ∈ kv, ItemOk e.1 ∧ ItemOk e.2

theorem entriesOk_nil : EntriesOk [] := by intro e he; cases he

theorem mapSet_ok : ∀ (kv : List (Item × Item)) (k v : Item), EntriesOk kv → ItemOk k → ItemOk v → EntriesOk (mapSet kv k v) := by
  intro kv
  induction kv with
  | nil =>
    intro k v _ hk hv e he
    simp only [mapSet, List.mem_singleton] at he
    subst he; exact ⟨hk, hv⟩
  | cons p t ih =>
    intro k v hkv hk hv
    obtain ⟨k', v'⟩ := p
    simp only [mapSet]
    split
    · intro e he
      rcases List.mem_cons.1 he with rfl | he
      · exact ⟨(hkv (k', v') (List.mem_cons_self ..)).1, hv⟩
      · exact hkv e (List.mem_cons_of_mem _ he)
    · intro e he
      rcases List.mem_cons.1 he with rfl | he
      · exact hkv (k', v') (List.mem_cons_self ..)
      · exact ih k v (fun e he => hkv e (List.mem_cons_of_mem _ he)) hk hv e he

theorem flattenKV_ok : ∀ (kv : List (Item × Item)), EntriesOk kv → StackOk (flattenKV kv) := by
  intro kv
  induction kv with
  | nil => intro _; exact stackOk_nil
  | cons p t ih =>
    intro h
    obtain ⟨k, v⟩ := p
    simp only [flattenKV]
    have := h (k, v) (List.mem_cons_self ..)
    exact StackOk.cons this.1 (StackOk.cons this.2 (ih (fun e he => h e (List.mem_cons_of_mem _ he))))

theorem keys_ok {kv : List (Item × Item)} (h : EntriesOk kv) : StackOk (kv.map (·.1)) := by
  intro x hx
  obtain ⟨e, he, rfl⟩ := List.mem_map.1 hx
  exact (h e he).1

theorem values_ok {kv : List (Item × Item)} (h : EntriesOk kv) : StackOk (kv.map (·.2)) := by
  intro x hx
  obtain ⟨e, he, rfl⟩ := List.mem_map.1 hx
  exact (h e he).2

theorem filter_ok {kv : List (Item × Item)} (h : EntriesOk kv) (p : Item × Item → Bool) : EntriesOk (kv.filter p) :=
  fun e he => h e (List.mem_filter.1 he).1

theorem find_ok {kv : List (Item × Item)} (h : EntriesOk kv) {p : Item × Item → Bool} {e : Item × Item} (he : kv.find? p = some e) :
    ItemOk e.2 := (h e (List.mem_of_find?_eq_some he)).2

theorem wp_packMapLoop : ∀ (n : Nat) (st : List Item) (m : List (Item × Item)) {Q : List (Item × Item) × List Item → Prop},
    StackOk st → EntriesOk m → (∀ m' st', EntriesOk m' → StackOk st' → Q (m', st')) → WP (packMapLoop n st m) Q := by
  intro n
  induction n with
  | zero => intro st m Q hs hm k; simp only [packMapLoop]; exact wp_ok (k m st hm hs)
  | succ n ih =>
    intro st m Q hs hm k
    match st with
    | [] => simp only [packMapLoop]; exact wp_error
    | [_] => simp only [packMapLoop]; exact wp_error
    | key :: v :: r =>
      simp only [packMapLoop]
      split
      · exact ih r _ hs.tail.tail (mapSet_ok m key v hm hs.head hs.tail.head) k
      · exact wp_error

theorem fillItem_ok (t : UInt8) : ItemOk (fillItem t) := by
  unfold fillItem
  split
  · trivial
  · split
    · trivial
    · split
      · show ([] : Bytes).length ≤ maxItemSize; simp
      · trivial

end NeoModel.Vm
