/-
C17 — the stack-item serialiser with its `seen` cache (Model/Wire/ItemDag.lean) refines the tree serialiser
(Model/Wire/Item.lean): same bytes, same failures, for every acyclic item graph.
-/
import NeoModel.Model.Wire.ItemDag
import NeoModel.Proofs.WireItem
namespace NeoModel.Wire
open NeoModel.Generated

/-! ### the serialiser with its cache refines the tree serialiser -/

section
variable (prot : Bool) (g : Graph) (ts : List Item)

/-- node `j` is being written (the `sliceNoPointer{}` marker is its latest entry). -/
def ip (st : SerSt) (j : Nat) : Prop := ∃ sn, seenFind st.seen j = some sn ∧ sn.s = sn.e

/-- every finished entry of `seen` is right: the recorded byte range holds the tree encoding of the node, the
recorded count is its tree count, and it passed the protected-items check. -/
def FinOK (st : SerSt) : Prop :=
  ∀ j sn, seenFind st.seen j = some sn → sn.s ≠ sn.e →
    sn.s < sn.e ∧ sn.e ≤ st.data.length ∧ ∃ v, ts[j]? = some v ∧ (st.data.drop sn.s).take (sn.e - sn.s) = Item.enc v
      ∧ sn.c = Item.count v ∧ (prot = true ∨ Item.hasInvalid v = false)

/-- when the tree serialiser, continuing from `st`, accepts `v`. -/
def okT (st : SerSt) (v : Item) : Prop :=
  Item.count v ≤ st.limit ∧ (st.data ++ Item.enc v).length ≤ WireLimits.stackMaxSize
    ∧ (prot = true ∨ Item.hasInvalid v = false)

def okL (st : SerSt) (vs : List Item) : Prop :=
  Item.countList vs ≤ st.limit ∧ (st.data ++ Item.encList vs).length ≤ WireLimits.stackMaxSize
    ∧ (prot = true ∨ Item.hasInvalidList vs = false)

def okP (st : SerSt) (m : List (Item × Item)) : Prop :=
  Item.countPairs m ≤ st.limit ∧ (st.data ++ Item.encPairs m).length ≤ WireLimits.stackMaxSize
    ∧ (prot = true ∨ Item.hasInvalidPairs m = false)

structure Post (st st' : SerSt) (bytes : Bytes) (cnt : Nat) : Prop where
  data : st'.data = st.data ++ bytes
  limit : st'.limit = st.limit - cnt
  fin : FinOK prot ts st'
  ips : ∀ j, ip st' j ↔ ip st j

def GItem.under (n : Nat) : GItem → Prop
  | .prim _ => True
  | .ref id => id < n

def GComp.under (n : Nat) : GComp → Prop
  | .array cs => ∀ x ∈ cs, x.under n
  | .struct cs => ∀ x ∈ cs, x.under n
  | .map kvs => ∀ p ∈ kvs, p.1.under n ∧ p.2.under n

/-- `ts` are the trees of the nodes of `g`, every node mentioning only earlier nodes. -/
structure Resolves : Prop where
  len : ts.length = g.length
  node : ∀ (id : Nat) (c : GComp), g[id]? = some c → ∃ t, ts[id]? = some t ∧ c.tree ts = some t ∧ c.under id

def Spec (f : SerSt → GItem → Option SerSt) (L : Nat) : Prop :=
  ∀ n st x v, st.limit ≤ L → FinOK prot ts st → (∀ j, ip st j → n ≤ j) → x.tree ts = some v → x.under n →
    (okT prot st v → ∃ st', f st x = some st' ∧ Post prot ts st st' (Item.enc v) (Item.count v))
    ∧ (¬ okT prot st v → f st x = none)
end

theorem seenFind_cons (e : SeenE) (l : List SeenE) (j : Nat) :
    seenFind (e :: l) j = if e.id = j then some e else seenFind l j := by
  simp only [seenFind, List.find?]
  by_cases h : e.id = j
  · simp [h]
  · have : (e.id == j) = false := by simp [h]
    simp [this, h]

theorem take_drop_append (data more : Bytes) (s e : Nat) (he : e ≤ data.length) :
    ((data ++ more).drop s).take (e - s) = (data.drop s).take (e - s) := by
  by_cases hs : s ≤ data.length
  · rw [List.drop_append_of_le_length hs, List.take_append_of_le_length (by simp; omega)]
  · have : e - s = 0 := by omega
    simp [this]

theorem take_drop_self (data x : Bytes) : ((data ++ x).drop data.length).take ((data ++ x).length - data.length) = x := by
  simp

theorem FinOK_append {prot : Bool} {ts : List Item} {st : SerSt} (h : FinOK prot ts st) (more : Bytes) (l : Nat) :
    FinOK prot ts { st with data := st.data ++ more, limit := l } := by
  intro j sn hf hne
  obtain ⟨h1, h2, v, hv, hd, hc, hi⟩ := h j sn hf hne
  refine ⟨h1, by simp; omega, v, hv, ?_, hc, hi⟩
  simp only
  rw [take_drop_append _ _ _ _ h2]; exact hd

theorem ip_data {st : SerSt} (d : Bytes) (l : Nat) (j : Nat) :
    ip { st with data := d, limit := l } j ↔ ip st j := Iff.rfl

theorem treeList_length {ts : List Item} : ∀ (xs : List GItem) (vs : List Item), treeList ts xs = some vs → vs.length = xs.length := by
  intro xs
  induction xs with
  | nil => intro vs h; simp [treeList] at h; subst h; rfl
  | cons x xs ih =>
    intro vs h
    simp only [treeList] at h
    split at h
    · simp at h
    · split at h
      · simp at h
      · rename_i vs' hvs
        simp at h; subst h
        simp [ih _ hvs]

theorem treePairs_length {ts : List Item} : ∀ (xs : List (GItem × GItem)) (vs : List (Item × Item)),
    treePairs ts xs = some vs → vs.length = xs.length := by
  intro xs
  induction xs with
  | nil => intro vs h; simp [treePairs] at h; subst h; rfl
  | cons x xs ih =>
    obtain ⟨k, v⟩ := x
    intro vs h
    simp only [treePairs] at h
    split at h
    · simp at h
    · split at h
      · simp at h
      · split at h
        · simp at h
        · rename_i vs' hvs
          simp at h; subst h
          simp [ih _ hvs]

theorem okL_cons {prot : Bool} (st st₁ : SerSt) (v : Item) (vs : List Item) (hd : st₁.data = st.data ++ Item.enc v)
    (hl : st₁.limit = st.limit - Item.count v) :
    okL prot st (v :: vs) ↔ okT prot st v ∧ okL prot st₁ vs := by
  simp only [okL, okT, Item.countList, Item.encList, Item.hasInvalidList, hd, hl, List.append_assoc, List.length_append,
    Bool.or_eq_false_iff]
  constructor
  · rintro ⟨h1, h2, h3⟩
    refine ⟨⟨by omega, by omega, ?_⟩, by omega, by omega, ?_⟩
    · rcases h3 with h3 | h3
      · exact Or.inl h3
      · exact Or.inr h3.1
    · rcases h3 with h3 | h3
      · exact Or.inl h3
      · exact Or.inr h3.2
  · rintro ⟨⟨a1, a2, a3⟩, b1, b2, b3⟩
    refine ⟨by omega, by omega, ?_⟩
    rcases a3 with a3 | a3
    · exact Or.inl a3
    · rcases b3 with b3 | b3
      · exact Or.inl b3
      · exact Or.inr ⟨a3, b3⟩

/-- lists: the element spec lifts to `serListWith`. A list that does not fit may still come back when only the
size is exceeded (nothing in the loop checks the size of an empty tail): the caller's final size check refuses it. -/
theorem serList_spec {prot : Bool} {ts : List Item} {f : SerSt → GItem → Option SerSt} {L : Nat}
    (hf : Spec prot ts f L) :
    ∀ (xs : List GItem) (vs : List Item) (n : Nat) (st : SerSt), st.limit ≤ L → FinOK prot ts st →
      (∀ j, ip st j → n ≤ j) → treeList ts xs = some vs → (∀ x ∈ xs, x.under n) →
      (okL prot st vs → ∃ st', serListWith f st xs = some st' ∧ Post prot ts st st' (Item.encList vs) (Item.countList vs))
      ∧ (¬ okL prot st vs → ∀ st', serListWith f st xs = some st' → st'.data.length > WireLimits.stackMaxSize) := by
  intro xs
  induction xs with
  | nil =>
    intro vs n st _ hfin _ ht _
    simp [treeList] at ht; subst ht
    constructor
    · intro _
      exact ⟨st, rfl, ⟨by simp [Item.encList], by simp [Item.countList], hfin, fun _ => Iff.rfl⟩⟩
    · intro hn st' hs
      simp [serListWith] at hs; subst hs
      simp only [okL, Item.countList, Item.encList, Item.hasInvalidList, List.append_nil, Nat.zero_le, true_and, or_true,
        and_true] at hn
      omega
  | cons x xs ih =>
    intro vs n st hL hfin hip ht hund
    simp only [treeList] at ht
    split at ht
    · simp at ht
    · rename_i v hv
      split at ht
      · simp at ht
      · rename_i vs' hvs
        simp at ht; subst ht
        obtain ⟨e1, e2⟩ := hf n st x v hL hfin hip hv (hund x (by simp))
        by_cases hok : okT prot st v
        · obtain ⟨st₁, hs1, p1⟩ := e1 hok
          have hL1 : st₁.limit ≤ L := by rw [p1.limit]; omega
          have hip1 : ∀ j, ip st₁ j → n ≤ j := fun j hj => hip j ((p1.ips j).mp hj)
          obtain ⟨i1, i2⟩ := ih vs' n st₁ hL1 p1.fin hip1 hvs (fun y hy => hund y (by simp [hy]))
          have hiff := okL_cons (prot := prot) st st₁ v vs' p1.data p1.limit
          constructor
          · intro hokl
            obtain ⟨st', hs', p'⟩ := i1 (hiff.mp hokl).2
            refine ⟨st', by simp [serListWith, hs1, hs'], ⟨?_, ?_, p'.fin, fun j => (p'.ips j).trans (p1.ips j)⟩⟩
            · rw [p'.data, p1.data]; simp [Item.encList]
            · rw [p'.limit, p1.limit]; simp only [Item.countList]; omega
          · intro hn st' hs'
            simp only [serListWith, hs1] at hs'
            exact i2 (fun h => hn (hiff.mpr ⟨hok, h⟩)) st' hs'
        · have := e2 hok
          constructor
          · intro hokl
            exfalso; apply hok
            obtain ⟨h1, h2, h3⟩ := hokl
            simp only [Item.countList, Item.encList, Item.hasInvalidList, Bool.or_eq_false_iff, List.length_append] at h1 h2 h3
            refine ⟨by omega, by simp; omega, ?_⟩
            rcases h3 with h3 | h3
            · exact Or.inl h3
            · exact Or.inr h3.1
          · intro _ st' hs'
            simp [serListWith, this] at hs'

theorem okP_cons {prot : Bool} (st st₁ st₂ : SerSt) (k v : Item) (m : List (Item × Item))
    (hd1 : st₁.data = st.data ++ Item.enc k) (hl1 : st₁.limit = st.limit - Item.count k)
    (hd2 : st₂.data = st₁.data ++ Item.enc v) (hl2 : st₂.limit = st₁.limit - Item.count v) :
    okP prot st ((k, v) :: m) ↔ okT prot st k ∧ okT prot st₁ v ∧ okP prot st₂ m := by
  simp only [okP, okT, Item.countPairs, Item.encPairs, Item.hasInvalidPairs, hd1, hl1, hd2, hl2, List.append_assoc,
    List.length_append, Bool.or_eq_false_iff]
  constructor
  · rintro ⟨h1, h2, h3⟩
    refine ⟨⟨by omega, by omega, ?_⟩, ⟨by omega, by omega, ?_⟩, by omega, by omega, ?_⟩
    · rcases h3 with h3 | h3
      · exact Or.inl h3
      · exact Or.inr h3.1.1
    · rcases h3 with h3 | h3
      · exact Or.inl h3
      · exact Or.inr h3.1.2
    · rcases h3 with h3 | h3
      · exact Or.inl h3
      · exact Or.inr h3.2
  · rintro ⟨⟨a1, a2, a3⟩, ⟨b1, b2, b3⟩, c1, c2, c3⟩
    refine ⟨by omega, by omega, ?_⟩
    rcases a3 with a3 | a3
    · exact Or.inl a3
    · rcases b3 with b3 | b3
      · exact Or.inl b3
      · rcases c3 with c3 | c3
        · exact Or.inl c3
        · exact Or.inr ⟨⟨a3, b3⟩, c3⟩

theorem serPairs_spec {prot : Bool} {ts : List Item} {f : SerSt → GItem → Option SerSt} {L : Nat}
    (hf : Spec prot ts f L) :
    ∀ (xs : List (GItem × GItem)) (vs : List (Item × Item)) (n : Nat) (st : SerSt), st.limit ≤ L → FinOK prot ts st →
      (∀ j, ip st j → n ≤ j) → treePairs ts xs = some vs → (∀ p ∈ xs, p.1.under n ∧ p.2.under n) →
      (okP prot st vs → ∃ st', serPairsWith f st xs = some st' ∧ Post prot ts st st' (Item.encPairs vs) (Item.countPairs vs))
      ∧ (¬ okP prot st vs → ∀ st', serPairsWith f st xs = some st' → st'.data.length > WireLimits.stackMaxSize) := by
  intro xs
  induction xs with
  | nil =>
    intro vs n st _ hfin _ ht _
    simp [treePairs] at ht; subst ht
    constructor
    · intro _
      exact ⟨st, rfl, ⟨by simp [Item.encPairs], by simp [Item.countPairs], hfin, fun _ => Iff.rfl⟩⟩
    · intro hn st' hs
      simp [serPairsWith] at hs; subst hs
      simp only [okP, Item.countPairs, Item.encPairs, Item.hasInvalidPairs, List.append_nil, Nat.zero_le, true_and, or_true,
        and_true] at hn
      omega
  | cons x xs ih =>
    obtain ⟨xk, xv⟩ := x
    intro vs n st hL hfin hip ht hund
    simp only [treePairs] at ht
    split at ht
    · simp at ht
    · rename_i k hk
      split at ht
      · simp at ht
      · rename_i v hv
        split at ht
        · simp at ht
        · rename_i vs' hvs
          simp at ht; subst ht
          have hu := hund (xk, xv) (by simp)
          obtain ⟨e1, e2⟩ := hf n st xk k hL hfin hip hk hu.1
          by_cases hok : okT prot st k
          · obtain ⟨st₁, hs1, p1⟩ := e1 hok
            have hL1 : st₁.limit ≤ L := by rw [p1.limit]; omega
            have hip1 : ∀ j, ip st₁ j → n ≤ j := fun j hj => hip j ((p1.ips j).mp hj)
            obtain ⟨f1, f2⟩ := hf n st₁ xv v hL1 p1.fin hip1 hv hu.2
            by_cases hok2 : okT prot st₁ v
            · obtain ⟨st₂, hs2, p2⟩ := f1 hok2
              have hL2 : st₂.limit ≤ L := by rw [p2.limit]; omega
              have hip2 : ∀ j, ip st₂ j → n ≤ j := fun j hj => hip1 j ((p2.ips j).mp hj)
              obtain ⟨i1, i2⟩ := ih vs' n st₂ hL2 p2.fin hip2 hvs (fun y hy => hund y (by simp [hy]))
              have hiff := okP_cons (prot := prot) st st₁ st₂ k v vs' p1.data p1.limit p2.data p2.limit
              constructor
              · intro hokp
                obtain ⟨st', hs', p'⟩ := i1 (hiff.mp hokp).2.2
                refine ⟨st', by simp [serPairsWith, hs1, hs2, hs'], ⟨?_, ?_, p'.fin,
                  fun j => ((p'.ips j).trans (p2.ips j)).trans (p1.ips j)⟩⟩
                · rw [p'.data, p2.data, p1.data]; simp [Item.encPairs]
                · rw [p'.limit, p2.limit, p1.limit]; simp only [Item.countPairs]; omega
              · intro hn st' hs'
                simp only [serPairsWith, hs1, hs2] at hs'
                exact i2 (fun h => hn (hiff.mpr ⟨hok, hok2, h⟩)) st' hs'
            · have := f2 hok2
              constructor
              · intro hokp
                exfalso; apply hok2
                obtain ⟨h1, h2, h3⟩ := hokp
                simp only [Item.countPairs, Item.encPairs, Item.hasInvalidPairs, Bool.or_eq_false_iff, List.length_append,
                  List.append_assoc] at h1 h2 h3
                refine ⟨by rw [p1.limit]; omega, by rw [p1.data]; simp; omega, ?_⟩
                rcases h3 with h3 | h3
                · exact Or.inl h3
                · exact Or.inr h3.1.2
              · intro _ st' hs'
                simp [serPairsWith, hs1, this] at hs'
          · have := e2 hok
            constructor
            · intro hokp
              exfalso; apply hok
              obtain ⟨h1, h2, h3⟩ := hokp
              simp only [Item.countPairs, Item.encPairs, Item.hasInvalidPairs, Bool.or_eq_false_iff, List.length_append,
                List.append_assoc] at h1 h2 h3
              refine ⟨by omega, by simp; omega, ?_⟩
              rcases h3 with h3 | h3
              · exact Or.inl h3
              · exact Or.inr h3.1.1
            · intro _ st' hs'
              simp [serPairsWith, this] at hs'

/-! #### one compound node: open (mark in progress, write tag and count), children, close (record, size check) -/

def openSt (st : SerSt) (id tag n : Nat) : SerSt :=
  { data := st.data ++ (UInt8.ofNat tag :: putVarUint n), limit := st.limit - 1, seen := ⟨id, 0, 0, 0⟩ :: st.seen }

def closedSt (st st' : SerSt) (id : Nat) : SerSt :=
  { st' with seen := ⟨id, st.data.length, st'.data.length, (st.limit - 1) - st'.limit + 1⟩ :: st'.seen }

def closeSt (st st' : SerSt) (id : Nat) : Option SerSt := sizeCheck (closedSt st st' id)

theorem FinOK_open {prot : Bool} {ts : List Item} {st : SerSt} (h : FinOK prot ts st) (id tag n : Nat) :
    FinOK prot ts (openSt st id tag n) := by
  intro j sn hf hne
  simp only [openSt, seenFind_cons] at hf
  split at hf
  · simp at hf; subst hf; simp at hne
  · exact FinOK_append h (UInt8.ofNat tag :: putVarUint n) (st.limit - 1) j sn hf hne

theorem ip_open (st : SerSt) (id tag n j : Nat) : ip (openSt st id tag n) j ↔ (id = j ∨ ip st j) := by
  simp only [ip, openSt, seenFind_cons]
  constructor
  · rintro ⟨sn, hf, he⟩
    split at hf
    · rename_i h; exact Or.inl h
    · exact Or.inr ⟨sn, hf, he⟩
  · rintro (h | ⟨sn, hf, he⟩)
    · exact ⟨⟨id, 0, 0, 0⟩, by simp [h], rfl⟩
    · by_cases hj : id = j
      · exact ⟨⟨id, 0, 0, 0⟩, by simp [hj], rfl⟩
      · exact ⟨sn, by simp [hj, hf], he⟩

/-- closing a node whose children were written correctly. -/
theorem close_spec {prot : Bool} {ts : List Item} (st st' : SerSt) (id tag n : Nat) (v : Item) (kb : Bytes) (kc : Nat)
    (hnone : seenFind st.seen id = none) (hlim : st.limit ≠ 0) (hts : ts[id]? = some v)
    (henc : Item.enc v = UInt8.ofNat tag :: (putVarUint n ++ kb)) (hcnt : Item.count v = 1 + kc)
    (hinv : prot = true ∨ Item.hasInvalid v = false) (hkc : kc ≤ st.limit - 1)
    (hsz : (st.data ++ Item.enc v).length ≤ WireLimits.stackMaxSize)
    (p : Post prot ts (openSt st id tag n) st' kb kc) :
    ∃ st'', closeSt st st' id = some st'' ∧ Post prot ts st st'' (Item.enc v) (Item.count v) := by
  have hd : st'.data = st.data ++ Item.enc v := by
    rw [p.data, henc]; simp [openSt]
  have hl : st'.limit = st.limit - 1 - kc := by rw [p.limit]; simp [openSt]
  have hcd : (closedSt st st' id).data = st.data ++ Item.enc v := hd
  have hcl : (closedSt st st' id).limit = st.limit - 1 - kc := hl
  have hpos : 0 < (Item.enc v).length := by rw [henc]; simp
  have hclose : closeSt st st' id = some (closedSt st st' id) := by
    unfold closeSt sizeCheck
    rw [if_neg (by rw [hcd]; omega)]
  refine ⟨closedSt st st' id, hclose, ⟨hcd, by rw [hcl, hcnt]; omega, ?_, ?_⟩⟩
  · intro j sn hf hne
    have hseen : (closedSt st st' id).seen
        = ⟨id, st.data.length, st'.data.length, (st.limit - 1) - st'.limit + 1⟩ :: st'.seen := rfl
    rw [hseen, seenFind_cons] at hf
    split at hf
    · rename_i hj
      simp at hf; subst hf; subst hj
      refine ⟨by simp only [hd, List.length_append]; omega, by rw [hcd, hd]; exact Nat.le_refl _, v, hts, ?_, ?_, hinv⟩
      · rw [hcd]
        simp only [hd]
        have := take_drop_self st.data (Item.enc v)
        simpa using this
      · simp only [hl, hcnt]; omega
    · obtain ⟨a1, a2, w, a3, a4, a5, a6⟩ := p.fin j sn hf hne
      exact ⟨a1, a2, w, a3, a4, a5, a6⟩
  · intro j
    have hseen : (closedSt st st' id).seen
        = ⟨id, st.data.length, st'.data.length, (st.limit - 1) - st'.limit + 1⟩ :: st'.seen := rfl
    simp only [ip, hseen, seenFind_cons]
    by_cases hj : id = j
    · subst hj
      constructor
      · rintro ⟨sn, hf, he⟩
        simp at hf; subst hf
        simp only at he
        rw [hd] at he; simp only [List.length_append] at he; omega
      · rintro ⟨sn, hf, _⟩
        rw [hnone] at hf; simp at hf
    · simp only [hj, if_false]
      have := (p.ips j).trans (ip_open st id tag n j)
      simp only [ip] at this
      rw [this]
      constructor
      · rintro (h | h)
        · exact absurd h hj
        · exact h
      · intro h; exact Or.inr h

theorem closeSt_none (st st' : SerSt) (id : Nat) (h : st'.data.length > WireLimits.stackMaxSize) :
    closeSt st st' id = none := by
  unfold closeSt sizeCheck
  have : (closedSt st st' id).data = st'.data := rfl
  rw [if_pos (by rw [this]; exact h)]

theorem Prim.hasInvalid_toItem (p : Prim) : Item.hasInvalid p.toItem = p.isInvalid := by
  cases p <;> rfl

theorem Prim.count_toItem (p : Prim) : Item.count p.toItem = 1 := by
  cases p <;> rfl

/-- the serialiser with its `seen` cache does on a graph item exactly what the tree serialiser does on the tree
the item stands for: it succeeds iff the tree count fits the limit, the tree encoding fits MaxSize and (unprotected)
no interop/pointer/nil occurs; it then appends the tree encoding and charges the tree count. -/
theorem serG_spec {prot : Bool} {g : Graph} {ts : List Item} (hr : Resolves g ts) :
    ∀ F, Spec prot ts (serG prot g (F + 1)) F := by
  intro F
  induction F using Nat.strongRecOn with
  | _ F ih =>
    intro n st x v hL hfin hip hx hun
    cases x with
    | prim p =>
      simp only [GItem.tree] at hx
      have hx' : p.toItem = v := Option.some.inj hx
      subst hx'
      simp only [serG, okT, Prim.count_toItem, Prim.hasInvalid_toItem]
      constructor
      · rintro ⟨h1, h2, h3⟩
        have hl : ¬ st.limit = 0 := by omega
        have hi : ¬ ((p.isInvalid && !prot) = true) := by
          rcases h3 with h3 | h3
          · rw [h3]; simp
          · rw [h3]; simp
        refine ⟨{ st with limit := st.limit - 1, data := st.data ++ Item.enc p.toItem }, ?_, ⟨rfl, rfl, ?_, fun _ => Iff.rfl⟩⟩
        · rw [if_neg hl, if_neg hi]
          simp only [sizeCheck]
          rw [if_neg (by show ¬ (st.data ++ Item.enc p.toItem).length > WireLimits.stackMaxSize; omega)]
        · exact FinOK_append hfin _ _
      · intro hn
        by_cases hl : st.limit = 0
        · rw [if_pos hl]
        · rw [if_neg hl]
          by_cases hi : (p.isInvalid && !prot) = true
          · rw [if_pos hi]
          · rw [if_neg hi]
            simp only [sizeCheck]
            rw [if_pos]
            show (st.data ++ Item.enc p.toItem).length > WireLimits.stackMaxSize
            apply Classical.byContradiction
            intro hc
            apply hn
            refine ⟨by omega, by omega, ?_⟩
            cases hp : prot
            · right
              simp [hp] at hi
              exact hi
            · left; rfl
    | ref id =>
      simp only [GItem.tree] at hx
      simp only [GItem.under] at hun
      simp only [serG]
      cases hsf : seenFind st.seen id with
      | some sn =>
        simp only
        by_cases hse : sn.s = sn.e
        · exact absurd (hip id ⟨sn, hsf, hse⟩) (by omega)
        · obtain ⟨a1, a2, w, a3, a4, a5, a6⟩ := hfin id sn hsf hse
          rw [hx] at a3; simp at a3; subst a3
          have hlen : sn.e - sn.s = (Item.enc v).length := by
            have := congrArg List.length a4
            simp at this
            omega
          rw [if_neg hse]
          simp only [okT]
          constructor
          · rintro ⟨h1, h2, _⟩
            simp only [List.length_append] at h2
            rw [if_neg (by omega), if_neg (by omega)]
            refine ⟨_, rfl, ⟨by simp only [a4], by simp only [a5], FinOK_append hfin _ _, fun _ => Iff.rfl⟩⟩
          · intro hn
            by_cases hs : st.data.length + (sn.e - sn.s) > WireLimits.stackMaxSize
            · rw [if_pos hs]
            · rw [if_neg hs]
              by_cases hlm : st.limit < sn.c
              · rw [if_pos hlm]
              · exfalso; apply hn
                exact ⟨by omega, by simp only [List.length_append]; omega, a6⟩
      | none =>
        simp only
        have hidlt : id < g.length := by
          have := (List.getElem?_eq_some_iff.mp hx).1
          rw [hr.len] at this; exact this
        obtain ⟨c, hc⟩ : ∃ c, g[id]? = some c := ⟨g[id], List.getElem?_eq_getElem hidlt⟩
        obtain ⟨t, ht1, ht2, ht3⟩ := hr.node id c hc
        rw [hx] at ht1; simp at ht1; subst ht1
        by_cases hl0 : st.limit = 0
        · rw [if_pos hl0]
          constructor
          · rintro ⟨h1, _, _⟩
            have := Item.count_pos v
            omega
          · intro _; rfl
        · rw [if_neg hl0, hc]
          obtain ⟨F', rfl⟩ : ∃ F', F = F' + 1 := ⟨F - 1, by omega⟩
          have hsp := ih F' (by omega)
          -- the bound for the children is the node itself
          have hipk : ∀ tag k j, ip (openSt st id tag k) j → id ≤ j := by
            intro tag k j hj
            rcases (ip_open st id tag k j).mp hj with h | h
            · omega
            · have := hip j h; omega
          have hLk : ∀ tag k, (openSt st id tag k).limit ≤ F' := by
            intro tag k; simp only [openSt]; omega
          cases c with
          | array cs =>
            simp only [GComp.tree, Option.map_eq_some_iff] at ht2
            obtain ⟨vs, hvs, rfl⟩ := ht2
            simp only [GComp.under] at ht3
            have hlen := treeList_length cs vs hvs
            obtain ⟨k1, k2⟩ := serList_spec hsp cs vs id (openSt st id WireLimits.itemArrayT cs.length) (hLk _ _)
              (FinOK_open hfin _ _ _) (hipk _ _) hvs ht3
            have hiff : okT prot st (.array vs) ↔ okL prot (openSt st id WireLimits.itemArrayT cs.length) vs := by
              simp only [okT, okL, openSt, Item.count, Item.enc, Item.hasInvalid, hlen, List.length_append, List.length_cons,
                List.append_assoc]
              constructor
              · rintro ⟨h1, h2, h3⟩; exact ⟨by omega, by omega, h3⟩
              · rintro ⟨h1, h2, h3⟩; exact ⟨by omega, by omega, h3⟩
            show (okT prot st (.array vs) → ∃ st', (match serListWith (serG prot g (F' + 1))
                  (openSt st id WireLimits.itemArrayT cs.length) cs with
                | none => none
                | some st' => closeSt st st' id) = some st' ∧ _) ∧ (¬ okT prot st (.array vs) → (match serListWith
                  (serG prot g (F' + 1)) (openSt st id WireLimits.itemArrayT cs.length) cs with
                | none => none
                | some st' => closeSt st st' id) = none)
            constructor
            · intro hok
              obtain ⟨st', hs', p'⟩ := k1 (hiff.mp hok)
              rw [hs']
              exact close_spec st st' id WireLimits.itemArrayT cs.length (.array vs) (Item.encList vs) (Item.countList vs)
                hsf hl0 hx (by simp [Item.enc, hlen]) (by simp [Item.count]) hok.2.2
                (by have := (hiff.mp hok).1; simpa [openSt] using this) hok.2.1 p'
            · intro hn
              cases hs' : serListWith (serG prot g (F' + 1)) (openSt st id WireLimits.itemArrayT cs.length) cs with
              | none => rfl
              | some st' =>
                exact closeSt_none st st' id (k2 (fun h => hn (hiff.mpr h)) st' hs')
          | struct cs =>
            simp only [GComp.tree, Option.map_eq_some_iff] at ht2
            obtain ⟨vs, hvs, rfl⟩ := ht2
            simp only [GComp.under] at ht3
            have hlen := treeList_length cs vs hvs
            obtain ⟨k1, k2⟩ := serList_spec hsp cs vs id (openSt st id WireLimits.itemStructT cs.length) (hLk _ _)
              (FinOK_open hfin _ _ _) (hipk _ _) hvs ht3
            have hiff : okT prot st (.struct vs) ↔ okL prot (openSt st id WireLimits.itemStructT cs.length) vs := by
              simp only [okT, okL, openSt, Item.count, Item.enc, Item.hasInvalid, hlen, List.length_append, List.length_cons,
                List.append_assoc]
              constructor
              · rintro ⟨h1, h2, h3⟩; exact ⟨by omega, by omega, h3⟩
              · rintro ⟨h1, h2, h3⟩; exact ⟨by omega, by omega, h3⟩
            show (okT prot st (.struct vs) → ∃ st', (match serListWith (serG prot g (F' + 1))
                  (openSt st id WireLimits.itemStructT cs.length) cs with
                | none => none
                | some st' => closeSt st st' id) = some st' ∧ _) ∧ (¬ okT prot st (.struct vs) → (match serListWith
                  (serG prot g (F' + 1)) (openSt st id WireLimits.itemStructT cs.length) cs with
                | none => none
                | some st' => closeSt st st' id) = none)
            constructor
            · intro hok
              obtain ⟨st', hs', p'⟩ := k1 (hiff.mp hok)
              rw [hs']
              exact close_spec st st' id WireLimits.itemStructT cs.length (.struct vs) (Item.encList vs) (Item.countList vs)
                hsf hl0 hx (by simp [Item.enc, hlen]) (by simp [Item.count]) hok.2.2
                (by have := (hiff.mp hok).1; simpa [openSt] using this) hok.2.1 p'
            · intro hn
              cases hs' : serListWith (serG prot g (F' + 1)) (openSt st id WireLimits.itemStructT cs.length) cs with
              | none => rfl
              | some st' =>
                exact closeSt_none st st' id (k2 (fun h => hn (hiff.mpr h)) st' hs')
          | map cs =>
            simp only [GComp.tree, Option.map_eq_some_iff] at ht2
            obtain ⟨vs, hvs, rfl⟩ := ht2
            simp only [GComp.under] at ht3
            have hlen := treePairs_length cs vs hvs
            obtain ⟨k1, k2⟩ := serPairs_spec hsp cs vs id (openSt st id WireLimits.itemMapT cs.length) (hLk _ _)
              (FinOK_open hfin _ _ _) (hipk _ _) hvs ht3
            have hiff : okT prot st (.map vs) ↔ okP prot (openSt st id WireLimits.itemMapT cs.length) vs := by
              simp only [okT, okP, openSt, Item.count, Item.enc, Item.hasInvalid, hlen, List.length_append, List.length_cons,
                List.append_assoc]
              constructor
              · rintro ⟨h1, h2, h3⟩; exact ⟨by omega, by omega, h3⟩
              · rintro ⟨h1, h2, h3⟩; exact ⟨by omega, by omega, h3⟩
            show (okT prot st (.map vs) → ∃ st', (match serPairsWith (serG prot g (F' + 1))
                  (openSt st id WireLimits.itemMapT cs.length) cs with
                | none => none
                | some st' => closeSt st st' id) = some st' ∧ _) ∧ (¬ okT prot st (.map vs) → (match serPairsWith
                  (serG prot g (F' + 1)) (openSt st id WireLimits.itemMapT cs.length) cs with
                | none => none
                | some st' => closeSt st st' id) = none)
            constructor
            · intro hok
              obtain ⟨st', hs', p'⟩ := k1 (hiff.mp hok)
              rw [hs']
              exact close_spec st st' id WireLimits.itemMapT cs.length (.map vs) (Item.encPairs vs) (Item.countPairs vs)
                hsf hl0 hx (by simp [Item.enc, hlen]) (by simp [Item.count]) hok.2.2
                (by have := (hiff.mp hok).1; simpa [openSt] using this) hok.2.1 p'
            · intro hn
              cases hs' : serPairsWith (serG prot g (F' + 1)) (openSt st id WireLimits.itemMapT cs.length) cs with
              | none => rfl
              | some st' =>
                exact closeSt_none st st' id (k2 (fun h => hn (hiff.mpr h)) st' hs')

/-! #### `Graph.trees` resolves the graph -/

theorem GItem.tree_mono (acc more : List Item) (x : GItem) (v : Item) (h : x.tree acc = some v) :
    x.tree (acc ++ more) = some v ∧ x.under acc.length := by
  cases x with
  | prim p => exact ⟨h, trivial⟩
  | ref id =>
    simp only [GItem.tree] at h ⊢
    have hlt := (List.getElem?_eq_some_iff.mp h).1
    exact ⟨by rw [List.getElem?_append_left hlt]; exact h, hlt⟩

theorem treeList_mono (acc more : List Item) : ∀ (xs : List GItem) (vs : List Item), treeList acc xs = some vs →
    treeList (acc ++ more) xs = some vs ∧ ∀ x ∈ xs, x.under acc.length := by
  intro xs
  induction xs with
  | nil => intro vs h; exact ⟨h, by simp⟩
  | cons x xs ih =>
    intro vs h
    simp only [treeList] at h
    split at h
    · simp at h
    · rename_i v hv
      split at h
      · simp at h
      · rename_i vs' hvs
        obtain ⟨m1, m2⟩ := GItem.tree_mono acc more x v hv
        obtain ⟨i1, i2⟩ := ih vs' hvs
        refine ⟨by simp only [treeList, m1, i1]; exact h, ?_⟩
        intro y hy
        rcases List.mem_cons.mp hy with rfl | hy
        · exact m2
        · exact i2 y hy

theorem treePairs_mono (acc more : List Item) : ∀ (xs : List (GItem × GItem)) (vs : List (Item × Item)),
    treePairs acc xs = some vs →
    treePairs (acc ++ more) xs = some vs ∧ ∀ p ∈ xs, p.1.under acc.length ∧ p.2.under acc.length := by
  intro xs
  induction xs with
  | nil => intro vs h; exact ⟨h, by simp⟩
  | cons x xs ih =>
    obtain ⟨xk, xv⟩ := x
    intro vs h
    simp only [treePairs] at h
    split at h
    · simp at h
    · rename_i k hk
      split at h
      · simp at h
      · rename_i v hv
        split at h
        · simp at h
        · rename_i vs' hvs
          obtain ⟨m1, m2⟩ := GItem.tree_mono acc more xk k hk
          obtain ⟨n1, n2⟩ := GItem.tree_mono acc more xv v hv
          obtain ⟨i1, i2⟩ := ih vs' hvs
          refine ⟨by simp only [treePairs, m1, n1, i1]; exact h, ?_⟩
          intro y hy
          rcases List.mem_cons.mp hy with rfl | hy
          · exact ⟨m2, n2⟩
          · exact i2 y hy

theorem GComp.tree_mono (acc more : List Item) (c : GComp) (t : Item) (h : c.tree acc = some t) :
    c.tree (acc ++ more) = some t ∧ c.under acc.length := by
  cases c with
  | array cs =>
    simp only [GComp.tree, Option.map_eq_some_iff] at h ⊢
    obtain ⟨vs, hvs, rfl⟩ := h
    obtain ⟨a, b⟩ := treeList_mono acc more cs vs hvs
    exact ⟨⟨vs, a, rfl⟩, b⟩
  | struct cs =>
    simp only [GComp.tree, Option.map_eq_some_iff] at h ⊢
    obtain ⟨vs, hvs, rfl⟩ := h
    obtain ⟨a, b⟩ := treeList_mono acc more cs vs hvs
    exact ⟨⟨vs, a, rfl⟩, b⟩
  | map kvs =>
    simp only [GComp.tree, Option.map_eq_some_iff] at h ⊢
    obtain ⟨vs, hvs, rfl⟩ := h
    obtain ⟨a, b⟩ := treePairs_mono acc more kvs vs hvs
    exact ⟨⟨vs, a, rfl⟩, b⟩

theorem treesAux_spec : ∀ (cs : List GComp) (acc ts : List Item), treesAux cs acc = some ts →
    ts.length = acc.length + cs.length ∧ (∃ suf, ts = acc ++ suf) ∧
    ∀ (i : Nat) (c : GComp), cs[i]? = some c →
      ∃ t, ts[acc.length + i]? = some t ∧ c.tree ts = some t ∧ c.under (acc.length + i) := by
  intro cs
  induction cs with
  | nil =>
    intro acc ts h
    simp [treesAux] at h; subst h
    exact ⟨by simp, ⟨[], by simp⟩, by intro i c hc; simp at hc⟩
  | cons c cs ih =>
    intro acc ts h
    simp only [treesAux] at h
    split at h
    · simp at h
    · rename_i t ht
      obtain ⟨l1, ⟨suf, hsuf⟩, l3⟩ := ih (acc ++ [t]) ts h
      refine ⟨by simp at l1; simp; omega, ⟨t :: suf, by rw [hsuf]; simp⟩, ?_⟩
      intro i c' hc'
      cases i with
      | zero =>
        simp at hc'; subst hc'
        have hts : ts = acc ++ (t :: suf) := by rw [hsuf]; simp
        obtain ⟨m1, m2⟩ := GComp.tree_mono acc (t :: suf) c t ht
        refine ⟨t, ?_, by rw [hts]; exact m1, by simpa using m2⟩
        rw [hts]; simp
      | succ i =>
        simp at hc'
        obtain ⟨t', a1, a2, a3⟩ := l3 i c' hc'
        simp only [List.length_append, List.length_singleton] at a1 a3
        refine ⟨t', ?_, a2, ?_⟩
        · rw [← a1]; congr 1; omega
        · have : acc.length + (i + 1) = acc.length + 1 + i := by omega
          rw [this]; exact a3

theorem trees_resolves (g : Graph) (ts : List Item) (h : g.trees = some ts) : Resolves g ts := by
  obtain ⟨l1, _, l3⟩ := treesAux_spec g [] ts h
  refine ⟨by simpa using l1, ?_⟩
  intro id c hc
  have := l3 id c hc
  simpa using this

/-- C17 (stack-item serialiser with sharing): on an acyclic item graph the real algorithm — one `seen` cache of byte
ranges and item counts, a shared compound copied and charged at every further reference — returns exactly what the
tree serialiser returns on the tree unfolding: the same bytes, and an error in exactly the same cases (tree count over
MaxSerialized, tree encoding over MaxSize, an interop/pointer/nil in the unprotected form). -/
theorem serializeG_eq_tree (prot : Bool) (g : Graph) (ts : List Item) (root : GItem) (v : Item)
    (hg : g.trees = some ts) (hroot : root.tree ts = some v) :
    serializeG prot g root = Item.serialize prot v := by
  have hr := trees_resolves g ts hg
  have hun : root.under ts.length := (GItem.tree_mono ts [] root v hroot).2
  have hinit : FinOK prot ts ⟨[], WireLimits.stackMaxSerialized, []⟩ := by
    intro j sn hf; simp [seenFind] at hf
  have hipi : ∀ j, ip ⟨[], WireLimits.stackMaxSerialized, []⟩ j → ts.length ≤ j := by
    rintro j ⟨sn, hf, _⟩; simp [seenFind] at hf
  obtain ⟨s1, s2⟩ := serG_spec (prot := prot) hr (WireLimits.stackMaxSerialized + 1) ts.length
    ⟨[], WireLimits.stackMaxSerialized, []⟩ root v (by simp) hinit hipi hroot hun
  unfold serializeG Item.serialize
  by_cases hok : okT prot ⟨[], WireLimits.stackMaxSerialized, []⟩ v
  · obtain ⟨st', hs, p⟩ := s1 hok
    obtain ⟨h1, h2, h3⟩ := hok
    simp only [List.nil_append] at h2
    simp only at h1
    rw [hs, if_neg (by omega)]
    have hi : ¬ ((!prot && Item.hasInvalid v) = true) := by
      rcases h3 with h3 | h3
      · rw [h3]; simp
      · rw [h3]; simp
    rw [if_neg hi, if_neg (by omega)]
    simp [p.data]
  · rw [s2 hok]
    simp only [Option.map_none]
    by_cases c1 : Item.count v > WireLimits.stackMaxSerialized
    · rw [if_pos c1]
    · rw [if_neg c1]
      by_cases c2 : (!prot && Item.hasInvalid v) = true
      · rw [if_pos c2]
      · rw [if_neg c2]
        by_cases c3 : (Item.enc v).length > WireLimits.stackMaxSize
        · rw [if_pos c3]
        · exfalso; apply hok
          refine ⟨by simp only; omega, by simp only [List.nil_append]; omega, ?_⟩
          cases hp : prot
          · right
            simp [hp] at c2
            exact c2
          · left; rfl

end NeoModel.Wire
