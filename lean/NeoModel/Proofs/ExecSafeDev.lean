/-
C04: the syntactic class `safe` (no FINALLY block makes a contract or native call) is a sufficient
condition for the deviating commit rule never to be applied: on a safe tree the `dev` flag of `spK`
stays down. This connects the two refinement theorems (the syntactic one is a corollary of the
dynamic one).
-/
import NeoModel.Model.Exec
import NeoModel.Proofs.ExecNoDev
namespace NeoModel.Exec

theorem dev_end {hasF : Bool} {Rf : KSt → Res KSt} (K0 K : KSt) (hk : K.dev = K0.dev)
    (hf : ∀ K, (Rf K).st.dev = K.dev) : (spKEnd hasF Rf K).st.dev = K0.dev := by
  unfold spKEnd
  split
  · have := hf K
    cases hr : Rf K with
    | norm s3 => rw [hr] at this; simp only [Res.st] at this; simp only; split <;> simp [Res.st, this, hk]
    | thrown s3 => rw [hr] at this; simp only [Res.st] at this ⊢; rw [this, hk]
    | fault s3 => rw [hr] at this; simp only [Res.st] at this ⊢; rw [this, hk]
  · exact hk

theorem dev_finExc {Rf : KSt → Res KSt} (K0 K : KSt) (hk : K.dev = K0.dev)
    (hf : ∀ K, (Rf K).st.dev = K.dev) : (spKFinExc Rf K).st.dev = K0.dev := by
  unfold spKFinExc
  have := hf K
  cases hr : Rf K with
  | norm s3 => rw [hr] at this; simp only [Res.st] at this; simp only; split <;> simp [Res.st, this, hk]
  | thrown s3 => rw [hr] at this; simp only [Res.st] at this ⊢; rw [this, hk]
  | fault s3 => rw [hr] at this; simp only [Res.st] at this ⊢; rw [this, hk]

/-- code without calls never applies the rule, whatever the state of the exception register. -/
theorem callFree_dev (t : Tree) : ∀ (c : Nat) (f : Flags) (i : Bool) (K : KSt), callFree t = true →
    (spK t c f i K).st.dev = K.dev := by
  induction t with
  | skip => intro c f i K _; rfl
  | seq a b iha ihb =>
    intro c f i K h
    simp only [callFree, Bool.and_eq_true] at h
    simp only [spK]
    have ha := iha c f i K h.1
    cases hr : spK a c f i K with
    | norm s1 => rw [hr] at ha; simp only [Res.st] at ha; simp only; rw [ihb c f i s1 h.2, ha]
    | thrown s1 => rw [hr] at ha; exact ha
    | fault s1 => rw [hr] at ha; exact ha
  | put k v => intro c f i K _; simp only [spK]; split <;> rfl
  | del k => intro c f i K _; simp only [spK]; split <;> rfl
  | notify e =>
    intro c f i K _; simp only [spK]
    split
    · split <;> rfl
    · rfl
  | ifp k body ih =>
    intro c f i K h
    simp only [callFree] at h
    simp only [spK]
    split
    · split
      · exact ih c f i K h
      · rfl
    · rfl
  | loc body ih => intro c f i K h; simp only [callFree] at h; simp only [spK]; exact ih c f i K h
  | throw => intro c f i K _; rfl
  | abort => intro c f i K _; rfl
  | call c' fl body ih => intro c f i K h; simp [callFree] at h
  | native inner o fl cb k ih ihk => intro c f i K h; simp [callFree] at h
  | try_ body hasC cat hasF fin ihb ihc ihf =>
    intro c f i K h
    simp only [callFree, Bool.and_eq_true] at h
    simp only [spK]
    split
    · rfl
    · have hb := ihb c f true K h.1.1
      cases hr : spK body c f true K with
      | norm s1 =>
        rw [hr] at hb; simp only [Res.st] at hb
        exact dev_end K s1 hb (fun K => ihf c f i K h.2)
      | thrown s1 =>
        rw [hr] at hb; simp only [Res.st] at hb
        simp only
        split
        · have hc := ihc c f (i || hasF) { s1 with exc := false } h.1.2
          cases hrc : spK cat c f (i || hasF) { s1 with exc := false } with
          | norm s2 =>
            rw [hrc] at hc; simp only [Res.st] at hc
            exact dev_end K s2 (hc.trans hb) (fun K => ihf c f i K h.2)
          | thrown s2 =>
            rw [hrc] at hc; simp only [Res.st] at hc
            simp only
            split
            · exact dev_finExc K s2 (hc.trans hb) (fun K => ihf c f i K h.2)
            · simp only [Res.st]; exact hc.trans hb
          | fault s2 => rw [hrc] at hc; simp only [Res.st] at hc ⊢; exact hc.trans hb
        · exact dev_finExc K s1 hb (fun K => ihf c f i K h.2)
      | fault s1 => rw [hr] at hb; exact hb

/-- what a run on a safe tree from a state without pending exception guarantees. -/
def SafeRes (K : KSt) (r : Res KSt) : Prop :=
  r.st.dev = K.dev ∧ ∀ K', r = .norm K' → K'.exc = false

theorem safe_end {hasF : Bool} {Rf : KSt → Res KSt} (K0 K : KSt) (hk : K.dev = K0.dev) (he : K.exc = false)
    (hf : ∀ K, K.exc = false → SafeRes K (Rf K)) : SafeRes K0 (spKEnd hasF Rf K) := by
  unfold spKEnd
  split
  · obtain ⟨h1, h2⟩ := hf K he
    cases hr : Rf K with
    | norm s3 =>
      rw [hr] at h1 h2; simp only [Res.st] at h1
      have := h2 s3 rfl
      simp only [this, Bool.false_eq_true, if_false]
      exact ⟨by simp [Res.st, h1, hk], fun K' h => by cases h; exact this⟩
    | thrown s3 => rw [hr] at h1; simp only [Res.st] at h1; exact ⟨by simp [Res.st, h1, hk], fun K' h => by cases h⟩
    | fault s3 => rw [hr] at h1; simp only [Res.st] at h1; exact ⟨by simp [Res.st, h1, hk], fun K' h => by cases h⟩
  · exact ⟨hk, fun K' h => by cases h; exact he⟩

theorem safe_finExc {Rf : KSt → Res KSt} (K0 K : KSt) (hk : K.dev = K0.dev)
    (hf : ∀ K, (Rf K).st.dev = K.dev) : SafeRes K0 (spKFinExc Rf K) := by
  refine ⟨dev_finExc K0 K hk hf, ?_⟩
  unfold spKFinExc
  intro K' h
  cases hr : Rf K with
  | norm s3 => rw [hr] at h; simp only at h; split at h <;> cases h
  | thrown s3 => rw [hr] at h; cases h
  | fault s3 => rw [hr] at h; cases h

theorem safe_dev (t : Tree) : ∀ (c : Nat) (f : Flags) (i : Bool) (K : KSt), safe t = true → K.exc = false →
    SafeRes K (spK t c f i K) := by
  induction t with
  | skip => intro c f i K _ he; exact ⟨rfl, fun K' h => by cases h; exact he⟩
  | seq a b iha ihb =>
    intro c f i K h he
    simp only [safe, Bool.and_eq_true] at h
    simp only [spK]
    obtain ⟨a1, a2⟩ := iha c f i K h.1 he
    cases hr : spK a c f i K with
    | norm s1 =>
      rw [hr] at a1 a2; simp only [Res.st] at a1
      obtain ⟨b1, b2⟩ := ihb c f i s1 h.2 (a2 s1 rfl)
      exact ⟨b1.trans a1, b2⟩
    | thrown s1 => rw [hr] at a1; exact ⟨a1, fun K' h => by cases h⟩
    | fault s1 => rw [hr] at a1; exact ⟨a1, fun K' h => by cases h⟩
  | put k v =>
    intro c f i K _ he; simp only [spK]
    split
    · exact ⟨rfl, fun K' h => by cases h; exact he⟩
    · exact ⟨rfl, fun K' h => by cases h⟩
  | del k =>
    intro c f i K _ he; simp only [spK]
    split
    · exact ⟨rfl, fun K' h => by cases h; exact he⟩
    · exact ⟨rfl, fun K' h => by cases h⟩
  | notify e =>
    intro c f i K _ he; simp only [spK]
    split
    · split
      · exact ⟨rfl, fun K' h => by cases h; exact he⟩
      · exact ⟨rfl, fun K' h => by cases h⟩
    · exact ⟨rfl, fun K' h => by cases h⟩
  | ifp k body ih =>
    intro c f i K h he
    simp only [safe] at h
    simp only [spK]
    split
    · split
      · exact ih c f i K h he
      · exact ⟨rfl, fun K' h => by cases h; exact he⟩
    · exact ⟨rfl, fun K' h => by cases h⟩
  | loc body ih => intro c f i K h he; simp only [safe] at h; simp only [spK]; exact ih c f i K h he
  | throw => intro c f i K _ _; exact ⟨rfl, fun K' h => by cases h⟩
  | abort => intro c f i K _ _; exact ⟨rfl, fun K' h => by cases h⟩
  | call c' fl body ih =>
    intro c f i K h he
    simp only [safe] at h
    simp only [spK]
    split
    · obtain ⟨b1, b2⟩ := ih c' (f.and fl) false K h he
      cases hr : spK body c' (f.and fl) false K with
      | norm s1 =>
        rw [hr] at b1 b2; simp only [Res.st] at b1
        have e1 := b2 s1 rfl
        simp only [e1, Bool.and_false, Bool.false_eq_true, if_false]
        exact ⟨b1, fun K' h => by cases h; exact e1⟩
      | thrown s1 => rw [hr] at b1; simp only [Res.st] at b1; exact ⟨b1, fun K' h => by cases h⟩
      | fault s1 => rw [hr] at b1; exact ⟨b1, fun K' h => by cases h⟩
    · exact ⟨rfl, fun K' h => by cases h⟩
  | try_ body hasC cat hasF fin ihb ihc ihf =>
    intro c f i K h he
    simp only [safe, Bool.and_eq_true] at h
    obtain ⟨⟨⟨hsb, hsc⟩, hsf⟩, hcf⟩ := h
    have hq : hasF = true → ∀ K, (spK fin c f i K).st.dev = K.dev := by
      intro hF K
      have : callFree fin = true := by cases hasF <;> simp_all
      exact callFree_dev fin c f i K this
    simp only [spK]
    split
    · exact ⟨rfl, fun K' h => by cases h⟩
    · obtain ⟨b1, b2⟩ := ihb c f true K hsb he
      cases hr : spK body c f true K with
      | norm s1 =>
        rw [hr] at b1 b2; simp only [Res.st] at b1
        exact safe_end K s1 b1 (b2 s1 rfl) (fun K hK => ihf c f i K hsf hK)
      | thrown s1 =>
        rw [hr] at b1; simp only [Res.st] at b1
        simp only
        split
        · obtain ⟨c1, c2⟩ := ihc c f (i || hasF) { s1 with exc := false } hsc rfl
          cases hrc : spK cat c f (i || hasF) { s1 with exc := false } with
          | norm s2 =>
            rw [hrc] at c1 c2; simp only [Res.st] at c1
            exact safe_end K s2 (c1.trans b1) (c2 s2 rfl) (fun K hK => ihf c f i K hsf hK)
          | thrown s2 =>
            rw [hrc] at c1; simp only [Res.st] at c1
            simp only
            split
            · rename_i hF
              exact safe_finExc K s2 (c1.trans b1) (hq hF)
            · exact ⟨c1.trans b1, fun K' h => by cases h⟩
          | fault s2 => rw [hrc] at c1; simp only [Res.st] at c1; exact ⟨c1.trans b1, fun K' h => by cases h⟩
        · rename_i hC
          have hF : hasF = true := by cases hasC <;> cases hasF <;> simp_all
          exact safe_finExc K s1 b1 (hq hF)
      | fault s1 => rw [hr] at b1; exact ⟨b1, fun K' h => by cases h⟩
  | native inner o fl cb k ih ihk =>
    intro c f i K h he
    simp only [safe, Bool.and_eq_true] at h
    simp only [spK]
    split
    · generalize (if inner = true then f else f.and fl) = f'
      cases natStep o c f' K.σ.get with
      | none => exact ⟨rfl, fun K' h => by cases h⟩
      | some out =>
        simp only
        have tail : ∀ K2 : KSt, K2.dev = K.dev → K2.exc = false →
            SafeRes K (match spK k c f' false K2 with
              | .norm s3 => if (!inner && i && f'.mut && s3.exc) = true then Res.norm { K with exc := true, dev := true } else .norm s3
              | .thrown s3 => .fault s3
              | .fault s3 => .fault s3) := by
          intro K2 d2 e2
          obtain ⟨k1, k2⟩ := ihk c f' false K2 h.2 e2
          cases hrk : spK k c f' false K2 with
          | norm s3 =>
            rw [hrk] at k1 k2; simp only [Res.st] at k1
            have e3 := k2 s3 rfl
            simp only [e3, Bool.and_false, Bool.false_eq_true, if_false]
            exact ⟨k1.trans d2, fun K' h => by cases h; exact e3⟩
          | thrown s3 => rw [hrk] at k1; simp only [Res.st] at k1; exact ⟨k1.trans d2, fun K' h => by cases h⟩
          | fault s3 => rw [hrk] at k1; simp only [Res.st] at k1; exact ⟨k1.trans d2, fun K' h => by cases h⟩
        simp only [spKPhase]
        by_cases hlim : maxNotifications < (K.ev ++ out.evs).length
        · simp only [hlim, if_true]; exact ⟨rfl, fun K' h => by cases h⟩
        simp only [hlim, if_false]
        cases out.cb with
        | none => simp only; exact tail _ rfl he
        | some to =>
          simp only
          by_cases hab : out.cbAbort = true
          · simp only [hab, if_true]; exact ⟨rfl, fun K' h => by cases h⟩
          simp only [hab, if_false, Bool.false_eq_true]
          obtain ⟨b1, b2⟩ := ih to f' false { K with σ := out.ws ++ K.σ, ev := K.ev ++ out.evs } h.1 he
          cases hr : spK cb to f' false { K with σ := out.ws ++ K.σ, ev := K.ev ++ out.evs } with
          | norm s2 =>
            rw [hr] at b1 b2; simp only [Res.st] at b1
            have e2 := b2 s2 rfl
            simp only [e2, Bool.false_eq_true, if_false]
            exact tail s2 b1 e2
          | thrown s2 => rw [hr] at b1; simp only [Res.st] at b1; exact ⟨b1, fun K' h => by cases h⟩
          | fault s2 => rw [hr] at b1; simp only [Res.st] at b1; exact ⟨b1, fun K' h => by cases h⟩
    · exact ⟨rfl, fun K' h => by cases h⟩

end NeoModel.Exec
