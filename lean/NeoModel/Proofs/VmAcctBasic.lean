/-
C12 proofs, part 3: how the building blocks of the instructions act on the counter invariant
(counted push / pop, allocation, child-list mutation).
-/
import NeoModel.Proofs.VmAcctCount
namespace NeoModel.VmAcct

def WfItem (h : Heap) (x : Item) : Prop := ∀ d, x.cid = some d → d < h.length

theorem InvC.congr {c : Ctr} {f g : Nat → Nat} {n m : Nat} (inv : InvC c f n) (hfg : ∀ id, f id = g id) (hnm : n = m) :
    InvC c g m :=
  ⟨inv.wf, fun id => by rw [← hfg id]; exact inv.rc id, by rw [← hnm]; exact inv.refs⟩

theorem InvC.valid {c : Ctr} {f : Nat → Nat} {n : Nat} (inv : InvC c f n) {d : Nat} (hp : 0 < f d) : d < c.heap.length := by
  rcases Nat.lt_or_ge d c.heap.length with hl | hl
  · exact hl
  · have := inv.rc d
    rw [rcOf_eq_zero_of_ge _ d hl] at this
    omega

theorem wfItem_prim (h : Heap) : WfItem h .prim := by intro d hd; cases hd

theorem wfItem_of_len {h h' : Heap} {x : Item} (hx : WfItem h x) (hl : h.length ≤ h'.length) : WfItem h' x :=
  fun d hd => Nat.lt_of_lt_of_le (hx d hd) hl

/-- Remove of a counted reference -/
theorem inv_rem {c : Ctr} {f : Nat → Nat} {n : Nat} (x : Item) (inv : InvC c (fun id => f id + cnt id [x]) (n + 1)) :
    InvC (c.rem x) f n ∧ SameShape c.heap (c.rem x).heap := by
  apply remW_spec
  refine ⟨inv.wf, fun id => ?_, ?_⟩
  · have := inv.rc id; omega
  · have := inv.refs; simp only [List.length_singleton]; push_cast at this ⊢; omega

theorem inv_remAll {c : Ctr} {f : Nat → Nat} {n : Nat} (xs : List Item)
    (inv : InvC c (fun id => f id + cnt id xs) (n + xs.length)) :
    InvC (c.remAll xs) f n ∧ SameShape c.heap (c.remAll xs).heap := by
  apply remW_spec
  refine ⟨inv.wf, fun id => ?_, ?_⟩
  · have := inv.rc id; omega
  · have := inv.refs; push_cast at this ⊢; omega

/-- Add of a valid reference -/
theorem inv_add {c : Ctr} {f : Nat → Nat} {n : Nat} (x : Item) (hx : WfItem c.heap x) (inv : InvC c f n) :
    InvC (c.add x) (fun id => f id + cnt id [x]) (n + 1) ∧ SameShape c.heap (c.add x).heap := by
  apply addW_spec
  refine ⟨inv.wf, ?_, fun id => ?_, ?_⟩
  · intro y hy d hd
    rcases List.mem_singleton.1 hy with rfl
    exact hx d hd
  · have := inv.rc id; omega
  · have := inv.refs; simp only [List.length_singleton]; push_cast at this ⊢; omega

theorem inv_addAll {c : Ctr} {f : Nat → Nat} {n : Nat} (xs : List Item) (hx : ∀ x ∈ xs, WfItem c.heap x) (inv : InvC c f n) :
    InvC (c.addAll xs) (fun id => f id + cnt id xs) (n + xs.length) ∧ SameShape c.heap (c.addAll xs).heap := by
  apply addW_spec
  refine ⟨inv.wf, fun y hy d hd => hx y hy d hd, fun id => ?_, ?_⟩
  · have := inv.rc id; omega
  · have := inv.refs; push_cast at this ⊢; omega

/-! ### heap extension -/

theorem rcOf_append (h : Heap) (cell : Cell) (j : Nat) :
    rcOf (h ++ [cell]) j = if j = h.length then cell.rc else rcOf h j := by
  simp only [rcOf]
  rcases Nat.lt_trichotomy j h.length with hl | rfl | hl
  · simp [List.getElem?_append_left hl, Nat.ne_of_lt hl]
  · simp
  · have h1 : ¬ j = h.length := by omega
    rw [List.getElem?_eq_none (by simp; omega), List.getElem?_eq_none (by omega)]
    simp [h1]

theorem chOf_append (h : Heap) (cell : Cell) (j : Nat) :
    chOf (h ++ [cell]) j = if j = h.length then cell.ch else chOf h j := by
  simp only [chOf]
  rcases Nat.lt_trichotomy j h.length with hl | rfl | hl
  · simp [List.getElem?_append_left hl, Nat.ne_of_lt hl]
  · simp
  · have h1 : ¬ j = h.length := by omega
    rw [List.getElem?_eq_none (by simp; omega), List.getElem?_eq_none (by omega)]
    simp [h1]

theorem heldCnt_append (h : Heap) (cell : Cell) (j : Nat) :
    heldCnt (h ++ [cell]) j = heldCnt h j + (if cell.rc = 0 then 0 else cnt j cell.ch) := by
  simp [heldCnt, List.map_append, List.sum_append]

theorem heldLen_append (h : Heap) (cell : Cell) :
    heldLen (h ++ [cell]) = heldLen h + (if cell.rc = 0 then 0 else cell.ch.length) := by
  simp [heldLen, List.map_append, List.sum_append]

theorem HeapWf_append {h : Heap} (cell : Cell) (hw : HeapWf h) (hc : ∀ x ∈ cell.ch, WfItem (h ++ [cell]) x) :
    HeapWf (h ++ [cell]) := by
  intro j x d hx hd
  rw [chOf_append] at hx
  by_cases hj : j = h.length
  · simp only [hj, if_true] at hx
    exact hc x hx d hd
  · simp only [hj, if_false] at hx
    have := hw j x d hx hd
    simp; omega

/-- allocating an unreferenced cell (count 0) is invisible to the invariant -/
theorem inv_alloc0 {c : Ctr} {f : Nat → Nat} {n : Nat} (ch : List Item) (hch : ∀ x ∈ ch, WfItem c.heap x) (inv : InvC c f n) :
    InvC { c with heap := c.heap ++ [{ rc := 0, ch := ch }] } f n := by
  refine ⟨HeapWf_append _ inv.wf (fun x hx => wfItem_of_len (hch x hx) (by simp)), fun id => ?_, ?_⟩
  · have := inv.rc id
    simp only [rcOf_append, heldCnt_append, if_true, Nat.add_zero]
    by_cases hid : id = c.heap.length
    · subst hid
      rw [rcOf_eq_zero_of_ge _ _ (Nat.le_refl _)] at this
      simp; omega
    · simp [hid]; exact this
  · have := inv.refs
    simp only [heldLen_append, if_true]
    push_cast at this ⊢; omega

/-- allocating a cell with own count 1 whose children were counted references (they become held),
together with the one reference to the new cell: `refs` grows by one. -/
theorem inv_alloc1 {c : Ctr} {f : Nat → Nat} {n : Nat} (ch : List Item)
    (inv : InvC c (fun id => f id + cnt id ch) (n + ch.length)) :
    InvC { heap := c.heap ++ [{ rc := 1, ch := ch }], refs := c.refs + 1 }
      (fun id => f id + (if id = c.heap.length then 1 else 0)) (n + 1) := by
  have hvalid : ∀ x ∈ ch, WfItem c.heap x := by
    intro x hx d hd
    exact inv.valid (d := d) (by have := cnt_pos_of_mem hx hd; omega)
  refine ⟨HeapWf_append _ inv.wf (fun x hx => wfItem_of_len (hvalid x hx) (by simp)), fun id => ?_, ?_⟩
  · have := inv.rc id
    simp only [rcOf_append, heldCnt_append]
    by_cases hid : id = c.heap.length
    · subst hid
      rw [rcOf_eq_zero_of_ge _ _ (Nat.le_refl _)] at this
      simp; omega
    · simp [hid]; omega
  · have := inv.refs
    simp only [heldLen_append]
    have h1 : ((1 : Nat) = 0) = False := by simp
    simp only [h1, if_false]
    push_cast at this ⊢; omega

/-! ### child-list mutation -/

theorem rcOf_setCh (h : Heap) (id : Nat) (xs : List Item) (j : Nat) : rcOf (setCh h id xs) j = rcOf h j := by
  simp only [rcOf, setCh, List.getElem?_modify]
  cases h[j]? with
  | none => simp
  | some cell => by_cases hj : id = j <;> simp [hj]

theorem chOf_setCh (h : Heap) (id : Nat) (xs : List Item) (j : Nat) :
    chOf (setCh h id xs) j = if j = id ∧ id < h.length then xs else chOf h j := by
  simp only [chOf, setCh, List.getElem?_modify]
  by_cases hj : j = id
  · subst hj
    rcases Nat.lt_or_ge j h.length with hl | hl
    · simp [List.getElem?_eq_getElem hl, hl]
    · have : ¬ j < h.length := by omega
      simp [List.getElem?_eq_none hl, this]
  · have : ¬ id = j := fun e => hj e.symm
    cases h[j]? <;> simp [hj, this]

@[simp] theorem length_setCh (h : Heap) (id : Nat) (xs : List Item) : (setCh h id xs).length = h.length := by simp [setCh]

theorem held_setCh_ref (F : List Item → Nat) (h : Heap) (id : Nat) (xs : List Item) (hr : rcOf h id ≠ 0) :
    ((setCh h id xs).map (fun c => if c.rc = 0 then 0 else F c.ch)).sum + F (chOf h id)
      = (h.map (fun c => if c.rc = 0 then 0 else F c.ch)).sum + F xs := by
  have hl : id < h.length := by
    rcases Nat.lt_or_ge id h.length with hl | hl
    · exact hl
    · exact absurd (rcOf_eq_zero_of_ge h id hl) hr
  obtain ⟨cell, hc, hrc, hch⟩ := getElem?_of_lt h id hl
  have := sum_map_modify (fun c => if c.rc = 0 then 0 else F c.ch) (fun c => { c with ch := xs }) h id cell hc
  have hne : cell.rc ≠ 0 := by rw [hrc]; exact hr
  simp only [setCh]
  simp [hne, hch] at this
  omega

theorem held_setCh_unref (F : List Item → Nat) (h : Heap) (id : Nat) (xs : List Item) (hr : rcOf h id = 0) :
    ((setCh h id xs).map (fun c => if c.rc = 0 then 0 else F c.ch)).sum
      = (h.map (fun c => if c.rc = 0 then 0 else F c.ch)).sum := by
  rcases Nat.lt_or_ge id h.length with hl | hl
  · obtain ⟨cell, hc, hrc, hch⟩ := getElem?_of_lt h id hl
    have := sum_map_modify (fun c => if c.rc = 0 then 0 else F c.ch) (fun c => { c with ch := xs }) h id cell hc
    have he : cell.rc = 0 := by rw [hrc]; exact hr
    simp only [setCh]
    simp [he] at this
    omega
  · simp only [setCh]
    rw [modify_of_none _ h id (List.getElem?_eq_none hl)]

theorem HeapWf_setCh {h : Heap} (id : Nat) (xs : List Item) (hw : HeapWf h) (hx : ∀ x ∈ xs, WfItem h x) :
    HeapWf (setCh h id xs) := by
  intro j x d hxm hd
  rw [chOf_setCh] at hxm
  simp only [length_setCh]
  split at hxm
  · exact hx x hxm d hd
  · exact hw j x d hxm hd

/-- changing the children of an unreferenced compound is invisible to the invariant -/
theorem inv_setCh_unref {c : Ctr} {f : Nat → Nat} {n : Nat} (id : Nat) (xs : List Item) (hr : rcOf c.heap id = 0)
    (hx : ∀ x ∈ xs, WfItem c.heap x) (inv : InvC c f n) : InvC { c with heap := setCh c.heap id xs } f n := by
  refine ⟨HeapWf_setCh id xs inv.wf hx, fun j => ?_, ?_⟩
  · have := inv.rc j
    simp only [rcOf_setCh, heldCnt, held_setCh_unref (cnt j) c.heap id xs hr]
    exact this
  · have := inv.refs
    simp only [heldLen, held_setCh_unref (List.length) c.heap id xs hr]
    exact this

/-- changing the children of a referenced compound: the old children stop being held, the new
ones (which were counted references) become held. -/
theorem inv_setCh_ref {c : Ctr} {f : Nat → Nat} {n : Nat} (id : Nat) (xs : List Item) (hr : rcOf c.heap id ≠ 0)
    (inv : InvC c (fun j => f j + cnt j xs) (n + xs.length)) :
    InvC { c with heap := setCh c.heap id xs } (fun j => f j + cnt j (chOf c.heap id)) (n + (chOf c.heap id).length) := by
  have hvalid : ∀ x ∈ xs, WfItem c.heap x := by
    intro x hx d hd
    exact inv.valid (d := d) (by have := cnt_pos_of_mem hx hd; omega)
  refine ⟨HeapWf_setCh id xs inv.wf hvalid, fun j => ?_, ?_⟩
  · have := inv.rc j
    have hh := held_setCh_ref (cnt j) c.heap id xs hr
    simp only [rcOf_setCh, heldCnt] at this ⊢
    omega
  · have := inv.refs
    have hh := held_setCh_ref (List.length) c.heap id xs hr
    simp only [heldLen] at this ⊢
    push_cast at this ⊢
    omega

/-- general form: replacing the children `old` of a referenced compound by `xs`, where the counted
root references change from `f` to `g` such that `f + old = g + xs` (as multisets of references) -/
theorem inv_setCh_gen {c : Ctr} {f g : Nat → Nat} {n k : Nat} (id : Nat) (xs : List Item) (hr : rcOf c.heap id ≠ 0)
    (hx : ∀ x ∈ xs, WfItem c.heap x) (inv : InvC c f n)
    (hfg : ∀ j, f j + cnt j (chOf c.heap id) = g j + cnt j xs) (hnk : n + (chOf c.heap id).length = k + xs.length) :
    InvC { c with heap := setCh c.heap id xs } g k := by
  refine ⟨HeapWf_setCh id xs inv.wf hx, fun j => ?_, ?_⟩
  · have := inv.rc j
    have hh := held_setCh_ref (cnt j) c.heap id xs hr
    have := hfg j
    simp only [rcOf_setCh, heldCnt] at *
    omega
  · have := inv.refs
    have hh := held_setCh_ref (List.length) c.heap id xs hr
    simp only [heldLen] at *
    push_cast at *
    omega

end NeoModel.VmAcct
