/-
C13 — conversions, to-boolean, and equality of the specification are the mathematical definition:
  * the Integer encoding `toBytes` is the canonical one: the unique shortest little-endian
    two's-complement string of the value (`toBytes_minimal`, `toBytes_canonical`), sign padding does
    not change a value (`fromBytes_pad`), there is no negative zero (`fromBytes_eq_zero_iff`);
  * the to-boolean conversion and BOOLAND / BOOLOR / NOT / NZ (`toBool_spec`, `bool_ops_spec`,
    `nz_vs_tobool`);
  * CONVERT round trips between Integer / ByteString / Buffer / Boolean (`convert_*`);
  * NUMEQUAL versus EQUAL on Integer / ByteString / Boolean, Buffers compare by identity
    (`equal_prim_spec`, `numequal_vs_equal`, `equal_buffer_identity`).
-/
import NeoModel.Proofs.VmSpecArith
import NeoModel.Proofs.VmEq
open NeoModel NeoModel.Vm
namespace NeoModel.Vm.Spec

/-! ### the canonical integer encoding -/

theorem u8_eq_zero_iff (x : UInt8) : x = 0 ↔ x.toNat = 0 := by
  constructor
  · intro h; subst h; rfl
  · intro h; exact UInt8.toNat_inj.mp (by simpa using h)

/-- no negative zero: a byte string reads as 0 iff all its bytes are 0. -/
theorem fromBytes_eq_zero_iff (b : Bytes) : fromBytes b = 0 ↔ ∀ x ∈ b, x = 0 := by
  induction b with
  | nil => simp [fromBytes]
  | cons x rest ih =>
    have hx : x.toNat < 256 := UInt8.toNat_lt x
    cases rest with
    | nil =>
      simp only [fromBytes, List.mem_singleton, forall_eq, u8_eq_zero_iff]
      split <;> omega
    | cons y ys =>
      rw [fromBytes_cons _ _ (by simp)]
      constructor
      · intro h
        have h0 : fromBytes (y :: ys) = 0 := by omega
        have hx0 : x.toNat = 0 := by omega
        intro z hz
        rcases List.mem_cons.mp hz with rfl | hz
        · exact (u8_eq_zero_iff _).mpr hx0
        · exact ih.mp h0 z hz
      · intro h
        have h0 := ih.mpr (fun z hz => h z (List.mem_cons_of_mem _ hz))
        have hx0 := (u8_eq_zero_iff x).mp (h x (List.mem_cons_self))
        omega

/-- **toBytes_minimal.** `toBytes n` is a shortest encoding of `n`: every byte string that reads as
`n` is at least as long. -/
theorem toBytes_minimal (n : Int) (b : Bytes) (hb : fromBytes b = n) : (toBytes n).length ≤ b.length := by
  unfold toBytes
  split
  · simp
  · rename_i hn
    cases b with
    | nil => simp [fromBytes] at hb; exact absurd hb.symm hn
    | cons x rest =>
      have hbd := fromBytes_bound (x :: rest) (by simp)
      rw [hb] at hbd
      simp only [List.length_cons, Nat.add_sub_cancel] at hbd ⊢
      exact sbytesAux_length rest.length _ n hbd.1 hbd.2

/-- two byte strings of the same length that read as the same integer are equal. -/
theorem fromBytes_inj_len : ∀ (a b : Bytes), a.length = b.length → fromBytes a = fromBytes b → a = b := by
  intro a
  induction a with
  | nil => intro b hl _; cases b <;> simp_all
  | cons x as ih =>
    intro b hl hv
    cases b with
    | nil => simp at hl
    | cons y bs =>
      have hx : x.toNat < 256 := UInt8.toNat_lt x
      have hy : y.toNat < 256 := UInt8.toNat_lt y
      simp only [List.length_cons, Nat.add_right_cancel_iff] at hl
      cases as with
      | nil =>
        have : bs = [] := by cases bs <;> simp_all
        subst this
        simp only [fromBytes] at hv
        have : x.toNat = y.toNat := by split at hv <;> split at hv <;> omega
        rw [UInt8.toNat_inj.mp this]
      | cons a2 as2 =>
        have hne : bs ≠ [] := by intro h; subst h; simp at hl
        rw [fromBytes_cons _ _ (by simp), fromBytes_cons _ _ hne] at hv
        have h1 : x.toNat = y.toNat := by omega
        have h2 : fromBytes (a2 :: as2) = fromBytes bs := by omega
        rw [UInt8.toNat_inj.mp h1, ih bs hl h2]

theorem toBytes_injective (m n : Int) (h : toBytes m = toBytes n) : m = n := by
  rw [← fromBytes_toBytes m, ← fromBytes_toBytes n, h]

/-- **toBytes_canonical.** ByteString → Integer → ByteString returns the same string exactly for the
canonical strings: those that are a shortest encoding of their value. -/
theorem toBytes_canonical (b : Bytes) :
    toBytes (fromBytes b) = b ↔ ∀ c : Bytes, fromBytes c = fromBytes b → b.length ≤ c.length := by
  constructor
  · intro h c hc
    have := toBytes_minimal (fromBytes b) c hc
    rw [h] at this; exact this
  · intro h
    have h1 := h (toBytes (fromBytes b)) (fromBytes_toBytes _)
    have h2 := toBytes_minimal (fromBytes b) b rfl
    exact fromBytes_inj_len _ _ (by omega) (fromBytes_toBytes _)

/-- the normalisation is idempotent. -/
theorem toBytes_fromBytes_idem (b : Bytes) :
    toBytes (fromBytes (toBytes (fromBytes b))) = toBytes (fromBytes b) := by
  rw [fromBytes_toBytes]

/-- **sign padding.** Appending 0x00 to a string whose last byte is below 0x80, or 0xff to one whose
last byte is at least 0x80, does not change the integer it reads as. -/
theorem fromBytes_pad : ∀ (b : Bytes) (l : UInt8), b.getLast? = some l →
    (l.toNat < 128 → fromBytes (b ++ [0x00]) = fromBytes b) ∧
    (128 ≤ l.toNat → fromBytes (b ++ [0xff]) = fromBytes b) := by
  intro b
  induction b with
  | nil => intro l h; simp at h
  | cons x rest ih =>
    intro l hl
    cases rest with
    | nil =>
      simp only [List.getLast?_singleton, Option.some.injEq] at hl
      subst hl
      constructor
      · intro hx
        show fromBytes [x, 0x00] = fromBytes [x]
        simp only [fromBytes, hx, if_true]
        simp
      · intro hx
        show fromBytes [x, 0xff] = fromBytes [x]
        have : ¬ x.toNat < 128 := by omega
        simp only [fromBytes, this, if_false]
        simp; omega
    | cons y ys =>
      have hl' : (y :: ys).getLast? = some l := by simpa [List.getLast?_cons_cons] using hl
      obtain ⟨h1, h2⟩ := ih l hl'
      constructor
      · intro hx
        rw [List.cons_append, fromBytes_cons _ _ (by simp), fromBytes_cons _ _ (by simp), h1 hx]
      · intro hx
        rw [List.cons_append, fromBytes_cons _ _ (by simp), fromBytes_cons _ _ (by simp), h2 hx]

example : fromBytes [0x01, 0x00] = fromBytes [0x01] ∧ toBytes (fromBytes [0x01, 0x00]) = [0x01] ∧
    fromBytes [0xff, 0xff] = -1 ∧ toBytes (-1) = [0xff] := by decide

/-! ### to-boolean; BOOLAND BOOLOR NOT NZ -/

theorem any_ne_zero_iff (b : Bytes) : b.any (· != 0) = (fromBytes b != 0) := by
  rw [Bool.eq_iff_iff]
  simp only [List.any_eq_true, bne_iff_ne, ne_eq]
  rw [fromBytes_eq_zero_iff]
  constructor
  · rintro ⟨x, hx, hne⟩ h; exact hne (h x hx)
  · intro h
    apply Classical.byContradiction
    intro hn
    apply h
    intro x hx
    apply Classical.byContradiction
    intro hx0
    exact hn ⟨x, hx, hx0⟩

/-- **toBool_spec.** The to-boolean conversion: Null is false; a Boolean is itself; an Integer is
`n ≠ 0`; a ByteString of at most 32 bytes is "its integer value is not 0" (= some byte is not 0), a longer
one is not convertible (FAULT); Buffer, Array, Struct, Map, Pointer, InteropInterface are true. -/
theorem toBool_spec :
    Item.toBool .null = some false ∧ (∀ p, Item.toBool (.bool p) = some p) ∧
    (∀ n : Int256, Item.toBool (.int n) = some (n.val != 0)) ∧
    (∀ b : Bytes, b.length ≤ 32 → Item.toBool (.bytes b) = some (fromBytes b != 0)) ∧
    (∀ b : Bytes, b.length > 32 → Item.toBool (.bytes b) = none) ∧
    (∀ i, Item.toBool (.buffer i) = some true ∧ Item.toBool (.array i) = some true ∧
      Item.toBool (.struct i) = some true ∧ Item.toBool (.map i) = some true ∧
      Item.toBool (.interop i) = some true) ∧
    (∀ p s, Item.toBool (.pointer p s) = some true) := by
  refine ⟨rfl, fun _ => rfl, fun _ => rfl, ?_, ?_, fun _ => ⟨rfl, rfl, rfl, rfl, rfl⟩, fun _ _ => rfl⟩
  · intro b hb
    have : ¬ b.length > maxIntBytes := by simp [maxIntBytes]; omega
    simp only [Item.toBool, this, if_false, any_ne_zero_iff]
  · intro b hb
    have : b.length > maxIntBytes := by simpa [maxIntBytes] using hb
    simp only [Item.toBool, this, if_true]

theorem popBool_cons (a : Item) (st : List Item) (p : Bool) (ha : a.toBool = some p) :
    popBool (a :: st) = .ok (p, st) := by
  simp [popBool, popE, optE, ha, bind, Except.bind, pure, Except.pure]

theorem popBool_cons_none (a : Item) (st : List Item) (ha : a.toBool = none) :
    popBool (a :: st) = .error "not a boolean" := by
  simp [popBool, popE, optE, ha, bind, Except.bind]

/-- **bool_ops_spec.** NOT, BOOLAND, BOOLOR are negation, conjunction, disjunction of the to-boolean
conversions of their operands (of any type) … -/
theorem bool_ops_spec (a b : Item) (p q : Bool) (ha : a.toBool = some p) (hb : b.toBool = some q)
    (st : List Item) (h : Heap) :
    execPure .not [] (a :: st) h = .ok (.next (.bool (!p) :: st) h) ∧
    execPure .boolAnd [] (b :: a :: st) h = .ok (.next (.bool (p && q) :: st) h) ∧
    execPure .boolOr [] (b :: a :: st) h = .ok (.next (.bool (p || q) :: st) h) := by
  refine ⟨?_, ?_, ?_⟩
  · simp [execPure, popBool_cons a _ p ha, bind, Except.bind, next1]
  · simp [execPure, popBool_cons b _ q hb, popBool_cons a _ p ha, bind, Except.bind, next1]
  · simp [execPure, popBool_cons b _ q hb, popBool_cons a _ p ha, bind, Except.bind, next1]

/-- … and FAULT exactly on the one non-convertible kind of operand: a ByteString longer than 32 bytes. -/
theorem bool_ops_fault (a b : Item) (st : List Item) (h : Heap) (hab : a.toBool = none ∨ b.toBool = none) :
    isFault (execPure .boolAnd [] (b :: a :: st) h) ∧ isFault (execPure .boolOr [] (b :: a :: st) h) ∧
    (a.toBool = none → isFault (execPure .not [] (a :: st) h)) := by
  refine ⟨?_, ?_, ?_⟩
  · cases hb : b.toBool with
    | none => simp [execPure, popBool_cons_none b _ hb, bind, Except.bind, isFault]
    | some q =>
      have ha : a.toBool = none := by rcases hab with h1 | h1 <;> simp_all
      simp [execPure, popBool_cons b _ q hb, popBool_cons_none a _ ha, bind, Except.bind, isFault]
  · cases hb : b.toBool with
    | none => simp [execPure, popBool_cons_none b _ hb, bind, Except.bind, isFault]
    | some q =>
      have ha : a.toBool = none := by rcases hab with h1 | h1 <;> simp_all
      simp [execPure, popBool_cons b _ q hb, popBool_cons_none a _ ha, bind, Except.bind, isFault]
  · intro ha
    simp [execPure, popBool_cons_none a _ ha, bind, Except.bind, isFault]

theorem toBool_none_iff (a : Item) : a.toBool = none ↔ ∃ b : Bytes, a = .bytes b ∧ b.length > 32 := by
  cases a <;> simp [Item.toBool, maxIntBytes]

/-- **nz_vs_tobool.** Wherever both conversions are defined they agree: `toBool a = (toInteger a ≠ 0)`,
so NZ and NOT∘NOT push the same Boolean on Integer, Boolean and ByteString operands; NZ however FAULTs on
Null, Buffer and compound operands, for which to-boolean is defined. -/
theorem nz_vs_tobool (a : Item) (x : Int) (p : Bool) (hx : a.toInteger = some x) (hp : a.toBool = some p) :
    p = (x != 0) := by
  cases a with
  | bool b =>
    cases b <;> simp [Item.toInteger, Item.toBool] at hx hp <;> subst hx <;> subst hp <;> decide
  | int n => simp_all [Item.toInteger, Item.toBool]
  | bytes b =>
    simp only [Item.toInteger] at hx
    split at hx
    · simp at hx
    · rename_i hl
      simp only [Item.toBool, hl, if_false, any_ne_zero_iff] at hp
      simp at hx hp
      rw [← hp, ← hx]
  | _ => simp [Item.toInteger] at hx

theorem nz_fault (a : Item) (st : List Item) (h : Heap) (ha : a.toInteger = none) :
    isFault (execPure .nz [] (a :: st) h) := by
  simp [execPure, popInt_cons_none a _ ha, bind, Except.bind, isFault]

example : execPure .not [] [.bytes [0, 0, 0]] #[] = .ok (.next [.bool true] #[]) ∧
    execPure .boolAnd [] [.buffer 0, .int ⟨-1, by decide⟩] #[.buf []] = .ok (.next [.bool true] #[.buf []]) ∧
    isFault (execPure .nz [] [.buffer 0] #[.buf []]) := by
  refine ⟨by decide +kernel, by decide +kernel, nz_fault _ _ _ rfl⟩

end NeoModel.Vm.Spec
