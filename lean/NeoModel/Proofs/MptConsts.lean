/-
Tie by translation for C10: the constants and argument guards that the trie model contains literally,
against the table regenerated from /repo's source on every run (harness/cmd/extract/mptconsts.go →
Generated/MptConsts.lean). A changed limit, node type tag, comparison or guard order breaks this file.
-/
import NeoModel.Generated.MptConsts
import NeoModel.Model.Mpt.Guards
import NeoModel.Model.Mpt.Lazy
namespace NeoModel.Mpt
open NeoModel.Generated.MptConsts

/-- the limits and the shape of a branch in the model are those of the source. -/
theorem consts_eq :
    maxKeyLength = cMaxKeyLength ∧ maxPathLength = cMaxPathLength ∧ maxValueLength = cMaxValueLength ∧
    cMaxPathLength = 2 * cMaxKeyLength ∧ cChildrenCount = 17 ∧ cLastChild = 16 := by decide

/-- the node type tags written by `enc` are BranchT / ExtensionT / LeafT / HashT (child) / EmptyT. -/
theorem enc_tags (H : Bytes → Bytes) (cs : Nib → Node) (v : Option Val) (k : Path) (n : Node) (w : Val) :
    (enc H (.branch cs v)).head? = some (UInt8.ofNat cBranchT) ∧
    (enc H (.ext k n)).head? = some (UInt8.ofNat cExtensionT) ∧
    (enc H (.leaf w)).head? = some (UInt8.ofNat cLeafT) ∧
    enc H .empty = [UInt8.ofNat cEmptyT] ∧
    (n.isEmpty = false → (childRef H n (enc H n)).head? = some (UInt8.ofNat cHashT)) ∧
    lenc H (.hash w) = UInt8.ofNat cHashT :: w := by
  refine ⟨rfl, rfl, rfl, rfl, ?_, rfl⟩
  intro h; simp [childRef, h]; rfl

/-- … and the decoder dispatches on the same tags (node.go:77-107). -/
theorem decode_tags (d : Nat) (bs : Bytes) :
    decode (d + 1) (UInt8.ofNat cEmptyT :: bs) = some (.empty, bs) ∧
    decode (d + 1) (UInt8.ofNat cHashT :: bs) = (Wire.takeN 32 bs).map (fun x => (.hash x.1, x.2)) ∧
    (∀ t : UInt8, t.toNat > cEmptyT → decode (d + 1) (t :: bs) = none) := by
  refine ⟨by simp [decode, cEmptyT], ?_, ?_⟩
  · simp only [decode, cHashT]
    cases Wire.takeN 32 bs <;> simp
  · intro t ht
    have h0 : t ≠ 0 := by intro e; subst e; simp [cEmptyT] at ht
    have h1 : t ≠ 1 := by intro e; subst e; simp [cEmptyT] at ht
    have h2 : t ≠ 2 := by intro e; subst e; simp [cEmptyT] at ht
    have h3 : t ≠ 3 := by intro e; subst e; simp [cEmptyT] at ht
    have h4 : t ≠ 4 := by intro e; subst e; simp [cEmptyT] at ht
    simp [decode, h0, h1, h2, h3, h4]

/-- the guards of the API in the source, in order: what `putGuard` / `keyGuard` / `findGuard` and the
size checks of `decode` (`sz > maxPathLength`, `sz > maxValueLength`, depth) mirror. -/
theorem api_guards :
    guardsTriePut = ["len(key) == 0", "len(key) > MaxKeyLength", "len(value) > MaxValueLength", "value == nil", "err != nil"] ∧
    guardsTrieGet = ["len(key) > MaxKeyLength", "err != nil"] ∧
    guardsTrieDelete = ["len(key) > MaxKeyLength", "err != nil"] ∧
    guardsTrieGetProof = ["len(key) > MaxKeyLength", "err != nil"] ∧
    guardsTrieFind.take 2 = ["len(prefix) > MaxKeyLength", "len(from) > MaxKeyLength-len(prefix)"] ∧
    guardsTriePutBatch = ["len(b.kv) == 0"] ∧
    guardsTrieCollapse = ["depth < 0"] ∧
    guardsExtensionNodedecodeBinaryWithDepth = ["sz > maxPathLength"] ∧
    guardsLeafNodedecodeBinaryWithDepth = ["sz > MaxValueLength"] ∧
    guardsDecodeNodeWithType = ["r.Err != nil", "depth > maxPathLength"] := by decide

/-- the guards of the model in terms of the generated constants (the comparisons of the list above). -/
theorem guards_spec (klen vlen plen flen : Nat) :
    (putGuard klen vlen = true ↔ klen = 0 ∨ klen > cMaxKeyLength ∨ vlen > cMaxValueLength) ∧
    (keyGuard klen = true ↔ klen > cMaxKeyLength) ∧
    (findGuard plen flen = true ↔ plen > cMaxKeyLength ∨ flen > cMaxKeyLength - plen) := by
  simp [putGuard, keyGuard, findGuard, maxKeyLength, maxValueLength, cMaxKeyLength, cMaxValueLength, or_assoc]

end NeoModel.Mpt
