/-
Chains of covered blocks never stop the node: with the coverage of fees that transaction verification guarantees
stated as a hypothesis on the ledger at each block's OnPersist, no operation of a well-formed chain panics, so the
coherence of the committee cache (TokensCoh) holds along the chain without assuming that the node survived.
-/
import NeoModel.Proofs.TokensCoh
import NeoModel.Proofs.TokensPersist
namespace NeoModel.Tokens

/-- operations inside a transaction (calls, transaction start / end). -/
def Op.txLevel : Op → Bool
  | .block _ | .postPersist | .onPersist .. => false
  | _ => true

theorem Op.txLevel_inner (op : Op) (h : op.txLevel = true) : op.inner = true := by
  cases op <;> simp [Op.txLevel, Op.inner] at h ⊢

theorem step_panicked_tx (s : St) (op : Op) (h : op.txLevel = true) : (step s op).panicked = s.panicked := by
  unfold step
  split
  · (repeat' split) <;> rfl
  · split
    · rfl
    · cases op <;> simp only [exec, St.throw, St.done, afterPosted] <;> (repeat' split) <;> first | rfl | (simp [Op.txLevel] at h)

theorem run_panicked_tx (s : St) (ops : List Op) (h : ∀ op ∈ ops, op.txLevel = true) : (run s ops).panicked = s.panicked := by
  induction ops generalizing s with
  | nil => rfl
  | cons op rest ih =>
    exact (ih (step s op) (fun o ho => h o (List.mem_cons_of_mem _ ho))).trans (step_panicked_tx s op (h op (List.mem_cons_self ..)))

/-- the block is covered on the ledger `l` its OnPersist sees: the primary index is a validator position, fees are
positive and covered by the senders' balances and the payers' deposits, the network fees cover the notary service
fees, transactions of the Notary contract name their payer. -/
structure Covered (e : Env) (l : Ledger) (b : Blk) : Prop where
  pidx : b.pidx < e.vcount
  pos : ∀ t ∈ b.txs, 0 < t.sys + t.net
  a2 : ∀ t ∈ b.txs, t.sender = e.notary → t.nkeys.isSome = true → t.payer.isSome = true
  gas : ∀ a, owedBy a b.txs ≤ at0 id l.gas a
  deps : ∀ p, chargedTo e.notary p b.txs ≤ at0 (·.amount) l.deps p
  prim : 0 ≤ primaryFee e b.txs

theorem owedBy_zero (a : Nat) (txs : List TxFee) (h : ∀ t ∈ txs, t.sender ≠ a) : owedBy a txs = 0 := by
  induction txs with
  | nil => rfl
  | cons t ts ih =>
    simp only [owedBy]
    rw [if_neg (h t (by simp)), ih (fun t' ht' => h t' (by simp [ht']))]; rfl

theorem chargedTo_zero (nt p : Nat) (txs : List TxFee) (h : ∀ t ∈ txs, t.payer ≠ some p) : chargedTo nt p txs = 0 := by
  induction txs with
  | nil => rfl
  | cons t ts ih =>
    simp only [chargedTo]
    rw [if_neg (fun hh => h t (by simp) hh.2.2), ih (fun t' ht' => h t' (by simp [ht']))]; rfl

/-- the executable test the driver evaluates on every block implies `Covered` on a ledger satisfying the invariant
(accounts that send nothing owe nothing, and no stored balance or deposit is negative). -/
theorem coveredB_sound {nt : Nat} (e : Env) (l : Ledger) (b : Blk) (hi : Inv nt l) (h : coveredB e l b.pidx b.txs = true) :
    Covered e l b := by
  unfold coveredB at h
  simp only [Bool.and_eq_true, decide_eq_true_eq, List.all_eq_true, Bool.or_eq_true, Bool.not_eq_true',
    Bool.and_eq_false_imp] at h
  obtain ⟨⟨⟨⟨⟨h1, h2⟩, h3⟩, h4⟩, h5⟩, h6⟩ := h
  refine ⟨h1, h2, fun t ht hs hk => ?_, fun a => ?_, fun p => ?_, h6⟩
  · rcases h3 t ht with h | h
    · have := h (by simpa using hs); rw [this] at hk; cases hk
    · exact h
  · by_cases ha : ∃ t ∈ b.txs, t.sender = a
    · obtain ⟨t, ht, rfl⟩ := ha
      have := h4 t ht
      rw [at0_id]; exact this
    · rw [owedBy_zero a b.txs (fun t ht hs => ha ⟨t, ht, hs⟩)]
      exact at0_nonneg id l.gas a (fun p hp => by have := hi.gas.pos p hp; simp; omega)
  · by_cases hp : ∃ t ∈ b.txs, t.payer = some p
    · obtain ⟨t, ht, htp⟩ := hp
      have := h5 t ht
      rw [htp] at this
      simp only [decide_eq_true_eq] at this
      unfold at0
      cases hg : get l.deps p with
      | none => simpa [hg] using this
      | some d => simpa [hg] using this
    · rw [chargedTo_zero e.notary p b.txs (fun t ht htp => hp ⟨t, ht, htp⟩)]
      exact at0_nonneg (·.amount) l.deps p (fun q hq => hi.notary.nonneg q hq)

/-- every block of the chain is covered on the ledger its own OnPersist sees. -/
def chainCovered (s : St) : List Blk → Prop
  | [] => True
  | b :: bs =>
    Covered (step s (.block (s.env.index + 1))).env (step s (.block (s.env.index + 1))).cur b ∧
      chainCovered (run s (b.ops (s.env.index + 1))) bs

/-- the body holds transaction-level operations only. -/
def Blk.txOnly (b : Blk) : Prop := ∀ op ∈ b.body, op.txLevel = true

theorem onPersist_no_panic {nt : Nat} (s : St) (b : Blk) (hm : MInv nt s) (hg : GMInv s) (hfee : 0 ≤ s.env.attrFee)
    (hc : Covered s.env s.cur b) :
    (step s (.onPersist b.pidx b.notaries b.txs)).panicked = s.panicked := by
  have hstep : step s (.onPersist b.pidx b.notaries b.txs) = exec s (.onPersist b.pidx b.notaries b.txs) := step_eq_exec _ _ rfl
  rw [hstep]
  simp only [exec]
  rw [if_neg (by
    intro hh
    have := hg.cur.cur.vlen
    have := hc.pidx
    omega)]
  split
  · rfl
  · split
    · rfl
    · obtain ⟨l1, l2, h1, h2⟩ := onPersist_isSome s.env s.cur (acctOf s.env ((s.cur.nextVals[b.pidx]?).getD 0)) b.notaries b.txs
        hm.cur hfee hc.pos hc.a2 hc.gas hc.deps hc.prim
      simp only [h1, h2]

theorem block_bnd_panicked (s : St) : (step s (.block (s.env.index + 1))).panicked = s.panicked := by
  have hstep : step s (.block (s.env.index + 1)) = exec s (.block (s.env.index + 1)) := step_eq_exec _ _ rfl
  rw [hstep]; rfl

theorem postPersist_no_panic {nt : Nat} (s : St) (hm : MInv nt s) (hg : GMInv s) (hcs : s.env.csize ≠ 0)
    (hA : ∀ k, acctOf s.env k ≠ s.env.notary) : (step s .postPersist).panicked = s.panicked := by
  have hstep : step s .postPersist = exec s .postPersist := step_eq_exec _ _ rfl
  rw [hstep]
  simp only [exec]
  have hno : ¬ (s.cur.committee.any (fun c => decide (acctOf s.env c.1 = s.env.notary))) = true := by
    simp only [List.any_eq_true, not_exists, not_and, decide_eq_true_eq]
    intro c _; exact hA c.1
  rw [if_neg hno]
  have := neoPostPersistAll_isSome (nt := nt) s.env s.cur hg.env hcs hm.cur (by
      simp only [List.any_eq_true, not_exists, not_and, decide_eq_true_eq, List.mem_map]
      rintro _ ⟨c, _, rfl⟩
      rw [← hm.notary]; exact hA c.1) hg.cur
  cases hp : neoPostPersistAll s.env s.cur with
  | none => rw [hp] at this; cases this
  | some l => rfl

theorem step_attrFee (s : St) (op : Op) : (step s op).env.attrFee = s.env.attrFee := by
  unfold step
  split
  · (repeat' split) <;> rfl
  · split
    · rfl
    · cases op <;> simp only [exec, St.throw, St.done, afterPosted] <;> (repeat' split) <;> rfl

theorem run_attrFee (s : St) (ops : List Op) : (run s ops).env.attrFee = s.env.attrFee := by
  induction ops generalizing s with
  | nil => rfl
  | cons op rest ih => exact (ih (step s op)).trans (step_attrFee s op)

/-- a covered block does not stop the node. -/
theorem blk_no_panic {nt : Nat} (e0 : Env) (s : St) (b : Blk) (hm : MInv nt s) (hg : GMInv s) (hcfg : sameCfg e0 s.env)
    (hcs : e0.csize ≠ 0) (hA : ∀ k, acctOf e0 k ≠ e0.notary) (hfee : 0 ≤ s.env.attrFee) (htx : b.txOnly)
    (hc : Covered (step s (.block (s.env.index + 1))).env (step s (.block (s.env.index + 1))).cur b) :
    (run s (b.ops (s.env.index + 1))).panicked = s.panicked := by
  have hops : b.ops (s.env.index + 1) =
      [.block (s.env.index + 1)] ++ ([.onPersist b.pidx b.notaries b.txs] ++ (b.body ++ [.postPersist])) := by
    simp [Blk.ops]
  rw [hops, run_append, run_append, run_append]
  have h1 : run s [.block (s.env.index + 1)] = step s (.block (s.env.index + 1)) := rfl
  rw [h1]
  have hm1 := step_inv s (.block (s.env.index + 1)) hm
  have hg1 := step_gov s (.block (s.env.index + 1)) hm hg
  have hc1 := step_cfg e0 s (.block (s.env.index + 1)) hcfg
  have hf1 : 0 ≤ (step s (.block (s.env.index + 1))).env.attrFee := by rw [step_attrFee]; exact hfee
  have hp1 : (step s (.block (s.env.index + 1))).panicked = s.panicked := (block_bnd_panicked s)
  generalize step s (.block (s.env.index + 1)) = s1 at *
  have h2 : run s1 [.onPersist b.pidx b.notaries b.txs] = step s1 (.onPersist b.pidx b.notaries b.txs) := rfl
  rw [h2]
  have hp2 := onPersist_no_panic s1 b hm1 hg1 hf1 hc
  have hm2 := step_inv s1 (.onPersist b.pidx b.notaries b.txs) hm1
  have hg2 := step_gov s1 (.onPersist b.pidx b.notaries b.txs) hm1 hg1
  have hc2 := step_cfg e0 s1 (.onPersist b.pidx b.notaries b.txs) hc1
  generalize step s1 (.onPersist b.pidx b.notaries b.txs) = s2 at *
  have hp3 := run_panicked_tx s2 b.body htx
  have hm3 := run_inv s2 b.body hm2
  have hg3 := run_gov s2 b.body hm2 hg2
  have hc3 := run_cfg e0 s2 b.body hc2
  generalize run s2 b.body = s3 at *
  have h4 : run s3 [.postPersist] = step s3 .postPersist := rfl
  rw [h4]
  obtain ⟨_, c2, _, c4, c5⟩ := hc3
  have hp4 := postPersist_no_panic s3 hm3 hg3 (by rw [c2]; exact hcs) (fun k => by
    have : acctOf s3.env k = acctOf e0 k := by unfold acctOf; rw [c4]
    rw [this, c5]; exact hA k)
  rw [hp4, hp3, hp2, hp1]

/-- a chain of covered blocks does not stop the node. -/
theorem chain_no_panic {nt : Nat} (e0 : Env) (s : St) (bs : List Blk) (hm : MInv nt s) (hg : GMInv s) (hcfg : sameCfg e0 s.env)
    (hcs : e0.csize ≠ 0) (hA : ∀ k, acctOf e0 k ≠ e0.notary) (hfee : 0 ≤ s.env.attrFee) (htx : ∀ b ∈ bs, b.txOnly)
    (hc : chainCovered s bs) : (runChain s bs).panicked = s.panicked := by
  induction bs generalizing s with
  | nil => rfl
  | cons b rest ih =>
    simp only [runChain]
    obtain ⟨hc1, hc2⟩ := hc
    have h1 := blk_no_panic e0 s b hm hg hcfg hcs hA hfee (htx b (List.mem_cons_self ..)) hc1
    rw [ih (run s (b.ops (s.env.index + 1))) (run_inv _ _ hm) (run_gov _ _ hm hg) (run_cfg e0 _ _ hcfg)
      (by rw [run_attrFee]; exact hfee) (fun b' hb' => htx b' (List.mem_cons_of_mem _ hb')) hc2, h1]

end NeoModel.Tokens
