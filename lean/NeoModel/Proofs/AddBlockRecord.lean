/-
C06 helper lemmas: the conflict record that dao.StoreAsTransaction builds from a history of conflicting
transactions (`recordOf`), and dao.HasTransaction's answer on it (`stubHits`) against the specification
(`conflictInWindow`).
-/
import NeoModel.Model.AddBlock.TxVerify
namespace NeoModel.AddBlock

/-- per-account view of a record: does it hold a traceable entry for `a` -/
def recHas (r : Rec) (a h mtb : Nat) : Bool :=
  match r with
  | .stub _ recs => recs.any (fun p => p.1 == a && isTraceable p.2 h mtb)
  | _ => false

def recIdx (r : Rec) : Option Nat :=
  match r with
  | .stub i _ => some i
  | _ => none

theorem snoc_ind {α : Type} (P : List α → Prop) (h0 : P []) (hs : ∀ l a, P l → P (l ++ [a])) (l : List α) : P l := by
  have key : ∀ r : List α, P r.reverse := by
    intro r
    induction r with
    | nil => exact h0
    | cons a r ih => rw [List.reverse_cons]; exact hs _ _ ih
  have := key l.reverse
  rwa [List.reverse_reverse] at this

theorem any_beq_and (s : List Nat) (a : Nat) (b : Bool) : (s.any fun x => x == a && b) = (b && s.contains a) := by
  induction s with
  | nil => simp
  | cons x r ih =>
    simp only [List.any_cons, ih, List.contains_cons]
    have hx : (x == a) = (a == x) := by
      cases h1 : x == a <;> cases h2 : a == x <;> simp_all
    cases b <;> simp [hx]

theorem recordOf_snoc (hist : List (Nat × List Nat)) (j : Nat) (s : List Nat) :
    recordOf (hist ++ [(j, s)]) = storeConflict (recordOf hist) j s := by
  simp [recordOf, List.foldl_append]

theorem recordOf_ne_block (hist : List (Nat × List Nat)) : recordOf hist ≠ .block ∧ recordOf hist ≠ .tx := by
  refine snoc_ind (fun hist => recordOf hist ≠ .block ∧ recordOf hist ≠ .tx) (by simp [recordOf]) ?_ hist
  intro l p ih
  obtain ⟨j, s⟩ := p
  rw [recordOf_snoc]
  cases hr : recordOf l with
  | block => exact absurd hr ih.1
  | _ => simp [storeConflict]

theorem isTraceable_later (i j h mtb : Nat) (hij : i ≤ j) (hj : j ≤ h) (ht : isTraceable i h mtb = true) :
    isTraceable j h mtb = true := by
  unfold isTraceable at ht ⊢
  simp only [Bool.and_eq_true, decide_eq_true_eq] at ht ⊢
  omega

/-- what `recordOf` holds: the index of the LAST conflicting transaction, and for every account a
traceable entry iff some conflicting transaction it signed is inside the window (indices
non-decreasing, none above the height). -/
theorem recordOf_spec (h mtb : Nat) (hist : List (Nat × List Nat))
    (hs : hist.Pairwise (fun p q => p.1 ≤ q.1)) (hle : ∀ p ∈ hist, p.1 ≤ h) :
    recIdx (recordOf hist) = (hist.getLast?).map (·.1) ∧
    ∀ a, recHas (recordOf hist) a h mtb = hist.any (fun p => isTraceable p.1 h mtb && p.2.contains a) := by
  revert hs hle
  refine snoc_ind (fun hist => hist.Pairwise (fun p q => p.1 ≤ q.1) → (∀ p ∈ hist, p.1 ≤ h) →
    recIdx (recordOf hist) = (hist.getLast?).map (·.1) ∧
    ∀ a, recHas (recordOf hist) a h mtb = hist.any (fun p => isTraceable p.1 h mtb && p.2.contains a)) ?_ ?_ hist
  · intro _ _; exact ⟨rfl, fun _ => rfl⟩
  · intro l p ih hs hle
    obtain ⟨j, s⟩ := p
    rw [List.pairwise_append] at hs
    obtain ⟨hs1, _, hs3⟩ := hs
    have hlej : j ≤ h := hle (j, s) (by simp)
    obtain ⟨ih1, ih2⟩ := ih hs1 (fun p hp => hle p (by simp [hp]))
    rw [recordOf_snoc]
    have hnb := recordOf_ne_block l
    constructor
    · cases hr : recordOf l with
      | block => exact absurd hr hnb.1
      | _ => simp [storeConflict, recIdx]
    · intro a
      rw [List.any_append, ← ih2 a]
      simp only [List.any_cons, List.any_nil, Bool.or_false]
      have hold : recHas (recordOf l) a h mtb = true → isTraceable j h mtb = true := by
        intro hh
        rw [ih2 a, List.any_eq_true] at hh
        obtain ⟨p, hp, hpt⟩ := hh
        simp only [Bool.and_eq_true] at hpt
        exact isTraceable_later p.1 j h mtb (hs3 p hp (j, s) (by simp)) hlej hpt.1
      cases hr : recordOf l with
      | block => exact absurd hr hnb.1
      | tx => exact absurd hr hnb.2
      | none =>
        simp only [storeConflict, recHas, List.any_map, Function.comp_def, Bool.false_or]
        exact any_beq_and s a _
      | stub i recs =>
        rw [hr] at hold
        simp only [storeConflict, recHas, List.any_append, List.any_map, Function.comp_def, List.any_filter] at hold ⊢
        rw [any_beq_and]
        cases hc : s.contains a
        · have h2 : (recs.any fun p => (!s.contains p.1) && (p.1 == a && isTraceable p.2 h mtb)) =
              (recs.any fun p => p.1 == a && isTraceable p.2 h mtb) := by
            congr 1; funext p
            cases hpa : p.1 == a
            · simp
            · have : p.1 = a := eq_of_beq hpa
              rw [this, hc]; simp
          rw [h2]; simp
        · have h2 : (recs.any fun p => (!s.contains p.1) && (p.1 == a && isTraceable p.2 h mtb)) = false := by
            rw [List.any_eq_false]; intro p _
            cases hpa : p.1 == a
            · simp
            · have : p.1 = a := eq_of_beq hpa
              rw [this, hc]; simp
          rw [h2, Bool.or_false, Bool.and_true]
          cases ht : isTraceable j h mtb
          · cases ho : (recs.any fun p => p.1 == a && isTraceable p.2 h mtb)
            · rfl
            · have := hold ho; rw [ht] at this; cases this
          · simp

/-- C06: `dao.HasTransaction`'s answer on the record that `dao.StoreAsTransaction` builds equals the
specification: for every history of conflicting transactions stored in block order (indices
non-decreasing, none above the height) and every non-empty signer list, the conflict record counts
(`stubHits`) iff some conflicting transaction that shares a signer is inside the traceability window.
The stub must carry the index of the LAST conflicting transaction for this: with the first one's index
the reader stops at "the most fresh record is outdated" (seeded change C06-m6). -/
theorem stubHits_recordOf (h mtb : Nat) (hist : List (Nat × List Nat)) (sg : List Nat)
    (hs : hist.Pairwise (fun p q => p.1 ≤ q.1)) (hle : ∀ p ∈ hist, p.1 ≤ h) (hsg : sg ≠ []) :
    stubHits (recordOf hist) sg h mtb = conflictInWindow hist sg h mtb := by
  obtain ⟨hidx, hrec⟩ := recordOf_spec h mtb hist hs hle
  have hnb := recordOf_ne_block hist
  have hne : sg.isEmpty = false := by cases sg <;> simp_all
  -- the per-signer part of both sides
  have hper : ∀ r, recordOf hist = r →
      (sg.any fun a => recHas r a h mtb) = conflictInWindow hist sg h mtb := by
    intro r hr
    subst hr
    unfold conflictInWindow
    have : (sg.any fun a => recHas (recordOf hist) a h mtb) =
        sg.any (fun a => hist.any (fun p => isTraceable p.1 h mtb && p.2.contains a)) := by
      congr 1; funext a; exact hrec a
    rw [this]
    -- swap the two `any`s
    apply Bool.eq_iff_iff.mpr
    simp only [List.any_eq_true, Bool.and_eq_true]
    constructor
    · rintro ⟨a, ha, p, hp, ht, hc⟩; exact ⟨p, hp, ht, a, ha, hc⟩
    · rintro ⟨p, hp, ht, a, ha, hc⟩; exact ⟨a, ha, p, hp, ht, hc⟩
  cases hr : recordOf hist with
  | block => exact absurd hr hnb.1
  | tx => exact absurd hr hnb.2
  | none =>
    have := hper _ hr
    simp only [recHas] at this
    simp only [stubHits]
    rw [← this]
    symm
    rw [List.any_eq_false]; intro _ _; simp
  | stub i recs =>
    have hp := hper _ hr
    simp only [recHas] at hp
    simp only [stubHits, hne, Bool.false_or]
    rw [← hp]
    cases hti : isTraceable i h mtb
    · -- the last index is outside the window: then no entry is inside either
      rw [Bool.false_and]
      symm
      rw [List.any_eq_false]; intro a _
      intro hany
      rw [List.any_eq_true] at hany
      obtain ⟨p, hpm, hpe⟩ := hany
      simp only [Bool.and_eq_true] at hpe
      have hlast : ∃ q, hist.getLast? = some q ∧ q.1 = i := by
        rw [hr] at hidx
        simp only [recIdx] at hidx
        cases hg : hist.getLast? with
        | none => rw [hg] at hidx; cases hidx
        | some q => rw [hg] at hidx; exact ⟨q, rfl, by simpa using hidx.symm⟩
      obtain ⟨q, hq, hqi⟩ := hlast
      -- an entry (a, k) of the record comes from some (k, s) of the history, k ≤ i
      have hh := hrec p.1
      rw [hr] at hh
      have hpt := hpe.2
      · have hex : recHas (Rec.stub i recs) p.1 h mtb = true := by
          simp only [recHas, List.any_eq_true]
          exact ⟨p, hpm, by simp [hpt]⟩
        rw [hh, List.any_eq_true] at hex
        obtain ⟨e, he, het⟩ := hex
        simp only [Bool.and_eq_true] at het
        have hqm : q ∈ hist := List.mem_of_getLast? hq
        have hei : e.1 ≤ q.1 := by
          -- q is the last element: every element is ≤ it
          obtain ⟨pre, hpre⟩ : ∃ pre, hist = pre ++ [q] := by
            have := List.getLast?_eq_some_iff.mp hq
            exact this
          rw [hpre, List.pairwise_append] at hs
          rw [hpre, List.mem_append] at he
          rcases he with he | he
          · exact hs.2.2 e he q (by simp)
          · simp at he; rw [he]; exact Nat.le_refl _
        have := isTraceable_later e.1 q.1 h mtb hei (hle q hqm) het.1
        rw [hqi, hti] at this; cases this
    · rw [Bool.true_and]

end NeoModel.AddBlock
