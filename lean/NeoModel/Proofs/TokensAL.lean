/-
Lemmas about the association lists of the token model (`get` / `put` / `del` / `sumBy`).
-/
import NeoModel.Model.Tokens
namespace NeoModel.Tokens

variable {α : Type}

def keys (m : AL α) : List Nat := m.map Prod.fst

/-- contribution of key `k` to a sum. -/
def at0 (f : α → Int) (m : AL α) (k : Nat) : Int :=
  match get m k with
  | some v => f v
  | none => 0

theorem get_put_eq (m : AL α) (k : Nat) (v : α) : get (put m k v) k = some v := by
  induction m with
  | nil => simp [put, get]
  | cons p r ih =>
    obtain ⟨k', v'⟩ := p
    by_cases h : k' = k <;> simp [put, get, h, ih]

theorem get_put_ne (m : AL α) (k k' : Nat) (v : α) (h : k' ≠ k) : get (put m k v) k' = get m k' := by
  induction m with
  | nil => simp [put, get]; omega
  | cons p r ih =>
    obtain ⟨k0, v0⟩ := p
    by_cases h0 : k0 = k
    · subst h0
      have h1 : ¬ k0 = k' := fun e => h e.symm
      simp [put, get, h1]
    · simp [put, get, h0, ih]

theorem get_del_ne (m : AL α) (k k' : Nat) (h : k' ≠ k) : get (del m k) k' = get m k' := by
  induction m with
  | nil => simp [del, get]
  | cons p r ih =>
    obtain ⟨k0, v0⟩ := p
    by_cases h0 : k0 = k
    · subst h0; simp [del, get]; intro h1; omega
    · simp [del, get, h0, ih]

theorem get_none_of_not_mem (m : AL α) (k : Nat) (h : k ∉ keys m) : get m k = none := by
  induction m with
  | nil => simp [get]
  | cons p r ih =>
    obtain ⟨k0, v0⟩ := p
    simp [keys] at h
    have h1 : k0 ≠ k := fun e => h.1 e.symm
    simp [get, h1]
    exact ih (by simpa [keys] using h.2)

theorem mem_keys_of_get (m : AL α) (k : Nat) (v : α) (h : get m k = some v) : k ∈ keys m := by
  induction m with
  | nil => simp [get] at h
  | cons p r ih =>
    obtain ⟨k0, v0⟩ := p
    by_cases h0 : k0 = k
    · simp [keys, h0]
    · simp [get, h0] at h
      have := ih h
      simp [keys] at this ⊢
      exact Or.inr this

theorem get_mem (m : AL α) (k : Nat) (v : α) (h : get m k = some v) : (k, v) ∈ m := by
  induction m with
  | nil => simp [get] at h
  | cons p r ih =>
    obtain ⟨k0, v0⟩ := p
    by_cases h0 : k0 = k
    · simp [get, h0] at h; simp [h0, h]
    · simp [get, h0] at h; exact List.mem_cons_of_mem _ (ih h)

theorem keys_del_sub (m : AL α) (k x : Nat) (h : x ∈ keys (del m k)) : x ∈ keys m := by
  induction m with
  | nil => simp [del, keys] at h
  | cons p r ih =>
    obtain ⟨k0, v0⟩ := p
    by_cases h0 : k0 = k
    · simp [del, h0, keys] at h ⊢; exact Or.inr h
    · simp [del, h0, keys] at h ⊢
      rcases h with h | h
      · exact Or.inl h
      · exact Or.inr (by simpa [keys] using ih (by simpa [keys] using h))

theorem nodup_del (m : AL α) (k : Nat) (h : (keys m).Nodup) : (keys (del m k)).Nodup := by
  induction m with
  | nil => simp [del, keys]
  | cons p r ih =>
    obtain ⟨k0, v0⟩ := p
    simp [keys] at h
    by_cases h0 : k0 = k
    · simp [del, h0]; simpa [keys] using h.2
    · simp [del, h0, keys]
      refine ⟨?_, by simpa [keys] using ih (by simpa [keys] using h.2)⟩
      intro b hb
      have := keys_del_sub r k k0 (by simp [keys]; exact ⟨b, hb⟩)
      simp [keys] at this
      obtain ⟨b', hb'⟩ := this
      exact h.1 b' hb'

theorem get_del_eq (m : AL α) (k : Nat) (h : (keys m).Nodup) : get (del m k) k = none := by
  induction m with
  | nil => simp [del, get]
  | cons p r ih =>
    obtain ⟨k0, v0⟩ := p
    simp [keys] at h
    by_cases h0 : k0 = k
    · subst h0
      simp [del]
      apply get_none_of_not_mem
      simp [keys]; exact h.1
    · simp [del, h0, get]
      exact ih (by simpa [keys] using h.2)

theorem keys_put (m : AL α) (k : Nat) (v : α) :
    keys (put m k v) = if k ∈ keys m then keys m else keys m ++ [k] := by
  induction m with
  | nil => simp [put, keys]
  | cons p r ih =>
    obtain ⟨k0, v0⟩ := p
    by_cases h0 : k0 = k
    · simp [put, h0, keys]
    · have h1 : ¬ k = k0 := fun e => h0 e.symm
      simp only [put, h0, if_false, keys, List.map_cons, List.mem_cons, h1, false_or] at ih ⊢
      rw [ih]
      split <;> simp [*]

theorem nodup_put (m : AL α) (k : Nat) (v : α) (h : (keys m).Nodup) : (keys (put m k v)).Nodup := by
  rw [keys_put]
  split
  · exact h
  · rename_i hk
    rw [List.nodup_append]
    refine ⟨h, by simp, ?_⟩
    intro a ha b hb
    simp at hb
    subst hb
    intro e; subst e; exact hk ha

theorem mem_put (m : AL α) (k : Nat) (v : α) (p : Nat × α) (h : p ∈ put m k v) : p ∈ m ∨ p = (k, v) := by
  induction m with
  | nil => simp [put] at h; exact Or.inr h
  | cons q r ih =>
    obtain ⟨k0, v0⟩ := q
    by_cases h0 : k0 = k
    · simp [put, h0] at h
      rcases h with h | h
      · exact Or.inr h
      · exact Or.inl (List.mem_cons_of_mem _ h)
    · simp [put, h0] at h
      rcases h with h | h
      · exact Or.inl (by simp [h])
      · rcases ih h with h | h
        · exact Or.inl (List.mem_cons_of_mem _ h)
        · exact Or.inr h

theorem mem_del (m : AL α) (k : Nat) (p : Nat × α) (h : p ∈ del m k) : p ∈ m := by
  induction m with
  | nil => simp [del] at h
  | cons q r ih =>
    obtain ⟨k0, v0⟩ := q
    by_cases h0 : k0 = k
    · simp [del, h0] at h; exact List.mem_cons_of_mem _ h
    · simp [del, h0] at h
      rcases h with h | h
      · simp [h]
      · exact List.mem_cons_of_mem _ (ih h)

theorem sumBy_put (f : α → Int) (m : AL α) (k : Nat) (v : α) :
    sumBy f (put m k v) = sumBy f m - at0 f m k + f v := by
  induction m with
  | nil => simp [put, sumBy, at0, get]
  | cons p r ih =>
    obtain ⟨k0, v0⟩ := p
    by_cases h0 : k0 = k
    · simp [put, sumBy, at0, get, h0]; omega
    · simp [put, sumBy, at0, get, h0] at ih ⊢; omega

theorem sumBy_del (f : α → Int) (m : AL α) (k : Nat) :
    sumBy f (del m k) = sumBy f m - at0 f m k := by
  induction m with
  | nil => simp [del, sumBy, at0, get]
  | cons p r ih =>
    obtain ⟨k0, v0⟩ := p
    by_cases h0 : k0 = k
    · simp [del, sumBy, at0, get, h0]; omega
    · simp [del, sumBy, at0, get, h0] at ih ⊢; omega

theorem sumBy_nonneg (f : α → Int) (m : AL α) (h : ∀ p ∈ m, 0 ≤ f p.2) : 0 ≤ sumBy f m := by
  induction m with
  | nil => simp [sumBy]
  | cons p r ih =>
    obtain ⟨k0, v0⟩ := p
    have h1 := h (k0, v0) (by simp)
    have h2 := ih (fun p hp => h p (List.mem_cons_of_mem _ hp))
    simp [sumBy] at h1 ⊢; omega

theorem at0_le_sumBy (f : α → Int) (m : AL α) (k : Nat) (h : ∀ p ∈ m, 0 ≤ f p.2) : at0 f m k ≤ sumBy f m := by
  induction m with
  | nil => simp [at0, get, sumBy]
  | cons p r ih =>
    obtain ⟨k0, v0⟩ := p
    have h1 := h (k0, v0) (by simp)
    have hr : ∀ p ∈ r, 0 ≤ f p.2 := fun p hp => h p (List.mem_cons_of_mem _ hp)
    have h2 := ih hr
    have h3 := sumBy_nonneg f r hr
    by_cases h0 : k0 = k
    · simp [at0, get, sumBy, h0] at h1 ⊢; omega
    · simp [at0, get, sumBy, h0] at h1 h2 ⊢; omega

theorem at0_nonneg (f : α → Int) (m : AL α) (k : Nat) (h : ∀ p ∈ m, 0 ≤ f p.2) : 0 ≤ at0 f m k := by
  unfold at0
  split
  · rename_i v hv; exact h (k, v) (get_mem m k v hv)
  · omega

/-- `store` in terms of sums. -/
theorem sumBy_store (f : α → Int) (m : AL α) (k : Nat) (o : Option α) :
    sumBy f (store m k o) = sumBy f m - at0 f m k + (match o with | some v => f v | none => 0) := by
  cases o with
  | none => simp [store, sumBy_del]
  | some v => simp [store, sumBy_put]

theorem nodup_store (m : AL α) (k : Nat) (o : Option α) (h : (keys m).Nodup) : (keys (store m k o)).Nodup := by
  cases o with
  | none => exact nodup_del m k h
  | some v => exact nodup_put m k v h

theorem mem_store (m : AL α) (k : Nat) (o : Option α) (p : Nat × α) (h : p ∈ store m k o) :
    p ∈ m ∨ (∃ v, o = some v ∧ p = (k, v)) := by
  cases o with
  | none => exact Or.inl (mem_del m k p h)
  | some v =>
    rcases mem_put m k v p h with h | h
    · exact Or.inl h
    · exact Or.inr ⟨v, rfl, h⟩

theorem get_store_ne (m : AL α) (k k' : Nat) (o : Option α) (h : k' ≠ k) : get (store m k o) k' = get m k' := by
  cases o with
  | none => exact get_del_ne m k k' h
  | some v => exact get_put_ne m k k' v h

theorem get_store_eq (m : AL α) (k : Nat) (o : Option α) (h : (keys m).Nodup) : get (store m k o) k = o := by
  cases o with
  | none => exact get_del_eq m k h
  | some v => exact get_put_eq m k v

end NeoModel.Tokens
