import NeoModel.Model.ScriptCheck
namespace NeoModel.ScriptCheck

theorem instrLen_pos_le (bs : Prog) (n : Nat) (h : instrLen bs = some n) : 0 < n ∧ n ≤ bs.length := by
  unfold instrLen at h
  split at h
  · cases h
  · rename_i b tl
    split at h
    · cases h
    · rename_i pre fix _
      split at h
      · split at h
        · simp only [Option.some.injEq] at h; subst h; simp; omega
        · cases h
      · split at h
        · simp only at h
          split at h
          · cases h
          · split at h
            · simp only [Option.some.injEq] at h; subst h; simp; omega
            · cases h
        · cases h

/-- every decoded offset has a well-formed instruction whose successor is again decoded or is the end -/
theorem scan_closed (p : Prog) : ∀ (f ip : Nat) (bs : List Nat), scan p f ip = some bs →
    (ip < p.length → ip ∈ bs) ∧
    ∀ a ∈ bs, a < p.length ∧ ∃ n, instrLen (p.drop a) = some n ∧ (a + n ∈ bs ∨ a + n = p.length) := by
  intro f
  induction f with
  | zero =>
    intro ip bs h
    simp only [scan] at h
    split at h
    · simp only [Option.some.injEq] at h; subst h
      exact ⟨fun hl => by omega, fun a ha => by cases ha⟩
    · cases h
  | succ f ih =>
    intro ip bs h
    simp only [scan] at h
    split at h
    · simp only [Option.some.injEq] at h; subst h
      exact ⟨fun hl => by omega, fun a ha => by cases ha⟩
    · rename_i hlt
      cases hi : instrLen (p.drop ip) with
      | none => simp [hi] at h
      | some n =>
        simp only [hi, Option.map_eq_some_iff] at h
        obtain ⟨rest, hrest, rfl⟩ := h
        obtain ⟨h1, h2⟩ := ih (ip + n) rest hrest
        have hn := instrLen_pos_le _ n hi
        have hlen : (p.drop ip).length = p.length - ip := by simp
        refine ⟨fun _ => List.mem_cons_self .., fun a ha => ?_⟩
        rcases List.mem_cons.1 ha with rfl | ha
        · refine ⟨by omega, n, hi, ?_⟩
          by_cases hend : a + n < p.length
          · exact Or.inl (List.mem_cons_of_mem _ (h1 hend))
          · right; omega
        · obtain ⟨hl, m, hm, hnext⟩ := h2 a ha
          refine ⟨hl, m, hm, ?_⟩
          rcases hnext with h3 | h3
          · exact Or.inl (List.mem_cons_of_mem _ h3)
          · exact Or.inr h3

end NeoModel.ScriptCheck

namespace NeoModel.ScriptCheck

/-- an offset the static check considers an instruction boundary, or the end of the script -/
def Good (p : Prog) (bs : List Nat) (x : Nat) : Prop := x ∈ bs ∨ x = p.length

theorem correct_spec (p : Prog) (hc : isScriptCorrect p = true) :
    ∃ bs, boundaries p = some bs ∧ ∀ ip ∈ bs, ∃ ts, targetsAt p ip = some ts ∧ ∀ t ∈ ts, Good p bs t := by
  unfold isScriptCorrect at hc
  cases hb : boundaries p with
  | none => simp [hb] at hc
  | some bs =>
    refine ⟨bs, rfl, fun ip hip => ?_⟩
    simp only [hb, List.all_eq_true] at hc
    have := hc ip hip
    cases ht : targetsAt p ip with
    | none => simp [ht] at this
    | some ts =>
      refine ⟨ts, rfl, fun t htm => ?_⟩
      simp only [ht, List.all_eq_true] at this
      have h1 := this t htm
      simp only [okTarget, Bool.or_eq_true, beq_iff_eq, List.contains_eq_mem, decide_eq_true_eq] at h1
      rcases h1 with h1 | h1
      · exact Or.inr h1
      · exact Or.inl h1

structure CFInv (p : Prog) (bs : List Nat) (s : CF) : Prop where
  ip : Good p bs s.ip
  rets : ∀ r ∈ s.rets, Good p bs r
  ptrs : ∀ t ∈ s.ptrs, Good p bs t
  handlers : ∀ t ∈ s.handlers, Good p bs t

theorem step_inv (p : Prog) (bs : List Nat) (hb : boundaries p = some bs)
    (hts : ∀ ip ∈ bs, ∃ ts, targetsAt p ip = some ts ∧ ∀ t ∈ ts, Good p bs t)
    (s s' : CF) (inv : CFInv p bs s) (h : Step p s s') : CFInv p bs s' := by
  have hclosed := (scan_closed p (p.length + 1) 0 bs hb).2
  have inB : s.ip < p.length → s.ip ∈ bs := by
    intro hl
    rcases inv.ip with h1 | h1
    · exact h1
    · omega
  have nextGood : ∀ n, s.ip < p.length → instrLen (p.drop s.ip) = some n → Good p bs (s.ip + n) := by
    intro n hl hn
    obtain ⟨_, m, hm, hnext⟩ := hclosed s.ip (inB hl)
    rw [hn] at hm
    simp only [Option.some.injEq] at hm
    subst hm
    exact hnext
  have tgtGood : ∀ ts t, s.ip < p.length → targetsAt p s.ip = some ts → t ∈ ts → Good p bs t := by
    intro ts t hl ht htm
    obtain ⟨ts', h1, h2⟩ := hts s.ip (inB hl)
    rw [ht] at h1
    simp only [Option.some.injEq] at h1
    subst h1
    exact h2 t htm
  cases h with
  | next n hl hn => exact ⟨nextGood n hl hn, inv.rets, inv.ptrs, inv.handlers⟩
  | jump ts t hl ht htm => exact ⟨tgtGood ts t hl ht htm, inv.rets, inv.ptrs, inv.handlers⟩
  | call n ts t hl hn ht htm =>
    refine ⟨tgtGood ts t hl ht htm, ?_, inv.ptrs, inv.handlers⟩
    intro r hr
    rcases List.mem_cons.1 hr with rfl | hr
    · exact nextGood n hl hn
    · exact inv.rets r hr
  | pusha n ts t hl hn ht htm =>
    refine ⟨nextGood n hl hn, inv.rets, ?_, inv.handlers⟩
    intro r hr
    rcases List.mem_cons.1 hr with rfl | hr
    · exact tgtGood ts _ hl ht htm
    · exact inv.ptrs r hr
  | calla n t hl hn htm =>
    refine ⟨inv.ptrs t htm, ?_, inv.ptrs, inv.handlers⟩
    intro r hr
    rcases List.mem_cons.1 hr with rfl | hr
    · exact nextGood n hl hn
    · exact inv.rets r hr
  | register n ts hl hn ht =>
    refine ⟨nextGood n hl hn, inv.rets, inv.ptrs, ?_⟩
    intro r hr
    rcases List.mem_append.1 hr with hr | hr
    · exact tgtGood ts r hl ht hr
    · exact inv.handlers r hr
  | handle k t htm =>
    exact ⟨inv.handlers t htm, fun r hr => inv.rets r (List.mem_of_mem_drop hr), inv.ptrs, inv.handlers⟩
  | ret r rest hr =>
    refine ⟨inv.rets r (by rw [hr]; exact List.mem_cons_self ..), ?_, inv.ptrs, inv.handlers⟩
    intro x hx
    exact inv.rets x (by rw [hr]; exact List.mem_cons_of_mem _ hx)

/-- **boundaries**: in a script that passes the static check, the instruction pointer of every
context running it is always an instruction boundary or the end of the script; the same holds for
every saved return address, every pointer created by PUSHA and every registered exception handler. -/
theorem boundaries_inv (p : Prog) (hc : isScriptCorrect p = true) :
    ∃ bs, boundaries p = some bs ∧ ∀ s, Reach p s → CFInv p bs s := by
  obtain ⟨bs, hb, hts⟩ := correct_spec p hc
  refine ⟨bs, hb, fun s hr => ?_⟩
  induction hr with
  | start =>
    refine ⟨?_, (fun r hr => by cases hr), (fun r hr => by cases hr), (fun r hr => by cases hr)⟩
    by_cases h0 : 0 < p.length
    · exact Or.inl ((scan_closed p (p.length + 1) 0 bs hb).1 h0)
    · right; show 0 = p.length; omega
  | step _ hs ih => exact step_inv p bs hb hts _ _ ih hs

end NeoModel.ScriptCheck
