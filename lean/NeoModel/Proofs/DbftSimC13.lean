/- C19 simulation, part C13: onPrepareRequest, onRecoveryMessage, onReceive. -/
import NeoModel.Proofs.DbftSimC12
namespace NeoModel.Dbft.Mach
open NeoModel.Dbft

/-- dbft.go:319-365 on the machine -/
theorem prog_onPrepareRequest {e : Env} {as : State} {i : Nat} {k : W → Pl → W} {w : W} (hk : KOK e i k)
    (h : Good e as i w) (hbp : w.nd.blockProcessed = false) (x : Hd) (p : Nat) (hx : x.frm < e.n) (hxh : x.h = w.nd.bi)
    (hc : Claims e as (.prepReq x p)) : Prog e i as (onPrepareRequest k e w (.prepReq x p) p) := by
  rw [onPrepareRequest_eq]
  have hhd : (Pl.prepReq x p).hd = x := rfl
  simp only [hhd]
  by_cases hr : w.nd.requestSOR = true
  · rw [if_pos hr]; exact Prog.of_good h
  rw [if_neg hr]
  have hnr : w.nd.requestSOR = false := by simpa using hr
  by_cases hv : (w.nd.view != x.v) = true
  · rw [if_pos hv]; exact Prog.of_good h
  rw [if_neg hv]
  by_cases hp : (x.frm != w.nd.pidx) = true
  · rw [if_pos hp]; exact Prog.of_good h
  rw [if_neg hp]
  have hxv : x.v = w.nd.view := by
    simp only [bne_iff_ne, ne_eq, Decidable.not_not] at hv; exact hv.symm
  have hxp : x.frm = w.nd.pidx := by simpa using hp
  have hnc := noreq_nocommit h hnr
  by_cases hvr : (!verifyRequest e w.nd p) = true
  · rw [if_pos hvr]; exact prog_sendChangeView hk h hbp hnc 5
  rw [if_neg hvr]
  obtain ⟨g1, b1, c1, m1, p1, bi1, v1⟩ := good_oprMid h hbp x p hx hxh hxv hxp hnr hc
  generalize oprMid e w (.prepReq x p) p = w1 at *
  by_cases hat : (!w1.nd.hasAllTx) = true
  · rw [if_pos hat]; exact Prog.of_good g1
  rw [if_neg hat]
  obtain ⟨pc, hok⟩ := prog_createAndCheckBlock hk g1 b1 c1
  by_cases hcb : (!(createAndCheckBlock k e w1).2) = true
  · rw [if_pos hcb]; exact pc
  rw [if_neg hcb]
  have hok' : (createAndCheckBlock k e w1).1 = w1 := hok (by simpa using hcb)
  rw [hok']
  -- the backup answers: it is not the primary, and has not prepared anything in this view
  obtain ⟨hbi, hview, hgp, hgc⟩ := h.synced hbp
  have hngp : ¬ ∃ b ∈ (as.nodes i).myPreps, b.h = w1.nd.bi ∧ b.v = w1.nd.view := by
    rw [bi1, v1]
    intro hx'; have := (hgp hx').1; rw [hnr] at this; cases this
  have hne : w1.nd.my ≠ w1.nd.pidx := by
    rw [m1, p1]
    intro heq
    apply hngp
    rw [bi1, v1]
    obtain ⟨c1', c2', _⟩ := hc
    rw [hxp, ← heq, h.rn.my] at c2'
    exact ⟨⟨x.h, x.v, p⟩, c2', hxh, hxv⟩
  refine (prog_sendPrepareResponse g1 b1 hne hngp).bind ?_
  intro as' g2
  exact prog_checkPrepare g2 (by
    have : (sendPrepareResponse w1).nd.blockProcessed = w1.nd.blockProcessed := by
      unfold sendPrepareResponse; simp only; split <;> rfl
    rw [this]; exact b1)

/-- the stages of dbft.go:673-737 on the machine -/
theorem prog_ormCvs {e : Env} {as : State} {i : Nat} {k : W → Pl → W} {w : W} (hk : KOK e i k) (h : Good e as i w)
    (x : Hd) (r : Rec) (hc : Claims e as (.recMsg x r)) : Prog e i as (ormCvs k x r w) := by
  unfold ormCvs
  split
  · exact prog_foldk hk (fun c : Nat × Nat => Pl.cv ⟨c.1, x.h, c.2⟩ 0) r.cvs as w h (fun c hcm => hc.1 c hcm)
  · exact Prog.of_good h

theorem prog_ormCommits {e : Env} {as : State} {i : Nat} {k : W → Pl → W} {w : W} (hk : KOK e i k) (h : Good e as i w)
    (x : Hd) (r : Rec) (hc : Claims e as (.recMsg x r)) : Prog e i as (ormCommits k x r w) := by
  unfold ormCommits
  split
  · exact prog_foldk hk (fun c : Nat × Nat × Block => Pl.commit ⟨c.2.1, x.h, c.1⟩ c.2.2) r.commits as w h
      (fun c hcm => hc.2.2.2 c hcm)
  · exact Prog.of_good h

theorem prog_ormPreps {e : Env} {as : State} {i : Nat} {k : W → Pl → W} {w : W} (hk : KOK e i k) (h : Good e as i w)
    (x : Hd) (r : Rec) (hxh : x.h = w.nd.bi) (hc : Claims e as (.recMsg x r)) : Prog e i as (ormPreps k e x r w) := by
  unfold ormPreps
  split
  · rename_i hcond
    simp only [Bool.and_eq_true, beq_iff_eq] at hcond
    have hxv : x.v = w.nd.view := hcond.1.1
    -- the request, re-addressed to the primary of the receiver's view, is the request
    have step1 : Prog e i as (if (!w.nd.requestSOR) = true then
        match recPrepReq e x r w.nd.pidx with
        | some m => k w m
        | none => w
      else w) := by
      split
      · cases hrp : recPrepReq e x r w.nd.pidx with
        | none => exact Prog.of_good h
        | some m =>
          simp only
          apply hk as w m h
          unfold recPrepReq at hrp
          cases hreq : r.req with
          | none => rw [hreq] at hrp; cases hrp
          | some p =>
            rw [hreq] at hrp
            simp only at hrp
            split at hrp
            · obtain ⟨hm, htab⟩ := hc.2.1 p hreq
              have hpr : w.nd.pidx = e.primary x.h x.v := by rw [h.rn.pidx, hxh, hxv]
              obtain ⟨t1, t2, t3⟩ := htab
              have : ((e.prop p).frm == w.nd.pidx && (e.prop p).v == x.v && (e.prop p).h == x.h) = true := by
                simp [t1, t2, t3, hpr]
              simp only [this, if_true, Option.some.injEq] at hrp
              subst hrp
              exact ⟨hpr, by rw [hpr]; exact hm, by rw [hpr]; exact ⟨t1, t2, t3⟩⟩
            · cases hrp
      · exact Prog.of_good h
    simp only
    cases hph : r.ph with
    | none => exact step1
    | some ph =>
      simp only
      obtain ⟨as1, x1, g1⟩ := step1
      obtain ⟨as2, x2, g2⟩ := prog_foldk hk (fun j : Nat => Pl.prepResp ⟨j, x.h, x.v⟩ ph) r.preps as1 _ g1
        (fun j hj => (show Claims e as1 (.prepResp ⟨j, x.h, x.v⟩ ph) from
          Claims.ext (show Claims e as (.prepResp ⟨j, x.h, x.v⟩ ph) from hc.2.2.1 j hj) x1))
      exact ⟨as2, x1.trans x2, g2⟩
  · exact Prog.of_good h

/-- dbft.go:673-737 on the machine: a RecoveryMessage is the payloads it carries -/
theorem prog_onRecoveryMessage {e : Env} {as : State} {i : Nat} {k : W → Pl → W} {w : W} (hk : KOK e i k) (hb : BiK k)
    (h : Good e as i w) (x : Hd) (r : Rec) (hxh : x.h = w.nd.bi) (hc : Claims e as (.recMsg x r)) :
    Prog e i as (onRecoveryMessage k e w x r) := by
  rw [onRecoveryMessage_eq]
  have g0 := good_upd h (fun nd => { nd with recovering := true }) rfl rfl rfl rfl rfl rfl rfl rfl rfl id rfl
  have fin : ∀ as' w', Good e as' i w' → Good e as' i (w'.upd fun nd => { nd with recovering := false }) :=
    fun as' w' g => good_upd g _ rfl rfl rfl rfl rfl rfl rfl rfl rfl id rfl
  split
  · exact Prog.of_good (fin _ _ g0)
  · obtain ⟨as1, x1, g1⟩ := prog_ormCvs hk g0 x r hc
    have hb1 : x.h = (ormCvs k x r (w.upd fun nd => { nd with recovering := true })).nd.bi := by
      rw [bi_ormCvs hb]; exact hxh
    obtain ⟨as2, x2, g2⟩ := prog_ormPreps hk g1 x r hb1 (hc.ext x1)
    obtain ⟨as3, x3, g3⟩ := prog_ormCommits hk g2 x r ((hc.ext x1).ext x2)
    exact ⟨as3, (x1.trans x2).trans x3, fin _ _ g3⟩

end NeoModel.Dbft.Mach
