/-
C19 simulation, part B: what relates a validator machine (Model/DbftMach.lean) to its node in the
guarded-command model. Everything a machine holds — in a slot, in its cache — and everything in flight is a
TRUE CLAIM about what validators prepared, signed or asked for; since extensions never take anything out of
the abstract network, whatever is true can be delivered to the abstract node at the moment a guard needs it.
-/
import NeoModel.Proofs.DbftSimA2
namespace NeoModel.Dbft.Mach
open NeoModel.Dbft

/-- validator `j` prepared some block at `(h, v)` -/
def PreparedAt (as : State) (j h v : Nat) : Prop := ∃ b ∈ (as.nodes j).myPreps, b.h = h ∧ b.v = v

/-- the run's table records PrepareRequest `p` as sent by `frm` for `(h, v)` -/
def TableOK (e : Env) (p h v frm : Nat) : Prop := (e.prop p).h = h ∧ (e.prop p).v = v ∧ (e.prop p).frm = frm

def cvItem (x : Hd) : Item := .changeView x.frm x.h x.v (x.v + 1)

/-- what a payload claims, and that it is true in the abstract state -/
def Claims (e : Env) (as : State) : Pl → Prop
  | .cv x _ => Bcast (cfgOf e) as x.frm (cvItem x) ∧ cvItem x ∈ (as.nodes x.frm).known
  | .prepReq x p => x.frm = e.primary x.h x.v ∧ ⟨x.h, x.v, p⟩ ∈ (as.nodes x.frm).myPreps ∧ TableOK e p x.h x.v x.frm
  | .prepResp x _ => PreparedAt as x.frm x.h x.v
  | .commit x sb => sb ∈ (as.nodes x.frm).myCommits ∧ sb.h = x.h ∧ sb.v = x.v
  | .recReq _ => True
  | .recMsg x r =>
      (∀ cvp ∈ r.cvs, Bcast (cfgOf e) as cvp.1 (.changeView cvp.1 x.h cvp.2 (cvp.2 + 1)) ∧
        Item.changeView cvp.1 x.h cvp.2 (cvp.2 + 1) ∈ (as.nodes cvp.1).known) ∧
      (∀ p, r.req = some p → ⟨x.h, x.v, p⟩ ∈ (as.nodes (e.primary x.h x.v)).myPreps ∧ TableOK e p x.h x.v (e.primary x.h x.v)) ∧
      (∀ j ∈ r.preps, PreparedAt as j x.h x.v) ∧
      (∀ cm ∈ r.commits, cm.2.2 ∈ (as.nodes cm.2.1).myCommits ∧ cm.2.2.h = x.h ∧ cm.2.2.v = cm.1)

/-- claims stay true when the abstract state is extended -/
theorem Claims.mono {e : Env} {as as' : State} {m : Pl} (h : Claims e as m)
    (hn : ∀ x, x ∈ as.net → x ∈ as'.net) (g : Grows as as')
    (hk : ∀ k it, it ∈ (as.nodes k).known → it ∈ (as'.nodes k).known) : Claims e as' m := by
  cases m with
  | cv x r => exact ⟨Bcast.mono h.1 hn, hk _ _ h.2⟩
  | prepReq x p => exact ⟨h.1, g.preps _ _ h.2.1, h.2.2⟩
  | prepResp x ph => obtain ⟨b, hb, h1⟩ := h; exact ⟨b, g.preps _ _ hb, h1⟩
  | commit x sb => exact ⟨g.commits _ _ h.1, h.2⟩
  | recReq x => trivial
  | recMsg x r =>
    obtain ⟨h1, h2, h3, h4⟩ := h
    refine ⟨fun cvp hc => ⟨Bcast.mono (h1 cvp hc).1 hn, hk _ _ (h1 cvp hc).2⟩, fun p hp => ⟨g.preps _ _ (h2 p hp).1, (h2 p hp).2⟩, ?_, fun cm hc => ⟨g.commits _ _ (h4 cm hc).1, (h4 cm hc).2⟩⟩
    intro j hj
    obtain ⟨b, hb, hb1⟩ := h3 j hj
    exact ⟨b, g.preps _ _ hb, hb1⟩

theorem Claims.ext {e : Env} {as as' : State} {m : Pl} {i : Nat} (h : Claims e as m) (x : SimExt (cfgOf e) i as as') :
    Claims e as' m := h.mono x.net x.grows x.known

def isPrep : Pl → Bool
  | .prepReq .. | .prepResp .. => true
  | _ => false
def isReq : Pl → Bool
  | .prepReq .. => true
  | _ => false

/-- where the machine is relative to its abstract node (height `H`, view `V`) -/
def Phase (as : State) (i : Nat) (nd : Node) : Prop :=
  let an := as.nodes i
  -- working on the abstract node's height and view; what the abstract node prepared/signed there is in the slots
  (nd.bi = an.height ∧ nd.view = an.view ∧
    ((∃ b ∈ an.myPreps, b.h = nd.bi ∧ b.v = nd.view) → nd.requestSOR = true ∧ nd.responseSent = true) ∧
    ((∃ b ∈ an.myCommits, b.h = nd.bi) → nd.commitSent = true)) ∨
  -- its ledger took the block of its height, the dBFT context is not reset yet
  (nd.blockProcessed = true ∧ nd.bi + 1 = an.height ∧ an.view = 0 ∧
    (∀ b, b ∈ an.myPreps → b.h ≤ nd.bi) ∧ (∀ b, b ∈ an.myCommits → b.h ≤ nd.bi)) ∨
  -- not started
  (nd.bi = 0 ∧ an.height = 1 ∧ an.view = 0 ∧ an.myPreps = [] ∧ an.myCommits = [])

structure RN (e : Env) (as : State) (i : Nat) (nd : Node) : Prop where
  my : nd.my = i
  lens : nd.prep.length = e.n ∧ nd.commit.length = e.n ∧ nd.cv.length = e.n ∧ nd.lastCv.length = e.n
  chain : (as.nodes i).chain = nd.chain
  height : (as.nodes i).height = nd.chain.length + 1
  phase : Phase as i nd
  pidx : nd.pidx = e.primary nd.bi nd.view
  prep : ∀ j m, slot nd.prep j = some m →
    m.hd = ⟨j, nd.bi, nd.view⟩ ∧ Claims e as m ∧ isPrep m = true ∧ (isReq m = true → j = nd.pidx)
  commit : ∀ j m, slot nd.commit j = some m →
    ∃ x sb, m = .commit x sb ∧ x.frm = j ∧ x.h = nd.bi ∧ (sb ∈ (as.nodes j).myCommits ∧ sb.h = nd.bi ∧ sb.v = x.v)
  cv : ∀ j m, slot nd.cv j = some m → ∃ x r, m = .cv x r ∧ x.frm = j ∧ x.h = nd.bi ∧ Claims e as m
  lastCv : ∀ j m, slot nd.lastCv j = some m → ∃ x r, m = .cv x r ∧ x.frm = j ∧ x.h = nd.bi ∧ Claims e as m
  cache : ∀ h box, (h, box) ∈ nd.cache → ∀ km, (km ∈ box.prepare ∨ km ∈ box.chViews ∨ km ∈ box.commit) → Claims e as km.2
  own : ∀ x sb, slot nd.commit i = some (.commit x sb) → x.v = nd.view ∧ nd.header = some sb

/-- the relation does not look at timers, last-seen marks, transactions, timestamps -/
theorem RN.congr {e : Env} {as : State} {i : Nat} {nd nd' : Node} (h : RN e as i nd)
    (h1 : nd'.my = nd.my) (h2 : nd'.prep = nd.prep) (h3 : nd'.commit = nd.commit) (h4 : nd'.cv = nd.cv)
    (h5 : nd'.lastCv = nd.lastCv) (h6 : nd'.chain = nd.chain) (h7 : nd'.bi = nd.bi) (h8 : nd'.view = nd.view)
    (h9 : nd'.pidx = nd.pidx) (h10 : nd.blockProcessed = true → nd'.blockProcessed = true) (h11 : nd'.cache = nd.cache) :
    RN e as i nd' := by
  have hr : nd'.requestSOR = nd.requestSOR := by simp [Node.requestSOR, h2, h9]
  have hs : nd'.responseSent = nd.responseSent := by simp [Node.responseSent, h2, h1]
  have hc : nd'.commitSent = nd.commitSent := by simp [Node.commitSent, h3, h1]
  have hh : nd'.header = nd.header := by simp [Node.header, Node.curProp, h2, h9, h7, h8]
  refine ⟨by rw [h1]; exact h.my, by rw [h2, h3, h4, h5]; exact h.lens, by rw [h6]; exact h.chain,
    by rw [h6]; exact h.height, ?_, by rw [h9, h7, h8]; exact h.pidx, by rw [h2, h7, h8, h9]; exact h.prep,
    by rw [h3, h7]; exact h.commit, by rw [h4, h7]; exact h.cv, by rw [h5, h7]; exact h.lastCv,
    by rw [h11]; exact h.cache, by rw [h3, h8, hh]; exact h.own⟩
  unfold Phase
  simp only [h7, h8, hr, hs, hc]
  rcases h.phase with p1 | p2 | p3
  · exact Or.inl p1
  · exact Or.inr (Or.inl ⟨h10 p2.1, p2.2⟩)
  · exact Or.inr (Or.inr p3)

/-- the relation survives extensions by other validators, and by this one as long as its abstract node keeps
height, view, ledger and what it prepared and signed -/
theorem RN.mono {e : Env} {as as' : State} {i k : Nat} {nd : Node} (h : RN e as i nd) (x : SimExt (cfgOf e) k as as')
    (hh : (as'.nodes i).height = (as.nodes i).height) (hv : (as'.nodes i).view = (as.nodes i).view)
    (hc : (as'.nodes i).chain = (as.nodes i).chain) (hp : (as'.nodes i).myPreps = (as.nodes i).myPreps)
    (hm : (as'.nodes i).myCommits = (as.nodes i).myCommits) : RN e as' i nd := by
  refine ⟨h.my, h.lens, by rw [hc]; exact h.chain, by rw [hh]; exact h.height, ?_, h.pidx, ?_, ?_, ?_, ?_, ?_, h.own⟩
  · unfold Phase; simp only [hh, hv, hp, hm]; exact h.phase
  · intro j m hj; obtain ⟨a, b, c, d⟩ := h.prep j m hj; exact ⟨a, b.ext x, c, d⟩
  · intro j m hj; obtain ⟨y, sb, a, b, c, d⟩ := h.commit j m hj; exact ⟨y, sb, a, b, c, x.grows.commits _ _ d.1, d.2⟩
  · intro j m hj; obtain ⟨y, r, a, b, c, d⟩ := h.cv j m hj; exact ⟨y, r, a, b, c, d.ext x⟩
  · intro j m hj; obtain ⟨y, r, a, b, c, d⟩ := h.lastCv j m hj; exact ⟨y, r, a, b, c, d.ext x⟩
  · intro hh' box hb km hkm; exact (h.cache hh' box hb km hkm).ext x

theorem RN.other {e : Env} {as as' : State} {i k : Nat} {nd : Node} (h : RN e as i nd) (x : SimExt (cfgOf e) k as as')
    (hik : i ≠ k) : RN e as' i nd := by
  have := x.others i hik
  exact h.mono x (by rw [this]) (by rw [this]) (by rw [this]) (by rw [this]) (by rw [this])

end NeoModel.Dbft.Mach
