/- C19 helper lemmas: running schedules; a broadcast delivered to everybody (macro step). -/
import NeoModel.Proofs.DbftRun
namespace NeoModel.Dbft

theorem run_cons_enabled {c : Cfg} {s : State} {a : Action} (as : List Action) (h : Enabled c s a) :
    run c s (a :: as) = run c (apply c s a) as := by
  simp [run, h]

theorem run_append (c : Cfg) (s : State) (as bs : List Action) :
    run c s (as ++ bs) = (run c s as).bind (fun s' => run c s' bs) := by
  induction as generalizing s with
  | nil => simp [run]
  | cons a as ih =>
    simp only [List.cons_append, run]
    split
    · exact ih _
    · simp

/-- everybody in `L` learns `its` -/
def learnL (nodes : Nat → Node) (its : List Item) : List Nat → (Nat → Node)
  | [] => nodes
  | k :: L => learnL (upd nodes k { nodes k with known := addAll (nodes k).known its }) its L

/-- delivering a broadcast payload to all its destinations consumes exactly the broadcast copies -/
theorem run_deliverL (c : Cfg) (nodes : Nat → Node) (net : List (Nat × Msg)) (m : Msg) (L : List Nat) :
    run c ⟨nodes, L.map (fun k => (k, m)) ++ net⟩ (L.map (fun k => Action.deliver k m)) =
      some ⟨learnL nodes m.items L, net⟩ := by
  induction L generalizing nodes with
  | nil => simp [run, learnL]
  | cons k L ih =>
    have en : Enabled c ⟨nodes, (k :: L).map (fun k => (k, m)) ++ net⟩ (.deliver k m) := by
      show (k, m) ∈ _
      simp
    simp only [List.map_cons]
    rw [run_cons_enabled _ (by simpa using en)]
    simp only [apply, List.cons_append, List.erase_cons_head, learnL]
    exact ih _

/-- the fields a delivery does not touch -/
def SameCore (a b : Node) : Prop :=
  a.height = b.height ∧ a.view = b.view ∧ a.chain = b.chain ∧ a.myPreps = b.myPreps ∧ a.myCommits = b.myCommits

theorem SameCore.rfl' (a : Node) : SameCore a a := ⟨rfl, rfl, rfl, rfl, rfl⟩
theorem SameCore.trans {a b c : Node} (h1 : SameCore a b) (h2 : SameCore b c) : SameCore a c :=
  ⟨h1.1.trans h2.1, h1.2.1.trans h2.2.1, h1.2.2.1.trans h2.2.2.1, h1.2.2.2.1.trans h2.2.2.2.1, h1.2.2.2.2.trans h2.2.2.2.2⟩

theorem learnL_core (nodes : Nat → Node) (its : List Item) (L : List Nat) (j : Nat) :
    SameCore (learnL nodes its L j) (nodes j) := by
  induction L generalizing nodes with
  | nil => exact SameCore.rfl' _
  | cons k L ih =>
    simp only [learnL]
    refine (ih _).trans ?_
    unfold upd; split
    · next h => subst h; exact ⟨rfl, rfl, rfl, rfl, rfl⟩
    · exact SameCore.rfl' _

theorem learnL_mono (nodes : Nat → Node) (its : List Item) (L : List Nat) (j : Nat) (it : Item)
    (h : it ∈ (nodes j).known) : it ∈ (learnL nodes its L j).known := by
  induction L generalizing nodes with
  | nil => exact h
  | cons k L ih =>
    simp only [learnL]
    apply ih
    unfold upd; split
    · next hjk => subst hjk; exact mem_addAll.mpr (Or.inr h)
    · exact h

theorem learnL_learn (nodes : Nat → Node) (its : List Item) (L : List Nat) (k : Nat) (it : Item)
    (hk : k ∈ L) (hit : it ∈ its) : it ∈ (learnL nodes its L k).known := by
  induction L generalizing nodes with
  | nil => simp at hk
  | cons k' L ih =>
    simp only [learnL]
    rcases List.mem_cons.mp hk with e | m
    · subst e
      apply learnL_mono
      rw [upd_same]
      exact mem_addAll.mpr (Or.inl hit)
    · exact ih _ m

theorem bcast_eq (c : Cfg) (i : Nat) (m : Msg) : bcast c i m = (others c i).map (fun k => (k, m)) := rfl

theorem mem_others {c : Cfg} {i k : Nat} : k ∈ others c i ↔ k < c.n ∧ k ≠ i := by
  simp [others]

theorem others_nodup (c : Cfg) (i : Nat) : (others c i).Nodup :=
  List.Pairwise.sublist List.filter_sublist List.nodup_range

theorem countP_all (n : Nat) (P : Nat → Bool) (h : ∀ j, j < n → P j = true) : countP n P = n := by
  induction n with
  | zero => simp [countP]
  | succ n ih =>
    rw [countP_succ, ih (fun j hj => h j (Nat.lt_succ_of_lt hj)), h n (Nat.lt_succ_self n)]
    simp

theorem m_le_n (c : Cfg) : c.m ≤ c.n := by unfold Cfg.m; omega

theorem primary_lt (c : Cfg) (hn : 0 < c.n) (h v : Nat) : c.primary h v < c.n := Nat.mod_lt _ hn

end NeoModel.Dbft
