/-
Helper lemmas for C18 / multi-signature redeem script: `ParseMultiSigContract` inverts
`CreateMultiSigRedeemScript`.
-/
import NeoModel.Proofs.CodecScript
namespace NeoModel.Codec

/-! ### decoding one instruction inside a script -/

theorem getD_append_at (pre : Bytes) (x : UInt8) (rest : Bytes) : (pre ++ x :: rest).getD pre.length 0 = x := by
  simp [List.getD_eq_getElem?_getD]

theorem getD_append_at' (pre : Bytes) (k : Nat) (l : Bytes) : (pre ++ l).getD (pre.length + k) 0 = l.getD k 0 := by
  simp [List.getD_eq_getElem?_getD, List.getElem?_append_right]

theorem drop_append_at (pre : Bytes) (k : Nat) (l : Bytes) : (pre ++ l).drop (pre.length + k) = l.drop k := by
  rw [← List.drop_drop]
  simp

theorem next_pushint (pre post param : Bytes) (p : Nat) (hp : p ≤ 5) (hl : param.length = 2 ^ p) :
    nextInstr (pre ++ (UInt8.ofNat p :: param) ++ post) pre.length
      = .ins (UInt8.ofNat p) param pre.length (pre.length + 1 + 2 ^ p) := by
  have hop : (UInt8.ofNat p).toNat = p := by simp [UInt8.toNat_ofNat']; omega
  have h5 : opPUSHINT256.toNat = 5 := rfl
  unfold nextInstr
  have hlen : (pre ++ (UInt8.ofNat p :: param) ++ post).length = pre.length + 1 + 2 ^ p + post.length := by
    simp [hl]; omega
  have c1 : ¬ ((pre ++ (UInt8.ofNat p :: param) ++ post).length ≤ pre.length) := by omega
  have hget : (pre ++ (UInt8.ofNat p :: param) ++ post).getD pre.length 0 = UInt8.ofNat p := by
    rw [List.append_assoc]; exact getD_append_at _ _ _
  simp only [c1, if_false, hget, hop, h5, hp, if_true]
  have c2 : ¬ ((pre ++ (UInt8.ofNat p :: param) ++ post).length < pre.length + 1 + 2 ^ p) := by omega
  simp only [c2, if_false]
  congr 1
  rw [List.append_assoc, drop_append_at]
  simp only [List.cons_append, List.drop_succ_cons, List.drop_zero]
  rw [← hl, List.take_left']
  rfl

theorem next_small (pre post : Bytes) (op : UInt8) (h1 : 15 ≤ op.toNat) (h2 : op.toNat ≤ 32) :
    nextInstr (pre ++ [op] ++ post) pre.length = .ins op [] pre.length (pre.length + 1) := by
  unfold nextInstr
  have c1 : ¬ ((pre ++ [op] ++ post).length ≤ pre.length) := by simp
  have hget : (pre ++ [op] ++ post).getD pre.length 0 = op := by
    rw [List.append_assoc]; exact getD_append_at _ _ _
  have h5 : opPUSHINT256.toNat = 5 := rfl
  have c2 : ¬ (op.toNat ≤ 5) := by omega
  have c3 : (op == opPUSHDATA1) = false := by
    apply beq_false_of_ne; intro h; subst h; simp [opPUSHDATA1] at h1
  have c4 : (op == opSYSCALL) = false := by
    apply beq_false_of_ne; intro h; subst h; simp [opSYSCALL] at h2
  have h15 : opPUSHM1.toNat = 15 := rfl
  have h32 : opPUSH16.toNat = 32 := rfl
  simp only [c1, if_false, hget, h5, c2, c3, c4, Bool.false_eq_true, h15, h32, h1, h2, and_self, if_true]

theorem next_pushdata1 (pre post data : Bytes) (hl : data.length < 256) :
    nextInstr (pre ++ (opPUSHDATA1 :: UInt8.ofNat data.length :: data) ++ post) pre.length
      = .ins opPUSHDATA1 data pre.length (pre.length + 1 + 1 + data.length) := by
  unfold nextInstr
  have hn : (UInt8.ofNat data.length).toNat = data.length := by simp [UInt8.toNat_ofNat']; omega
  have hlen : (pre ++ (opPUSHDATA1 :: UInt8.ofNat data.length :: data) ++ post).length
      = pre.length + 1 + 1 + data.length + post.length := by simp; omega
  have c1 : ¬ ((pre ++ (opPUSHDATA1 :: UInt8.ofNat data.length :: data) ++ post).length ≤ pre.length) := by omega
  have hget : (pre ++ (opPUSHDATA1 :: UInt8.ofNat data.length :: data) ++ post).getD pre.length 0 = opPUSHDATA1 := by
    rw [List.append_assoc]; exact getD_append_at _ _ _
  have hget2 : (pre ++ (opPUSHDATA1 :: UInt8.ofNat data.length :: data) ++ post).getD (pre.length + 1) 0
      = UInt8.ofNat data.length := by
    rw [List.append_assoc, getD_append_at']; rfl
  have c2 : ¬ (opPUSHDATA1.toNat ≤ opPUSHINT256.toNat) := by decide
  have c3 : ¬ ((pre ++ (opPUSHDATA1 :: UInt8.ofNat data.length :: data) ++ post).length ≤ pre.length + 1) := by omega
  have c4 : ¬ ((pre ++ (opPUSHDATA1 :: UInt8.ofNat data.length :: data) ++ post).length < pre.length + 1 + 1 + data.length) := by omega
  simp only [c1, if_false, hget, c2, beq_self_eq_true, if_true, c3, hget2, hn, c4]
  congr 1
  rw [List.append_assoc, show pre.length + 1 + 1 = pre.length + 2 by omega, drop_append_at]
  simp only [List.cons_append, List.drop_succ_cons, List.drop_zero]
  rw [List.take_left']
  rfl

theorem next_syscall (pre id : Bytes) (hl : id.length = 4) :
    nextInstr (pre ++ opSYSCALL :: id) pre.length = .ins opSYSCALL id pre.length (pre.length + 1 + 4) := by
  unfold nextInstr
  have hlen : (pre ++ opSYSCALL :: id).length = pre.length + 1 + 4 := by simp [hl]
  have c1 : ¬ ((pre ++ opSYSCALL :: id).length ≤ pre.length) := by omega
  have hget : (pre ++ opSYSCALL :: id).getD pre.length 0 = opSYSCALL := getD_append_at _ _ _
  have c2 : ¬ (opSYSCALL.toNat ≤ opPUSHINT256.toNat) := by decide
  have c3 : (opSYSCALL == opPUSHDATA1) = false := by decide
  have c4 : ¬ ((pre ++ opSYSCALL :: id).length < pre.length + 1 + 4) := by omega
  simp only [c1, if_false, hget, c2, c3, Bool.false_eq_true, beq_self_eq_true, if_true, c4]
  congr 1
  have := drop_append_at pre 1 (opSYSCALL :: id)
  rw [this]
  simp only [List.drop_succ_cons, List.drop_zero]
  rw [← hl, List.take_length]

theorem next_end (s : Bytes) : nextInstr s s.length = .ins opRET [] s.length s.length := by
  unfold nextInstr; simp


/-! ### the count instructions (`emit.Int m`, `emit.Int n`) -/

theorem toBytes_pos (v : Nat) (hv : 0 < v) : toBytes (v : Int) = leBytes (bitLen v / 8 + 1) v := by
  unfold toBytes
  have h1 : ¬ ((v : Int) = 0) := by omega
  have h2 : (0 : Int) < (v : Int) := by omega
  simp only [h1, h2, if_false, if_true, Int.toNat_natCast]

theorem count_instr (v : Nat) (h1 : 1 ≤ v) (h2 : v ≤ 1024) :
    ∃ cs op param, emitInt (v : Int) = some cs ∧ 1 ≤ cs.length ∧ (op == opPUSHDATA1) = false ∧
      getNumOfThings op param = some v ∧
      ∀ pre post, nextInstr (pre ++ cs ++ post) pre.length = .ins op param pre.length (pre.length + cs.length) := by
  by_cases hs : v < 16
  · -- PUSH1 … PUSH15
    refine ⟨[UInt8.ofNat (16 + v)], UInt8.ofNat (16 + v), [], ?_, by simp, ?_, ?_, ?_⟩
    · unfold emitInt smallInt
      have c1 : ¬ ((v : Int) = -1) := by omega
      have c2 : (0 : Int) ≤ (v : Int) ∧ (v : Int) < 16 := by omega
      simp [c1, c2]
    · have hop : (UInt8.ofNat (16 + v)).toNat = 16 + v := by simp [UInt8.toNat_ofNat']; omega
      apply beq_false_of_ne; intro h
      have := congrArg UInt8.toNat h; rw [hop] at this; simp [opPUSHDATA1] at this; omega
    · have hop : (UInt8.ofNat (16 + v)).toNat = 16 + v := by simp [UInt8.toNat_ofNat']; omega
      unfold getNumOfThings getInt64FromInstr
      have h15 : opPUSHM1.toNat = 15 := rfl
      have h32 : opPUSH16.toNat = 32 := rfl
      have c : 15 ≤ 16 + v ∧ 16 + v ≤ 32 := by omega
      simp only [hop, h15, h32, c, and_self, if_true]
      have c2 : ¬ (((16 + v : Nat) : Int) - 16 < 1 ∨ 1024 < ((16 + v : Nat) : Int) - 16) := by omega
      simp only [c2, if_false]
      congr 1; omega
    · intro pre post
      have hop : (UInt8.ofNat (16 + v)).toNat = 16 + v := by simp [UInt8.toNat_ofNat']; omega
      exact next_small pre post _ (by omega) (by omega)
  · -- PUSHINT8 / PUSHINT16
    have hv0 : 0 < v := by omega
    obtain ⟨hne, hsgn, hval⟩ := posForm_spec v
    have hbl : bitLen v ≤ 15 := (bitLen_le_iff v 15).mpr (by omega)
    have hL : (leBytes (bitLen v / 8 + 1) v).length = bitLen v / 8 + 1 := leBytes_length _ _
    have hsmall : smallInt (v : Int) = none := by
      unfold smallInt
      have c1 : ¬ ((v : Int) = -1) := by omega
      have c2 : ¬ ((0 : Int) ≤ (v : Int) ∧ (v : Int) < 16) := by omega
      simp only [c1, c2, if_false]
    have hcis : checkIntegerSize (v : Int) = true := (checkIntegerSize_iff _).mpr (by constructor <;> omega)
    have hpow : 2 ^ bitLen ((leBytes (bitLen v / 8 + 1) v).length - 1) = (leBytes (bitLen v / 8 + 1) v).length := by
      rw [hL]
      have : bitLen v / 8 = 0 ∨ bitLen v / 8 = 1 := by omega
      rcases this with h | h <;> rw [h] <;> decide
    have hp1 : bitLen ((leBytes (bitLen v / 8 + 1) v).length - 1) ≤ 1 := by
      rw [hL]
      have : bitLen v / 8 = 0 ∨ bitLen v / 8 = 1 := by omega
      rcases this with h | h <;> rw [h] <;> decide
    generalize hp : bitLen ((leBytes (bitLen v / 8 + 1) v).length - 1) = p at hpow hp1
    have hpad : padRight (2 ^ p) (leBytes (bitLen v / 8 + 1) v) = leBytes (bitLen v / 8 + 1) v := by
      unfold padRight; rw [hpow]; simp
    have hemit : emitInt (v : Int) = some (UInt8.ofNat p :: leBytes (bitLen v / 8 + 1) v) := by
      unfold emitInt
      rw [hsmall]
      unfold emitBigIntAux
      have he : (leBytes (bitLen v / 8 + 1) v).isEmpty = false := by
        cases h : leBytes (bitLen v / 8 + 1) v with
        | nil => exact absurd h hne
        | cons _ _ => rfl
      simp only [Bool.false_and, Bool.false_eq_true, if_false, hcis, Bool.not_true, toBytes_pos v hv0, he, hp, hpad]
    have hop : (UInt8.ofNat p).toNat = p := by simp [UInt8.toNat_ofNat']; omega
    refine ⟨_, UInt8.ofNat p, leBytes (bitLen v / 8 + 1) v, hemit, by simp, ?_, ?_, ?_⟩
    · apply beq_false_of_ne; intro h
      have := congrArg UInt8.toNat h; rw [hop] at this; simp [opPUSHDATA1] at this; omega
    · unfold getNumOfThings getInt64FromInstr
      have h15 : opPUSHM1.toNat = 15 := rfl
      have c1 : ¬ (15 ≤ p ∧ p ≤ opPUSH16.toNat) := by omega
      have c2 : p ≤ 3 := by omega
      simp only [hop, h15, c1, if_false, c2, if_true, getInt64FromInstr.fromBytesFixed, hsgn, Bool.false_eq_true, hval]
      have c3 : ¬ ((Int.ofNat v) < 1 ∨ 1024 < (Int.ofNat v)) := by
        simp only [Int.ofNat_eq_natCast]; omega
      simp only [c3, if_false]
      rfl
    · intro pre post
      have := next_pushint pre post (leBytes (bitLen v / 8 + 1) v) p (by omega) hpow.symm
      rw [this]
      congr 1
      simp only [List.length_cons]; omega


/-! ### the key loop -/

theorem emitBytes_key (k : Bytes) (hk : k.length = 33) :
    emitBytes k = opPUSHDATA1 :: UInt8.ofNat k.length :: k := by
  unfold emitBytes; simp [hk]

theorem flatten_keys_length (keys : List Bytes) (hk : ∀ k ∈ keys, k.length = 33) :
    ((keys.map emitBytes).flatten).length = 35 * keys.length := by
  induction keys with
  | nil => rfl
  | cons k ks ih =>
    have := ih (fun x hx => hk x (by simp [hx]))
    simp only [List.map_cons, List.flatten_cons, List.length_append, this, List.length_cons,
      emitBytes_key k (hk k (by simp)), hk k (by simp)]
    omega

theorem keyLoop_keys (script : Bytes) (op2 : UInt8) (param2 : Bytes) (ip2 next2 : Nat)
    (hop2 : (op2 == opPUSHDATA1) = false) :
    ∀ (keys : List Bytes) (pre : Bytes) (pubs : List Bytes) (fuel : Nat) (tail : Bytes),
      (∀ k ∈ keys, k.length = 33) → keys.length < fuel → pubs.length + keys.length ≤ 1024 →
      script = pre ++ (keys.map emitBytes).flatten ++ tail →
      nextInstr script (pre.length + ((keys.map emitBytes).flatten).length) = .ins op2 param2 ip2 next2 →
      keyLoop script fuel pre.length pubs = some (pubs ++ keys, op2, param2, next2) := by
  intro keys
  induction keys with
  | nil =>
    intro pre pubs fuel tail _ hf _ _ hnext
    cases fuel with
    | zero => simp at hf
    | succ fuel =>
      simp only [List.map_nil, List.flatten_nil, List.length_nil, Nat.add_zero] at hnext
      simp only [keyLoop, hnext]
      have : (op2 != opPUSHDATA1) = true := by simp [bne, hop2]
      simp [this]
  | cons k ks ih =>
    intro pre pubs fuel tail hk hf hcap hs hnext
    cases fuel with
    | zero => simp at hf
    | succ fuel =>
      have hk33 : k.length = 33 := hk k (by simp)
      have hs' : script = pre ++ (opPUSHDATA1 :: UInt8.ofNat k.length :: k) ++ ((ks.map emitBytes).flatten ++ tail) := by
        rw [hs]; simp [emitBytes_key k hk33, List.append_assoc]
      have hfirst : nextInstr script pre.length = .ins opPUSHDATA1 k pre.length (pre.length + 1 + 1 + k.length) := by
        rw [hs']; exact next_pushdata1 pre _ k (by omega)
      simp only [keyLoop, hfirst]
      have c1 : (opPUSHDATA1 != opPUSHDATA1) = false := by decide
      have c2 : ¬ (k.length < 33) := by omega
      have c3 : ¬ (1024 < pubs.length + 1) := by simp at hcap; omega
      simp only [c1, Bool.false_eq_true, if_false, c2, c3]
      have hpre : (pre ++ emitBytes k).length = pre.length + 1 + 1 + k.length := by
        simp [emitBytes_key k hk33]; omega
      have := ih (pre ++ emitBytes k) (pubs ++ [k]) fuel tail (fun x hx => hk x (by simp [hx]))
        (by simp at hf; omega) (by simp at hcap ⊢; omega)
        (by rw [hs]; simp [List.append_assoc])
        (by
          rw [← hnext]; congr 1
          simp only [List.map_cons, List.flatten_cons, List.length_append]; omega)
      rw [hpre] at this
      rw [this]; simp


/-! ### parse ∘ build -/

theorem parse_build (m : Nat) (keys : List Bytes) (h1 : 1 ≤ m) (h2 : m ≤ keys.length) (h3 : keys.length ≤ 1024)
    (hk : ∀ k ∈ keys, k.length = 33) :
    ∃ s, createMultiSig (m : Int) keys = some s ∧ parseMultiSig s = some (m, keys) := by
  obtain ⟨a, opa, pa, hea, ha1, hna, hga, hnexta⟩ := count_instr m h1 (by omega)
  obtain ⟨c, opc, pc, hec, hc1, hnc, hgc, hnextc⟩ := count_instr keys.length (by omega) h3
  have hF := flatten_keys_length keys hk
  generalize hFdef : (keys.map emitBytes).flatten = F at hF
  have hid : multisigID.length = 4 := rfl
  have hbuild : createMultiSig (m : Int) keys = some (a ++ F ++ c ++ opSYSCALL :: multisigID) := by
    unfold createMultiSig
    have c1 : ¬ ((m : Int) < 1) := by omega
    have c2 : ¬ ((keys.length : Int) < (m : Int)) := by omega
    have c3 : ¬ ((1024 : Int) < (m : Int)) := by omega
    simp only [c1, c2, c3, if_false, hea, hec, hFdef]
  refine ⟨_, hbuild, ?_⟩
  generalize hsd : a ++ F ++ c ++ opSYSCALL :: multisigID = script
  have hlen : script.length = a.length + F.length + c.length + 5 := by
    rw [← hsd]; simp [hid]; omega
  -- first instruction: the signature count
  have hn1 : nextInstr script 0 = .ins opa pa 0 a.length := by
    have := hnexta [] (F ++ c ++ opSYSCALL :: multisigID)
    simp only [List.nil_append, List.length_nil, Nat.zero_add] at this
    rw [← hsd, ← this]; simp [List.append_assoc]
  -- the instruction after the keys: the key count
  have hn2 : nextInstr script (a.length + F.length) = .ins opc pc (a.length + F.length) (a.length + F.length + c.length) := by
    have := hnextc (a ++ F) (opSYSCALL :: multisigID)
    simp only [List.length_append] at this
    rw [← hsd, ← this]
  -- then the syscall, then the end
  have hn3 : nextInstr script (a.length + F.length + c.length)
      = .ins opSYSCALL multisigID (a.length + F.length + c.length) (a.length + F.length + c.length + 1 + 4) := by
    have := next_syscall (a ++ F ++ c) multisigID hid
    simp only [List.length_append] at this
    rw [← hsd, ← this]
  have hn4 : nextInstr script (a.length + F.length + c.length + 1 + 4) = .ins opRET [] script.length script.length := by
    have : a.length + F.length + c.length + 1 + 4 = script.length := by omega
    rw [this]; exact next_end script
  have hloop := keyLoop_keys script opc pc (a.length + F.length) (a.length + F.length + c.length) hnc keys a []
    (script.length + 1) (c ++ opSYSCALL :: multisigID) hk (by omega) (by simpa using h3)
    (by rw [← hsd, hFdef]; simp [List.append_assoc]) (by rw [hFdef]; exact hn2)
  unfold parseMultiSig
  have c42 : ¬ (script.length < 42) := by omega
  simp only [c42, if_false, hn1, hga, hloop, List.nil_append]
  have c5 : ¬ (keys.length < m) := by omega
  simp only [c5, if_false, hgc, bne_self_eq_false, Bool.false_eq_true, hn3, Bool.or_self, hn4]


theorem parseSig_build (key : Bytes) (hk : key.length = 33) : parseSigContract (sigScript key) = some key := by
  unfold parseSigContract sigScript
  have hlen : (opPUSHDATA1 :: UInt8.ofNat key.length :: key ++ opSYSCALL :: checksigID).length = 40 := by
    simp [hk, checksigID]
  have g35 : (opPUSHDATA1 :: UInt8.ofNat key.length :: key ++ opSYSCALL :: checksigID).getD 35 0 = opSYSCALL := by
    have := getD_append_at (opPUSHDATA1 :: UInt8.ofNat key.length :: key) opSYSCALL checksigID
    simp only [List.length_cons, hk] at this
    exact this
  have d36 : (opPUSHDATA1 :: UInt8.ofNat key.length :: key ++ opSYSCALL :: checksigID).drop 36 = checksigID := by
    have := drop_append_at (opPUSHDATA1 :: UInt8.ofNat key.length :: key) 1 (opSYSCALL :: checksigID)
    simp only [List.length_cons, hk] at this
    exact this
  have t33 : ((opPUSHDATA1 :: UInt8.ofNat key.length :: key ++ opSYSCALL :: checksigID).drop 2).take 33 = key := by
    simp only [List.cons_append, List.drop_succ_cons, List.drop_zero]
    rw [← hk, List.take_left']
    rfl
  simp only [hlen, bne_self_eq_false, Bool.false_eq_true, if_false, g35, d36, t33]
  simp [hk]

end NeoModel.Codec
