/-
C15 — declarative specification of witness checking (`holds`, `allowed`, `decides`, `Spec`) and the lemmas
relating the executable model (Model/Witness.lean) to it. Core Lean only.
-/
import NeoModel.Model.Witness
namespace NeoModel.Witness

/-- contract `h` is deployed and its manifest lists the group key `k`. -/
def Env.hasGroup (e : Env) (h : Hash) (k : Key) : Prop := ∃ gs, e.contracts h = some gs ∧ k ∈ gs

/-- the executing script is the entry script, or the entry script called it directly. -/
def Env.directFromEntry (e : Env) : Prop := e.parents.length ≤ 1

mutual
/-- the meaning of a condition (no evaluation order, no errors). -/
def holds (e : Env) : Cond → Prop
  | .boolean b => b = true
  | .not c => ¬ holds e c
  | .and cs => holdsAll e cs
  | .or cs => holdsAny e cs
  | .scriptHash h => h = e.current
  | .group k => e.hasGroup e.current k
  | .calledByEntry => e.directFromEntry
  | .calledByContract h => h = e.calling
  | .calledByGroup k => e.hasGroup e.calling k
def holdsAll (e : Env) : List Cond → Prop
  | [] => True
  | c :: cs => holds e c ∧ holdsAll e cs
def holdsAny (e : Env) : List Cond → Prop
  | [] => False
  | c :: cs => holds e c ∨ holdsAny e cs
end

/-- `r` is the first rule of `rules` whose condition holds. -/
def firstMatch (e : Env) (rules : List Rule) (r : Rule) : Prop :=
  ∃ pre post, rules = pre ++ r :: post ∧ (∀ x ∈ pre, ¬ holds e x.cond) ∧ holds e r.cond

/-- the scope of signer `s` covers the environment `e` (from the property statement). -/
def allowed (e : Env) (s : Signer) : Prop :=
  s.scopes = scGlobal
  ∨ (hasScope s.scopes scCalledByEntry = true ∧ e.directFromEntry)
  ∨ (hasScope s.scopes scCustomContracts = true ∧ e.current ∈ s.allowedContracts)
  ∨ (hasScope s.scopes scCustomGroups = true ∧ ∃ k ∈ s.allowedGroups, e.hasGroup e.current k)
  ∨ (hasScope s.scopes scRules = true ∧ ∃ r, firstMatch e s.rules r ∧ r.action = actAllow)

/-- `s` is the first signer of the list whose account is `h`. -/
def decides (signers : List Signer) (h : Hash) (s : Signer) : Prop :=
  ∃ pre post, signers = pre ++ s :: post ∧ (∀ x ∈ pre, x.account ≠ h) ∧ s.account = h

/-- The property's right-hand side: the calling contract, or the deciding signer's scope allows it. -/
def Spec (e : Env) (signers : List Signer) (h : Hash) : Prop :=
  (e.calling ≠ 0 ∧ h = e.calling) ∨ ∃ s, decides signers h s ∧ allowed e s

theorem holdsAll_iff (e : Env) (cs : List Cond) : holdsAll e cs ↔ ∀ c ∈ cs, holds e c := by
  induction cs with
  | nil => simp [holdsAll]
  | cons c cs ih => simp [holdsAll, ih]

theorem holdsAny_iff (e : Env) (cs : List Cond) : holdsAny e cs ↔ ∃ c ∈ cs, holds e c := by
  induction cs with
  | nil => simp [holdsAny]
  | cons c cs ih => simp [holdsAny, ih]

theorem isCalledByEntry_iff (e : Env) : e.isCalledByEntry = true ↔ e.directFromEntry := by
  unfold Env.isCalledByEntry Env.directFromEntry
  split <;> rename_i hp <;> simp [hp]

theorem getContractGroups_ok {e : Env} {h : Hash} {gs : List Key} (hg : getContractGroups e h = .ok gs) :
    ∀ k, k ∈ gs ↔ e.hasGroup h k := by
  intro k
  unfold getContractGroups at hg
  split at hg
  · cases hg
  · split at hg
    · rename_i hn; cases hg; simp [Env.hasGroup, hn]
    · rename_i gs' hs; cases hg; simp [Env.hasGroup, hs]

theorem getContractGroups_err {e : Env} {h : Hash} {x : Err} (hg : getContractGroups e h = .error x) :
    x = .noReadStates ∧ e.cur.readStates = false := by
  unfold getContractGroups at hg
  split at hg
  · rename_i hr; cases hg; simpa using hr
  · split at hg <;> cases hg

theorem getContractGroups_rs {e : Env} (h : Hash) (hr : e.cur.readStates = true) :
    ∃ gs, getContractGroups e h = .ok gs := by
  unfold getContractGroups
  simp [hr]
  split <;> simp

theorem checkScriptGroups_ok {e : Env} {h : Hash} {k : Key} {b : Bool}
    (hc : checkScriptGroups e h k = .ok b) : b = true ↔ e.hasGroup h k := by
  unfold checkScriptGroups at hc
  split at hc
  · cases hc
  · rename_i gs hg
    cases hc
    rw [← getContractGroups_ok hg k]; simp

theorem checkScriptGroups_err {e : Env} {h : Hash} {k : Key} {x : Err}
    (hc : checkScriptGroups e h k = .err x) : x = .noReadStates ∧ e.cur.readStates = false := by
  unfold checkScriptGroups at hc
  split at hc
  · rename_i y hg; cases hc; exact getContractGroups_err hg
  · cases hc

mutual
theorem match_ok (e : Env) : ∀ (c : Cond) (b : Bool), matchC e c = .ok b → (b = true ↔ holds e c)
  | .boolean b', b, h => by simp [matchC] at h; simp [holds, h]
  | .not c, b, h => by
      simp only [matchC] at h
      split at h
      · rename_i r hr
        have := match_ok e c r hr
        cases h; simp [holds, ← this]
      · cases h
  | .and cs, b, h => by simp only [matchC] at h; simp only [holds]; exact matchAnd_ok e cs b h
  | .or cs, b, h => by simp only [matchC] at h; simp only [holds]; exact matchOr_ok e cs b h
  | .scriptHash x, b, h => by simp [matchC] at h; simp [holds, ← h]
  | .group x, b, h => by simp only [matchC] at h; simp only [holds]; exact checkScriptGroups_ok h
  | .calledByEntry, b, h => by
      simp [matchC] at h; simp only [holds, ← isCalledByEntry_iff, h]
  | .calledByContract x, b, h => by simp [matchC] at h; simp [holds, ← h]
  | .calledByGroup x, b, h => by simp only [matchC] at h; simp only [holds]; exact checkScriptGroups_ok h
theorem matchAnd_ok (e : Env) : ∀ (cs : List Cond) (b : Bool), matchAnd e cs = .ok b → (b = true ↔ holdsAll e cs)
  | [], b, h => by simp [matchAnd] at h; simp [holdsAll, h]
  | c :: cs, b, h => by
      simp only [matchAnd] at h
      split at h
      · cases h
      · rename_i hc
        have := match_ok e c false hc
        cases h; simp [holdsAll]; intro x; simp [← this] at x
      · rename_i hc
        have h1 := match_ok e c true hc
        have h2 := matchAnd_ok e cs b h
        simp [holdsAll, ← h1, h2]
theorem matchOr_ok (e : Env) : ∀ (cs : List Cond) (b : Bool), matchOr e cs = .ok b → (b = true ↔ holdsAny e cs)
  | [], b, h => by simp [matchOr] at h; simp [holdsAny, h]
  | c :: cs, b, h => by
      simp only [matchOr] at h
      split at h
      · cases h
      · rename_i hc
        have := match_ok e c true hc
        cases h; simp [holdsAny, ← this]
      · rename_i hc
        have h1 := match_ok e c false hc
        have h2 := matchOr_ok e cs b h
        simp at h1
        simp [holdsAny, h1, h2]
end

mutual
theorem match_err (e : Env) : ∀ (c : Cond) (x : Err), matchC e c = .err x → x = .noReadStates ∧ e.cur.readStates = false
  | .boolean _, x, h => by simp [matchC] at h
  | .not c, x, h => by
      simp only [matchC] at h
      split at h
      · cases h
      · rename_i y hy; cases h; exact match_err e c _ hy
  | .and cs, x, h => by simp only [matchC] at h; exact matchAnd_err e cs x h
  | .or cs, x, h => by simp only [matchC] at h; exact matchOr_err e cs x h
  | .scriptHash _, x, h => by simp [matchC] at h
  | .group _, x, h => by simp only [matchC] at h; exact checkScriptGroups_err h
  | .calledByEntry, x, h => by simp [matchC] at h
  | .calledByContract _, x, h => by simp [matchC] at h
  | .calledByGroup _, x, h => by simp only [matchC] at h; exact checkScriptGroups_err h
theorem matchAnd_err (e : Env) : ∀ (cs : List Cond) (x : Err), matchAnd e cs = .err x → x = .noReadStates ∧ e.cur.readStates = false
  | [], x, h => by simp [matchAnd] at h
  | c :: cs, x, h => by
      simp only [matchAnd] at h
      split at h
      · rename_i y hy; cases h; exact match_err e c _ hy
      · cases h
      · exact matchAnd_err e cs x h
theorem matchOr_err (e : Env) : ∀ (cs : List Cond) (x : Err), matchOr e cs = .err x → x = .noReadStates ∧ e.cur.readStates = false
  | [], x, h => by simp [matchOr] at h
  | c :: cs, x, h => by
      simp only [matchOr] at h
      split at h
      · rename_i y hy; cases h; exact match_err e c _ hy
      · cases h
      · exact matchOr_err e cs x h
end


/-- the rule loop: result `true` iff the first rule whose condition holds is an Allow rule. -/
theorem evalRules_ok (e : Env) : ∀ (rs : List Rule) (b : Bool), evalRules e rs = .ok b →
    (b = true ↔ ∃ r, firstMatch e rs r ∧ r.action = actAllow)
  | [], b, h => by
      simp [evalRules] at h; subst h
      simp [firstMatch]
  | r :: rs, b, h => by
      simp only [evalRules] at h
      split at h
      · cases h
      · rename_i hm
        have hr := (match_ok e r.cond true hm).mp rfl
        cases h
        constructor
        · intro ha
          exact ⟨r, ⟨[], rs, rfl, by simp, hr⟩, by simpa using ha⟩
        · rintro ⟨r', ⟨pre, post, heq, hpre, hh⟩, ha⟩
          cases pre with
          | nil => simp at heq; rw [← heq.1] at ha; simpa using ha
          | cons p pre' =>
            simp at heq
            exact absurd hr (heq.1 ▸ hpre p (by simp))
      · rename_i hm
        have hr : ¬ holds e r.cond := by
          have := match_ok e r.cond false hm; simpa using this
        rw [evalRules_ok e rs b h]
        constructor
        · rintro ⟨r', ⟨pre, post, heq, hpre, hh⟩, ha⟩
          refine ⟨r', ⟨r :: pre, post, by simp [heq], ?_, hh⟩, ha⟩
          intro x hx
          cases hx with
          | head => exact hr
          | tail _ hx => exact hpre x hx
        · rintro ⟨r', ⟨pre, post, heq, hpre, hh⟩, ha⟩
          cases pre with
          | nil => simp at heq; exact absurd (heq.1 ▸ hh) hr
          | cons p pre' =>
            simp at heq
            exact ⟨r', ⟨pre', post, heq.2, fun x hx => hpre x (by simp [hx]), hh⟩, ha⟩

theorem evalRules_err (e : Env) : ∀ (rs : List Rule) (x : Err), evalRules e rs = .err x →
    x = .noReadStates ∧ e.cur.readStates = false
  | [], x, h => by simp [evalRules] at h
  | r :: rs, x, h => by
      simp only [evalRules] at h
      split at h
      · rename_i y hy; cases h; exact match_err e _ _ hy
      · cases h
      · exact evalRules_err e rs x h

theorem any_contains_iff (e : Env) (gs : List Key) (h : Hash) (ks : List Key)
    (hg : ∀ k, k ∈ gs ↔ e.hasGroup h k) :
    (ks.any (fun k => gs.contains k) = true) ↔ ∃ k ∈ ks, e.hasGroup h k := by
  simp [List.any_eq_true, hg]

theorem stepRules_ok {e : Env} {s : Signer} {b : Bool} (h : stepRules e s = .ok b) :
    b = true ↔ (hasScope s.scopes scRules = true ∧ ∃ r, firstMatch e s.rules r ∧ r.action = actAllow) := by
  unfold stepRules at h
  split at h
  · rename_i hs; rw [evalRules_ok e _ _ h]; simp [hs]
  · rename_i hs; cases h; simp [hs]

theorem stepGroups_ok {e : Env} {s : Signer} {b : Bool} (h : stepGroups e s = .ok b) :
    b = true ↔ ((hasScope s.scopes scCustomGroups = true ∧ ∃ k ∈ s.allowedGroups, e.hasGroup e.current k)
      ∨ (hasScope s.scopes scRules = true ∧ ∃ r, firstMatch e s.rules r ∧ r.action = actAllow)) := by
  unfold stepGroups at h
  split at h
  · rename_i hs
    split at h
    · cases h
    · rename_i gs hg
      have hiff := any_contains_iff e gs e.current s.allowedGroups (getContractGroups_ok hg)
      split at h
      · rename_i ha; cases h; simp [hs, hiff.mp ha]
      · rename_i ha
        rw [stepRules_ok h]
        have : ¬ ∃ k ∈ s.allowedGroups, e.hasGroup e.current k := fun hx => ha (hiff.mpr hx)
        simp [this]
  · rename_i hs
    rw [stepRules_ok h]; simp [hs]

/-- the scope evaluation of one signer agrees with the declarative `allowed`. -/
theorem checkSigner_ok {e : Env} {s : Signer} {b : Bool} (h : checkSigner e s = .ok b) :
    b = true ↔ allowed e s := by
  unfold checkSigner at h
  unfold allowed
  split at h
  · rename_i hg; cases h; simp at hg; simp [hg]
  · rename_i hg
    have hg' : ¬ s.scopes = scGlobal := by simpa using hg
    split at h
    · rename_i hc; cases h
      simp at hc
      simp [hc.1, (isCalledByEntry_iff e).mp hc.2]
    · rename_i hc
      have hc' : ¬ (hasScope s.scopes scCalledByEntry = true ∧ e.directFromEntry) := by
        rw [← isCalledByEntry_iff]; simpa using hc
      split at h
      · rename_i hcc; cases h
        simp at hcc
        simp [hcc.1, hcc.2]
      · rename_i hcc
        have hcc' : ¬ (hasScope s.scopes scCustomContracts = true ∧ e.current ∈ s.allowedContracts) := by
          simpa using hcc
        rw [stepGroups_ok h]
        simp [hg', hc', hcc']

theorem checkSigner_err {e : Env} {s : Signer} {x : Err} (h : checkSigner e s = .err x) :
    x = .noReadStates ∧ e.cur.readStates = false := by
  unfold checkSigner at h
  split at h; · cases h
  split at h; · cases h
  split at h; · cases h
  unfold stepGroups at h
  have hr : ∀ {y}, stepRules e s = .err y → y = .noReadStates ∧ e.cur.readStates = false := by
    intro y hy
    unfold stepRules at hy
    split at hy
    · exact evalRules_err e _ _ hy
    · cases hy
  split at h
  · split at h
    · rename_i y hy; cases h; exact getContractGroups_err hy
    · split at h
      · cases h
      · exact hr h
  · exact hr h

theorem decides_nil (h : Hash) (s : Signer) : ¬ decides [] h s := by
  rintro ⟨pre, post, heq, _⟩
  simp at heq

theorem decides_cons_eq {c : Signer} {cs : List Signer} {h : Hash} (hc : c.account = h) (s : Signer) :
    decides (c :: cs) h s ↔ s = c := by
  constructor
  · rintro ⟨pre, post, heq, hpre, hs⟩
    cases pre with
    | nil => simp at heq; exact heq.1.symm
    | cons p pre' =>
      simp at heq
      exact absurd (heq.1 ▸ hc) (hpre p (by simp))
  · rintro rfl
    exact ⟨[], cs, rfl, by simp, hc⟩

theorem decides_cons_ne {c : Signer} {cs : List Signer} {h : Hash} (hc : c.account ≠ h) (s : Signer) :
    decides (c :: cs) h s ↔ decides cs h s := by
  constructor
  · rintro ⟨pre, post, heq, hpre, hs⟩
    cases pre with
    | nil => simp at heq; exact absurd (heq.1 ▸ hs) hc
    | cons p pre' =>
      simp at heq
      exact ⟨pre', post, heq.2, fun x hx => hpre x (by simp [hx]), hs⟩
  · rintro ⟨pre, post, heq, hpre, hs⟩
    refine ⟨c :: pre, post, by simp [heq], ?_, hs⟩
    intro x hx
    cases hx with
    | head => exact hc
    | tail _ hx => exact hpre x hx

/-- the first signer with the account decides (and is unique). -/
theorem decides_unique {ss : List Signer} {h : Hash} {s t : Signer}
    (hs : decides ss h s) (ht : decides ss h t) : s = t := by
  induction ss with
  | nil => exact absurd hs (decides_nil h s)
  | cons c cs ih =>
    by_cases hc : c.account = h
    · rw [decides_cons_eq hc] at hs ht; rw [hs, ht]
    · rw [decides_cons_ne hc] at hs ht; exact ih hs ht

theorem scanSigners_ok (e : Env) (h : Hash) : ∀ (ss : List Signer) (b : Bool), scanSigners e h ss = .ok b →
    (b = true ↔ ∃ s, decides ss h s ∧ allowed e s)
  | [], b, hh => by
      simp [scanSigners] at hh; subst hh
      simp [decides_nil]
  | c :: cs, b, hh => by
      simp only [scanSigners] at hh
      split at hh
      · rename_i hc
        have hc' : c.account = h := by simpa using hc
        rw [checkSigner_ok hh]
        constructor
        · intro ha; exact ⟨c, (decides_cons_eq hc' c).mpr rfl, ha⟩
        · rintro ⟨s, hd, ha⟩; rw [(decides_cons_eq hc' s).mp hd] at ha; exact ha
      · rename_i hc
        have hc' : c.account ≠ h := by simpa using hc
        rw [scanSigners_ok e h cs b hh]
        constructor
        · rintro ⟨s, hd, ha⟩; exact ⟨s, (decides_cons_ne hc' s).mpr hd, ha⟩
        · rintro ⟨s, hd, ha⟩; exact ⟨s, (decides_cons_ne hc' s).mp hd, ha⟩

theorem scanSigners_err (e : Env) (h : Hash) : ∀ (ss : List Signer) (x : Err), scanSigners e h ss = .err x →
    x = .noReadStates ∧ e.cur.readStates = false
  | [], x, hh => by simp [scanSigners] at hh
  | c :: cs, x, hh => by
      simp only [scanSigners] at hh
      split at hh
      · exact checkSigner_err hh
      · exact scanSigners_err e h cs x hh

/-! ### Without ReadStates nothing depends on the contract table -/

theorem getContractGroups_noRS (e : Env) (k : Hash → Option (List Key)) (h : Hash)
    (hrs : e.cur.readStates = false) :
    getContractGroups (e.withContracts k) h = getContractGroups e h := by
  simp [getContractGroups, Env.withContracts, hrs]

theorem checkScriptGroups_noRS (e : Env) (k : Hash → Option (List Key)) (h : Hash) (g : Key)
    (hrs : e.cur.readStates = false) :
    checkScriptGroups (e.withContracts k) h g = checkScriptGroups e h g := by
  simp only [checkScriptGroups, getContractGroups_noRS e k h hrs]

mutual
theorem matchC_noRS (e : Env) (k : Hash → Option (List Key)) (hrs : e.cur.readStates = false) :
    ∀ c : Cond, matchC (e.withContracts k) c = matchC e c
  | .boolean _ => by simp [matchC]
  | .not c => by simp only [matchC, matchC_noRS e k hrs c]
  | .and cs => by simp only [matchC]; exact matchAnd_noRS e k hrs cs
  | .or cs => by simp only [matchC]; exact matchOr_noRS e k hrs cs
  | .scriptHash _ => by simp [matchC, Env.current, Env.withContracts]
  | .group g => by
      simp only [matchC]
      exact checkScriptGroups_noRS e k _ g hrs
  | .calledByEntry => by simp [matchC, Env.isCalledByEntry, Env.withContracts]
  | .calledByContract _ => by simp [matchC, Env.calling, Env.withContracts]
  | .calledByGroup g => by
      simp only [matchC]
      exact checkScriptGroups_noRS e k _ g hrs
theorem matchAnd_noRS (e : Env) (k : Hash → Option (List Key)) (hrs : e.cur.readStates = false) :
    ∀ cs : List Cond, matchAnd (e.withContracts k) cs = matchAnd e cs
  | [] => by simp [matchAnd]
  | c :: cs => by simp only [matchAnd, matchC_noRS e k hrs c, matchAnd_noRS e k hrs cs]
theorem matchOr_noRS (e : Env) (k : Hash → Option (List Key)) (hrs : e.cur.readStates = false) :
    ∀ cs : List Cond, matchOr (e.withContracts k) cs = matchOr e cs
  | [] => by simp [matchOr]
  | c :: cs => by simp only [matchOr, matchC_noRS e k hrs c, matchOr_noRS e k hrs cs]
end

theorem evalRules_noRS (e : Env) (k : Hash → Option (List Key)) (hrs : e.cur.readStates = false) :
    ∀ rs : List Rule, evalRules (e.withContracts k) rs = evalRules e rs
  | [] => by simp [evalRules]
  | r :: rs => by simp only [evalRules, matchC_noRS e k hrs r.cond, evalRules_noRS e k hrs rs]

theorem checkSigner_noRS (e : Env) (k : Hash → Option (List Key)) (hrs : e.cur.readStates = false) (s : Signer) :
    checkSigner (e.withContracts k) s = checkSigner e s := by
  have h1 : (e.withContracts k).isCalledByEntry = e.isCalledByEntry := rfl
  have h2 : (e.withContracts k).current = e.current := rfl
  simp only [checkSigner, stepGroups, stepRules, h1, h2, getContractGroups_noRS e k _ hrs, evalRules_noRS e k hrs]

theorem scanSigners_noRS (e : Env) (k : Hash → Option (List Key)) (hrs : e.cur.readStates = false) (h : Hash) :
    ∀ ss : List Signer, scanSigners (e.withContracts k) h ss = scanSigners e h ss
  | [] => by simp [scanSigners]
  | c :: cs => by simp only [scanSigners, checkSigner_noRS e k hrs c, scanSigners_noRS e k hrs h cs]

theorem ofCalls_parents_length (k : Hash → Option (List Key)) (f0 : Frame) (fs : List Frame) :
    (Env.ofCalls k f0 fs).parents.length = fs.length := by
  unfold Env.ofCalls
  suffices h : ∀ (e : Env), (fs.foldl Env.push e).parents.length = e.parents.length + fs.length by
    simpa using h { cur := f0, parents := [], contracts := k }
  induction fs with
  | nil => simp
  | cons f fs ih => intro e; simp [List.foldl_cons, ih, Env.push]; omega

theorem scanSigners_none (e : Env) (h : Hash) (ss : List Signer) (hns : ∀ s ∈ ss, s.account ≠ h) :
    scanSigners e h ss = .ok false := by
  induction ss with
  | nil => rfl
  | cons c cs ih =>
    have hc : c.account ≠ h := hns c (by simp)
    simp only [scanSigners]
    rw [if_neg (by simpa using hc)]
    exact ih (fun s hs => hns s (by simp [hs]))

theorem scanSigners_decides (e : Env) (h : Hash) (s : Signer) :
    ∀ (ss : List Signer), decides ss h s → scanSigners e h ss = checkSigner e s
  | [], hd => absurd hd (decides_nil h s)
  | c :: cs, hd => by
      simp only [scanSigners]
      by_cases hc : c.account = h
      · rw [(decides_cons_eq hc s).mp hd]; simp [hc]
      · rw [if_neg (by simpa using hc)]
        exact scanSigners_decides e h s cs ((decides_cons_ne hc s).mp hd)

theorem firstMatch_unique {e : Env} {rules : List Rule} {r r' : Rule}
    (h1 : firstMatch e rules r) (h2 : firstMatch e rules r') : r = r' := by
  induction rules with
  | nil => obtain ⟨pre, post, heq, _⟩ := h1; simp at heq
  | cons x xs ih =>
    obtain ⟨pre, post, heq, hpre, hh⟩ := h1
    obtain ⟨pre', post', heq', hpre', hh'⟩ := h2
    cases pre with
    | nil =>
      cases pre' with
      | nil => simp at heq heq'; rw [← heq.1, ← heq'.1]
      | cons p ps =>
        simp at heq heq'
        exact absurd (heq.1 ▸ hh) (heq'.1 ▸ hpre' p (by simp))
    | cons p ps =>
      cases pre' with
      | nil =>
        simp at heq heq'
        exact absurd (heq'.1 ▸ hh') (heq.1 ▸ hpre p (by simp))
      | cons p' ps' =>
        simp at heq heq'
        exact ih ⟨ps, post, heq.2, fun y hy => hpre y (by simp [hy]), hh⟩
          ⟨ps', post', heq'.2, fun y hy => hpre' y (by simp [hy]), hh'⟩

end NeoModel.Witness
