/- C19 simulation, part C6: checkPrepare and sendPrepareResponse. -/
import NeoModel.Proofs.DbftSimC5
namespace NeoModel.Dbft.Mach
open NeoModel.Dbft

theorem sendCommit_bp (w : W) : (sendCommit w).nd.blockProcessed = w.nd.blockProcessed := by
  unfold sendCommit
  simp only
  split
  · rfl
  · split <;> rfl

theorem sendCommit_prep (w : W) : (sendCommit w).nd.prep = w.nd.prep ∧ (sendCommit w).nd.view = w.nd.view := by
  unfold sendCommit
  simp only
  split
  · exact ⟨rfl, rfl⟩
  · split <;> exact ⟨rfl, rfl⟩

/-- check.go:15-49: checkPrepare after the round's start time has been stamped -/
def checkPrepareTail (e : Env) (w : W) : W :=
  let nd := w.nd
  if !nd.hasAllTx then w
  else
    let count := (nd.prep.filter fun s => match s with
      | some m => m.hd.v == nd.view
      | none => false).length
    let hasRequest := nd.prep.any fun s => match s with
      | some (.prepReq _ _) => true
      | _ => false
    if hasRequest && decide (count ≥ e.m) then
      checkCommit e (changeTimer (sendCommit w) e.tpb)
    else w

theorem checkPrepare_eq (e : Env) (w : W) :
    checkPrepare e w = checkPrepareTail e (if w.nd.lbIndex != w.nd.bi || w.nd.lbView != w.nd.view then
      w.upd fun nd => { nd with lbTime := some w.now, lbIndex := nd.bi, lbView := nd.view } else w) := rfl

theorem prog_checkPrepareTail {e : Env} {as : State} {i : Nat} {w : W} (g1 : Good e as i w)
    (b1 : w.nd.blockProcessed = false) : Prog e i as (checkPrepareTail e w) := by
  unfold checkPrepareTail
  simp only
  split
  · exact Prog.of_good g1
  · split
    · rename_i hc
      simp only [Bool.and_eq_true, decide_eq_true_eq] at hc
      refine (prog_sendCommit g1 b1 hc.2).bind ?_
      intro as' g2
      exact prog_checkCommit (good_changeTimer g2 _) (by
        show (sendCommit _).nd.blockProcessed = false
        rw [sendCommit_bp]; exact b1)
    · exact Prog.of_good g1

/-- check.go:7-50 on the machine -/
theorem prog_checkPrepare {e : Env} {as : State} {i : Nat} {w : W} (h : Good e as i w)
    (hbp : w.nd.blockProcessed = false) : Prog e i as (checkPrepare e w) := by
  rw [checkPrepare_eq]
  split
  · exact prog_checkPrepareTail (good_upd h _ rfl rfl rfl rfl rfl rfl rfl rfl rfl id rfl) hbp
  · exact prog_checkPrepareTail h hbp

/-- send.go:106-120 on the machine: the backup answers the request it holds -/
theorem prog_sendPrepareResponse {e : Env} {as : State} {i : Nat} {w : W} (h : Good e as i w)
    (hbp : w.nd.blockProcessed = false) (hne : w.nd.my ≠ w.nd.pidx)
    (hnp : ¬ ∃ b ∈ (as.nodes i).myPreps, b.h = w.nd.bi ∧ b.v = w.nd.view) :
    Prog e i as (sendPrepareResponse w) := by
  unfold sendPrepareResponse
  simp only
  cases hcp : w.nd.curProp with
  | none => exact Prog.of_good h
  | some p =>
    simp only
    have hmy := h.rn.my
    obtain ⟨hbi, hview, hgp, hgc⟩ := h.synced hbp
    have hh : w.nd.header = some ⟨w.nd.bi, w.nd.view, p⟩ := by simp [Node.header, hcp]
    obtain ⟨x, p', hslot, hbeq, hbprim, hpidx⟩ := header_request h.rn _ hh
    have hpp : p' = p := by
      have := congrArg Block.p hbeq; simpa using this.symm
    subst hpp
    let b : Block := ⟨w.nd.bi, w.nd.view, p'⟩
    have hprim : (cfgOf e).primary b.h b.v = w.nd.pidx := by rw [hpidx]; rfl
    have hpi : w.nd.pidx ≠ i := by rw [← hmy]; exact Ne.symm hne
    obtain ⟨hb1, _⟩ := h.g.2.1 _ b hbprim
    have hit : prepItem (cfgOf e) w.nd.pidx b = .prepReq w.nd.pidx b := by
      unfold prepItem; rw [if_pos hprim.symm]
    rw [hit] at hb1
    obtain ⟨as1, x1, k1, _, h1, v1, c1, p1, m1⟩ := ext_learn (cfgOf e) as i _ (hb1 i h.lt (Ne.symm hpi))
    have g1 := h.ext_same x1 h1 v1 c1 p1 m1
    have hen : Enabled (cfgOf e) as1 (.sendPrepResp i b) := by
      refine ⟨h.lt, by rw [h1]; exact hbi, by rw [v1]; exact hview, by rw [hprim]; exact Ne.symm hpi,
        by rw [hprim]; exact k1, ?_, rfl⟩
      intro b' hb' hc
      rw [p1] at hb'
      exact hnp ⟨b', hb', by rw [hc.1, h1]; exact hbi.symm, by rw [hc.2, v1]; exact hview.symm⟩
    obtain ⟨x2, hbc, hmp, hmc, hh2, hv2, hc2⟩ := ext_sendPrepResp (cfgOf e) as1 i b hen
    refine ⟨_, x1.trans x2, ?_⟩
    have hlen : w.nd.my < w.nd.prep.length := by rw [h.rn.lens.1, hmy]; exact h.lt
    have hbin : b ∈ ((apply (cfgOf e) as1 (.sendPrepResp i b)).nodes i).myPreps := by rw [hmp]; simp
    have rn1 := g1.rn
    refine ⟨g1.g.ext x2, ?_, ?_, fun b' s hp => g1.blk b' s (by simpa [bcast, stopTx, W.emit, W.upd] using hp), h.st, h.lt⟩
    · refine ⟨rn1.my, by simpa [bcast, stopTx, W.emit, W.upd] using rn1.lens, by rw [hc2]; exact rn1.chain,
        by rw [hh2]; exact rn1.height, ?_, rn1.pidx, ?_, ?_, ?_, ?_, ?_, ?_⟩
      · left
        refine ⟨by rw [hh2, h1]; exact hbi, by rw [hv2, v1]; exact hview, ?_, ?_⟩
        · intro _
          constructor
          · show Node.requestSOR _ = true
            simp only [bcast, stopTx, W.emit, W.upd, Node.requestSOR, slot_set_other _ _ _ _ (Ne.symm hne), hslot, Option.isSome_some]
          · show Node.responseSent _ = true
            simp only [bcast, stopTx, W.emit, W.upd, Node.responseSent, slot_set_self _ _ _ hlen, Option.isSome_some]
        · intro hx; rw [hmc, m1] at hx; exact hgc hx
      · intro j m hj
        by_cases hjm : j = w.nd.my
        · subst hjm
          simp only [bcast, stopTx, W.emit, W.upd, slot_set_self _ _ _ hlen, Option.some.injEq] at hj
          subst hj
          refine ⟨rfl, ?_, rfl, by intro hq; simp [isReq] at hq⟩
          exact ⟨b, by rw [hmy]; exact hbin, rfl, rfl⟩
        · simp only [bcast, stopTx, W.emit, W.upd, slot_set_other _ _ _ _ hjm] at hj
          obtain ⟨a1, a2, a3, a4⟩ := rn1.prep j m hj
          exact ⟨a1, a2.ext x2, a3, a4⟩
      · intro j m hj; obtain ⟨y, sb, a1, a2, a3, a4⟩ := rn1.commit j m hj
        exact ⟨y, sb, a1, a2, a3, x2.grows.commits _ _ a4.1, a4.2⟩
      · intro j m hj; obtain ⟨y, r, a1, a2, a3, a4⟩ := rn1.cv j m hj; exact ⟨y, r, a1, a2, a3, a4.ext x2⟩
      · intro j m hj; obtain ⟨y, r, a1, a2, a3, a4⟩ := rn1.lastCv j m hj; exact ⟨y, r, a1, a2, a3, a4.ext x2⟩
      · intro hh' box hb km hkm; exact (rn1.cache hh' box hb km hkm).ext x2
      · intro y sb hj
        obtain ⟨a1, a2⟩ := rn1.own y sb hj
        refine ⟨a1, ?_⟩
        show Node.header _ = some sb
        simp only [bcast, stopTx, W.emit, W.upd, Node.header, Node.curProp, slot_set_other _ _ _ _ (Ne.symm hne)]
        exact a2
    · intro pl hpl
      simp only [bcast, stopTx, W.emit, W.upd, List.mem_cons, Out.bcast.injEq, reduceCtorEq, false_or] at hpl
      rcases hpl with rfl | hpl
      · exact ⟨b, by rw [hmy]; exact hbin, rfl, rfl⟩
      · exact (g1.outs pl hpl).ext x2

end NeoModel.Dbft.Mach
