/- C19 helper lemma: a step rewriting one validator's record preserves the invariant under local conditions. -/
import NeoModel.Proofs.DbftFrame
namespace NeoModel.Dbft

/-- A step that rewrites the record of one validator `i` (and the network). -/
theorem inv_node {c : Cfg} {s : State} (inv : Inv c s) (i : Nat) (nd' : Node) (net' : List (Nat × Msg))
    (gp : ∀ b, b ∈ (s.nodes i).myPreps → b ∈ nd'.myPreps)
    (gc : ∀ b, b ∈ (s.nodes i).myCommits → b ∈ nd'.myCommits)
    (hk : ∀ it, it ∈ nd'.known → Prov c ⟨upd s.nodes i nd', net'⟩ it)
    (hnet : ∀ to m, (to, m) ∈ net' → ∀ it ∈ m.items, Prov c ⟨upd s.nodes i nd', net'⟩ it)
    (cu : ∀ b b', b ∈ nd'.myCommits → b' ∈ nd'.myCommits → b.h = b'.h → b = b')
    (cq : ∀ b, b ∈ nd'.chain → c.m ≤ countP c.n (signed ⟨upd s.nodes i nd', net'⟩ b))
    (chh : ∀ b, b ∈ nd'.myCommits → b.h ≤ nd'.height)
    (ph : ∀ b, b ∈ nd'.myPreps → b.h ≤ nd'.height)
    (vf : ∀ b, b ∈ nd'.myCommits → b.h = nd'.height → b.v = nd'.view)
    (pv : ∀ b, b ∈ nd'.myPreps → b.h = nd'.height → b.v ≤ nd'.view)
    (pu : ∀ b b', b ∈ nd'.myPreps → b' ∈ nd'.myPreps → b.h = b'.h → b.v = b'.v → b = b')
    (pf : ∀ b, b ∈ nd'.myPreps → b ∈ ((upd s.nodes i nd') (c.primary b.h b.v)).myPreps)
    (cp : ∀ b, b ∈ nd'.myCommits → c.m ≤ countP c.n (preparedBy ⟨upd s.nodes i nd', net'⟩ b))
    (ck : ∀ b, b ∈ nd'.myPreps →
      (i = c.primary b.h b.v → c.propose i b = true) ∧ (i ≠ c.primary b.h b.v → c.verify i b = true))
    (ch : ∀ b, b ∈ nd'.chain → b.h < nd'.height)
    (cs : ChainAt nd'.chain nd'.height) :
    Inv c ⟨upd s.nodes i nd', net'⟩ := by
  have g : Grows s ⟨upd s.nodes i nd', net'⟩ := by
    constructor
    · intro j b h
      show b ∈ (upd s.nodes i nd' j).myPreps
      by_cases hji : j = i
      · subst hji; rw [upd_same]; exact gp b h
      · rw [upd_other _ _ _ hji]; exact h
    · intro j b h
      show b ∈ (upd s.nodes i nd' j).myCommits
      by_cases hji : j = i
      · subst hji; rw [upd_same]; exact gc b h
      · rw [upd_other _ _ _ hji]; exact h
  constructor
  all_goals intro j
  case chainShape =>
    show ChainAt (upd s.nodes i nd' j).chain (upd s.nodes i nd' j).height
    by_cases hji : j = i
    · subst hji; rw [upd_same]; exact cs
    · rw [upd_other _ _ _ hji]; exact inv.chainShape j
  all_goals show ∀ _, _
  all_goals dsimp only
  · intro it h
    by_cases hji : j = i
    · subst hji; rw [upd_same] at h; exact hk it h
    · rw [upd_other _ _ _ hji] at h; exact (inv.knownProv j it h).mono g
  · intro m h; exact hnet j m h
  · intro b b'
    by_cases hji : j = i
    · subst hji; rw [upd_same]; exact cu b b'
    · rw [upd_other _ _ _ hji]; exact inv.commitUniq j b b'
  · intro b
    by_cases hji : j = i
    · subst hji; rw [upd_same]; exact cq b
    · rw [upd_other _ _ _ hji]; intro h; exact signed_mono g b (inv.chainQuorum j b h)
  · intro b
    by_cases hji : j = i
    · subst hji; rw [upd_same]; exact chh b
    · rw [upd_other _ _ _ hji]; exact inv.commitHeight j b
  · intro b
    by_cases hji : j = i
    · subst hji; rw [upd_same]; exact ph b
    · rw [upd_other _ _ _ hji]; exact inv.prepHeight j b
  · intro b
    by_cases hji : j = i
    · subst hji; rw [upd_same]; exact vf b
    · rw [upd_other _ _ _ hji]; exact inv.viewFrozen j b
  · intro b
    by_cases hji : j = i
    · subst hji; rw [upd_same]; exact pv b
    · rw [upd_other _ _ _ hji]; exact inv.prepView j b
  · intro b b'
    by_cases hji : j = i
    · subst hji; rw [upd_same]; exact pu b b'
    · rw [upd_other _ _ _ hji]; exact inv.prepUniq j b b'
  · intro b
    by_cases hji : j = i
    · subst hji; rw [upd_same]; exact pf b
    · rw [upd_other _ _ _ hji]; intro h; exact g.preps _ _ (inv.prepFollows j b h)
  · intro b
    by_cases hji : j = i
    · subst hji; rw [upd_same]; exact cp b
    · rw [upd_other _ _ _ hji]; intro h; exact preparedBy_mono g b (inv.commitPrepared j b h)
  · intro b
    by_cases hji : j = i
    · subst hji; rw [upd_same]; exact ck b
    · rw [upd_other _ _ _ hji]; exact inv.checked j b
  · intro b
    by_cases hji : j = i
    · subst hji; rw [upd_same]; exact ch b
    · rw [upd_other _ _ _ hji]; exact inv.chainHeight j b

end NeoModel.Dbft
