/-
C12 proofs, part 6c: every covered instruction preserves the machine invariant.
-/
import NeoModel.Proofs.VmAcctState
namespace NeoModel.VmAcct

/-! ### static slot -/

theorem cnt_setStatic (id : Nat) (v : List Item) : ∀ (fs : List Frame) (b : List Item), fs.any (·.isScript) = true →
    cnt id (rootsOf (setStatic fs v) b) + cnt id (slotItems (getStatic fs)) = cnt id (rootsOf fs b) + cnt id v ∧
    (rootsOf (setStatic fs v) b).length + (slotItems (getStatic fs)).length = (rootsOf fs b).length + v.length := by
  intro fs
  induction fs with
  | nil => intro b h; simp at h
  | cons f t ih =>
    intro b h
    by_cases hs : f.isScript = true
    · simp only [setStatic, getStatic, hs, if_true, rootsOf, cnt_append, cnt_flatMap_cons, Frame.roots, slotItems,
        List.length_append, List.flatMap_cons]
      constructor <;> omega
    · have hs' : f.isScript = false := by simpa using hs
      have ht : t.any (·.isScript) = true := by simpa [List.any_cons, hs'] using h
      have := ih b ht
      simp only [setStatic, getStatic, hs', Bool.false_eq_true, if_false, rootsOf, cnt_append, cnt_flatMap_cons,
        List.length_append, List.flatMap_cons] at this ⊢
      constructor <;> omega

theorem getStatic_some_any : ∀ (fs : List Frame) (xs : List Item), getStatic fs = some xs → fs.any (·.isScript) = true := by
  intro fs
  induction fs with
  | nil => intro xs h; simp [getStatic] at h
  | cons f t ih =>
    intro xs h
    by_cases hs : f.isScript = true
    · simp [List.any_cons, hs]
    · have hs' : f.isScript = false := by simpa using hs
      simp only [getStatic, hs', Bool.false_eq_true, if_false] at h
      simp [List.any_cons, hs', ih xs h]

/-! ### top-frame slots -/

theorem cnt_topFrame (id : Nat) (f f' : Frame) (fs : List Frame) (b : List Item) :
    cnt id (rootsOf (f' :: fs) b) + cnt id f.roots = cnt id (rootsOf (f :: fs) b) + cnt id f'.roots ∧
    (rootsOf (f' :: fs) b).length + f.roots.length = (rootsOf (f :: fs) b).length + f'.roots.length := by
  simp only [rootsOf, cnt_append, cnt_flatMap_cons, List.length_append, List.flatMap_cons]
  constructor <;> omega

/-- which slot list an instruction addresses, and what changing it does to the roots -/
theorem slot_update (s : St) (k : SlotKind) (xs v : List Item) (hg : slotGet s k = some xs) (id : Nat) :
    cnt id (slotSet s k v).roots + cnt id xs = cnt id s.roots + cnt id v ∧
    (slotSet s k v).roots.length + xs.length = s.roots.length + v.length ∧
    (slotSet s k v).c = s.c ∧ (slotSet s k v).uncaught = s.uncaught ∧ (slotSet s k v).halted = s.halted := by
  cases k with
  | loc =>
    cases hf : s.frames with
    | nil => simp [slotGet, hf] at hg
    | cons f fs =>
      simp only [slotGet, hf] at hg
      have := cnt_topFrame id f { f with locals := some v } fs s.base
      simp only [slotSet, hf, roots_eq, Frame.roots, hg, slotItems, cnt_append, List.length_append] at this ⊢
      refine ⟨by omega, by omega, trivial, trivial, trivial⟩
  | arg =>
    cases hf : s.frames with
    | nil => simp [slotGet, hf] at hg
    | cons f fs =>
      simp only [slotGet, hf] at hg
      have := cnt_topFrame id f { f with args := some v } fs s.base
      simp only [slotSet, hf, roots_eq, Frame.roots, hg, slotItems, cnt_append, List.length_append] at this ⊢
      refine ⟨by omega, by omega, trivial, trivial, trivial⟩
  | sfld =>
    simp only [slotGet] at hg
    have := cnt_setStatic id v s.frames s.base (getStatic_some_any _ _ hg)
    simp only [hg, slotItems] at this
    have e : slotSet s .sfld v = { s with frames := setStatic s.frames v } := by
      cases hf : s.frames <;> simp [slotSet, hf]
    rw [e]
    exact ⟨this.1, this.2, rfl, rfl, rfl⟩

end NeoModel.VmAcct

namespace NeoModel.VmAcct

/-! ### `setCur` does not touch slots -/

theorem setCurOf_shape : ∀ (fs : List Frame) (b st : List Item),
    getStatic (setCurOf fs b st).1 = getStatic fs ∧ (setCurOf fs b st).1.length = fs.length ∧
    ((setCurOf fs b st).1.any (·.isScript)) = (fs.any (·.isScript)) ∧
    (∀ f t, fs = f :: t → ∃ f' t', (setCurOf fs b st).1 = f' :: t' ∧ f'.locals = f.locals ∧ f'.args = f.args) := by
  intro fs
  induction fs with
  | nil => intro b st; simp [setCurOf, getStatic]
  | cons f t ih =>
    intro b st
    simp only [setCurOf]
    cases ho : f.own with
    | some o =>
      refine ⟨by simp [getStatic], by simp, by simp [List.any_cons], ?_⟩
      intro f0 t0 h0
      simp only [List.cons.injEq] at h0
      exact ⟨_, _, rfl, by rw [← h0.1], by rw [← h0.1]⟩
    | none =>
      obtain ⟨h1, h2, h3, _⟩ := ih b st
      refine ⟨by simp [getStatic, h1], by simp [h2], by simp [List.any_cons, h3], ?_⟩
      intro f0 t0 h0
      simp only [List.cons.injEq] at h0
      exact ⟨_, _, rfl, by rw [← h0.1], by rw [← h0.1]⟩

theorem slotGet_setCur (s : St) (st : List Item) (k : SlotKind) : slotGet (s.setCur st) k = slotGet s k := by
  have h := setCurOf_shape s.frames s.base st
  cases k with
  | sfld => simp only [slotGet, St.setCur]; exact h.1
  | loc =>
    simp only [slotGet, St.setCur]
    cases hf : s.frames with
    | nil => simp [setCurOf]
    | cons f t =>
      obtain ⟨f', t', e, hl, _⟩ := h.2.2.2 f t hf
      rw [hf] at e; rw [e]; exact hl
  | arg =>
    simp only [slotGet, St.setCur]
    cases hf : s.frames with
    | nil => simp [setCurOf]
    | cons f t =>
      obtain ⟨f', t', e, _, ha⟩ := h.2.2.2 f t hf
      rw [hf] at e; rw [e]; exact ha

theorem slotGet_setW (s : St) (w : W) (k : SlotKind) : slotGet (s.setW w) k = slotGet s k := by
  simp only [St.setW]
  rw [slotGet_setCur]
  cases k <;> rfl

/-- items in an addressed slot are counted roots -/
theorem slot_sub_roots (s : St) (k : SlotKind) (xs : List Item) (hg : slotGet s k = some xs) (id : Nat) :
    cnt id xs ≤ cnt id s.roots := by
  have := (slot_update s k xs [] hg id).1
  simp only [cnt_nil] at this; omega

/-! ### results of `exec` -/

structure PostS (s0 : St) (lk : List Item) (r : Res) : Prop where
  ex : ∃ lk', InvS r.s lk' ∧ (Acyclic s0.c.heap → lk' = lk)
  raised : ∀ x, r.raised = some x → WfItem r.s.c.heap x
  len : s0.c.heap.length ≤ r.s.c.heap.length

theorem exc_of_len {s s' : St} {lk : List Item} (inv : InvS s lk) (hu : s'.uncaught = s.uncaught)
    (hl : s.c.heap.length ≤ s'.c.heap.length) : ∀ x, s'.uncaught = some x → WfItem s'.c.heap x := by
  intro x hx
  rw [hu] at hx
  exact wfItem_of_len (inv.exc x hx) hl

theorem setW_uncaught (s : St) (w : W) : (s.setW w).uncaught = s.uncaught := rfl
theorem setW_c (s : St) (w : W) : (s.setW w).c = w.c := rfl

theorem exec_s_inv {s : St} {lk : List Item} (sop : SOp) (hc : sop.core = true) (hok : sop.okFor s.w) (inv : InvS s lk)
    (r : Res) (h : exec (.s sop) s = some r) : PostS s lk r := by
  simp only [exec] at h
  cases he : execS sop s.w with
  | none => simp [he] at h
  | some out =>
    have hpost := execS_inv sop hc s.w inv.toW hok out he
    have hlen := execS_len sop hc s.w hok out he
    cases out with
    | ok w' =>
      simp only [he, ok, Option.some.injEq] at h
      subst h
      obtain ⟨lk2, i2, hac⟩ := hpost
      refine ⟨⟨lk ++ lk2, ⟨invC_setW i2, exc_of_len inv (setW_uncaught _ _) hlen⟩, ?_⟩, (by intro x hx; cases hx), hlen⟩
      intro ha; rw [hac ha]; simp
    | throw w' =>
      simp only [he, Option.some.injEq] at h
      subst h
      obtain ⟨lk2, i2, hac⟩ := hpost
      refine ⟨⟨lk ++ lk2, ⟨invC_setW i2, exc_of_len inv (setW_uncaught _ _) hlen⟩, ?_⟩, ?_, hlen⟩
      · intro ha; rw [hac ha]; simp
      · intro x hx; simp only [Option.some.injEq] at hx; rw [← hx]; exact wfItem_prim _

theorem exec_ld_inv {s : St} {lk : List Item} (k : SlotKind) (i : Nat) (inv : InvS s lk)
    (r : Res) (h : exec (.ld k i) s = some r) : PostS s lk r := by
  simp only [exec] at h
  cases hg : slotGet s k with
  | none => simp [hg] at h
  | some xs =>
    simp only [hg] at h
    cases hx : xs[i]? with
    | none => simp [hx] at h
    | some x =>
      simp only [hx, ok, Option.some.injEq] at h
      subst h
      have hvalid : WfItem s.c.heap x := by
        intro d hd
        have h1 := cnt_pos_of_mem (List.mem_of_getElem? hx) hd
        have h2 := slot_sub_roots s k xs hg d
        exact inv.ctr.valid (d := d) (by omega)
      obtain ⟨i1, s1⟩ := push_inv inv.toW hvalid
      have hlen : s.c.heap.length ≤ (s.setW (s.w.push x)).c.heap.length := by
        rw [setW_c, s1.1]; exact Nat.le_refl _
      refine ⟨⟨lk ++ [], ⟨invC_setW (i1.congr (by intro id; simp) (by simp)), exc_of_len inv (setW_uncaught _ _) hlen⟩, ?_⟩,
        (by intro x hx; cases hx), hlen⟩
      intro _; simp

theorem exec_st_inv {s : St} {lk : List Item} (k : SlotKind) (i : Nat) (inv : InvS s lk)
    (r : Res) (h : exec (.st k i) s = some r) : PostS s lk r := by
  simp only [exec] at h
  cases hg : slotGet s k with
  | none => simp [hg] at h
  | some xs =>
    simp only [hg] at h
    cases hx : xs[i]? with
    | none => simp [hx] at h
    | some old =>
      cases hp : s.w.popNoRef with
      | none => simp [hx, hp] at h
      | some rp =>
        obtain ⟨item, w⟩ := rp
        simp only [hx, hp, ok, Option.some.injEq] at h
        subst h
        have hst : s.cur = item :: w.st ∧ w.c = s.c := by
          unfold W.popNoRef at hp
          simp only [St.w] at hp
          split at hp
          · cases hp
          · rename_i y rr hcur
            simp only [Option.some.injEq, Prod.mk.injEq] at hp
            exact ⟨by rw [hcur, hp.1, ← hp.2], by rw [← hp.2]⟩
        -- the state after the pop and the Remove, before the slot is written
        let s1 := s.setW { w with c := w.c.rem old }
        have hg1 : slotGet s1 k = some xs := by rw [slotGet_setW]; exact hg
        have e1 := fun id => cnt_setCurOf id s.frames s.base w.st
        have e1l := len_setCurOf s.frames s.base w.st
        have hc : curOf s.frames s.base = item :: w.st := hst.1
        have hr1 : s1.roots = rootsOf (setCurOf s.frames s.base w.st).1 (setCurOf s.frames s.base w.st).2 := rfl
        have hroots1 : ∀ id, cnt id s1.roots + cnt id [item] = cnt id s.roots := by
          intro id
          have := e1 id
          rw [hc] at this
          rw [hr1, roots_eq]
          simp only [cnt_cons, cnt_nil] at this ⊢
          omega
        have hlen1 : s1.roots.length + 1 = s.roots.length := by
          rw [hc] at e1l
          rw [hr1, roots_eq]
          simp only [List.length_cons] at e1l
          omega
        have e2 := fun id => slot_update s1 k xs (xs.set i item) hg1 id
        have e3 := fun id => cnt_set id xs i old item hx
        have hirem := inv_rem (c := s.c) (f := fun id => cnt id (slotSet s1 k (xs.set i item)).roots + cnt id lk)
          (n := (slotSet s1 k (xs.set i item)).roots.length + lk.length) old
          (inv.ctr.congr (by
            intro id
            have := hroots1 id; have := (e2 id).1; have := (e3 id).1
            simp only [cnt_cons, cnt_nil] at *; omega) (by
            have := (e2 0).2.1; have := (e3 0).2
            omega))
        have hc2 : (slotSet s1 k (xs.set i item)).c = s.c.rem old := by
          rw [(e2 0).2.2.1]; show (w.c.rem old) = _; rw [hst.2]
        have hlen : s.c.heap.length ≤ (slotSet s1 k (xs.set i item)).c.heap.length := by
          rw [hc2]; simp
        refine ⟨⟨lk, ⟨by rw [hc2]; exact hirem.1, exc_of_len inv (by rw [(e2 0).2.2.2.1]; rfl) hlen⟩, fun _ => rfl⟩,
          (by intro x hx; cases hx), hlen⟩

end NeoModel.VmAcct

namespace NeoModel.VmAcct

theorem exec_nop_inv {s : St} {lk : List Item} (inv : InvS s lk) (r : Res) (h : exec .nop s = some r) : PostS s lk r := by
  simp only [exec, ok, Option.some.injEq] at h
  subst h
  exact ⟨⟨lk, inv, fun _ => rfl⟩, (by intro x hx; cases hx), Nat.le_refl _⟩

theorem exec_endfinally_inv {s : St} {lk : List Item} (inv : InvS s lk) (r : Res) (h : exec .endfinally s = some r) :
    PostS s lk r := by
  simp only [exec] at h
  cases hu : s.uncaught with
  | none =>
    simp only [hu, ok, Option.some.injEq] at h
    subst h
    exact ⟨⟨lk, inv, fun _ => rfl⟩, (by intro x hx; cases hx), Nat.le_refl _⟩
  | some x =>
    simp only [hu, Option.some.injEq] at h
    subst h
    refine ⟨⟨lk, inv, fun _ => rfl⟩, ?_, Nat.le_refl _⟩
    intro y hy
    simp only [Option.some.injEq] at hy
    rw [← hy]; exact inv.exc x hu

theorem exec_throw_inv {s : St} {lk : List Item} (inv : InvS s lk) (r : Res) (h : exec .throw_ s = some r) : PostS s lk r := by
  simp only [exec] at h
  cases hp : s.w.pop with
  | none => simp [hp] at h
  | some rp =>
    obtain ⟨x, w⟩ := rp
    simp only [hp, Option.some.injEq] at h
    subst h
    obtain ⟨i1, s1, hv, _⟩ := pop_inv inv.toW hp
    have hlen : s.c.heap.length ≤ (s.setW w).c.heap.length := by rw [setW_c, s1.1]; exact Nat.le_refl _
    refine ⟨⟨lk ++ [], ⟨invC_setW (i1.congr (by intro id; simp) (by simp)), exc_of_len inv (setW_uncaught _ _) hlen⟩,
      fun _ => by simp⟩, ?_, hlen⟩
    intro y hy
    simp only [Option.some.injEq] at hy
    rw [← hy]; exact hv

theorem exec_initsslot_inv {s : St} {lk : List Item} (n : Nat) (inv : InvS s lk) (r : Res)
    (h : exec (.initsslot n) s = some r) : PostS s lk r := by
  simp only [exec] at h
  split at h
  · cases h
  · cases hg : getStatic s.frames with
    | some v => simp [hg] at h
    | none =>
      simp only [hg] at h
      split at h
      · rename_i hany
        simp only [ok, Option.some.injEq] at h
        subst h
        have e : slotSet s .sfld (List.replicate n Item.prim) = { s with frames := setStatic s.frames (List.replicate n Item.prim) } := by
          cases hf : s.frames <;> simp [slotSet, hf]
        have hc := fun id => cnt_setStatic id (List.replicate n Item.prim) s.frames s.base hany
        refine ⟨⟨lk, ⟨?_, ?_⟩, fun _ => rfl⟩, (by intro x hx; cases hx), ?_⟩
        · rw [e]
          refine ⟨inv.ctr.wf, fun id => ?_, ?_⟩
          · have := inv.ctr.rc id
            have := (hc id).1
            simp only [hg, slotItems, cnt_nil, cnt_replicate_prim, roots_eq] at *
            omega
          · have := inv.ctr.refs
            have := (hc 0).2
            simp only [hg, slotItems, List.length_nil, List.length_replicate, roots_eq] at *
            push_cast at *
            omega
        · rw [e]; exact inv.exc
        · rw [e]; exact Nat.le_refl _
      · cases h

theorem exec_call_inv {s : St} {lk : List Item} (pops : Nat) (inv : InvS s lk) (r : Res)
    (h : exec (.call pops) s = some r) : PostS s lk r := by
  simp only [exec] at h
  cases hp : W.popN pops s.w with
  | none => simp [hp] at h
  | some w =>
    simp only [hp] at h
    split at h
    · cases h
    · simp only [ok, Option.some.injEq] at h
      subst h
      obtain ⟨i1, s1, _, _⟩ := popN_inv pops inv.toW hp
      have i2 := invC_setW (s := s) (lk := lk) (lk2 := []) (w' := w) (i1.congr (by intro id; simp) (by simp))
      have hlen : s.c.heap.length ≤ (s.setW w).c.heap.length := by rw [setW_c, s1.1]; exact Nat.le_refl _
      refine ⟨⟨lk ++ [], ⟨?_, exc_of_len inv rfl hlen⟩, fun _ => by simp⟩,
        (by intro x hx; cases hx), hlen⟩
      refine i2.congr ?_ ?_
      · intro id
        simp [St.roots, List.flatMap_cons, Frame.roots, slotItems]
      · simp [St.roots, List.flatMap_cons, Frame.roots, slotItems]

/-- unloadContext, slot part -/
theorem unload_inv {c : Ctr} {g : Nat → Nat} {m : Nat} (f : Frame)
    (inv : InvC c (fun id => g id + (cnt id (slotItems f.locals) + cnt id (slotItems f.args) +
        cnt id (if f.isScript then slotItems f.static else [])))
      (m + ((slotItems f.locals).length + (slotItems f.args).length + (if f.isScript then slotItems f.static else []).length))) :
    InvC (unloadSlots f c) g m ∧ (unloadSlots f c).heap.length = c.heap.length := by
  unfold unloadSlots
  have i1 := (inv_remAll (f := fun id => g id + (cnt id (slotItems f.args) + cnt id (if f.isScript then slotItems f.static else [])))
    (n := m + ((slotItems f.args).length + (if f.isScript then slotItems f.static else []).length)) (slotItems f.locals)
    (inv.congr (by intro id; omega) (by omega))).1
  have i2 := (inv_remAll (f := fun id => g id + cnt id (if f.isScript then slotItems f.static else []))
    (n := m + (if f.isScript then slotItems f.static else []).length) (slotItems f.args)
    (i1.congr (by intro id; omega) (by omega))).1
  by_cases hs : f.isScript = true
  · simp only [hs, if_true] at i2 ⊢
    exact ⟨(inv_remAll (slotItems f.static) i2).1, by simp⟩
  · have hs' : f.isScript = false := by simpa using hs
    simp only [hs', Bool.false_eq_true, if_false, cnt_nil, List.length_nil, Nat.add_zero] at i2 ⊢
    exact ⟨i2, by simp⟩

end NeoModel.VmAcct

namespace NeoModel.VmAcct

theorem roots_cons (f : Frame) (fs : List Frame) (b : List Item) (id : Nat) :
    cnt id (rootsOf (f :: fs) b) = cnt id (rootsOf fs b) + (cnt id (slotItems f.own) + (cnt id (slotItems f.locals) +
      cnt id (slotItems f.args) + cnt id (if f.isScript then slotItems f.static else []))) ∧
    (rootsOf (f :: fs) b).length = (rootsOf fs b).length + ((slotItems f.own).length + ((slotItems f.locals).length +
      (slotItems f.args).length + (if f.isScript then slotItems f.static else []).length)) := by
  simp only [rootsOf, cnt_append, List.flatMap_cons, Frame.roots, List.length_append]
  constructor <;> omega

/-- handleException: unloading `k` contexts; the evaluation stack a dropped context owns is cleared, so
nothing stays counted that is not reachable: the leaked list does not change -/
theorem unwindFrames_inv (b : List Item) : ∀ (k : Nat) (fs : List Frame) (c : Ctr) (lk : List Item) (fs' : List Frame) (c' : Ctr),
    InvC c (fun id => cnt id (rootsOf fs b) + cnt id lk) ((rootsOf fs b).length + lk.length) →
    unwindFrames k fs c = some (fs', c') →
    InvC c' (fun id => cnt id (rootsOf fs' b) + cnt id lk) ((rootsOf fs' b).length + lk.length) ∧
      c'.heap.length = c.heap.length := by
  intro k
  induction k with
  | zero =>
    intro fs c lk fs' c' inv h
    simp only [unwindFrames, Option.some.injEq, Prod.mk.injEq] at h
    obtain ⟨rfl, rfl⟩ := h
    exact ⟨inv, rfl⟩
  | succ k ih =>
    intro fs c lk fs' c' inv h
    cases fs with
    | nil => simp [unwindFrames] at h
    | cons f t =>
      simp only [unwindFrames] at h
      have hr := fun id => roots_cons f t b id
      -- first the slots, the own stack still counted
      obtain ⟨i1, l1⟩ := unload_inv (g := fun id => (cnt id (rootsOf t b) + cnt id lk) + cnt id (slotItems f.own).reverse)
        (m := ((rootsOf t b).length + lk.length) + (slotItems f.own).reverse.length) f
        (inv.congr (by intro id; have := (hr id).1; simp only [cnt_reverse]; omega)
          (by have := (hr 0).2; simp only [List.length_reverse]; omega))
      -- then the own stack is released (Stack.Clear)
      obtain ⟨i2, ss⟩ := inv_remAll (slotItems f.own).reverse i1
      obtain ⟨i3, l3⟩ := ih t _ lk fs' c' i2 h
      exact ⟨i3, by rw [l3, ss.1, l1]⟩

theorem unwind_inv {s s' : St} {lk : List Item} (x : Item) (k : Nat) (c : Bool) (inv : InvS s lk) (hx : WfItem s.c.heap x)
    (h : unwind s x k c = some s') :
    InvS s' lk ∧ s.c.heap.length ≤ s'.c.heap.length := by
  simp only [unwind] at h
  cases hu : unwindFrames k s.frames s.c with
  | none => simp [hu] at h
  | some p =>
    obtain ⟨fs, c1⟩ := p
    simp only [hu] at h
    obtain ⟨i1, l1⟩ := unwindFrames_inv s.base k s.frames s.c lk fs c1 inv.ctr hu
    split at h
    · cases h
    · have hx1 : WfItem c1.heap x := wfItem_of_len hx (by rw [l1]; exact Nat.le_refl _)
      cases c with
      | false =>
        simp only [Bool.false_eq_true, if_false, Option.some.injEq] at h
        subst h
        refine ⟨⟨i1, ?_⟩, by simp [l1]⟩
        intro y hy
        simp only [Option.some.injEq] at hy
        rw [← hy]; exact hx1
      | true =>
        simp only [if_true, Option.some.injEq] at h
        subst h
        let s1 : St := { s with frames := fs, c := c1 }
        have invs1 : InvS s1 lk := ⟨i1, fun y hy => wfItem_of_len (inv.exc y hy) (by simp [s1, l1])⟩
        obtain ⟨i2, ss⟩ := push_inv invs1.toW (x := x) hx1
        have i3 := invC_setW (s := s1) (lk := lk) (lk2 := []) (w' := s1.w.push x) (i2.congr (by intro id; simp) (by simp))
        rw [List.append_nil] at i3
        refine ⟨⟨i3, by intro y hy; cases hy⟩, ?_⟩
        show s.c.heap.length ≤ (s1.w.push x).c.heap.length
        rw [ss.1]; simp [s1, St.w, l1]

end NeoModel.VmAcct

namespace NeoModel.VmAcct

theorem push_frame_args {s1 : St} {lk : List Item} (f0 : Frame) (hr : f0.roots = []) (args : List Item) (inv1 : InvS s1 lk)
    (hargs : ∀ x ∈ args, WfItem s1.c.heap x) :
    InvS (({ s1 with frames := f0 :: s1.frames } : St).setW
      { c := s1.c.addAll args.reverse, st := args ++ ({ s1 with frames := f0 :: s1.frames } : St).cur }) lk ∧
    (s1.c.addAll args.reverse).heap.length = s1.c.heap.length := by
  let s2 : St := { s1 with frames := f0 :: s1.frames }
  have invs2 : InvS s2 lk := by
    refine ⟨inv1.ctr.congr ?_ ?_, inv1.exc⟩
    · intro id; simp [s2, St.roots, List.flatMap_cons, hr]
    · simp [s2, St.roots, List.flatMap_cons, hr]
  have hargs2 : ∀ x ∈ args.reverse, WfItem s2.c.heap x := fun x hx => hargs x (List.mem_reverse.1 hx)
  obtain ⟨i3, ss3⟩ := inv_addAll args.reverse hargs2 invs2.toW
  have i4 := invC_setW (s := s2) (lk := lk) (lk2 := [])
    (w' := { c := s2.c.addAll args.reverse, st := args ++ s2.cur })
    (i3.congr (by intro id; simp only [St.w, cnt_append, cnt_reverse, cnt_nil]; omega)
      (by simp only [St.w, List.length_append, List.length_reverse, List.length_nil]; omega))
  rw [List.append_nil] at i4
  refine ⟨⟨i4, ?_⟩, by simp⟩
  intro y hy
  exact wfItem_of_len (inv1.exc y hy) (by show s1.c.heap.length ≤ (s2.c.addAll args.reverse).heap.length; simp [s2])

theorem loadFrame_roots (c : Bool) (rv : Int) (d : Bool) :
    ({ own := if c = true then some [] else none, isScript := true, retCount := rv, dynamic := d } : Frame).roots = [] := by
  cases c <;> simp [Frame.roots, slotItems]

theorem exec_load_inv {s : St} {lk : List Item} (mode nargs : Nat) (inv : InvS s lk) (r : Res)
    (h : exec (.load mode nargs) s = some r) : PostS s lk r := by
  simp only [exec] at h
  split at h
  · cases h
  · cases hp : W.popN nargs s.w with
    | none => simp [hp] at h
    | some w =>
      simp only [hp] at h
      split at h
      · cases h
      · simp only [ok, Option.some.injEq] at h
        subst h
        obtain ⟨i1, ss1, _, _⟩ := popN_inv nargs inv.toW hp
        have hl1 : w.c.heap.length = s.c.heap.length := ss1.1
        have invs1 : InvS (s.setW w) lk :=
          ⟨(invC_setW (s := s) (lk := lk) (lk2 := []) (w' := w) (i1.congr (by intro id; simp) (by simp))).congr (by intro id; simp) (by simp),
           exc_of_len inv (setW_uncaught _ _) (by rw [setW_c, hl1]; exact Nat.le_refl _)⟩
        have hargs : ∀ x ∈ s.cur.take nargs, WfItem (s.setW w).c.heap x := by
          intro x hx
          have hm : x ∈ s.cur := List.mem_of_mem_take hx
          have : WfItem s.c.heap x := inv.toW.mem_valid (by simpa [St.w] using hm)
          exact wfItem_of_len this (by simp [setW_c, hl1])
        refine ⟨⟨lk, ?_, fun _ => rfl⟩, (by intro x hx; cases hx), ?_⟩
        · exact (push_frame_args _ (loadFrame_roots _ _ _) (s.cur.take nargs) invs1 hargs).1
        · show s.c.heap.length ≤ ((s.setW w).c.addAll (s.cur.take nargs).reverse).heap.length
          simp [setW_c, hl1]

end NeoModel.VmAcct

namespace NeoModel.VmAcct

theorem slot_init_loc (s : St) (f : Frame) (fs : List Frame) (hf : s.frames = f :: fs) (hn : f.locals = none) (v : List Item) (id : Nat) :
    cnt id (slotSet s .loc v).roots = cnt id s.roots + cnt id v ∧
    (slotSet s .loc v).roots.length = s.roots.length + v.length ∧
    (slotSet s .loc v).cur = s.cur ∧ (slotSet s .loc v).frames = { f with locals := some v } :: fs ∧
    (slotSet s .loc v).c = s.c ∧ (slotSet s .loc v).uncaught = s.uncaught ∧ (slotSet s .loc v).base = s.base := by
  have := cnt_topFrame id f { f with locals := some v } fs s.base
  simp only [slotSet, hf, roots_eq, Frame.roots, hn, slotItems, cnt_append, List.length_append, cnt_nil, List.length_nil,
    St.cur, curOf] at this ⊢
  refine ⟨by omega, by omega, trivial, trivial, trivial, trivial, trivial⟩

theorem slot_init_arg (s : St) (f : Frame) (fs : List Frame) (hf : s.frames = f :: fs) (hn : f.args = none) (v : List Item) (id : Nat) :
    cnt id (slotSet s .arg v).roots = cnt id s.roots + cnt id v ∧
    (slotSet s .arg v).roots.length = s.roots.length + v.length ∧
    (slotSet s .arg v).cur = s.cur ∧
    (slotSet s .arg v).c = s.c ∧ (slotSet s .arg v).uncaught = s.uncaught := by
  have := cnt_topFrame id f { f with args := some v } fs s.base
  simp only [slotSet, hf, roots_eq, Frame.roots, hn, slotItems, cnt_append, List.length_append, cnt_nil, List.length_nil,
    St.cur, curOf] at this ⊢
  refine ⟨by omega, by omega, trivial, trivial, trivial⟩

theorem exec_initslot_inv {s : St} {lk : List Item} (l a : Nat) (inv : InvS s lk) (r : Res)
    (h : exec (.initslot l a) s = some r) : PostS s lk r := by
  simp only [exec] at h
  cases hf : s.frames with
  | nil => simp [hf] at h
  | cons f fs =>
    simp only [hf] at h
    split at h
    · cases h
    · rename_i hcond
      have hloc : f.locals = none := by
        cases hl : f.locals with
        | none => rfl
        | some v => simp [hl] at hcond
      have harg : f.args = none := by
        cases ha : f.args with
        | none => rfl
        | some v => simp [ha] at hcond
      -- after the locals
      have key : ∀ s1 : St, InvS s1 lk → s1.c.heap = s.c.heap → (∃ f1, s1.frames = f1 :: fs ∧ f1.args = none) →
          (if a = 0 then ok s1 else if a ≤ s1.cur.length then ok ((slotSet s1 .arg (s1.cur.take a)).setCur (s1.cur.drop a)) else none) = some r →
          PostS s lk r := by
        intro s1 inv1 hh ⟨f1, hf1, ha1⟩ h
        by_cases ha : a = 0
        · simp only [ha, if_true, ok, Option.some.injEq] at h
          subst h
          exact ⟨⟨lk, inv1, fun _ => rfl⟩, (by intro x hx; cases hx), by rw [hh]; exact Nat.le_refl _⟩
        · simp only [ha, if_false] at h
          split at h
          · simp only [ok, Option.some.injEq] at h
            subst h
            have e1 := fun id => slot_init_arg s1 f1 fs hf1 ha1 (s1.cur.take a) id
            have e2 := fun id => cnt_setCur id (slotSet s1 .arg (s1.cur.take a)) (s1.cur.drop a)
            have e2l := len_setCur (slotSet s1 .arg (s1.cur.take a)) (s1.cur.drop a)
            refine ⟨⟨lk, ⟨?_, ?_⟩, fun _ => rfl⟩, (by intro x hx; cases hx), ?_⟩
            · dsimp only
              rw [c_setCur, (e1 0).2.2.2.1]
              refine inv1.ctr.congr ?_ ?_
              · intro id
                have := (e1 id).1; have := e2 id; have := cnt_take_drop id a s1.cur
                rw [(e1 id).2.2.1] at *
                omega
              · have := (e1 0).2.1
                have h3 : (s1.cur.take a).length + (s1.cur.drop a).length = s1.cur.length := by
                  rw [← List.length_append, List.take_append_drop]
                rw [(e1 0).2.2.1] at e2l
                omega
            · intro y hy
              dsimp only at hy ⊢
              rw [uncaught_setCur, (e1 0).2.2.2.2] at hy
              rw [c_setCur, (e1 0).2.2.2.1]
              exact inv1.exc y hy
            · dsimp only
              rw [c_setCur, (e1 0).2.2.2.1, hh]; exact Nat.le_refl _
          · cases h
      by_cases hl : l > 0
      · simp only [hl, if_true] at h
        have e0 := fun id => slot_init_loc s f fs hf hloc (List.replicate l Item.prim) id
        refine key _ ?_ ?_ ?_ h
        · refine ⟨⟨inv.ctr.wf, fun id => ?_, ?_⟩, ?_⟩
          · have := inv.ctr.rc id
            have := (e0 id).1
            simp only [cnt_replicate_prim] at *
            show rcOf s.c.heap id = _
            simp only [St.roots] at *
            omega
          · have := inv.ctr.refs
            have := (e0 0).2.1
            simp only [List.length_replicate] at *
            show s.c.refs + (l : Int) = _
            simp only [St.roots] at *
            push_cast at *
            omega
          · intro y hy
            have : s.uncaught = some y := by rw [← (e0 0).2.2.2.2.2.1]; exact hy
            exact inv.exc y this
        · rfl
        · exact ⟨_, (e0 0).2.2.2.1, harg⟩
      · simp only [hl, if_false] at h
        exact key s inv rfl ⟨f, hf, harg⟩ h

end NeoModel.VmAcct

namespace NeoModel.VmAcct

/-- pushing the Null that DynamicOnUnload adds -/
theorem pushPrim_state {s1 : St} {lk : List Item} (inv1 : InvS s1 lk) :
    InvS (s1.setW (s1.w.push .prim)) lk ∧ (s1.setW (s1.w.push .prim)).c.heap.length = s1.c.heap.length := by
  obtain ⟨i1, ss⟩ := push_inv inv1.toW (wfItem_prim _)
  have i2 := invC_setW (s := s1) (lk := lk) (lk2 := []) (w' := s1.w.push .prim) (i1.congr (by intro id; simp) (by simp))
  rw [List.append_nil] at i2
  have hl : (s1.setW (s1.w.push .prim)).c.heap.length = s1.c.heap.length := by rw [setW_c, ss.1]; rfl
  exact ⟨⟨i2, exc_of_len inv1 (setW_uncaught _ _) (by rw [hl]; exact Nat.le_refl _)⟩, hl⟩

theorem exec_ret_inv {s : St} {lk : List Item} (inv : InvS s lk) (r : Res) (h : exec .ret s = some r) :
    ∃ lk', InvS r.s lk' ∧ r.raised = none ∧ s.c.heap.length ≤ r.s.c.heap.length ∧
      (s.base = [] → lk' = lk) := by
  simp only [exec] at h
  cases hf : s.frames with
  | nil => simp [hf] at h
  | cons f rest =>
    simp only [hf] at h
    have hr := fun id => roots_cons f rest s.base id
    have hroots : s.roots = rootsOf (f :: rest) s.base := by rw [roots_eq, hf]
    by_cases hre : rest.isEmpty = true
    · simp only [hre, if_true, ok, Option.some.injEq] at h
      subst h
      have hrest : rest = [] := by simpa using hre
      subst hrest
      cases ho : f.own with
      | some st =>
        -- the result stack is the unloaded context's own stack; the VM's first stack object is dropped
        obtain ⟨i1, l1⟩ := unload_inv (g := fun id => cnt id st + cnt id (lk ++ s.base)) (m := st.length + (lk ++ s.base).length) f
          (inv.ctr.congr (by
            intro id; have := (hr id).1
            rw [hroots]; simp only [rootsOf, List.flatMap_nil, List.append_nil, ho, slotItems, cnt_append] at this ⊢; omega) (by
            have := (hr 0).2
            rw [hroots]; simp only [rootsOf, List.flatMap_nil, List.append_nil, ho, slotItems, List.length_append] at this ⊢; omega))
        refine ⟨lk ++ s.base, ⟨?_, ?_⟩, rfl, by dsimp only; rw [l1]; exact Nat.le_refl _, fun hb => by simp [hb]⟩
        · dsimp only
          refine i1.congr ?_ ?_ <;> simp [St.roots, curOf, ho]
        · intro y hy
          exact wfItem_of_len (inv.exc y hy) (by dsimp only; rw [l1]; exact Nat.le_refl _)
      | none =>
        obtain ⟨i1, l1⟩ := unload_inv (g := fun id => cnt id s.base + cnt id lk) (m := s.base.length + lk.length) f
          (inv.ctr.congr (by
            intro id; have := (hr id).1
            rw [hroots]; simp only [rootsOf, List.flatMap_nil, List.append_nil, ho, slotItems, cnt_nil] at this ⊢; omega) (by
            have := (hr 0).2
            rw [hroots]; simp only [rootsOf, List.flatMap_nil, List.append_nil, ho, slotItems, List.length_nil] at this ⊢; omega))
        refine ⟨lk, ⟨?_, ?_⟩, rfl, by dsimp only; rw [l1]; exact Nat.le_refl _, fun _ => rfl⟩
        · dsimp only
          refine i1.congr ?_ ?_ <;> simp [St.roots, curOf, ho]
        · intro y hy
          exact wfItem_of_len (inv.exc y hy) (by dsimp only; rw [l1]; exact Nat.le_refl _)
    · simp only [hre, Bool.false_eq_true, if_false] at h
      cases ho : f.own with
      | some st =>
        simp only [ho] at h
        split at h
        · cases h
        · -- the unloaded context's stack is moved onto the stack below, then its slots are released
          let s1a : St := { s with frames := rest }
          let s1b : St := s1a.setCur (st ++ s1a.cur)
          have e1 := fun id => cnt_setCur id s1a (st ++ s1a.cur)
          have e1l := len_setCur s1a (st ++ s1a.cur)
          obtain ⟨i1, l1⟩ := unload_inv (g := fun id => cnt id s1b.roots + cnt id lk) (m := s1b.roots.length + lk.length) f
            (c := s1b.c) (inv.ctr.congr (by
              intro id; have := (hr id).1; have := e1 id
              rw [hroots]
              simp only [ho, slotItems, cnt_append, s1b] at *
              have h5 : cnt id s1a.roots = cnt id (rootsOf rest s.base) := rfl
              omega) (by
              have := (hr 0).2
              rw [hroots]
              simp only [ho, slotItems, List.length_append, s1b] at *
              have h5 : s1a.roots.length = (rootsOf rest s.base).length := rfl
              omega))
          have invs1 : InvS { s1b with c := unloadSlots f s1b.c } lk :=
            ⟨i1, fun y hy => wfItem_of_len (inv.exc y hy) (by show s.c.heap.length ≤ (unloadSlots f s1b.c).heap.length; rw [l1]; exact Nat.le_refl _)⟩
          have hl0 : ({ s1b with c := unloadSlots f s1b.c } : St).c.heap.length = s.c.heap.length := l1
          split at h
          · split at h
            · simp only [ok, Option.some.injEq] at h
              subst h
              obtain ⟨i2, l2⟩ := pushPrim_state invs1
              exact ⟨lk, i2, rfl, by rw [l2, hl0]; exact Nat.le_refl _, fun _ => rfl⟩
            · split at h
              · cases h
              · simp only [ok, Option.some.injEq] at h
                subst h
                exact ⟨lk, invs1, rfl, by rw [hl0]; exact Nat.le_refl _, fun _ => rfl⟩
          · simp only [ok, Option.some.injEq] at h
            subst h
            exact ⟨lk, invs1, rfl, by rw [hl0]; exact Nat.le_refl _, fun _ => rfl⟩
      | none =>
        simp only [ho] at h
        obtain ⟨i1, l1⟩ := unload_inv (g := fun id => cnt id (rootsOf rest s.base) + cnt id lk) (m := (rootsOf rest s.base).length + lk.length) f
          (inv.ctr.congr (by
            intro id; have := (hr id).1
            rw [hroots]; simp only [ho, slotItems, cnt_nil] at this ⊢; omega) (by
            have := (hr 0).2
            rw [hroots]; simp only [ho, slotItems, List.length_nil] at this ⊢; omega))
        have invs1 : InvS ({ s with frames := rest, c := unloadSlots f s.c } : St) lk :=
          ⟨i1, fun y hy => wfItem_of_len (inv.exc y hy) (by show s.c.heap.length ≤ (unloadSlots f s.c).heap.length; rw [l1]; exact Nat.le_refl _)⟩
        have hl0 : ({ s with frames := rest, c := unloadSlots f s.c } : St).c.heap.length = s.c.heap.length := l1
        split at h
        · split at h
          · simp only [ok, Option.some.injEq] at h
            subst h
            obtain ⟨i2, l2⟩ := pushPrim_state invs1
            exact ⟨lk, i2, rfl, by rw [l2, hl0]; exact Nat.le_refl _, fun _ => rfl⟩
          · split at h
            · cases h
            · simp only [ok, Option.some.injEq] at h
              subst h
              exact ⟨lk, invs1, rfl, by rw [hl0]; exact Nat.le_refl _, fun _ => rfl⟩
        · simp only [ok, Option.some.injEq] at h
          subst h
          exact ⟨lk, invs1, rfl, by rw [hl0]; exact Nat.le_refl _, fun _ => rfl⟩

end NeoModel.VmAcct
