/-
C08 helper: `Verify` and `RemoveStale` preserve the invariant (loop invariant of the rebuild of fees/conflicts).
-/
import NeoModel.Proofs.MempoolAdd
namespace NeoModel.Mempool

/-! ### Verify -/

theorem verify_spec {U : Tx → Prop} (hw : WF U) {mp : Pool} (hi : Inv U mp) {t : Tx} (ht : U t) (feer : Feer)
    (hF : FeerOk feer) :
    CacheOnly mp (verify mp t feer).1 t feer ∧ Inv U (verify mp t feer).1 := by
  unfold verify
  cases hck : checkTxConflicts mp t feer with
  | mk mp1 r =>
    cases r with
    | error e0 =>
      have := checkTxConflicts_err hw hi t feer hck
      subst this
      exact ⟨CacheOnly.refl _ _ _, hi⟩
    | ok rm =>
      obtain ⟨actual, hmp1, hent, hcase, _⟩ := checkTxConflicts_ok hw hi ht feer hF hck
      simp only
      constructor
      · rw [hmp1]
        refine ⟨rfl, rfl, rfl, rfl, rfl, rfl, rfl, ?_, SameAux.refl _⟩
        rcases hcase with h | ⟨h1, h2⟩
        · exact Or.inl (upd_self_eq _ _ _ h)
        · exact Or.inr ⟨h1, by rw [h2]⟩
      · rw [hmp1]; exact inv_fees_upd hi _ _ hent

/-! ### RemoveStale -/

theorem tryAddSendersFee_check {L : List Tx} (mp : Pool) (t : Tx) (feer : Feer) (hF : FeerOk feer)
    (hf : FeesOk L mp.fees) :
    ((tryAddSendersFee mp t feer true).2 = true → FeesOk (L ++ [t]) (tryAddSendersFee mp t feer true).1.fees) ∧
    ((tryAddSendersFee mp t feer true).2 = false → FeesOk L (tryAddSendersFee mp t feer true).1.fees) ∧
    (tryAddSendersFee mp t feer true).1.txs = mp.txs ∧ (tryAddSendersFee mp t feer true).1.vmap = mp.vmap ∧
    (tryAddSendersFee mp t feer true).1.conflicts = mp.conflicts ∧
    (tryAddSendersFee mp t feer true).1.oracleResp = mp.oracleResp ∧
    (tryAddSendersFee mp t feer true).1.capacity = mp.capacity ∧
    (tryAddSendersFee mp t feer true).1.feePerByte = mp.feePerByte ∧
    (tryAddSendersFee mp t feer true).1.panicked = mp.panicked := by
  obtain ⟨hent, hcase⟩ := getPayerFee_entry hf (payerOf t) feer hF
  unfold tryAddSendersFee
  simp only [if_true]
  generalize hpf : (getPayerFee (payerOf t) mp.fees feer).1 = pf at *
  -- the pool after the cache fill
  have hf0 : ∀ (b : Bool), FeesOk L (if b then { mp with fees := upd mp.fees (payerOf t) (some pf) } else mp).fees := by
    intro b; cases b
    · exact hf
    · exact feesOk_upd hf _ _ hent
  have hfe0 : ∀ (b : Bool), (b = false → mp.fees (payerOf t) = some pf) →
      (if b then { mp with fees := upd mp.fees (payerOf t) (some pf) } else mp).fees (payerOf t) = some pf := by
    intro b hb; cases b
    · exact hb rfl
    · exact upd_same _ _ _
  have hb : (!(getPayerFee (payerOf t) mp.fees feer).2) = false → mp.fees (payerOf t) = some pf := by
    intro h
    rcases hcase with ⟨_, h2⟩ | ⟨h1, _, _⟩
    · exact h2
    · rw [h1] at h; cases h
  generalize (!(getPayerFee (payerOf t) mp.fees feer).2) = b at *
  have hF := hf0 b
  have hE := hfe0 b hb
  unfold checkBalance
  simp only
  by_cases c1 : pf.balance < t.fee
  · simp only [c1, if_true]
    refine ⟨fun x => Bool.noConfusion x, fun _ => hF, ?_⟩
    cases b <;> exact ⟨rfl, rfl, rfl, rfl, rfl, rfl, rfl⟩
  · simp only [c1, if_false]
    have hadd : addW t.fee pf.feeSum = t.fee + pf.feeSum := by
      apply addW_eq
      have h' := hent
      simp only [FeeEntry] at h'
      have := two_H256; omega
    rw [hadd]
    by_cases c2 : pf.balance < t.fee + pf.feeSum
    · simp only [c2, if_true]
      refine ⟨fun x => Bool.noConfusion x, fun _ => hF, ?_⟩
      cases b <;> exact ⟨rfl, rfl, rfl, rfl, rfl, rfl, rfl⟩
    · simp only [c2, if_false]
      refine ⟨fun _ => ?_, fun x => Bool.noConfusion x, ?_⟩
      · have := feesOk_insert (L' := L ++ [t]) t hF pf hE (by omega)
          (by intro q; rw [sumFees_append]; simp only [sumFees]; omega)
        rw [Nat.add_comm] at this
        cases b
        · exact this
        · simp only [if_true] at this ⊢
          have hupd : upd (upd mp.fees (payerOf t) (some pf)) (payerOf t) (some { pf with feeSum := t.fee + pf.feeSum })
              = upd (upd mp.fees (payerOf t) (some pf)) (payerOf t) (some { balance := pf.balance, feeSum := t.fee + pf.feeSum }) := rfl
          exact this
      · cases b <;> exact ⟨rfl, rfl, rfl, rfl, rfl, rfl, rfl⟩

theorem filter_middle_ne (acc rest : List Tx) (itm : Tx) (hnd : ((acc ++ itm :: rest).map (·.id)).Nodup) :
    (acc ++ itm :: rest).filter (fun t => t.id != itm.id) = acc ++ rest := by
  rw [List.map_append, List.map_cons, List.nodup_append] at hnd
  obtain ⟨_, h2, hdis⟩ := hnd
  rw [List.nodup_cons] at h2
  rw [List.filter_append, List.filter_cons]
  have h1 : acc.filter (fun t => t.id != itm.id) = acc := by
    apply filter_ne_id_of_not_mem
    intro hin
    exact hdis itm.id hin itm.id (by simp) rfl
  have h3 : rest.filter (fun t => t.id != itm.id) = rest := filter_ne_id_of_not_mem _ _ h2.1
  simp [h1, h3]

/-- state of the `RemoveStale` loop: `acc` = kept so far, `rest` = still to be examined -/
structure LoopInv (U : Tx → Prop) (acc rest : List Tx) (mp : Pool) : Prop where
  list : ListOk U (acc ++ rest)
  vmap : VmapOk (acc ++ rest) mp.vmap
  orc : OrcOk (acc ++ rest) mp.oracleResp
  conf : ConfOk acc mp.conflicts
  fees : FeesOk acc mp.fees
  noPanic : mp.panicked = false

theorem loopInv_drop {U : Tx → Prop} (hw : WF U) {acc rest : List Tx} {itm : Tx} {mp : Pool}
    (h : LoopInv U acc (itm :: rest) mp) : LoopInv U acc rest (dropEntry mp itm) := by
  have hm : itm ∈ acc ++ itm :: rest := by simp
  have hfl := filter_middle_ne acc rest itm h.list.nodup
  refine ⟨?_, ?_, ?_, h.conf, h.fees, h.noPanic⟩
  · apply h.list.sublist
    exact List.Sublist.append (List.Sublist.refl _) (List.sublist_cons_self _ _)
  · have := vmapOk_remove h.vmap itm.id
    rw [hfl] at this; exact this
  · have := orcOk_remove hw h.list h.orc itm hm
    rw [hfl] at this; exact this

theorem staleLoop_spec {U : Tx → Prop} (hw : WF U) (isOK : Tx → Bool) (feer : Feer) (hF : FeerOk feer) (pc : Bool) :
    ∀ (rest : List Tx) (mp : Pool) (acc : List Tx), LoopInv U acc rest mp →
      LoopInv U (staleLoop isOK feer pc rest mp acc).2 [] (staleLoop isOK feer pc rest mp acc).1 ∧
      (staleLoop isOK feer pc rest mp acc).2.Sublist (acc ++ rest) ∧
      (staleLoop isOK feer pc rest mp acc).1.capacity = mp.capacity ∧
      (staleLoop isOK feer pc rest mp acc).1.feePerByte = mp.feePerByte := by
  intro rest
  induction rest with
  | nil =>
    intro mp acc h
    simp only [staleLoop]
    exact ⟨h, by simp, trivial, trivial⟩
  | cons itm rest ih =>
    intro mp acc h
    have hdrop : LoopInv U acc rest (dropEntry mp itm) := loopInv_drop hw h
    have hsub : (acc ++ rest).Sublist (acc ++ itm :: rest) :=
      List.Sublist.append (List.Sublist.refl _) (List.sublist_cons_self _ _)
    simp only [staleLoop]
    by_cases hk : (isOK itm && checkPolicy mp itm pc) = true
    · rw [if_pos hk]
      obtain ⟨c1, c2, c3, c4, c5, c6, c7, c8, c9⟩ := tryAddSendersFee_check (L := acc) mp itm feer hF h.fees
      cases hres : tryAddSendersFee mp itm feer true with
      | mk mp' b =>
        rw [hres] at c1 c2 c3 c4 c5 c6 c7 c8 c9
        cases b with
        | true =>
          simp only
          have hitm : U itm := h.list.inU itm (by simp)
          have hfresh : ∀ e ∈ acc, e.id ≠ itm.id := by
            intro e he hid
            have hnd := h.list.nodup
            rw [List.map_append, List.map_cons, List.nodup_append] at hnd
            exact hnd.2.2 e.id (List.mem_map_of_mem he) itm.id (by simp) hid
          have hL : LoopInv U (acc ++ [itm]) rest
              { mp' with conflicts := addConflictEntries mp'.conflicts itm.id itm.conflicts
                         resent := if dueForResend mp'.resendThreshold feer.height (mp'.stamp itm.id)
                           then mp'.resent ++ [(itm.id, mp'.data itm.id)] else mp'.resent } := by
            have heq : acc ++ [itm] ++ rest = acc ++ itm :: rest := by simp
            refine ⟨by rw [heq]; exact h.list, by rw [heq]; show VmapOk _ mp'.vmap; rw [c4]; exact h.vmap,
              by rw [heq]; show OrcOk _ mp'.oracleResp; rw [c6]; exact h.orc, ?_, c1 rfl, by show mp'.panicked = false; rw [c9]; exact h.noPanic⟩
            show ConfOk (acc ++ [itm]) (addConflictEntries mp'.conflicts itm.id itm.conflicts)
            rw [c5]
            apply confOk_insert itm h.conf _ (hw.confNodup itm hitm) hfresh
            intro x; rw [List.mem_append, List.mem_singleton]; exact Or.comm
          obtain ⟨r1, r2, r3, r4⟩ := ih _ _ hL
          refine ⟨r1, ?_, r3.trans c7, r4.trans c8⟩
          have heq : acc ++ [itm] ++ rest = acc ++ itm :: rest := by simp
          rw [heq] at r2; exact r2
        | false =>
          simp only
          have hL : LoopInv U acc rest (dropEntry mp' itm) := by
            have h' : LoopInv U acc (itm :: rest) mp' :=
              ⟨h.list, by rw [c4]; exact h.vmap, by rw [c6]; exact h.orc, by rw [c5]; exact h.conf, c2 rfl,
               by rw [c9]; exact h.noPanic⟩
            exact loopInv_drop hw h'
          obtain ⟨r1, r2, r3, r4⟩ := ih _ _ hL
          exact ⟨r1, r2.trans hsub, r3.trans c7, r4.trans c8⟩
    · rw [if_neg hk]
      obtain ⟨r1, r2, r3, r4⟩ := ih _ _ hdrop
      exact ⟨r1, r2.trans hsub, r3, r4⟩

theorem inv_removeStale {U : Tx → Prop} (hw : WF U) {mp : Pool} (hi : Inv U mp) (isOK : Tx → Bool) (feer : Feer)
    (hF : FeerOk feer) :
    Inv U (removeStale mp isOK feer) ∧ (removeStale mp isOK feer).txs.Sublist mp.txs ∧
      (removeStale mp isOK feer).capacity = mp.capacity := by
  unfold removeStale
  simp only
  have hlp : (loadPolicy mp feer).1.txs = mp.txs ∧ (loadPolicy mp feer).1.vmap = mp.vmap ∧
      (loadPolicy mp feer).1.oracleResp = mp.oracleResp ∧ (loadPolicy mp feer).1.capacity = mp.capacity ∧
      (loadPolicy mp feer).1.panicked = mp.panicked := by
    unfold loadPolicy; split <;> exact ⟨rfl, rfl, rfl, rfl, rfl⟩
  obtain ⟨l1, l2, l3, l4, l5⟩ := hlp
  have h0 : LoopInv U [] (loadPolicy mp feer).1.txs
      { (loadPolicy mp feer).1 with fees := fun _ => none, conflicts := fun _ => none, resent := [] } := by
    rw [l1]
    refine ⟨by simpa using hi.list, ?_, ?_, ?_, ?_, ?_⟩
    · show VmapOk ([] ++ mp.txs) (loadPolicy mp feer).1.vmap
      rw [l2]; simpa using hi.vmap
    · show OrcOk ([] ++ mp.txs) (loadPolicy mp feer).1.oracleResp
      rw [l3]; simpa using hi.orc
    · intro h; simp [ConfEntry]
    · intro q; simp [FeeEntry, sumFees]
    · show (loadPolicy mp feer).1.panicked = false
      rw [l5]; exact hi.noPanic
  obtain ⟨r1, r2, r3, r4⟩ := staleLoop_spec hw isOK feer hF (loadPolicy mp feer).2 (loadPolicy mp feer).1.txs _ [] h0
  simp only [List.nil_append] at r1 r2
  have r2' := r2.trans (by rw [l1]; exact List.Sublist.refl _ : (loadPolicy mp feer).1.txs.Sublist mp.txs)
  have hc := r3.trans l4
  obtain ⟨a, b, c, d, e, f⟩ := r1
  simp only [List.append_nil] at a b c
  exact ⟨⟨f, Nat.le_trans r2'.length_le (hc.symm ▸ hi.cap), a, b, d, c, e⟩, r2', hc⟩

/-! ### the resend bookkeeping of RemoveStale -/

theorem tryAdd_aux (mp : Pool) (t : Tx) (feer : Feer) (b : Bool) :
    (tryAddSendersFee mp t feer b).1.stamp = mp.stamp ∧
    (tryAddSendersFee mp t feer b).1.resendThreshold = mp.resendThreshold ∧
    (tryAddSendersFee mp t feer b).1.resent = mp.resent ∧
    (tryAddSendersFee mp t feer b).1.data = mp.data := by
  unfold tryAddSendersFee
  simp only
  repeat' split
  all_goals exact ⟨rfl, rfl, rfl, rfl⟩

/-- the resend log of the `RemoveStale` loop: exactly the kept items that are due, in list order,
each with the data it was added with -/
theorem staleLoop_resent (isOK : Tx → Bool) (feer : Feer) (pc : Bool) (thr : Nat) (st dt : Nat → Nat) :
    ∀ (rest : List Tx) (mp : Pool) (acc : List Tx), mp.resendThreshold = thr → mp.stamp = st → mp.data = dt →
      mp.resent = (acc.filter (fun t => dueForResend thr feer.height (st t.id))).map (fun t => (t.id, dt t.id)) →
      (staleLoop isOK feer pc rest mp acc).1.resent
        = ((staleLoop isOK feer pc rest mp acc).2.filter (fun t => dueForResend thr feer.height (st t.id))).map
            (fun t => (t.id, dt t.id)) ∧
      (staleLoop isOK feer pc rest mp acc).1.resendThreshold = thr ∧
      (staleLoop isOK feer pc rest mp acc).1.stamp = st ∧
      (staleLoop isOK feer pc rest mp acc).1.data = dt := by
  intro rest
  induction rest with
  | nil => intro mp acc h1 h2 h4 h3; simp only [staleLoop]; exact ⟨h3, h1, h2, h4⟩
  | cons itm rest ih =>
    intro mp acc h1 h2 h4 h3
    simp only [staleLoop]
    split
    · obtain ⟨a1, a2, a3, a4⟩ := tryAdd_aux mp itm feer true
      cases hres : tryAddSendersFee mp itm feer true with
      | mk mp' b =>
        rw [hres] at a1 a2 a3 a4
        cases b with
        | true =>
          simp only
          apply ih
          · exact a2.trans h1
          · exact a1.trans h2
          · exact a4.trans h4
          · show (if dueForResend mp'.resendThreshold feer.height (mp'.stamp itm.id) = true
                then mp'.resent ++ [(itm.id, mp'.data itm.id)] else mp'.resent) = _
            have e1 : mp'.resendThreshold = thr := a2.trans h1
            have e2 : mp'.stamp = st := a1.trans h2
            have e3 : mp'.resent = _ := a3.trans h3
            have e4 : mp'.data = dt := a4.trans h4
            rw [e1, e2, e3, e4, List.filter_append, List.map_append]
            by_cases hd : dueForResend thr feer.height (st itm.id) = true
            · simp [hd]
            · simp [hd]
        | false =>
          simp only
          exact ih _ _ (a2.trans h1) (a1.trans h2) (a4.trans h4) (a3.trans h3)
    · exact ih _ _ h1 h2 h4 h3

/-- `RemoveStale` calls the resend callback exactly for the kept transactions whose age is
`resendThreshold * 2^k` blocks, in list order, with the item's data (and for nothing when the threshold is 0). -/
theorem removeStale_resent (mp : Pool) (isOK : Tx → Bool) (feer : Feer) :
    (removeStale mp isOK feer).resent
      = ((removeStale mp isOK feer).txs.filter
          (fun t => dueForResend mp.resendThreshold feer.height (mp.stamp t.id))).map (fun t => (t.id, mp.data t.id)) ∧
    (removeStale mp isOK feer).resendThreshold = mp.resendThreshold ∧
    (removeStale mp isOK feer).stamp = mp.stamp ∧
    (removeStale mp isOK feer).data = mp.data := by
  unfold removeStale
  simp only
  have hlp : (loadPolicy mp feer).1.resendThreshold = mp.resendThreshold ∧ (loadPolicy mp feer).1.stamp = mp.stamp ∧
      (loadPolicy mp feer).1.data = mp.data := by
    unfold loadPolicy; split <;> exact ⟨rfl, rfl, rfl⟩
  exact staleLoop_resent isOK feer (loadPolicy mp feer).2 mp.resendThreshold mp.stamp mp.data _ _ [] hlp.1 hlp.2.1 hlp.2.2 rfl

end NeoModel.Mempool
