/-
C03 helper lemmas (1): the option word and the stack of cache layers of System.Storage.Find.
-/
import NeoModel.Model.StateCommit.Find
import NeoModel.Proofs.StoreSeekSpec
namespace NeoModel.StateCommit.Find
open NeoModel.Store
open NeoModel.Generated

/-! ### option word -/

theorem int64Bits_lt (x : Int) : int64Bits x < 2 ^ 64 := by
  unfold int64Bits
  simp only
  split <;> exact Nat.mod_lt _ (by decide)

theorem int64Bits_of_small (x : Int) (h0 : 0 ≤ x) (h1 : x < 2 ^ 64) : int64Bits x = x.toNat := by
  unfold int64Bits
  simp only
  have : ¬ x < 0 := by omega
  rw [if_neg this]
  have : x.natAbs = x.toNat := by omega
  rw [this]
  apply Nat.mod_eq_of_lt
  omega

/-- a pattern with a bit above the low byte fails the unknown-flag check. -/
theorem checkOpts_high (u : Nat) (h1 : 256 ≤ u) (h2 : u < 2 ^ 64) : checkOpts u = some 1 := by
  unfold checkOpts
  have hne : (u &&& (2 ^ 64 - 1 - FindOpts.findAll)) ≠ 0 := by
    intro h0
    have h8 : (u &&& (2 ^ 64 - 1 - FindOpts.findAll)) >>> 8 = 0 := by rw [h0]; rfl
    rw [Nat.shiftRight_and_distrib] at h8
    have hm : (2 ^ 64 - 1 - FindOpts.findAll) >>> 8 = 2 ^ 56 - 1 := by decide
    rw [hm, Nat.and_two_pow_sub_one_eq_mod, Nat.shiftRight_eq_div_pow] at h8
    have : u / 2 ^ 8 < 2 ^ 56 := by
      apply Nat.div_lt_of_lt_mul
      calc u < 2 ^ 64 := h2
        _ = 2 ^ 8 * 2 ^ 56 := by decide
    rw [Nat.mod_eq_of_lt this] at h8
    have : 1 ≤ u / 2 ^ 8 := by
      apply (Nat.le_div_iff_mul_le (by decide)).mpr
      simpa using h1
    omega
  simp [hne]

/-- the model's check agrees with the truth table regenerated from find.go on every option byte. -/
def tableOK : Bool :=
  (List.range 256).all fun u =>
    checkOpts u == (if FindOpts.firstFailing[u]! = 0 then none else some FindOpts.firstFailing[u]!)

theorem tableOK_true : tableOK = true := by decide +kernel

theorem checkOpts_table (u : Nat) (h : u < 256) :
    checkOpts u = (if FindOpts.firstFailing[u]! = 0 then none else some FindOpts.firstFailing[u]!) := by
  have := tableOK_true
  unfold tableOK at this
  rw [List.all_eq_true] at this
  exact eq_of_beq (this u (List.mem_range.mpr h))

/-! ### the layers -/

def overlays : List Layer → SpecMap → SpecMap
  | [], f => f
  | L :: Ls, f => overlay L (overlays Ls f)

theorem lowerRange_depth0 (rng : SeekRange) (h : rng.depth = 0) : lowerRange rng = rng := by
  unfold lowerRange; simp [h]

/-- a stack of well-formed cache layers over a correct backend enumerates the overlaid map. -/
theorem layersSeek_spec (base : SeekRange → List KV) (f : SpecMap)
    (hb : ∀ rng : SeekRange, rng.pfx ≠ [] → rng.depth = 0 → IsSpecSeek f rng (base rng))
    (Ls : List Layer) (hw : ∀ L ∈ Ls, L.WF) (rng : SeekRange) (hp : rng.pfx ≠ []) (hd : rng.depth = 0) :
    IsSpecSeek (overlays Ls f) rng (layersSeek base Ls rng) := by
  induction Ls with
  | nil => exact hb rng hp hd
  | cons L Ls ih =>
    simp only [layersSeek, overlays]
    rw [performSeek_eq, capped_zero, cutAll_false, lowerRange_depth0 rng hd]
    simp only [hd, beq_self_eq_true, Bool.true_or, if_true]
    exact seek_layer L (hw L (by simp)) rng hp _ _ (ih (fun L' h' => hw L' (by simp [h'])))

/-- what SeekAsync(cutPrefix) delivers: the same enumeration with `len(Prefix)` bytes cut off. -/
theorem layersSeekAsync_eq (base : SeekRange → List KV) (L : Layer) (Ls : List Layer) (rng : SeekRange) :
    layersSeekAsync base (L :: Ls) rng =
      (layersSeek base (L :: Ls) rng).map fun e => (e.1.drop rng.pfx.length, e.2) := by
  simp only [layersSeekAsync, layersSeek]
  rw [performSeek_eq, performSeek_eq, capped_zero, capped_zero, cutAll_false]
  simp [cutAll, cutKey]

end NeoModel.StateCommit.Find
