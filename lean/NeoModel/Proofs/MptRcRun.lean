/-
C11 helper lemmas: whole blocks and histories — exactness by induction over blocks, retained roots
under GC.
-/
import NeoModel.Model.MptRc
import NeoModel.Proofs.MptRcExact
set_option linter.unusedSimpArgs false
namespace NeoModel.MptRc
open NeoModel.Mpt

/-! ### one block = a list of sub-operations -/

theorem applyEvs_append (H : Bytes → Bytes) (m : RcMap) (a b : Evs) :
    applyEvs H m (a ++ b) = applyEvs H (applyEvs H m a) b := by
  simp [applyEvs, List.foldl_append]

theorem trieAfter_cons (t : Node) (o : SubOp) (r : List SubOp) :
    trieAfter t (o :: r) = trieAfter (subTrie t o) r := by
  cases o <;> simp [trieAfter, subTrie]

theorem fold_applySub (H : Bytes → Bytes) (ops : List SubOp) : ∀ (t : Node) (m : RcMap),
    ops.foldl (applySub H) (t, m) = (trieAfter t ops, applyEvs H m (blockEvs t ops)) := by
  induction ops with
  | nil => intro t m; simp [trieAfter, blockEvs, applyEvs]
  | cons o r ih =>
    intro t m
    rw [List.foldl_cons, trieAfter_cons, blockEvs, applyEvs_append]
    have : applySub H (t, m) o = (subTrie t o, applyEvs H m (subEvs t o)) := by
      cases o <;> rfl
    rw [this, ih]

theorem occ_sub (P : Node → Bool) (t : Node) (o : SubOp) :
    (occ P (subTrie t o) : Int) = occ P t + net P (subEvs t o) := by
  cases o with
  | put k v => exact occ_put P t k v
  | del k => exact occ_delete P t k
  | batch m => exact occ_putBatch P t _

/-- C11.1 for a whole block. -/
theorem occ_block (P : Node → Bool) (ops : List SubOp) : ∀ t,
    (occ P (trieAfter t ops) : Int) = occ P t + net P (blockEvs t ops) := by
  induction ops with
  | nil => intro t; simp [trieAfter, blockEvs, net_nil]
  | cons o r ih =>
    intro t
    rw [trieAfter_cons, blockEvs, net_append, ih, occ_sub]
    omega

/-! ### keys of the store stay distinct -/

def skeys (s : Store) : List Bytes := s.map (·.1)

def StoreND (s : Store) : Prop := (skeys s).Nodup

theorem skeys_sdel (s : Store) (k : Bytes) : skeys (sdel s k) = (skeys s).filter (· ≠ k) := by
  induction s with
  | nil => rfl
  | cons e s ih =>
    obtain ⟨a, c⟩ := e
    simp only [sdel, skeys, List.filter, List.map_cons] at ih ⊢
    by_cases ha : a = k
    · simp [ha]; simpa using ih
    · simp [ha]; simpa using ih

theorem mem_skeys_sins (k : Bytes) (c : Cell) (s : Store) (x : Bytes) :
    x ∈ skeys (sins k c s) ↔ x = k ∨ x ∈ skeys s := by
  induction s with
  | nil => simp [sins, skeys]
  | cons e s ih =>
    obtain ⟨a, c'⟩ := e
    simp only [sins]
    split
    · simp only [skeys, List.map_cons, List.mem_cons] at ih ⊢
      rw [ih]
      constructor
      · rintro (h | h | h)
        · exact Or.inr (Or.inl h)
        · exact Or.inl h
        · exact Or.inr (Or.inr h)
      · rintro (h | h | h)
        · exact Or.inr (Or.inl h)
        · exact Or.inl h
        · exact Or.inr (Or.inr h)
    · simp [skeys]

theorem nd_sins (k : Bytes) (c : Cell) (s : Store) (hn : StoreND s) (hk : k ∉ skeys s) : StoreND (sins k c s) := by
  induction s with
  | nil => simp [sins, StoreND, skeys]
  | cons e s ih =>
    obtain ⟨a, c'⟩ := e
    have hn' := List.nodup_cons.mp hn
    simp only [skeys, List.map_cons, List.mem_cons, not_or] at hk
    simp only [sins]
    split
    · refine List.nodup_cons.mpr ⟨?_, ih hn'.2 hk.2⟩
      intro hm
      rcases (mem_skeys_sins k c s a).mp hm with h | h
      · exact hk.1 h.symm
      · exact hn'.1 h
    · refine List.nodup_cons.mpr ⟨?_, hn⟩
      simp only [List.map_cons, List.mem_cons, not_or]
      exact hk

theorem nd_setCell (s : Store) (h : Bytes) (oc : Option Cell) (hn : StoreND s) : StoreND (setCell s h oc) := by
  have hd : StoreND (sdel s h) := by
    simp only [StoreND, skeys_sdel]
    exact List.Nodup.sublist List.filter_sublist hn
  cases oc with
  | none => exact hd
  | some c =>
    simp only [setCell, sput]
    apply nd_sins _ _ _ hd
    simp [skeys_sdel]

theorem nd_flush (mode : Mode) (idx : Nat) : ∀ (m : RcMap) (s : Store) (m' : RcMap) (s' : Store),
    StoreND s → flush mode idx m s = some (m', s') → StoreND s' := by
  intro m
  induction m with
  | nil => intro s m' s' hn hf; simp [flush] at hf; rw [← hf.2]; exact hn
  | cons x rest ih =>
    intro s m' s' hn hf
    obtain ⟨h, e⟩ := x
    simp only [flush] at hf
    cases hs : estep mode idx (sget s h) e with
    | none => simp [hs] at hf
    | some r =>
      obtain ⟨oc, oe⟩ := r
      simp only [hs] at hf
      cases hf2 : flush mode idx rest (setCell s h oc) with
      | none => simp [hf2] at hf
      | some r2 =>
        obtain ⟨m2, s2⟩ := r2
        simp only [hf2, Option.some.injEq, Prod.mk.injEq] at hf
        rw [← hf.2]
        exact ih _ _ _ (nd_setCell s h oc hn) hf2

theorem sget_filter (p : Bytes × Cell → Bool) (s : Store) (hn : StoreND s) (k : Bytes) :
    sget (s.filter p) k = (sget s k).bind (fun c => if p (k, c) then some c else none) := by
  induction s with
  | nil => rfl
  | cons e s ih =>
    obtain ⟨a, c⟩ := e
    have hn' := List.nodup_cons.mp hn
    by_cases ha : a = k
    · subst ha
      have hnone : sget s a = none := by
        clear ih
        induction s with
        | nil => rfl
        | cons y ys ihy =>
          obtain ⟨b, cb⟩ := y
          simp only [skeys, List.map_cons, List.mem_cons, not_or] at hn'
          have hb : ¬ b = a := fun e => hn'.1.1 e.symm
          simp only [sget, hb, if_false]
          exact ihy (List.nodup_cons.mpr ⟨hn'.1.2, (List.nodup_cons.mp hn'.2).2⟩)
            ⟨hn'.1.2, (List.nodup_cons.mp hn'.2).2⟩
      cases hp : p (a, c) with
      | true => simp [List.filter, hp, sget]
      | false =>
        simp only [List.filter, hp, sget, if_true, Option.bind_some]
        rw [ih hn'.2, hnone]; rfl
    · cases hp : p (a, c) with
      | true => simp [List.filter, hp, sget, ha, ih hn'.2]
      | false => simp [List.filter, hp, sget, ha, ih hn'.2]

theorem nd_gc (g : Nat) (s : Store) (hn : StoreND s) : StoreND (gc g s) := by
  simp only [StoreND, skeys, gc]
  exact List.Nodup.sublist (List.Sublist.map _ List.filter_sublist) hn

/-- `GC(g)` per key: an inactive record with height ≤ g disappears, everything else stays. -/
theorem sget_gc (g : Nat) (s : Store) (hn : StoreND s) (k : Bytes) :
    sget (gc g s) k =
      match sget s k with
      | some (.rc b false n) => if g < n then some (.rc b false n) else none
      | c => c := by
  simp only [gc]
  rw [sget_filter _ s hn k]
  cases hc : sget s k with
  | none => rfl
  | some c =>
    cases c with
    | plain b => simp
    | rc b a n => cases a <;> simp

/-! ### retained roots -/

/-- a record that still serves a root of height `hi`: active, or deactivated later than `hi`. -/
def KeptCell (hi : Nat) : Option Cell → Prop
  | some (.rc _ true _) => True
  | some (.rc _ false k) => hi < k
  | _ => False

/-- every node of the trie `t` (the root of height `hi`) is still in the store. -/
def Kept (H : Bytes → Bytes) (s : Store) (t : Node) (hi : Nat) : Prop :=
  ∀ h, 0 < occH H t h → KeptCell hi (sget s h)

theorem kept_of_exact {H : Bytes → Bytes} {mode : Mode} {s : Store} {t : Node} (hx : Exact H mode s t)
    (hi : Nat) : Kept H s t hi := by
  intro h hpos
  have := hx.count h
  simp only [activeCnt] at this
  cases hc : sget s h with
  | none => rw [hc] at this; simp [actC] at this; omega
  | some c =>
    rw [hc] at this
    cases c with
    | plain b => simp [actC] at this; omega
    | rc b a n =>
      cases a with
      | true => trivial
      | false => simp [actC] at this; omega

theorem kept_move {H : Bytes → Bytes} {mode : Mode} (hgc : mode.gcF = true) {s s' : Store} {t : Node} {hi idx : Nat}
    (hk : Kept H s t hi) (hm : ∀ k, CellMove mode idx (sget s k) (sget s' k)) (hlt : hi < idx) :
    Kept H s' t hi := by
  intro h hpos
  have h0 := hk h hpos
  rcases hm h with he | ⟨b, n, he⟩ | ⟨_, b, he⟩ | ⟨hf, _⟩
  · rw [he]; exact h0
  · rw [he]; trivial
  · rw [he]; exact hlt
  · rw [hgc] at hf; cases hf

theorem kept_gc {H : Bytes → Bytes} {s : Store} (hn : StoreND s) {t : Node} {hi g : Nat}
    (hk : Kept H s t hi) (hle : g ≤ hi) : Kept H (gc g s) t hi := by
  intro h hpos
  have h0 := hk h hpos
  rw [sget_gc g s hn h]
  cases hc : sget s h with
  | none => rw [hc] at h0; exact h0
  | some c =>
    rw [hc] at h0
    cases c with
    | plain b => exact h0
    | rc b a n =>
      cases a with
      | true => exact h0
      | false =>
        simp only [KeptCell] at h0
        have : g < n := by omega
        simp [this, KeptCell, h0]

theorem activeCnt_gc (g : Nat) (s : Store) (hn : StoreND s) (k : Bytes) : activeCnt (gc g s) k = activeCnt s k := by
  simp only [activeCnt, sget_gc g s hn k]
  cases hc : sget s k with
  | none => rfl
  | some c =>
    cases c with
    | plain b => rfl
    | rc b a n =>
      cases a with
      | true => rfl
      | false => by_cases hg : g < n <;> simp [hg, actC]

theorem sget_gc_some {g : Nat} {s : Store} (hn : StoreND s) {k : Bytes} {c : Cell}
    (h : sget (gc g s) k = some c) : sget s k = some c := by
  rw [sget_gc g s hn k] at h
  cases hc : sget s k with
  | none => rw [hc] at h; cases h
  | some c0 =>
    rw [hc] at h
    cases c0 with
    | plain b => exact h
    | rc b a n =>
      cases a with
      | true => exact h
      | false =>
        by_cases hg : g < n
        · simpa [hg] using h
        · simp [hg] at h

/-! ### histories -/

/-- the invariant of a history in a reference-counting mode. -/
structure Inv (H : Bytes → Bytes) (mode : Mode) (top : Option Nat) (s : St) : Prop where
  mode_eq : s.mode = mode
  good : MapGood H s.rc s.store
  exact : Exact H mode s.store s.root
  nd : StoreND s.store
  tops : ∀ e ∈ s.hist, ∃ tp, top = some tp ∧ e.1 ≤ tp
  kept : mode.gcF = true → ∀ e ∈ s.hist, s.gcAt ≤ e.1 → Kept H s.store e.2 e.1

theorem occH_empty (H : Bytes → Bytes) (h : Bytes) : occH H .empty h = 0 := rfl

theorem inv_init (H : Bytes → Bytes) (mode : Mode) : Inv H mode none { mode := mode } where
  mode_eq := rfl
  good := ⟨List.nodup_nil, fun _ _ h => by simp [mget] at h, fun _ _ h => by simp [mget] at h,
    fun _ _ h => by simp [mget] at h⟩
  exact := ⟨fun h => by simp [activeCnt, sget, actC, occH_empty], fun _ _ h => by simp [sget] at h,
    fun _ _ h => by simp [sget] at h⟩
  nd := List.nodup_nil
  tops := fun e he => by simp at he
  kept := fun _ e he => by simp at he

theorem commit_inv (H : Bytes → Bytes) (mode : Mode) (hrc : mode.rc = true) (top : Option Nat) (s : St)
    (idx : Nat) (ops : List SubOp) (hinv : Inv H mode top s) (hh : ∀ h, top = some h → h < idx) :
    ∃ s', commit H s idx ops = some s' ∧ Inv H mode (some idx) s' ∧
      s'.root = trieAfter s.root ops ∧ s'.hist = (idx, trieAfter s.root ops) :: s.hist ∧ s'.gcAt = s.gcAt ∧
      (∀ k, CellMove mode idx (sget s.store k) (sget s'.store k)) ∧
      (∀ k, ctag (sget s'.store k) = if net (hP H k) (blockEvs s.root ops) = 0 then ctag (sget s.store k)
        else tagAfter mode idx (occH H (trieAfter s.root ops) k)) := by
  have hocc : ∀ h, (occH H (trieAfter s.root ops) h : Int) = occH H s.root h + net (hP H h) (blockEvs s.root ops) :=
    fun h => occ_block (hP H h) ops s.root
  obtain ⟨m', st', hf, hg', hx', hmv, htag⟩ :=
    flush_exact H mode hrc idx s.rc s.store s.root (trieAfter s.root ops) (blockEvs s.root ops)
      hinv.good hinv.exact hocc
  have hcomp : compute H s idx ops = some (trieAfter s.root ops, m', st') := by
    simp only [compute, fold_applySub, hinv.mode_eq, hf]
  refine ⟨{ s with root := trieAfter s.root ops, rc := m', store := st',
                    roots := (idx, rootHash H (trieAfter s.root ops)) :: s.roots,
                    hist := (idx, trieAfter s.root ops) :: s.hist },
    by simp only [commit, hcomp], ?_, rfl, rfl, rfl, hmv, htag⟩
  refine ⟨hinv.mode_eq, hg', hx', nd_flush mode idx _ _ _ _ hinv.nd hf, ?_, ?_⟩
  · intro e he
    simp only [List.mem_cons] at he
    rcases he with rfl | he
    · exact ⟨idx, rfl, Nat.le_refl _⟩
    · obtain ⟨tp, htp, hle⟩ := hinv.tops e he
      exact ⟨idx, rfl, Nat.le_of_lt (Nat.lt_of_le_of_lt hle (hh tp htp))⟩
  · intro hgc e he hge
    simp only [List.mem_cons] at he
    rcases he with rfl | he
    · exact kept_of_exact hx' idx
    · obtain ⟨tp, htp, hle⟩ := hinv.tops e he
      exact kept_move hgc (hinv.kept hgc e he hge) hmv (Nat.lt_of_le_of_lt hle (hh tp htp))

theorem gc_inv (H : Bytes → Bytes) (mode : Mode) (top : Option Nat) (s : St) (g : Nat)
    (hinv : Inv H mode top s) : Inv H mode top (gcSt s g) where
  mode_eq := hinv.mode_eq
  good := ⟨hinv.good.nodup, hinv.good.ok, hinv.good.zero, fun k e he hne => by
    show activeCnt (gc g s.store) k = e.initial
    rw [activeCnt_gc g s.store hinv.nd k]; exact hinv.good.cache k e he hne⟩
  exact := ⟨fun h => by
      show activeCnt (gc g s.store) h = _
      rw [activeCnt_gc g s.store hinv.nd h]; exact hinv.exact.count h,
    fun h c hc => hinv.exact.shape h c (sget_gc_some hinv.nd hc),
    fun h c hc => hinv.exact.bytes h c (sget_gc_some hinv.nd hc)⟩
  nd := nd_gc g s.store hinv.nd
  tops := hinv.tops
  kept := fun hgc e he hge => by
    have h1 : s.gcAt ≤ e.1 := Nat.le_trans (Nat.le_max_left _ _) hge
    have h2 : g ≤ e.1 := Nat.le_trans (Nat.le_max_right _ _) hge
    exact kept_gc hinv.nd (hinv.kept hgc e he h1) h2

theorem reset_inv (H : Bytes → Bytes) (mode : Mode) (top : Option Nat) (s : St)
    (hinv : Inv H mode top s) : Inv H mode top (reset s) where
  mode_eq := hinv.mode_eq
  good := ⟨List.nodup_nil, fun _ _ h => by simp [reset, mget] at h, fun _ _ h => by simp [reset, mget] at h,
    fun _ _ h => by simp [reset, mget] at h⟩
  exact := hinv.exact
  nd := hinv.nd
  tops := hinv.tops
  kept := hinv.kept

end NeoModel.MptRc
