import NeoModel.Model.Vm
namespace NeoModel.Vm

/-! what `exec` can do to gas, state and invocation depth -/

theorem unwindCalls_len : ∀ (cs cs' : List CallCtx) (d : Bool) (t : Nat), unwindCalls cs = some (cs', d, t) →
    cs'.length ≤ cs.length ∧ 0 < cs'.length := by
  intro cs
  induction cs with
  | nil => intro cs' d t h; simp [unwindCalls] at h
  | cons c t ih =>
    intro cs' d tt h
    simp only [unwindCalls] at h
    split at h
    · have := ih cs' d tt h; simp; omega
    · split at h <;> (simp only [Option.some.injEq, Prod.mk.injEq] at h; rw [← h.1]; simp)

def depthOf (fs : List Frame) : Nat := (fs.map (·.calls.length)).sum

theorem unwindFrames_depth (ex : Item) : ∀ (fs fs' : List Frame) (d : Bool), unwindFrames ex fs = .ok (fs', d) →
    depthOf fs' ≤ depthOf fs ∧ fs' ≠ [] := by
  intro fs
  induction fs with
  | nil => intro fs' d h; simp [unwindFrames] at h
  | cons f t ih =>
    intro fs' d h
    simp only [unwindFrames] at h
    split at h
    · have := ih fs' d h; simp only [depthOf, List.map_cons, List.sum_cons] at this ⊢; exact ⟨by omega, this.2⟩
    · rename_i calls deliver target hu
      split at h
      · cases h
      · simp only [Except.ok.injEq, Prod.mk.injEq] at h
        have := unwindCalls_len _ _ _ _ hu
        rw [← h.1]
        simp only [depthOf, List.map_cons, List.sum_cons]
        exact ⟨by omega, by simp⟩

/-- the effect of one instruction on what matters for termination -/
structure Eff (v v' : Vm) : Prop where
  gas : v'.gas = v.gas
  limit : v'.gasLimit = v.gasLimit
  state : v'.state = v.state ∨ (v'.state = .halt ∧ v'.frames = [])
  depth : v'.depth ≤ v.depth + 1
  depthMax : maxInvocationStackSize ≤ v.depth → v'.depth ≤ v.depth

theorem raise_eff (v v' : Vm) (ex : Item) (h : v.raise ex = .ok v') : Eff v v' ∧ v'.depth ≤ v.depth := by
  simp only [Vm.raise, bind, Except.bind, pure, Except.pure] at h
  split at h
  · cases h
  · rename_i p hu
    obtain ⟨fs', d⟩ := p
    simp only [Except.ok.injEq] at h
    have := unwindFrames_depth ex v.frames fs' d hu
    subst h
    have hd : depthOf fs' ≤ depthOf v.frames := this.1
    exact ⟨⟨rfl, rfl, Or.inl rfl, by simp only [Vm.depth]; simp only [depthOf] at hd; omega,
      fun _ => by simp only [Vm.depth]; simp only [depthOf] at hd; omega⟩, by simp only [Vm.depth]; simp only [depthOf] at hd; omega⟩

end NeoModel.Vm

namespace NeoModel.Vm

theorem eff_of_frames (v v' : Vm) (hg : v'.gas = v.gas) (hl : v'.gasLimit = v.gasLimit) (hs : v'.state = v.state)
    (hd : v'.depth ≤ v.depth) : Eff v v' :=
  ⟨hg, hl, Or.inl hs, by omega, fun _ => hd⟩

theorem raise_case (vm v v' : Vm) (ex : Item) (h : vm.raise ex = .ok v') (hg : vm.gas = v.gas) (hl : vm.gasLimit = v.gasLimit)
    (hs : vm.state = v.state) (hd : vm.depth ≤ v.depth) : Eff v v' := by
  obtain ⟨e, hle⟩ := raise_eff vm v' ex h
  refine ⟨by rw [e.gas, hg], by rw [e.limit, hl], ?_, by omega, fun _ => by omega⟩
  rcases e.state with h1 | h1
  · exact Or.inl (by rw [h1, hs])
  · exact Or.inr h1

set_option maxHeartbeats 1600000 in
theorem exec_eff (v : Vm) (ins : Instr) (v' : Vm) (h : exec v ins = .ok v') : Eff v v' := by
  unfold exec at h
  split at h
  · cases h
  · rename_i f fs hf
    split at h
    · cases h
    · rename_i c cs hc
      have hdepth : v.depth = (cs.length + 1) + depthOf fs := by
        simp only [Vm.depth, hf, List.map_cons, List.sum_cons, hc, depthOf, List.length_cons]
      simp only [bind, Except.bind, pure, Except.pure, throw, throwThe, MonadExceptOf.throw] at h
      repeat' split at h
      all_goals first
        | (cases h; done)
        | (refine raise_case _ v v' _ h rfl rfl rfl ?_
           simp only [Vm.depth, List.map_cons, List.sum_cons, hc, hf, depthOf] at hdepth ⊢
           omega)
        | (simp only [Except.ok.injEq] at h
           subst h
           refine ⟨rfl, rfl, ?_, ?_, ?_⟩
           all_goals first
             | exact Or.inl rfl
             | exact Or.inr ⟨rfl, rfl⟩
             | (generalize v.depth = dv at *
                simp only [Vm.depth, List.map_cons, List.sum_cons, depthOf, List.length_cons, List.map_nil, List.sum_nil, hc] at *
                omega))

end NeoModel.Vm

namespace NeoModel.Vm

theorem decode_spec (p : Array UInt8) (ip : Nat) (ins : Instr) (h : decode p ip = .ok ins) :
    ins.ip = ip ∧ (ip < p.size → Op.ofByte ins.opByte = some ins.op) ∧ (¬ ip < p.size → ins.op = .ret) := by
  unfold decode at h
  split at h
  · rename_i hn
    simp only [Except.ok.injEq] at h
    subst h
    have : ¬ ip < p.size := by
      intro hl
      simp [hl] at hn
    exact ⟨rfl, fun hl => absurd hl this, fun _ => rfl⟩
  · rename_i b hb
    have hl : ip < p.size := by
      rcases Nat.lt_or_ge ip p.size with hl | hl
      · exact hl
      · simp [hl] at hb
    split at h
    · cases h
    · rename_i op hop
      simp only at h
      repeat' split at h
      all_goals first
        | (cases h; done)
        | (simp only [Except.ok.injEq] at h; subst h; exact ⟨rfl, fun _ => hop, fun hn => absurd hl hn⟩)

/-- RET either halts the machine or unloads one context -/
theorem exec_ret (v : Vm) (ins : Instr) (v' : Vm) (hop : ins.op = .ret) (h : exec v ins = .ok v') :
    (v'.state = .halt ∧ v'.frames = []) ∨ (v'.state = v.state ∧ v'.depth < v.depth) := by
  unfold exec at h
  split at h
  · cases h
  · rename_i f fs hf
    split at h
    · cases h
    · rename_i c cs hc
      have hdepth : v.depth = (cs.length + 1) + depthOf fs := by
        simp only [Vm.depth, hf, List.map_cons, List.sum_cons, hc, depthOf, List.length_cons]
      simp only [hop, pure, Except.pure] at h
      repeat' split at h
      all_goals first
        | (cases h; done)
        | (simp only [Except.ok.injEq] at h
           subst h
           first
             | exact Or.inl ⟨rfl, rfl⟩
             | (refine Or.inr ⟨rfl, ?_⟩
                generalize v.depth = dv at *
                simp only [Vm.depth, List.map_cons, List.sum_cons, depthOf, List.length_cons, List.map_nil, List.sum_nil, hc] at *
                omega))

theorem exec_nohandler (v : Vm) (ins : Instr) (hop : ins.op = .syscall ∨ ins.op = .abort ∨ ins.op = .abortMsg) :
    ∀ v', exec v ins ≠ .ok v' := by
  intro v' h
  unfold exec at h
  split at h
  · cases h
  · split at h
    · cases h
    · rcases hop with hop | hop | hop
      · simp only [hop] at h; cases h
      · simp only [hop, bind, Except.bind] at h
        have : ∀ p st hp, execPure .abort p st hp = .error "ABORT" := fun _ _ _ => rfl
        simp only [this] at h; cases h
      · simp only [hop, bind, Except.bind] at h
        have : ∀ p st hp, execPure .abortMsg p st hp = .error "ABORTMSG" := fun _ _ _ => rfl
        simp only [this] at h; cases h

end NeoModel.Vm

namespace NeoModel.Vm

/-- hypothesis on the price getter: every valid opcode except RET, SYSCALL, ABORT, ABORTMSG costs
at least one unit -/
structure PriceOk (p : UInt8 → Nat) : Prop where
  pos : ∀ b, (Op.ofByte b).isSome → b ≠ 0x40 → b ≠ 0x41 → b ≠ 0x38 → b ≠ 0xE0 → 1 ≤ p b

def mu (L : Nat) (v : Vm) : Nat := (L + 1 - v.gas) * (maxInvocationStackSize + 1) + v.depth

structure Good (L : Nat) (v : Vm) : Prop where
  limit : v.gasLimit = some L
  gas : v.state ≠ .fault → v.gas ≤ L
  depth : v.state = .none → v.depth ≤ maxInvocationStackSize
  nobrk : v.state ≠ .brk

theorem setIp_props (v : Vm) (ip : Nat) : (v.setIp ip).depth = v.depth ∧ (v.setIp ip).gas = v.gas ∧
    (v.setIp ip).gasLimit = v.gasLimit ∧ (v.setIp ip).state = v.state := by
  unfold Vm.setIp
  split
  · rename_i f fs hf
    split
    · rename_i c cs hc
      refine ⟨?_, rfl, rfl, rfl⟩
      simp only [Vm.depth, hf, List.map_cons, List.sum_cons, hc, List.length_cons]
    · exact ⟨rfl, rfl, rfl, rfl⟩
  · exact ⟨rfl, rfl, rfl, rfl⟩

theorem mu_paid {L g g' d d' : Nat} (hg : g + 1 ≤ g') (hl : g' ≤ L) (hd' : d' ≤ maxInvocationStackSize) :
    (L + 1 - g') * (maxInvocationStackSize + 1) + d' < (L + 1 - g) * (maxInvocationStackSize + 1) + d := by
  have h1 : (L + 1 - g') * (maxInvocationStackSize + 1) + (maxInvocationStackSize + 1) ≤ (L + 1 - g) * (maxInvocationStackSize + 1) := by
    have : L + 1 - g' + 1 ≤ L + 1 - g := by omega
    calc (L + 1 - g') * (maxInvocationStackSize + 1) + (maxInvocationStackSize + 1)
        = (L + 1 - g' + 1) * (maxInvocationStackSize + 1) := by rw [Nat.add_mul]; simp
      _ ≤ (L + 1 - g) * (maxInvocationStackSize + 1) := Nat.mul_le_mul_right _ this
  omega

theorem mu_free {L g g' d d' : Nat} (hg : g ≤ g') (hd : d' < d) :
    (L + 1 - g') * (maxInvocationStackSize + 1) + d' < (L + 1 - g) * (maxInvocationStackSize + 1) + d := by
  have : (L + 1 - g') * (maxInvocationStackSize + 1) ≤ (L + 1 - g) * (maxInvocationStackSize + 1) :=
    Nat.mul_le_mul_right _ (by omega)
  omega

theorem good_fault (L : Nat) (v : Vm) (msg : String) (hl : v.gasLimit = some L) : Good L (v.fault msg) :=
  ⟨hl, fun h => absurd rfl h, (fun h => by cases h), (fun h => by cases h)⟩

/-- the tail of `step`: the gas comparison, the instruction, the stack-size check -/
theorem charged (L : Nat) (v0 v2 : Vm) (ins : Instr) (hgood : Good L v0) (hrun : v0.state = .none)
    (h2 : v2.depth = v0.depth ∧ v2.gasLimit = v0.gasLimit ∧ v2.state = v0.state) (hg : v0.gas ≤ v2.gas)
    (over : Bool) (ho : over = false → v2.gas ≤ L)
    (hdec : (v0.gas + 1 ≤ v2.gas) ∨ ins.op = .ret ∨ (∀ v', exec v2 ins ≠ .ok v')) :
    Good L (if over = true then v2.fault "GAS limit exceeded" else
      match exec v2 ins with
      | .error e => v2.fault e
      | .ok v' => if reach v' > maxStackSize then v'.fault "stack is too big" else v') ∧
    ((if over = true then v2.fault "GAS limit exceeded" else
      match exec v2 ins with
      | .error e => v2.fault e
      | .ok v' => if reach v' > maxStackSize then v'.fault "stack is too big" else v').state = .none →
      mu L (if over = true then v2.fault "GAS limit exceeded" else
      match exec v2 ins with
      | .error e => v2.fault e
      | .ok v' => if reach v' > maxStackSize then v'.fault "stack is too big" else v') < mu L v0) := by
  have hl2 : v2.gasLimit = some L := by rw [h2.2.1, hgood.limit]
  cases over with
  | true =>
    simp only [if_true]
    exact ⟨good_fault L _ _ hl2, fun h => by cases h⟩
  | false =>
    simp only [Bool.false_eq_true, if_false]
    have hg2 := ho rfl
    cases he : exec v2 ins with
    | error e =>
      simp only
      exact ⟨good_fault L _ _ hl2, fun h => by cases h⟩
    | ok v' =>
      simp only
      have e := exec_eff v2 ins v' he
      have hlim : v'.gasLimit = some L := by rw [e.limit, hl2]
      have hd0 := hgood.depth hrun
      have hdep : v'.depth ≤ maxInvocationStackSize := by
        have h5 := e.depth
        rcases Nat.lt_or_ge v2.depth maxInvocationStackSize with hl | hl
        · omega
        · have := e.depthMax hl; rw [h2.1] at this; omega
      split
      · exact ⟨good_fault L _ _ hlim, fun h => by cases h⟩
      · refine ⟨⟨hlim, fun _ => by rw [e.gas]; exact hg2, fun _ => hdep, ?_⟩, fun hs => ?_⟩
        · rcases e.state with h1 | h1
          · rw [h1, h2.2.2, hrun]; decide
          · rw [h1.1]; decide
        simp only [mu, e.gas]
        rcases hdec with hp | hret | hno
        · exact mu_paid hp hg2 hdep
        · rcases exec_ret v2 ins v' hret he with ⟨hh, _⟩ | ⟨_, hlt⟩
          · rw [hh] at hs; cases hs
          · rw [h2.1] at hlt; exact mu_free hg hlt
        · exact absurd he (hno v')

theorem fault_good (L : Nat) (v : Vm) (msg : String) (hl : v.gasLimit = some L) :
    Good L (v.fault msg) ∧ ((v.fault msg).state = .none → mu L (v.fault msg) < mu L v) :=
  ⟨good_fault L _ _ hl, fun h => by cases h⟩

theorem ofByte_zero : Op.ofByte 0x40 = some Op.ret ∧ Op.ofByte 0x41 = some Op.syscall ∧ Op.ofByte 0x38 = some Op.abort ∧
    Op.ofByte 0xE0 = some Op.abortMsg := by decide

/-- one step of the specification machine from a running state: the invariant is kept and, if the
machine is still running, the measure went down -/
theorem step_good (cfg : Cfg) (p : UInt8 → Nat) (hp : cfg.price = some p) (hpos : PriceOk p) (L : Nat) (v : Vm)
    (hgood : Good L v) (hrun : v.state = .none) :
    Good L (step cfg v) ∧ ((step cfg v).state = .none → mu L (step cfg v) < mu L v) := by
  unfold step
  simp only [hrun, ne_eq, not_true_eq_false, if_false]
  split
  · exact fault_good L v _ hgood.limit
  · rename_i f fs hf
    split
    · exact fault_good L v _ hgood.limit
    · rename_i c cs hc
      split
      · exact fault_good L v _ hgood.limit
      · rename_i ins hdec
        obtain ⟨hip, hvalid, himpl⟩ := decode_spec f.prog c.ip ins hdec
        obtain ⟨s1, s2, s3, s4⟩ := setIp_props v ins.next
        have hg0 := hgood.gas (by rw [hrun]; decide)
        refine charged L v _ ins hgood hrun ?_ ?_ _ ?_ ?_
        · simp only [hp]; split <;> exact ⟨s1, s3, s4⟩
        · simp only [hp]; split <;> simp [s2]
        · intro hover
          simp only [hp, Option.isSome_some, Bool.true_and] at hover ⊢
          by_cases hin : ins.ip < f.prog.size
          · simp only [hin, if_true, s3, hgood.limit, decide_true, Bool.true_and, decide_eq_false_iff_not] at hover ⊢
            omega
          · simp only [hin, if_false, s2]; exact hg0
        · simp only [hp]
          by_cases hin : ins.ip < f.prog.size
          · simp only [hin, if_true]
            have hop := hvalid (by rw [← hip]; exact hin)
            by_cases hz : ins.opByte = 0x40 ∨ ins.opByte = 0x41 ∨ ins.opByte = 0x38 ∨ ins.opByte = 0xE0
            · right
              rcases hz with hz | hz | hz | hz
              · left; rw [hz, ofByte_zero.1] at hop; exact (Option.some.inj hop).symm
              · right; rw [hz, ofByte_zero.2.1] at hop
                exact exec_nohandler _ ins (Or.inl (Option.some.inj hop).symm)
              · right; rw [hz, ofByte_zero.2.2.1] at hop
                exact exec_nohandler _ ins (Or.inr (Or.inl (Option.some.inj hop).symm))
              · right; rw [hz, ofByte_zero.2.2.2] at hop
                exact exec_nohandler _ ins (Or.inr (Or.inr (Option.some.inj hop).symm))
            · left
              have hpaid : 1 ≤ p ins.opByte :=
                hpos.pos ins.opByte (by rw [hop]; rfl) (fun e => hz (Or.inl e)) (fun e => hz (Or.inr (Or.inl e)))
                  (fun e => hz (Or.inr (Or.inr (Or.inl e)))) (fun e => hz (Or.inr (Or.inr (Or.inr e))))
              simp only [s2]; omega
          · simp only [hin, if_false]
            right; left
            exact himpl (by rw [← hip]; exact hin)

theorem run_good (cfg : Cfg) (p : UInt8 → Nat) (hp : cfg.price = some p) (hpos : PriceOk p) (L : Nat) :
    ∀ (n : Nat) (v : Vm), Good L v → Good L (run cfg n v) := by
  intro n
  induction n with
  | zero => intro v h; exact h
  | succ n ih =>
    intro v h
    simp only [run]
    by_cases hr : v.state = .none
    · simp only [hr, ne_eq, not_true_eq_false, if_false]
      exact ih _ (step_good cfg p hp hpos L v h hr).1
    · simp only [ne_eq, hr, not_false_eq_true, if_true]; exact h

theorem run_stops (cfg : Cfg) (p : UInt8 → Nat) (hp : cfg.price = some p) (hpos : PriceOk p) (L : Nat) :
    ∀ (k : Nat) (v : Vm), Good L v → mu L v ≤ k → (run cfg (k + 1) v).state ≠ .none := by
  intro k
  induction k with
  | zero =>
    intro v h hk
    simp only [run]
    by_cases hr : v.state = .none
    · simp only [hr, ne_eq, not_true_eq_false, if_false]
      intro hs
      have := (step_good cfg p hp hpos L v h hr).2 hs
      omega
    · simp only [ne_eq, hr, not_false_eq_true, if_true]
  | succ k ih =>
    intro v h hk
    rw [run]
    by_cases hr : v.state = .none
    · simp only [hr, ne_eq, not_true_eq_false, if_false]
      obtain ⟨hg, hdec⟩ := step_good cfg p hp hpos L v h hr
      by_cases hr' : (step cfg v).state = .none
      · exact ih _ hg (by have := hdec hr'; omega)
      · rw [run]; simp only [ne_eq, hr', not_false_eq_true, if_true]
    · simp only [ne_eq, hr, not_false_eq_true, if_true]

theorem load_good (prog : Array UInt8) (args : List Item) (L : Nat) (heap : Heap) :
    Good L (Vm.load prog args (some L) heap) ∧ mu L (Vm.load prog args (some L) heap) = (L + 1) * (maxInvocationStackSize + 1) + 1 := by
  refine ⟨⟨rfl, fun _ => Nat.zero_le _, (fun _ => by simp [Vm.load, Vm.depth, maxInvocationStackSize]), (by simp [Vm.load])⟩, ?_⟩
  simp [mu, Vm.load, Vm.depth]

end NeoModel.Vm
