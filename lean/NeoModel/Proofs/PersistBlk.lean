/-
Helper lemma for C02: `BInv` — every height up to the node's own holds a block record — is an invariant of EVERY
schedule (GC commits included); it is all the reset-resumption proofs need of the removed range. Core Lean only.
-/
import NeoModel.Proofs.Persist
namespace NeoModel.Persist

/-- every height up to the node's own holds a BLOCK record. Unlike `FInv` this survives GC commits. -/
def BInv (n : Node) : Prop := ∀ i, i ≤ n.height → n.view (Key.exec i) = some (Val.blk i)

theorem binv_fresh (H : Hist) : BInv (fresh H) := by
  intro i hi
  have : i = 0 := by simp [fresh] at hi; exact hi
  subst this
  show applyWrites ([(Key.version, some (Val.ver false)), (Key.curHeader, some (Val.ptr 0))] ++ _) Db.empty _ = _
  rw [applyWrites_append, block_exec]

theorem binv_step {H : Hist} {B : Nat} (hB : 1 < B) {n : Node} (hi : Inv H B n) (hb : BInv n) (o : Op) : BInv (step H B n o).1 := by
  cases o with
  | headers upTo =>
    simp only [step]
    split
    · exact hb
    · rename_i hgt
      have hup : n.hdrHeight + (upTo - n.hdrHeight) = upTo := by omega
      obtain ⟨_, e2, _, _⟩ := hdr_effect (B := B) (by omega) (lo := n.hdrHeight) (hi := upTo) (headersRange B n.hdrHeight (upTo - n.hdrHeight))
        (fun p hp => by have := mem_headersRange hp; rwa [hup] at this)
        (fun i h1 h2 => headersRange_exec _ _ _ _ h1 (by omega))
        (fun i h1 h2 h3 => headersRange_page _ _ _ _ h1 (by omega) h3) n.view
      intro i hle
      have hle' : i ≤ n.height := hle
      show Node.view { n with cache := n.cache ++ (headersRange B n.hdrHeight (upTo - n.hdrHeight) ++ [(Key.curHeader, some (Val.ptr upTo))]), hdrHeight := upTo } (Key.exec i) = _
      have hv : Node.view { n with cache := n.cache ++ (headersRange B n.hdrHeight (upTo - n.hdrHeight) ++ [(Key.curHeader, some (Val.ptr upTo))]), hdrHeight := upTo }
          = (applyWrites (headersRange B n.hdrHeight (upTo - n.hdrHeight)) n.view).set Key.curHeader (some (Val.ptr upTo)) := by
        simp [Node.view, applyWrites_append, applyWrites]
      rw [hv, Db.set_other _ _ (by simp), e2 i (Nat.le_trans hle' hi.le)]
      exact hb i hle'
  | block =>
    generalize hhw : (if n.height + 1 = n.hdrHeight + 1 then headerWrites B (n.height + 1) ++ [(Key.curHeader, some (Val.ptr (n.height + 1)))] else ([] : Writes)) = hw
    have hv : (step H B n .block).1.view
        = applyWrites (blockWrites H n.pfx (applyWrites hw n.view) (applyEff (H.eff (n.height + 1)) n.items) (n.height + 1)) (applyWrites hw n.view) := by
      rw [view_ext n (step H B n .block).1 (hw ++ blockWrites H n.pfx (applyWrites hw n.view) (applyEff (H.eff (n.height + 1)) n.items) (n.height + 1)) rfl (by subst hhw; rfl)]
      rw [applyWrites_append]
    intro i hle
    have hle' : i ≤ n.height + 1 := hle
    rw [hv]
    by_cases c : i = n.height + 1
    · subst c; exact block_exec _ _ _ _ _ _
    · rw [applyWrites_notin]
      · have hh : applyWrites hw n.view (Key.exec i) = n.view (Key.exec i) := by
          apply applyWrites_notin
          intro p hp e
          subst hhw
          split at hp
          · rename_i ceq
            simp only [List.mem_append, List.mem_singleton] at hp
            rcases hp with hp | rfl
            · cases mem_headerWrites (lo := n.height) (by omega) hp with
              | exec j h1 h2 => simp at e; omega
              | page j _ _ _ => simp at e
            · simp at e
          · simp at hp
        rw [hh]; exact hb i (by omega)
      · intro p hp e
        cases mem_blockWrites hp <;> simp at e
        exact c e.symm
  | flush =>
    simp only [step]
    split
    · exact hb
    · intro i hle
      have hv : Node.view { n with db := applyWrites n.cache n.db, cache := [] } = n.view := by simp [Node.view, applyWrites]
      rw [hv]; exact hb i hle
  | gc tgt g =>
    simp only [step]
    split
    · split
      · intro i hle
        have : Node.view { n with db := gcSel tgt g n.db } (Key.exec i) = n.view (Key.exec i) := by
          apply applyWrites_congr; simp [gcSel]
        rw [this]; exact hb i hle
      · exact hb
    · exact hb

theorem binv_runFrom {H : Hist} {B : Nat} (hB : 1 < B) {n : Node} (hi : Inv H B n) (hb : BInv n) (ops : List Op) : BInv (runFrom H B n ops).1 := by
  induction ops generalizing n with
  | nil => exact hb
  | cons o r ih => simp only [runFrom]; exact ih (inv_step hB hi o) (binv_step hB hi hb o)

end NeoModel.Persist
