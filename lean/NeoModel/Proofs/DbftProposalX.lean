/-
C19 — the backup's checks against the ledger's, exactly: for a PrepareRequest a backup answers, AddBlock on
a node with the same ledger accepts the assembled block IF AND ONLY IF no addition to the scratch pool evicts an
earlier transaction of the proposal (blockchain.go AddBlock `mp.Count() != added`; verifyBlock, consensus.go:571-588,
does not count). Otherwise AddBlock rejects with the transaction-loop error.
-/
import NeoModel.Proofs.DbftProposal
namespace NeoModel.Dbft.Proposal
open NeoModel.AddBlock

variable {L : Type}

/-- every addition to the scratch pool succeeds and leaves all earlier transactions in it -/
def noEvict (bal : Nat → Nat) : List Tx → List Tx → Bool
  | _, [] => true
  | p, t :: rest =>
    match poolAdd bal p t with
    | some p' => p'.length == p.length + 1 && noEvict bal p' rest
    | none => false

/-- AddBlock's transaction loop (with VerifyTransactions) on transactions that are all pooled with the same
witnesses or verify stand-alone is exactly `noEvict` -/
theorem txLoop_eq_noEvict (env : Env L) (t' : Node L) (hv : t'.cfg.verifyTx = true) (p ts : List Tx)
    (hval : ∀ t ∈ ts, pooledSame t' t = true ∨ env.txValid t'.ledger t'.blockHeight t = true) :
    txLoop env t' p ts = noEvict (env.balance t'.ledger) p ts := by
  induction ts generalizing p with
  | nil => simp [txLoop, noEvict]
  | cons t rest ih =>
    have hr : (if pooledSame t' t then poolAdd (env.balance t'.ledger) p t
        else if env.txValid t'.ledger t'.blockHeight t then poolAdd (env.balance t'.ledger) p t else none) =
        poolAdd (env.balance t'.ledger) p t := by
      rcases hval t (List.mem_cons_self) with h | h
      · simp [h]
      · by_cases hp : pooledSame t' t = true
        · simp [hp]
        · simp [hp, h]
    unfold txLoop noEvict
    simp only [hr]
    cases hadd : poolAdd (env.balance t'.ledger) p t with
    | none => simp [hv]
    | some p' =>
      simp only
      by_cases hl : (p'.length == p.length + 1) = true
      · simp only [hl, if_true, Bool.true_and]
        exact ih p' (fun u hu => hval u (List.mem_cons_of_mem _ hu))
      · simp [hl, hv]

/-- no conflicts inside the proposal ⇒ nothing is evicted -/
theorem noEvict_of_conflictFree (bal : Nat → Nat) (txs : List Tx) (hf : ConflictFree txs)
    (hs : (seqAdd bal [] txs).isSome) : noEvict bal [] txs = true := by
  have gen : ∀ (ts p : List Tx), (seqAdd bal p ts).isSome →
      (∀ t ∈ ts, (∀ u ∈ p, NoRef2 u t) ∧ ∀ u ∈ ts, NoRef2 u t) → noEvict bal p ts = true := by
    intro ts
    induction ts with
    | nil => intro p _ _; rfl
    | cons t rest ih =>
      intro p hs hn
      unfold seqAdd at hs
      unfold noEvict
      cases hadd : poolAdd bal p t with
      | none => rw [hadd] at hs; cases hs
      | some p' =>
        rw [hadd] at hs
        have happ : p' = p ++ [t] := poolAdd_append _ p p' t hadd (hn t (List.mem_cons_self)).1
        simp only [happ, List.length_append, List.length_cons, List.length_nil, beq_self_eq_true, Bool.true_and]
        rw [happ] at hs
        apply ih _ hs
        intro u hu
        refine ⟨?_, fun w hw => (hn u (List.mem_cons_of_mem _ hu)).2 w (List.mem_cons_of_mem _ hw)⟩
        intro w hw
        rcases List.mem_append.mp hw with hw | hw
        · exact (hn u (List.mem_cons_of_mem _ hu)).1 w hw
        · simp only [List.mem_singleton] at hw
          subst hw
          exact (hn u (List.mem_cons_of_mem _ hu)).2 _ (List.mem_cons_self)
  exact gen txs [] hs (conflictFree_noref txs hf)

/-- AddBlock rejects, with the transaction-loop error, a block that passes the header checks but whose
transactions do not pass the loop (verification on) -/
theorem addBlock_tx_err (env : Env L) (t' : Node L) (b : Block) (top : Header)
    (hidx : b.hdr.index = t'.blockHeight + 1) (hsre : t'.cfg.sr = b.hdr.sre)
    (hne : t'.headers ≠ []) (hhh : t'.headerHeight = t'.blockHeight) (hskip : t'.cfg.skip = false)
    (hlook : t'.lookup b.hdr.prevHash = some top) (hvh : verifyHeader env t' b.hdr top = none)
    (hm : b.hdr.merkleRoot = env.merkle (b.txs.map (·.id))) (hnd : hasDup (b.txs.map (·.id)) = false)
    (htx : txLoop env t' [] b.txs = false) : (addBlock env t' b).2 = some Err.tx := by
  have hlen : t'.headers.length = t'.blockHeight + 1 := by
    unfold Node.headerHeight at hhh
    cases hx : t'.headers with
    | nil => exact absurd hx hne
    | cons a l => rw [hx] at hhh; simp at hhh ⊢; omega
  have hidx' : (b.hdr.index == t'.headerHeight + 1) = true := by simp [hhh, hidx]
  have hnle : ¬ (b.hdr.index ≤ t'.headerHeight) := by omega
  have hdw : List.dropWhile (fun h : Header => decide (h.index ≤ t'.headerHeight)) [b.hdr] = [b.hdr] := by
    simp [List.dropWhile, hnle]
  have happ : appendHeaders t'.headers [b.hdr] = t'.headers ++ [b.hdr] := by
    simp [appendHeaders, hidx, hlen]
  have hah : addHeaders env t' (!t'.cfg.skip) [b.hdr] = ({ t' with headers := t'.headers ++ [b.hdr] }, none) := by
    unfold addHeaders
    simp only [hdw, hlook, happ]
    simp [hskip, verifyChain, hvh]
  unfold addBlock
  have h1 : (t'.blockHeight + 1 != b.hdr.index) = false := by simp [hidx]
  have h2 : (t'.cfg.sr != b.hdr.sre) = false := by simp [hsre]
  simp only [h1, h2, Bool.false_eq_true, if_false]
  unfold headerStep
  simp only [hidx', if_true, hah]
  unfold bodyStep
  simp only [txLoop_headers, htx, hnd, hm, hskip, bne_self_eq_false, Bool.and_false, Bool.not_false, Bool.and_true,
    Bool.false_eq_true, if_false, if_true, Bool.not_true, Bool.true_and]

/-- C19 (the backup's checks against the ledger's, EXACT): for a PrepareRequest a backup answers (side conditions
of `answered_proposal_accepted`, without asking that the proposal be conflict-free), AddBlock with verification on,
on any node `t'` with the backup's ledger, accepts the assembled block iff no scratch-pool addition evicts an earlier
transaction of the proposal — and otherwise rejects it with the transaction-loop error. -/
theorem answered_proposal_exact (env : Env L) (s t' : Node L) (lim : Limits) (top : Header) (lastTs : Nat)
    (r : Req) (hash nc wit primary : Nat) (hprim : primary < env.nvals)
    (hacc : backupAccepts env s lim top lastTs r = true) (hpv : PoolValid env s)
    (hown : ∀ t ∈ r.txs, ∀ q ∈ s.pool, q.id = t.id → q = t)
    (hne : s.headers ≠ []) (hhh : s.headerHeight = s.blockHeight)
    (hlook : s.lookup top.hash = some top) (htopi : top.index = s.blockHeight) (hlast : top.ts ≤ lastTs)
    (hsig : env.signedBy wit hash top.nextConsensus = true)
    (happly : (env.apply s.ledger (blockOf env s top r hash nc wit primary)).isSome)
    (hc : t'.cfg = s.cfg) (hl : t'.ledger = s.ledger) (hb : t'.blockHeight = s.blockHeight)
    (hh : t'.headers = s.headers) (hver : s.cfg.verifyTx = true) (hskip : s.cfg.skip = false) :
    (addBlock env t' (blockOf env s top r hash nc wit primary)).2 =
      if noEvict (env.balance s.ledger) [] r.txs then none else some Err.tx := by
  unfold backupAccepts at hacc
  simp only [Bool.and_eq_true] at hacc
  obtain ⟨⟨hvr, hat⟩, hvb⟩ := hacc
  unfold verifyRequest at hvr
  split at hvr; · cases hvr
  split at hvr; · cases hvr
  split at hvr; · cases hvr
  unfold verifyBlock at hvb
  split at hvb; · cases hvb
  split at hvb; · cases hvb
  split at hvb; · cases hvb
  split at hvb; · cases hvb
  rename_i _ hts _ hloop
  have hloop : vbLoop env s [] r.txs = true := by simpa using hloop
  have hts : lastTs < r.ts := by omega
  obtain ⟨_, hvalid⟩ := vbLoop_spec env s [] r.txs hloop
  have hval' : ∀ t ∈ r.txs, pooledSame t' t = true ∨ env.txValid t'.ledger t'.blockHeight t = true := by
    intro t ht
    right
    rw [hl, hb]
    rcases hvalid t ht with h | h
    · rw [List.any_eq_true] at h
      obtain ⟨q, hq, hid⟩ := h
      have : q = t := hown t ht q hq (by simpa using hid)
      subst this
      exact hpv q hq
    · exact h
  have hloopeq := txLoop_eq_noEvict env t' (by rw [hc]; exact hver) [] r.txs hval'
  rw [hl] at hloopeq
  have hnd : hasDup (r.txs.map (·.id)) = false := by
    unfold hasAllTransactions at hat; simpa using hat
  have hvh : verifyHeader env t' (blockOf env s top r hash nc wit primary).hdr top = none := by
    unfold verifyHeader
    have : ¬ (top.ts ≥ r.ts) := by omega
    simp [blockOf, hl, htopi, hsig, this]
  cases hne' : noEvict (env.balance s.ledger) [] r.txs with
  | true =>
    simp only [if_true]
    apply addBlock_ok env t' _ top
    · simp [blockOf, hb]
    · simp [blockOf, hc]
    · rw [hh]; exact hne
    · unfold Node.headerHeight; rw [hh, hb]; exact hhh
    · unfold Node.lookup; rw [hh]; exact hlook
    · exact hvh
    · simp [blockOf]
    · exact hnd
    · show txLoop env t' [] r.txs = true
      rw [hloopeq]; exact hne'
    · simpa [blockOf] using hprim
    · rw [hl]; exact happly
  | false =>
    simp only [Bool.false_eq_true, if_false]
    apply addBlock_tx_err env t' _ top
    · simp [blockOf, hb]
    · simp [blockOf, hc]
    · rw [hh]; exact hne
    · unfold Node.headerHeight; rw [hh, hb]; exact hhh
    · rw [hc]; exact hskip
    · unfold Node.lookup; rw [hh]; exact hlook
    · exact hvh
    · simp [blockOf]
    · exact hnd
    · show txLoop env t' [] r.txs = false
      rw [hloopeq]; exact hne'

-- non-vacuity, both sides, on the concrete ledger of Proofs/DbftProposal.lean: the conflict-free request evicts
-- nothing, the conflicting one (txB names txA and pays more) evicts txA
example : noEvict (exEnv.balance exBackup.ledger) [] reqOK.txs = true ∧
    noEvict (exEnv.balance exBackup.ledger) [] reqConflict.txs = false := by decide

end NeoModel.Dbft.Proposal
