/-
CompileOverflow — C14 target 3: the integer-semantics gap.  Go's `int` is 64-bit and wraps; NeoVM integers are
256-bit and never wrap in the range the core can reach.  The compiler theorems are stated against the *checked*
semantics (`evalE`/`exec`: `.overflow` as soon as an intermediate result leaves the 64-bit range).  Here:
  * `evalW`: Go's real (wrapping) semantics of call-free expressions; `evalE_ok_evalW`: whenever the checked
    semantics yields a value, the wrapping semantics yields the same one — "`evalE … = .ok v`" is exactly "Go computes
    v and no intermediate value wrapped";
  * `overflow_witness`: the side condition is necessary: for `func f(a int) int { return (a + a) / 2 }` and
    a = 2^62 Go returns -2^62 (a + a wraps to -2^63), the checked semantics says `.overflow`, and the compiled script
    halts with +2^62.
-/
import NeoModel.Proofs.CompileBase
namespace NeoModel.CompileProofs
open NeoModel.MiniVm NeoModel.MiniVm.Asm NeoModel.MiniGo NeoModel.Compile

/-- two's complement wrap-around to 64 bits: what Go's `int` arithmetic really does on amd64/arm64. -/
def wrap64 (n : Int) : Int := (n + 2 ^ 63) % 2 ^ 64 - 2 ^ 63

theorem wrap64_id {n : Int} (h : inInt64 n = true) : wrap64 n = n := by
  simp [inInt64] at h
  unfold wrap64
  rw [Int.emod_eq_of_lt (by omega) (by omega)]
  omega

/-- Go's binary operators on 64-bit ints: results wrap, division by zero panics (`none`). -/
def goBin (op : BinOp) (a b : Val) : Option Val :=
  match op, a, b with
  | .add, .int x, .int y => some (.int (wrap64 (x + y)))
  | .sub, .int x, .int y => some (.int (wrap64 (x - y)))
  | .mul, .int x, .int y => some (.int (wrap64 (x * y)))
  | .div, .int x, .int y => if y == 0 then none else some (.int (wrap64 (Int.tdiv x y)))
  | .mod, .int x, .int y => if y == 0 then none else some (.int (wrap64 (Int.tmod x y)))
  | .lt, .int x, .int y => some (.bool (x < y))
  | .le, .int x, .int y => some (.bool (x ≤ y))
  | .gt, .int x, .int y => some (.bool (x > y))
  | .ge, .int x, .int y => some (.bool (x ≥ y))
  | .eq, .int x, .int y => some (.bool (x == y))
  | .ne, .int x, .int y => some (.bool (x != y))
  | .eqb, .bool x, .bool y => some (.bool (x == y))
  | .neb, .bool x, .bool y => some (.bool (x != y))
  | _, _, _ => none

/-- the wrapping semantics of call-free expressions (structural; `none` = panic or ill-typed). -/
def evalW (env : Env) : Expr → Option Val
  | .lit n => some (.int (wrap64 n))
  | .tt => some (.bool true)
  | .ff => some (.bool false)
  | .var x => env.get x
  | .paren e => evalW env e
  | .neg e => match evalW env e with
    | some (.int x) => some (.int (wrap64 (-x)))
    | _ => none
  | .not e => match evalW env e with
    | some (.bool b) => some (.bool (!b))
    | _ => none
  | .bin .land a b => match evalW env a with
    | some (.bool false) => some (.bool false)
    | some (.bool true) => match evalW env b with
      | some (.bool y) => some (.bool y)
      | _ => none
    | _ => none
  | .bin .lor a b => match evalW env a with
    | some (.bool true) => some (.bool true)
    | some (.bool false) => match evalW env b with
      | some (.bool y) => some (.bool y)
      | _ => none
    | _ => none
  | .bin op a b => match evalW env a, evalW env b with
    | some x, some y => goBin op x y
    | _, _ => none
  | _ => none

theorem chk_wrap {n : Int} {v : Val} (h : chk n = .ok v) : v = .int (wrap64 n) := by
  unfold chk at h
  split at h
  · rename_i hi; cases h; rw [wrap64_id hi]
  · cases h

theorem evalBin_goBin {op : BinOp} {x y v : Val} (h : evalBin op x y = .ok v) : goBin op x y = some v := by
  cases op <;> cases x <;> cases y <;> simp only [evalBin] at h <;> try (cases h; done)
  all_goals first
    | (simp only [goBin]; rw [chk_wrap h])
    | (simp only [goBin]; split at h
       · cases h
       · rename_i hz; rw [if_neg hz, chk_wrap h])
    | (cases h; rfl)

/-- where the checked semantics (the one the theorems speak about) delivers a value — no intermediate result left
    the 64-bit range — Go's wrapping arithmetic delivers the same value: the side condition `evalE … = .ok v` of the
    compiler theorems is exactly "Go computes v without wrap-around". -/
theorem evalE_ok_evalW (P : Prog) (env : Env) : ∀ (fuel : Nat) (e : Expr) (v : Val), NoCall e →
    evalE fuel P env e = .ok v → evalW env e = some v := by
  intro fuel
  induction fuel with
  | zero => intro e v _ h; simp [evalE] at h
  | succ k ih =>
    intro e v hnc h
    cases e with
    | lit n => simp only [evalE] at h; simp only [evalW]; rw [chk_wrap h]
    | tt => simp only [evalE] at h; cases h; rfl
    | ff => simp only [evalE] at h; cases h; rfl
    | var x =>
      simp only [evalE] at h
      simp only [evalW]
      cases hg : env.get x with
      | none => rw [hg] at h; cases h
      | some w => rw [hg] at h; cases h; rfl
    | paren e => simp only [evalE] at h; simp only [evalW]; exact ih e v hnc h
    | neg e =>
      simp only [evalE] at h
      simp only [evalW]
      cases he : evalE k P env e with
      | ok w =>
        rw [he] at h
        rw [ih e w hnc he]
        cases w with
        | int x => simp only at h ⊢; rw [chk_wrap h]
        | bool b => simp at h
        | null => simp at h
      | panic => rw [he] at h; simp at h
      | overflow => rw [he] at h; simp at h
      | stuck => rw [he] at h; simp at h
      | timeout => rw [he] at h; simp at h
    | not e =>
      simp only [evalE] at h
      simp only [evalW]
      cases he : evalE k P env e with
      | ok w =>
        rw [he] at h
        rw [ih e w hnc he]
        cases w with
        | bool b => simp only at h ⊢; cases h; rfl
        | int x => simp at h
        | null => simp at h
      | panic => rw [he] at h; simp at h
      | overflow => rw [he] at h; simp at h
      | stuck => rw [he] at h; simp at h
      | timeout => rw [he] at h; simp at h
    | bin op a b =>
      simp only [NoCall] at hnc
      by_cases hlog : op = .land ∨ op = .lor
      · have := evalE_logic hlog h
        simp only at this
        rcases hlog with rfl | rfl
        · rcases this with ⟨ha, rfl⟩ | ⟨ha, y, hb, rfl⟩
          · simp only [evalW, ih a _ hnc.1 ha]; rfl
          · simp only [evalW, ih a _ hnc.1 ha, ih b _ hnc.2 hb]; rfl
        · rcases this with ⟨ha, rfl⟩ | ⟨ha, y, hb, rfl⟩
          · simp only [evalW, ih a _ hnc.1 ha]; rfl
          · simp only [evalW, ih a _ hnc.1 ha, ih b _ hnc.2 hb]; rfl
      · have hs : Strict op := ⟨fun h' => hlog (Or.inl h'), fun h' => hlog (Or.inr h')⟩
        obtain ⟨x, y, ha, hb, hv⟩ := evalE_bin_strict hs h
        have := evalBin_goBin hv
        cases op <;> first | exact absurd rfl hs.1 | exact absurd rfl hs.2 | (simp only [evalW, ih a _ hnc.1 ha, ih b _ hnc.2 hb]; exact this)
    | call0 f => simp [NoCall] at hnc
    | call1 f a => simp [NoCall] at hnc
    | call2 f a b => simp [NoCall] at hnc
    | call3 f a b c => simp [NoCall] at hnc


def ovE : Expr := .bin .div (.paren (.bin .add (.var "a") (.var "a"))) (.lit 2)
def ovD : FuncDecl := { name := "f", params := ["a"], nres := 1, body := .seq (.ret (some ovE)) .skip }
def ovEnv : Env := { frames := [[], []], args := [("a", .int (2 ^ 62))] }

theorem overflow_witness :
    callF 20 [ovD] "f" [.int (2 ^ 62)] = .overflow ∧
    evalW ovEnv ovE = some (.int (-(2 ^ 62))) ∧
    Byte.run (compile [ovD]) 20 { pc := 0, stack := [.int (2 ^ 62)], locals := [], args := [], frames := [] } = .halt [.int (2 ^ 62)] := by
  refine ⟨by rfl, by decide, by rfl⟩

end NeoModel.CompileProofs
