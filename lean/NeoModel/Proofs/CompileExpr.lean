/-
CompileExpr — forward simulation for call-free expressions: by induction on the fuel of the big-step semantics.
-/
import NeoModel.Proofs.CompileBase
namespace NeoModel.CompileProofs
open NeoModel.MiniVm NeoModel.MiniVm.Asm NeoModel.MiniGo NeoModel.Compile

theorem op_post {C : Code} {m : Mode} {s : State} {c : Code} {op : Op Nat} {stk' : List Val} {w : Val}
    (hp : Placed C s.pc (withMode m (c ++ [.ins op]))) (hd : isData op = true)
    (hr : Reach C s { s with pc := s.pc + c.length, stack := stk' })
    (hs : stepData op stk' s.locals s.args = some (w :: s.stack, s.locals, s.args)) :
    Post C m (withMode m (c ++ [.ins op])).length s w := by
  apply withMode_post hp
  refine hr.trans ?_
  have hf : C[s.pc + c.length]? = some (.ins op) := (withMode_placed hp).right.head
  have := step_data (s := { s with pc := s.pc + c.length, stack := stk' }) hf hd hs
  refine (Reach.step this).trans ?_
  simp [Nat.add_assoc]
  exact Reach.refl _ _

theorem exprOK_succ (P : Prog) (cx : Ctx) (sc : Scopes) (env : Env) (fuel : Nat)
    (ih : ExprOK P cx sc env fuel) : ExprOK P cx sc env (fuel + 1) := by
  intro e m nl C s v hnc hev hp hn hrel
  cases e with
  | lit n =>
    simp only [evalE] at hev
    obtain ⟨rfl, _⟩ := chk_ok hev
    simp only [compE] at hp ⊢
    exact push_post hp rfl (by simp [stepData])
  | tt =>
    simp only [evalE] at hev; cases hev
    simp only [compE] at hp ⊢
    exact push_post hp rfl (by simp [stepData])
  | ff =>
    simp only [evalE] at hev; cases hev
    simp only [compE] at hp ⊢
    exact push_post hp rfl (by simp [stepData])
  | var x =>
    simp only [evalE] at hev
    cases hg : env.get x with
    | none => simp [hg] at hev
    | some w =>
      simp [hg] at hev; subst hev
      obtain ⟨op, hop, hkind, hstep⟩ := load_correct hrel hg
      simp only [compE, hop] at hp ⊢
      refine push_post hp ?_ (hstep _)
      rcases hkind with h | ⟨j, h⟩ <;> subst h <;> rfl
  | paren e =>
    simp only [evalE] at hev
    simp only [NoCall] at hnc
    simp only [compE] at hp ⊢
    have hp' := withMode_placed hp
    have := ih e .val nl C s v hnc hev hp' hn hrel
    exact withMode_post hp this
  | neg e =>
    simp only [evalE] at hev
    simp only [NoCall] at hnc
    simp only [compE] at hp ⊢
    cases hx : evalE fuel P env e with
    | ok x =>
      rw [hx] at hev
      cases x with
      | int n =>
        simp only at hev
        obtain ⟨rfl, hfit⟩ := chk_ok hev
        have hp' : Placed C s.pc (compE cx sc e .val nl).1 := (withMode_placed hp).left
        have hr := ih e .val nl C s (.int n) hnc hx hp' hn hrel
        exact op_post hp rfl hr (by simp [stepData, Val.toInt?, mkInt, hfit])
      | bool b => simp at hev
      | null => simp at hev
    | panic => rw [hx] at hev; simp at hev
    | overflow => rw [hx] at hev; simp at hev
    | stuck => rw [hx] at hev; simp at hev
    | timeout => rw [hx] at hev; simp at hev
  | not e =>
    simp only [evalE] at hev
    simp only [NoCall] at hnc
    simp only [compE] at hp ⊢
    cases hx : evalE fuel P env e with
    | ok x =>
      rw [hx] at hev
      cases x with
      | bool b =>
        simp only at hev
        cases hev
        have hp' : Placed C s.pc (compE cx sc e .val nl).1 := (withMode_placed hp).left
        have hr := ih e .val nl C s (.bool b) hnc hx hp' hn hrel
        exact op_post hp rfl hr (by simp [stepData, Val.toBool])
      | int n => simp at hev
      | null => simp at hev
    | panic => rw [hx] at hev; simp at hev
    | overflow => rw [hx] at hev; simp at hev
    | stuck => rw [hx] at hev; simp at hev
    | timeout => rw [hx] at hev; simp at hev
  | bin op a b =>
    simp only [NoCall] at hnc
    by_cases hlog : op = .land ∨ op = .lor
    · have hc : (op == .land || op == .lor) = true := by
        rcases hlog with rfl | rfl <;> rfl
      have hev' := evalE_logic hlog hev
      generalize hcs : (op == BinOp.lor) = cs at hev'
      simp only at hev'
      cases m with
      | jump cond t =>
        rw [compE_logic_jump cx sc op a b cond t nl hlog] at hp ⊢
        rw [hcs] at hp ⊢
        generalize hca : compE cx sc a (.jump cs (if cond == cs then t else nl)) (nl + 1) = ra_ at hp ⊢
        obtain ⟨ca, nl1⟩ := ra_
        generalize hcb : compE cx sc b (.jump cond t) nl1 = rb_ at hp ⊢
        obtain ⟨cb, nl2⟩ := rb_
        simp only at hp ⊢
        simp only [Post]
        intro tp hl
        have hpa : Placed C s.pc ca := hp.left.left
        have hpb : Placed C (s.pc + ca.length) cb := hp.left.right
        have hpe : Placed C (s.pc + (ca ++ cb).length) [.lbl nl] := hp.right
        have hle : findLabel C nl = some (s.pc + (ca ++ cb).length) := hpe.label hn
        have hla : ∃ tpa, findLabel C (if (cond == cs) = true then t else nl) = some tpa ∧
            tpa = if (cond == cs) = true then tp else s.pc + (ca ++ cb).length := by
          by_cases hcc : (cond == cs) = true <;> simp [hcc, hl, hle]
        obtain ⟨tpa, hla1, hla2⟩ := hla
        have stepEnd : Reach C { s with pc := s.pc + (ca ++ cb).length } { s with pc := s.pc + (ca ++ cb ++ [Item.lbl nl]).length } := by
          have := step_lbl (s := { s with pc := s.pc + (ca ++ cb).length }) hpe.head
          refine (Reach.step this).trans ?_
          simp [Nat.add_assoc]
          exact Reach.refl _ _
        rcases hev' with ⟨hxa, rfl⟩ | ⟨hxa, y, hyb, rfl⟩
        · have ra := ih a _ (nl + 1) C s _ hnc.1 hxa (by rw [hca]; exact hpa) hn hrel
          rw [hca] at ra
          simp only [Post] at ra
          have ra := ra tpa hla1
          simp only [Val.toBool, beq_self_eq_true, if_true] at ra
          subst hla2
          by_cases hcc : (cond == cs) = true
          · have : cs = cond := by cases cs <;> cases cond <;> simp_all
            subst this
            simpa [Val.toBool, hcc] using ra
          · have hne : (cs == cond) = false := by cases cs <;> cases cond <;> simp_all
            simp only [hcc] at ra
            simp only [Val.toBool, hne]
            exact ra.trans (by simpa using stepEnd)
        · have ra := ih a _ (nl + 1) C s _ hnc.1 hxa (by rw [hca]; exact hpa) hn hrel
          rw [hca] at ra
          simp only [Post] at ra
          have ra := ra tpa hla1
          have hnb : ((!cs) == cs) = false := by cases cs <;> rfl
          simp only [Val.toBool, hnb] at ra
          have rb := ih b _ nl1 C { s with pc := s.pc + ca.length } _ hnc.2 hyb (by rw [hcb]; exact hpb) hn hrel
          rw [hcb] at rb
          simp only [Post] at rb
          have rb := rb tp hl
          refine ra.trans (rb.trans ?_)
          simp only [Val.toBool]
          by_cases hyc : (y == cond) = true
          · simp [hyc]; exact Reach.refl _ _
          · simp only [hyc]
            have : s.pc + ca.length + cb.length = s.pc + (ca ++ cb).length := by simp [Nat.add_assoc]
            simp only [Bool.false_eq_true, if_false, this]
            simpa using stepEnd
      | val =>
        rw [compE_logic_val cx sc op a b nl hlog] at hp ⊢
        rw [hcs] at hp ⊢
        generalize hca : compE cx sc a (.jump cs (nl + 1)) (nl + 2) = ra_ at hp ⊢
        obtain ⟨ca, nl1⟩ := ra_
        generalize hcb : compE cx sc b .val nl1 = rb_ at hp ⊢
        obtain ⟨cb, nl2⟩ := rb_
        simp only at hp ⊢
        simp only [Post]
        have hpa : Placed C s.pc ca := hp.left.left
        have hpb : Placed C (s.pc + ca.length) cb := hp.left.right
        have hp0 : Placed C (s.pc + (ca ++ cb).length) [.ins (.jmp nl), .lbl (nl + 1), .ins (if cs then Op.pushT else Op.pushF), .lbl nl] := hp.right
        have hp1 := hp0.tail
        have hp2 := hp1.tail
        have hp3 := hp2.tail
        have hpush : findLabel C (nl + 1) = some (s.pc + (ca ++ cb).length + 1) := hp1.label hn
        have hend : findLabel C nl = some (s.pc + (ca ++ cb).length + 1 + 1 + 1) := hp3.label hn
        have hlen : (ca ++ cb ++ [Item.ins (Op.jmp nl), Item.lbl (nl + 1), Item.ins (if cs then Op.pushT else Op.pushF), Item.lbl nl]).length
            = (ca ++ cb).length + 4 := by simp; omega
        rw [hlen]
        -- the last mark
        have stepEnd : ∀ stk : List Val, Reach C { s with pc := s.pc + (ca ++ cb).length + 1 + 1 + 1, stack := stk }
            { s with pc := s.pc + ((ca ++ cb).length + 4), stack := stk } := by
          intro stk
          have := step_lbl (s := { s with pc := s.pc + (ca ++ cb).length + 1 + 1 + 1, stack := stk }) hp3.head
          refine (Reach.step this).trans ?_
          simp [Nat.add_assoc]
          exact Reach.refl _ _
        rcases hev' with ⟨hxa, rfl⟩ | ⟨hxa, y, hyb, rfl⟩
        · have ra := ih a _ (nl + 2) C s _ hnc.1 hxa (by rw [hca]; exact hpa) hn hrel
          rw [hca] at ra
          simp only [Post] at ra
          have ra := ra _ hpush
          simp only [Val.toBool, beq_self_eq_true, if_true] at ra
          refine ra.trans ?_
          have s1 := step_lbl (s := { s with pc := s.pc + (ca ++ cb).length + 1 }) hp1.head
          refine (Reach.step s1).trans ?_
          have hd : isData (if cs then (Op.pushT : Op Nat) else Op.pushF) = true := by cases cs <;> rfl
          have s2 := step_data (s := { s with pc := s.pc + (ca ++ cb).length + 1 + 1 }) (stk := .bool cs :: s.stack)
            (loc := s.locals) (ar := s.args) hp2.head hd (by cases cs <;> simp [stepData])
          refine (Reach.step s2).trans ?_
          simpa using stepEnd (.bool cs :: s.stack)
        · have ra := ih a _ (nl + 2) C s _ hnc.1 hxa (by rw [hca]; exact hpa) hn hrel
          rw [hca] at ra
          simp only [Post] at ra
          have ra := ra _ hpush
          have hnb : ((!cs) == cs) = false := by cases cs <;> rfl
          simp only [Val.toBool, hnb] at ra
          have rb := ih b _ nl1 C { s with pc := s.pc + ca.length } _ hnc.2 hyb (by rw [hcb]; exact hpb) hn hrel
          rw [hcb] at rb
          simp only [Post] at rb
          refine ra.trans (rb.trans ?_)
          have hpc : s.pc + ca.length + cb.length = s.pc + (ca ++ cb).length := by simp [Nat.add_assoc]
          have s1 := step_jmp (s := { s with pc := s.pc + (ca ++ cb).length, stack := .bool y :: s.stack }) hp0.head hend
          simp only [hpc]
          refine (Reach.step s1).trans ?_
          simpa using stepEnd (.bool y :: s.stack)
    · have hst : Strict op := ⟨fun h => hlog (Or.inl h), fun h => hlog (Or.inr h)⟩
      obtain ⟨x, y, hx, hy, hb⟩ := evalE_bin_strict hst hev
      have hc : (op == .land || op == .lor) = false := by
        cases op <;> simp_all
      rcases hca : compE cx sc a .val nl with ⟨ca, nl1⟩
      rcases hcb : compE cx sc b .val nl1 with ⟨cb, nl2⟩
      -- both operands are evaluated onto the stack
      have hab : ∀ rest : Code, Placed C s.pc (ca ++ cb ++ rest) →
          Reach C s { s with pc := s.pc + (ca ++ cb).length, stack := y :: x :: s.stack } := by
        intro rest hpr
        have hpa : Placed C s.pc ca := hpr.left.left
        have ra := ih a .val nl C s x hnc.1 hx (by rw [hca]; exact hpa) hn hrel
        rw [hca] at ra
        simp only [Post] at ra
        have hpb : Placed C (s.pc + ca.length) cb := hpr.left.right
        have rb := ih b .val nl1 C { s with pc := s.pc + ca.length, stack := x :: s.stack } y hnc.2 hy
          (by rw [hcb]; exact hpb) hn hrel
        rw [hcb] at rb
        simp only [Post] at rb
        refine ra.trans (rb.trans ?_)
        simp [Nat.add_assoc]
        exact Reach.refl _ _
      cases m with
      | val =>
        have hcode : (compE cx sc (.bin op a b) .val nl).1 = withMode .val ((ca ++ cb) ++ [.ins (tokenOp op)]) := by
          simp [compE, hc, hca, hcb, withMode]
        rw [hcode] at hp ⊢
        have hd : isData (tokenOp op) = true := by cases op <;> rfl
        exact op_post hp hd (hab _ (by simpa [withMode] using hp)) (evalBin_token hst hb _ _ _)
      | jump cond t =>
        cases hj : jumpFor op with
        | none =>
          have hcode : (compE cx sc (.bin op a b) (.jump cond t) nl).1 = withMode (.jump cond t) ((ca ++ cb) ++ [.ins (tokenOp op)]) := by
            simp [compE, hc, hca, hcb, withMode, hj]
          rw [hcode] at hp ⊢
          have hd : isData (tokenOp op) = true := by cases op <;> rfl
          exact op_post hp hd (hab _ (by simpa [withMode] using hp)) (evalBin_token hst hb _ _ _)
        | some c =>
          have hcode : (compE cx sc (.bin op a b) (.jump cond t) nl).1 = ca ++ cb ++ [.ins (.jmpCmp (if cond then c else negCmp c) t)] := by
            simp [compE, hc, hca, hcb, hj]
          rw [hcode] at hp ⊢
          obtain ⟨i, j, rfl, rfl, rfl⟩ := evalBin_jump hj hb
          simp only [Post]
          intro tp hl
          refine (hab _ hp).trans ?_
          have hf : C[s.pc + (ca ++ cb).length]? = some (.ins (.jmpCmp (if cond then c else negCmp c) t)) := hp.right.head
          have := step_jmpCmp (s := { s with pc := s.pc + (ca ++ cb).length, stack := .int j :: .int i :: s.stack }) hf hl rfl
          refine (Reach.step this).trans ?_
          cases cond <;> simp [negCmp_eval, Val.toBool, Nat.add_assoc] <;> cases c.eval i j <;> simp <;> exact Reach.refl _ _
  | call0 f => simp [NoCall] at hnc
  | call1 f a => simp [NoCall] at hnc
  | call2 f a b => simp [NoCall] at hnc
  | call3 f a b c => simp [NoCall] at hnc

end NeoModel.CompileProofs

namespace NeoModel.CompileProofs
open NeoModel.MiniVm NeoModel.MiniVm.Asm NeoModel.MiniGo NeoModel.Compile

theorem exprOK (P : Prog) (cx : Ctx) (sc : Scopes) (env : Env) : ∀ fuel, ExprOK P cx sc env fuel := by
  intro fuel
  induction fuel with
  | zero => exact exprOK_zero P cx sc env
  | succ n ih => exact exprOK_succ P cx sc env n ih

end NeoModel.CompileProofs
