/- C19 helper lemmas: the remaining steps; every enabled step preserves the invariant; reachable states satisfy it. -/
import NeoModel.Proofs.DbftStepA
namespace NeoModel.Dbft

theorem inv_sendPrepResp (c : Cfg) (s : State) (i : Nat) (b : Block) (inv : Inv c s)
    (en : Enabled c s (.sendPrepResp i b)) : Inv c (apply c s (.sendPrepResp i b)) := by
  obtain ⟨hi, hbh, hbv, hnp, hreq, hno, hver⟩ := en
  generalize hnd : s.nodes i = nd at *
  simp only [apply, hnd]
  have gp : ∀ b', b' ∈ (s.nodes i).myPreps → b' ∈ b :: nd.myPreps := by
    intro b' h; rw [hnd] at h; exact List.mem_cons_of_mem _ h
  have gc : ∀ b', b' ∈ (s.nodes i).myCommits → b' ∈ nd.myCommits := by
    intro b' h; rw [hnd] at h; exact h
  have g := grows_upd (s := s) (i := i)
    (nd' := { nd with known := addKnown nd.known (.prepResp i b), myPreps := b :: nd.myPreps })
    (net' := bcast c i (.item (.prepResp i b)) ++ s.net) gp gc
  have hnew : Prov c ⟨upd s.nodes i { nd with known := addKnown nd.known (.prepResp i b), myPreps := b :: nd.myPreps },
      bcast c i (.item (.prepResp i b)) ++ s.net⟩ (.prepResp i b) := by
    refine ⟨hi, hnp, ?_⟩
    show b ∈ (upd s.nodes i _ i).myPreps
    rw [upd_same]; exact List.mem_cons_self
  have hprimHas : b ∈ (s.nodes (c.primary b.h b.v)).myPreps := by
    have h := inv.knownProv i (.prepReq (c.primary b.h b.v) b) (by rw [hnd]; exact hreq)
    exact h.2.2
  apply inv_node inv i { nd with known := addKnown nd.known (.prepResp i b), myPreps := b :: nd.myPreps }
    (bcast c i (.item (.prepResp i b)) ++ s.net) gp gc
  · intro it h
    rcases mem_addKnown.mp h with h | h
    · subst h; exact hnew
    · exact (inv.knownProv i it (by rw [hnd]; exact h)).mono g
  · intro to m h it hit
    rcases List.mem_append.mp h with h | h
    · rw [mem_bcast h] at hit; simp [Msg.items] at hit; subst hit; exact hnew
    · exact (inv.netProv to m h it hit).mono g
  · intro b1 b2 h1 h2; exact inv.commitUniq i b1 b2 (by rw [hnd]; exact h1) (by rw [hnd]; exact h2)
  · intro b1 h1; exact signed_mono g b1 (inv.chainQuorum i b1 (by rw [hnd]; exact h1))
  · intro b1 h1; have := inv.commitHeight i b1 (by rw [hnd]; exact h1); rw [hnd] at this; exact this
  · intro b1 h1
    rcases List.mem_cons.mp h1 with e1 | m1
    · subst e1; exact Nat.le_of_eq hbh
    · have := inv.prepHeight i b1 (by rw [hnd]; exact m1); rw [hnd] at this; exact this
  · intro b1 h1; have := inv.viewFrozen i b1 (by rw [hnd]; exact h1); rw [hnd] at this; exact this
  · intro b1 h1
    rcases List.mem_cons.mp h1 with e1 | m1
    · subst e1; intro _; exact Nat.le_of_eq hbv
    · have := inv.prepView i b1 (by rw [hnd]; exact m1); rw [hnd] at this; exact this
  · intro b1 b2 h1 h2 hh hv
    rcases List.mem_cons.mp h1 with e1 | m1 <;> rcases List.mem_cons.mp h2 with e2 | m2
    · rw [e1, e2]
    · subst e1; exact absurd ⟨by omega, by omega⟩ (hno b2 m2)
    · subst e2; exact absurd ⟨by omega, by omega⟩ (hno b1 m1)
    · exact inv.prepUniq i b1 b2 (by rw [hnd]; exact m1) (by rw [hnd]; exact m2) hh hv
  · intro b1 h1
    rcases List.mem_cons.mp h1 with e1 | m1
    · subst e1; exact g.preps _ _ hprimHas
    · exact g.preps _ _ (inv.prepFollows i b1 (by rw [hnd]; exact m1))
  · intro b1 h1; exact preparedBy_mono g b1 (inv.commitPrepared i b1 (by rw [hnd]; exact h1))
  · intro b1 h1
    rcases List.mem_cons.mp h1 with e1 | m1
    · subst e1; exact ⟨fun h => absurd h hnp, fun _ => hver⟩
    · exact inv.checked i b1 (by rw [hnd]; exact m1)
  · intro b1 h1; have := inv.chainHeight i b1 (by rw [hnd]; exact h1); rw [hnd] at this; exact this
  · have := inv.chainShape i; rw [hnd] at this; exact this

theorem prepared_imp {c : Cfg} {s : State} (inv : Inv c s) (i : Nat) (b : Block) (j : Nat)
    (h : prepared (s.nodes i).known b j = true) : b ∈ (s.nodes j).myPreps := by
  simp only [prepared, Bool.or_eq_true, decide_eq_true_eq] at h
  rcases h with h | h
  · exact (inv.knownProv i _ h).2.2
  · exact (inv.knownProv i _ h).2.2

theorem inv_sendCommit (c : Cfg) (s : State) (i : Nat) (b : Block) (inv : Inv c s)
    (en : Enabled c s (.sendCommit i b)) : Inv c (apply c s (.sendCommit i b)) := by
  obtain ⟨hi, hbh, hbv, hreq, hcnt, hno⟩ := en
  have hcnt' : c.m ≤ countP c.n (preparedBy s b) :=
    Nat.le_trans hcnt (countP_mono _ _ _ (fun j _ hj => by
      simp only [preparedBy, decide_eq_true_eq]; exact prepared_imp inv i b j hj))
  generalize hnd : s.nodes i = nd at *
  simp only [apply, hnd]
  have gp : ∀ b', b' ∈ (s.nodes i).myPreps → b' ∈ nd.myPreps := by
    intro b' h; rw [hnd] at h; exact h
  have gc : ∀ b', b' ∈ (s.nodes i).myCommits → b' ∈ b :: nd.myCommits := by
    intro b' h; rw [hnd] at h; exact List.mem_cons_of_mem _ h
  have g := grows_upd (s := s) (i := i)
    (nd' := { nd with known := addKnown nd.known (.commit i b), myCommits := b :: nd.myCommits })
    (net' := bcast c i (.item (.commit i b)) ++ s.net) gp gc
  have hnew : Prov c ⟨upd s.nodes i { nd with known := addKnown nd.known (.commit i b), myCommits := b :: nd.myCommits },
      bcast c i (.item (.commit i b)) ++ s.net⟩ (.commit i b) := by
    refine ⟨hi, ?_⟩
    show b ∈ (upd s.nodes i _ i).myCommits
    rw [upd_same]; exact List.mem_cons_self
  apply inv_node inv i { nd with known := addKnown nd.known (.commit i b), myCommits := b :: nd.myCommits }
    (bcast c i (.item (.commit i b)) ++ s.net) gp gc
  · intro it h
    rcases mem_addKnown.mp h with h | h
    · subst h; exact hnew
    · exact (inv.knownProv i it (by rw [hnd]; exact h)).mono g
  · intro to m h it hit
    rcases List.mem_append.mp h with h | h
    · rw [mem_bcast h] at hit; simp [Msg.items] at hit; subst hit; exact hnew
    · exact (inv.netProv to m h it hit).mono g
  · intro b1 b2 h1 h2 hh
    rcases List.mem_cons.mp h1 with e1 | m1 <;> rcases List.mem_cons.mp h2 with e2 | m2
    · rw [e1, e2]
    · subst e1; exact absurd (by omega) (hno b2 m2)
    · subst e2; exact absurd (by omega) (hno b1 m1)
    · exact inv.commitUniq i b1 b2 (by rw [hnd]; exact m1) (by rw [hnd]; exact m2) hh
  · intro b1 h1; exact signed_mono g b1 (inv.chainQuorum i b1 (by rw [hnd]; exact h1))
  · intro b1 h1
    rcases List.mem_cons.mp h1 with e1 | m1
    · subst e1; exact Nat.le_of_eq hbh
    · have := inv.commitHeight i b1 (by rw [hnd]; exact m1); rw [hnd] at this; exact this
  · intro b1 h1; have := inv.prepHeight i b1 (by rw [hnd]; exact h1); rw [hnd] at this; exact this
  · intro b1 h1
    rcases List.mem_cons.mp h1 with e1 | m1
    · subst e1; intro _; exact hbv
    · have := inv.viewFrozen i b1 (by rw [hnd]; exact m1); rw [hnd] at this; exact this
  · intro b1 h1; have := inv.prepView i b1 (by rw [hnd]; exact h1); rw [hnd] at this; exact this
  · intro b1 b2 h1 h2; exact inv.prepUniq i b1 b2 (by rw [hnd]; exact h1) (by rw [hnd]; exact h2)
  · intro b1 h1; exact g.preps _ _ (inv.prepFollows i b1 (by rw [hnd]; exact h1))
  · intro b1 h1
    rcases List.mem_cons.mp h1 with e1 | m1
    · subst e1; exact preparedBy_mono g b1 hcnt'
    · exact preparedBy_mono g b1 (inv.commitPrepared i b1 (by rw [hnd]; exact m1))
  · intro b1 h1; exact inv.checked i b1 (by rw [hnd]; exact h1)
  · intro b1 h1; have := inv.chainHeight i b1 (by rw [hnd]; exact h1); rw [hnd] at this; exact this
  · have := inv.chainShape i; rw [hnd] at this; exact this

theorem inv_changeView (c : Cfg) (s : State) (i nv : Nat) (inv : Inv c s)
    (en : Enabled c s (.changeView i nv)) : Inv c (apply c s (.changeView i nv)) := by
  obtain ⟨hi, hlt, hno, _⟩ := en
  generalize hnd : s.nodes i = nd at *
  simp only [apply, hnd]
  have gp : ∀ b', b' ∈ (s.nodes i).myPreps → b' ∈ nd.myPreps := by
    intro b' h; rw [hnd] at h; exact h
  have gc : ∀ b', b' ∈ (s.nodes i).myCommits → b' ∈ nd.myCommits := by
    intro b' h; rw [hnd] at h; exact h
  have g := grows_upd (s := s) (i := i) (nd' := { nd with view := nv }) (net' := s.net) gp gc
  apply inv_node inv i { nd with view := nv } s.net gp gc
  · intro it h; exact (inv.knownProv i it (by rw [hnd]; exact h)).mono g
  · intro to m h it hit; exact (inv.netProv to m h it hit).mono g
  · intro b1 b2 h1 h2; exact inv.commitUniq i b1 b2 (by rw [hnd]; exact h1) (by rw [hnd]; exact h2)
  · intro b1 h1; exact signed_mono g b1 (inv.chainQuorum i b1 (by rw [hnd]; exact h1))
  · intro b1 h1; have := inv.commitHeight i b1 (by rw [hnd]; exact h1); rw [hnd] at this; exact this
  · intro b1 h1; have := inv.prepHeight i b1 (by rw [hnd]; exact h1); rw [hnd] at this; exact this
  · intro b1 h1 hh; exact absurd hh (hno b1 h1)
  · intro b1 h1 hh
    have := inv.prepView i b1 (by rw [hnd]; exact h1); rw [hnd] at this
    have := this hh
    show b1.v ≤ nv
    omega
  · intro b1 b2 h1 h2; exact inv.prepUniq i b1 b2 (by rw [hnd]; exact h1) (by rw [hnd]; exact h2)
  · intro b1 h1; exact g.preps _ _ (inv.prepFollows i b1 (by rw [hnd]; exact h1))
  · intro b1 h1; exact preparedBy_mono g b1 (inv.commitPrepared i b1 (by rw [hnd]; exact h1))
  · intro b1 h1; exact inv.checked i b1 (by rw [hnd]; exact h1)
  · intro b1 h1; have := inv.chainHeight i b1 (by rw [hnd]; exact h1); rw [hnd] at this; exact this
  · have := inv.chainShape i; rw [hnd] at this; exact this

/-- moving validator `i` to the next height with a block that `M` validators signed -/
theorem inv_advance (c : Cfg) (s : State) (i : Nat) (b : Block) (inv : Inv c s)
    (hbh : b.h = (s.nodes i).height) (hq : c.m ≤ countP c.n (signed s b)) :
    Inv c { s with nodes := upd s.nodes i (nextHeight (s.nodes i) b) } := by
  generalize hnd : s.nodes i = nd at *
  have gp : ∀ b', b' ∈ (s.nodes i).myPreps → b' ∈ (nextHeight nd b).myPreps := by
    intro b' h; rw [hnd] at h; exact h
  have gc : ∀ b', b' ∈ (s.nodes i).myCommits → b' ∈ (nextHeight nd b).myCommits := by
    intro b' h; rw [hnd] at h; exact h
  have g := grows_upd (s := s) (i := i) (nd' := nextHeight nd b) (net' := s.net) gp gc
  apply inv_node inv i (nextHeight nd b) s.net gp gc
  · intro it h; exact (inv.knownProv i it (by rw [hnd]; exact h)).mono g
  · intro to m h it hit; exact (inv.netProv to m h it hit).mono g
  · intro b1 b2 h1 h2; exact inv.commitUniq i b1 b2 (by rw [hnd]; exact h1) (by rw [hnd]; exact h2)
  · intro b1 h1
    rcases List.mem_cons.mp h1 with e1 | m1
    · subst e1; exact signed_mono g b1 hq
    · exact signed_mono g b1 (inv.chainQuorum i b1 (by rw [hnd]; exact m1))
  · intro b1 h1
    have := inv.commitHeight i b1 (by rw [hnd]; exact h1); rw [hnd] at this
    show b1.h ≤ nd.height + 1
    omega
  · intro b1 h1
    have := inv.prepHeight i b1 (by rw [hnd]; exact h1); rw [hnd] at this
    show b1.h ≤ nd.height + 1
    omega
  · intro b1 h1 hh
    have := inv.commitHeight i b1 (by rw [hnd]; exact h1); rw [hnd] at this
    have hh : b1.h = nd.height + 1 := hh
    omega
  · intro b1 h1 hh
    have := inv.prepHeight i b1 (by rw [hnd]; exact h1); rw [hnd] at this
    have hh : b1.h = nd.height + 1 := hh
    omega
  · intro b1 b2 h1 h2; exact inv.prepUniq i b1 b2 (by rw [hnd]; exact h1) (by rw [hnd]; exact h2)
  · intro b1 h1; exact g.preps _ _ (inv.prepFollows i b1 (by rw [hnd]; exact h1))
  · intro b1 h1; exact preparedBy_mono g b1 (inv.commitPrepared i b1 (by rw [hnd]; exact h1))
  · intro b1 h1; exact inv.checked i b1 (by rw [hnd]; exact h1)
  · intro b1 h1
    show b1.h < nd.height + 1
    rcases List.mem_cons.mp h1 with e1 | m1
    · subst e1; omega
    · have := inv.chainHeight i b1 (by rw [hnd]; exact m1); rw [hnd] at this; omega
  · have := inv.chainShape i; rw [hnd] at this
    show ChainAt (b :: nd.chain) (nd.height + 1)
    exact ⟨by omega, by rw [hbh]; exact this⟩

theorem inv_accept (c : Cfg) (s : State) (i : Nat) (b : Block) (inv : Inv c s)
    (en : Enabled c s (.accept i b)) : Inv c (apply c s (.accept i b)) := by
  obtain ⟨hi, hbh, hbv, hreq, hcnt⟩ := en
  apply inv_advance c s i b inv hbh
  exact Nat.le_trans hcnt (countP_mono _ _ _ (fun j _ hj => by
    simp only [committed, decide_eq_true_eq] at hj
    simp only [signed, decide_eq_true_eq]
    exact (inv.knownProv i _ hj).2))

theorem blockAt_some {nd : Node} {h : Nat} {b : Block} (hb : blockAt nd h = some b) : b ∈ nd.chain ∧ b.h = h := by
  unfold blockAt at hb
  refine ⟨List.mem_of_find?_eq_some hb, ?_⟩
  have := List.find?_some hb
  simpa using this

theorem inv_syncBlock (c : Cfg) (s : State) (i j : Nat) (inv : Inv c s)
    (_en : Enabled c s (.syncBlock i j)) : Inv c (apply c s (.syncBlock i j)) := by
  simp only [apply]
  split
  · next b hb =>
    obtain ⟨hmem, hh⟩ := blockAt_some hb
    exact inv_advance c s i b inv hh (inv.chainQuorum j b hmem)
  · exact inv

/-- Every enabled step preserves the invariant. -/
theorem inv_step (c : Cfg) (s : State) (a : Action) (inv : Inv c s) (en : Enabled c s a) :
    Inv c (apply c s a) := by
  cases a with
  | sendPrepReq i p => exact inv_sendPrepReq c s i p inv en
  | sendPrepResp i b => exact inv_sendPrepResp c s i b inv en
  | sendCommit i b => exact inv_sendCommit c s i b inv en
  | changeView i nv => exact inv_changeView c s i nv inv en
  | accept i b => exact inv_accept c s i b inv en
  | syncBlock i j => exact inv_syncBlock c s i j inv en
  | deliver to m => exact inv_step_frame c s _ inv en trivial
  | drop to m => exact inv_step_frame c s _ inv en trivial
  | dup to m => exact inv_step_frame c s _ inv en trivial
  | timeout i => exact inv_step_frame c s _ inv en trivial
  | sendChangeView i => exact inv_step_frame c s _ inv en trivial
  | sendRecReq i => exact inv_step_frame c s _ inv en trivial
  | sendRecMsg i its => exact inv_step_frame c s _ inv en trivial

theorem inv_reachable (c : Cfg) (s : State) (h : Reachable c s) : Inv c s := by
  induction h with
  | init => exact inv_init c
  | step a _ en ih => exact inv_step c _ a ih en

end NeoModel.Dbft
