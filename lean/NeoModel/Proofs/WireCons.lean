/-
C17 — lawfulness of the dBFT message codecs.
-/
import NeoModel.Model.Wire.Cons
import NeoModel.Proofs.WireTx
namespace NeoModel.Wire
open Codec
open NeoModel.Generated

/-! ### dBFT messages (pkg/consensus) -/

theorem hashesC_lawful (max : Nat) : (hashesC max).Lawful := array_lawful (fixed_lawful 32) (fixed_strict 32 (by decide))

theorem cvTail_facts (b : Bool) :
    (if b then hashesC WireLimits.maxTransactionsPerBlock else const ([] : List Bytes)).Lawful
    ∧ (if b then hashesC WireLimits.maxTransactionsPerBlock else const ([] : List Bytes)).allocK ≤ WireLimits.slotUint256
    ∧ (if b then hashesC WireLimits.maxTransactionsPerBlock else const ([] : List Bytes)).allocC
        ≤ WireLimits.maxTransactionsPerBlock * WireLimits.slotUint256 := by
  cases b
  · exact ⟨const_lawful _, by simp [const], by simp [const]⟩
  · exact ⟨hashesC_lawful _, by simp [hashesC, array, fixed], by simp [hashesC, array, fixed]⟩

theorem changeViewC_lawful : changeViewC.Lawful :=
  map_lawful (bind_lawful (seq_lawful (uintLE_lawful 8) byte_lawful) (fun p => (cvTail_facts _).1)
    (fun p => (cvTail_facts _).2.1) (fun p => (cvTail_facts _).2.2)) (fun _ _ => rfl)

theorem prepareRequestC_lawful (sr : Bool) : (prepareRequestC sr).Lawful :=
  map_lawful (seq_lawful (uintLE_lawful 4) (seq_lawful (fixed_lawful 32) (seq_lawful (uintLE_lawful 8)
    (seq_lawful (uintLE_lawful 8) (seq_lawful (hashesC_lawful _) (srRoot_lawful sr)))))) (fun _ _ => rfl)

theorem cvCompactC_lawful : cvCompactC.Lawful :=
  map_lawful (seq_lawful byte_lawful (seq_lawful byte_lawful (seq_lawful (uintLE_lawful 8) (varBytes_lawful _)))) (fun _ _ => rfl)
theorem cvCompactC_strict : cvCompactC.Strict :=
  map_strict (seq_strict_left byte_strict (seq_lawful byte_lawful (seq_lawful (uintLE_lawful 8) (varBytes_lawful _))))
theorem commitCompactC_lawful : commitCompactC.Lawful :=
  map_lawful (seq_lawful byte_lawful (seq_lawful byte_lawful (seq_lawful (fixed_lawful 64) (varBytes_lawful _)))) (fun _ _ => rfl)
theorem commitCompactC_strict : commitCompactC.Strict :=
  map_strict (seq_strict_left byte_strict (seq_lawful byte_lawful (seq_lawful (fixed_lawful 64) (varBytes_lawful _))))
theorem prepCompactC_lawful : prepCompactC.Lawful :=
  map_lawful (seq_lawful byte_lawful (varBytes_lawful _)) (fun _ _ => rfl)
theorem prepCompactC_strict : prepCompactC.Strict :=
  map_strict (seq_strict_left byte_strict (varBytes_lawful _))

theorem msgHeaderC_lawful : msgHeaderC.Lawful :=
  map_lawful (seq_lawful byte_lawful (seq_lawful (uintLE_lawful 4) (seq_lawful byte_lawful byte_lawful))) (fun _ _ => rfl)
theorem msgHeaderC_strict : msgHeaderC.Strict :=
  map_strict (seq_strict_left byte_strict (seq_lawful (uintLE_lawful 4) (seq_lawful byte_lawful byte_lawful)))

theorem prepHashC_lawful : prepHashC.Lawful where
  roundtrip v r hw := by
    cases v with
    | none => simp [prepHashC, readVarUint]
    | some h =>
      simp only [prepHashC] at hw
      have ht : takeN 32 (h ++ r) = some (h, r) := by have := takeN_append h r; rw [hw] at this; exact this
      simp [prepHashC, readVarUint, ht]
  dec_wf b v r hd := by
    simp only [prepHashC] at hd
    split at hd
    · simp at hd
    · rename_i n r' hn
      split at hd
      · simp at hd; rw [← hd.1]; trivial
      · split at hd
        · simp only [Option.map_eq_some_iff] at hd
          obtain ⟨⟨h, r''⟩, hh, he⟩ := hd
          simp at he
          rw [← he.1]; exact (takeN_some hh).1
        · simp at hd
  dec_suffix b v r hd := by
    simp only [prepHashC] at hd
    split at hd
    · simp at hd
    · rename_i n r' hn
      obtain ⟨p, hp⟩ := (readVarUint_suffix hn).1
      split at hd
      · simp at hd; exact ⟨p, by rw [hp, hd.2]⟩
      · split at hd
        · simp only [Option.map_eq_some_iff] at hd
          obtain ⟨⟨h, r''⟩, hh, he⟩ := hd
          simp at he
          exact ⟨p ++ h, by rw [hp, (takeN_some hh).2, he.2]; simp⟩
        · simp at hd
  size_eq v hw := by
    cases v with
    | none => rfl
    | some h => simp only [prepHashC] at hw ⊢; simp [hw]
  alloc_ok _ _ _ _ := by simp [prepHashC]
  alloc_fail _ _ := by simp [prepHashC]

theorem embeddedReqC_lawful (sr : Bool) : (embeddedReqC sr).Lawful :=
  seq_lawful (refine_lawful msgHeaderC_lawful) (prepareRequestC_lawful sr)

theorem prepareRequestC_allocK (sr : Bool) : (prepareRequestC sr).allocK = WireLimits.slotUint256 := by
  cases sr <;> simp [prepareRequestC, map, seq_allocK, hashesC, array, fixed, uintLE, const] <;> decide
theorem prepareRequestC_allocC (sr : Bool) :
    (prepareRequestC sr).allocC = WireLimits.maxTransactionsPerBlock * WireLimits.slotUint256 := by
  cases sr <;> simp [prepareRequestC, map, seq_allocC, hashesC, array, fixed, uintLE, const] <;> decide

theorem prepInfoBody_facts (sr hasReq : Bool) : (prepInfoBody sr hasReq).Lawful
    ∧ (prepInfoBody sr hasReq).allocK ≤ WireLimits.slotUint256
    ∧ (prepInfoBody sr hasReq).allocC ≤ WireLimits.maxTransactionsPerBlock * WireLimits.slotUint256 := by
  cases hasReq
  · refine ⟨?_, by simp [prepInfoBody, map, prepHashC], by simp [prepInfoBody, map, prepHashC]⟩
    simp only [prepInfoBody, Bool.false_eq_true, if_false]
    exact map_lawful prepHashC_lawful (by intro a _; cases a <;> rfl)
  · refine ⟨?_, ?_, ?_⟩
    · simp only [prepInfoBody, if_true]
      exact map_lawful (embeddedReqC_lawful sr) (fun _ _ => rfl)
    · simp only [prepInfoBody, if_true, map, embeddedReqC, seq_allocK, refine, msgHeaderC, byte, uintLE,
        prepareRequestC_allocK]
      decide
    · simp only [prepInfoBody, if_true, map, embeddedReqC, seq_allocC, refine, msgHeaderC, byte, uintLE,
        prepareRequestC_allocC]
      decide

theorem prepInfoC_lawful (sr : Bool) : (prepInfoC sr).Lawful :=
  map_lawful (bind_lawful boolC_lawful (fun f => (prepInfoBody_facts sr f).1) (fun f => (prepInfoBody_facts sr f).2.1)
    (fun f => (prepInfoBody_facts sr f).2.2)) (by
    intro a hw
    obtain ⟨flag, info⟩ := a
    obtain ⟨_, hb⟩ := hw
    simp only at hb
    cases flag
    · simp only [prepInfoBody, Bool.false_eq_true, if_false, map] at hb
      cases info with
      | request h p => simp at hb
      | hash h => rfl
      | none => rfl
    · simp only [prepInfoBody, if_true, map] at hb
      cases info with
      | request h p => rfl
      | hash h => simp at hb
      | none => simp at hb)

theorem recoveryC_lawful (sr : Bool) : (recoveryC sr).Lawful :=
  map_lawful (seq_lawful (array_lawful cvCompactC_lawful cvCompactC_strict) (seq_lawful (prepInfoC_lawful sr)
    (seq_lawful (array_lawful prepCompactC_lawful prepCompactC_strict)
      (array_lawful commitCompactC_lawful commitCompactC_strict)))) (fun _ _ => rfl)

theorem recoveryC_allocK (sr : Bool) : (recoveryC sr).allocK ≤ consK := by
  simp only [recoveryC, map, seq_allocK, array, prepInfoC, Codec.bind, cvCompactC, prepCompactC, commitCompactC, boolC,
    byte, uintLE, fixed, varBytes, consK]
  decide
theorem recoveryC_allocC (sr : Bool) : (recoveryC sr).allocC ≤ consCap := by
  simp only [recoveryC, map, seq_allocC, array, prepInfoC, Codec.bind, cvCompactC, prepCompactC, commitCompactC, boolC,
    byte, uintLE, fixed, varBytes, consCap]
  decide

theorem changeViewC_alloc : changeViewC.allocK ≤ consK ∧ changeViewC.allocC ≤ consCap := by
  simp only [changeViewC, map, Codec.bind, seq_allocK, seq_allocC, uintLE, byte, consK, consCap]
  constructor <;> decide

theorem consBodyC_facts (sr : Bool) (t : UInt8) :
    (consBodyC sr t).Lawful ∧ (consBodyC sr t).allocK ≤ consK ∧ (consBodyC sr t).allocC ≤ consCap := by
  unfold consBodyC
  split
  · exact ⟨map_lawful changeViewC_lawful (fun _ _ => rfl), changeViewC_alloc.1, changeViewC_alloc.2⟩
  · split
    · refine ⟨map_lawful (prepareRequestC_lawful sr) (fun _ _ => rfl), ?_, ?_⟩
      · simp only [map, prepareRequestC_allocK, consK]; decide
      · simp only [map, prepareRequestC_allocC, consCap]; decide
    · split
      · exact ⟨map_lawful (fixed_lawful 32) (fun _ _ => rfl), by simp [map, fixed], by simp [map, fixed]⟩
      · split
        · exact ⟨map_lawful (fixed_lawful 64) (fun _ _ => rfl), by simp [map, fixed], by simp [map, fixed]⟩
        · split
          · exact ⟨map_lawful (uintLE_lawful 8) (fun _ _ => rfl), by simp [map, uintLE], by simp [map, uintLE]⟩
          · split
            · exact ⟨map_lawful (recoveryC_lawful sr) (fun _ _ => rfl), recoveryC_allocK sr, recoveryC_allocC sr⟩
            · exact ⟨fail_lawful _, by simp [fail], by simp [fail]⟩

theorem consPayloadC_lawful (sr : Bool) : (consPayloadC sr).Lawful := refine_lawful extensibleC_lawful

/-- C17 (dBFT message): all laws. -/
theorem consMsgC_lawful (sr : Bool) : (consMsgC sr).Lawful :=
  map_lawful (bind_lawful msgHeaderC_lawful (fun h => (consBodyC_facts sr h.typ).1)
    (fun h => (consBodyC_facts sr h.typ).2.1) (fun h => (consBodyC_facts sr h.typ).2.2)) (fun _ _ => rfl)

theorem consMsgC_strict (sr : Bool) : (consMsgC sr).Strict :=
  map_strict (bind_strict_left msgHeaderC_strict (fun h => (consBodyC_facts sr h.typ).1))

end NeoModel.Wire

