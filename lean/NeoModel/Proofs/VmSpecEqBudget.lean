/-
C13 — the budgets at which EQUAL on Structs FAULTs, as theorems: comparing two distinct Structs with the same
`n` fields, none of them a ByteString or a Struct, is defined (and true) iff `n ≤ 2046`
(MaxComparableNumOfItems − 1 for the Struct itself, and the budget must stay positive); a Struct holding one
ByteString field of `L` bytes is comparable iff `L ≤ 65536` (MaxByteArrayComparableSize).
-/
import NeoModel.Proofs.VmSpecStructEq
open NeoModel NeoModel.Vm
namespace NeoModel.Vm.Spec

/-- a field that is neither a ByteString nor a Struct. -/
def plainField (a : Item) : Prop := (∀ x, a ≠ .bytes x) ∧ (∀ i, a ≠ .struct i)

theorem simpleEquals_self (a : Item) (h : plainField a) : simpleEquals a a = true := by
  cases a <;> first | exact absurd rfl (h.1 _) | simp [simpleEquals]

theorem equalFields_plain (rec : Nat → Nat → Nat → Option (Bool × Nat)) :
    ∀ (xs : List Item) (cnt sz : Nat), (∀ a ∈ xs, plainField a) → xs ≠ [] →
      equalFields rec xs xs cnt sz = if xs.length < cnt ∧ xs.length ≤ sz then some (true, cnt - xs.length) else none := by
  intro xs
  induction xs with
  | nil => intro _ _ _ h; exact absurd rfl h
  | cons a as ih =>
    intro cnt sz hp _
    have ha := hp a (List.mem_cons_self)
    have hse := simpleEquals_self a ha
    have hstep : equalFields rec (a :: as) (a :: as) cnt sz =
        if cnt ≤ 1 then none else if sz = 0 then none else equalFields rec as as (cnt - 1) (sz - 1) := by
      simp only [equalFields]
      split
      · rfl
      · cases a <;> first
          | exact absurd rfl (ha.1 _)
          | exact absurd rfl (ha.2 _)
          | (simp only [hse, if_true])
    rw [hstep]
    by_cases h1 : cnt ≤ 1
    · have : ¬ ((a :: as).length < cnt ∧ (a :: as).length ≤ sz) := by simp only [List.length_cons]; omega
      rw [if_pos h1, if_neg this]
    · by_cases h2 : sz = 0
      · have : ¬ ((a :: as).length < cnt ∧ (a :: as).length ≤ sz) := by simp only [List.length_cons]; omega
        rw [if_neg h1, if_pos h2, if_neg this]
      · simp only [h1, h2, if_false]
        cases as with
        | nil =>
          have : ([a].length < cnt ∧ [a].length ≤ sz) := by simp only [List.length_singleton]; omega
          rw [if_pos this]
          simp [equalFields]
        | cons b bs =>
          rw [ih (cnt - 1) (sz - 1) (fun x hx => hp x (List.mem_cons_of_mem _ hx)) (by simp)]
          simp only [List.length_cons]
          by_cases hc : bs.length + 1 < cnt - 1 ∧ bs.length + 1 ≤ sz - 1
          · have : bs.length + 1 + 1 < cnt ∧ bs.length + 1 + 1 ≤ sz := by omega
            simp only [hc, this, and_self, if_true]
            congr 2; omega
          · have : ¬ (bs.length + 1 + 1 < cnt ∧ bs.length + 1 + 1 ≤ sz) := by omega
            simp [hc, this]

/-- **struct_equal_count_budget.** Two distinct Structs with the same `n ≥ 1` plain fields: EQUAL is defined — and
true — iff `n ≤ 2046`; with 2047 or more fields it FAULTs. -/
theorem struct_equal_count_budget (h : Heap) (i j : Nat) (xs : List Item) (hij : i ≠ j)
    (hi : h.getItems i = some xs) (hj : h.getItems j = some xs) (hp : ∀ a ∈ xs, plainField a) (hne : xs ≠ []) :
    itemEquals h (.struct i) (.struct j) = if xs.length ≤ 2046 then some true else none := by
  simp only [itemEquals, equalStructAux, hij, if_false, hi, hj, ne_eq, not_true_eq_false]
  rw [equalFields_plain _ xs _ _ hp hne]
  by_cases hl : xs.length ≤ 2046
  · have : xs.length < maxComparableItems - 1 ∧ xs.length ≤ maxComparableSize := by
      simp [maxComparableItems, maxComparableSize]; omega
    simp [hl, this]
  · have : ¬ (xs.length < maxComparableItems - 1 ∧ xs.length ≤ maxComparableSize) := by
      simp [maxComparableItems, maxComparableSize]; omega
    simp [hl, this]

/-- **struct_equal_bytes_budget.** Two distinct Structs each holding the one ByteString field `x`: EQUAL is defined
(and true) iff `|x| ≤ 65536`. -/
theorem struct_equal_bytes_budget (h : Heap) (i j : Nat) (x : Bytes) (hij : i ≠ j)
    (hi : h.getItems i = some [.bytes x]) (hj : h.getItems j = some [.bytes x]) :
    itemEquals h (.struct i) (.struct j) = if x.length ≤ 65536 then some true else none := by
  simp only [itemEquals, equalStructAux, hij, if_false, hi, hj, ne_eq, not_true_eq_false, equalFields,
    bytesEqualsLimited]
  by_cases hl : x.length ≤ 65536
  · have h1 : ¬ (x.length > maxComparableSize ∨ maxComparableSize = 0) := by simp [maxComparableSize]; omega
    have h2 : ¬ x.length > maxComparableSize := by simp [maxComparableSize]; omega
    have h3 : maxComparableSize ≠ 0 := by simp [maxComparableSize]
    simp [hl, h1, h2, h3, maxComparableItems]
  · have h1 : (x.length > maxComparableSize ∨ maxComparableSize = 0) := Or.inl (by simp [maxComparableSize]; omega)
    simp [hl, h1, maxComparableItems]

example : itemEquals #[.items [.null, .bool true], .items [.null, .bool true]] (.struct 0) (.struct 1) = some true := by
  rw [struct_equal_count_budget _ 0 1 [.null, .bool true] (by decide) rfl rfl
    (by intro a ha; simp at ha; rcases ha with rfl | rfl <;> exact ⟨fun x hx => (by cases hx), fun i hi => (by cases hi)⟩) (by simp)]
  rfl

end NeoModel.Vm.Spec
