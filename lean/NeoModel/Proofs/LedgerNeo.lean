/-
C01 — NEO side: every transaction either sets votesChanged or leaves the inputs of the committee computation
alone (block/unblock mark the committee outdated since fix d4da6a2); the adequacy invariant `NeoGood` and its
preservation over OnPersist / transactions / PostPersist.
-/
import NeoModel.Proofs.LedgerPolicy
namespace NeoModel.Ledger.Natives

-- ---------------------------------------------------------------------------------------------
-- touched: every successful vote-changing helper sets the flag

theorem modifyAccountVotes_touched {v v' : TxView} {vt d n} (h : modifyAccountVotes v vt d n = some v') : v'.touched = true := by
  unfold modifyAccountVotes at h
  cases vt with
  | none => simp [setVotesChanged] at h; subst h; rfl
  | some k =>
    simp only [setVotesChanged, Option.map_eq_some_iff] at h
    obtain ⟨cs, _, rfl⟩ := h
    rfl

theorem applyDelta_touched {v v' : TxView} {a b d} (h : applyDelta v a b d = some v') : v'.touched = true := by
  simp only [applyDelta, Option.map_eq_some_iff] at h
  obtain ⟨w, hw, rfl⟩ := h
  exact (modifyAccountVotes_touched hw : w.touched = true)

theorem incBalance_same_or_touched {v v' : TxView} {a d r} (h : incBalance v a d r = some v') :
    v' = v ∨ v'.touched = true := by
  unfold incBalance at h
  split at h
  · split at h; · simp at h
    split at h; · simp at h
    split at h
    · simp at h; exact Or.inl h.symm
    · exact Or.inr (applyDelta_touched h)
  · split at h; · simp at h
    split at h
    · simp at h; exact Or.inl h.symm
    · exact Or.inr (applyDelta_touched h)

theorem voteInternal_touched {v v' : TxView} {a to} (h : voteInternal v a to = some v') : v'.touched = true := by
  simp only [voteInternal, Option.bind_eq_some_iff] at h
  obtain ⟨b, _, h⟩ := h
  split at h; · simp at h
  simp only [Option.bind_eq_some_iff, Option.map_eq_some_iff] at h
  obtain ⟨w1, _, w2, h2, rfl⟩ := h
  exact (modifyAccountVotes_touched h2 : w2.touched = true)

theorem revokeVotes_same_or_touched (v : TxView) (a : Acct) : revokeVotes v a = v ∨ (revokeVotes v a).touched = true := by
  unfold revokeVotes
  cases h : voteInternal v a none with
  | none => exact Or.inl rfl
  | some w => exact Or.inr (voteInternal_touched h)

/-- the part of the storage `computeCommittee` reads. -/
def sameInputs (a b : Storage) : Prop :=
  a.cands = b.cands ∧ a.votersCount = b.votersCount ∧ eligible a.cands a.blocked = eligible b.cands b.blocked

theorem compute_of_sameInputs (cfg : Cfg) {a b : Storage} (h : sameInputs a b) :
    computeCommittee cfg a a.blocked = computeCommittee cfg b b.blocked := by
  obtain ⟨_, h2, h3⟩ := h
  unfold computeCommittee
  rw [h2, h3]

theorem sameInputs_refl (a : Storage) : sameInputs a a := ⟨rfl, rfl, rfl⟩

/-- blocking either changes nothing (already blocked) or marks the committee outdated. -/
theorem blockInternal_same_or_touched (v : TxView) (a : Acct) :
    (blockInternal v a).1 = v ∨ (blockInternal v a).1.touched = true := by
  unfold blockInternal
  split
  · exact Or.inl rfl
  · exact Or.inr rfl

/-- Every transaction either marks votesChanged or leaves the inputs of the committee computation (candidates,
    voters count, blocked list) untouched. -/
theorem execOp_inputs (v : TxView) (tx : Tx) :
    (execOp v tx).1.touched = true ∨
    (sameInputs (execOp v tx).1.st v.st ∧ (execOp v tx).1.st.committee = v.st.committee ∧ (execOp v tx).1.committee = v.committee) := by
  have keep : sameInputs v.st v.st ∧ v.st.committee = v.st.committee ∧ v.committee = v.committee := ⟨sameInputs_refl _, rfl, rfl⟩
  unfold execOp
  split
  · -- transfer
    split; · exact Or.inr keep
    split; · exact Or.inr keep
    dsimp only
    split
    · exact Or.inr keep
    · rename_i w1 hw1
      rcases incBalance_same_or_touched hw1 with e1 | t1
      · subst e1
        split; · exact Or.inr keep
        split
        · exact Or.inr keep
        · rename_i w2 hw2
          rcases incBalance_same_or_touched hw2 with e2 | t2
          · subst e2; exact Or.inr keep
          · exact Or.inl t2
      · split; · exact Or.inl t1
        split
        · exact Or.inl t1
        · rename_i w2 hw2
          rcases incBalance_same_or_touched hw2 with e2 | t2
          · subst e2; exact Or.inl t1
          · exact Or.inl t2
  · split; · exact Or.inr keep
    split
    · exact Or.inr keep
    · rename_i w' hw'; exact Or.inl (voteInternal_touched hw')
  · split
    · exact Or.inl rfl
    · split
      · exact Or.inr keep
      · exact Or.inl rfl
  · split; · exact Or.inr keep
    split
    · exact Or.inr keep
    · exact Or.inl rfl
  · split; · exact Or.inr keep
    split; · exact Or.inr keep
    exact Or.inr ⟨⟨rfl, rfl, rfl⟩, rfl, rfl⟩
  · split; · exact Or.inr keep
    split; · exact Or.inr keep
    exact Or.inr ⟨⟨rfl, rfl, rfl⟩, rfl, rfl⟩
  · split; · exact Or.inr keep
    split; · exact Or.inr keep
    exact Or.inr ⟨⟨rfl, rfl, rfl⟩, rfl, rfl⟩
  · -- block
    rename_i a _
    split; · exact Or.inr keep
    rcases blockInternal_same_or_touched v a with h | h
    · dsimp only; rw [h]; exact Or.inr keep
    · exact Or.inl h
  · -- unblock
    split; · exact Or.inr keep
    split; · exact Or.inr keep
    exact Or.inl rfl
  · split
    · exact Or.inr keep
    · exact Or.inr ⟨⟨rfl, rfl, rfl⟩, rfl, rfl⟩
  · -- destroy
    rename_i c _
    split; · exact Or.inr keep
    rcases blockInternal_same_or_touched v c with h | h
    · dsimp only; rw [h]; exact Or.inr ⟨⟨rfl, rfl, rfl⟩, rfl, rfl⟩
    · exact Or.inl h
  · -- recoverFund (NEO)
    split; · exact Or.inr keep
    split
    · exact Or.inr keep
    · split; · exact Or.inr keep
      split
      · exact Or.inr keep
      · rename_i w1 hw1
        split
        · exact Or.inr keep
        · rename_i w2 hw2
          rcases incBalance_same_or_touched hw2 with e2 | t2
          · subst e2
            rcases incBalance_same_or_touched hw1 with e1 | t1
            · subst e1; exact Or.inr keep
            · exact Or.inl t1
          · exact Or.inl t2
  · split; · exact Or.inr keep
    split
    · exact Or.inr keep
    · exact Or.inr keep
  · exact Or.inr keep
  · exact Or.inr keep

theorem blockInternal_scm (v : TxView) (a : Acct) : (blockInternal v a).1.st.committee = v.st.committee := by
  unfold blockInternal
  split
  · rfl
  · exact (revokeVotes_frame v a).scm

/-- no transaction writes the committee record (only OnPersist does). -/
theorem execOp_scm (v : TxView) (tx : Tx) : (execOp v tx).1.st.committee = v.st.committee := by
  unfold execOp
  split
  · split; · rfl
    split; · rfl
    dsimp only
    split
    · rfl
    · rename_i w1 hw1
      have h1 := (incBalance_frame hw1).scm
      split; · exact h1
      split
      · exact h1
      · rename_i w2 hw2; exact ((incBalance_frame hw2).scm).trans h1
  · split; · rfl
    split
    · rfl
    · rename_i w' hw'; exact (voteInternal_frame hw').scm
  · split
    · rfl
    · split
      · rfl
      · rfl
  · split; · rfl
    split
    · rfl
    · rfl
  · split; · rfl
    split; · rfl
    rfl
  · split; · rfl
    split; · rfl
    rfl
  · split; · rfl
    split; · rfl
    rfl
  · split; · rfl
    exact blockInternal_scm v _
  · split; · rfl
    split; · rfl
    rfl
  · split
    · rfl
    · rfl
  · split; · rfl
    rename_i c _ _
    exact blockInternal_scm v c
  · split; · rfl
    split
    · rfl
    · split; · rfl
      split
      · rfl
      · rename_i w1 hw1
        split
        · rfl
        · rename_i w2 hw2; exact ((incBalance_frame hw2).scm).trans (incBalance_frame hw1).scm
  · split; · rfl
    split
    · rfl
    · rfl
  · rfl
  · rfl

def pinned (cfg : Cfg) (st : Storage) (h : Nat) : List (Key × Int) :=
  if isEpochStart cfg (h + 1) then computeCommittee cfg st st.blocked else st.committee

/-- What makes a NEO cache adequate for storage `st` at tip height `h` (everything but the flag is pinned
    by the storage; the flag may be false only if nothing the committee depends on has changed). -/
structure NeoGood (cfg : Cfg) (st : Storage) (n : NeoCache) (h : Nat) : Prop where
  cm : n.committee = st.committee
  nv : n.nextValidators = validatorsOf cfg st.committee
  ne : n.newEpochCommittee = pinned cfg st h
  nev : n.newEpochNextValidators = validatorsOf cfg (pinned cfg st h)
  fresh : n.votesChanged = false → computeCommittee cfg st st.blocked = st.committee

/-- invariant inside a block (after OnPersist, between transactions). -/
structure Mid (cfg : Cfg) (w : World) : Prop where
  pol : PolCohW w
  cm : w.c.neo.committee = w.st.committee
  nv : w.c.neo.nextValidators = validatorsOf cfg w.st.committee
  ne : w.c.neo.newEpochCommittee = w.st.committee
  nev : w.c.neo.newEpochNextValidators = validatorsOf cfg w.st.committee
  fresh : w.c.neo.votesChanged = false → computeCommittee cfg w.st w.st.blocked = w.st.committee

theorem onPersist_mid (cfg : Cfg) (st : Storage) (c : Caches) (h : Nat)
    (hp : c.policy = initPolicy st) (hg : NeoGood cfg st c.neo h) : Mid cfg (onPersist cfg { st := st, c := c } (h + 1)) := by
  unfold onPersist
  split
  · rename_i he
    have hpin : pinned cfg st h = computeCommittee cfg st st.blocked := by simp [pinned, he]
    refine ⟨?_, rfl, ?_, ?_, ?_, ?_⟩
    · exact hp
    · simp only []; rw [hg.nev, hg.ne]
    · simp only []
    · simp only []; rw [hg.nev, hg.ne]
    · intro _
      simp only []
      rw [hg.ne, hpin]
      exact compute_of_sameInputs cfg ⟨rfl, rfl, rfl⟩
  · rename_i he
    have hpin : pinned cfg st h = st.committee := by simp [pinned, he]
    exact ⟨hp, hg.cm, hg.nv, by rw [hg.ne, hpin], by rw [hg.nev, hpin], hg.fresh⟩

theorem execTx_mid (cfg : Cfg) (w : World) (tx : Tx) (hm : Mid cfg w) :
    Mid cfg (execTx w tx).1 := by
  unfold execTx
  split; · exact hm
  have hv : PolCoh (viewOf w) := hm.pol
  have h1 := execOp_polcoh (viewOf w) tx hv
  have h2 := execOp_scm (viewOf w) tx
  have h3 := execOp_inputs (viewOf w) tx
  revert h1 h2 h3
  generalize execOp (viewOf w) tx = p
  obtain ⟨v, r⟩ := p
  intro h1 h2 h3
  dsimp only at h1 h2 h3 ⊢
  split
  · exact hm
  · have hc : v.st.committee = w.st.committee := h2
    refine ⟨h1, ?_, ?_, ?_, ?_, ?_⟩
    · simp only []; rw [hc]; exact hm.cm
    · simp only []; rw [hc]; exact hm.nv
    · simp only []; rw [hc]; exact hm.ne
    · simp only []; rw [hc]; exact hm.nev
    · intro hf
      simp only [Bool.or_eq_false_iff] at hf
      rcases h3 with ht | ⟨hi, _, _⟩
      · rw [ht] at hf; exact absurd hf.2 (by simp)
      · simp only []
        rw [compute_of_sameInputs cfg hi, hc]
        exact hm.fresh hf.1

theorem execTxs_mid (cfg : Cfg) (txs : List Tx) : ∀ (w : World), Mid cfg w → Mid cfg (execTxs w txs).1 := by
  induction txs with
  | nil => intro w h; exact h
  | cons tx rest ih =>
    intro w h
    simp only [execTxs]
    exact ih _ (execTx_mid cfg w tx h)

theorem postPersist_good (cfg : Cfg) (w : World) (h : Nat) (hm : Mid cfg w) :
    PolCohW (postPersist cfg w h) ∧ NeoGood cfg (postPersist cfg w h).st (postPersist cfg w h).c.neo h := by
  refine ⟨postPersist_polcoh cfg w h hm.pol, ?_⟩
  unfold postPersist
  split
  · rename_i he
    have hpin : pinned cfg w.st h = computeCommittee cfg w.st w.st.blocked := by simp [pinned, he]
    dsimp only
    split
    · -- recomputed from storage (the Policy cache's blocked list = storage's)
      have hb : w.c.policy.blocked = w.st.blocked := by have := hm.pol; unfold PolCohW at this; rw [this]; rfl
      refine ⟨hm.cm, hm.nv, ?_, ?_, hm.fresh⟩
      · simp only []; rw [hpin, hb]
      · simp only []; rw [hpin, hb]
    · rename_i hc
      have hvc : w.c.neo.votesChanged = false := by
        cases hvv : w.c.neo.votesChanged with
        | false => rfl
        | true => simp [hvv] at hc
      have hf := hm.fresh hvc
      refine ⟨hm.cm, hm.nv, ?_, ?_, hm.fresh⟩
      · rw [hpin, hf]; exact hm.ne
      · rw [hpin, hf]; exact hm.nev
  · rename_i he
    have hpin : pinned cfg w.st h = w.st.committee := by simp [pinned, he]
    exact ⟨hm.cm, hm.nv, by rw [hpin]; exact hm.ne, by rw [hpin]; exact hm.nev, hm.fresh⟩

/-- cache_coherent (NEO): over any block an adequate NEO cache stays adequate, and the Policy cache stays equal
    to InitializeCache(storage). -/
theorem applyBlock_good (cfg : Cfg) (st : Storage) (c : Caches) (h : Nat) (txs : List Tx)
    (hp : c.policy = initPolicy st) (hg : NeoGood cfg st c.neo h) :
    (applyBlock cfg st c (h + 1) txs).2.1.policy = initPolicy (applyBlock cfg st c (h + 1) txs).1 ∧
    NeoGood cfg (applyBlock cfg st c (h + 1) txs).1 (applyBlock cfg st c (h + 1) txs).2.1.neo (h + 1) := by
  have h0 := onPersist_mid cfg st c h hp hg
  have h1 := execTxs_mid cfg txs _ h0
  exact postPersist_good cfg _ (h + 1) h1

end NeoModel.Ledger.Natives
