/-
Helper lemmas for C18 / Base58, Base58Check, address, WIF: positional digits in any base ≥ 2,
leading-zero handling.
-/
import NeoModel.Model.Codec.Base58
namespace NeoModel.Codec

/-- induction adding elements at the end. -/
theorem snocInduction {α : Type} {motive : List α → Prop} (nil : motive [])
    (append_singleton : ∀ l a, motive l → motive (l ++ [a])) : ∀ l, motive l := by
  intro l
  have : ∀ r : List α, motive r.reverse := by
    intro r
    induction r with
    | nil => exact nil
    | cons a r ih => simpa using append_singleton _ a ih
  simpa using this l.reverse

/-! ### positional digits -/

theorem digitsLE_pos (b n : Nat) (hb : 2 ≤ b) (hn : 0 < n) : digitsLE b n = n % b :: digitsLE b (n / b) := by
  rw [digitsLE]; simp [hb, hn]

theorem digitsLE_zero (b : Nat) : digitsLE b 0 = [] := by
  rw [digitsLE]; simp

theorem toDigitsBE_pos (b n : Nat) (hb : 2 ≤ b) (hn : 0 < n) :
    toDigitsBE b n = toDigitsBE b (n / b) ++ [n % b] := by
  simp [toDigitsBE, digitsLE_pos b n hb hn]

theorem toDigitsBE_zero (b : Nat) : toDigitsBE b 0 = [] := by simp [toDigitsBE, digitsLE_zero]

theorem ofDigitsBE_snoc (b : Nat) (ds : List Nat) (d : Nat) : ofDigitsBE b (ds ++ [d]) = ofDigitsBE b ds * b + d := by
  simp [ofDigitsBE, List.foldl_append]

theorem ofDigitsBE_nil (b : Nat) : ofDigitsBE b [] = 0 := rfl

theorem ofDigits_toDigits (b : Nat) (hb : 2 ≤ b) (n : Nat) : ofDigitsBE b (toDigitsBE b n) = n := by
  induction n using Nat.strongRecOn with
  | _ n ih =>
    by_cases hn : n = 0
    · subst hn; rw [toDigitsBE_zero]; rfl
    · have hpos : 0 < n := Nat.pos_of_ne_zero hn
      rw [toDigitsBE_pos b n hb hpos, ofDigitsBE_snoc, ih (n / b) (Nat.div_lt_self hpos hb)]
      exact Nat.div_add_mod' n b

theorem toDigits_lt (b : Nat) (hb : 2 ≤ b) (n : Nat) : ∀ d ∈ toDigitsBE b n, d < b := by
  induction n using Nat.strongRecOn with
  | _ n ih =>
    by_cases hn : n = 0
    · subst hn; rw [toDigitsBE_zero]; simp
    · have hpos : 0 < n := Nat.pos_of_ne_zero hn
      rw [toDigitsBE_pos b n hb hpos]
      intro d hd
      rcases List.mem_append.mp hd with h | h
      · exact ih (n / b) (Nat.div_lt_self hpos hb) d h
      · simp at h; subst h; exact Nat.mod_lt _ (by omega)

/-- no leading zero digit. -/
theorem toDigits_head (b : Nat) (hb : 2 ≤ b) (n : Nat) : (toDigitsBE b n).head? ≠ some 0 := by
  induction n using Nat.strongRecOn with
  | _ n ih =>
    by_cases hn : n = 0
    · subst hn; rw [toDigitsBE_zero]; simp
    · have hpos : 0 < n := Nat.pos_of_ne_zero hn
      rw [toDigitsBE_pos b n hb hpos]
      by_cases hq : n / b = 0
      · rw [hq, toDigitsBE_zero]
        simp only [List.nil_append, List.head?_cons, ne_eq, Option.some.injEq]
        have : n < b := by
          rcases Nat.div_eq_zero_iff.mp hq with h | h
          · omega
          · exact h
        rw [Nat.mod_eq_of_lt this]; exact hn
      · have := ih (n / b) (Nat.div_lt_self hpos hb)
        cases h : toDigitsBE b (n / b) with
        | nil =>
          have h0 := ofDigits_toDigits b hb (n / b)
          rw [h] at h0; exact absurd h0.symm hq
        | cons x xs => rw [h] at this; simpa using this

theorem ofDigitsBE_pos (b : Nat) (hb : 2 ≤ b) : ∀ (ds : List Nat), ds ≠ [] → ds.head? ≠ some 0 → 0 < ofDigitsBE b ds := by
  intro ds
  induction ds using snocInduction with
  | nil => intro h; exact absurd rfl h
  | append_singleton ds d ih =>
    intro _ hh
    rw [ofDigitsBE_snoc]
    cases ds with
    | nil => simp at hh; simp [ofDigitsBE_nil]; omega
    | cons x xs =>
      have := ih (by simp) (by simpa using hh)
      have : 0 < ofDigitsBE b (x :: xs) * b := Nat.mul_pos this (by omega)
      omega

theorem toDigits_ofDigits (b : Nat) (hb : 2 ≤ b) :
    ∀ (ds : List Nat), (∀ d ∈ ds, d < b) → ds.head? ≠ some 0 → toDigitsBE b (ofDigitsBE b ds) = ds := by
  intro ds
  induction ds using snocInduction with
  | nil => intro _ _; exact toDigitsBE_zero b
  | append_singleton ds d ih =>
    intro hlt hh
    have hd : d < b := hlt d (by simp)
    rw [ofDigitsBE_snoc]
    have hpos : 0 < ofDigitsBE b ds * b + d := by
      cases ds with
      | nil => simp at hh; simp [ofDigitsBE_nil]; omega
      | cons x xs =>
        have := ofDigitsBE_pos b hb (x :: xs) (by simp) (by simpa using hh)
        have : 0 < ofDigitsBE b (x :: xs) * b := Nat.mul_pos this (by omega)
        omega
    rw [toDigitsBE_pos b _ hb hpos]
    have e1 : (ofDigitsBE b ds * b + d) / b = ofDigitsBE b ds := by
      rw [Nat.add_comm, Nat.add_mul_div_right _ _ (by omega), Nat.div_eq_of_lt hd]; simp
    have e2 : (ofDigitsBE b ds * b + d) % b = d := by
      rw [Nat.add_comm, Nat.add_mul_mod_self_right, Nat.mod_eq_of_lt hd]
    rw [e1, e2]
    congr 1
    apply ih (fun x hx => hlt x (by simp [hx]))
    cases ds with
    | nil => simp
    | cons x xs => simpa using hh

theorem ofDigitsBE_replicate_zero (b z : Nat) (ds : List Nat) :
    ofDigitsBE b (List.replicate z 0 ++ ds) = ofDigitsBE b ds := by
  induction z with
  | zero => rfl
  | succ z ih =>
    simp only [List.replicate_succ, List.cons_append, ofDigitsBE, List.foldl_cons] at ih ⊢
    simpa using ih


/-! ### the alphabet -/

theorem b58Digit_char : ∀ d : Fin 58, b58Digit (b58Char d.val) = some d.val := by decide
theorem b58Char_one_iff : ∀ d : Fin 58, (b58Char d.val == 0x31) = (d.val == 0) := by decide
theorem b58Digit_one : b58Digit 0x31 = some 0 := by decide

theorem mapM_of_forall {α β : Type} (f : α → Option β) (h : α → β) :
    ∀ l : List α, (∀ x ∈ l, f x = some (h x)) → l.mapM f = some (l.map h) := by
  intro l
  induction l with
  | nil => intro _; rfl
  | cons a l ih =>
    intro hall
    rw [List.mapM_cons, hall a (by simp), ih (fun x hx => hall x (by simp [hx]))]
    rfl

/-! ### leading elements -/

theorem leadCount_replicate_append (x : UInt8) (z : Nat) (r : Bytes) (hr : r.head? ≠ some x) :
    leadCount x (List.replicate z x ++ r) = z := by
  induction z with
  | zero =>
    cases r with
    | nil => rfl
    | cons y ys =>
      have : (y == x) = false := by
        apply beq_false_of_ne; intro h; apply hr; simp [h]
      simp [leadCount, this]
  | succ z ih =>
    simp only [leadCount, List.replicate_succ, List.cons_append, List.takeWhile, beq_self_eq_true,
      List.length_cons] at ih ⊢
    rw [ih]

theorem lead_decomp (x : UInt8) (l : Bytes) :
    l = List.replicate (leadCount x l) x ++ l.dropWhile (· == x) ∧ (l.dropWhile (· == x)).head? ≠ some x := by
  induction l with
  | nil => simp [leadCount]
  | cons y ys ih =>
    by_cases h : y = x
    · subst h
      simp only [leadCount, List.takeWhile, beq_self_eq_true, List.length_cons, List.replicate_succ,
        List.cons_append, List.dropWhile] at ih ⊢
      exact ⟨by rw [← ih.1], ih.2⟩
    · have hb : (y == x) = false := beq_false_of_ne h
      simp only [leadCount, List.takeWhile, hb, List.length_nil, List.replicate_zero, List.nil_append,
        List.dropWhile, List.head?_cons, ne_eq, Option.some.injEq]
      exact ⟨trivial, h⟩


/-! ### Base58 round trip -/

theorem map_ofNat_toNat (l : Bytes) : (l.map (·.toNat)).map UInt8.ofNat = l := by
  induction l with
  | nil => rfl
  | cons x xs ih => simp only [List.map_cons, ih]; congr 1; simp

theorem b58Decode_encode (bin : Bytes) (hne : bin ≠ []) : b58Decode (b58Encode bin) = some bin := by
  obtain ⟨hdec, hhead⟩ := lead_decomp 0 bin
  generalize hz : leadCount 0 bin = z at hdec
  generalize hrest : bin.dropWhile (· == 0) = rest at hdec hhead
  -- the value only depends on `rest`
  have hv : ofDigitsBE 256 (bin.map (·.toNat)) = ofDigitsBE 256 (rest.map (·.toNat)) := by
    conv => lhs; rw [hdec]
    simp only [List.map_append, List.map_replicate]
    exact ofDigitsBE_replicate_zero 256 z _
  have hrest_digits : toDigitsBE 256 (ofDigitsBE 256 (rest.map (·.toNat))) = rest.map (·.toNat) := by
    apply toDigits_ofDigits 256 (by decide)
    · intro d hd
      obtain ⟨x, _, rfl⟩ := List.mem_map.mp hd
      exact x.toNat_lt
    · cases rest with
      | nil => simp
      | cons x xs =>
        simp only [List.map_cons, List.head?_cons, ne_eq, Option.some.injEq]
        intro h0
        apply hhead
        simp only [List.head?_cons, Option.some.injEq]
        exact UInt8.toNat_inj.mp (by simpa using h0)
  generalize hv' : ofDigitsBE 256 (rest.map (·.toNat)) = v at hv hrest_digits
  -- the encoded string
  have henc : b58Encode bin = List.replicate z 0x31 ++ (toDigitsBE 58 v).map b58Char := by
    simp only [b58Encode, hz, hv]
  rw [henc]
  have hD := toDigits_lt 58 (by decide) v
  have hDh := toDigits_head 58 (by decide) v
  have hofD := ofDigits_toDigits 58 (by decide) v
  generalize toDigitsBE 58 v = D at hD hDh hofD henc
  -- (1) the string is not empty
  have hs_ne : (List.replicate z 0x31 ++ D.map b58Char).isEmpty = false := by
    cases z with
    | succ z => simp [List.replicate_succ]
    | zero =>
      cases D with
      | cons d ds => simp
      | nil =>
        exfalso
        have hv0 : v = 0 := by rw [← hofD]; rfl
        rw [hv0, toDigitsBE_zero] at hrest_digits
        have : rest = [] := by
          cases rest with
          | nil => rfl
          | cons _ _ => simp at hrest_digits
        rw [this] at hdec
        exact hne (by rw [hdec]; rfl)
  -- (2) every character is a digit
  have hmap : (List.replicate z (0x31 : UInt8) ++ D.map b58Char).mapM b58Digit = some (List.replicate z 0 ++ D) := by
    rw [mapM_of_forall b58Digit (fun c => (b58Digit c).getD 0)]
    · congr 1
      simp only [List.map_append, List.map_replicate, List.map_map]
      have h1 : (b58Digit 49).getD 0 = 0 := by rw [show (49 : UInt8) = 0x31 by rfl, b58Digit_one]; rfl
      rw [h1]
      congr 1
      have hc : List.map ((fun c => (b58Digit c).getD 0) ∘ b58Char) D = List.map id D := by
        apply List.map_congr_left
        intro d hd
        have := b58Digit_char ⟨d, hD d hd⟩
        simp only at this
        simp [this]
      rw [hc, List.map_id]
    · intro c hc
      rcases List.mem_append.mp hc with h | h
      · have := List.eq_of_mem_replicate h
        subst this; rw [b58Digit_one]; rfl
      · obtain ⟨d, hd, rfl⟩ := List.mem_map.mp h
        have := b58Digit_char ⟨d, hD d hd⟩
        simp only at this
        rw [this]; rfl
  -- (3) the leading '1's are exactly the leading zero bytes
  have hlead : leadCount 0x31 (List.replicate z 0x31 ++ D.map b58Char) = z := by
    apply leadCount_replicate_append
    cases D with
    | nil => simp
    | cons d ds =>
      simp only [List.map_cons, List.head?_cons, ne_eq, Option.some.injEq]
      intro hc
      have h1 := b58Char_one_iff ⟨d, hD d (by simp)⟩
      simp only [hc, beq_self_eq_true] at h1
      have : d = 0 := by simpa using h1.symm
      apply hDh; simp [this]
  unfold b58Decode
  simp only [hs_ne, Bool.false_eq_true, if_false, hmap, hlead, ofDigitsBE_replicate_zero, hofD,
    hrest_digits, map_ofNat_toNat]
  rw [← hdec]


/-! ### Base58Check, address, WIF -/

theorem checkDecode_encode (H : Bytes → Bytes) (hH : ∀ x, 4 ≤ (H x).length) (b : Bytes) (hne : b ≠ []) :
    checkDecode H (checkEncode H b) = some b := by
  have hc : (checksum H b).length = 4 := by simp [checksum]; have := hH b; omega
  have hne' : b ++ checksum H b ≠ [] := by simp [hne]
  have hb1 : 1 ≤ b.length := by cases b <;> simp_all
  unfold checkDecode checkEncode
  rw [b58Decode_encode _ hne']
  have hlen : (b ++ checksum H b).length = b.length + 4 := by simp [hc]
  have h5 : ¬ (b ++ checksum H b).length < 5 := by omega
  have e : (b ++ checksum H b).length - 4 = b.length := by omega
  simp only [h5, if_false, e, List.take_left', List.drop_left', beq_self_eq_true, if_true]

theorem address_roundtrip (H : Bytes → Bytes) (hH : ∀ x, 4 ≤ (H x).length) (u : Bytes) (hu : u.length = 20) :
    stringToUint160 H (uint160ToString H u) = some u := by
  unfold stringToUint160 uint160ToString
  rw [checkDecode_encode H hH _ (by simp)]
  simp [hu]

theorem wif_roundtrip (H : Bytes → Bytes) (hH : ∀ x, 4 ≤ (H x).length) (key : Bytes) (hk : key.length = 32)
    (version : UInt8) (compressed : Bool) :
    ∃ s, wifEncode H key version compressed = some s ∧ wifDecode H s version = some (key, compressed) := by
  unfold wifEncode
  simp only [hk, bne_self_eq_false, Bool.false_eq_true, if_false]
  refine ⟨_, rfl, ?_⟩
  unfold wifDecode
  rw [checkDecode_encode H hH _ (by simp)]
  have ht : List.take 32 key = key := by rw [← hk, List.take_length]
  cases compressed
  · simp [hk, ht]
  · simp [hk]

end NeoModel.Codec
