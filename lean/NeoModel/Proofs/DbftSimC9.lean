/- C19 simulation, part C9: sendChangeView, createAndCheckBlock, sendPrepareRequest, onChangeView. -/
import NeoModel.Proofs.DbftSimC8
namespace NeoModel.Dbft.Mach
open NeoModel.Dbft

/-- storing a ChangeView of validator `j` for this height -/
theorem good_set_cv {e : Env} {as : State} {i : Nat} {w : W} (h : Good e as i w) (j : Nat) (x : Hd) (r : Nat)
    (hj : j < e.n) (hf : x.frm = j) (hh : x.h = w.nd.bi) (hc : Claims e as (.cv x r)) :
    Good e as i (w.upd fun nd => { nd with cv := nd.cv.set j (some (.cv x r)) }) := by
  have rn := h.rn
  have hlen : j < w.nd.cv.length := by rw [rn.lens.2.2.1]; exact hj
  refine ⟨h.g, ⟨rn.my, by simpa [W.upd] using rn.lens, rn.chain, rn.height, rn.phase, rn.pidx, rn.prep, rn.commit, ?_,
    rn.lastCv, rn.cache, rn.own⟩, h.outs, h.blk, h.st, h.lt⟩
  intro j' m' hj'
  by_cases hjm : j' = j
  · subst hjm
    simp only [W.upd, slot_set_self _ _ _ hlen, Option.some.injEq] at hj'
    subst hj'
    exact ⟨_, _, rfl, hf, hh, hc⟩
  · simp only [W.upd, slot_set_other _ _ _ _ hjm] at hj'
    exact rn.cv j' m' hj'

theorem commitSent_none {e : Env} {as : State} {i : Nat} {w : W} (h : Good e as i w) (hbp : w.nd.blockProcessed = false)
    (hnc : w.nd.commitSent = false) : ¬ ∃ b ∈ (as.nodes i).myCommits, b.h = w.nd.bi := by
  obtain ⟨_, _, _, hgc⟩ := h.synced hbp
  intro hx; have := hgc hx; rw [hnc] at this; cases this

/-- send.go:69-104 on the machine -/
theorem prog_sendChangeView {e : Env} {as : State} {i : Nat} {k : W → Pl → W} {w : W} (hk : KOK e i k)
    (h : Good e as i w) (hbp : w.nd.blockProcessed = false) (hnc : w.nd.commitSent = false) (reason : Nat) :
    Prog e i as (sendChangeView k e w reason) := by
  unfold sendChangeView
  simp only
  have h0 := good_changeTimer h (afterChangeView e.tpb w.nd.view)
  split
  · exact Prog.of_good (good_sendRecoveryRequest h0)
  · have hmy := h.rn.my
    obtain ⟨hbi, hview, _, _⟩ := h.synced hbp
    have hnoc := commitSent_none h hbp hnc
    have hen : Enabled (cfgOf e) as (.sendChangeView i) :=
      ⟨h.lt, fun b hb hbh => hnoc ⟨b, hb, by rw [hbh]; exact hbi.symm⟩⟩
    obtain ⟨x1, hbc, hkn, hmc, hmp, hh1, hv1, hc1⟩ := ext_sendChangeView (cfgOf e) as i hen
    have g0 := h0.ext_same x1 hh1 hv1 hc1 hmp hmc
    generalize hr : (if (!(changeTimer w (afterChangeView e.tpb w.nd.view)).nd.hasAllTx && reason == 0) = true then 2 else reason) = r
    have hclaim : Claims e (apply (cfgOf e) as (.sendChangeView i)) (.cv ⟨w.nd.my, w.nd.bi, w.nd.view⟩ r) := by
      show Bcast _ _ _ _ ∧ _
      simp only [cvItem, hmy, hbi, hview]
      exact ⟨hbc, hkn⟩
    have g1 := good_set_cv g0 w.nd.my ⟨w.nd.my, w.nd.bi, w.nd.view⟩ r (by rw [hmy]; exact h.lt) rfl rfl hclaim
    have g2 := good_bcast (good_stopTx g1) _ hclaim
    obtain ⟨as3, x3, g3⟩ := prog_checkChangeView hk g2 hbp hnc (w.nd.view + 1)
    exact ⟨as3, x1.trans x3, g3⟩

/-- dbft.go:386-410 on the machine -/
theorem prog_createAndCheckBlock {e : Env} {as : State} {i : Nat} {k : W → Pl → W} {w : W} (hk : KOK e i k)
    (h : Good e as i w) (hbp : w.nd.blockProcessed = false) (hnc : w.nd.commitSent = false) :
    Prog e i as (createAndCheckBlock k e w).1 ∧ ((createAndCheckBlock k e w).2 = true → (createAndCheckBlock k e w).1 = w) := by
  unfold createAndCheckBlock
  split
  · exact ⟨Prog.of_good h, fun hf => by cases hf⟩
  · split
    · exact ⟨Prog.of_good h, fun _ => rfl⟩
    · exact ⟨prog_sendChangeView hk h hbp hnc 4, fun hf => by cases hf⟩

theorem header_none_of_noreq (nd : Node) (h : nd.requestSOR = false) : nd.header = none := by
  unfold Node.requestSOR at h
  unfold Node.header Node.curProp
  cases hs : slot nd.prep nd.pidx with
  | none => rfl
  | some _ => rw [hs] at h; cases h

/-- a machine that holds no request has not signed anything at its height -/
theorem noreq_nocommit {e : Env} {as : State} {i : Nat} {w : W} (h : Good e as i w) (hnr : w.nd.requestSOR = false) :
    w.nd.commitSent = false := by
  unfold Node.commitSent
  rw [h.rn.my]
  cases hs : slot w.nd.commit i with
  | none => rfl
  | some m =>
    obtain ⟨y, sb, rfl, _, _, _⟩ := h.rn.commit i m hs
    have := (h.rn.own y sb hs).2
    rw [header_none_of_noreq _ hnr] at this; cases this

/-- send.go:19-48: the world right after the PrepareRequest has been built, stored and broadcast -/
def sprMid (e : Env) (w : W) : W :=
  let nd := w.nd
  let txx := getVerifiedTx e nd
  let ts := max (nd.lbTimestamp + 1000000) (w.now / 1000000 * 1000000)
  let info : PropInfo := { h := nd.bi, v := nd.view, frm := nd.my, ts := ts / 1000000, txs := txx,
                           prev := nd.topId, ver := 0, sroot := if e.sr then nd.topId else 0 }
  let msg := Pl.prepReq ⟨nd.my, nd.bi, nd.view⟩ w.fresh
  let w := w.upd fun nd => { nd with txHashes := txx, txs := txx.foldl (fun acc t => if acc.contains t then acc else acc ++ [t]) nd.txs,
                                      prep := nd.prep.set nd.my (some msg) }
  bcast (w.emit (.proposal info)) msg

theorem sendPrepareRequest_eq (e : Env) (w : W) :
    sendPrepareRequest e w = checkPrepare e (changeTimer (sprMid e w) (afterRequest e.tpb w.nd.view)) := rfl

/-- send.go:19-58 on the machine: the primary proposes -/
theorem prog_sendPrepareRequest {e : Env} {as : State} {i : Nat} {w : W} (h : Good e as i w)
    (hbp : w.nd.blockProcessed = false) (hprim : w.nd.isPrimary = true) (hnr : w.nd.requestSOR = false)
    (htab : TableOK e w.fresh w.nd.bi w.nd.view w.nd.my) : Prog e i as (sendPrepareRequest e w) := by
  rw [sendPrepareRequest_eq]
  have hmy := h.rn.my
  obtain ⟨hbi, hview, hgp, hgc⟩ := h.synced hbp
  have hpm : w.nd.my = w.nd.pidx := by simpa [Node.isPrimary] using hprim
  have hnp : ¬ ∃ b ∈ (as.nodes i).myPreps, b.h = w.nd.bi ∧ b.v = w.nd.view := by
    intro hx; have := (hgp hx).1; rw [hnr] at this; cases this
  have hen : Enabled (cfgOf e) as (.sendPrepReq i w.fresh) := by
    refine ⟨h.lt, ?_, ?_, rfl⟩
    · show i = (cfgOf e).primary (as.nodes i).height (as.nodes i).view
      rw [← hbi, ← hview, ← hmy, hpm, h.rn.pidx]; rfl
    · intro b hb hc
      exact hnp ⟨b, hb, by rw [hc.1]; exact hbi.symm, by rw [hc.2]; exact hview.symm⟩
  obtain ⟨x1, hbc, hmp, hmc, hh1, hv1, hc1⟩ := ext_sendPrepReq (cfgOf e) as i w.fresh hen
  have hlen : w.nd.my < w.nd.prep.length := by rw [h.rn.lens.1, hmy]; exact h.lt
  let b : Block := ⟨w.nd.bi, w.nd.view, w.fresh⟩
  have hbin : b ∈ ((apply (cfgOf e) as (.sendPrepReq i w.fresh)).nodes i).myPreps := by
    rw [hmp]; simp [b, hbi, hview]
  have hclaim : Claims e (apply (cfgOf e) as (.sendPrepReq i w.fresh)) (.prepReq ⟨w.nd.my, w.nd.bi, w.nd.view⟩ w.fresh) := by
    refine ⟨?_, by rw [hmy]; exact hbin, htab⟩
    show w.nd.my = e.primary w.nd.bi w.nd.view
    rw [hpm]; exact h.rn.pidx
  have rn := h.rn
  have gmid : Good e (apply (cfgOf e) as (.sendPrepReq i w.fresh)) i (sprMid e w) := by
    unfold sprMid
    simp only
    refine ⟨h.g.ext x1, ?_, ?_, fun b' s hp => h.blk b' s (by simpa [bcast, W.emit, W.upd] using hp), h.st, h.lt⟩
    · refine ⟨rn.my, by simpa [bcast, W.emit, W.upd] using rn.lens, by rw [hc1]; exact rn.chain, by rw [hh1]; exact rn.height,
        ?_, rn.pidx, ?_, ?_, ?_, ?_, ?_, ?_⟩
      · left
        refine ⟨by rw [hh1]; exact hbi, by rw [hv1]; exact hview, ?_, ?_⟩
        · intro _
          constructor
          · show Node.requestSOR _ = true
            simp only [bcast, W.emit, W.upd, Node.requestSOR, ← hpm, slot_set_self _ _ _ hlen, Option.isSome_some]
          · show Node.responseSent _ = true
            simp only [bcast, W.emit, W.upd, Node.responseSent, slot_set_self _ _ _ hlen, Option.isSome_some]
        · intro hx; rw [hmc] at hx; exact hgc hx
      · intro j m hj
        by_cases hjm : j = w.nd.my
        · subst hjm
          simp only [bcast, W.emit, W.upd, slot_set_self _ _ _ hlen, Option.some.injEq] at hj
          subst hj
          exact ⟨rfl, hclaim, rfl, fun _ => hpm⟩
        · simp only [bcast, W.emit, W.upd, slot_set_other _ _ _ _ hjm] at hj
          obtain ⟨a1, a2, a3, a4⟩ := rn.prep j m hj
          exact ⟨a1, a2.ext x1, a3, a4⟩
      · intro j m hj; obtain ⟨y, sb, a1, a2, a3, a4⟩ := rn.commit j m hj
        exact ⟨y, sb, a1, a2, a3, x1.grows.commits _ _ a4.1, a4.2⟩
      · intro j m hj; obtain ⟨y, r, a1, a2, a3, a4⟩ := rn.cv j m hj; exact ⟨y, r, a1, a2, a3, a4.ext x1⟩
      · intro j m hj; obtain ⟨y, r, a1, a2, a3, a4⟩ := rn.lastCv j m hj; exact ⟨y, r, a1, a2, a3, a4.ext x1⟩
      · intro hh' box hb km hkm; exact (rn.cache hh' box hb km hkm).ext x1
      · intro y sb hj
        have hcs := noreq_nocommit h hnr
        unfold Node.commitSent at hcs
        rw [hmy] at hcs
        simp only [bcast, W.emit, W.upd] at hj
        rw [hj] at hcs; cases hcs
    · intro pl hpl
      simp only [bcast, W.emit, W.upd, List.mem_cons, Out.bcast.injEq, reduceCtorEq, false_or] at hpl
      rcases hpl with rfl | hpl
      · exact hclaim
      · exact (h.outs pl hpl).ext x1
  obtain ⟨as2, x2, g2⟩ := prog_checkPrepare (good_changeTimer gmid (afterRequest e.tpb w.nd.view)) hbp
  exact ⟨as2, x1.trans x2, g2⟩

end NeoModel.Dbft.Mach
