/-
Helper lemmas for C10: membership proofs — walking from a real root through any store is sound,
and the nodes returned by getProof are sufficient (complete).
-/
import NeoModel.Proofs.MptDecode
import NeoModel.Proofs.MptCanonical
set_option linter.unusedSimpArgs false
namespace NeoModel.Mpt

theorem nibByte_toNat (a : Nib) : (nibByte a).toNat = a.val := by
  have := a.isLt
  simp [nibByte, UInt8.toNat_ofNat']; omega

theorem nibByte_inj {a b : Nib} (h : nibByte a = nibByte b) : a = b := by
  have := congrArg UInt8.toNat h
  rw [nibByte_toNat, nibByte_toNat] at this
  exact Fin.ext this

theorem stripPreB_map (k p : Path) : stripPreB (k.map nibByte) p = stripPre k p := by
  induction k generalizing p with
  | nil => simp [stripPreB, stripPre]
  | cons a k ih =>
    cases p with
    | nil => simp [stripPreB, stripPre]
    | cons b p =>
      simp only [List.map_cons, stripPreB, stripPre, ih]
      by_cases h : a = b
      · subst h; simp
      · have : ¬ nibByte a = nibByte b := fun e => h (nibByte_inj e)
        simp [h, this]

theorem prefs_kid (H : Bytes → Bytes) (cs : Nib → Node) (v : Option Val) (i : Nib) :
    (prefs H cs v).getD i.castSucc.val .empty = pref H (cs i) := by
  simp [prefs, List.getD_eq_getElem?_getD, List.getElem?_append_left]

theorem prefs_slot (H : Bytes → Bytes) (cs : Nib → Node) (v : Option Val) :
    (prefs H cs v).getD (Fin.last 16).val .empty = pslot H v := by
  show (prefs H cs v).getD 16 .empty = pslot H v
  simp [prefs, List.getD_eq_getElem?_getD]

/-- without a collision in `S ⊇ ps ∪ {b}`, whatever the store returns for the hash of `b` is `b`. -/
theorem fetch_sound {H : Bytes → Bytes} {S : List Bytes} (hcf : CollFree H S) {ps : List Bytes}
    (hps : ∀ e ∈ ps, e ∈ S) {b d : Bytes} (hb : b ∈ S)
    (h : fetch H ps (H b) = some d) : d = b := by
  unfold fetch at h
  have hmem : d ∈ ps := by simpa using List.mem_of_find?_eq_some h
  have := List.find?_some h
  simp only [beq_iff_eq] at this
  exact hcf d (hps d hmem) b hb this

theorem fetch_complete {H : Bytes → Bytes} {S : List Bytes} (hcf : CollFree H S) {ps : List Bytes}
    (hps : ∀ e ∈ ps, e ∈ S) {b : Bytes} (h : b ∈ ps) : fetch H ps (H b) = some b := by
  cases hf : fetch H ps (H b) with
  | none =>
    unfold fetch at hf
    have := List.find?_eq_none.mp hf b (by simpa using h)
    simp at this
  | some d => rw [fetch_sound hcf hps (hps b h) hf]

theorem mem_nodeEncs_self (H : Bytes → Bytes) (t : Node) (hne : t.isEmpty = false) : enc H t ∈ nodeEncs H t := by
  cases t with
  | empty => simp [Node.isEmpty] at hne
  | leaf v => simp [nodeEncs, enc]
  | ext k n => simp [nodeEncs]
  | branch cs v => simp [nodeEncs]

theorem mem_nodeEncs_kid (H : Bytes → Bytes) (cs : Nib → Node) (v : Option Val) (i : Nib) {e : Bytes}
    (h : e ∈ nodeEncs H (cs i)) : e ∈ nodeEncs H (.branch cs v) := by
  simp only [nodeEncs, List.mem_cons, List.mem_append, List.mem_flatMap]
  exact Or.inr (Or.inl ⟨i, List.mem_finRange i, h⟩)

theorem mem_nodeEncs_slot (H : Bytes → Bytes) (cs : Nib → Node) (w : Val) :
    encLeaf w ∈ nodeEncs H (.branch cs (some w)) := by
  simp [nodeEncs]

/-- the walk over a leaf reference (`H (encLeaf w)`) with an empty path. -/
theorem walk_leaf_sound {H : Bytes → Bytes} {S : List Bytes} (hcf : CollFree H S) (h32 : ∀ b, (H b).length = 32)
    (ps : List Bytes) (hps : ∀ e ∈ ps, e ∈ S) (w : Val) (hwS : encLeaf w ∈ S)
    (hw : w.length ≤ maxValueLength) (fuel : Nat) (p : Path) (x : Val)
    (h : walk H ps fuel (H (encLeaf w)) p = .found x) : p = [] ∧ x = w := by
  cases fuel with
  | zero => simp [walk] at h
  | succ f =>
    simp only [walk] at h
    cases hf : fetch H ps (H (encLeaf w)) with
    | none => simp [hf] at h
    | some d =>
      have hd := fetch_sound hcf hps hwS hf
      subst hd
      have hdec := decodeTop_enc H h32 (.leaf w) (by simpa [Bounded] using hw) rfl
      simp only [enc] at hdec
      simp only [hf, hdec, shallow] at h
      cases p with
      | nil => simp [walkNode] at h; exact ⟨rfl, h.symm⟩
      | cons a p => simp [walkNode] at h

/-- C10.6 (soundness core): walking from the hash of a real trie through ANY store finds only
what the trie holds. -/
theorem walk_sound {H : Bytes → Bytes} {S : List Bytes} (hcf : CollFree H S) (h32 : ∀ b, (H b).length = 32)
    (ps : List Bytes) (hps : ∀ e ∈ ps, e ∈ S) (t : Node) : ∀ (fuel : Nat) (p : Path) (x : Val), Bounded t →
    t.isEmpty = false → (∀ e ∈ nodeEncs H t, e ∈ S) →
    walk H ps fuel (hash H t) p = .found x → lookup t p = some x := by
  induction t with
  | empty => intro _ _ _ _ hne; simp [Node.isEmpty] at hne
  | leaf w =>
    intro fuel p x hb _ hS h
    obtain ⟨hp, hx⟩ := walk_leaf_sound hcf h32 ps hps w (hS _ (by simp [nodeEncs])) (by simpa [Bounded] using hb) fuel p x (by simpa [hash, enc] using h)
    subst hp; subst hx; simp [lookup]
  | ext k n ih =>
    intro fuel p x hb _ hS h
    cases fuel with
    | zero => simp [walk] at h
    | succ f =>
      simp only [walk, hash] at h
      cases hf : fetch H ps (H (enc H (.ext k n))) with
      | none => simp [hf] at h
      | some d =>
        have hd := fetch_sound hcf hps (hS _ (mem_nodeEncs_self H _ rfl)) hf
        subst hd
        have hdec := decodeTop_enc H h32 (.ext k n) hb rfl
        simp only [hf, hdec, shallow, walkNode, stripPreB_map] at h
        rw [lookup_ext]
        cases hs : stripPre k p with
        | none => simp [hs] at h
        | some r =>
          simp only [hs, pref] at h
          cases hne : n.isEmpty with
          | true => simp [hne, walkNode] at h
          | false =>
            simp only [hne, walkNode] at h
            simpa using ih f r x hb.2 hne (fun e he => hS e (by simp [nodeEncs, he])) h
  | branch cs v ih =>
    intro fuel p x hb _ hS h
    cases fuel with
    | zero => simp [walk] at h
    | succ f =>
      simp only [walk, hash] at h
      cases hf : fetch H ps (H (enc H (.branch cs v))) with
      | none => simp [hf] at h
      | some d =>
        have hd := fetch_sound hcf hps (hS _ (mem_nodeEncs_self H _ rfl)) hf
        subst hd
        have hdec := decodeTop_enc H h32 (.branch cs v) hb rfl
        simp only [hf, hdec, shallow] at h
        cases p with
        | nil =>
          simp only [walkNode, prefs_slot] at h
          cases v with
          | none => simp [pslot, walkNode] at h
          | some w =>
            simp only [pslot, walkNode] at h
            obtain ⟨_, hx⟩ := walk_leaf_sound hcf h32 ps hps w (hS _ (mem_nodeEncs_slot H cs w)) (hb.2 w rfl) f [] x h
            simp [lookup, hx]
        | cons i r =>
          simp only [walkNode, prefs_kid, pref] at h
          cases hne : (cs i).isEmpty with
          | true => simp [hne, walkNode] at h
          | false =>
            simp only [hne, walkNode] at h
            simpa [lookup] using ih i f r x (hb.1 i) hne (fun e he => hS e (mem_nodeEncs_kid H cs v i he)) h


theorem walk_leaf_complete {H : Bytes → Bytes} (hinj : CollFree H ps) (h32 : ∀ b, (H b).length = 32)
    (w : Val) (hw : w.length ≤ maxValueLength) (f : Nat) (hmem : encLeaf w ∈ ps) :
    walk H ps (f + 1) (H (encLeaf w)) [] = .found w := by
  have hdec := decodeTop_enc H h32 (.leaf w) (by simpa [Bounded] using hw) rfl
  simp only [enc] at hdec
  simp [walk, fetch_complete hinj (fun _ h => h) hmem, hdec, shallow, walkNode]

theorem getProof_empty (H : Bytes → Bytes) (n : Node) (h : n.isEmpty = true) (p : Path) : getProof H n p = none := by
  rw [isEmpty_iff.mp h]; simp [getProof]

/-- C10.6 (completeness core): the nodes `GetProof` returns are enough to walk to the value. -/
theorem walk_complete {H : Bytes → Bytes} {ps : List Bytes} (hinj : CollFree H ps) (h32 : ∀ b, (H b).length = 32)
    (t : Node) : ∀ (fuel : Nat) (p : Path) (ps' : List Bytes), Bounded t →
    getProof H t p = some ps' → (∀ e ∈ ps', e ∈ ps) → ps'.length ≤ fuel →
    ∃ v, lookup t p = some v ∧ walk H ps fuel (hash H t) p = .found v := by
  induction t with
  | empty => intro _ _ _ _ h; simp [getProof] at h
  | leaf w =>
    intro fuel p ps' hb h hsub hf
    cases p with
    | cons a p => simp [getProof] at h
    | nil =>
      simp only [getProof, Option.some.injEq] at h
      subst h
      cases fuel with
      | zero => simp at hf
      | succ f =>
        refine ⟨w, by simp [lookup], ?_⟩
        exact walk_leaf_complete hinj h32 w (by simpa [Bounded] using hb) f (hsub _ (by simp))
  | ext k n ih =>
    intro fuel p ps' hb h hsub hf
    simp only [getProof] at h
    cases hs : stripPre k p with
    | none => simp [hs] at h
    | some r =>
      simp only [hs] at h
      cases hg : getProof H n r with
      | none => simp [hg] at h
      | some ps'' =>
        simp only [hg, Option.map_some, Option.some.injEq] at h
        subst h
        have hne : n.isEmpty = false := by
          cases hn : n.isEmpty with
          | false => rfl
          | true => rw [getProof_empty H n hn] at hg; cases hg
        cases fuel with
        | zero => simp at hf
        | succ f =>
          obtain ⟨v, hv, hw⟩ := ih f r ps'' hb.2 hg (fun e he => hsub e (by simp [he])) (by simp at hf; omega)
          refine ⟨v, by simp [lookup_ext, hs, hv], ?_⟩
          have hdec := decodeTop_enc H h32 (.ext k n) hb rfl
          have hmem : enc H (.ext k n) ∈ ps := hsub _ (by simp)
          simp only [walk, hash, fetch_complete hinj (fun _ h => h) hmem, hdec, shallow, walkNode, stripPreB_map, hs, pref, hne]
          simpa [hash, walkNode] using hw
  | branch cs v ih =>
    intro fuel p ps' hb h hsub hf
    have hdec := decodeTop_enc H h32 (.branch cs v) hb rfl
    cases p with
    | nil =>
      cases v with
      | none => simp [getProof] at h
      | some w =>
        simp only [getProof, Option.some.injEq] at h
        subst h
        match fuel, hf with
        | f + 2, _ =>
          refine ⟨w, by simp [lookup], ?_⟩
          have hmem : enc H (.branch cs (some w)) ∈ ps := hsub _ (by simp)
          have hmem2 : encLeaf w ∈ ps := hsub _ (by simp)
          simp only [walk, hash, fetch_complete hinj (fun _ h => h) hmem, hdec, shallow, walkNode, prefs_slot, pslot]
          exact walk_leaf_complete hinj h32 w (hb.2 w rfl) f hmem2
    | cons i r =>
      simp only [getProof] at h
      cases hg : getProof H (cs i) r with
      | none => simp [hg] at h
      | some ps'' =>
        simp only [hg, Option.map_some, Option.some.injEq] at h
        subst h
        have hne : (cs i).isEmpty = false := by
          cases hn : (cs i).isEmpty with
          | false => rfl
          | true => rw [getProof_empty H _ hn] at hg; cases hg
        cases fuel with
        | zero => simp at hf
        | succ f =>
          obtain ⟨x, hx, hw⟩ := ih i f r ps'' (hb.1 i) hg (fun e he => hsub e (by simp [he])) (by simp at hf; omega)
          refine ⟨x, by simp [lookup, hx], ?_⟩
          have hmem : enc H (.branch cs v) ∈ ps := hsub _ (by simp)
          simp only [walk, hash, fetch_complete hinj (fun _ h => h) hmem, hdec, shallow, walkNode, prefs_kid, pref, hne]
          simpa [hash, walkNode] using hw

/-- a proof exists exactly for the present keys. -/
theorem getProof_isSome (H : Bytes → Bytes) (t : Node) (p : Path) :
    (getProof H t p).isSome = (lookup t p).isSome := by
  induction t generalizing p with
  | empty => simp [getProof, lookup]
  | leaf w => cases p <;> simp [getProof, lookup]
  | ext k n ih =>
    simp only [getProof, lookup_ext]
    cases hs : stripPre k p with
    | none => simp
    | some r => simp [ih r]
  | branch cs v ih =>
    cases p with
    | nil => cases v <;> simp [getProof, lookup]
    | cons i r => simp [getProof, lookup, ih i r]

end NeoModel.Mpt

namespace NeoModel.Mpt

/-- a well-formed trie whose keys and values respect the limits of `Put` is `Bounded`: every
extension lies on the path to some key. -/
theorem bounded_of_contents (t : Node) (hw : WF t)
    (h : ∀ p v, lookup t p = some v → p.length ≤ maxPathLength ∧ v.length ≤ maxValueLength) : Bounded t := by
  induction t with
  | empty => simp [Bounded]
  | leaf w => simpa [Bounded] using (h [] w (by simp [lookup])).2
  | ext k n ih =>
    obtain ⟨_, hne, _, hn⟩ := hw
    have hsub : ∀ p v, lookup n p = some v → (k ++ p).length ≤ maxPathLength ∧ v.length ≤ maxValueLength := by
      intro p v hp
      exact h (k ++ p) v (by simp [lookup_ext, stripPre_append, hp])
    refine ⟨?_, ih hn (fun p v hp => ⟨by have := (hsub p v hp).1; simp at this; omega, (hsub p v hp).2⟩)⟩
    obtain ⟨p, hp⟩ := exists_key n hn hne
    cases hv : lookup n p with
    | none => exact absurd hv hp
    | some v => have := (hsub p v hv).1; simp at this; omega
  | branch cs v ih =>
    refine ⟨fun i => ih i (hw.1 i) (fun p x hp => ?_), fun w hw' => ?_⟩
    · have := h (i :: p) x (by simpa [lookup] using hp)
      exact ⟨by have := this.1; simp at this; omega, this.2⟩
    · exact (h [] w (by simp [lookup, hw'])).2

end NeoModel.Mpt

namespace NeoModel.Mpt

/-- the nodes of a proof are nodes of the trie. -/
theorem getProof_subset (H : Bytes → Bytes) (t : Node) : ∀ (p : Path) (ps : List Bytes),
    getProof H t p = some ps → ∀ e ∈ ps, e ∈ nodeEncs H t := by
  induction t with
  | empty => intro p ps h; simp [getProof] at h
  | leaf w =>
    intro p ps h
    cases p with
    | nil => simp only [getProof, Option.some.injEq] at h; subst h; simp [nodeEncs]
    | cons a p => simp [getProof] at h
  | ext k n ih =>
    intro p ps h e he
    simp only [getProof] at h
    cases hs : stripPre k p with
    | none => simp [hs] at h
    | some r =>
      simp only [hs] at h
      cases hg : getProof H n r with
      | none => simp [hg] at h
      | some ps' =>
        simp only [hg, Option.map_some, Option.some.injEq] at h
        subst h
        simp only [List.mem_cons] at he
        cases he with
        | inl h1 => subst h1; simp [nodeEncs]
        | inr h1 => simp [nodeEncs, ih r ps' hg e h1]
  | branch cs v ih =>
    intro p ps h e he
    cases p with
    | nil =>
      cases v with
      | none => simp [getProof] at h
      | some w =>
        simp only [getProof, Option.some.injEq] at h
        subst h
        simp only [List.mem_cons, List.not_mem_nil, or_false] at he
        cases he with
        | inl h1 => subst h1; simp [nodeEncs]
        | inr h1 => subst h1; exact mem_nodeEncs_slot H cs w
    | cons i r =>
      simp only [getProof] at h
      cases hg : getProof H (cs i) r with
      | none => simp [hg] at h
      | some ps' =>
        simp only [hg, Option.map_some, Option.some.injEq] at h
        subst h
        simp only [List.mem_cons] at he
        cases he with
        | inl h1 => subst h1; simp [nodeEncs]
        | inr h1 => exact mem_nodeEncs_kid H cs v i (ih i r ps' hg e h1)

theorem collFree_subset {H : Bytes → Bytes} {S S' : List Bytes} (h : CollFree H S) (hs : ∀ e ∈ S', e ∈ S) :
    CollFree H S' := fun a ha b hb => h a (hs a ha) b (hs b hb)

instance (H : Bytes → Bytes) (S : List Bytes) : Decidable (CollFree H S) := by
  unfold CollFree; exact inferInstance

/-- toy hash for non-vacuity examples: the first 31 bytes (zero padded) and the length. -/
def toyH (b : Bytes) : Bytes := (b ++ List.replicate 32 0).take 31 ++ [UInt8.ofNat b.length]

theorem toyH_len (b : Bytes) : (toyH b).length = 32 := by simp [toyH]

end NeoModel.Mpt

namespace NeoModel.Mpt

/-- reading a key from a trie reopened from its root hash over a store that holds (at least) the
flushed nodes: `walk` is `getWithPath` starting at `HashNode(root)` with lazy loading. -/
theorem reopen_get {H : Bytes → Bytes} (h32 : ∀ b, (H b).length = 32) (t : Node) (hb : Bounded t)
    (hne : t.isEmpty = false) (store : List Bytes) (hst : ∀ e ∈ nodeEncs H t, e ∈ store)
    (hcf : CollFree H store) (p : Path) (v : Val) :
    (∀ fuel, walk H store fuel (hash H t) p = .found v → lookup t p = some v) ∧
    (lookup t p = some v → ∃ n, ∀ fuel, n ≤ fuel → walk H store fuel (hash H t) p = .found v) := by
  refine ⟨fun fuel h => walk_sound hcf h32 store (fun _ h => h) t fuel p v hb hne hst h, ?_⟩
  intro hv
  have hsome : (getProof H t p).isSome = true := by rw [getProof_isSome, hv]; rfl
  obtain ⟨ps, hps⟩ := Option.isSome_iff_exists.mp hsome
  refine ⟨ps.length, fun fuel hf => ?_⟩
  obtain ⟨x, hx, hw⟩ := walk_complete hcf h32 t fuel p ps hb hps
    (fun e he => hst e (getProof_subset H t p ps hps e he)) hf
  rw [hv] at hx; cases hx; exact hw

end NeoModel.Mpt
