/-
C12 proofs, part 2: the walk (`reach`) against the counter invariant.
  refs_sound : InvC c (roots ++ leaked) → reach ≤ refs
  refs_exact : InvC c roots, acyclic heap → refs = reach
-/
import NeoModel.Proofs.VmAcctCount
namespace NeoModel.VmAcct

/-! ### properties of `walk` -/

theorem walk_mono (h : Heap) (w : List Item) (vis : List Nat) : ∀ v ∈ vis, v ∈ walk h w vis := by
  fun_induction walk h w vis with
  | case1 vis => exact fun v hv => hv
  | case2 x w vis hx ih => exact ih
  | case3 x w vis id hx hv ih => exact ih
  | case4 x w vis id hx hv hl ih => exact fun v hv' => ih v (List.mem_cons_of_mem _ hv')
  | case5 x w vis id hx hv hl ih => exact fun v hv' => ih v (List.mem_cons_of_mem _ hv')

theorem walk_nodup (h : Heap) (w : List Item) (vis : List Nat) (hn : vis.Nodup) : (walk h w vis).Nodup := by
  fun_induction walk h w vis with
  | case1 vis => exact hn
  | case2 x w vis hx ih => exact ih hn
  | case3 x w vis id hx hv ih => exact ih hn
  | case4 x w vis id hx hv hl ih =>
    apply ih
    exact List.nodup_cons.2 ⟨by simpa using hv, hn⟩
  | case5 x w vis id hx hv hl ih =>
    apply ih
    exact List.nodup_cons.2 ⟨by simpa using hv, hn⟩

/-- a property of compounds that holds for the start references and is inherited by children
holds for everything the walk visits -/
theorem walk_inv (h : Heap) (P : Nat → Prop)
    (hch : ∀ d, P d → ∀ x ∈ chOf h d, ∀ e, x.cid = some e → P e)
    (w : List Item) (vis : List Nat) (hv : ∀ v ∈ vis, P v) (hw : ∀ x ∈ w, ∀ d, x.cid = some d → P d) :
    ∀ v ∈ walk h w vis, P v := by
  fun_induction walk h w vis with
  | case1 vis => exact hv
  | case2 x w vis hx ih => exact ih hv (fun y hy => hw y (List.mem_cons_of_mem _ hy))
  | case3 x w vis id hx hvis ih => exact ih hv (fun y hy => hw y (List.mem_cons_of_mem _ hy))
  | case4 x w vis id hx hvis hl ih =>
    have hid : P id := hw x (List.mem_cons_self ..) id hx
    apply ih
    · intro v hv'
      rcases List.mem_cons.1 hv' with rfl | hv'
      · exact hid
      · exact hv v hv'
    · intro y hy d hd
      rcases List.mem_append.1 hy with hy | hy
      · exact hch id hid y hy d hd
      · exact hw y (List.mem_cons_of_mem _ hy) d hd
  | case5 x w vis id hx hvis hl ih =>
    have hid : P id := hw x (List.mem_cons_self ..) id hx
    apply ih
    · intro v hv'
      rcases List.mem_cons.1 hv' with rfl | hv'
      · exact hid
      · exact hv v hv'
    · exact fun y hy => hw y (List.mem_cons_of_mem _ hy)

/-- every start reference is visited -/
theorem walk_roots (h : Heap) (w : List Item) (vis : List Nat) : ∀ x ∈ w, ∀ d, x.cid = some d → d ∈ walk h w vis := by
  fun_induction walk h w vis with
  | case1 vis => intro x hx; cases hx
  | case2 x w vis hx ih =>
    intro y hy d hd
    rcases List.mem_cons.1 hy with rfl | hy
    · rw [hx] at hd; cases hd
    · exact ih y hy d hd
  | case3 x w vis id hx hvis ih =>
    intro y hy d hd
    rcases List.mem_cons.1 hy with rfl | hy
    · rw [hx] at hd; cases hd
      exact walk_mono h w vis _ (by simpa using hvis)
    · exact ih y hy d hd
  | case4 x w vis id hx hvis hl ih =>
    intro y hy d hd
    rcases List.mem_cons.1 hy with rfl | hy
    · rw [hx] at hd; cases hd
      exact walk_mono h _ _ _ (List.mem_cons_self ..)
    · exact ih y (List.mem_append_right _ hy) d hd
  | case5 x w vis id hx hvis hl ih =>
    intro y hy d hd
    rcases List.mem_cons.1 hy with rfl | hy
    · rw [hx] at hd; cases hd
      exact walk_mono h _ _ _ (List.mem_cons_self ..)
    · exact ih y hy d hd

/-- the visited set is closed under children -/
theorem walk_closed (h : Heap) (w : List Item) (vis : List Nat)
    (hc : ∀ v ∈ vis, ∀ x ∈ chOf h v, ∀ d, x.cid = some d → d ∈ vis ∨ ∃ y ∈ w, y.cid = some d) :
    ∀ v ∈ walk h w vis, ∀ x ∈ chOf h v, ∀ d, x.cid = some d → d ∈ walk h w vis := by
  fun_induction walk h w vis with
  | case1 vis =>
    intro v hv x hx d hd
    rcases hc v hv x hx d hd with h1 | ⟨y, hy, _⟩
    · exact h1
    · cases hy
  | case2 x w vis hx ih =>
    apply ih
    intro v hv y hy d hd
    rcases hc v hv y hy d hd with h1 | ⟨z, hz, hzd⟩
    · exact Or.inl h1
    · rcases List.mem_cons.1 hz with rfl | hz
      · rw [hx] at hzd; cases hzd
      · exact Or.inr ⟨z, hz, hzd⟩
  | case3 x w vis id hx hvis ih =>
    apply ih
    intro v hv y hy d hd
    rcases hc v hv y hy d hd with h1 | ⟨z, hz, hzd⟩
    · exact Or.inl h1
    · rcases List.mem_cons.1 hz with rfl | hz
      · rw [hx] at hzd; cases hzd
        exact Or.inl (by simpa using hvis)
      · exact Or.inr ⟨z, hz, hzd⟩
  | case4 x w vis id hx hvis hl ih =>
    apply ih
    intro v hv y hy d hd
    rcases List.mem_cons.1 hv with rfl | hv
    · exact Or.inr ⟨y, List.mem_append_left _ hy, hd⟩
    · rcases hc v hv y hy d hd with h1 | ⟨z, hz, hzd⟩
      · exact Or.inl (List.mem_cons_of_mem _ h1)
      · rcases List.mem_cons.1 hz with rfl | hz
        · rw [hx] at hzd; cases hzd
          exact Or.inl (List.mem_cons_self ..)
        · exact Or.inr ⟨z, List.mem_append_right _ hz, hzd⟩
  | case5 x w vis id hx hvis hl ih =>
    apply ih
    intro v hv y hy d hd
    rcases List.mem_cons.1 hv with rfl | hv
    · rw [chOf_eq_nil_of_ge h _ (Nat.le_of_not_lt hl)] at hy; cases hy
    · rcases hc v hv y hy d hd with h1 | ⟨z, hz, hzd⟩
      · exact Or.inl (List.mem_cons_of_mem _ h1)
      · rcases List.mem_cons.1 hz with rfl | hz
        · rw [hx] at hzd; cases hzd
          exact Or.inl (List.mem_cons_self ..)
        · exact Or.inr ⟨z, hz, hzd⟩

/-! ### sums over a duplicate-free list of indices -/

theorem le_sum_of_mem {l : List Nat} {x : Nat} (hx : x ∈ l) : x ≤ l.sum := by
  induction l with
  | nil => cases hx
  | cons a t ih =>
    rcases List.mem_cons.1 hx with rfl | hx
    · simp
    · have := ih hx; simp only [List.sum_cons]; omega

theorem exists_pos_of_sum_pos {l : List Nat} (h : 0 < l.sum) : ∃ y ∈ l, 0 < y := by
  induction l with
  | nil => simp at h
  | cons a t ih =>
    simp only [List.sum_cons] at h
    rcases Nat.eq_zero_or_pos a with h0 | hp
    · obtain ⟨y, hy, hpos⟩ := ih (by omega)
      exact ⟨y, List.mem_cons_of_mem _ hy, hpos⟩
    · exact ⟨a, List.mem_cons_self .., hp⟩

theorem sum_map_filter_ne (g : Nat → Nat) (n : Nat) (V : List Nat) (hn : V.Nodup) :
    (V.map g).sum = ((V.filter (fun v => v != n)).map g).sum + (if n ∈ V then g n else 0) := by
  induction V with
  | nil => simp
  | cons a t ih =>
    have hnt := (List.nodup_cons.1 hn)
    have := ih hnt.2
    by_cases ha : a = n
    · subst ha
      have hnot : ¬ a ∈ t := hnt.1
      simp [hnot] at this ⊢
      omega
    · have hne : ¬ n = a := fun e => ha e.symm
      have hf : List.filter (fun v => v != n) (a :: t) = a :: List.filter (fun v => v != n) t := by
        simp [List.filter_cons, ha]
      rw [hf]
      simp only [List.map_cons, List.sum_cons, List.mem_cons, hne, false_or]
      omega

theorem sum_le_range (g : Nat → Nat) : ∀ (n : Nat) (V : List Nat), V.Nodup → (∀ v ∈ V, v < n) →
    (V.map g).sum ≤ ((List.range n).map g).sum := by
  intro n
  induction n with
  | zero =>
    intro V _ hlt
    cases V with
    | nil => simp
    | cons a t => exact absurd (hlt a (List.mem_cons_self ..)) (Nat.not_lt_zero _)
  | succ n ih =>
    intro V hn hlt
    rw [sum_map_filter_ne g n V hn, List.range_succ, List.map_append, List.sum_append]
    have h1 := ih (V.filter (fun v => v != n)) (hn.filter _) (by
      intro v hv
      have := List.mem_filter.1 hv
      have h2 := hlt v this.1
      have h3 : v ≠ n := by simpa using this.2
      omega)
    simp only [List.map_cons, List.map_nil, List.sum_cons, List.sum_nil]
    split <;> omega

theorem sum_eq_range (g : Nat → Nat) : ∀ (n : Nat) (V : List Nat), V.Nodup → (∀ v ∈ V, v < n) →
    (∀ i, i < n → g i ≠ 0 → i ∈ V) → (V.map g).sum = ((List.range n).map g).sum := by
  intro n
  induction n with
  | zero =>
    intro V _ hlt _
    cases V with
    | nil => simp
    | cons a t => exact absurd (hlt a (List.mem_cons_self ..)) (Nat.not_lt_zero _)
  | succ n ih =>
    intro V hn hlt hall
    rw [sum_map_filter_ne g n V hn, List.range_succ, List.map_append, List.sum_append]
    have h1 := ih (V.filter (fun v => v != n)) (hn.filter _) (by
      intro v hv
      have := List.mem_filter.1 hv
      have h2 := hlt v this.1
      have h3 : v ≠ n := by simpa using this.2
      omega) (by
      intro i hi hg
      exact List.mem_filter.2 ⟨hall i (by omega) hg, by simp; omega⟩)
    simp only [List.map_cons, List.map_nil, List.sum_cons, List.sum_nil]
    by_cases hm : n ∈ V
    · simp [hm]; omega
    · have : g n = 0 := by
        apply Classical.byContradiction
        intro hg
        exact hm (hall n (by omega) hg)
      simp [hm, this]; omega

/-- `heldLen` as a sum over indices -/
theorem map_sum_eq_range (F : Cell → Nat) (h : Heap) :
    (h.map F).sum = ((List.range h.length).map (fun i => match h[i]? with | some c => F c | none => 0)).sum := by
  induction h with
  | nil => simp
  | cons a t ih =>
    rw [List.length_cons, List.range_succ_eq_map, List.map_cons, List.map_cons, List.sum_cons, List.sum_cons, List.map_map, ih]
    simp only [List.getElem?_cons_zero]
    congr 1

def heldAt (h : Heap) (i : Nat) : Nat := if rcOf h i = 0 then 0 else (chOf h i).length

theorem heldLen_eq (h : Heap) : heldLen h = ((List.range h.length).map (heldAt h)).sum := by
  rw [heldLen, map_sum_eq_range]
  apply congrArg
  apply List.map_congr_left
  intro i hi
  have hl : i < h.length := List.mem_range.1 hi
  simp [heldAt, rcOf, chOf, List.getElem?_eq_getElem hl]

/-! ### soundness -/

theorem cnt_pos_le_heldCnt (h : Heap) (j : Nat) (hj : rcOf h j ≠ 0) (d : Nat) : cnt d (chOf h j) ≤ heldCnt h d := by
  rcases Nat.lt_or_ge j h.length with hl | hl
  · obtain ⟨cell, hc, hr, hch⟩ := getElem?_of_lt h j hl
    have hmem : cell ∈ h := List.mem_of_getElem? hc
    have := le_sum_of_mem (l := h.map (fun c => if c.rc = 0 then 0 else cnt d c.ch))
      (x := if cell.rc = 0 then 0 else cnt d cell.ch) (List.mem_map.2 ⟨cell, hmem, rfl⟩)
    rw [hr, hch] at this
    simpa [heldCnt, hj] using this
  · rw [chOf_eq_nil_of_ge h j hl]; simp

/-- Under the invariant (w.r.t. any counted references `cntR`), everything the walk from a set of
counted references visits has a non-zero own count. -/
theorem walk_counted (c : Ctr) (cntR : Nat → Nat) (lenR : Nat) (inv : InvC c cntR lenR) (R : List Item)
    (hR : ∀ id, cnt id R ≤ cntR id) : ∀ v ∈ walk c.heap R [], rcOf c.heap v ≠ 0 := by
  apply walk_inv c.heap (fun v => rcOf c.heap v ≠ 0)
  · intro d hd x hx e he
    have h1 := cnt_pos_le_heldCnt c.heap d hd e
    have h2 := cnt_pos_of_mem hx he
    have := inv.rc e
    omega
  · intro v hv; cases hv
  · intro x hx d hd
    have h2 := cnt_pos_of_mem hx hd
    have := inv.rc d
    have := hR d
    omega

theorem childSum_le_heldLen (c : Ctr) (V : List Nat) (hn : V.Nodup) (hv : ∀ v ∈ V, rcOf c.heap v ≠ 0) :
    childSum c.heap V ≤ heldLen c.heap := by
  have hlt : ∀ v ∈ V, v < c.heap.length := by
    intro v hvm
    rcases Nat.lt_or_ge v c.heap.length with hl | hl
    · exact hl
    · exact absurd (rcOf_eq_zero_of_ge _ v hl) (hv v hvm)
  rw [heldLen_eq]
  have : childSum c.heap V = (V.map (heldAt c.heap)).sum := by
    simp only [childSum]
    apply congrArg
    apply List.map_congr_left
    intro v hvm
    simp [heldAt, hv v hvm]
  rw [this]
  exact sum_le_range _ _ V hn hlt

/-- **Soundness.** If the counter invariant holds for the roots plus any further counted references
(`extra`: what a dropped evaluation stack leaked), then what is reachable by walking from the roots
never exceeds the counter. -/
theorem reach_le_refs (c : Ctr) (R extra : List Item) (inv : InvC c (fun id => cnt id (R ++ extra)) (R ++ extra).length) :
    (reachFrom c.heap R : Int) ≤ c.refs := by
  have hcounted := walk_counted c _ _ inv R (by intro id; simp)
  have hle := childSum_le_heldLen c (walk c.heap R []) (walk_nodup _ _ _ List.nodup_nil) hcounted
  have := inv.refs
  simp only [reachFrom, List.length_append] at this ⊢
  push_cast at this ⊢
  omega

/-! ### exactness -/

theorem exists_bound (f : Nat → Nat) (n : Nat) : ∃ M, ∀ i, i < n → f i < M := by
  induction n with
  | zero => exact ⟨0, fun i hi => absurd hi (Nat.not_lt_zero _)⟩
  | succ n ih =>
    obtain ⟨M, hM⟩ := ih
    refine ⟨max M (f n + 1), fun i hi => ?_⟩
    rcases Nat.lt_succ_iff_lt_or_eq.1 hi with h | rfl
    · have := hM i h; omega
    · omega

theorem heldCnt_pos_witness (h : Heap) (d : Nat) (hp : 0 < heldCnt h d) :
    ∃ j, j < h.length ∧ rcOf h j ≠ 0 ∧ 0 < cnt d (chOf h j) := by
  simp only [heldCnt] at hp
  have : ∃ y ∈ h.map (fun c => if c.rc = 0 then 0 else cnt d c.ch), 0 < y := exists_pos_of_sum_pos hp
  obtain ⟨y, hy, hpos⟩ := this
  obtain ⟨cell, hcm, rfl⟩ := List.mem_map.1 hy
  obtain ⟨j, hj, hget⟩ := List.getElem_of_mem hcm
  refine ⟨j, hj, ?_, ?_⟩
  · simp only [rcOf, List.getElem?_eq_getElem hj, hget]
    intro h0; simp [h0] at hpos
  · simp only [chOf, List.getElem?_eq_getElem hj, hget]
    by_cases h0 : cell.rc = 0
    · simp [h0] at hpos
    · simpa [h0] using hpos

/-- **Exactness.** If the counter invariant holds for exactly the roots and the heap is acyclic,
the counter equals what is reachable by walking. -/
theorem refs_eq_reach (c : Ctr) (R : List Item) (inv : InvC c (fun id => cnt id R) R.length) (hac : Acyclic c.heap) :
    c.refs = (reachFrom c.heap R : Int) := by
  obtain ⟨rank, hrank⟩ := hac
  obtain ⟨M, hM⟩ := exists_bound rank c.heap.length
  let V := walk c.heap R []
  have hnodup : V.Nodup := walk_nodup _ _ _ List.nodup_nil
  have hcounted : ∀ v ∈ V, rcOf c.heap v ≠ 0 := walk_counted c _ _ inv R (fun _ => Nat.le_refl _)
  have hclosed : ∀ v ∈ V, ∀ x ∈ chOf c.heap v, ∀ d, x.cid = some d → d ∈ V :=
    walk_closed c.heap R [] (by intro v hv; cases hv)
  have hroots : ∀ x ∈ R, ∀ d, x.cid = some d → d ∈ V := walk_roots c.heap R []
  -- every counted compound is visited: induction on the distance of its rank to the bound
  have hall : ∀ k i, i < c.heap.length → rcOf c.heap i ≠ 0 → M - rank i ≤ k → i ∈ V := by
    intro k
    induction k with
    | zero =>
      intro i hi _ hk
      have := hM i hi; omega
    | succ k ih =>
      intro i hi hrc hk
      apply Classical.byContradiction
      intro hnot
      have hrci := inv.rc i
      have hz : cnt i R = 0 := by
        rcases Nat.eq_zero_or_pos (cnt i R) with h0 | hp
        · exact h0
        · obtain ⟨x, hx, hxc⟩ := mem_of_cnt_pos hp
          exact absurd (hroots x hx i hxc) hnot
      have hp : 0 < heldCnt c.heap i := by simp only [hz] at hrci; omega
      obtain ⟨j, hj, hrcj, hcj⟩ := heldCnt_pos_witness c.heap i hp
      obtain ⟨x, hx, hxc⟩ := mem_of_cnt_pos hcj
      have hr := hrank j x hx i hxc
      have hMj := hM j hj
      have hjV : j ∈ V := ih j hj hrcj (by omega)
      exact hnot (hclosed j hjV x hx i hxc)
  have hlt : ∀ v ∈ V, v < c.heap.length := by
    intro v hvm
    rcases Nat.lt_or_ge v c.heap.length with hl | hl
    · exact hl
    · exact absurd (rcOf_eq_zero_of_ge _ v hl) (hcounted v hvm)
  have hsum : childSum c.heap V = heldLen c.heap := by
    rw [heldLen_eq]
    have : childSum c.heap V = (V.map (heldAt c.heap)).sum := by
      simp only [childSum]
      apply congrArg
      apply List.map_congr_left
      intro v hvm
      simp [heldAt, hcounted v hvm]
    rw [this]
    apply sum_eq_range _ _ V hnodup hlt
    intro i hi hg
    have hrc : rcOf c.heap i ≠ 0 := by
      intro h0; simp [heldAt, h0] at hg
    exact hall (M - rank i) i hi hrc (Nat.le_refl _)
  have := inv.refs
  simp only [reachFrom]
  show c.refs = ((R.length + childSum c.heap V : Nat) : Int)
  rw [hsum]
  push_cast
  omega

end NeoModel.VmAcct
