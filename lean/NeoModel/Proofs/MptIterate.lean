import NeoModel.Model.Mpt.Iterate
import NeoModel.Proofs.MptLazyBatch
import NeoModel.Proofs.MptKeys
import NeoModel.Proofs.MptBatchList
namespace NeoModel.Mpt

/-- sorted by key, strictly: what `MapToMPTBatch` yields (`sorted_of_mapToBatch`). -/
def SortedKV (kv : Batch) : Prop := kv.Pairwise (fun a b => pathLt a.1 b.1 = true)

theorem take_takeWhile {α} (p : α → Bool) (l : List α) : l.take (l.takeWhile p).length = l.takeWhile p := by
  induction l with
  | nil => rfl
  | cons a l ih =>
    simp only [List.takeWhile_cons]
    split
    · simp [ih]
    · simp

theorem drop_takeWhile {α} (p : α → Bool) (l : List α) : l.drop (l.takeWhile p).length = l.dropWhile p := by
  induction l with
  | nil => rfl
  | cons a l ih =>
    simp only [List.takeWhile_cons, List.dropWhile_cons]
    split
    · simp [ih]
    · simp

theorem mem_takeWhile_true {α} {p : α → Bool} {l : List α} {e : α} (h : e ∈ l.takeWhile p) : p e = true := by
  induction l with
  | nil => cases h
  | cons a l ih =>
    simp only [List.takeWhile_cons] at h
    split at h
    · next hp => rcases List.mem_cons.mp h with rfl | h
                 · exact hp
                 · exact ih h
    · cases h

theorem dropWhile_head_false {α} {p : α → Bool} {l : List α} {d : α} {D : List α} (h : l.dropWhile p = d :: D) :
    p d = false := by
  induction l with
  | nil => cases h
  | cons a l ih =>
    simp only [List.dropWhile_cons] at h
    split at h
    · exact ih h
    · next hp => injection h with h1 _; subst h1; simpa using hp

theorem sub_append (c : Nib) (a b : Batch) : sub c (a ++ b) = sub c a ++ sub c b := by
  simp [sub, List.filterMap_append]

theorem sub_all (c : Nib) (l : Batch) (h : ∀ e ∈ l, startsWith c e = true) : sub c l = stripN 1 l := by
  induction l with
  | nil => rfl
  | cons e l ih =>
    obtain ⟨k, v⟩ := e
    have he := h (k, v) (by simp)
    have ih' := ih (fun e he => h e (by simp [he]))
    cases k with
    | nil => simp [startsWith] at he
    | cons a t =>
      simp [startsWith] at he
      subst he
      simp only [sub, stripN] at ih' ⊢
      simp [ih']

theorem sub_none (c : Nib) (l : Batch) (h : ∀ e ∈ l, startsWith c e = false) : sub c l = [] := by
  induction l with
  | nil => rfl
  | cons e l ih =>
    obtain ⟨k, v⟩ := e
    have he := h (k, v) (by simp)
    have ih' := ih (fun e he => h e (by simp [he]))
    cases k with
    | nil => simpa [sub] using ih'
    | cons a t =>
      simp [startsWith] at he
      simp only [sub] at ih' ⊢
      simp [he, ih']

theorem startsWith_other {c c' : Nib} (hne : c' ≠ c) {e : KV} (h : startsWith c e = true) : startsWith c' e = false := by
  obtain ⟨k, v⟩ := e
  cases k with
  | nil => simp [startsWith] at h
  | cons a t =>
    simp [startsWith] at h ⊢
    subst h; exact fun e => hne e.symm

/-- in a sorted batch everything after an entry whose key starts with `c` has a non-empty key that
starts with a nibble `≥ c`. -/
theorem sorted_heads {c : Nib} {t : Path} {v : Option Val} {rest : Batch} (h : SortedKV ((c :: t, v) :: rest)) :
    ∀ e ∈ rest, ∃ c' t', e.1 = c' :: t' ∧ c ≤ c' := by
  intro e he
  have := (List.pairwise_cons.mp h).1 e he
  obtain ⟨k, w⟩ := e
  cases k with
  | nil => simp [pathLt] at this
  | cons a t' =>
    refine ⟨a, t', rfl, ?_⟩
    simp only [pathLt] at this
    by_cases h1 : c < a
    · exact Nat.le_of_lt h1
    · by_cases h2 : a < c
      · simp [h1, h2] at this
      · exact Nat.le_of_not_lt h2

theorem sorted_tail {e : KV} {l : Batch} (h : SortedKV (e :: l)) : SortedKV l := (List.pairwise_cons.mp h).2

/-- after the run of `c` nothing starts with `c` any more. -/
theorem dropWhile_none {c : Nib} {t : Path} {v : Option Val} {rest : Batch} (h : SortedKV ((c :: t, v) :: rest)) :
    ∀ e ∈ rest.dropWhile (startsWith c), startsWith c e = false := by
  have hsub : (rest.dropWhile (startsWith c)).Sublist rest := List.dropWhile_sublist _
  have hs : SortedKV (rest.dropWhile (startsWith c)) := (sorted_tail h).sublist hsub
  cases hd : rest.dropWhile (startsWith c) with
  | nil => intro e he; cases he
  | cons d0 D =>
    have h0 : startsWith c d0 = false := dropWhile_head_false hd
    obtain ⟨c0, t0, hk0, hle0⟩ := sorted_heads h d0 (hsub.subset (by rw [hd]; simp))
    have hlt : c < c0 := by
      have : c0 ≠ c := by
        intro e; subst e
        obtain ⟨k, w⟩ := d0
        simp only at hk0; subst hk0
        simp [startsWith] at h0
      exact Nat.lt_of_le_of_ne hle0 (fun e => this (Fin.ext e.symm))
    rw [hd] at hs
    obtain ⟨k0, w0⟩ := d0
    simp only at hk0; subst hk0
    intro e he
    rcases List.mem_cons.mp he with rfl | he
    · exact h0
    · obtain ⟨c', t', hk, hle⟩ := sorted_heads hs e he
      obtain ⟨k, w⟩ := e
      simp only at hk; subst hk
      simp only [startsWith, List.head?_cons, beq_eq_false_iff_ne, ne_eq, Option.some.injEq]
      intro e; subst e
      exact absurd (Nat.lt_of_lt_of_le hlt hle) (Nat.lt_irrefl _)

theorem lookup_nil_none {l : Batch} (h : ∀ e ∈ l, e.1 ≠ []) : l.lookup ([] : Path) = none := by
  induction l with
  | nil => rfl
  | cons e l ih =>
    obtain ⟨k, v⟩ := e
    have := h (k, v) (by simp)
    cases k with
    | nil => simp at this
    | cons a t =>
      have ih' := ih (fun e he => h e (by simp [he]))
      simp [List.lookup, ih']

/-- batch.go:204-219 = the per-child selection of the model: on a sorted batch, putting the runs
that `iterateBatch` cuts into their children one after the other gives, for every child, what the
model computes from `sub c kv`, and for the 17th child `slot kv v`. (`hslot`: what `rec` does with
the single-entry run of the empty key on a leaf/empty 17th child — true of `putBatchNode`.) -/
theorem iterBranch_groups (rec : Node → Batch → Node)
    (hslot : ∀ v ov, slotOf (rec (slotNode v) [([], ov)]) = ov) :
    ∀ (f : Nat) (kv : Batch), kv.length ≤ f → SortedKV kv → ∀ (cs : Nib → Node) (v : Option Val),
      iterBranch rec (iterGroups f kv) (cs, v) =
        (fun c => if sub c kv = [] then cs c else rec (cs c) (sub c kv), slot kv v) := by
  intro f
  induction f with
  | zero =>
    intro kv hl _ cs v
    have : kv = [] := List.length_eq_zero_iff.mp (Nat.le_zero.mp hl)
    subst this
    simp [iterGroups, iterBranch, sub, slot]
  | succ f ih =>
    intro kv hl hs cs v
    cases kv with
    | nil => simp [iterGroups, iterBranch, sub, slot]
    | cons e rest =>
      obtain ⟨k, val⟩ := e
      have hl' : rest.length ≤ f := by simpa using hl
      cases k with
      | nil =>
        -- the empty key: a run of its own, for the 17th child
        have hne : ∀ e ∈ rest, e.1 ≠ [] := by
          intro e he hk
          have := (List.pairwise_cons.mp hs).1 e he
          simp [hk, pathLt] at this
        simp only [iterGroups, getLastIndex, Option.isSome_none, Bool.false_eq_true, if_false, List.take_succ_cons,
          List.take_zero, List.drop_succ_cons, List.drop_zero, iterBranch, hslot]
        rw [ih rest hl' (sorted_tail hs)]
        congr 1
        simp [slot, List.lookup, lookup_nil_none hne]
      | cons c t =>
        have hD := dropWhile_none hs
        have hT : ∀ e ∈ rest.takeWhile (startsWith c), startsWith c e = true := fun e he => mem_takeWhile_true he
        have hsplit : rest = rest.takeWhile (startsWith c) ++ rest.dropWhile (startsWith c) :=
          (List.takeWhile_append_dropWhile).symm
        have hDs : SortedKV (rest.dropWhile (startsWith c)) := (sorted_tail hs).sublist (List.dropWhile_sublist _)
        have hDl : (rest.dropWhile (startsWith c)).length ≤ f :=
          Nat.le_trans (List.dropWhile_sublist _).length_le hl'
        have hallne : ∀ e ∈ (c :: t, val) :: rest, e.1 ≠ [] := by
          intro e he
          rcases List.mem_cons.mp he with rfl | he
          · simp
          · obtain ⟨c', t', hk, _⟩ := sorted_heads hs e he
            rw [hk]; simp
        simp only [iterGroups, getLastIndex, Option.isSome_some, if_true]
        rw [show 1 + (rest.takeWhile (startsWith c)).length = (rest.takeWhile (startsWith c)).length + 1 by omega]
        simp only [List.take_succ_cons, List.drop_succ_cons, take_takeWhile, drop_takeWhile, iterBranch]
        rw [ih _ hDl hDs]
        -- the run is `sub c kv`; the other children see the rest
        have hrun : sub c ((c :: t, val) :: rest) = stripN 1 ((c :: t, val) :: rest.takeWhile (startsWith c)) := by
          conv => lhs; rw [hsplit]
          rw [show (c :: t, val) :: (rest.takeWhile (startsWith c) ++ rest.dropWhile (startsWith c)) =
            ((c :: t, val) :: rest.takeWhile (startsWith c)) ++ rest.dropWhile (startsWith c) by simp]
          rw [sub_append, sub_none c _ hD, List.append_nil]
          apply sub_all
          intro e he
          rcases List.mem_cons.mp he with rfl | he
          · simp [startsWith]
          · exact hT e he
        have hother : ∀ c', c' ≠ c → sub c' ((c :: t, val) :: rest) = sub c' (rest.dropWhile (startsWith c)) := by
          intro c' hne
          conv => lhs; rw [hsplit]
          rw [show (c :: t, val) :: (rest.takeWhile (startsWith c) ++ rest.dropWhile (startsWith c)) =
            ((c :: t, val) :: rest.takeWhile (startsWith c)) ++ rest.dropWhile (startsWith c) by simp]
          rw [sub_append]
          rw [sub_none c' ((c :: t, val) :: rest.takeWhile (startsWith c))]
          · simp
          · intro e he
            rcases List.mem_cons.mp he with rfl | he
            · simp [startsWith]; exact fun e => hne e.symm
            · exact startsWith_other hne (hT e he)
        have hrne : sub c ((c :: t, val) :: rest) ≠ [] := by rw [hrun]; simp [stripN]
        congr 1
        · funext c'
          by_cases hc : c' = c
          · subst hc
            rw [sub_none c' _ hD, if_pos rfl, upd_same, if_neg hrne, hrun]
          · rw [hother c' hc, upd_other _ _ _ _ hc]
        · have h1 : ((c :: t, val) :: rest).lookup ([] : Path) = none := lookup_nil_none hallne
          have h2 : (rest.dropWhile (startsWith c)).lookup ([] : Path) = none :=
            lookup_nil_none (fun e he => hallne e (by simp [(List.dropWhile_sublist _).subset he]))
          simp [slot, h1, h2]

theorem slotOf_slotNode (ov : Option Val) : slotOf (slotNode ov) = ov := by cases ov <;> rfl

/-- `addToBranch` as the code runs it (runs of the sorted batch, one child after the other, then
`stripBranch`) is the batch model's branch case. -/
theorem putBatchNode_branch_iterate (cs : Nib → Node) (v : Option Val) (kv : Batch) (hs : SortedKV kv) :
    putBatchNode (.branch cs v) kv =
      stripBranch (iterBranch putBatchNode (iterGroups kv.length kv) (cs, v)).1
        (iterBranch putBatchNode (iterGroups kv.length kv) (cs, v)).2 := by
  rw [iterBranch_groups putBatchNode (fun v ov => by rw [putBatchNode_slot, slotOf_slotNode]) kv.length kv
    (Nat.le_refl _) hs cs v]
  rfl

end NeoModel.Mpt
