/- C19 simulation, part C1: the invariant of one event, and the handlers that take no abstract step. -/
import NeoModel.Proofs.DbftSimB
namespace NeoModel.Dbft.Mach
open NeoModel.Dbft

def G (e : Env) (as : State) : Prop := Reachable (cfgOf e) as ∧ SentAll (cfgOf e) as

theorem G.ext {e : Env} {as as' : State} {i : Nat} (g : G e as) (x : SimExt (cfgOf e) i as as') : G e as' :=
  ⟨x.steps.reachable g.1, x.sent g.2⟩

/-- what the ledger needs of a block witness (consensus.go getBlockWitness): signatures of that block only, exactly M
of them, in validator order -/
def SigsOK (e : Env) (sigs : List (Nat × Bool)) : Prop :=
  (∀ s ∈ sigs, s.2 = true) ∧ sigs.length = e.m ∧ sigs.Pairwise (fun s t => s.1 < t.1)

/-- the machine world `w` of validator `i` in the middle of an event, against the abstract state `as` -/
structure Good (e : Env) (as : State) (i : Nat) (w : W) : Prop where
  g : G e as
  rn : RN e as i w.nd
  outs : ∀ pl, Out.bcast pl ∈ w.out → Claims e as pl
  /-- every block handed to the ledger so far carries exactly M signatures, of that block only, in validator order -/
  blk : ∀ b sigs, Out.block b sigs ∈ w.out → SigsOK e sigs
  st : w.nd.bi ≠ 0
  lt : i < e.n

/-- from `as`, validator `i`'s abstract node can be extended so that `w'` is good again -/
def Prog (e : Env) (i : Nat) (as : State) (w' : W) : Prop := ∃ as', SimExt (cfgOf e) i as as' ∧ Good e as' i w'

theorem Prog.of_good {e : Env} {i : Nat} {as : State} {w : W} (h : Good e as i w) : Prog e i as w :=
  ⟨as, SimExt.refl _ _ _, h⟩

theorem Prog.bind {e : Env} {i : Nat} {as : State} {w w' : W} (h : Prog e i as w)
    (f : ∀ as', Good e as' i w → Prog e i as' w') : Prog e i as w' := by
  obtain ⟨as1, x1, g1⟩ := h
  obtain ⟨as2, x2, g2⟩ := f as1 g1
  exact ⟨as2, x1.trans x2, g2⟩

/-- what `OnReceive` one level down has to satisfy -/
def KOK (e : Env) (i : Nat) (k : W → Pl → W) : Prop :=
  ∀ as w m, Good e as i w → Claims e as m → Prog e i as (k w m)

/-- a change of the world that the relation does not see -/
theorem Good.congr {e : Env} {as : State} {i : Nat} {w w' : W} (h : Good e as i w)
    (h1 : w'.nd.my = w.nd.my) (h2 : w'.nd.prep = w.nd.prep) (h3 : w'.nd.commit = w.nd.commit) (h4 : w'.nd.cv = w.nd.cv)
    (h5 : w'.nd.lastCv = w.nd.lastCv) (h6 : w'.nd.chain = w.nd.chain) (h7 : w'.nd.bi = w.nd.bi)
    (h8 : w'.nd.view = w.nd.view) (h9 : w'.nd.pidx = w.nd.pidx) (h10 : w.nd.blockProcessed = true → w'.nd.blockProcessed = true)
    (h11 : w'.nd.cache = w.nd.cache) (ho : ∀ pl, Out.bcast pl ∈ w'.out → Out.bcast pl ∈ w.out)
    (hb : ∀ b s, Out.block b s ∈ w'.out → Out.block b s ∈ w.out) : Good e as i w' :=
  ⟨h.g, h.rn.congr h1 h2 h3 h4 h5 h6 h7 h8 h9 h10 h11, fun pl hp => h.outs pl (ho pl hp),
   fun b s hp => h.blk b s (hb b s hp), by rw [h7]; exact h.st, h.lt⟩

theorem good_changeTimer {e : Env} {as : State} {i : Nat} {w : W} (h : Good e as i w) (d : Nat) :
    Good e as i (changeTimer w d) := by
  apply h.congr <;> first | rfl | exact id | (intro pl hp; simpa [changeTimer, W.emit, W.upd] using hp) | (intro b s hp; simpa [changeTimer, W.emit, W.upd] using hp)

theorem good_extendTimer {e : Env} {as : State} {i : Nat} {w : W} (h : Good e as i w) (cnt : Nat) :
    Good e as i (extendTimer e w cnt) := by
  unfold extendTimer
  split
  · apply h.congr <;> first | rfl | exact id | (intro pl hp; simpa [W.emit, W.upd] using hp) | (intro b s hp; simpa [W.emit, W.upd] using hp)
  · exact h

theorem good_stopTx {e : Env} {as : State} {i : Nat} {w : W} (h : Good e as i w) : Good e as i (stopTx w) := by
  apply h.congr <;> first | rfl | exact id | (intro pl hp; simpa [stopTx, W.emit, W.upd] using hp) | (intro b s hp; simpa [stopTx, W.emit, W.upd] using hp)

theorem good_bcast {e : Env} {as : State} {i : Nat} {w : W} (h : Good e as i w) (pl : Pl) (hc : Claims e as pl) :
    Good e as i (bcast w pl) := by
  refine ⟨h.g, h.rn, ?_, ?_, h.st, h.lt⟩
  · intro p hp
    simp only [bcast, W.emit, List.mem_cons, Out.bcast.injEq] at hp
    rcases hp with rfl | hp
    · exact hc
    · exact h.outs p hp
  · intro b s hp
    exact h.blk b s (by simpa [bcast, W.emit] using hp)

/-- a change of fields the relation does not look at -/
theorem good_upd {e : Env} {as : State} {i : Nat} {w : W} (h : Good e as i w) (f : Node → Node)
    (h1 : (f w.nd).my = w.nd.my) (h2 : (f w.nd).prep = w.nd.prep) (h3 : (f w.nd).commit = w.nd.commit)
    (h4 : (f w.nd).cv = w.nd.cv) (h5 : (f w.nd).lastCv = w.nd.lastCv) (h6 : (f w.nd).chain = w.nd.chain)
    (h7 : (f w.nd).bi = w.nd.bi) (h8 : (f w.nd).view = w.nd.view) (h9 : (f w.nd).pidx = w.nd.pidx)
    (h10 : w.nd.blockProcessed = true → (f w.nd).blockProcessed = true) (h11 : (f w.nd).cache = w.nd.cache) :
    Good e as i (w.upd f) :=
  h.congr h1 h2 h3 h4 h5 h6 h7 h8 h9 h10 h11 (fun _ hp => hp) (fun _ _ hp => hp)

theorem processMissingTx_frame (e : Env) (w : W) :
    let w' := processMissingTx e w
    w'.nd.my = w.nd.my ∧ w'.nd.prep = w.nd.prep ∧ w'.nd.commit = w.nd.commit ∧ w'.nd.cv = w.nd.cv ∧
    w'.nd.lastCv = w.nd.lastCv ∧ w'.nd.chain = w.nd.chain ∧ w'.nd.bi = w.nd.bi ∧ w'.nd.view = w.nd.view ∧
    w'.nd.pidx = w.nd.pidx ∧ w'.nd.blockProcessed = w.nd.blockProcessed ∧ w'.nd.cache = w.nd.cache ∧
    (∀ pl, Out.bcast pl ∈ w'.out → Out.bcast pl ∈ w.out) ∧
    (∀ b s, Out.block b s ∈ w'.out → Out.block b s ∈ w.out) := by
  have hfold : ∀ (l : List Nat) (nd : Node),
      let nd' := l.foldl (fun nd t => if nd.txs.contains t then nd else if getTx e nd t then { nd with txs := nd.txs ++ [t] }
        else { nd with missing := nd.missing ++ [t] }) nd
      nd'.my = nd.my ∧ nd'.prep = nd.prep ∧ nd'.commit = nd.commit ∧ nd'.cv = nd.cv ∧ nd'.lastCv = nd.lastCv ∧
      nd'.chain = nd.chain ∧ nd'.bi = nd.bi ∧ nd'.view = nd.view ∧ nd'.pidx = nd.pidx ∧
      nd'.blockProcessed = nd.blockProcessed ∧ nd'.cache = nd.cache := by
    intro l
    induction l with
    | nil => intro nd; simp
    | cons t rest ih =>
      intro nd
      simp only [List.foldl_cons]
      split
      · exact ih nd
      · split
        · have := ih { nd with txs := nd.txs ++ [t] }; simpa using this
        · have := ih { nd with missing := nd.missing ++ [t] }; simpa using this
  intro w'
  have hf := hfold w.nd.txHashes w.nd
  simp only [w', processMissingTx]
  split
  · simp only [W.emit, W.upd]
    obtain ⟨a1, a2, a3, a4, a5, a6, a7, a8, a9, a10, a11⟩ := hf
    refine ⟨a1, a2, a3, a4, a5, a6, a7, a8, a9, a10, a11, ?_, ?_⟩
    · intro pl hp; simpa using hp
    · intro b s hp; simpa using hp
  · obtain ⟨a1, a2, a3, a4, a5, a6, a7, a8, a9, a10, a11⟩ := hf
    exact ⟨a1, a2, a3, a4, a5, a6, a7, a8, a9, a10, a11, fun _ hp => hp, fun _ _ hp => hp⟩

theorem good_processMissingTx {e : Env} {as : State} {i : Nat} {w : W} (h : Good e as i w) :
    Good e as i (processMissingTx e w) := by
  obtain ⟨a1, a2, a3, a4, a5, a6, a7, a8, a9, a10, a11, a12, a13⟩ := processMissingTx_frame e w
  exact h.congr a1 a2 a3 a4 a5 a6 a7 a8 a9 (by rw [a10]; exact id) a11 a12 a13

theorem good_sendRecoveryRequest {e : Env} {as : State} {i : Nat} {w : W} (h : Good e as i w) :
    Good e as i (sendRecoveryRequest e w) := by
  unfold sendRecoveryRequest
  split
  · exact good_bcast (good_processMissingTx h) _ trivial
  · exact good_bcast h _ trivial

end NeoModel.Dbft.Mach
