/- C07 helper lemmas: the fee fields. -/
import NeoModel.Model.Fees.FeeFields
namespace NeoModel.FeeFields
open NeoModel NeoModel.Admission NeoModel.Pack
open NeoModel.Generated.FeeConsts

theorem wrap64_range (x : Int) : -(2 ^ 63) ≤ wrap64 x ∧ wrap64 x < 2 ^ 63 := by
  simp only [wrap64, Int.reducePow]; omega

theorem wrap64_eq (x : Int) (h0 : -(2 ^ 63) ≤ x) (h1 : x < 2 ^ 63) : wrap64 x = x := by
  simp only [wrap64, Int.reducePow] at *; omega

/-- the three tests in terms of the unsigned words. -/
theorem feesValid_eq (sysU netU : Nat) (hs : sysU < 2 ^ 64) (hn : netU < 2 ^ 64) :
    feesValid sysU netU =
      if 2 ^ 63 ≤ sysU then some .negSys else if 2 ^ 63 ≤ netU then some .negNet
      else if 2 ^ 63 ≤ sysU + netU then some .tooBig else none := by
  simp only [feesValid, toInt64, wrap64, Int.reducePow, Nat.reducePow] at *
  by_cases a : sysU < 9223372036854775808 <;> by_cases b : netU < 9223372036854775808
  · have a' : ¬ 9223372036854775808 ≤ sysU := by omega
    have b' : ¬ 9223372036854775808 ≤ netU := by omega
    have c1 : ¬ ((sysU : Int) < 0) := by omega
    have c2 : ¬ ((netU : Int) < 0) := by omega
    simp only [a, b, a', b', c1, c2, if_true, if_false]
    by_cases c : 9223372036854775808 ≤ sysU + netU
    · have : ((netU : Int) + sysU + 9223372036854775808) % 18446744073709551616 - 9223372036854775808 < sysU := by omega
      simp only [c, this, if_true]
    · have : ¬ ((netU : Int) + sysU + 9223372036854775808) % 18446744073709551616 - 9223372036854775808 < sysU := by omega
      simp only [c, this, if_false]
  · have a' : ¬ 9223372036854775808 ≤ sysU := by omega
    have b' : 9223372036854775808 ≤ netU := by omega
    have c1 : ¬ ((sysU : Int) < 0) := by omega
    have c2 : (netU : Int) - 18446744073709551616 < 0 := by omega
    simp only [a, b, a', b', c1, c2, if_true, if_false]
  · have a' : 9223372036854775808 ≤ sysU := by omega
    have c1 : (sysU : Int) - 18446744073709551616 < 0 := by omega
    simp only [a, a', c1, if_true, if_false]
  · have a' : 9223372036854775808 ≤ sysU := by omega
    have c1 : (sysU : Int) - 18446744073709551616 < 0 := by omega
    simp only [a, a', c1, if_true, if_false]

/-- **the decode-time checks are exact**: two wire words pass `isValid` iff both are non-negative as int64 and their
mathematical sum fits an int64. -/
theorem feesValid_iff (sysU netU : Nat) (hs : sysU < 2 ^ 64) (hn : netU < 2 ^ 64) :
    feesValid sysU netU = none ↔ sysU < 2 ^ 63 ∧ netU < 2 ^ 63 ∧ sysU + netU < 2 ^ 63 := by
  rw [feesValid_eq sysU netU hs hn]
  constructor
  · intro h
    split at h; · simp at h
    split at h; · simp at h
    split at h; · simp at h
    omega
  · intro ⟨h1, h2, h3⟩
    have a : ¬ 2 ^ 63 ≤ sysU := by omega
    have b : ¬ 2 ^ 63 ≤ netU := by omega
    have c : ¬ 2 ^ 63 ≤ sysU + netU := by omega
    simp only [a, b, c, if_false]


/-- an attribute of the admission model as `CalculateAttributesFee` reads it. -/
def toM (c : Chain) (a : Attr) : Int × AttrKind :=
  ((c.attrFee a.typ : Int), match a with
    | .conflicts _ => .conflicts
    | .notaryAssisted nk => .notaryAssisted nk
    | _ => .other)

/-- the most one attribute can add: the maximal attribute fee Policy accepts, times 256 keys (or 16 signers). -/
def attrBound : Nat := policy_maxAttributeFee * 256

theorem attrStep_le (c : Chain) (n : Nat) (a : Attr) (hn : n ≤ maxAttributes)
    (hf : c.attrFee a.typ ≤ policy_maxAttributeFee) (hk : ∀ nk, a = .notaryAssisted nk → nk ≤ 255) :
    attrsFee c n [a] ≤ attrBound := by
  have h16 : n ≤ 256 := by simp only [maxAttributes] at hn; omega
  unfold attrBound
  generalize policy_maxAttributeFee = M at hf ⊢
  simp only [attrsFee, Nat.add_zero]
  have hone : c.attrFee a.typ ≤ M * 256 := by omega
  cases a with
  | conflicts h => exact Nat.mul_le_mul hf h16
  | notaryAssisted nk =>
    have := hk nk rfl
    simp only
    split
    · exact Nat.mul_le_mul hf (by omega)
    · omega
  | highPriority => exact hone
  | oracleResponse f => exact hone
  | notValidBefore h => exact hone
  | other t => exact hone

theorem attrsFee_cons' (c : Chain) (n : Nat) (a : Attr) (l : List Attr) :
    attrsFee c n (a :: l) = attrsFee c n [a] + attrsFee c n l := by
  simp [attrsFee]

theorem wrap_add (acc x : Nat) (h : acc + x < 2 ^ 63) : wrap64 ((acc : Int) + (x : Int)) = ((acc + x : Nat) : Int) := by
  simp only [Nat.reducePow] at h
  rw [wrap64_eq _ (by simp only [Int.reducePow]; omega) (by simp only [Int.reducePow]; omega)]
  simp

theorem wrap_mul (b m : Nat) (h : b * m < 2 ^ 63) : wrap64 ((b : Int) * (m : Int)) = ((b * m : Nat) : Int) := by
  have hc : ((b * m : Nat) : Int) = (b : Int) * (m : Int) := by simp
  rw [← hc]
  generalize b * m = P at h ⊢
  simp only [Nat.reducePow] at h
  exact wrap64_eq _ (by simp only [Int.reducePow]; omega) (by simp only [Int.reducePow]; omega)

/-- one step of the int64 loop is one step of the exact sum. -/
theorem attrStepM (c : Chain) (n : Nat) (a : Attr) (acc : Nat) (hk : ∀ nk, a = .notaryAssisted nk → nk ≤ 255)
    (hb : acc + attrsFee c n [a] < 2 ^ 63) :
    attrsFeeM c.p2pSigExt n [toM c a] acc = ((acc + attrsFee c n [a] : Nat) : Int) := by
  simp only [attrsFee, Nat.add_zero] at hb
  simp only [attrsFeeM, toM, attrsFee, Nat.add_zero]
  cases a with
  | conflicts h =>
    simp only at hb ⊢
    rw [wrap_mul _ _ (by omega), wrap_add _ _ hb]
  | notaryAssisted nk =>
    simp only at hb ⊢
    have hnk := hk nk rfl
    split
    · rename_i hp
      simp only [hp, if_true] at hb
      have e1 : wrap64 ((nk : Int) + 1) = ((nk + 1 : Nat) : Int) := by
        rw [wrap64_eq _ (by simp only [Int.reducePow]; omega) (by simp only [Int.reducePow]; omega)]; simp
      rw [e1, wrap_mul _ _ (by omega), wrap_add _ _ hb]
    · simp
  | highPriority => simp only at hb ⊢; exact wrap_add _ _ hb
  | oracleResponse f => simp only at hb ⊢; exact wrap_add _ _ hb
  | notValidBefore h => simp only at hb ⊢; exact wrap_add _ _ hb
  | other t => simp only at hb ⊢; exact wrap_add _ _ hb

theorem attrsFeeM_cons (p2p : Bool) (n : Nat) (x : Int × AttrKind) (l : List (Int × AttrKind)) (acc : Int) :
    attrsFeeM p2p n (x :: l) acc = attrsFeeM p2p n l (attrsFeeM p2p n [x] acc) := by
  simp [attrsFeeM]

/-- **no overflow in `CalculateAttributesFee`**: with the limits Policy enforces on attribute fees, at most 16
signers and one-byte key counts, as long as `acc + (number of attributes) · attrBound < 2^63` the int64 computation
is the exact sum. -/
theorem attrsFeeM_exact (c : Chain) (n : Nat) (hn : n ≤ maxAttributes) : ∀ (attrs : List Attr) (acc : Nat),
    (∀ a ∈ attrs, c.attrFee a.typ ≤ policy_maxAttributeFee ∧ ∀ nk, a = .notaryAssisted nk → nk ≤ 255) →
    acc + attrs.length * attrBound < 2 ^ 63 →
    attrsFeeM c.p2pSigExt n (attrs.map (toM c)) acc = ((acc + attrsFee c n attrs : Nat) : Int)
      ∧ attrsFee c n attrs ≤ attrs.length * attrBound := by
  intro attrs
  induction attrs with
  | nil => intro acc _ _; simp [attrsFeeM, attrsFee]
  | cons a as ih =>
    intro acc ha hb
    obtain ⟨hf, hk⟩ := ha a (by simp)
    have hstep := attrStep_le c n a hn hf hk
    simp only [List.length_cons, Nat.add_mul, Nat.one_mul] at hb
    obtain ⟨h1, h2⟩ := ih (acc + attrsFee c n [a]) (fun x hx => ha x (by simp [hx])) (by omega)
    rw [List.map_cons, attrsFeeM_cons, attrStepM c n a acc hk (by omega), h1, attrsFee_cons' c n a as]
    refine ⟨by simp [Nat.add_assoc], ?_⟩
    simp only [List.length_cons, Nat.add_mul, Nat.one_mul]
    omega

/-- **no overflow in `needNetworkFee` and in the comparison**: for a transaction within MaxTransactionSize, a fee
per byte within Policy's maximum and attribute fees below 2^62, `int64(size)*FeePerByte + attrFees` is exact, and
for a non-negative network fee the test `NetworkFee - need < 0` is `NetworkFee < need`. -/
theorem needM_exact (size fpb af net : Nat) (hs : size ≤ maxTransactionSize) (hf : fpb ≤ policy_maxFeePerByte)
    (ha : af < 2 ^ 62) (hn : net < 2 ^ 63) :
    needM size fpb af = ((size * fpb + af : Nat) : Int)
    ∧ smallNetFeeM net (needM size fpb af) = decide (net < size * fpb + af) := by
  have hmul : size * fpb ≤ maxTransactionSize * policy_maxFeePerByte := Nat.mul_le_mul hs hf
  simp only [maxTransactionSize, policy_maxFeePerByte, Nat.reducePow, Nat.reduceMul] at hmul ha hn
  have hc : ((size * fpb : Nat) : Int) = (size : Int) * (fpb : Int) := by simp
  have e1 : needM size fpb af = ((size * fpb + af : Nat) : Int) := by
    simp only [needM]
    rw [wrap64_eq ((size : Int) * fpb) (by simp only [Int.reducePow]; omega) (by simp only [Int.reducePow]; omega)]
    rw [wrap64_eq _ (by simp only [Int.reducePow]; omega) (by simp only [Int.reducePow]; omega)]
    simp
  refine ⟨e1, ?_⟩
  rw [e1]
  simp only [smallNetFeeM]
  rw [wrap64_eq _ (by simp only [Int.reducePow]; omega) (by simp only [Int.reducePow]; omega)]
  simp only [decide_eq_decide]
  omega

end NeoModel.FeeFields
