/-
C01 — single-state systems: adequacy, product, and the product of all modelled natives.
-/
import NeoModel.Model.Ledger.Product
import NeoModel.Proofs.LedgerComp
import NeoModel.Proofs.Ledger
import NeoModel.Proofs.LedgerAdequate
namespace NeoModel.Ledger

/-- adequacy of a single-state system (cf. `Adequate`) -/
structure UAdequate {V C B R T : Type} (U : USys V C B R T) (Good : V → C → Nat → Prop) : Prop where
  good_restart : ∀ v c h, Good v c h → Good v (U.initCache v h) h
  good_step : ∀ v c h b, Good v c h → Good (U.apply v c (h + 1) b).1 (U.apply v c (h + 1) b).2.1 (h + 1)
  good_det : ∀ v c₁ c₂ h, Good v c₁ h → Good v c₂ h →
    U.getters c₁ h = U.getters c₂ h ∧
    ∀ b, (U.apply v c₁ (h + 1) b).1 = (U.apply v c₂ (h + 1) b).1 ∧
         (U.apply v c₁ (h + 1) b).2.2 = (U.apply v c₂ (h + 1) b).2.2

variable {V C B R T V₂ C₂ B₂ R₂ T₂ : Type}

def UGood (Good : V → C → Nat → Prop) : (Unit → Option V) → C → Nat → Prop :=
  fun sv c h => ∃ v, sv () = some v ∧ Good v c h

theorem stateView_toSys (U : USys V C B R T) (d : C) (rd : Unit → Option V) : stateView (U.toSys d) rd = rd := by
  funext k; simp [stateView, USys.toSys]

theorem UAdequate.toAdequate {U : USys V C B R T} {Good} (hU : UAdequate U Good) (d : C) :
    Adequate (U.toSys d) (UGood Good) where
  apply_state := by intro rd c h b; rw [stateView_toSys]
  init_state := by intro rd h; rw [stateView_toSys]
  good_restart := by
    intro sv c h ⟨v, hsv, hg⟩
    refine ⟨v, hsv, ?_⟩
    simp only [USys.toSys, hsv]
    exact hU.good_restart v c h hg
  good_step := by
    intro sv c h b ⟨v, hsv, hg⟩
    refine ⟨(U.apply v c (h + 1) b).1, ?_, ?_⟩
    · rw [stateView_toSys]
      simp [USys.toSys, hsv, overlay, Changes.find?]
    · simp only [USys.toSys, hsv]
      exact hU.good_step v c h b hg
  good_det := by
    intro sv c₁ c₂ h ⟨v, hsv, g1⟩ ⟨v', hsv', g2⟩
    have : v' = v := by rw [hsv] at hsv'; exact (Option.some.inj hsv').symm
    subst this
    have hd := hU.good_det v' c₁ c₂ h g1 g2
    refine ⟨hd.1, ?_⟩
    intro b
    simp only [USys.toSys, hsv]
    exact ⟨by rw [(hd.2 b).1], (hd.2 b).2⟩

theorem UAdequate.prod {U₁ : USys V C B R T} {U₂ : USys V₂ C₂ B₂ R₂ T₂} {G₁ G₂}
    (h₁ : UAdequate U₁ G₁) (h₂ : UAdequate U₂ G₂) :
    UAdequate (U₁.prod U₂) (fun v c h => G₁ v.1 c.1 h ∧ G₂ v.2 c.2 h) where
  good_restart := fun v c h g => ⟨h₁.good_restart _ _ _ g.1, h₂.good_restart _ _ _ g.2⟩
  good_step := fun v c h b g => ⟨h₁.good_step _ _ _ b.1 g.1, h₂.good_step _ _ _ b.2 g.2⟩
  good_det := by
    intro v c₁ c₂ h g1 g2
    have d1 := h₁.good_det _ _ _ _ g1.1 g2.1
    have d2 := h₂.good_det _ _ _ _ g1.2 g2.2
    refine ⟨?_, ?_⟩
    · simp only [USys.prod]; rw [d1.1, d2.1]
    · intro b
      simp only [USys.prod]
      rw [(d1.2 b.1).1, (d2.2 b.2).1, (d1.2 b.1).2, (d2.2 b.2).2]
      exact ⟨rfl, rfl⟩

/-- an exact component is adequate: the only fitting cache is InitializeCache(storage) -/
theorem Comp.Exact.uadequate {S Cc O : Type} {K : Comp S Cc O} (hE : K.Exact) :
    UAdequate K.toUSys (fun s c _ => c = K.init s) where
  good_restart := fun _ _ _ _ => rfl
  good_step := by
    intro s c h b hg
    subst hg
    exact Comp.runBlock_exact K hE (h + 1) b s
  good_det := by
    intro s c₁ c₂ h g1 g2
    subst g1 g2
    exact ⟨rfl, fun _ => ⟨rfl, rfl⟩⟩

end NeoModel.Ledger

namespace NeoModel.Ledger.Natives
open NeoModel.Ledger NeoModel.Ledger.Components

/-- Policy (fees, blocked list) + NEO governance as a single-state system -/
def natU (cfg : Cfg) : USys Storage Caches (List Tx) (List Res) Getters where
  apply := applyBlock cfg
  initCache := initCaches cfg
  getters := fun c _ => getters c
  noResult := []

def NatGood (cfg : Cfg) (st : Storage) (c : Caches) (h : Nat) : Prop :=
  c.policy = initPolicy st ∧ NeoGood cfg st c.neo h

theorem natU_adequate (cfg : Cfg) : UAdequate (natU cfg) (NatGood cfg) where
  good_restart := fun st _ h _ => ⟨rfl, initNeo_good cfg st h⟩
  good_step := fun st c h b g => applyBlock_good cfg st c h b g.1 g.2
  good_det := by
    intro st c₁ c₂ h g1 g2
    have hc := good_caches_eq cfg st c₁ c₂ h g1.1 g1.2 g2.1 g2.2
    refine ⟨by rw [hc]; rfl, ?_⟩
    intro b
    have := applyBlock_flag cfg st c₁ c₂.neo.votesChanged (h + 1) b
    rw [hc]
    exact ⟨by simp only [natU]; rw [this.1], by simp only [natU]; rw [this.2]⟩

-- the product of all modelled natives (guards of the committee setters included): Proofs/LedgerProductG.lean

end NeoModel.Ledger.Natives
