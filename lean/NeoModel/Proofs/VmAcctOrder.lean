/-
C12: the order of the checks of one instruction cycle and the comparison operators of the limits, as
the models have them, equal what Generated/VmOrder.lean says vm.go has NOW (regenerated with go/ast
on every run). If the source changes the order (execute before charging, compare before adding, the
size check before the instruction, the depth check after the push) or an operator (`>` ↔ `>=`), the
table changes and a theorem of this file stops compiling.
-/
import NeoModel.Proofs.VmAcctBase
import NeoModel.Proofs.VmAcctGas
import NeoModel.Proofs.VmAcctSpecLim
import NeoModel.Generated.VmOrder
namespace NeoModel.VmGas
open NeoModel.Generated

/-- the comparison a source operator denotes (`false` for anything unexpected, which then breaks the
theorems below) -/
def cmpOf (s : String) (a b : Int) : Bool :=
  if s = ">" then decide (a > b) else if s = ">=" then decide (a ≥ b) else false

/-- **the order of the phases of the abstract machine is the order of vm.execute** (statements of
the body in source order, the charging block flattened, then the deferred function) -/
theorem order_eq_table : order.map Phase.name = VmOrder.executeSeq := by decide

/-- `gstep` (the machine of `total` / `gas_bound`) IS the interpretation of that ordered list -/
theorem gstep_eq_order (cfg : Cfg) (g : G) (op : Nat) (e : Eff) : gstep cfg g op e = gstepWith order cfg g op e := by
  unfold gstep gstepWith
  cases hs : g.status with
  | halt => rfl
  | fault => rfl
  | running =>
    simp only [order, List.foldl_cons, List.foldl_nil, runPhase, hs, if_true]
    by_cases hg : g.gas + cfg.base * coeff op > cfg.limit
    · simp [hg, fault]
    · simp only [hg, if_false, hs, if_true]
      by_cases hp : op ≤ opPUSHINT256
      · simp only [hp, if_true]
        cases e with
        | fault => simp [applyEff, fault]
        | cont d => simp [applyEff, hs]
        | ret =>
          simp only [applyEff]
          split <;> simp [hs]
        | sys c d =>
          simp only [applyEff]
          split <;> simp [hs, fault]
      · simp only [hp, if_false, hs, if_true]
        cases e with
        | fault => simp [applyEff, fault]
        | cont d => simp [applyEff, hs]
        | ret =>
          simp only [applyEff]
          split <;> simp [hs]
        | sys c d =>
          simp only [applyEff]
          split <;> simp [hs, fault]

set_option maxRecDepth 50000 in
/-- the order matters: with the instruction BEFORE the charge, an instruction that cannot be paid
still takes effect (here: the depth changes to 7 although the cycle ends in FAULT); with vm.go's
order it does not -/
example : (gstepWith [.pushint, .dispatch, .price, .add, .compare, .recover, .sizeCheck] { limit := 0, base := 1 } {} 0x11 (.cont 7)).depth = 7 ∧
    (gstepWith [.pushint, .dispatch, .price, .add, .compare, .recover, .sizeCheck] { limit := 0, base := 1 } {} 0x11 (.cont 7)).status = .fault ∧
    (gstep { limit := 0, base := 1 } {} 0x11 (.cont 7)).depth = 1 := by decide

/-- the gas comparison of the abstract machine is the operator of vm.go:743 (GtUint64) -/
theorem gas_check_tied (cfg : Cfg) (g : G) (op : Nat) (e : Eff) (hr : g.status = .running) :
    (cmpOf VmOrder.gasCompareOp (g.gas + cfg.base * coeff op : Nat) cfg.limit = true → (gstep cfg g op e).status = .fault) ∧
    (cmpOf VmOrder.gasCompareOp (g.gas + cfg.base * coeff op : Nat) cfg.limit = false → ∀ d, e = .cont d →
      (gstep cfg g op e).status = .running ∧ (gstep cfg g op e).depth = d ∧ (gstep cfg g op e).gas = g.gas + cfg.base * coeff op) := by
  simp only [VmOrder.gasCompareOp, cmpOf, if_true, decide_eq_true_eq, decide_eq_false_iff_not]
  constructor
  · intro h
    have : g.gas + cfg.base * coeff op > cfg.limit := by omega
    simp [gstep, hr, this, fault]
  · intro h d he
    have : ¬ g.gas + cfg.base * coeff op > cfg.limit := by omega
    subst he
    simp [gstep, hr, this]

/-- a SYSCALL handler's own charge (AddGas = addPicoGasInternal: add, then compare with the same
operator) -/
theorem addgas_tied (cfg : Cfg) (g : G) (c d : Nat) :
    VmOrder.addGasSeq = ["add", "compare", "exceeded"] ∧
    (cmpOf VmOrder.addGasCompareOp (g.gas + c : Nat) cfg.limit = true → (applyEff cfg g (.sys c d)).status = .fault) ∧
    (cmpOf VmOrder.addGasCompareOp (g.gas + c : Nat) cfg.limit = false → (applyEff cfg g (.sys c d)).gas = g.gas + c ∧ (applyEff cfg g (.sys c d)).depth = d) := by
  simp only [VmOrder.addGasCompareOp, VmOrder.addGasSeq, cmpOf, if_true, decide_eq_true_eq, decide_eq_false_iff_not, true_and]
  constructor
  · intro h
    have : g.gas + c > cfg.limit := by omega
    simp [applyEff, this]
  · intro h
    have : ¬ g.gas + c > cfg.limit := by omega
    simp [applyEff, this]

/-! ### the readings of the limits used by the theorems -/

/-- passing vm.go's size check (deferred, i.e. AFTER the instruction, and only when the instruction
did not panic) means `refs ≤ MaxStackSize` -/
theorem size_check_reading (refs lim : Int) :
    VmOrder.sizeCheckLhs = "v.refs" ∧ VmOrder.sizeCheckRhs = "MaxStackSize" ∧ VmOrder.sizeCheckOnlyWithoutPanic = true ∧
    (cmpOf VmOrder.sizeCheckOp refs lim = false ↔ refs ≤ lim) := by
  refine ⟨rfl, rfl, rfl, ?_⟩
  simp only [VmOrder.sizeCheckOp, cmpOf, if_true, decide_eq_false_iff_not]
  omega

/-- passing checkInvocationStackSize (called FIRST in `call` and `loadScriptWithCallingHash`, before
the context is appended) means `depth < MaxInvocationStackSize`, so the depth after the push is ≤ the
limit -/
theorem depth_check_reading (depth lim : Int) :
    VmOrder.depthCheckLhs = "len(v.istack)" ∧ VmOrder.depthCheckRhs = "MaxInvocationStackSize" ∧
    VmOrder.depthCheckFirstIn = ["loadScriptWithCallingHash:first=true,appends-after=true", "call:first=true,appends-after=true"] ∧
    (cmpOf VmOrder.depthCheckOp depth lim = false ↔ depth + 1 ≤ lim) := by
  refine ⟨rfl, rfl, by decide, ?_⟩
  simp only [VmOrder.depthCheckOp, cmpOf, if_true, decide_eq_false_iff_not]
  have : ¬ ((">=" : String) = ">") := by decide
  simp only [this, if_false, decide_eq_false_iff_not]
  omega

/-- passing the TRY depth check (before the handler is pushed) means the try stack has ≤ 16 entries
afterwards -/
theorem try_check_reading (n lim : Int) :
    VmOrder.tryCheckLhs = "ctx.tryStack.Len()" ∧ VmOrder.tryCheckRhs = "MaxTryNestingDepth" ∧ VmOrder.tryCheckBeforePush = true ∧
    (cmpOf VmOrder.tryCheckOp n lim = false ↔ n + 1 ≤ lim) := by
  refine ⟨rfl, rfl, rfl, ?_⟩
  simp only [VmOrder.tryCheckOp, cmpOf]
  have : ¬ ((">=" : String) = ">") := by decide
  simp only [this, if_false, if_true, decide_eq_false_iff_not]
  omega

/-- vm.step: the instruction is decoded first; an undecodable instruction faults without reaching
`execute` (nothing is charged for it) -/
theorem step_seq_reading : VmOrder.stepSeq.filter (· ≠ "hook") = ["read-ip", "decode", "decode-error", "execute"] := by decide

end NeoModel.VmGas

namespace NeoModel.VmAcct
open NeoModel.Generated NeoModel.VmGas

/-- the accounting machine applies the size check with vm.go's operator, as the last thing of a step
(after the instruction and after exception unwinding) -/
theorem step_size_tied {s s' : St} {op : Op} {unw : Option (Nat × Bool)} {ext : Bool} (h : step s op unw ext = some s') :
    cmpOf VmOrder.sizeCheckOp s'.c.refs maxStackSize = false := by
  rw [(size_check_reading _ _).2.2.2]
  simp only [step] at h
  split at h
  · cases h
  · split at h
    · cases h
    · rename_i r he
      split at h
      · cases h
      · rename_i s2 hs2
        split at h
        · cases h
        · simp only [Option.some.injEq] at h
          subst h
          rename_i hle
          omega

/-- CALL* in the accounting machine: the depth check (vm.go's operator) comes before the push -/
theorem call_depth_tied {s : St} {pops : Nat} {r : Res} (h : exec (.call pops) s = some r) :
    ∃ n : Nat, cmpOf VmOrder.depthCheckOp n maxInvocationStackSize = false ∧ r.s.frames.length = n + 1 := by
  simp only [exec] at h
  split at h
  · cases h
  · rename_i w hw
    split at h
    · cases h
    · rename_i hc
      simp only [ok, Option.some.injEq] at h
      subst h
      refine ⟨(s.setW w).frames.length, ?_, by simp⟩
      rw [(depth_check_reading _ _).2.2.2]
      simp only [Bool.or_eq_true, List.isEmpty_iff, decide_eq_true_eq, not_or, Nat.not_le] at hc
      omega

end NeoModel.VmAcct

namespace NeoModel.Vm
open NeoModel.Generated NeoModel.VmGas

/-- the specification machine's limits (`spec_limits`: reach ≤ 2048, depth ≤ 1024, try depth ≤ 16 in
every non-faulted state) are exactly "every check of vm.go passed", read with the operators of the
regenerated table -/
theorem lim_reading (v : Vm) (h : Lim v) (hnf : v.state ≠ .fault) :
    cmpOf VmOrder.sizeCheckOp (reach v) maxStackSize = false ∧
    (∀ f ∈ v.frames, ∀ c ∈ f.calls, c.tries.length ≤ maxTryNestingDepth) ∧ v.depth ≤ maxInvocationStackSize := by
  refine ⟨?_, fun f hf c hc => h.tries hnf f hf c hc, h.depth hnf⟩
  rw [(size_check_reading _ _).2.2.2]
  exact_mod_cast h.reach hnf

end NeoModel.Vm
