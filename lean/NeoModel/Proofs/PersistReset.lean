/-
Helper lemmas for C02, state reset: which keys each stage batch can touch, the fallthrough structure of
`resetFrom`, stage idempotence (`reset_stage_idempotent`) and the recover-level statement
`reset_resumable_partial_aux`. Core Lean only.
-/
import NeoModel.Proofs.Persist
namespace NeoModel.Persist

/-- a batch element leaves key k alone. -/
def W.fixes (k : Key) : W → Prop
  | .put k' _ => k' ≠ k
  | .trans g => ∀ db, g db k = db k

theorem applyBatch_fixes (b : Batch) (db : Db) (k : Key) (h : ∀ w ∈ b, w.fixes k) : applyBatch b db k = db k := by
  induction b generalizing db with
  | nil => rfl
  | cons w r ih =>
    simp only [applyBatch]
    rw [ih _ (fun x hx => h x (by simp [hx]))]
    have := h w (by simp)
    cases w with
    | put k' v => simp only [W.apply]; exact Db.set_other _ _ (fun e => this e.symm)
    | trans g => exact this db

theorem foldBatches_fixes (bs : List Batch) (db : Db) (k : Key) (h : ∀ b ∈ bs, ∀ w ∈ b, w.fixes k) : foldBatches bs db k = db k := by
  induction bs generalizing db with
  | nil => rfl
  | cons b r ih =>
    simp only [foldBatches]
    rw [ih _ (fun x hx => h x (by simp [hx])), applyBatch_fixes _ _ _ (h b (by simp))]

theorem ofWrites_fixes (w : Writes) (k : Key) (h : ∀ p ∈ w, p.1 ≠ k) : ∀ x ∈ ofWrites w, x.fixes k := by
  intro x hx
  simp only [ofWrites, List.mem_map] at hx
  obtain ⟨p, hp, rfl⟩ := hx
  exact h p hp

/-- keys the block-removal stage may delete: records and transactions above t. -/
def RmKey (t : Nat) (k : Key) : Prop := ∃ i, t < i ∧ (k = Key.exec i ∨ ∃ j, k = Key.tx i j)

theorem deleteBlock_keys {H : Hist} {v v' : Db} {i : Nat} {w : Writes} (h : deleteBlock H v i = .ok (v', w)) :
    ∀ p ∈ w, p.1 = Key.exec i ∨ ∃ j, p.1 = Key.tx i j := by
  unfold deleteBlock at h
  split at h
  · simp at h; obtain ⟨_, rfl⟩ := h
    intro p hp
    simp only [List.mem_cons, List.mem_map] at hp
    rcases hp with rfl | ⟨j, _, rfl⟩
    · left; rfl
    · right; exact ⟨j, rfl⟩
  · simp at h; obtain ⟨_, rfl⟩ := h
    intro p hp; simp at hp; subst hp; left; rfl
  · simp at h

theorem removeBlock_keys {H : Hist} {v v' : Db} {i : Nat} {w : Writes} (h : removeBlock H v i = .ok (v', w)) :
    ∀ p ∈ w, p.1 = Key.exec i ∨ ∃ j, p.1 = Key.tx i j := by
  unfold removeBlock at h
  split at h
  · simp at h
  · rename_i vd wd hd
    simp at h
    obtain ⟨_, rfl⟩ := h
    intro p hp
    rcases List.mem_append.mp hp with hp | hp
    · exact deleteBlock_keys hd p hp
    · simp at hp; subst hp; left; rfl

theorem removeBlocks_keys {H : Hist} {S : Nat} (t : Nat) (fuel : Nat) :
    ∀ (i : Nat) (v : Db) (acc : Writes) (cnt : Nat) (bs : List Batch) (v' : Db) (rest : Writes),
    removeBlocks H S i fuel v acc cnt = .ok (bs, v', rest) → t < i → (∀ p ∈ acc, RmKey t p.1) →
    (∀ b ∈ bs, ∀ x ∈ b, ∃ k val, x = W.put k val ∧ RmKey t k) ∧ (∀ p ∈ rest, RmKey t p.1) := by
  induction fuel with
  | zero =>
    intro i v acc cnt bs v' rest h _ hacc
    simp [removeBlocks] at h
    obtain ⟨rfl, _, rfl⟩ := h
    exact ⟨by simp, hacc⟩
  | succ fuel ih =>
    intro i v acc cnt bs v' rest h hi hacc
    simp only [removeBlocks] at h
    split at h
    · simp at h
    · rename_i vd w hd
      have hw : ∀ p ∈ acc ++ w, RmKey t p.1 := by
        intro p hp
        rcases List.mem_append.mp hp with hp | hp
        · exact hacc p hp
        · rcases removeBlock_keys hd p hp with e | ⟨j, e⟩
          · exact ⟨i, hi, Or.inl e⟩
          · exact ⟨i, hi, Or.inr ⟨j, e⟩⟩
      split at h
      · split at h
        · simp at h
        · rename_i bs' v'' rest' hr
          simp at h
          obtain ⟨rfl, rfl, rfl⟩ := h
          obtain ⟨h1, h2⟩ := ih (i + 1) vd [] 0 bs' v'' rest' hr (by omega) (by simp)
          refine ⟨?_, h2⟩
          intro b hb x hx
          simp only [List.mem_cons] at hb
          rcases hb with rfl | hb
          · simp only [ofWrites, List.mem_map] at hx
            obtain ⟨p, hp, rfl⟩ := hx
            exact ⟨p.1, p.2, rfl, hw p hp⟩
          · exact h1 b hb x hx
      · exact ih (i + 1) vd (acc ++ w) (cnt + 1) bs v' rest h (by omega) hw


theorem not_rm_exec (t : Nat) : ¬ RmKey t (Key.exec t) := by
  rintro ⟨i, hi, e | ⟨j, e⟩⟩ <;> simp at e; omega

theorem stageBlocks_spec {H : Hist} {S t cur : Nat} {db d2 : Db} {bs : List Batch} (h : stageBlocks H S t cur db = .ok (bs, d2)) :
    d2 = foldBatches bs db ∧ d2 Key.stage = some (Val.stagev true stBlocksRemoved) ∧
    (∀ k, ¬ RmKey t k → k ≠ Key.stage → d2 k = db k) := by
  unfold stageBlocks at h
  split at h
  · simp at h
  · rename_i bs' v' rest hr
    simp at h
    obtain ⟨rfl, rfl⟩ := h
    obtain ⟨h1, h2⟩ := removeBlocks_keys (H := H) (S := S) t (cur - t) (t + 1) db [] 0 bs' v' rest hr (by omega) (by simp)
    refine ⟨rfl, ?_, ?_⟩
    · rw [foldBatches_append]
      simp only [foldBatches, applyBatch_ofWrites, applyWrites_append, applyWrites, marker]
      simp
    · intro k hk hs
      apply foldBatches_fixes
      intro b hb x hx
      rcases List.mem_append.mp hb with hb | hb
      · obtain ⟨k', v, rfl, hk'⟩ := h1 b hb x hx
        intro e; exact hk (e ▸ hk')
      · simp at hb; subst hb
        apply ofWrites_fixes _ _ _ x hx
        intro p hp e
        rcases List.mem_append.mp hp with hp | hp
        · exact hk (e ▸ h2 p hp)
        · simp [marker] at hp; subst hp; exact hs e.symm


/-- the four reads at the top of resetStateInternal. -/
structure Reads (t cur x r : Nat) (p0 : Bool) (db : Db) : Prop where
  cb : db Key.curBlock = some (Val.ptr cur)
  ex : db (Key.exec t) = some (Val.blk x)
  rt : db (Key.root t) = some (Val.rootv r)
  ver : db Key.version = some (Val.ver p0)

theorem resetFrom_inv {H : Hist} {B S t st hh : Nat} {db : Db} {res} (h : resetFrom H B S t st hh db = .ok res) :
    validStage st = true ∧ ∃ cur x r p0, Reads t cur x r p0 db := by
  unfold resetFrom at h
  split at h
  · simp at h
  · rename_i hv
    refine ⟨by simpa using hv, ?_⟩
    split at h
    · rename_i cur x r p0 h1 h2 h3 h4
      exact ⟨cur, x, r, p0, h1, h2, h3, h4⟩
    all_goals simp at h

theorem dropStor_idem (p : Bool) (db : Db) : dropStor p (dropStor p db) = dropStor p db := by
  funext k; cases k <;> simp [dropStor]
  intro h1 h2; exact absurd h1 h2

theorem reads_fix {t cur x r : Nat} {p0 : Bool} {db db' : Db} (h : Reads t cur x r p0 db)
    (e1 : db' Key.curBlock = db Key.curBlock) (e2 : db' (Key.exec t) = db (Key.exec t))
    (e3 : db' (Key.root t) = db (Key.root t)) (e4 : db' Key.version = db Key.version) : Reads t cur x r p0 db' :=
  ⟨e1 ▸ h.cb, e2 ▸ h.ex, e3 ▸ h.rt, e4 ▸ h.ver⟩

/-- the tail of the reset from stage `st`, given the reads (all `if`s on the stage number left to `simp`). -/
theorem resetFrom_reads {H : Hist} {B S t st hh cur x r : Nat} {p0 : Bool} {db : Db} (hv : validStage st = true)
    (hr : Reads t cur x r p0 db) :
    resetFrom H B S t st hh db =
      match (if st ≤ stJumpStarted then stageBlocks H S t cur db else .ok ([], db)) with
      | .error e => .error e
      | .ok (b2, d2) =>
        let copy : Bool := decide (st ≤ stJumpStarted) || decide (st = stBlocksRemoved)
        let b3 : List Batch := if copy then [stageCopy t p0 d2] else []
        let d3 := foldBatches b3 d2
        let hdrs : Bool := copy || decide (st = stNewItems)
        let pNew : Bool := if hdrs then !p0 else p0
        let b4 : List Batch := if hdrs then [stageHeaders B t hh p0] else []
        let d4 := foldBatches b4 d3
        let mpt : Bool := decide (st ≠ stTransfersReset)
        let b5 : List Batch := if mpt then [stageMpt t r] else []
        let d5 := foldBatches b5 d4
        let tail : List Batch := [stageGc (!pNew), stageDone]
        .ok (b2 ++ b3 ++ b4 ++ b5 ++ tail, foldBatches tail d5, true) := by
  simp only [resetFrom, hv, hr.cb, hr.ex, hr.rt, hr.ver]
  cases hsb : (if st ≤ stJumpStarted then stageBlocks H S t cur db else Except.ok ([], db)) with
  | error e => simp
  | ok p => obtain ⟨b2, d2⟩ := p; simp


theorem stageCopy_fixes (t : Nat) (p0 : Bool) (d : Db) (k : Key) (h1 : ∀ p q, k ≠ Key.stor p q) (h2 : k ≠ Key.stage) :
    ∀ w ∈ stageCopy t p0 d, w.fixes k := by
  apply ofWrites_fixes
  intro p hp e
  rcases List.mem_append.mp hp with hp | hp
  · simp only [List.mem_map] at hp
    obtain ⟨kv, _, rfl⟩ := hp
    exact h1 _ _ e.symm
  · simp [marker] at hp; subst hp; exact h2 e.symm

theorem stageHeaders_apply (B t hh : Nat) (p0 : Bool) (d : Db) :
    let d' := applyBatch (stageHeaders B t hh p0) d
    d' Key.curBlock = some (Val.ptr t) ∧ d' Key.version = some (Val.ver (!p0)) ∧
    d' (Key.exec t) = d (Key.exec t) ∧ d' (Key.root t) = d (Key.root t) := by
  simp [stageHeaders, applyBatch, W.apply, Db.set, purgeHeaders]

theorem stageMpt_apply (t r : Nat) (d : Db) :
    let d' := applyBatch (stageMpt t r) d
    d' Key.curBlock = d Key.curBlock ∧ d' Key.version = d Key.version ∧
    d' (Key.exec t) = d (Key.exec t) ∧ d' (Key.root t) = some (Val.rootv r) := by
  simp [stageMpt, applyBatch, W.apply, Db.set, resetMptXfer]

theorem stageGc_apply (p : Bool) (d : Db) (k : Key) (h : ∀ q i, k ≠ Key.stor q i) : applyBatch (stageGc p) d k = d k := by
  simp only [stageGc, applyBatch, W.apply]
  cases k <;> simp [dropStor]
  exact absurd rfl (h _ _)

theorem reset_stage_idempotent {H : Hist} {B S t st hh : Nat} {d D : Db} {bs : List Batch} {rdy : Bool}
    (hst : st = stNone ∨ st = stJumpStarted) (h : resetFrom H B S t st hh d = .ok (bs, D, rdy)) :
    ∃ (b2 : List Batch) (d2 : Db) (cur x r : Nat) (p0 : Bool),
      Reads t cur x r p0 d ∧ stageBlocks H S t cur d = .ok (b2, d2) ∧
      bs = b2 ++ [stageCopy t p0 d2, stageHeaders B t hh p0, stageMpt t r, stageGc p0, stageDone] ∧
      D = applyBatch stageDone (applyBatch (stageGc p0) (applyBatch (stageMpt t r) (applyBatch (stageHeaders B t hh p0) (applyBatch (stageCopy t p0 d2) d2)))) ∧
      rdy = true ∧
      resetFrom H B S t stBlocksRemoved hh d2 = .ok ([stageCopy t p0 d2, stageHeaders B t hh p0, stageMpt t r, stageGc p0, stageDone], D, true) ∧
      resetFrom H B S t stNewItems hh (applyBatch (stageCopy t p0 d2) d2) = .ok ([stageHeaders B t hh p0, stageMpt t r, stageGc p0, stageDone], D, true) ∧
      (∀ hh', resetFrom H B S t stHeadersReset hh' (applyBatch (stageHeaders B t hh p0) (applyBatch (stageCopy t p0 d2) d2)) = .ok ([stageMpt t r, stageGc p0, stageDone], D, true)) ∧
      (∀ hh', resetFrom H B S t stTransfersReset hh' (applyBatch (stageMpt t r) (applyBatch (stageHeaders B t hh p0) (applyBatch (stageCopy t p0 d2) d2))) = .ok ([stageGc p0, stageDone], D, true)) ∧
      (∀ hh', resetFrom H B S t stTransfersReset hh' (applyBatch (stageGc p0) (applyBatch (stageMpt t r) (applyBatch (stageHeaders B t hh p0) (applyBatch (stageCopy t p0 d2) d2)))) = .ok ([stageGc p0, stageDone], D, true)) := by
  obtain ⟨hv, cur, x, r, p0, hr⟩ := resetFrom_inv h
  rw [resetFrom_reads hv hr] at h
  have hle : st ≤ stJumpStarted := by rcases hst with rfl | rfl <;> decide
  rw [if_pos hle] at h
  cases hsb : stageBlocks H S t cur d with
  | error e => rw [hsb] at h; simp at h
  | ok p =>
    obtain ⟨b2, d2⟩ := p
    rw [hsb] at h
    have hne : st ≠ stTransfersReset := by rcases hst with rfl | rfl <;> decide
    simp [hle, hne, foldBatches] at h
    obtain ⟨hbs, hD, hrdy⟩ := h
    obtain ⟨_, _, hfix⟩ := stageBlocks_spec hsb
    -- reads survive every stage
    have r2 : Reads t cur x r p0 d2 := reads_fix hr
      (hfix _ (by rintro ⟨i, _, e | ⟨j, e⟩⟩ <;> simp at e) (by simp))
      (hfix _ (not_rm_exec t) (by simp))
      (hfix _ (by rintro ⟨i, _, e | ⟨j, e⟩⟩ <;> simp at e) (by simp))
      (hfix _ (by rintro ⟨i, _, e | ⟨j, e⟩⟩ <;> simp at e) (by simp))
    have r3 : Reads t cur x r p0 (applyBatch (stageCopy t p0 d2) d2) := reads_fix r2
      (applyBatch_fixes _ _ _ (stageCopy_fixes t p0 d2 _ (by simp) (by simp)))
      (applyBatch_fixes _ _ _ (stageCopy_fixes t p0 d2 _ (by simp) (by simp)))
      (applyBatch_fixes _ _ _ (stageCopy_fixes t p0 d2 _ (by simp) (by simp)))
      (applyBatch_fixes _ _ _ (stageCopy_fixes t p0 d2 _ (by simp) (by simp)))
    obtain ⟨h41, h42, h43, h44⟩ := stageHeaders_apply B t hh p0 (applyBatch (stageCopy t p0 d2) d2)
    have r4 : Reads t t x r (!p0) (applyBatch (stageHeaders B t hh p0) (applyBatch (stageCopy t p0 d2) d2)) :=
      ⟨h41, h43 ▸ r3.ex, h44 ▸ r3.rt, h42⟩
    obtain ⟨h51, h52, h53, h54⟩ := stageMpt_apply t r (applyBatch (stageHeaders B t hh p0) (applyBatch (stageCopy t p0 d2) d2))
    have r5 : Reads t t x r (!p0) (applyBatch (stageMpt t r) (applyBatch (stageHeaders B t hh p0) (applyBatch (stageCopy t p0 d2) d2))) :=
      ⟨h51 ▸ r4.cb, h53 ▸ r4.ex, h54, h52 ▸ r4.ver⟩
    have r6 : Reads t t x r (!p0) (applyBatch (stageGc p0) (applyBatch (stageMpt t r) (applyBatch (stageHeaders B t hh p0) (applyBatch (stageCopy t p0 d2) d2)))) :=
      reads_fix r5 (stageGc_apply _ _ _ (by simp)) (stageGc_apply _ _ _ (by simp)) (stageGc_apply _ _ _ (by simp)) (stageGc_apply _ _ _ (by simp))
    refine ⟨b2, d2, cur, x, r, p0, hr, hsb, hbs.symm, hD.symm, hrdy, ?_, ?_, ?_, ?_, ?_⟩
    · rw [resetFrom_reads (by decide) r2]
      simp [stBlocksRemoved, stJumpStarted, stNewItems, stTransfersReset, foldBatches, ← hD]
    · rw [resetFrom_reads (by decide) r3]
      simp [stBlocksRemoved, stJumpStarted, stNewItems, stTransfersReset, foldBatches, ← hD]
    · intro hh'
      rw [resetFrom_reads (by decide) r4]
      simp [stBlocksRemoved, stJumpStarted, stNewItems, stTransfersReset, stHeadersReset, foldBatches, ← hD]
    · intro hh'
      rw [resetFrom_reads (by decide) r5]
      simp [stBlocksRemoved, stJumpStarted, stNewItems, stTransfersReset, foldBatches, ← hD]
    · intro hh'
      rw [resetFrom_reads (by decide) r6]
      simp [stBlocksRemoved, stJumpStarted, stNewItems, stTransfersReset, foldBatches, ← hD]
      simp [stageGc, applyBatch, W.apply, dropStor_idem]


theorem recover_resume {H : Hist} {B S : Nat} {db D : Db} {p : Bool} {hh' st t : Nat} {rdy : Bool} {rest : List Batch}
    (hver : db Key.version = some (Val.ver p)) (hih : initHeaders B db = .ok hh')
    (hst : db Key.stage = some (Val.stagev true st)) (hsp : db Key.syncPoint = some (Val.ptr t))
    (hrf : resetFrom H B S t st hh' db = .ok (rest, D, rdy)) :
    recover H B S db = nodeAfterReset B t D rdy := by
  simp [recover, hver, hih, hst, hsp, hrf]

theorem nodeAfterReset_ready {B t : Nat} {D : Db} {n' : Node} (h : nodeAfterReset B t D true = .ok n') (rdy : Bool) :
    nodeAfterReset B t D rdy = .ok { n' with mptReady := rdy } := by
  unfold nodeAfterReset at h ⊢
  split at h
  · simp at h
  · rename_i hh hih
    split at h
    · rename_i x p it h1 h2 h3
      simp at h
      subst h
      simp
    · simp at h

theorem stage_after_copy (t : Nat) (p0 : Bool) (d : Db) :
    applyBatch (stageCopy t p0 d) d Key.stage = some (Val.stagev true stNewItems) ∧
    applyBatch (stageCopy t p0 d) d Key.syncPoint = d Key.syncPoint := by
  refine ⟨?_, applyBatch_fixes _ _ _ (stageCopy_fixes t p0 d _ (by simp) (by simp))⟩
  simp [stageCopy, applyBatch_ofWrites, applyWrites_append, applyWrites, marker]

theorem stage_after_headers (B t hh : Nat) (p0 : Bool) (d : Db) :
    applyBatch (stageHeaders B t hh p0) d Key.stage = some (Val.stagev true stHeadersReset) ∧
    applyBatch (stageHeaders B t hh p0) d Key.syncPoint = d Key.syncPoint := by
  simp [stageHeaders, applyBatch, W.apply, Db.set, purgeHeaders]

theorem stage_after_mpt (t r : Nat) (d : Db) :
    applyBatch (stageMpt t r) d Key.stage = some (Val.stagev true stTransfersReset) ∧
    applyBatch (stageMpt t r) d Key.syncPoint = d Key.syncPoint := by
  simp [stageMpt, applyBatch, W.apply, Db.set, resetMptXfer]

/-- the shape of a successful, non-trivial `reset`. -/
theorem reset_unfold {H : Hist} {B S : Nat} {n n' : Node} {t : Nat} {bs : List Batch}
    (h : reset H B S n t = .ok (bs, n')) (hbs : bs ≠ []) :
    ∃ bs' D rdy, bs = ofWrites [(Key.syncPoint, some (Val.ptr t)), marker stJumpStarted] :: bs' ∧
      resetFrom H B S t stNone n.hdrHeight (applyBatch (ofWrites [(Key.syncPoint, some (Val.ptr t)), marker stJumpStarted]) n.db) = .ok (bs', D, rdy) ∧
      nodeAfterReset B t D rdy = .ok n' ∧ t ≤ n.height := by
  unfold reset at h
  split at h
  · simp at h
  · rename_i hle
    split at h
    · simp at h; exact absurd h.1 hbs
    · split at h
      · simp at h
      · simp only at h
        split at h
        · simp at h
        · rename_i bs' D rdy hrf
          split at h
          · simp at h
          · rename_i n'' hnar
            simp at h
            obtain ⟨rfl, rfl⟩ := h
            exact ⟨bs', D, rdy, rfl, hrf, hnar, by omega⟩

theorem nodeAfterReset_db {B t : Nat} {D : Db} {rdy : Bool} {n' : Node} (h : nodeAfterReset B t D rdy = .ok n') : n'.db = D := by
  unfold nodeAfterReset at h
  split at h
  · simp at h
  · split at h
    · simp at h; subst h; rfl
    · simp at h

/-- **reset_resumable_partial**, with the stage batches named. -/
theorem reset_resumable_concrete (H : Hist) {B S : Nat} (n n' : Node) (t : Nat) (bs : List Batch)
    (hreset : reset H B S n t = .ok (bs, n')) (hbs : bs ≠ []) :
    let b1 := ofWrites [(Key.syncPoint, some (Val.ptr t)), marker stJumpStarted]
    let d1 := applyBatch b1 n.db
    ∃ (b2 : List Batch) (d2 : Db) (cur x r : Nat) (p0 : Bool),
      Reads t cur x r p0 d1 ∧ stageBlocks H S t cur d1 = .ok (b2, d2) ∧ d2 = foldBatches b2 d1 ∧
      let c3 := stageCopy t p0 d2
      let c4 := stageHeaders B t n.hdrHeight p0
      let c5 := stageMpt t r
      let c6 := stageGc p0
      let d3 := applyBatch c3 d2
      let d4 := applyBatch c4 d3
      let d5 := applyBatch c5 d4
      let d6 := applyBatch c6 d5
      bs = b1 :: b2 ++ [c3, c4, c5, c6, stageDone] ∧
      n'.db = applyBatch stageDone d6 ∧
      (initHeaders B d1 = .ok n.hdrHeight → recover H B S d1 = .ok n') ∧
      (initHeaders B d2 = .ok n.hdrHeight → recover H B S d2 = .ok n') ∧
      (initHeaders B d3 = .ok n.hdrHeight → recover H B S d3 = .ok n') ∧
      (∀ hh', initHeaders B d4 = .ok hh' → recover H B S d4 = .ok n') ∧
      (∀ hh', initHeaders B d5 = .ok hh' → recover H B S d5 = .ok n') ∧
      (∀ hh', initHeaders B d6 = .ok hh' → recover H B S d6 = .ok n') := by
  intro b1 d1
  obtain ⟨bs', D, rdy, hb, hrf, hnar, _⟩ := reset_unfold hreset hbs
  obtain ⟨b2, d2, cur, x, r, p0, hr, hsb, hbs', hD, hrdy, g8, g4, g16, g32, g32'⟩ := reset_stage_idempotent (Or.inl rfl) hrf
  subst hrdy
  obtain ⟨hd2, hst2, hfix2⟩ := stageBlocks_spec hsb
  have hst1 : d1 Key.stage = some (Val.stagev true stJumpStarted) := by
    simp [d1, b1, applyBatch_ofWrites, applyWrites, marker]
  have hsp1 : d1 Key.syncPoint = some (Val.ptr t) := by
    simp [d1, b1, applyBatch_ofWrites, applyWrites, marker, Db.set]
  have hsp2 : d2 Key.syncPoint = some (Val.ptr t) := by
    rw [hfix2 _ (by rintro ⟨i, _, e | ⟨j, e⟩⟩ <;> simp at e) (by simp)]; exact hsp1
  obtain ⟨hst3, hsp3⟩ := stage_after_copy t p0 d2
  obtain ⟨hst4, hsp4⟩ := stage_after_headers B t n.hdrHeight p0 (applyBatch (stageCopy t p0 d2) d2)
  obtain ⟨hst5, hsp5⟩ := stage_after_mpt t r (applyBatch (stageHeaders B t n.hdrHeight p0) (applyBatch (stageCopy t p0 d2) d2))
  refine ⟨b2, d2, cur, x, r, p0, hr, hsb, hd2, by rw [hb, hbs']; rfl, ?_, ?_, ?_, ?_, ?_, ?_, ?_⟩
  · rw [nodeAfterReset_db hnar, hD]
  · intro hih
    have hrf2 : resetFrom H B S t stJumpStarted n.hdrHeight d1 = .ok (bs', D, true) := by
      rw [resetFrom_reads (by decide) hr]
      rw [resetFrom_reads (by decide) hr] at hrf
      simpa [stNone, stJumpStarted, stBlocksRemoved, stNewItems, stTransfersReset] using hrf
    rw [recover_resume hr.ver hih hst1 hsp1 hrf2]; exact hnar
  · intro hih
    obtain ⟨_, _, _, _, p, hr'⟩ := resetFrom_inv g8
    rw [recover_resume hr'.ver hih hst2 hsp2 g8]; exact hnar
  · intro hih
    obtain ⟨_, _, _, _, p, hr'⟩ := resetFrom_inv g4
    rw [recover_resume hr'.ver hih hst3 (hsp3.trans hsp2) g4]; exact hnar
  · intro hh' hih
    obtain ⟨_, _, _, _, p, hr'⟩ := resetFrom_inv (g16 hh')
    rw [recover_resume hr'.ver hih hst4 (hsp4.trans (hsp3.trans hsp2)) (g16 hh')]; exact hnar
  · intro hh' hih
    obtain ⟨_, _, _, _, p, hr'⟩ := resetFrom_inv (g32 hh')
    rw [recover_resume hr'.ver hih hst5 (hsp5.trans (hsp4.trans (hsp3.trans hsp2))) (g32 hh')]
    exact hnar
  · intro hh' hih
    obtain ⟨_, _, _, _, p, hr'⟩ := resetFrom_inv (g32' hh')
    have e1 := stageGc_apply p0 (applyBatch (stageMpt t r) (applyBatch (stageHeaders B t n.hdrHeight p0) (applyBatch (stageCopy t p0 d2) d2))) Key.stage (by simp)
    have e2 := stageGc_apply p0 (applyBatch (stageMpt t r) (applyBatch (stageHeaders B t n.hdrHeight p0) (applyBatch (stageCopy t p0 d2) d2))) Key.syncPoint (by simp)
    rw [recover_resume hr'.ver hih (e1.trans hst5) (e2.trans (hsp5.trans (hsp4.trans (hsp3.trans hsp2)))) (g32' hh')]
    exact hnar

/-- the same with the batches left abstract (the form quoted in Props/C02.lean). -/
theorem reset_resumable_partial_aux (H : Hist) {B S : Nat} (n n' : Node) (t : Nat) (bs : List Batch)
    (hreset : reset H B S n t = .ok (bs, n')) (hbs : bs ≠ []) :
    ∃ (b1 : Batch) (b2 : List Batch) (c3 c4 c5 c6 c7 : Batch),
      bs = b1 :: b2 ++ [c3, c4, c5, c6, c7] ∧
      n'.db = applyBatch c7 (applyBatch c6 (applyBatch c5 (applyBatch c4 (applyBatch c3 (foldBatches b2 (applyBatch b1 n.db)))))) ∧
      (initHeaders B (applyBatch b1 n.db) = .ok n.hdrHeight → recover H B S (applyBatch b1 n.db) = .ok n') ∧
      (initHeaders B (foldBatches b2 (applyBatch b1 n.db)) = .ok n.hdrHeight →
        recover H B S (foldBatches b2 (applyBatch b1 n.db)) = .ok n') ∧
      (initHeaders B (applyBatch c3 (foldBatches b2 (applyBatch b1 n.db))) = .ok n.hdrHeight →
        recover H B S (applyBatch c3 (foldBatches b2 (applyBatch b1 n.db))) = .ok n') ∧
      (∀ hh', initHeaders B (applyBatch c4 (applyBatch c3 (foldBatches b2 (applyBatch b1 n.db)))) = .ok hh' →
        recover H B S (applyBatch c4 (applyBatch c3 (foldBatches b2 (applyBatch b1 n.db)))) = .ok n') ∧
      (∀ hh', initHeaders B (applyBatch c5 (applyBatch c4 (applyBatch c3 (foldBatches b2 (applyBatch b1 n.db))))) = .ok hh' →
        recover H B S (applyBatch c5 (applyBatch c4 (applyBatch c3 (foldBatches b2 (applyBatch b1 n.db))))) = .ok n') ∧
      (∀ hh', initHeaders B (applyBatch c6 (applyBatch c5 (applyBatch c4 (applyBatch c3 (foldBatches b2 (applyBatch b1 n.db)))))) = .ok hh' →
        recover H B S (applyBatch c6 (applyBatch c5 (applyBatch c4 (applyBatch c3 (foldBatches b2 (applyBatch b1 n.db)))))) = .ok n') := by
  obtain ⟨b2, d2, cur, x, r, p0, _, _, hd2, hbs', hdb, h1, h2, h3, h4, h5, h6⟩ := reset_resumable_concrete H n n' t bs hreset hbs
  subst hd2
  exact ⟨_, b2, _, _, _, _, _, hbs', hdb, h1, h2, h3, h4, h5, h6⟩


theorem firstMissing_congr (db db' : Db) (lo n : Nat) (h : ∀ i, db' (Key.exec i) = db (Key.exec i)) :
    firstMissing db' lo n = firstMissing db lo n := by
  induction n with
  | zero => rfl
  | succ n ih => simp only [firstMissing, ih, h]

/-- HeaderHashes.init only looks at the header pointer, the pages and the records. -/
theorem initHeaders_congr (B : Nat) (db db' : Db) (h1 : db' Key.curHeader = db Key.curHeader)
    (h2 : ∀ q, db' (Key.page q) = db (Key.page q)) (h3 : ∀ i, db' (Key.exec i) = db (Key.exec i)) :
    initHeaders B db' = initHeaders B db := by
  simp only [initHeaders, h1, h2, firstMissing_congr db db' _ _ h3]

theorem page_below_stored {B q t : Nat} (hB : 0 < B) (hq : q % B = 0) (hle : q + B ≤ t + 1) : q < (t + 1) / B * B := by
  obtain ⟨m, rfl⟩ : ∃ m, q = m * B := ⟨q / B, by have := Nat.div_add_mod q B; rw [hq] at this; simp at this; rw [Nat.mul_comm] at this; exact this.symm⟩
  have h1 : (m + 1) * B ≤ t + 1 := by rw [Nat.add_mul]; simpa using hle
  have h2 : m + 1 ≤ (t + 1) / B := (Nat.le_div_iff_mul_le hB).mpr h1
  have h3 : (m + 1) * B ≤ (t + 1) / B * B := Nat.mul_le_mul_right B h2
  rw [Nat.add_mul] at h3
  omega


theorem not_rm_le {t i : Nat} (h : i ≤ t) : ¬ RmKey t (Key.exec i) := by
  rintro ⟨j, hj, e | ⟨x, e⟩⟩ <;> simp at e; omega

theorem not_rm_page (t q : Nat) : ¬ RmKey t (Key.page q) := by
  rintro ⟨j, hj, e | ⟨x, e⟩⟩ <;> simp at e

theorem not_rm_curHeader (t : Nat) : ¬ RmKey t Key.curHeader := by
  rintro ⟨j, hj, e | ⟨x, e⟩⟩ <;> simp at e

/-- **on a consistent stopped node the reset resumes from every complete stage except the two
between block removal and header reset.** -/
theorem reset_resumable_of_inv (H : Hist) {B S : Nat} (hB : 1 < B) (n n' : Node) (hn : Inv H B n) (hc : n.cache = [])
    (t : Nat) (bs : List Batch) (hreset : reset H B S n t = .ok (bs, n')) (hbs : bs ≠ []) :
    let b1 := ofWrites [(Key.syncPoint, some (Val.ptr t)), marker stJumpStarted]
    let d1 := applyBatch b1 n.db
    ∃ (b2 : List Batch) (d2 : Db) (cur x r : Nat) (p0 : Bool),
      stageBlocks H S t cur d1 = .ok (b2, d2) ∧ d2 = foldBatches b2 d1 ∧
      let c3 := stageCopy t p0 d2
      let c4 := stageHeaders B t n.hdrHeight p0
      let c5 := stageMpt t r
      let c6 := stageGc p0
      let d4 := applyBatch c4 (applyBatch c3 d2)
      let d5 := applyBatch c5 d4
      let d6 := applyBatch c6 d5
      bs = b1 :: b2 ++ [c3, c4, c5, c6, stageDone] ∧
      n'.db = applyBatch stageDone d6 ∧
      recover H B S d1 = .ok n' ∧ recover H B S d4 = .ok n' ∧
      recover H B S d5 = .ok n' ∧ recover H B S d6 = .ok n' := by
  intro b1 d1
  obtain ⟨_, _, _, _, _, _, hle⟩ := reset_unfold hreset hbs
  obtain ⟨b2, d2, cur, x, r, p0, hr, hsb, hd2, hbs', hdb, h1, _, _, h4, h5, h6⟩ := reset_resumable_concrete H n n' t bs hreset hbs
  obtain ⟨_, _, hfix2⟩ := stageBlocks_spec hsb
  have hv : n.view = n.db := by simp [Node.view, hc, applyWrites]
  have hch := hn.ch; have hex := hn.ex; have hpg := hn.pg
  rw [hv] at hch hex hpg
  have hd1 : ∀ k, k ≠ Key.syncPoint → k ≠ Key.stage → applyBatch (ofWrites [(Key.syncPoint, some (Val.ptr t)), marker stJumpStarted]) n.db k = n.db k := by
    intro k h1 h2
    apply applyBatch_fixes
    apply ofWrites_fixes
    intro p hp e
    simp [marker] at hp
    rcases hp with rfl | rfl
    · exact h1 e.symm
    · exact h2 e.symm
  have i1 : initHeaders B (applyBatch (ofWrites [(Key.syncPoint, some (Val.ptr t)), marker stJumpStarted]) n.db) = .ok n.hdrHeight := by
    rw [initHeaders_congr B n.db (applyBatch (ofWrites [(Key.syncPoint, some (Val.ptr t)), marker stJumpStarted]) n.db) (hd1 _ (by simp) (by simp)) (fun q => hd1 _ (by simp) (by simp)) (fun i => hd1 _ (by simp) (by simp))]
    exact initHeaders_of_inv n.db n.hdrHeight hch hex hpg
  -- the database after the header reset
  have hd3 : ∀ k, (∀ p q, k ≠ Key.stor p q) → k ≠ Key.stage → applyBatch (stageCopy t p0 d2) d2 k = d2 k :=
    fun k h1 h2 => applyBatch_fixes _ _ _ (stageCopy_fixes t p0 d2 k h1 h2)
  have e4h : applyBatch (stageHeaders B t n.hdrHeight p0) (applyBatch (stageCopy t p0 d2) d2) Key.curHeader = some (Val.ptr t) := by
    simp [stageHeaders, applyBatch, W.apply, Db.set]
  have e4e : ∀ i, i ≤ t → applyBatch (stageHeaders B t n.hdrHeight p0) (applyBatch (stageCopy t p0 d2) d2) (Key.exec i) = n.db (Key.exec i) := by
    intro i hi
    have : ¬ (t < i ∧ i ≤ n.hdrHeight) := by omega
    simp only [stageHeaders, applyBatch, W.apply, Db.set, purgeHeaders]
    simp [this]
    rw [hd3 _ (by simp) (by simp), hfix2 _ (not_rm_le hi) (by simp), hd1 _ (by simp) (by simp)]
  have e4p : ∀ q, q < (t + 1) / B * B → applyBatch (stageHeaders B t n.hdrHeight p0) (applyBatch (stageCopy t p0 d2) d2) (Key.page q) = n.db (Key.page q) := by
    intro q hq
    have : ¬ (q ≥ (t + 1) / B * B) := by omega
    simp only [stageHeaders, applyBatch, W.apply, Db.set, purgeHeaders]
    simp [this]
    rw [hd3 _ (by simp) (by simp), hfix2 _ (not_rm_page t q) (by simp), hd1 _ (by simp) (by simp)]
  have hthh : t ≤ n.hdrHeight := Nat.le_trans hle hn.le
  have i4 : initHeaders B (applyBatch (stageHeaders B t n.hdrHeight p0) (applyBatch (stageCopy t p0 d2) d2)) = .ok t := by
    apply initHeaders_of_inv _ t e4h
    · intro i hi; rw [e4e i hi]; exact hex i (by omega)
    · intro q hq hle'
      rw [e4p q (page_below_stored (by omega) hq hle')]
      exact hpg q hq (by omega)
  have i5 : initHeaders B (applyBatch (stageMpt t r) (applyBatch (stageHeaders B t n.hdrHeight p0) (applyBatch (stageCopy t p0 d2) d2))) = .ok t := by
    rw [initHeaders_congr B (applyBatch (stageHeaders B t n.hdrHeight p0) (applyBatch (stageCopy t p0 d2) d2))]
    · exact i4
    · simp [stageMpt, applyBatch, W.apply, Db.set, resetMptXfer]
    · intro q; simp [stageMpt, applyBatch, W.apply, Db.set, resetMptXfer]
    · intro i; simp [stageMpt, applyBatch, W.apply, Db.set, resetMptXfer]
  have i6 : initHeaders B (applyBatch (stageGc p0) (applyBatch (stageMpt t r) (applyBatch (stageHeaders B t n.hdrHeight p0) (applyBatch (stageCopy t p0 d2) d2)))) = .ok t := by
    rw [initHeaders_congr B (applyBatch (stageMpt t r) (applyBatch (stageHeaders B t n.hdrHeight p0) (applyBatch (stageCopy t p0 d2) d2)))]
    · exact i5
    · exact stageGc_apply _ _ _ (by simp)
    · intro q; exact stageGc_apply _ _ _ (by simp)
    · intro i; exact stageGc_apply _ _ _ (by simp)
  exact ⟨b2, d2, cur, x, r, p0, hsb, hd2, hbs', hdb, h1 i1, h4 t i4, h5 t i5, h6 t i6⟩

end NeoModel.Persist
