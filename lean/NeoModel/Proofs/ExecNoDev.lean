/-
Helper lemma for C04: as long as the deviating rule of `spK` is not applied (`dev` stays down),
`spK` computes exactly what the transactional specification `sp` computes.
-/
import NeoModel.Model.Exec
set_option linter.unusedSimpArgs false
namespace NeoModel.Exec

def Res.st {α : Type} : Res α → α
  | .norm s => s
  | .thrown s => s
  | .fault s => s

def Res.map {α β : Type} (g : α → β) : Res α → Res β
  | .norm s => .norm (g s)
  | .thrown s => .thrown (g s)
  | .fault s => .fault (g s)

/-- what `nodev` says about one run. -/
def NoDev (K : KSt) (rs : Res St) (rk : Res KSt) : Prop :=
  rk.st.dev = false → K.dev = false ∧ rs = rk.map KSt.st

theorem nodev_end {hasF : Bool} {rf : St → Res St} {Rf : KSt → Res KSt}
    (hf : ∀ K, NoDev K (rf K.st) (Rf K)) (K1 : KSt) :
    NoDev K1 (spEnd hasF rf K1.st) (spKEnd hasF Rf K1) := by
  unfold spEnd spKEnd NoDev
  split
  · have := hf K1
    unfold NoDev at this
    cases hr : Rf K1 with
    | norm s3 =>
      rw [hr] at this
      simp only [Res.st, Res.map] at this
      cases he : s3.exc <;> simp only [he, if_true, if_false, Bool.false_eq_true, Res.st] <;> intro hd <;>
        (obtain ⟨h1, h2⟩ := this hd; rw [h2]; exact ⟨h1, by simp [Res.map, KSt.st, he]⟩)
    | thrown s3 =>
      rw [hr] at this
      simp only [Res.st, Res.map] at this ⊢
      intro hd
      obtain ⟨h1, h2⟩ := this hd
      rw [h2]; exact ⟨h1, rfl⟩
    | fault s3 =>
      rw [hr] at this
      simp only [Res.st, Res.map] at this ⊢
      intro hd
      obtain ⟨h1, h2⟩ := this hd
      rw [h2]; exact ⟨h1, rfl⟩
  · intro hd
    exact ⟨hd, rfl⟩

theorem nodev_finExc {rf : St → Res St} {Rf : KSt → Res KSt}
    (hf : ∀ K, NoDev K (rf K.st) (Rf K)) (K1 : KSt) :
    NoDev K1 (spFinExc rf K1.st) (spKFinExc Rf K1) := by
  unfold spFinExc spKFinExc NoDev
  have := hf K1
  unfold NoDev at this
  cases hr : Rf K1 with
  | norm s3 =>
    rw [hr] at this
    simp only [Res.st, Res.map] at this
    cases he : s3.exc <;> simp only [he, if_true, if_false, Bool.false_eq_true, Res.st] <;> intro hd <;>
      (obtain ⟨h1, h2⟩ := this hd; rw [h2]; exact ⟨h1, by simp [Res.map, KSt.st, he]⟩)
  | thrown s3 =>
    rw [hr] at this
    simp only [Res.st, Res.map] at this ⊢
    intro hd
    obtain ⟨h1, h2⟩ := this hd
    rw [h2]; exact ⟨h1, rfl⟩
  | fault s3 =>
    rw [hr] at this
    simp only [Res.st, Res.map] at this ⊢
    intro hd
    obtain ⟨h1, h2⟩ := this hd
    rw [h2]; exact ⟨h1, rfl⟩

/-- chaining: the continuation `k` is run on the state `s1` a first stage ended with. -/
theorem nodev_chain {K s1 : KSt} {rs : Res St} {rk : Res KSt} (h1 : s1.dev = false → K.dev = false)
    (h2 : NoDev s1 rs rk) : rk.st.dev = false → K.dev = false ∧ rs = rk.map KSt.st := by
  intro hd
  obtain ⟨a, b⟩ := h2 hd
  exact ⟨h1 a, b⟩

theorem nodev (t : Tree) : ∀ (c : Nat) (f : Flags) (i : Bool) (K : KSt),
    NoDev K (sp t c f K.st) (spK t c f i K) := by
  induction t with
  | skip => intro c f i K hd; exact ⟨hd, rfl⟩
  | seq a b iha ihb =>
    intro c f i K
    have ha := iha c f i K
    unfold NoDev at ha ⊢
    simp only [sp, spK]
    cases hr : spK a c f i K with
    | norm s1 =>
      rw [hr] at ha
      simp only [Res.st, Res.map] at ha
      intro hd
      obtain ⟨b1, b2⟩ := ihb c f i s1 hd
      obtain ⟨a1, a2⟩ := ha b1
      rw [a2]
      exact ⟨a1, b2⟩
    | thrown s1 =>
      rw [hr] at ha
      simp only [Res.st, Res.map] at ha ⊢
      intro hd
      obtain ⟨a1, a2⟩ := ha hd
      rw [a2]; exact ⟨a1, rfl⟩
    | fault s1 =>
      rw [hr] at ha
      simp only [Res.st, Res.map] at ha ⊢
      intro hd
      obtain ⟨a1, a2⟩ := ha hd
      rw [a2]; exact ⟨a1, rfl⟩
  | put k v =>
    intro c f i K
    unfold NoDev
    simp only [sp, spK, KSt.st]
    by_cases hc : (f.r && f.w && alive K.σ.get c) = true
    · simp only [hc, if_true]; intro hd; exact ⟨hd, rfl⟩
    · simp only [hc, if_false]; intro hd; exact ⟨hd, rfl⟩
  | del k =>
    intro c f i K
    unfold NoDev
    simp only [sp, spK, KSt.st]
    by_cases hc : (f.r && f.w && alive K.σ.get c) = true
    · simp only [hc, if_true]; intro hd; exact ⟨hd, rfl⟩
    · simp only [hc, if_false]; intro hd; exact ⟨hd, rfl⟩
  | notify e =>
    intro c f i K
    unfold NoDev
    simp only [sp, spK, KSt.st]
    by_cases hc : (f.n && c != entryId) = true
    · simp only [hc, if_true]
      by_cases hl : K.ev.length < maxNotifications
      · simp only [hl, if_true]; intro hd; exact ⟨hd, rfl⟩
      · simp only [hl, if_false]; intro hd; exact ⟨hd, rfl⟩
    · simp only [hc, if_false]; intro hd; exact ⟨hd, rfl⟩
  | ifp k body ih =>
    intro c f i K
    have hb := ih c f i K
    unfold NoDev at hb ⊢
    simp only [sp, spK]
    simp only [KSt.st] at hb ⊢
    by_cases hc : (f.r && alive K.σ.get c) = true
    · simp only [hc, if_true]
      cases K.σ.get (c, k) with
      | some _ => exact hb
      | none => intro hd; exact ⟨hd, rfl⟩
    · simp only [hc, if_false]; intro hd; exact ⟨hd, rfl⟩
  | loc body ih =>
    intro c f i K
    simp only [NoDev, sp, spK]
    exact ih c f i K
  | throw => intro c f i K hd; exact ⟨hd, rfl⟩
  | abort => intro c f i K hd; exact ⟨hd, rfl⟩
  | call c' fl body ih =>
    intro c f i K
    have hb := ih c' (f.and fl) false K
    unfold NoDev at hb ⊢
    simp only [sp, spK]
    simp only [KSt.st] at hb ⊢
    by_cases hc : (f.r && f.c && alive K.σ.get c') = true
    · simp only [hc, if_true]
      cases hr : spK body c' (f.and fl) false K with
      | norm s1 =>
        rw [hr] at hb
        simp only [Res.st, Res.map] at hb
        by_cases hcc : (i && (f.and fl).mut && s1.exc) = true
        · simp only [hcc, if_true, Res.st]; intro hd; exact absurd hd (by simp)
        · simp only [hcc, if_false, Res.st]
          intro hd
          obtain ⟨a1, a2⟩ := hb hd
          rw [a2]; exact ⟨a1, rfl⟩
      | thrown s1 =>
        rw [hr] at hb
        simp only [Res.st, Res.map] at hb ⊢
        intro hd
        obtain ⟨a1, a2⟩ := hb hd
        rw [a2]; exact ⟨a1, rfl⟩
      | fault s1 =>
        rw [hr] at hb
        simp only [Res.st, Res.map] at hb ⊢
        intro hd
        obtain ⟨a1, a2⟩ := hb hd
        rw [a2]; exact ⟨a1, rfl⟩
    · simp only [hc, if_false]; intro hd; exact ⟨hd, rfl⟩
  | try_ body hasC cat hasF fin ihb ihc ihf =>
    intro c f i K
    have hfin : ∀ K, NoDev K (sp fin c f K.st) (spK fin c f i K) := fun K => ihf c f i K
    have hb := ihb c f true K
    unfold NoDev at hb ⊢
    simp only [sp, spK]
    split
    · intro hd; exact ⟨hd, rfl⟩
    · cases hr : spK body c f true K with
      | norm s1 =>
        rw [hr] at hb
        simp only [Res.st, Res.map] at hb
        intro hd
        obtain ⟨e1, e2⟩ := nodev_end hfin s1 hd
        obtain ⟨a1, a2⟩ := hb e1
        rw [a2]
        exact ⟨a1, e2⟩
      | thrown s1 =>
        rw [hr] at hb
        simp only [Res.st, Res.map] at hb
        simp only
        split
        · have hc := ihc c f (i || hasF) { s1 with exc := false }
          unfold NoDev at hc
          cases hrc : spK cat c f (i || hasF) { s1 with exc := false } with
          | norm s2 =>
            rw [hrc] at hc
            simp only [Res.st, Res.map] at hc
            intro hd
            obtain ⟨e1, e2⟩ := nodev_end hfin s2 hd
            obtain ⟨c1, c2⟩ := hc e1
            obtain ⟨a1, a2⟩ := hb c1
            rw [a2]
            simp only [KSt.st] at c2 ⊢
            rw [c2]
            exact ⟨a1, e2⟩
          | thrown s2 =>
            rw [hrc] at hc
            simp only [Res.st, Res.map] at hc
            simp only
            split
            · intro hd
              obtain ⟨e1, e2⟩ := nodev_finExc hfin s2 hd
              obtain ⟨c1, c2⟩ := hc e1
              obtain ⟨a1, a2⟩ := hb c1
              rw [a2]
              simp only [KSt.st] at c2 ⊢
              rw [c2]
              simp only [if_true]
              exact ⟨a1, e2⟩
            · intro hd
              simp only [Res.st] at hd
              obtain ⟨c1, c2⟩ := hc hd
              obtain ⟨a1, a2⟩ := hb c1
              rw [a2]
              simp only [KSt.st] at c2 ⊢
              rw [c2]
              rename_i hF
              simp only [hF, if_false]
              exact ⟨a1, rfl⟩
          | fault s2 =>
            rw [hrc] at hc
            simp only [Res.st, Res.map] at hc
            intro hd
            simp only [Res.st] at hd
            obtain ⟨c1, c2⟩ := hc hd
            obtain ⟨a1, a2⟩ := hb c1
            rw [a2]
            simp only [KSt.st] at c2 ⊢
            rw [c2]
            exact ⟨a1, rfl⟩
        · intro hd
          obtain ⟨e1, e2⟩ := nodev_finExc hfin s1 hd
          obtain ⟨a1, a2⟩ := hb e1
          rw [a2]
          exact ⟨a1, e2⟩
      | fault s1 =>
        rw [hr] at hb
        simp only [Res.st, Res.map] at hb ⊢
        intro hd
        obtain ⟨a1, a2⟩ := hb hd
        rw [a2]; exact ⟨a1, rfl⟩
  | native inner o fl cb k ih ihk =>
    intro c f i K
    unfold NoDev
    simp only [sp, spK]
    simp only [KSt.st]
    by_cases hc : (inner || (f.r && f.c)) = true
    · simp only [hc, if_true]
      generalize (if inner = true then f else f.and fl) = f'
      cases hn : natStep o c f' K.σ.get with
      | none => intro hd; exact ⟨hd, rfl⟩
      | some out =>
        simp only
        -- the rest of the method in the frame
        have tail : ∀ K2 : KSt,
            ((match spK k c f' false K2 with
              | .norm s3 => if (!inner && i && f'.mut && s3.exc) = true then Res.norm { K with exc := true, dev := true } else .norm s3
              | .thrown s3 => .fault s3
              | .fault s3 => .fault s3) : Res KSt).st.dev = false →
            K2.dev = false ∧
              (match sp k c f' K2.st with
                | .norm s3 => Res.norm s3 | .thrown s3 => .fault s3 | .fault s3 => .fault s3) =
              Res.map KSt.st (match spK k c f' false K2 with
                | .norm s3 => if (!inner && i && f'.mut && s3.exc) = true then Res.norm { K with exc := true, dev := true } else .norm s3
                | .thrown s3 => .fault s3
                | .fault s3 => .fault s3) := by
          intro K2
          have hk := ihk c f' false K2
          unfold NoDev at hk
          cases hrk : spK k c f' false K2 with
          | norm s3 =>
            rw [hrk] at hk
            simp only [Res.st, Res.map] at hk
            by_cases hcc : (!inner && i && f'.mut && s3.exc) = true
            · simp only [hcc, if_true, Res.st]; intro hd; exact absurd hd (by simp)
            · simp only [hcc, if_false, Res.st]
              intro hd
              obtain ⟨a1, a2⟩ := hk hd
              rw [a2]; exact ⟨a1, rfl⟩
          | thrown s3 =>
            rw [hrk] at hk
            simp only [Res.st, Res.map] at hk ⊢
            intro hd
            obtain ⟨a1, a2⟩ := hk hd
            rw [a2]; exact ⟨a1, rfl⟩
          | fault s3 =>
            rw [hrk] at hk
            simp only [Res.st, Res.map] at hk ⊢
            intro hd
            obtain ⟨a1, a2⟩ := hk hd
            rw [a2]; exact ⟨a1, rfl⟩
        simp only [spPhase, spKPhase]
        by_cases hlim : maxNotifications < (K.ev ++ out.evs).length
        · simp only [hlim, if_true]; intro hd; exact ⟨hd, rfl⟩
        simp only [hlim, if_false]
        cases hcb : out.cb with
        | none =>
          simp only
          exact tail { K with σ := out.ws ++ K.σ, ev := K.ev ++ out.evs }
        | some to =>
          simp only
          by_cases hab : out.cbAbort = true
          · simp only [hab, if_true]; intro hd; exact ⟨hd, rfl⟩
          simp only [hab, if_false, Bool.false_eq_true]
          have hb := ih to f' false { K with σ := out.ws ++ K.σ, ev := K.ev ++ out.evs }
          unfold NoDev at hb
          simp only [KSt.st] at hb
          cases hr : spK cb to f' false { K with σ := out.ws ++ K.σ, ev := K.ev ++ out.evs } with
          | norm s2 =>
            rw [hr] at hb
            simp only [Res.st, Res.map] at hb
            by_cases hcc : s2.exc = true
            · simp only [hcc, if_true, Res.st]; intro hd; exact absurd hd (by simp)
            · simp only [hcc, if_false, Res.st]
              intro hd
              obtain ⟨t1, t2⟩ := tail s2 hd
              obtain ⟨b1, b2⟩ := hb t1
              rw [b2]
              exact ⟨b1, t2⟩
          | thrown s2 =>
            rw [hr] at hb
            simp only [Res.st, Res.map] at hb ⊢
            intro hd
            obtain ⟨a1, a2⟩ := hb hd
            rw [a2]; exact ⟨a1, rfl⟩
          | fault s2 =>
            rw [hr] at hb
            simp only [Res.st, Res.map] at hb ⊢
            intro hd
            obtain ⟨a1, a2⟩ := hb hd
            rw [a2]; exact ⟨a1, rfl⟩
    · simp only [hc, if_false]; intro hd; exact ⟨hd, rfl⟩

end NeoModel.Exec
