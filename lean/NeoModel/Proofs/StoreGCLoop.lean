/-
C09 helper lemmas: SeekGC on BoltDB at cursor level (`Model/Store/GC.lean`: visit, `c.Delete()` under the
cursor, move on in the shrunken bucket) equals the one-shot `Store.seekGC`: nothing skipped, nothing
visited twice, the same bucket left.
-/
import NeoModel.Proofs.StoreGC
import NeoModel.Model.Store.GC
set_option linter.unusedSimpArgs false
namespace NeoModel.Store

/-- visit-then-delete over a FIXED list of items (no cursor). -/
def idealLoop (keep : Key → Bool) (lim : Nat) : List KV → List KV → List KV → List KV × List KV
  | [], vis, db => (vis, db)
  | e :: rest, vis, db =>
    let vis' := vis ++ [e]
    let db' := if keep e.1 then db else dbDel db e.1
    if !contOK lim vis' then (vis', db') else idealLoop keep lim rest vis' db'

theorem sortKV_filter (bw : Bool) (db : List KV) (h : DbWF db) (p : KV → Bool) :
    sortKV bw (db.filter p) = (sortKV bw db).filter p := by
  apply sorted_ext bw
  · exact sorted_mergeSort bw _ (DbWF_filter db p h)
  · exact sorted_sublist (sorted_mergeSort bw db h) List.filter_sublist
  · intro e
    unfold sortKV
    simp only [mem_mergeSort, List.mem_filter]

theorem sortKV_true_reverse (db : List KV) (h : DbWF db) : sortKV true db = (sortKV false db).reverse := by
  apply sorted_ext true
  · exact sorted_mergeSort true db h
  · have := sorted_mergeSort false db h
    unfold SortedK at this ⊢
    rw [List.pairwise_reverse]
    exact this.imp (fun h => h)
  · intro e
    unfold sortKV
    simp only [mem_mergeSort, List.mem_reverse]

/-- in a strictly ordered list the items after `e` are the tail behind it. -/
theorem filter_after (bw : Bool) (pre post : List KV) (e : KV) (hs : SortedK bw (pre ++ e :: post)) :
    (pre ++ e :: post).filter (fun x => ltDir bw e.1 x.1) = post := by
  unfold SortedK at hs
  rw [List.pairwise_append] at hs
  obtain ⟨_, h2, h3⟩ := hs
  rw [List.pairwise_cons] at h2
  rw [List.filter_append, List.filter_cons]
  have hpre : pre.filter (fun x => ltDir bw e.1 x.1) = [] := by
    rw [List.filter_eq_nil_iff]
    intro a ha
    have := h3 a ha e List.mem_cons_self
    rw [ltDir_asymm this]; simp
  have hpost : post.filter (fun x => ltDir bw e.1 x.1) = post := by
    rw [List.filter_eq_self]
    intro a ha; exact h2.1 a ha
  rw [hpre, hpost, ltDir_irrefl]; simp

/-- the cursor invariant: the current bucket, seen from `e` in scan direction, continues with `post`. -/
def CursorAt (bw : Bool) (db : List KV) (e : KV) (post : List KV) : Prop :=
  DbWF db ∧ (sortKV bw db).filter (fun x => ltDir bw e.1 x.1) = post

theorem cursorAt_sorted {bw : Bool} {db : List KV} {e : KV} {post : List KV} (h : CursorAt bw db e post) :
    SortedK bw (e :: post) := by
  unfold SortedK
  rw [List.pairwise_cons]
  constructor
  · intro a ha
    rw [← h.2, List.mem_filter] at ha
    exact ha.2
  · rw [← h.2]
    exact sorted_sublist (sorted_mergeSort bw db h.1) List.filter_sublist

/-- deleting (or not) the item under the cursor leaves the continuation unchanged … -/
theorem cursorAt_delete {bw : Bool} {db : List KV} {e : KV} {post : List KV} (h : CursorAt bw db e post) (del : Bool) :
    CursorAt bw (if del then dbDel db e.1 else db) e post := by
  cases del with
  | false => exact h
  | true =>
    refine ⟨DbWF_filter db _ h.1, ?_⟩
    show (sortKV bw (db.filter (fun x => x.1 != e.1))).filter _ = post
    rw [sortKV_filter bw db h.1, List.filter_filter, ← h.2]
    apply List.filter_congr
    intro x _
    by_cases hx : ltDir bw e.1 x.1 = true
    · have : x.1 ≠ e.1 := by
        intro he; rw [he, ltDir_irrefl] at hx; cases hx
      simp [hx, this]
    · simp [hx]

/-- … and moving on lands on the head of the continuation, with the rest as the new continuation. -/
theorem cursorAt_step {bw : Bool} {db : List KV} {e e' : KV} {post' : List KV} (h : CursorAt bw db e (e' :: post')) :
    cursorStep db bw e.1 = some e' ∧ CursorAt bw db e' post' := by
  refine ⟨by unfold cursorStep; rw [h.2]; rfl, h.1, ?_⟩
  have hs := cursorAt_sorted h
  have hee' : ltDir bw e.1 e'.1 = true := (List.pairwise_cons.mp hs).1 e' List.mem_cons_self
  have : (sortKV bw db).filter (fun x => ltDir bw e'.1 x.1) =
      ((sortKV bw db).filter (fun x => ltDir bw e.1 x.1)).filter (fun x => ltDir bw e'.1 x.1) := by
    rw [List.filter_filter]
    apply List.filter_congr
    intro x _
    by_cases hx : ltDir bw e'.1 x.1 = true
    · simp [hx, ltDir_trans hee' hx]
    · simp [hx]
  rw [this, h.2]
  have := filter_after bw [] post' e' (List.pairwise_cons.mp hs).2
  simpa using this

theorem cursorAt_end {bw : Bool} {db : List KV} {e : KV} (h : CursorAt bw db e []) : cursorStep db bw e.1 = none := by
  unfold cursorStep; rw [h.2]; rfl

/-- the cursor loop visits and deletes exactly like the loop over the fixed list of items. -/
theorem boltGCLoop_eq (rng : SeekRange) (keep : Key → Bool) (lim : Nat) (fuel : Nat) (e : KV) (post vis db : List KV)
    (h : CursorAt rng.bw db e post) (hf : post.length < fuel) :
    boltGCLoop rng keep lim fuel (some e) vis db =
      idealLoop keep lim ((e :: post).takeWhile (fun x => boltGuard rng x.1)) vis db := by
  induction fuel generalizing e post vis db with
  | zero => omega
  | succ fuel ih =>
    unfold boltGCLoop
    by_cases hg : boltGuard rng e.1 = true
    · simp only [hg, Bool.not_true, Bool.false_eq_true, if_false, List.takeWhile_cons, if_true]
      unfold idealLoop
      simp only []
      by_cases hc : contOK lim (vis ++ [e]) = true
      · simp only [hc, Bool.not_true, Bool.false_eq_true, if_false]
        have h' : CursorAt rng.bw (if keep e.1 = true then db else dbDel db e.1) e post := by
          have := cursorAt_delete h (!keep e.1)
          cases hk : keep e.1 <;> simpa [hk] using this
        cases post with
        | nil =>
          rw [cursorAt_end h']
          cases fuel <;> simp [boltGCLoop, idealLoop]
        | cons e' post' =>
          obtain ⟨hstep, hat⟩ := cursorAt_step h'
          rw [hstep]
          exact ih e' post' _ _ hat (by simp only [List.length_cons] at hf; omega)
      · simp only [hc, Bool.not_false, if_true]
    · simp only [hg, Bool.not_false, if_true, List.takeWhile_cons, Bool.false_eq_true, if_false]
      rfl

/-- the loop over a fixed list: the first `lim` items visited (all if 0), the not-kept ones deleted. -/
theorem idealLoop_spec (keep : Key → Bool) (lim : Nat) (items vis db : List KV) (hv : lim = 0 ∨ vis.length < lim) :
    idealLoop keep lim items vis db =
      (vis ++ (if lim == 0 then items else items.take (lim - vis.length)),
       ((if lim == 0 then items else items.take (lim - vis.length)).filter (fun e => !keep e.1)).foldl (fun d e => dbDel d e.1) db) := by
  induction items generalizing vis db with
  | nil => simp [idealLoop]
  | cons e rest ih =>
    unfold idealLoop
    simp only []
    by_cases h0 : lim = 0
    · subst h0
      have hc : contOK 0 (vis ++ [e]) = true := by simp [contOK]
      simp only [hc, Bool.not_true, Bool.false_eq_true, if_false]
      rw [ih _ _ (Or.inl rfl)]
      simp only [beq_self_eq_true, if_true, List.append_assoc, List.singleton_append, List.filter_cons]
      cases hk : keep e.1 <;> simp [hk]
    · have hlt : vis.length < lim := by rcases hv with h | h; exact absurd h h0; exact h
      have hb : (lim == 0) = false := by simpa using h0
      simp only [hb, Bool.false_eq_true, if_false]
      have htake : List.take (lim - vis.length) (e :: rest) = e :: List.take (lim - (vis ++ [e]).length) rest := by
        have : lim - vis.length = (lim - (vis ++ [e]).length) + 1 := by simp only [List.length_append, List.length_singleton]; omega
        rw [this, List.take_succ_cons]
      by_cases hc : contOK lim (vis ++ [e]) = true
      · simp only [hc, Bool.not_true, Bool.false_eq_true, if_false]
        have hlt' : (vis ++ [e]).length < lim := by
          simp only [contOK, hb, Bool.false_or, decide_eq_true_eq] at hc; exact hc
        rw [ih _ _ (Or.inr hlt')]
        simp only [hb, Bool.false_eq_true, if_false, htake, List.append_assoc, List.singleton_append, List.filter_cons]
        cases hk : keep e.1 <;> simp [hk]
      · simp only [hc, Bool.not_false, if_true]
        have hge : ¬ (vis ++ [e]).length < lim := by
          simp only [contOK, hb, Bool.false_or, decide_eq_true_eq] at hc; exact hc
        have hz : lim - (vis ++ [e]).length = 0 := by omega
        rw [htake, hz]
        simp only [List.take_zero, List.filter_cons, List.filter_nil]
        cases hk : keep e.1 <;> simp [hk]

/-- the first cursor position and its continuation are a tail of the bucket in scan order. -/
theorem cursorFirst_tail (db : List KV) (h : DbWF db) (rng : SeekRange) :
    ∃ pre start, sortKV rng.bw db = pre ++ start ∧ cursorFirst db rng = start.head? ∧
      boltSeek db rng = start.takeWhile (fun x => boltGuard rng x.1) := by
  cases hb : rng.bw with
  | false =>
    refine ⟨(sortKV false db).takeWhile (fun e => lexLt e.1 (seekRangeToPrefixes rng).1),
      (sortKV false db).dropWhile (fun e => lexLt e.1 (seekRangeToPrefixes rng).1), ?_, ?_, ?_⟩
    · exact List.takeWhile_append_dropWhile.symm
    · simp [cursorFirst, hb]
    · simp [boltSeek, hb]
  | true =>
    rw [sortKV_true_reverse db h]
    have hsplit : ∃ rest, sortKV false db = boltBelow rng (sortKV false db) ++ rest := by
      unfold boltBelow
      cases (seekRangeToPrefixes rng).2 with
      | none => exact ⟨[], by simp⟩
      | some l => exact ⟨_, List.takeWhile_append_dropWhile.symm⟩
    obtain ⟨rest, hrest⟩ := hsplit
    refine ⟨rest.reverse, (boltBelow rng (sortKV false db)).reverse, ?_, ?_, ?_⟩
    · rw [← List.reverse_append, ← hrest]
    · simp [cursorFirst, hb]
    · simp [boltSeek, hb]

/-- C09 (SeekGC on BoltDB, cursor level): deleting under the cursor and moving on in the shrinking
bucket visits exactly the items of the ordered scan — none skipped, none repeated — and leaves exactly
the bucket of the one-shot model `Store.seekGC`. -/
theorem boltSeekGC_eq (db : List KV) (h : DbWF db) (rng : SeekRange) (keep : Key → Bool) (lim : Nat) :
    boltSeekGC db rng keep lim =
      (((Store.bolt db).seekGC rng keep lim).1,
       match ((Store.bolt db).seekGC rng keep lim).2 with | .bolt d => d | _ => []) := by
  obtain ⟨pre, start, hS, hfirst, hseek⟩ := cursorFirst_tail db h rng
  have hideal : idealLoop keep lim (boltSeek db rng) [] db =
      (((Store.bolt db).seekGC rng keep lim).1,
       match ((Store.bolt db).seekGC rng keep lim).2 with | .bolt d => d | _ => []) := by
    rw [idealLoop_spec keep lim _ [] db (by cases lim with | zero => exact Or.inl rfl | succ n => exact Or.inr (by simp))]
    simp only [List.length_nil, Nat.sub_zero, List.nil_append]
    rfl
  rw [← hideal]
  unfold boltSeekGC
  rw [hfirst, hseek]
  cases start with
  | nil => simp [boltGCLoop, idealLoop]
  | cons e post =>
    simp only [List.head?_cons]
    apply boltGCLoop_eq
    · refine ⟨h, ?_⟩
      rw [hS]
      exact filter_after rng.bw pre post e (hS ▸ sorted_mergeSort rng.bw db h)
    · have hl : (sortKV rng.bw db).length = db.length := by unfold sortKV; exact List.length_mergeSort _
      have : post.length < (pre ++ e :: post).length := by simp only [List.length_append, List.length_cons]; omega
      rw [← hS, hl] at this
      omega

end NeoModel.Store
