/- C19 helper lemmas: steps that only touch knowledge and the network preserve the invariant. -/
import NeoModel.Proofs.DbftInv
namespace NeoModel.Dbft

theorem upd_field {α : Type} (f : Node → α) (nodes : Nat → Node) (i : Nat) (x : Node)
    (h : f x = f (nodes i)) (j : Nat) : f (upd nodes i x j) = f (nodes j) := by
  unfold upd; split
  · next hji => subst hji; exact h
  · rfl

theorem upd_same (nodes : Nat → Node) (i : Nat) (x : Node) : upd nodes i x i = x := by simp [upd]
theorem upd_other (nodes : Nat → Node) (i : Nat) (x : Node) {j : Nat} (h : j ≠ i) : upd nodes i x j = nodes j := by
  simp [upd, h]

theorem known_upd_mem {nodes : Nat → Node} {i : Nat} {x : Node} {j : Nat} {it : Item}
    (h : it ∈ (upd nodes i x j).known) : (j = i ∧ it ∈ x.known) ∨ (j ≠ i ∧ it ∈ (nodes j).known) := by
  by_cases hji : j = i
  · subst hji; rw [upd_same] at h; exact Or.inl ⟨rfl, h⟩
  · rw [upd_other _ _ _ hji] at h; exact Or.inr ⟨hji, h⟩

/-- network after a broadcast of a payload whose items are all justified -/
theorem net_bcast {c : Cfg} {s : State} (inv : Inv c s) {i : Nat} {m : Msg}
    (hm : ∀ it ∈ m.items, Prov c s it) :
    ∀ to m', (to, m') ∈ bcast c i m ++ s.net → ∀ it ∈ m'.items, Prov c s it := by
  intro to m' h it hit
  rcases List.mem_append.mp h with h | h
  · rw [mem_bcast h] at hit; exact hm it hit
  · exact inv.netProv to m' h it hit

theorem inv_net {c : Cfg} {s s' : State} (inv : Inv c s) (hn : s'.nodes = s.nodes)
    (hnet : ∀ to m, (to, m) ∈ s'.net → ∀ it ∈ m.items, Prov c s it) : Inv c s' :=
  inv_frame inv (by simp [hn]) (by simp [hn]) (by simp [hn]) (by simp [hn]) (by simp [hn])
    (by rw [hn]; exact inv.knownProv) hnet

theorem inv_step_frame (c : Cfg) (s : State) (a : Action) (inv : Inv c s) (en : Enabled c s a)
    (hfr : match a with
      | .deliver .. | .drop .. | .dup .. | .timeout _ | .sendChangeView _ | .sendRecReq _ | .sendRecMsg .. => True
      | _ => False) : Inv c (apply c s a) := by
  cases a with
  | deliver to m =>
    have en : (to, m) ∈ s.net := en
    apply inv_frame inv <;> simp only [apply]
    · intro j; unfold upd; split <;> (try subst_vars) <;> rfl
    · intro j; unfold upd; split <;> (try subst_vars) <;> rfl
    · intro j; unfold upd; split <;> (try subst_vars) <;> rfl
    · intro j; unfold upd; split <;> (try subst_vars) <;> rfl
    · intro j; unfold upd; split <;> (try subst_vars) <;> rfl
    · intro j it h
      rcases known_upd_mem h with ⟨_, h⟩ | ⟨_, h⟩
      · rcases mem_addAll.mp h with h | h
        · exact inv.netProv to m en it h
        · exact inv.knownProv to it h
      · exact inv.knownProv j it h
    · intro to' m' h; exact inv.netProv to' m' (List.mem_of_mem_erase h)
  | drop to m =>
    refine inv_net (s' := apply c s _) inv (by rfl) ?_
    intro to' m' h; exact inv.netProv to' m' (List.mem_of_mem_erase h)
  | dup to m =>
    have en : (to, m) ∈ s.net := en
    refine inv_net (s' := apply c s _) inv (by rfl) ?_
    intro to' m' h
    rcases List.mem_cons.mp h with h | h
    · rw [(Prod.mk.inj h).2]; exact inv.netProv to m en
    · exact inv.netProv to' m' h
  | timeout i => exact inv
  | sendChangeView i =>
    apply inv_frame inv <;> simp only [apply]
    · intro j; unfold upd; split <;> (try subst_vars) <;> rfl
    · intro j; unfold upd; split <;> (try subst_vars) <;> rfl
    · intro j; unfold upd; split <;> (try subst_vars) <;> rfl
    · intro j; unfold upd; split <;> (try subst_vars) <;> rfl
    · intro j; unfold upd; split <;> (try subst_vars) <;> rfl
    · intro j it h
      rcases known_upd_mem h with ⟨_, h⟩ | ⟨_, h⟩
      · rcases mem_addKnown.mp h with h | h
        · subst h; trivial
        · exact inv.knownProv i it h
      · exact inv.knownProv j it h
    · apply net_bcast inv
      intro it hit; simp [Msg.items] at hit; subst hit; trivial
  | sendRecReq i =>
    refine inv_net (s' := apply c s _) inv (by rfl) ?_
    apply net_bcast inv
    intro it hit; simp [Msg.items] at hit
  | sendRecMsg i items =>
    have en : i < c.n ∧ ∀ it ∈ items, it ∈ (s.nodes i).known := en
    refine inv_net (s' := apply c s _) inv (by rfl) ?_
    apply net_bcast inv
    intro it hit; exact inv.knownProv i it (en.2 it hit)
  | _ => exact absurd hfr (by simp)

end NeoModel.Dbft
