/-
C16 — the linked tables (Generated/Interops, NativeMethods) agree with the registrations re-read from the source text.
-/
import NeoModel.Model.Flags
namespace NeoModel.Flags
open CallFlags Generated

set_option maxRecDepth 100000 in
/-- the linked system-call table and the table re-read from the source text agree (name, flags). -/
theorem interops_linked_eq_source : Interops.table.map (fun e => (e.name, e.flags)) = Interops.sourceTable := by decide +kernel

/-- does a source registration `s` describe the linked descriptor `m` at hardfork `hf`? -/
def srcMatches (hf : Nat) (m : NativeMethods.Entry) (s : String × String × Nat × Nat × Bool × Nat × Nat) : Bool :=
  s.2.1 == m.name && (s.2.2.1 == m.nparams || s.2.2.1 == 99) && s.2.2.2.1 == m.flags && s.2.2.2.2.1 == m.deferrable &&
  decide (s.2.2.2.2.2.1 ≤ hf) && (s.2.2.2.2.2.2 == 0 || decide (hf < s.2.2.2.2.2.2))

set_option maxRecDepth 1000000 in
/-- every linked native descriptor, at every hardfork at which it is active, is a registration found in the
source text of pkg/core/native (same name, parameter count, flags, deferrable, active there). -/
theorem natives_linked_in_source :
    ∀ hf ∈ List.range 9, ∀ m ∈ NativeMethods.table, activeAt hf m = true →
      NativeMethods.sourceTable.any (srcMatches hf m) = true := by decide +kernel


end NeoModel.Flags
