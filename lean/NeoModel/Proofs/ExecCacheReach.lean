/-
C04: the hypothesis `st.inv` of native_cache_cow / native_cache_persist (no cache cell is referenced twice, all
cells are allocated) is an invariant of every stack of DAO layers the node can reach: it holds for the empty
stack and for a lowest layer filled by SetCache with fresh cells, and every operation keeps it.
-/
import NeoModel.Model.Exec
import NeoModel.Proofs.ExecCache
namespace NeoModel.Exec

/-- what the node does with the stack of DAO layers and their native caches. -/
inductive COp where
  | push                     -- GetPrivate
  | write (id v : Nat)       -- GetRWCache(id) + a field update
  | persist                  -- Persist into the lower layer
  | drop                     -- the layer is forgotten (rollback)
  | setCache (id v : Nat)    -- SetCache on the lowest DAO (Initialize / InitializeCache): a fresh cell
  deriving Repr

/-- SetCache(id, new object) on the lowest DAO: a fresh cell, put in front of the id's earlier entry. -/
def CStack.setCache (st : CStack) (id v : Nat) : CStack :=
  match st.layers with
  | [l] => ⟨fun x => if x = st.next then v else st.heap x, st.next + 1, [(id, st.next) :: l]⟩
  | _ => st

def CStack.step (st : CStack) : COp → CStack
  | .push => st.push
  | .write id v => st.write id v
  | .persist => st.persist
  | .drop => st.drop
  | .setCache id v => st.setCache id v

def CStack.run (st : CStack) (ops : List COp) : CStack := ops.foldl CStack.step st

theorem drop_inv (st : CStack) (hi : st.inv) : st.drop.inv := by
  unfold CStack.inv CStack.drop at *
  cases hl : st.layers with
  | nil => rw [hl] at hi; simpa using hi
  | cons l rest => rw [hl] at hi; simpa using cinv_tail hi

theorem setCache_inv (st : CStack) (id v : Nat) (hi : st.inv) : (st.setCache id v).inv := by
  unfold CStack.setCache
  split
  · rename_i l hl
    unfold CStack.inv CInv at *
    rw [hl] at hi
    obtain ⟨h1, h2⟩ := hi
    simp only [allRefs, lrefs, List.append_nil, List.map] at h1 h2 ⊢
    refine ⟨List.nodup_cons.mpr ⟨fun hm => by have := h2 _ hm; omega, h1⟩, ?_⟩
    intro r hr
    rcases List.mem_cons.mp hr with h | h
    · omega
    · have := h2 r h; omega
  · exact hi

theorem step_inv (st : CStack) (op : COp) (hi : st.inv) : (st.step op).inv := by
  cases op with
  | push => exact push_inv st hi
  | write id v => exact (write_spec st id v hi).1
  | persist => exact (cache_persist st hi).1
  | drop => exact drop_inv st hi
  | setCache id v => exact setCache_inv st id v hi

/-- the invariant holds in every reachable state. -/
theorem run_inv (ops : List COp) : ∀ (st : CStack), st.inv → (st.run ops).inv := by
  induction ops with
  | nil => intro st hi; exact hi
  | cons op rest ih => intro st hi; exact ih _ (step_inv st op hi)

def CStack.empty : CStack := ⟨fun _ => 0, 0, [[]]⟩

theorem empty_inv : CStack.empty.inv := by
  unfold CStack.inv CInv CStack.empty
  simp [allRefs, lrefs]

end NeoModel.Exec
