/- C19: a concrete reachable network of machines (non-vacuity of the refinement theorems). -/
import NeoModel.Proofs.DbftSimE
namespace NeoModel.Dbft.Mach
open NeoModel.Dbft

instance (e : Env) (s : MNet) (i : Nat) (ev : Event) (inp : Inp) : Decidable (freshOK e s i ev inp) := by
  unfold freshOK; cases ev <;> simp only <;> infer_instance

instance (e : Env) (s : MNet) (inp : Inp) (ev : NEv) : Decidable (NEnabled e s inp ev) := by
  cases ev <;> simp only [NEnabled] <;> infer_instance

/-- run a list of network events, stopping at the first that is not enabled -/
def runNet (e : Env) : MNet → List (NEv × Inp) → Option MNet
  | s, [] => some s
  | s, (ev, inp) :: rest => if NEnabled e s inp ev then runNet e (napply e s inp ev) rest else none

theorem runNet_reachable (e : Env) (evs : List (NEv × Inp)) (s s' : MNet) (hr : MReachable e s)
    (h : runNet e s evs = some s') : MReachable e s' := by
  induction evs generalizing s with
  | nil => simp [runNet] at h; subst h; exact hr
  | cons a rest ih =>
    obtain ⟨ev, inp⟩ := a
    simp only [runNet] at h
    split at h
    · rename_i hen; exact ih _ (MReachable.step ev inp hr hen) h
    · cases h

def xEnv : Env :=
  { n := 2, maxTx := 10, maxSize := 1000, maxSysFee := 1000,
    prop := fun p => if p == 1 then { h := 1, v := 0, frm := 1, ts := 10 } else {} }

def xPR : Pl := .prepReq ⟨1, 1, 0⟩ 1
def xPS (j : Nat) : Pl := .prepResp ⟨j, 1, 0⟩ 1
def xCM (j : Nat) : Pl := .commit ⟨j, 1, 0⟩ ⟨1, 0, 1⟩
def xi : Inp := { gts := 5, fresh := 1 }

/-- two validators (M = 2) start; 1 is the primary of height 1 and proposes, 0 answers and signs, 1 hears the
answer and signs, both hear the other's signature and hand the block to their ledgers -/
def xRun : List (NEv × Inp) :=
  [(.start 0, xi), (.start 1, xi), (.deliver 0 xPR, xi), (.deliver 1 (xPS 0), xi),
   (.deliver 0 (xCM 1), xi), (.deliver 1 (xCM 0), xi)]

set_option maxRecDepth 100000 in
theorem xRun_decides : (runNet xEnv (minit xEnv) xRun).map (fun s => ((s.nodes 0).chain, (s.nodes 0).bi, (s.nodes 1).chain)) =
    some ([⟨1, 0, 1⟩], 2, [⟨1, 0, 1⟩]) := by decide

/-- non-vacuity of `mach_refines` / `mach_agreement`: a reachable network in which both validator machines have
decided a block -/
theorem mach_reachable_nonvacuous :
    ∃ ms, MReachable xEnv ms ∧ (ms.nodes 0).chain = [⟨1, 0, 1⟩] ∧ (ms.nodes 1).chain = [⟨1, 0, 1⟩] := by
  have h := xRun_decides
  cases hr : runNet xEnv (minit xEnv) xRun with
  | none => rw [hr] at h; cases h
  | some s =>
    rw [hr] at h
    simp only [Option.map_some, Option.some.injEq, Prod.mk.injEq] at h
    exact ⟨s, runNet_reachable xEnv xRun _ s MReachable.init hr, h.1, h.2.2⟩

end NeoModel.Dbft.Mach
