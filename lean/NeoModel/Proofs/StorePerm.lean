/-
C09 helper lemmas: Go map semantics. The model represents a Go map by an association list and Go's
`range` over a map by the list order; Go randomises that order. Every observation of the model (Get,
Seek with any options, SeekGC's visits, the key count of a flush) and every operation (Put, Delete,
PutChangeSet with the batch maps in any order on every store kind, each flush step, a whole flush,
PersistPrivate, SeekGC) is invariant under re-ordering every map of the state and of the arguments:
`StoreEq` is preserved by every operation and implies equal observations, so by induction no sequence of
operations can tell two enumeration orders apart. The sort is determined by its specification.
-/
import NeoModel.Proofs.StoreGC
set_option linter.unusedSimpArgs false
namespace NeoModel.Store

/-- two association lists that are the same Go map: distinct keys, same lookups. -/
def MapEq (a b : GoMap) : Prop := MapWF a ∧ MapWF b ∧ ∀ k, mapGet a k = mapGet b k
def DbEq (a b : List KV) : Prop := DbWF a ∧ DbWF b ∧ ∀ k, List.lookup k a = List.lookup k b

/-- any re-ordering of a Go map's entries (what `range` over the map may produce) is the same map. -/
theorem MapEq_of_perm {a b : GoMap} (h : a.Perm b) (hw : MapWF a) : MapEq a b := by
  have hb : MapWF b := (List.Perm.nodup_iff (h.map Prod.fst)).mp hw
  refine ⟨hw, hb, ?_⟩
  intro k
  apply Option.ext
  intro v
  rw [← mem_iff_mapGet a hw, ← mem_iff_mapGet b hb]
  exact h.mem_iff

theorem nodup_of_keys_nodup {β : Type} {l : List (Key × β)} (h : (l.map Prod.fst).Nodup) : l.Nodup :=
  List.Pairwise.of_map Prod.fst (fun _ _ hne e => hne (congrArg Prod.fst e)) h

/-- … and conversely two representations of the same Go map are re-orderings of one another. -/
theorem perm_of_MapEq {a b : GoMap} (h : MapEq a b) : a.Perm b := by
  rw [List.perm_ext_iff_of_nodup (nodup_of_keys_nodup h.1) (nodup_of_keys_nodup h.2.1)]
  intro ⟨k, v⟩
  rw [mem_iff_mapGet a h.1, mem_iff_mapGet b h.2.1, h.2.2]

theorem MapEq.refl {a : GoMap} (h : MapWF a) : MapEq a a := ⟨h, h, fun _ => rfl⟩
theorem MapEq.symm {a b : GoMap} (h : MapEq a b) : MapEq b a := ⟨h.2.1, h.1, fun k => (h.2.2 k).symm⟩
theorem MapEq.length {a b : GoMap} (h : MapEq a b) : a.length = b.length := (perm_of_MapEq h).length_eq

theorem DbEq_of_perm {a b : List KV} (h : a.Perm b) (hw : DbWF a) : DbEq a b := by
  have hb : DbWF b := (List.Perm.nodup_iff (h.map Prod.fst)).mp hw
  refine ⟨hw, hb, ?_⟩
  intro k
  apply Option.ext
  intro v
  rw [← mem_iff_lookup a hw, ← mem_iff_lookup b hb]
  exact h.mem_iff

theorem MapEq.set {a b : GoMap} (h : MapEq a b) (k : Key) (v : Option Val) : MapEq (mapSet a k v) (mapSet b k v) :=
  ⟨MapWF_set a k v h.1, MapWF_set b k v h.2.1, fun q => by rw [mapGet_set, mapGet_set, h.2.2]⟩

theorem MapEq.copy {a b p q : GoMap} (h : MapEq a b) (hp : MapEq p q) : MapEq (mapCopy a p) (mapCopy b q) :=
  ⟨MapWF_copy a p h.1, MapWF_copy b q h.2.1, fun k => by
    rw [mapGet_copy a p hp.1, mapGet_copy b q hp.2.1, hp.2.2, h.2.2]⟩

theorem DbEq.apply {a b : List KV} {p q : GoMap} (h : DbEq a b) (hp : MapEq p q) : DbEq (dbApply a p) (dbApply b q) :=
  ⟨DbWF_apply a p h.1, DbWF_apply b q h.2.1, fun k => by
    rw [lookup_dbApply a p hp.1, lookup_dbApply b q hp.2.1, hp.2.2, h.2.2]⟩

/-- two layers holding the same two Go maps. -/
def LayerEq (L L' : Layer) : Prop :=
  L.priv = L'.priv ∧ L.nilMaps = L'.nilMaps ∧ MapEq L.mem L'.mem ∧ MapEq L.stor L'.stor ∧
    Placed L.mem L.stor ∧ Placed L'.mem L'.stor

theorem LayerEq.wf {L L' : Layer} (h : LayerEq L L') : L.WF ∧ L'.WF :=
  ⟨⟨h.2.2.1.1, h.2.2.2.1.1, h.2.2.2.2.1⟩, ⟨h.2.2.1.2.1, h.2.2.2.1.2.1, h.2.2.2.2.2⟩⟩

theorem LayerEq.says {L L' : Layer} (h : LayerEq L L') (k : Key) : layerSays L k = layerSays L' k := by
  unfold layerSays Layer.choose
  split
  · exact h.2.2.2.1.2.2 k
  · exact h.2.2.1.2.2 k

theorem LayerEq.count {L L' : Layer} (h : LayerEq L L') : L.count = L'.count := by
  unfold Layer.count; rw [h.2.2.1.length, h.2.2.2.1.length]

/-- the same stack of stores, each Go map / key set possibly enumerated in another order. -/
inductive StoreEq : Store → Store → Prop
  | memB {m m' s s' : GoMap} : MapEq m m' → MapEq s s' → StoreEq (.memB m s) (.memB m' s')
  | level {a b : List KV} : DbEq a b → StoreEq (.level a) (.level b)
  | bolt {a b : List KV} : DbEq a b → StoreEq (.bolt a) (.bolt b)
  | cached {L L' : Layer} {ps ps' : Store} : LayerEq L L' → StoreEq ps ps' → StoreEq (.cached L ps) (.cached L' ps')

theorem StoreEq.wf {s s' : Store} (h : StoreEq s s') : s.WF ∧ s'.WF := by
  induction h with
  | memB hm hs => exact ⟨⟨hm.1, hs.1⟩, ⟨hm.2.1, hs.2.1⟩⟩
  | level h => exact ⟨h.1, h.2.1⟩
  | bolt h => exact ⟨h.1, h.2.1⟩
  | cached hl _ ih => exact ⟨⟨hl.wf.1, ih.1⟩, ⟨hl.wf.2, ih.2⟩⟩

theorem overlay_layerEq {L L' : Layer} (h : LayerEq L L') (f : SpecMap) : overlay L f = overlay L' f :=
  overlay_congr_says L L' f h.says

theorem StoreEq.flatten {s s' : Store} (h : StoreEq s s') : s.flatten = s'.flatten := by
  induction h with
  | @memB m m' s s' hm hs =>
    apply overlay_congr_says
    intro k
    unfold layerSays Layer.choose
    split
    · exact hs.2.2 k
    · exact hm.2.2 k
  | level h => funext k; exact h.2.2 k
  | bolt h => funext k; exact h.2.2 k
  | cached hl _ ih =>
    show overlay _ _ = overlay _ _
    rw [ih, overlay_layerEq hl]

theorem StoreEq.flattenD {s s' : Store} (h : StoreEq s s') (d : Nat) : s.flattenD d = s'.flattenD d := by
  induction h generalizing d with
  | @memB m m' s s' hm hs =>
    rw [flattenD_backend_memB, flattenD_backend_memB]; exact (StoreEq.memB hm hs).flatten
  | level h => rw [flattenD_backend_level, flattenD_backend_level]; exact (StoreEq.level h).flatten
  | bolt h => rw [flattenD_backend_bolt, flattenD_backend_bolt]; exact (StoreEq.bolt h).flatten
  | @cached L L' ps ps' hl hps ih =>
    match d with
    | 0 => exact (StoreEq.cached hl hps).flatten
    | 1 => exact overlay_layerEq hl _
    | d + 2 =>
      show overlay L (ps.flattenD (d + 1)) = overlay L' (ps'.flattenD (d + 1))
      rw [ih, overlay_layerEq hl]

/-! ### every observation is independent of the enumeration order -/

theorem StoreEq.get {s s' : Store} (h : StoreEq s s') (k : Key) : s.get k = s'.get k := by
  rw [get_flatten, get_flatten, h.flatten]

theorem StoreEq.seek {s s' : Store} (h : StoreEq s s') (rng : SeekRange) (hp : rng.pfx ≠ []) :
    s.seek rng = s'.seek rng := by
  have a := seek_spec_all s h.wf.1 rng hp
  have b := seek_spec_all s' h.wf.2 rng hp
  rw [h.flattenD] at a
  exact isSpecSeek_unique _ rng _ _ a b

theorem StoreEq.seekObs {s s' : Store} (h : StoreEq s s') (rng : SeekRange) (hp : rng.pfx ≠ []) (cut : Bool) (lim : Nat) :
    s.seekObs rng cut lim = s'.seekObs rng cut lim := by
  rw [seekObs_eq, seekObs_eq, h.seek rng hp]
  cases h <;> rfl

/-! ### every operation maps equal stores to equal stores -/

theorem LayerEq.set {L L' : Layer} (h : LayerEq L L') (k : Key) (v : Option Val) : LayerEq (L.set k v) (L'.set k v) := by
  have w := Layer.WF_set L k v h.wf.1
  have w' := Layer.WF_set L' k v h.wf.2
  unfold Layer.set at *
  by_cases hs : isStor k = true
  · simp only [hs, if_true] at w w' ⊢
    exact ⟨h.1, h.2.1, h.2.2.1, h.2.2.2.1.set k v, w.2.2, w'.2.2⟩
  · simp only [hs, if_false, Bool.false_eq_true] at w w' ⊢
    exact ⟨h.1, h.2.1, h.2.2.1.set k v, h.2.2.2.1, w.2.2, w'.2.2⟩

theorem StoreEq.put {s s' : Store} (h : StoreEq s s') (k : Key) (v : Option Val) : StoreEq (s.put k v) (s'.put k v) := by
  cases h with
  | memB hm hs => exact .memB hm hs
  | level h => exact .level h
  | bolt h => exact .bolt h
  | cached hl hps => exact .cached (hl.set k v) hps

theorem LayerEq.putCS {L L' : Layer} (h : LayerEq L L') {p p' st st' : GoMap} (hp : MapEq p p') (hst : MapEq st st')
    (hpl : Placed p st) (hpl' : Placed p' st') : LayerEq (L.putCS p st) (L'.putCS p' st') :=
  ⟨h.1, h.2.1, h.2.2.1.copy hp, h.2.2.2.1.copy hst,
    (Layer.WF_putCS L p st h.wf.1 hpl).2.2, (Layer.WF_putCS L' p' st' h.wf.2 hpl').2.2⟩

/-- `PutChangeSet` with the batch maps enumerated in any order, on any store kind. -/
theorem StoreEq.putChangeSet {s s' : Store} (h : StoreEq s s') {p p' st st' : GoMap} (hp : MapEq p p') (hst : MapEq st st')
    (hpl : Placed p st) (hpl' : Placed p' st') : StoreEq (s.putChangeSet p st) (s'.putChangeSet p' st') := by
  cases h with
  | memB hm hs => exact .memB (hm.copy hp) (hs.copy hst)
  | level h => exact .level ((h.apply hp).apply hst)
  | bolt h => exact .bolt ((h.apply hp).apply hst)
  | cached hl hps => exact .cached (hl.putCS hp hst hpl hpl') hps

theorem LayerEq.clear {L L' : Layer} (h : LayerEq L L') (nm : Bool) :
    LayerEq { L with mem := [], stor := [], nilMaps := nm } { L' with mem := [], stor := [], nilMaps := nm } :=
  ⟨h.1, rfl, MapEq.refl MapWF_nil, MapEq.refl MapWF_nil, ⟨by simp, by simp⟩, ⟨by simp, by simp⟩⟩

theorem LayerEq.clear' {L L' : Layer} (h : LayerEq L L') :
    LayerEq { L with mem := [], stor := [] } { L' with mem := [], stor := [] } :=
  ⟨h.1, h.2.1, MapEq.refl MapWF_nil, MapEq.refl MapWF_nil, ⟨by simp, by simp⟩, ⟨by simp, by simp⟩⟩

theorem StoreEq.persist1 {s s' : Store} (h : StoreEq s s') : StoreEq s.persist1 s'.persist1 := by
  cases h with
  | memB hm hs => exact .memB hm hs
  | level h => exact .level h
  | bolt h => exact .bolt h
  | cached hl hps =>
    exact .cached hl.clear' (.cached ⟨rfl, hl.2.1, hl.2.2.1, hl.2.2.2.1, hl.2.2.2.2.1, hl.2.2.2.2.2⟩ hps)

theorem StoreEq.persist2 {s s' : Store} (h : StoreEq s s') : StoreEq s.persist2 s'.persist2 := by
  cases h with
  | memB hm hs => exact .memB hm hs
  | level h => exact .level h
  | bolt h => exact .bolt h
  | cached hl hps =>
    cases hps with
    | memB hm hs => exact .cached hl (.memB hm hs)
    | level h => exact .cached hl (.level h)
    | bolt h => exact .cached hl (.bolt h)
    | cached ht hq =>
      exact .cached hl (.cached ht (hq.putChangeSet ht.2.2.1 ht.2.2.2.1 ht.2.2.2.2.1 ht.2.2.2.2.2))

theorem StoreEq.persist3 {s s' : Store} (h : StoreEq s s') : StoreEq s.persist3 s'.persist3 := by
  cases h with
  | memB hm hs => exact .memB hm hs
  | level h => exact .level h
  | bolt h => exact .bolt h
  | cached hl hps =>
    cases hps with
    | memB hm hs => exact .cached hl (.memB hm hs)
    | level h => exact .cached hl (.level h)
    | bolt h => exact .cached hl (.bolt h)
    | cached ht hq => exact .cached hl hq

theorem MapEq.fill {a b p q : GoMap} (h : MapEq a b) (hp : MapEq p q) : MapEq (mapFill a p) (mapFill b q) :=
  ⟨MapWF_fill a p h.1, MapWF_fill b q h.2.1, fun k => by rw [mapGet_fill, mapGet_fill, hp.2.2, h.2.2]⟩

theorem LayerEq.fill {F F' T T' : Layer} (hf : LayerEq F F') (ht : LayerEq T T') : LayerEq (fillLayer F T) (fillLayer F' T') :=
  ⟨hf.1, hf.2.1, hf.2.2.1.fill ht.2.2.1, hf.2.2.2.1.fill ht.2.2.2.1,
    (Layer.WF_fill F T hf.wf.1 ht.wf.1).2.2, (Layer.WF_fill F' T' hf.wf.2 ht.wf.2).2.2⟩

theorem StoreEq.persist3Fail {s s' : Store} (h : StoreEq s s') : StoreEq s.persist3Fail s'.persist3Fail := by
  cases h with
  | memB hm hs => exact .memB hm hs
  | level h => exact .level h
  | bolt h => exact .bolt h
  | cached hl hps =>
    cases hps with
    | memB hm hs => exact .cached hl (.memB hm hs)
    | level h => exact .cached hl (.level h)
    | bolt h => exact .cached hl (.bolt h)
    | @cached T T' q q' ht hq =>
      exact .cached (hl.fill ht) hq

/-- a whole flush: same resulting store (up to enumeration order) and the same key count. -/
theorem StoreEq.persist {s s' : Store} (h : StoreEq s s') : StoreEq s.persist.1 s'.persist.1 ∧ s.persist.2 = s'.persist.2 := by
  cases h with
  | memB hm hs => exact ⟨.memB hm hs, rfl⟩
  | level h => exact ⟨.level h, rfl⟩
  | bolt h => exact ⟨.bolt h, rfl⟩
  | @cached L L' ps ps' hl hps =>
    have e : ∀ (L : Layer) (ps : Store), (Store.cached L ps).persist =
        if L.count == 0 then (.cached L ps, 0)
        else if L.priv then
          (.cached { L with mem := [], stor := [], nilMaps := true } (ps.putChangeSet L.mem L.stor), L.count)
        else ((Store.cached L ps).persist1.persist2.persist3, L.count) := fun _ _ => rfl
    rw [e, e, ← hl.count, ← hl.1]
    by_cases h0 : (L.count == 0) = true
    · simp only [h0, if_true]; exact ⟨.cached hl hps, trivial⟩
    · simp only [h0, if_false, Bool.false_eq_true]
      by_cases hp : L.priv = true
      · simp only [hp, if_true]
        exact ⟨.cached ⟨rfl, rfl, MapEq.refl MapWF_nil, MapEq.refl MapWF_nil, ⟨by simp, by simp⟩, ⟨by simp, by simp⟩⟩ (hps.putChangeSet hl.2.2.1 hl.2.2.2.1 hl.2.2.2.2.1 hl.2.2.2.2.2), trivial⟩
      · simp only [hp, if_false, Bool.false_eq_true]
        exact ⟨((StoreEq.cached hl hps).persist1.persist2).persist3, trivial⟩

theorem mapGet_congr_foldl_delMem {a b : GoMap} (h : MapEq a b) (dead : List Key) :
    MapEq (dead.foldl (fun a k => if isStor k then a else mapDel a k) a) (dead.foldl (fun a k => if isStor k then a else mapDel a k) b) :=
  ⟨MapWF_foldl_delMem dead a h.1, MapWF_foldl_delMem dead b h.2.1, fun q => by
    rw [mapGet_foldl_delMem, mapGet_foldl_delMem, h.2.2]⟩

theorem mapGet_congr_foldl_delStor {a b : GoMap} (h : MapEq a b) (dead : List Key) :
    MapEq (dead.foldl (fun a k => if isStor k then mapDel a k else a) a) (dead.foldl (fun a k => if isStor k then mapDel a k else a) b) :=
  ⟨MapWF_foldl_delStor dead a h.1, MapWF_foldl_delStor dead b h.2.1, fun q => by
    rw [mapGet_foldl_delStor, mapGet_foldl_delStor, h.2.2]⟩

theorem LayerEq.gc {L L' : Layer} (h : LayerEq L L') (dead : List Key) : LayerEq (gcLayer L dead) (gcLayer L' dead) :=
  ⟨h.1, h.2.1, mapGet_congr_foldl_delMem h.2.2.1 dead, mapGet_congr_foldl_delStor h.2.2.2.1 dead,
    (gcLayer_WF L dead h.wf.1).2.2, (gcLayer_WF L' dead h.wf.2).2.2⟩

theorem StoreEq.ownSeek {s s' : Store} (h : StoreEq s s') (rng : SeekRange) (hp : rng.pfx ≠ []) :
    s.ownSeek rng = s'.ownSeek rng := by
  have a := ownSeek_spec s h.wf.1 rng hp
  have b := ownSeek_spec s' h.wf.2 rng hp
  rw [h.flattenD] at a
  exact isSpecSeek_unique _ rng _ _ a b

/-- `SeekGC`: the same items visited, equal stores left. -/
theorem StoreEq.seekGC {s s' : Store} (h : StoreEq s s') (rng : SeekRange) (hp : rng.pfx ≠ []) (keep : Key → Bool) (lim : Nat) :
    (s.seekGC rng keep lim).1 = (s'.seekGC rng keep lim).1 ∧ StoreEq (s.seekGC rng keep lim).2 (s'.seekGC rng keep lim).2 := by
  have hv : (s.seekGC rng keep lim).1 = (s'.seekGC rng keep lim).1 := by
    rw [(seekGC_spec s h.wf.1 rng keep lim).1, (seekGC_spec s' h.wf.2 rng keep lim).1, h.ownSeek rng hp]
  refine ⟨hv, ?_⟩
  cases h with
  | @memB m m' st st' hm hs =>
    have e : ∀ (a b : GoMap), ((Store.memB a b).seekGC rng keep lim).2 =
        .memB ((deadKeys ((Store.memB a b).seekGC rng keep lim).1 keep).foldl (fun a k => if isStor k then a else mapDel a k) a)
              ((deadKeys ((Store.memB a b).seekGC rng keep lim).1 keep).foldl (fun a k => if isStor k then mapDel a k else a) b) := fun _ _ => rfl
    rw [e, e, ← hv]
    exact .memB (mapGet_congr_foldl_delMem hm _) (mapGet_congr_foldl_delStor hs _)
  | @level a b hd =>
    have e : ∀ (a : List KV), ((Store.level a).seekGC rng keep lim).2 =
        .level ((((Store.level a).seekGC rng keep lim).1.filter (fun e => !keep e.1)).foldl (fun d e => dbDel d e.1) a) := fun _ => rfl
    rw [e, e, ← hv]
    exact .level ⟨DbWF_foldl_dbDel _ _ hd.1, DbWF_foldl_dbDel _ _ hd.2.1, fun q => by
      rw [lookup_foldl_dbDel, lookup_foldl_dbDel, hd.2.2]⟩
  | @bolt a b hd =>
    have e : ∀ (a : List KV), ((Store.bolt a).seekGC rng keep lim).2 =
        .bolt ((((Store.bolt a).seekGC rng keep lim).1.filter (fun e => !keep e.1)).foldl (fun d e => dbDel d e.1) a) := fun _ => rfl
    rw [e, e, ← hv]
    exact .bolt ⟨DbWF_foldl_dbDel _ _ hd.1, DbWF_foldl_dbDel _ _ hd.2.1, fun q => by
      rw [lookup_foldl_dbDel, lookup_foldl_dbDel, hd.2.2]⟩
  | @cached L L' ps ps' hl hps =>
    rw [(seekGC_spec _ (StoreEq.cached hl hps).wf.1 rng keep lim).2.2.2 L ps rfl,
      (seekGC_spec _ (StoreEq.cached hl hps).wf.2 rng keep lim).2.2.2 L' ps' rfl, ← hv]
    exact .cached (hl.gc _) hps

/-- two lists of private layers, pairwise the same. -/
inductive LayersEq : List Layer → List Layer → Prop
  | nil : LayersEq [] []
  | cons {L L' : Layer} {ps ps' : List Layer} : LayerEq L L' → LayersEq ps ps' → LayersEq (L :: ps) (L' :: ps')

theorem foldl_count_eq {ps ps' : List Layer} (h : LayersEq ps ps') (a : Nat) :
    (ps.map Layer.count).foldl (· + ·) a = (ps'.map Layer.count).foldl (· + ·) a := by
  induction h generalizing a with
  | nil => rfl
  | cons hl _ ih => simp only [List.map_cons, List.foldl_cons, hl.count]; exact ih _

theorem foldl_putCS_eq {ps ps' : List Layer} (h : LayersEq ps ps') {L L' : Layer} (hl : LayerEq L L') :
    LayerEq (ps.foldl (fun acc p => acc.putCS p.mem p.stor) L) (ps'.foldl (fun acc p => acc.putCS p.mem p.stor) L') := by
  induction h generalizing L L' with
  | nil => exact hl
  | cons hp _ ih =>
    simp only [List.foldl_cons]
    exact ih (hl.putCS hp.2.2.1 hp.2.2.2.1 hp.2.2.2.2.1 hp.2.2.2.2.2)

/-- `PersistPrivate`: the same store and the same key count. -/
theorem LayerEq.persistPrivate {L L' : Layer} (hl : LayerEq L L') {ps ps' : List Layer} (h : LayersEq ps ps') :
    LayerEq (L.persistPrivate ps).1 (L'.persistPrivate ps').1 ∧ (L.persistPrivate ps).2 = (L'.persistPrivate ps').2 := by
  unfold Layer.persistPrivate
  simp only []
  rw [← foldl_count_eq h 0]
  by_cases h0 : ((ps.map Layer.count).foldl (· + ·) 0 == 0) = true
  · simp only [h0, if_true]; exact ⟨hl, trivial⟩
  · simp only [h0, if_false, Bool.false_eq_true]; exact ⟨foldl_putCS_eq h hl, trivial⟩

/-! ### the sort -/

/-- `slices.SortFunc` is modelled by `List.mergeSort`; with distinct keys ANY correct sort — any
ordered re-arrangement of the input, whatever the algorithm and whatever order the map was enumerated
in — gives the same list. -/
theorem sort_unique (bw : Bool) (l l' r : List KV) (hn : (l.map Prod.fst).Nodup) (hperm : l'.Perm l)
    (hr : r.Perm l') (hs : SortedK bw r) : r = sortKV bw l := by
  apply sorted_ext bw r (sortKV bw l) hs (sorted_mergeSort bw l hn)
  intro e
  unfold sortKV
  rw [mem_mergeSort, hr.mem_iff, hperm.mem_iff]

end NeoModel.Store
