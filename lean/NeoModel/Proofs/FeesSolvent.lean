/- C07 helper lemmas: adding to the (scratch) pool keeps it consistent; consistency is an invariant, not a hypothesis. -/
import NeoModel.Proofs.FeesBlockPool
namespace NeoModel.Pack
open NeoModel NeoModel.Fees NeoModel.Admission
open NeoModel.Generated.FeeConsts

/-- the fees of the payer's transactions as a plain sum over the list. -/
def payFee (n : Nat) (q : Nat × Nat) (e : Tx) : Nat := if payer n e == q then fee e else 0

theorem sumFees_eq (n : Nat) (q : Nat × Nat) (l : List Tx) : sumFees n q l = (l.map (payFee n q)).sum := by
  induction l with
  | nil => rfl
  | cons t ts ih =>
    rw [sumFees_cons, ih]
    simp [payFee]

theorem sum_filter_split (g : Tx → Nat) (p : Tx → Bool) (l : List Tx) :
    (l.map g).sum = ((l.filter p).map g).sum + ((l.filter fun e => !p e).map g).sum := by
  induction l with
  | nil => rfl
  | cons t ts ih =>
    simp only [List.map_cons, List.sum_cons, List.filter_cons]
    cases p t <;> simp [ih] <;> omega

/-- two members of a list without repeated hashes that have the same hash are the same transaction. -/
theorem eq_of_hash_eq : ∀ (l : List Tx), (l.map (·.hash)).Nodup → ∀ a ∈ l, ∀ b ∈ l, a.hash = b.hash → a = b := by
  intro l
  induction l with
  | nil => intro _ a ha; simp at ha
  | cons x xs ih =>
    intro hnd a ha b hb hab
    simp only [List.map_cons, List.nodup_cons, List.mem_map, not_exists, not_and] at hnd
    simp only [List.mem_cons] at ha hb
    rcases ha with rfl | ha <;> rcases hb with rfl | hb
    · rfl
    · exact absurd hab.symm (hnd.1 b hb)
    · exact absurd hab (hnd.1 a ha)
    · exact ih hnd.2 a ha b hb hab

/-- a list without repeated hashes whose members all occur in `X` sums to at most what `X` sums to. -/
theorem sum_le_of_subset (g : Tx → Nat) : ∀ (rm X : List Tx), (rm.map (·.hash)).Nodup → (∀ e ∈ rm, e ∈ X) →
    (rm.map g).sum ≤ (X.map g).sum := by
  intro rm
  induction rm with
  | nil => intro X _ _; simp
  | cons e rm ih =>
    intro X hnd hsub
    simp only [List.map_cons, List.nodup_cons, List.mem_map, not_exists, not_and] at hnd
    obtain ⟨X1, X2, rfl⟩ := List.append_of_mem (hsub e (by simp))
    have hsub' : ∀ e' ∈ rm, e' ∈ X1 ++ X2 := by
      intro e' he'
      have := hsub e' (by simp [he'])
      simp only [List.mem_append, List.mem_cons] at this ⊢
      rcases this with h | h | h
      · exact Or.inl h
      · exact absurd (congrArg (·.hash) h) (hnd.1 e' he')
      · exact Or.inr h
    have := ih (X1 ++ X2) hnd.2 hsub'
    simp only [List.map_append, List.sum_append, List.map_cons, List.sum_cons] at this ⊢
    omega

theorem namedOf_spec (sp : List Tx) (t : Tx) : ∀ (hs : List Nat) (s2 : List Tx), namedOf sp t hs = some s2 →
    (∀ e ∈ s2, e ∈ sp ∧ e.hash ∈ hs) ∧ (hs.Nodup → (s2.map (·.hash)).Nodup)
    ∧ (∀ e ∈ sp, e.hash ∈ hs → ∃ e' ∈ s2, e'.hash = e.hash) := by
  intro hs
  induction hs with
  | nil => intro s2 h; simp only [namedOf, Option.some.injEq] at h; subst h; simp
  | cons h hs ih =>
    intro s2 hn
    simp only [namedOf] at hn
    cases hf : sp.find? (·.hash == h) with
    | none =>
      rw [hf] at hn
      obtain ⟨i1, i2, i3⟩ := ih s2 hn
      refine ⟨fun e he => ⟨(i1 e he).1, by simp [(i1 e he).2]⟩, fun hnd => i2 (List.nodup_cons.mp hnd).2, ?_⟩
      intro e he heh
      simp only [List.mem_cons] at heh
      rcases heh with heq | heh
      · have := List.find?_eq_none.mp hf e he
        simp [heq] at this
      · exact i3 e he heh
    | some x =>
      rw [hf] at hn
      simp only at hn
      split at hn
      · cases hr : namedOf sp t hs with
        | none => simp [hr] at hn
        | some r =>
          simp only [hr, Option.map_some, Option.some.injEq] at hn
          subst hn
          obtain ⟨i1, i2, i3⟩ := ih r hr
          have hx : x ∈ sp := List.mem_of_find?_eq_some hf
          have hxh : x.hash = h := by simpa using List.find?_some hf
          refine ⟨?_, ?_, ?_⟩
          · intro e he
            simp only [List.mem_cons] at he
            rcases he with rfl | he
            · exact ⟨hx, by simp [hxh]⟩
            · exact ⟨(i1 e he).1, by simp [(i1 e he).2]⟩
          · intro hnd
            obtain ⟨hnot, hnd'⟩ := List.nodup_cons.mp hnd
            simp only [List.map_cons, List.nodup_cons, List.mem_map, not_exists, not_and]
            refine ⟨fun e he heq => hnot (by rw [← hxh, ← heq]; exact (i1 e he).2), i2 hnd'⟩
          · intro e he heh
            simp only [List.mem_cons] at heh
            rcases heh with heq | heh
            · exact ⟨x, by simp, by rw [hxh, heq]⟩
            · obtain ⟨e', he', h'⟩ := i3 e he heh
              exact ⟨e', by simp [he'], h'⟩
      · simp at hn


/-- what a collision-free transaction hash and `verifyTxAttributes` give `mempool.Add`: a transaction does not name
itself, two transactions do not name each other (the hash of each covers its Conflicts attributes), and the
Conflicts attributes of a transaction name pairwise different hashes (blockchain.go: "duplicate Conflicts attribute"). -/
structure HashSane (sp : List Tx) (t : Tx) : Prop where
  self : t.hash ∉ conflictHashes t
  acyclic : ∀ e ∈ sp, t.hash ∈ conflictHashes e → e.hash ∉ conflictHashes t
  nodupConf : (conflictHashes t).Nodup

theorem mem_namedBy (sp : List Tx) (t e : Tx) : e ∈ namedBy sp t ↔ e ∈ sp ∧ t.hash ∈ conflictHashes e := by
  simp [namedBy]

/-- **adding keeps the pool consistent.** If `mempool.Add` accepts `t` into a consistent pool, the pool afterwards —
conflicting transactions and a cheaper response to the same request removed, `t` appended — is consistent again:
in particular every payer's pooled fees are still within its balance. -/
theorem scratchAdd_consistent (n : Nat) (bal : Nat × Nat → Nat) (sp : List Tx) (t : Tx)
    (hc : Consistent n bal sp) (hs : HashSane sp t) (h : (scratchAdd n bal sp t).1 = none) :
    Consistent n bal (scratchAdd n bal sp t).2 := by
  unfold scratchAdd at h ⊢
  cases hv : poolAdd (scratchView n bal sp t) t with
  | some e => simp [hv] at h
  | none =>
    dsimp only
    have hpn := poolAdd_none _ _ hv
    cases hof : namedOf sp t (conflictHashes t) with
    | none => simp [scratchView, hof] at hpn
    | some s2 =>
      simp only [scratchView, hof] at hpn
      obtain ⟨hhas, _, hbal, horc, _⟩ := hpn
      obtain ⟨n1, n2, n3⟩ := namedOf_spec sp t _ s2 hof
      -- abbreviations
      generalize hR : removedBy sp t = R
      have hRmem : ∀ x, x ∈ R ↔ (∃ e ∈ namedBy sp t ++ s2, e.hash = x) ∨
          (∃ i, oracleId t = some i ∧ ∃ e ∈ sp, oracleId e = some i ∧ e.hash = x) := by
        intro x
        rw [← hR]
        simp only [removedBy, hof, Option.getD_some, List.mem_append, List.mem_map]
        constructor
        · rintro (⟨e, he, rfl⟩ | ho)
          · exact Or.inl ⟨e, by simpa using he, rfl⟩
          · cases hi : oracleId t with
            | none => simp [hi] at ho
            | some i =>
              simp only [hi, List.mem_map, List.mem_filter, beq_iff_eq] at ho
              obtain ⟨e, ⟨he, hei⟩, rfl⟩ := ho
              exact Or.inr ⟨i, rfl, e, he, hei, rfl⟩
        · rintro (⟨e, he, rfl⟩ | ⟨i, hi, e, he, hei, rfl⟩)
          · exact Or.inl ⟨e, by simpa using he, rfl⟩
          · right
            simp only [hi, List.mem_map, List.mem_filter, beq_iff_eq]
            exact ⟨e, ⟨he, hei⟩, rfl⟩
      have hkeep : ∀ e, e ∈ sp.filter (fun e => !R.contains e.hash) ↔ e ∈ sp ∧ e.hash ∉ R := by
        intro e; simp
      have hnot : ∀ e ∈ sp, e.hash ≠ t.hash := by
        intro e he
        have := (List.any_eq_false.mp hhas) e he
        simpa using this
      refine ⟨?_, ?_, ?_, ?_⟩
      · -- every transaction once
        rw [List.map_append, List.nodup_append]
        refine ⟨(hc.nodup.sublist ((List.filter_sublist).map _)), by simp, ?_⟩
        intro a ha b hb
        simp only [List.map_cons, List.map_nil, List.mem_singleton] at hb
        obtain ⟨e, he, rfl⟩ := List.mem_map.mp ha
        rw [hb]
        exact hnot e ((hkeep e).mp he).1
      · -- no two conflict
        intro a ha b hb
        simp only [List.mem_append, List.mem_singleton] at ha hb
        rcases ha with ha | rfl <;> rcases hb with hb | rfl
        · exact hc.noConf a ((hkeep a).mp ha).1 b ((hkeep b).mp hb).1
        · intro hin
          obtain ⟨e', he', heq⟩ := n3 a ((hkeep a).mp ha).1 hin
          exact ((hkeep a).mp ha).2 ((hRmem _).mpr (Or.inl ⟨e', by simp [he'], heq⟩))
        · intro hin
          have hb' := (hkeep b).mp hb
          exact hb'.2 ((hRmem _).mpr (Or.inl ⟨b, by simp [mem_namedBy, hb'.1, hin], rfl⟩))
        · exact hs.self
      · -- one response per request
        intro a ha b hb i hai hbi
        simp only [List.mem_append, List.mem_singleton] at ha hb
        rcases ha with ha | rfl <;> rcases hb with hb | rfl
        · exact hc.orcUniq a ((hkeep a).mp ha).1 b ((hkeep b).mp hb).1 i hai hbi
        · have ha' := (hkeep a).mp ha
          exact absurd ((hRmem _).mpr (Or.inr ⟨i, hbi, a, ha'.1, hai, rfl⟩)) ha'.2
        · have hb' := (hkeep b).mp hb
          exact absurd ((hRmem _).mpr (Or.inr ⟨i, hai, b, hb'.1, hbi, rfl⟩)) hb'.2
        · rfl
      · -- every payer solvent
        intro q
        have hsplit := sum_filter_split (payFee n q) (fun e => !R.contains e.hash) sp
        rw [sumFees_append, sumFees_cons]
        simp only [sumFees, List.filter_nil, List.map_nil, List.sum_nil, Nat.add_zero] 
        have hq := hc.solvent q
        rw [sumFees_eq] at hq
        have hk : sumFees n q (sp.filter fun e => !R.contains e.hash) = ((sp.filter fun e => !R.contains e.hash).map (payFee n q)).sum :=
          sumFees_eq _ _ _
        simp only [sumFees] at hk
        by_cases hp : (payer n t == q) = true
        · -- the payer of `t`: the fees of what it loses are at least what was discounted
          have hq' : q = payer n t := by simpa using Eq.symm (by simpa using hp : payer n t = q)
          subst hq'
          simp only [beq_self_eq_true, if_true]
          have hrmnd : ((namedBy sp t ++ s2).map (·.hash)).Nodup := by
            rw [List.map_append, List.nodup_append]
            refine ⟨hc.nodup.sublist ((List.filter_sublist).map _), n2 hs.nodupConf, ?_⟩
            intro x hx y hy hxy
            obtain ⟨e1, he1, rfl⟩ := List.mem_map.mp hx
            obtain ⟨e2, he2, rfl⟩ := List.mem_map.mp hy
            have h1 := (mem_namedBy sp t e1).mp he1
            have h2 := n1 e2 he2
            have : e1 = e2 := eq_of_hash_eq sp hc.nodup e1 h1.1 e2 h2.1 hxy
            subst this
            exact hs.acyclic e1 h1.1 h1.2 h2.2
          have hrmsub : ∀ e ∈ namedBy sp t ++ s2, e ∈ sp.filter (fun e => !(!R.contains e.hash)) := by
            intro e he
            have hesp : e ∈ sp := by
              rcases List.mem_append.mp he with h1 | h2
              · exact ((mem_namedBy sp t e).mp h1).1
              · exact (n1 e h2).1
            simp only [Bool.not_not, List.mem_filter, List.contains_eq_mem, decide_eq_true_eq]
            exact ⟨hesp, (hRmem _).mpr (Or.inl ⟨e, he, rfl⟩)⟩
          have hle := sum_le_of_subset (payFee n (payer n t)) _ _ hrmnd hrmsub
          have hrm : (((namedBy sp t ++ s2).filter fun e => payer n e == payer n t).map fee).sum
              = ((namedBy sp t ++ s2).map (payFee n (payer n t))).sum := by
            have := sumFees_eq n (payer n t) (namedBy sp t ++ s2)
            simpa [sumFees] using this
          rw [hrm] at hbal
          rw [sumFees_eq] at hbal
          simp only [fee]
          omega
        · have hp' : (payer n t == q) = false := by simpa using hp
          simp only [hp', Bool.false_eq_true, if_false]
          omega


theorem sum_sublist_le (g : Tx → Nat) {l₁ l₂ : List Tx} (h : l₁.Sublist l₂) : (l₁.map g).sum ≤ (l₂.map g).sum := by
  induction h with
  | slnil => simp
  | cons a _ ih => simp only [List.map_cons, List.sum_cons]; omega
  | cons_cons a _ ih => simp only [List.map_cons, List.sum_cons]; omega

theorem sum_perm_eq (g : Tx → Nat) {l₁ l₂ : List Tx} (h : l₁.Perm l₂) : (l₁.map g).sum = (l₂.map g).sum := by
  induction h with
  | nil => rfl
  | cons a _ ih => simp only [List.map_cons, List.sum_cons, ih]
  | swap a b l => simp only [List.map_cons, List.sum_cons]; omega
  | trans _ _ ih1 ih2 => rw [ih1, ih2]

/-- whatever is removed from a consistent pool (Remove, eviction at capacity, the filter after a block while balances
do not shrink) leaves it consistent. -/
theorem consistent_sublist {n : Nat} {bal : Nat × Nat → Nat} {sp sp' : List Tx} (h : Consistent n bal sp)
    (hs : sp'.Sublist sp) : Consistent n bal sp' := by
  refine ⟨h.nodup.sublist (hs.map _), ?_, ?_, ?_⟩
  · intro a ha b hb; exact h.noConf a (hs.subset ha) b (hs.subset hb)
  · intro a ha b hb; exact h.orcUniq a (hs.subset ha) b (hs.subset hb)
  · intro q
    have := sum_sublist_le (payFee n q) hs
    have h2 := h.solvent q
    rw [sumFees_eq] at h2 ⊢
    omega

/-- consistency does not depend on the order the pool keeps its transactions in. -/
theorem consistent_perm {n : Nat} {bal : Nat × Nat → Nat} {sp sp' : List Tx} (h : Consistent n bal sp)
    (hp : sp'.Perm sp) : Consistent n bal sp' := by
  refine ⟨(hp.map _).nodup_iff.mpr h.nodup, ?_, ?_, ?_⟩
  · intro a ha b hb; exact h.noConf a (hp.subset ha) b (hp.subset hb)
  · intro a ha b hb; exact h.orcUniq a (hp.subset ha) b (hp.subset hb)
  · intro q
    have := sum_perm_eq (payFee n q) hp
    have h2 := h.solvent q
    rw [sumFees_eq] at h2 ⊢
    omega

/-- the pools `mempool` can be in between two blocks (balances `bal` fixed): empty; after an accepted `Add`;
after any removal; in any order. -/
inductive Built (n : Nat) (bal : Nat × Nat → Nat) : List Tx → Prop where
  | empty : Built n bal []
  | add (sp : List Tx) (t : Tx) : Built n bal sp → HashSane sp t → (scratchAdd n bal sp t).1 = none →
      Built n bal (scratchAdd n bal sp t).2
  | drop (sp sp' : List Tx) : Built n bal sp → sp'.Sublist sp → Built n bal sp'
  | order (sp sp' : List Tx) : Built n bal sp → sp'.Perm sp → Built n bal sp'

/-- **consistency is an invariant of the pool**, not an assumption about it. -/
theorem built_consistent {n : Nat} {bal : Nat × Nat → Nat} {sp : List Tx} (h : Built n bal sp) : Consistent n bal sp := by
  induction h with
  | empty => exact ⟨by simp, by simp, by simp, by intro q; simp [sumFees]⟩
  | add sp t _ hs hok ih => exact scratchAdd_consistent n bal sp t ih hs hok
  | drop sp sp' _ hsub ih => exact consistent_sublist ih hsub
  | order sp sp' _ hp ih => exact consistent_perm ih hp

end NeoModel.Pack

namespace NeoModel.Pack
open NeoModel NeoModel.Fees NeoModel.Admission

def isC (h : Nat) (b : Attr) : Bool := match b with | .conflicts h' => h' == h | _ => false

def cH (l : List Attr) : List Nat := l.filterMap fun a => match a with | .conflicts h => some h | _ => none

theorem mem_cH (l : List Attr) (h : Nat) : h ∈ cH l ↔ Attr.conflicts h ∈ l := by
  simp only [cH, List.mem_filterMap]
  constructor
  · rintro ⟨a, ha, he⟩
    cases a <;> simp at he
    subst he; exact ha
  · intro hm; exact ⟨_, hm, rfl⟩

theorem cH_nodup : ∀ (l : List Attr), (∀ h, Attr.conflicts h ∈ l → (l.filter (isC h)).length ≤ 1) → (cH l).Nodup := by
  intro l
  induction l with
  | nil => intro _; simp [cH]
  | cons a l ih =>
    intro hl
    have htail : ∀ h, Attr.conflicts h ∈ l → (l.filter (isC h)).length ≤ 1 := by
      intro h hm
      have := hl h (by simp [hm])
      simp only [List.filter_cons] at this
      split at this
      · simp only [List.length_cons] at this; omega
      · exact this
    cases a with
    | conflicts h =>
      have : cH (Attr.conflicts h :: l) = h :: cH l := by simp [cH]
      rw [this, List.nodup_cons]
      refine ⟨?_, ih htail⟩
      intro hin
      have hm := (mem_cH l h).mp hin
      have h1 := hl h (by simp)
      have hpos : 0 < (l.filter (isC h)).length := List.length_pos_of_mem (List.mem_filter.mpr ⟨hm, by simp [isC]⟩)
      have h2 : ((Attr.conflicts h :: l).filter (isC h)).length = (l.filter (isC h)).length + 1 := by
        simp [isC]
      omega
    | highPriority => have : cH (Attr.highPriority :: l) = cH l := by simp [cH]
                      rw [this]; exact ih htail
    | oracleResponse f => have : cH (Attr.oracleResponse f :: l) = cH l := by simp [cH]
                          rw [this]; exact ih htail
    | notValidBefore x => have : cH (Attr.notValidBefore x :: l) = cH l := by simp [cH]
                          rw [this]; exact ih htail
    | notaryAssisted x => have : cH (Attr.notaryAssisted x :: l) = cH l := by simp [cH]
                          rw [this]; exact ih htail
    | other x => have : cH (Attr.other x :: l) = cH l := by simp [cH]
                 rw [this]; exact ih htail

/-- `verifyTxAttributes` rejects a repeated Conflicts hash, so an admitted transaction names pairwise different hashes. -/
theorem conflictHashes_nodup (c : Chain) (t : Tx) (h : verifyAttrs c t = true) : (conflictHashes t).Nodup := by
  have : conflictHashes t = cH t.attrs := rfl
  rw [this]
  apply cH_nodup
  intro x hx
  simp only [verifyAttrs, List.all_eq_true] at h
  have := h _ hx
  simp only [checkAttr, Bool.and_eq_true, decide_eq_true_eq] at this
  exact this.1

end NeoModel.Pack
