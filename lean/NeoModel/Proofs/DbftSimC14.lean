/- C19 simulation, part C14: OnReceive. -/
import NeoModel.Proofs.DbftSimC13
namespace NeoModel.Dbft.Mach
open NeoModel.Dbft

theorem mem_setKey (l : List (Nat × Pl)) (k : Nat) (p : Pl) (km : Nat × Pl) (h : km ∈ setKey l k p) :
    km ∈ l ∨ km = (k, p) := by
  unfold setKey at h
  split at h
  · rw [List.mem_map] at h
    obtain ⟨y, hy, hy2⟩ := h
    split at hy2
    · exact Or.inr hy2.symm
    · subst hy2; exact Or.inl hy
  · rw [List.mem_append] at h
    rcases h with h | h
    · exact Or.inl h
    · simp only [List.mem_singleton] at h; exact Or.inr h

theorem mem_inbox_add (b : Inbox) (m : Pl) (km : Nat × Pl)
    (h : km ∈ (b.add m).prepare ∨ km ∈ (b.add m).chViews ∨ km ∈ (b.add m).commit) :
    (km ∈ b.prepare ∨ km ∈ b.chViews ∨ km ∈ b.commit) ∨ km.2 = m := by
  unfold Inbox.add at h
  cases m with
  | prepReq x p =>
    simp only at h
    rcases h with h | h | h
    · rcases mem_setKey _ _ _ _ h with h | h
      · exact Or.inl (Or.inl h)
      · exact Or.inr (by rw [h])
    · exact Or.inl (Or.inr (Or.inl h))
    · exact Or.inl (Or.inr (Or.inr h))
  | prepResp x p =>
    simp only at h
    rcases h with h | h | h
    · rcases mem_setKey _ _ _ _ h with h | h
      · exact Or.inl (Or.inl h)
      · exact Or.inr (by rw [h])
    · exact Or.inl (Or.inr (Or.inl h))
    · exact Or.inl (Or.inr (Or.inr h))
  | cv x r =>
    simp only at h
    rcases h with h | h | h
    · exact Or.inl (Or.inl h)
    · rcases mem_setKey _ _ _ _ h with h | h
      · exact Or.inl (Or.inr (Or.inl h))
      · exact Or.inr (by rw [h])
    · exact Or.inl (Or.inr (Or.inr h))
  | commit x b' =>
    simp only at h
    rcases h with h | h | h
    · exact Or.inl (Or.inl h)
    · exact Or.inl (Or.inr (Or.inl h))
    · rcases mem_setKey _ _ _ _ h with h | h
      · exact Or.inl (Or.inr (Or.inr h))
      · exact Or.inr (by rw [h])
  | recReq x => exact Or.inl h
  | recMsg x r => exact Or.inl h

/-- helpers.go on the machine: a payload of true claims is kept for later -/
theorem good_cacheAdd {e : Env} {as : State} {i : Nat} {w : W} (h : Good e as i w) (m : Pl) (hc : Claims e as m) :
    Good e as i (w.upd fun nd => { nd with cache := cacheAdd nd.cache m }) := by
  have rn := h.rn
  refine ⟨h.g, ⟨rn.my, rn.lens, rn.chain, rn.height, rn.phase, rn.pidx, rn.prep, rn.commit, rn.cv, rn.lastCv, ?_, rn.own⟩,
    h.outs, h.blk, h.st, h.lt⟩
  intro hh box hb km hkm
  simp only [W.upd, cacheAdd] at hb
  split at hb
  · rw [List.mem_map] at hb
    obtain ⟨y, hy, hy2⟩ := hb
    split at hy2
    · simp only [Prod.mk.injEq] at hy2
      obtain ⟨_, rfl⟩ := hy2
      rcases mem_inbox_add y.2 m km hkm with h1 | h1
      · exact rn.cache y.1 y.2 hy km h1
      · rw [h1]; exact hc
    · subst hy2; exact rn.cache _ _ hy km hkm
  · rw [List.mem_append] at hb
    rcases hb with hb | hb
    · exact rn.cache hh box hb km hkm
    · simp only [List.mem_singleton, Prod.mk.injEq] at hb
      obtain ⟨_, rfl⟩ := hb
      rcases mem_inbox_add {} m km hkm with h1 | h1
      · rcases h1 with h1 | h1 | h1 <;> cases h1
      · rw [h1]; exact hc

theorem good_or1Seen {e : Env} {as : State} {i : Nat} {w : W} (h : Good e as i w) (x : Hd) : Good e as i (or1Seen w x) := by
  unfold or1Seen
  split
  · split
    · exact good_upd h _ rfl rfl rfl rfl rfl rfl rfl rfl rfl id rfl
    · exact h
  · exact good_upd h _ rfl rfl rfl rfl rfl rfl rfl rfl rfl id rfl

theorem or1Seen_fields (w : W) (x : Hd) : (or1Seen w x).nd.bi = w.nd.bi ∧ (or1Seen w x).nd.blockProcessed = w.nd.blockProcessed := by
  unfold or1Seen
  split
  · split <;> exact ⟨rfl, rfl⟩
  · exact ⟨rfl, rfl⟩

/-- dbft.go:288-316 on the machine -/
theorem prog_or1Dispatch {e : Env} {as : State} {i : Nat} {k : W → Pl → W} {w : W} (hk : KOK e i k) (hb : BiK k)
    (h : Good e as i w) (m : Pl) (hx : m.hd.frm < e.n) (hxh : m.hd.h = w.nd.bi) (hc : Claims e as m) :
    Prog e i as (or1Dispatch k e w m) := by
  unfold or1Dispatch
  cases m with
  | recReq x => exact Prog.of_good (good_onRecoveryRequest h x)
  | cv x r =>
    simp only
    by_cases hbp : w.nd.blockProcessed = true
    · rw [if_pos hbp]; exact Prog.of_good h
    · rw [if_neg hbp]; exact prog_onChangeView hk h (by simpa using hbp) x r hx hxh hc
  | prepReq x p =>
    simp only
    by_cases hbp : w.nd.blockProcessed = true
    · rw [if_pos hbp]; exact Prog.of_good h
    · rw [if_neg hbp]; exact prog_onPrepareRequest hk h (by simpa using hbp) x p hx hxh hc
  | prepResp x p =>
    simp only
    by_cases hbp : w.nd.blockProcessed = true
    · rw [if_pos hbp]; exact Prog.of_good h
    · rw [if_neg hbp]; exact prog_onPrepareResponse h (by simpa using hbp) x p hx hxh hc
  | commit x b =>
    simp only
    by_cases hbp : w.nd.blockProcessed = true
    · rw [if_pos hbp]; exact Prog.of_good h
    · rw [if_neg hbp]; exact prog_onCommit h (by simpa using hbp) x b hx hxh hc
  | recMsg x r =>
    simp only
    by_cases hbp : w.nd.blockProcessed = true
    · rw [if_pos hbp]; exact Prog.of_good h
    · rw [if_neg hbp]; exact prog_onRecoveryMessage hk hb h x r hxh hc

/-- dbft.go:249-317 on the machine, one level -/
theorem prog_onReceive1 {e : Env} {as : State} {i : Nat} {k : W → Pl → W} {w : W} (hk : KOK e i k) (hb : BiK k)
    (h : Good e as i w) (m : Pl) (hc : Claims e as m) : Prog e i as (onReceive1 k e w m) := by
  rw [onReceive1_eq]
  have h0 : Good e as i { w with hints := w.hints.drop 1 } := ⟨h.g, h.rn, h.outs, h.blk, h.st, h.lt⟩
  by_cases h1 : m.hd.frm ≥ e.n
  · rw [if_pos h1]; exact Prog.of_good h
  rw [if_neg h1]
  by_cases h2 : m.hd.h < w.nd.bi
  · rw [if_pos h2]; exact Prog.of_good h0
  rw [if_neg h2]
  by_cases h3 : (decide (m.hd.h > w.nd.bi) || isFuture w.nd m) = true
  · rw [if_pos h3]; exact Prog.of_good (good_cacheAdd h0 m hc)
  rw [if_neg h3]
  have hh : m.hd.h = w.nd.bi := by
    simp only [Bool.or_eq_true, decide_eq_true_eq, not_or] at h3
    omega
  obtain ⟨f1, _⟩ := or1Seen_fields { w with hints := w.hints.drop 1 } m.hd
  exact prog_or1Dispatch hk hb (good_or1Seen h0 m.hd) m (by omega) (by rw [f1]; exact hh) hc

/-- dbft.go:249-317 on the machine: OnReceive at every recursion depth -/
theorem kok_onReceive (e : Env) (i : Nat) (fuel : Nat) : KOK e i (onReceive e fuel) := by
  induction fuel with
  | zero =>
    intro as w m h _
    exact Prog.of_good ⟨h.g, h.rn, h.outs, h.blk, h.st, h.lt⟩
  | succ f ih =>
    intro as w m h hc
    exact prog_onReceive1 ih (bi_onReceive e f) h m hc

end NeoModel.Dbft.Mach
