/-
Helper lemmas for C03: net effect of a block's write sequence, order independence of key-distinct batches.
-/
import NeoModel.Model.StateCommit
namespace NeoModel.StateCommit

/-- the last write to `k` in a batch, if any. -/
def lastWrite : List Change → Key → Option (Option Val)
  | [], _ => none
  | c :: rest, k =>
    match lastWrite rest k with
    | some v => some v
    | none => if c.1 = k then some c.2 else none

theorem applyBatch_eq_lastWrite (s : Storage) (b : List Change) (k : Key) :
    applyBatch s b k = (lastWrite b k).getD (s k) := by
  induction b generalizing s with
  | nil => rfl
  | cons c rest ih =>
    have : applyBatch s (c :: rest) = applyBatch (applyChange s c) rest := rfl
    rw [this, ih]
    simp only [lastWrite]
    cases h : lastWrite rest k with
    | some v => simp
    | none =>
      by_cases hk : c.1 = k
      · simp [applyChange, hk]
      · have : ¬ k = c.1 := fun e => hk e.symm
        simp [applyChange, hk, this]

theorem lastWrite_none_iff (b : List Change) (k : Key) :
    lastWrite b k = none ↔ ∀ c ∈ b, c.1 ≠ k := by
  induction b with
  | nil => simp [lastWrite]
  | cons c rest ih =>
    simp only [lastWrite]
    cases h : lastWrite rest k with
    | some v =>
      simp only [reduceCtorEq, false_iff]
      intro hall
      have := ih.mpr (fun d hd => hall d (by simp [hd]))
      rw [h] at this; cases this
    | none =>
      have hr := ih.mp h
      by_cases hk : c.1 = k
      · simp [hk]
      · simp only [hk, ↓reduceIte, true_iff]
        intro d hd
        cases hd with
        | head => exact hk
        | tail _ hd => exact hr d hd

/-- the net change set (`netOf`, one entry per key — the Go map of the block's private layer)
    has the same effect as the write sequence it summarises. -/
theorem lastWrite_netOf (ws : List Change) (k : Key) : lastWrite (netOf ws) k = lastWrite ws k := by
  induction ws with
  | nil => rfl
  | cons c rest ih =>
    simp only [netOf]
    split
    · rename_i hany
      rw [ih]
      simp only [lastWrite]
      cases h : lastWrite rest k with
      | some v => rfl
      | none =>
        have hr := (lastWrite_none_iff rest k).mp h
        by_cases hk : c.1 = k
        · exfalso
          simp only [List.any_eq_true, beq_iff_eq] at hany
          obtain ⟨d, hd, hdk⟩ := hany
          exact hr d hd (hdk.trans hk)
        · simp [hk]
    · simp only [lastWrite, ih]

theorem applyBatch_netOf (s : Storage) (ws : List Change) :
    applyBatch s (netOf ws) = applyBatch s ws := by
  funext k
  rw [applyBatch_eq_lastWrite, applyBatch_eq_lastWrite, lastWrite_netOf]

theorem netOf_subset (ws : List Change) : ∀ c ∈ netOf ws, c ∈ ws := by
  induction ws with
  | nil => simp [netOf]
  | cons c rest ih =>
    intro d hd
    simp only [netOf] at hd
    split at hd
    · exact List.mem_cons_of_mem _ (ih d hd)
    · cases hd with
      | head => simp
      | tail _ h => exact List.mem_cons_of_mem _ (ih d h)

theorem netOf_distinct (ws : List Change) : DistinctKeys (netOf ws) := by
  induction ws with
  | nil => simp [netOf, DistinctKeys]
  | cons c rest ih =>
    simp only [netOf]
    split
    · exact ih
    · rename_i hany
      simp only [DistinctKeys, List.pairwise_cons]
      refine ⟨?_, ih⟩
      intro d hd e
      apply hany
      simp only [List.any_eq_true, beq_iff_eq]
      exact ⟨d, netOf_subset rest d hd, e.symm⟩

/-- with pairwise distinct keys, the last write to `k` is THE entry for `k`. -/
theorem lastWrite_distinct_iff (b : List Change) (hd : DistinctKeys b) (k : Key) (v : Option Val) :
    lastWrite b k = some v ↔ (k, v) ∈ b := by
  induction b generalizing v with
  | nil => simp [lastWrite]
  | cons c rest ih =>
    simp only [DistinctKeys, List.pairwise_cons] at hd
    have ih' := ih hd.2
    simp only [lastWrite, List.mem_cons]
    cases h : lastWrite rest k with
    | some w =>
      have hw : (k, w) ∈ rest := (ih' w).mp h
      constructor
      · intro e; cases e; exact Or.inr hw
      · intro e
        cases e with
        | inl e => exact absurd (by rw [← e]) (hd.1 _ hw)
        | inr e => have := (ih' v).mpr e; rw [h] at this; exact this
    | none =>
      have hr := (lastWrite_none_iff rest k).mp h
      constructor
      · intro e
        by_cases hk : c.1 = k
        · simp only [hk, ↓reduceIte, Option.some.injEq] at e
          left; rw [← hk, ← e]
        · simp [hk] at e
      · intro e
        cases e with
        | inl e => rw [← e]; simp
        | inr e => exact absurd rfl (hr _ e)

/-- **order independence**: two key-distinct batches with the same entries (e.g. the Go map in
    iteration order and its sorted form produced by `MapToMPTBatch`) have the same effect. -/
theorem applyBatch_same_entries (s : Storage) (a b : List Change) (ha : DistinctKeys a) (hb : DistinctKeys b)
    (hab : ∀ c, c ∈ a ↔ c ∈ b) : applyBatch s a = applyBatch s b := by
  funext k
  rw [applyBatch_eq_lastWrite, applyBatch_eq_lastWrite]
  have : lastWrite a k = lastWrite b k := by
    cases h : lastWrite a k with
    | none =>
      have h1 := (lastWrite_none_iff a k).mp h
      exact ((lastWrite_none_iff b k).mpr (fun c hc => h1 c ((hab c).mpr hc))).symm
    | some v =>
      have := (lastWrite_distinct_iff a ha k v).mp h
      exact ((lastWrite_distinct_iff b hb k v).mpr ((hab _).mp this)).symm
  rw [this]

example : applyBatch (fun _ => none) (netOf [([1], some [1]), ([2], some [2]), ([1], none)]) [1] = none := by
  rw [applyBatch_netOf]; decide

end NeoModel.StateCommit
