/-
C13 — the integer instructions of the specification are the mathematical definition for EVERY
operand item. An operand is any `Item` whose implicit integer conversion `Item.toInteger` is defined
(Integer, Boolean 0/1, ByteString of at most 32 bytes read as little-endian two's complement); the
instruction FAULTs (`.error`) when an operand is not convertible or missing, and — the only other
FAULT of ADD/SUB/MUL/NEGATE/ABS/INC/DEC — exactly when the mathematical result leaves
[-2^255, 2^255).
-/
import NeoModel.Model.Vm
import NeoModel.Proofs.VmNum
open NeoModel NeoModel.Vm
namespace NeoModel.Vm.Spec

/-- push the integer `n` if it passes the 256-bit range check, FAULT otherwise. -/
def intResult (n : Int) (st : List Item) (h : Heap) : E Outcome :=
  match checkInt n with
  | some r => .ok (.next (.int r :: st) h)
  | none => .error "integer out of range"

/-- an outcome is a FAULT. -/
def isFault {α} : E α → Prop
  | .error _ => True
  | .ok _ => False

theorem inRange_iff (n : Int) : inRange n = true ↔ (-(2:Int)^255 ≤ n ∧ n < (2:Int)^255) := by
  simp [inRange]

theorem checkInt_of_inRange (n : Int) (h : inRange n = true) : checkInt n = some ⟨n, h⟩ := by
  unfold checkInt; simp [h]

theorem checkInt_of_not (n : Int) (h : ¬ inRange n = true) : checkInt n = none := by
  unfold checkInt; simp [h]

/-- `intResult` pushes exactly `n` iff `n` is within 256 bits … -/
theorem intResult_ok_iff (n : Int) (st : List Item) (h : Heap) :
    (∃ r : Int256, intResult n st h = .ok (.next (.int r :: st) h) ∧ r.val = n) ↔
      (-(2:Int)^255 ≤ n ∧ n < (2:Int)^255) := by
  rw [← inRange_iff]
  constructor
  · rintro ⟨r, _, hr⟩; rw [← hr]; exact r.property
  · intro hn; exact ⟨⟨n, hn⟩, by simp [intResult, checkInt_of_inRange n hn], rfl⟩

/-- … and FAULTs iff it is not. -/
theorem intResult_fault_iff (n : Int) (st : List Item) (h : Heap) :
    isFault (intResult n st h) ↔ ¬ (-(2:Int)^255 ≤ n ∧ n < (2:Int)^255) := by
  rw [← inRange_iff]
  by_cases hn : inRange n = true
  · simp [intResult, checkInt_of_inRange n hn, isFault, hn]
  · simp [intResult, checkInt_of_not n hn, isFault, hn]

theorem intResult_inRange (n : Int) (hn : inRange n = true) (st : List Item) (h : Heap) :
    intResult n st h = .ok (.next (.int ⟨n, hn⟩ :: st) h) := by
  simp [intResult, checkInt_of_inRange n hn]

theorem pushIntE_eq (n : Int) (st : List Item) (h : Heap) : pushIntE n st h = intResult n st h := by
  unfold pushIntE mkInt intResult next1
  cases checkInt n <;> rfl

/-- every implicit integer conversion yields a 256-bit integer. -/
theorem toInteger_inRange (x : Item) (n : Int) (h : x.toInteger = some n) : inRange n = true := by
  cases x with
  | bool b => cases b <;> simp [Item.toInteger] at h <;> subst h <;> decide
  | int m => simp [Item.toInteger] at h; subst h; exact m.property
  | bytes b =>
    simp only [Item.toInteger] at h
    split at h
    · simp at h
    · rename_i hl
      simp at h; subst h
      exact fromBytes_inRange b (by simp [maxIntBytes] at hl; omega)
  | _ => simp [Item.toInteger] at h

/-! ### popping operands -/

theorem popInt_cons (a : Item) (st : List Item) (x : Int) (ha : a.toInteger = some x) :
    popInt (a :: st) = .ok (x, st) := by
  simp [popInt, popE, optE, ha, bind, Except.bind, pure, Except.pure]

theorem popInt_cons_none (a : Item) (st : List Item) (ha : a.toInteger = none) :
    popInt (a :: st) = .error "not an integer" := by
  simp [popInt, popE, optE, ha, bind, Except.bind]

theorem popInt_nil : popInt [] = .error "stack underflow" := rfl

theorem binop_spec (f : Int → Int → E Int) (a b : Item) (x y : Int) (ha : a.toInteger = some x)
    (hb : b.toInteger = some y) (st : List Item) (h : Heap) :
    binop f (b :: a :: st) h = (f x y).bind fun r => intResult r st h := by
  simp only [binop, popInt_cons b _ y hb, popInt_cons a _ x ha, bind, Except.bind, pushIntE_eq]

theorem unop_spec (f : Int → E Int) (a : Item) (x : Int) (ha : a.toInteger = some x)
    (st : List Item) (h : Heap) :
    unop f (a :: st) h = (f x).bind fun r => intResult r st h := by
  simp only [unop, popInt_cons a _ x ha, bind, Except.bind, pushIntE_eq]

theorem binop_fault (f : Int → Int → E Int) (a b : Item) (st : List Item) (h : Heap)
    (hab : a.toInteger = none ∨ b.toInteger = none) : isFault (binop f (b :: a :: st) h) := by
  cases hb : b.toInteger with
  | none => simp [binop, popInt_cons_none b _ hb, bind, Except.bind, isFault]
  | some y =>
    have ha : a.toInteger = none := by rcases hab with h1 | h1 <;> simp_all
    simp [binop, popInt_cons b _ y hb, popInt_cons_none a _ ha, bind, Except.bind, isFault]

theorem binop_underflow (f : Int → Int → E Int) (st : List Item) (h : Heap) (hl : st.length < 2) :
    isFault (binop f st h) := by
  cases st with
  | nil => simp [binop, popInt_nil, bind, Except.bind, isFault]
  | cons b t =>
    cases t with
    | nil =>
      cases hb : b.toInteger with
      | none => simp [binop, popInt_cons_none b _ hb, bind, Except.bind, isFault]
      | some y => simp [binop, popInt_cons b _ y hb, popInt_nil, bind, Except.bind, isFault]
    | cons c t2 => simp at hl; omega

theorem unop_fault (f : Int → E Int) (a : Item) (st : List Item) (h : Heap) (ha : a.toInteger = none) :
    isFault (unop f (a :: st) h) := by
  simp [unop, popInt_cons_none a _ ha, bind, Except.bind, isFault]

/-! ### ADD SUB MUL -/

/-- **arith_spec.** ADD / SUB / MUL on any two operands convertible to integers `x`, `y` push the exact
mathematical `x+y`, `x-y`, `x*y` if it lies in [-2^255, 2^255) and FAULT otherwise. -/
theorem arith_spec (a b : Item) (x y : Int) (ha : a.toInteger = some x) (hb : b.toInteger = some y)
    (st : List Item) (h : Heap) :
    execPure .add [] (b :: a :: st) h = intResult (x + y) st h ∧
    execPure .sub [] (b :: a :: st) h = intResult (x - y) st h ∧
    execPure .mul [] (b :: a :: st) h = intResult (x * y) st h := by
  refine ⟨?_, ?_, ?_⟩ <;>
  · simp only [execPure]
    rw [binop_spec _ a b x y ha hb]; rfl

example : execPure .add [] [.bytes [0xff, 0x7f], .bool true] #[] =
    .ok (.next [.int ⟨32768, by decide⟩] #[]) := by decide +kernel

/-- ADD FAULTs exactly when the sum leaves the range (same for SUB, MUL). -/
theorem add_fault_iff (a b : Item) (x y : Int) (ha : a.toInteger = some x) (hb : b.toInteger = some y)
    (st : List Item) (h : Heap) :
    (isFault (execPure .add [] (b :: a :: st) h) ↔ ¬ (-(2:Int)^255 ≤ x + y ∧ x + y < (2:Int)^255)) ∧
    (isFault (execPure .sub [] (b :: a :: st) h) ↔ ¬ (-(2:Int)^255 ≤ x - y ∧ x - y < (2:Int)^255)) ∧
    (isFault (execPure .mul [] (b :: a :: st) h) ↔ ¬ (-(2:Int)^255 ≤ x * y ∧ x * y < (2:Int)^255)) := by
  obtain ⟨h1, h2, h3⟩ := arith_spec a b x y ha hb st h
  rw [h1, h2, h3]
  exact ⟨intResult_fault_iff _ _ _, intResult_fault_iff _ _ _, intResult_fault_iff _ _ _⟩

/-- a non-convertible operand (Null, Buffer, Array, Struct, Map, Pointer, InteropInterface, or a
ByteString longer than 32 bytes) or a missing operand FAULTs every binary integer instruction. -/
theorem binary_type_fault (a b : Item) (st : List Item) (h : Heap)
    (hab : a.toInteger = none ∨ b.toInteger = none) :
    isFault (execPure .add [] (b :: a :: st) h) ∧ isFault (execPure .sub [] (b :: a :: st) h) ∧
    isFault (execPure .mul [] (b :: a :: st) h) ∧ isFault (execPure .div [] (b :: a :: st) h) ∧
    isFault (execPure .mod [] (b :: a :: st) h) ∧ isFault (execPure .and [] (b :: a :: st) h) ∧
    isFault (execPure .or [] (b :: a :: st) h) ∧ isFault (execPure .xor [] (b :: a :: st) h) ∧
    isFault (execPure .min [] (b :: a :: st) h) ∧ isFault (execPure .max [] (b :: a :: st) h) ∧
    isFault (execPure .pow [] (b :: a :: st) h) := by
  refine ⟨?_, ?_, ?_, ?_, ?_, ?_, ?_, ?_, ?_, ?_, ?_⟩ <;>
  · simp only [execPure]; exact binop_fault _ a b st h hab

theorem binary_underflow (st : List Item) (h : Heap) (hl : st.length < 2) :
    isFault (execPure .add [] st h) ∧ isFault (execPure .sub [] st h) ∧ isFault (execPure .mul [] st h) ∧
    isFault (execPure .div [] st h) ∧ isFault (execPure .mod [] st h) := by
  refine ⟨?_, ?_, ?_, ?_, ?_⟩ <;>
  · simp only [execPure]; exact binop_underflow _ st h hl

example : isFault (execPure .add [] [.null, .int ⟨1, by decide⟩] #[]) ∧
    isFault (execPure .mul [] [.int ⟨1, by decide⟩, .bytes (List.replicate 33 0)] #[]) := by
  exact ⟨(binary_type_fault _ _ _ _ (Or.inr rfl)).1,
    (binary_type_fault _ _ _ _ (Or.inl (by simp [Item.toInteger, maxIntBytes]))).2.2.1⟩

/-! ### NEGATE ABS INC DEC SIGN -/

/-- **unary_spec.** NEGATE, ABS, INC, DEC push `-x`, `|x|`, `x+1`, `x-1` if in range and FAULT
otherwise; SIGN pushes `Int.sign x` and never FAULTs. -/
theorem unary_spec (a : Item) (x : Int) (ha : a.toInteger = some x) (st : List Item) (h : Heap) :
    execPure .negate [] (a :: st) h = intResult (-x) st h ∧
    execPure .abs [] (a :: st) h = intResult (x.natAbs : Int) st h ∧
    execPure .inc [] (a :: st) h = intResult (x + 1) st h ∧
    execPure .dec [] (a :: st) h = intResult (x - 1) st h ∧
    execPure .sign [] (a :: st) h = intResult (Int.sign x) st h := by
  refine ⟨?_, ?_, ?_, ?_, ?_⟩
  · simp only [execPure]; rw [unop_spec _ a x ha]; rfl
  · simp only [execPure]; rw [unop_spec _ a x ha]
    have : (if x < 0 then -x else x) = (x.natAbs : Int) := by split <;> omega
    simp only [Except.bind, this]
  · simp only [execPure]; rw [unop_spec _ a x ha]; rfl
  · simp only [execPure]; rw [unop_spec _ a x ha]; rfl
  · simp only [execPure]; rw [unop_spec _ a x ha]
    have : (if x < 0 then (-1 : Int) else if x = 0 then 0 else 1) = Int.sign x := by
      rcases Int.lt_trichotomy x 0 with hx | hx | hx
      · simp [hx, Int.sign_eq_neg_one_of_neg hx]
      · simp [hx]
      · have h1 : ¬ x < 0 := by omega
        have h2 : ¬ x = 0 := by omega
        simp [h1, h2, Int.sign_eq_one_of_pos hx]
    simp only [Except.bind, this]

theorem sign_inRange (x : Int) : inRange (Int.sign x) = true := by
  rcases Int.lt_trichotomy x 0 with hx | hx | hx
  · rw [Int.sign_eq_neg_one_of_neg hx]; decide
  · rw [hx]; decide
  · rw [Int.sign_eq_one_of_pos hx]; decide

/-- SIGN never FAULTs on a convertible operand. -/
theorem sign_never_faults (a : Item) (x : Int) (ha : a.toInteger = some x) (st : List Item) (h : Heap) :
    execPure .sign [] (a :: st) h = .ok (.next (.int ⟨Int.sign x, sign_inRange x⟩ :: st) h) := by
  rw [(unary_spec a x ha st h).2.2.2.2, intResult_inRange]

/-- exact FAULT conditions of the unary instructions on a convertible operand: NEGATE and ABS FAULT
only on −2^255, INC only on 2^255−1, DEC only on −2^255. -/
theorem unary_fault_iff (a : Item) (x : Int) (ha : a.toInteger = some x) (st : List Item) (h : Heap) :
    (isFault (execPure .negate [] (a :: st) h) ↔ x = -(2:Int)^255) ∧
    (isFault (execPure .abs [] (a :: st) h) ↔ x = -(2:Int)^255) ∧
    (isFault (execPure .inc [] (a :: st) h) ↔ x = (2:Int)^255 - 1) ∧
    (isFault (execPure .dec [] (a :: st) h) ↔ x = -(2:Int)^255) := by
  have hx := (inRange_iff x).mp (toInteger_inRange a x ha)
  obtain ⟨h1, h2, h3, h4, _⟩ := unary_spec a x ha st h
  rw [h1, h2, h3, h4]
  simp only [intResult_fault_iff]
  refine ⟨by omega, by omega, by omega, by omega⟩

theorem unary_type_fault (a : Item) (st : List Item) (h : Heap) (ha : a.toInteger = none) :
    isFault (execPure .negate [] (a :: st) h) ∧ isFault (execPure .abs [] (a :: st) h) ∧
    isFault (execPure .inc [] (a :: st) h) ∧ isFault (execPure .dec [] (a :: st) h) ∧
    isFault (execPure .sign [] (a :: st) h) ∧ isFault (execPure .invert [] (a :: st) h) ∧
    isFault (execPure .sqrt [] (a :: st) h) := by
  refine ⟨?_, ?_, ?_, ?_, ?_, ?_, ?_⟩ <;>
  · simp only [execPure]; exact unop_fault _ a st h ha

example : isFault (execPure .negate [] [.int ⟨-(2:Int)^255, by decide⟩] #[]) ∧
    execPure .abs [] [.bytes [0x80]] #[] = .ok (.next [.int ⟨128, by decide⟩] #[]) := by
  constructor
  · exact ((unary_fault_iff _ _ rfl _ _).1).mpr rfl
  · decide +kernel

end NeoModel.Vm.Spec
