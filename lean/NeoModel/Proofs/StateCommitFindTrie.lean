/-
C03 helper lemmas (2): `TrieStore.Seek` over a trie whose keys are byte strings is a correct
`storage.Store` backend for ranges under the storage prefix: it enumerates exactly the pairs of the
map the trie stands for, in the byte order of the keys (C09's `IsSpecSeek`), for every prefix, start
and direction. Bridges C10 (nibble paths, `Mpt.seek_spec`) to C09 (byte keys).
-/
import NeoModel.Model.StateCommit.Find
import NeoModel.Proofs.StoreSeekSpec
import NeoModel.Proofs.MptSeek
import NeoModel.Proofs.MptKeys
namespace NeoModel.StateCommit.Find
open NeoModel.Store (SeekRange KV IsSpecSeek SpecMap lexLt lexLe ltDir)
open NeoModel.Mpt (Path Nib Node toNibbles fromNibbles pathLt isPre stripPre under entries lookup)

/-! ### bytes ↔ nibbles -/

theorem lexLt_eq_bytesLt (a b : Bytes) : lexLt a b = Mpt.bytesLt a b := by
  induction a generalizing b with
  | nil => cases b <;> rfl
  | cons x xs ih =>
    cases b with
    | nil => rfl
    | cons y ys => simp only [lexLt, Mpt.bytesLt, ih]

theorem pathLt_toNibbles' (a b : Bytes) : pathLt (toNibbles a) (toNibbles b) = lexLt a b := by
  rw [Mpt.pathLt_toNibbles, lexLt_eq_bytesLt]

theorem fromNibbles_toNibbles (k : Bytes) : fromNibbles (toNibbles k) = k := by
  induction k with
  | nil => rfl
  | cons b bs ih =>
    simp only [toNibbles, fromNibbles, ih, List.cons.injEq, and_true]
    apply UInt8.toNat_inj.mp
    have := b.toNat_lt
    simp only [UInt8.toNat_ofNat']
    omega

/-- a byte key whose nibbles start with the nibbles of `p` starts with `p`. -/
theorem toNibbles_split (p : Bytes) : ∀ (k : Bytes) (r : Path), toNibbles p ++ r = toNibbles k →
    ∃ k', k = p ++ k' ∧ r = toNibbles k' := by
  induction p with
  | nil => intro k r h; exact ⟨k, rfl, by simpa [toNibbles] using h⟩
  | cons x xs ih =>
    intro k r h
    cases k with
    | nil => simp [toNibbles] at h
    | cons y ys =>
      simp only [toNibbles, List.cons_append, List.cons.injEq, Fin.mk.injEq] at h
      obtain ⟨h1, h2, h3⟩ := h
      have hxy : x = y := by
        apply UInt8.toNat_inj.mp
        omega
      obtain ⟨k', hk, hr⟩ := ih ys r h3
      exact ⟨k', by rw [hxy, hk]; rfl, hr⟩

theorem isPre_toNibbles (a b : Bytes) : isPre (toNibbles a) (toNibbles b) = true ↔ a <+: b := by
  rw [Mpt.isPre_iff]
  constructor
  · rintro ⟨r, hr⟩
    obtain ⟨k', hk, _⟩ := toNibbles_split a b r hr.symm
    exact ⟨k', hk.symm⟩
  · rintro ⟨k', rfl⟩
    exact ⟨toNibbles k', Mpt.toNibbles_append a k'⟩

/-! ### the contents of a trie below a prefix -/

theorem mem_under (t : Node) (pre r : Path) (v : Mpt.Val) :
    (r, v) ∈ under t pre ↔ lookup t (pre ++ r) = some v := by
  unfold under
  simp only [List.mem_filterMap, Option.map_eq_some_iff, Prod.mk.injEq]
  constructor
  · rintro ⟨e, he, r', hr', rfl, rfl⟩
    have := Mpt.stripPre_eq_some.mp hr'
    rw [← this]
    exact (Mpt.mem_entries t e.1 e.2).mp he
  · intro hl
    exact ⟨(pre ++ r, v), (Mpt.mem_entries t _ _).mpr hl, r, Mpt.stripPre_append pre r, rfl, rfl⟩

theorem under_sorted (t : Node) (pre : Path) :
    (under t pre).Pairwise (fun a b => pathLt a.1 b.1 = true) := by
  unfold under
  refine List.Pairwise.filterMap _ ?_ (Mpt.entries_sorted t)
  intro a a' hlt b hb b' hb'
  simp only [Option.map_eq_some_iff] at hb hb'
  obtain ⟨r, hr, rfl⟩ := hb
  obtain ⟨r', hr', rfl⟩ := hb'
  have e1 := Mpt.stripPre_eq_some.mp hr
  have e2 := Mpt.stripPre_eq_some.mp hr'
  rw [e1, e2, Mpt.pathLt_append_left] at hlt
  exact hlt

/-- every key of the trie is the nibble path of a byte string (what `MapToMPTBatch` feeds it). -/
def ByteKeyed (t : Node) : Prop := ∀ p v, lookup t p = some v → ∃ k, p = toNibbles k

/-- the map a TrieStore stands for: `sp ‖ key ↦ trie[key]` for both storage prefixes `sp`
(STStorage 0x70, STTempStorage 0x71: trie_store.go:43-51 and 70-73 treat them alike), nothing else. -/
def trieFlat (t : Node) : SpecMap := fun k =>
  match k with
  | [] => none
  | b :: k' => if b = 0x70 ∨ b = 0x71 then lookup t (toNibbles k') else none

theorem under_bytes (t : Node) (hbk : ByteKeyed t) (p : Bytes) (r : Path) (v : Mpt.Val)
    (h : (r, v) ∈ under t (toNibbles p)) : ∃ k', r = toNibbles k' := by
  obtain ⟨k, hk⟩ := hbk _ _ ((mem_under t _ r v).mp h)
  obtain ⟨k', _, hr⟩ := toNibbles_split p k r hk
  exact ⟨k', hr⟩

/-- C10's range predicate on nibble paths is C09's on byte keys. -/
theorem inRange_bridge (rng : SeekRange) (k' : Bytes) :
    Mpt.inRange rng.bw (toNibbles rng.start) (toNibbles k') = true ↔
      (rng.start = [] ∨
        (if rng.bw then lexLe (rng.pfx ++ k') (rng.pfx ++ rng.start) = true ∨ (rng.pfx ++ rng.start) <+: (rng.pfx ++ k')
         else lexLe (rng.pfx ++ rng.start) (rng.pfx ++ k') = true)) := by
  by_cases hs : rng.start = []
  · simp [hs, toNibbles, Mpt.inRange_nil]
  · simp only [hs, false_or]
    unfold Mpt.inRange
    rw [Store.lexLe_append_left, Store.lexLe_append_left, List.prefix_append_right_inj]
    cases hb : rng.bw
    · simp [lexLe, pathLt_toNibbles']
    · simp only [if_true, Bool.or_eq_true, Bool.not_eq_true']
      rw [isPre_toNibbles, pathLt_toNibbles']
      simp [lexLe]

/-- **TrieStore.Seek is a correct backend** (trie_store.go:69-118 over the C10 traversal): for a
byte-keyed trie, every non-empty prefix, every start and direction, it enumerates exactly the pairs
`sp ‖ key ↦ value` of the trie in range, strictly ordered by `bytes.Compare` in the direction of
the scan. -/
theorem trieStoreSeek_spec (t : Node) (hbk : ByteKeyed t) (rng : SeekRange) (hp : rng.pfx ≠ []) :
    IsSpecSeek (trieFlat t) rng (trieStoreSeek t rng) := by
  cases hpfx : rng.pfx with
  | nil => exact absurd hpfx hp
  | cons sp p =>
  by_cases hsp : sp = 0x70 ∨ sp = 0x71
  case neg =>
    have hg : sp ≠ 0x70 ∧ sp ≠ 0x71 := ⟨fun e => hsp (Or.inl e), fun e => hsp (Or.inr e)⟩
    unfold trieStoreSeek
    simp only [hpfx]
    rw [if_pos hg]
    refine ⟨List.Pairwise.nil, ?_⟩
    intro k v
    simp only [List.not_mem_nil, false_iff, not_and]
    intro hf hr
    unfold Store.inRange at hr
    rw [hpfx] at hr
    obtain ⟨rest, rfl⟩ := hr.1
    simp [trieFlat, hsp] at hf
  case pos =>
  have hguard : ¬ (sp ≠ 0x70 ∧ sp ≠ 0x71) := by
    rcases hsp with h | h <;> simp [h]
  unfold trieStoreSeek
  simp only [hpfx, hguard, if_false]
  rw [Mpt.seek_spec]
  -- abbreviations
  generalize hU : under t (toNibbles p) = U
  have hUs : U.Pairwise (fun a b => pathLt a.1 b.1 = true) := hU ▸ under_sorted t _
  have hUb : ∀ e ∈ U, ∃ k', e.1 = toNibbles k' := by
    intro e he; subst hU
    exact under_bytes t hbk p e.1 e.2 he
  have hUm : ∀ r v, (r, v) ∈ U ↔ lookup t (toNibbles p ++ r) = some v := by
    intro r v; subst hU; exact mem_under t _ r v
  let P : Path × Mpt.Val → Bool := fun e => Mpt.inRange rng.bw (toNibbles rng.start) e.1
  let g : Path × Mpt.Val → KV := fun e => (sp :: p ++ fromNibbles e.1, e.2)
  have hFs : (U.filter P).Pairwise (fun a b => lexLt (g a).1 (g b).1 = true) := by
    have h1 : (U.filter P).Pairwise (fun a b => pathLt a.1 b.1 = true) := hUs.sublist List.filter_sublist
    refine List.Pairwise.imp_of_mem ?_ h1
    intro a b ha hb hlt
    obtain ⟨ka, hka⟩ := hUb a (List.mem_filter.mp ha).1
    obtain ⟨kb, hkb⟩ := hUb b (List.mem_filter.mp hb).1
    show lexLt (sp :: p ++ fromNibbles a.1) (sp :: p ++ fromNibbles b.1) = true
    rw [hka, hkb, fromNibbles_toNibbles, fromNibbles_toNibbles]
    rw [hka, hkb, pathLt_toNibbles'] at hlt
    rw [Store.lexLt_append_left]; exact hlt
  refine ⟨?_, ?_⟩
  · -- order
    show ((Mpt.dir rng.bw (U.filter P)).map g).Pairwise _
    rw [List.pairwise_map]
    unfold Mpt.dir
    cases hb : rng.bw
    · simpa [ltDir, hb] using hFs
    · simp only [if_true, ltDir]
      rw [List.pairwise_reverse]
      exact hFs
  · -- membership
    intro k v
    have hmem : (k, v) ∈ (Mpt.dir rng.bw (U.filter P)).map g ↔ ∃ e ∈ U.filter P, g e = (k, v) := by
      unfold Mpt.dir
      split <;> simp
    show (k, v) ∈ (Mpt.dir rng.bw (U.filter P)).map g ↔ _
    rw [hmem]
    unfold Store.inRange
    rw [hpfx]
    constructor
    · rintro ⟨⟨r, w⟩, he, hg⟩
      have heU := (List.mem_filter.mp he).1
      have hP : P (r, w) = true := (List.mem_filter.mp he).2
      obtain ⟨k', hk'⟩ := hUb _ heU
      simp only at hk'
      subst hk'
      simp only [g, fromNibbles_toNibbles, Prod.mk.injEq] at hg
      obtain ⟨rfl, rfl⟩ := hg
      refine ⟨?_, ⟨k', by simp⟩, ?_⟩
      · show trieFlat t (sp :: (p ++ k')) = some w
        simp only [trieFlat, hsp, if_true]
        rw [Mpt.toNibbles_append]
        exact (hUm _ _).mp heU
      · have := (inRange_bridge rng k').mp hP
        rw [hpfx] at this
        simpa using this
    · rintro ⟨hf, ⟨k', hk'⟩, hr⟩
      subst hk'
      have hl : lookup t (toNibbles p ++ toNibbles k') = some v := by
        have : trieFlat t (sp :: (p ++ k')) = some v := by simpa using hf
        simp only [trieFlat, hsp, if_true] at this
        rwa [Mpt.toNibbles_append] at this
      refine ⟨(toNibbles k', v), List.mem_filter.mpr ⟨(hUm _ _).mpr hl, ?_⟩, ?_⟩
      · apply (inRange_bridge rng k').mpr
        rw [hpfx]
        simpa using hr
      · simp [g, fromNibbles_toNibbles]

end NeoModel.StateCommit.Find
