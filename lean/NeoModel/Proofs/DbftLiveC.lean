/- C19 helper lemmas: synchronous round, phases C (commits) and D (acceptance). -/
import NeoModel.Proofs.DbftLiveB
namespace NeoModel.Dbft

/-- Phase C: every validator in `L` signs the block and its Commit reaches everybody. -/
theorem phaseC (c : Cfg) (h : Nat) (b : Block) (hbh : b.h = h) (hbv : b.v = 0) :
    ∀ (L : List Nat), L.Nodup → ∀ (s : State),
      (∀ i, i < c.n → (s.nodes i).height = h ∧ (s.nodes i).view = 0 ∧
        Item.prepReq (c.primary h 0) b ∈ (s.nodes i).known ∧
        ∀ j, j < c.n → prepared (s.nodes i).known b j = true) →
      (∀ j, j ∈ L → j < c.n ∧ ∀ x, x ∈ (s.nodes j).myCommits → x.h < h) →
      ∃ s', run c s (L.flatMap (fun j => Action.sendCommit j b :: deliverAll c j (.item (.commit j b)))) = some s' ∧
        Ext s s' ∧ (∀ i, (s'.nodes i).myPreps = (s.nodes i).myPreps) ∧
        (∀ i, i ∉ L → (s'.nodes i).myCommits = (s.nodes i).myCommits) ∧
        (∀ i x, x ∈ (s'.nodes i).myCommits → x ∈ (s.nodes i).myCommits ∨ x = b) ∧
        (∀ j, j ∈ L → ∀ i, i < c.n → Item.commit j b ∈ (s'.nodes i).known) := by
  intro L
  induction L with
  | nil =>
    intro _ s _ _
    exact ⟨s, by simp [run], Ext.refl s, fun _ => rfl, fun _ _ => rfl, fun _ _ hx => Or.inl hx, fun _ hj => by simp at hj⟩
  | cons j L ih =>
    intro hnd s hmid hfresh
    obtain ⟨hjL, hndL⟩ := List.nodup_cons.mp hnd
    obtain ⟨hjn, hjf⟩ := hfresh j List.mem_cons_self
    obtain ⟨hjh, hjv, hjr, hjp⟩ := hmid j hjn
    have en : Enabled c s (.sendCommit j b) := by
      refine ⟨hjn, by rw [hbh, hjh], by rw [hbv, hjv], by rw [hbh, hbv]; exact hjr, ?_, ?_⟩
      · rw [countP_all c.n _ hjp]; exact m_le_n c
      · intro x hx hc; have := hjf x hx; omega
    let ndj : Node := { s.nodes j with known := addKnown (s.nodes j).known (.commit j b), myCommits := b :: (s.nodes j).myCommits }
    let s1 : State := ⟨learnL (upd s.nodes j ndj) [.commit j b] (others c j), s.net⟩
    have hrun1 : run c s (.sendCommit j b :: deliverAll c j (.item (.commit j b))) = some s1 :=
      run_macro c s _ j _ _ en rfl
    have hcore : ∀ i, SameCore (s1.nodes i) (upd s.nodes j ndj i) := fun i => learnL_core _ _ _ i
    obtain ⟨hkn, hall⟩ := macro_known c s.nodes j ndj [.commit j b]
      (fun it hit => mem_addKnown.mpr (Or.inr hit))
      (fun it hit => by simp at hit; subst hit; exact mem_addKnown.mpr (Or.inl rfl))
    have hupd : ∀ i, i ≠ j → upd s.nodes j ndj i = s.nodes i := fun i hi => upd_other _ _ _ hi
    have hext1 : Ext s s1 := by
      refine ⟨fun i => ?_, fun i => ?_, fun i => ?_, hkn, rfl⟩
      · rw [(hcore i).1]; by_cases hi : i = j
        · subst hi; rw [upd_same]
        · rw [hupd i hi]
      · rw [(hcore i).2.1]; by_cases hi : i = j
        · subst hi; rw [upd_same]
        · rw [hupd i hi]
      · rw [(hcore i).2.2.1]; by_cases hi : i = j
        · subst hi; rw [upd_same]
        · rw [hupd i hi]
    have hpp1 : ∀ i, (s1.nodes i).myPreps = (s.nodes i).myPreps := by
      intro i; rw [(hcore i).2.2.2.1]; by_cases hi : i = j
      · subst hi; rw [upd_same]
      · rw [hupd i hi]
    have hcm1 : ∀ i, i ≠ j → (s1.nodes i).myCommits = (s.nodes i).myCommits := by
      intro i hi; rw [(hcore i).2.2.2.2, hupd i hi]
    have hcmj : (s1.nodes j).myCommits = b :: (s.nodes j).myCommits := by
      rw [(hcore j).2.2.2.2, upd_same]
    have hmid1 : ∀ i, i < c.n → (s1.nodes i).height = h ∧ (s1.nodes i).view = 0 ∧
        Item.prepReq (c.primary h 0) b ∈ (s1.nodes i).known ∧
        ∀ k, k < c.n → prepared (s1.nodes i).known b k = true := by
      intro i hi
      obtain ⟨a1, a2, a3, a4⟩ := hmid i hi
      refine ⟨by rw [hext1.hgt]; exact a1, by rw [hext1.vw]; exact a2, hext1.kn i _ a3, ?_⟩
      intro k hk
      have := a4 k hk
      simp only [prepared, Bool.or_eq_true, decide_eq_true_eq] at this ⊢
      rcases this with t | t
      · exact Or.inl (hext1.kn i _ t)
      · exact Or.inr (hext1.kn i _ t)
    have hfresh1 : ∀ k, k ∈ L → k < c.n ∧ ∀ x, x ∈ (s1.nodes k).myCommits → x.h < h := by
      intro k hk
      obtain ⟨b1, b3⟩ := hfresh k (List.mem_cons_of_mem _ hk)
      have hkj : k ≠ j := fun e => hjL (e ▸ hk)
      exact ⟨b1, by rw [hcm1 k hkj]; exact b3⟩
    obtain ⟨s', hrun', hext', hpp', hcm', hcmb', hresp'⟩ := ih hndL s1 hmid1 hfresh1
    refine ⟨s', ?_, hext1.trans hext', fun i => (hpp' i).trans (hpp1 i), ?_, ?_, ?_⟩
    · rw [List.flatMap_cons, run_append, hrun1]; exact hrun'
    · intro i hi
      have hij : i ≠ j := fun e => hi (e ▸ List.mem_cons_self)
      have hiL : i ∉ L := fun e => hi (List.mem_cons_of_mem _ e)
      rw [hcm' i hiL, hcm1 i hij]
    · intro i x hx
      rcases hcmb' i x hx with hx1 | hx1
      · by_cases hij : i = j
        · subst hij; rw [hcmj] at hx1
          rcases List.mem_cons.mp hx1 with e | m
          · exact Or.inr e
          · exact Or.inl m
        · rw [hcm1 i hij] at hx1; exact Or.inl hx1
      · exact Or.inr hx1
    · intro k hk i hi
      rcases List.mem_cons.mp hk with e | m
      · subst e; exact hext'.kn i _ (hall i hi _ (by simp))
      · exact hresp' k m i hi

/-- Phase D: every validator in `L` collects the block. -/
theorem phaseD (c : Cfg) (h : Nat) (b : Block) (hbh : b.h = h) (hbv : b.v = 0) :
    ∀ (L : List Nat), L.Nodup → ∀ (s : State),
      (∀ i, i ∈ L → i < c.n ∧ (s.nodes i).height = h ∧ (s.nodes i).view = 0 ∧
        Item.prepReq (c.primary h 0) b ∈ (s.nodes i).known ∧
        ∀ j, j < c.n → committed (s.nodes i).known b j = true) →
      ∃ s', run c s (L.map (fun i => Action.accept i b)) = some s' ∧ s'.net = s.net ∧
        (∀ i, i ∈ L → s'.nodes i = nextHeight (s.nodes i) b) ∧
        (∀ i, i ∉ L → s'.nodes i = s.nodes i) := by
  intro L
  induction L with
  | nil => intro _ s _; exact ⟨s, by simp [run], rfl, fun _ hi => by simp at hi, fun _ _ => rfl⟩
  | cons j L ih =>
    intro hnd s hpre
    obtain ⟨hjL, hndL⟩ := List.nodup_cons.mp hnd
    obtain ⟨hjn, hjh, hjv, hjr, hjc⟩ := hpre j List.mem_cons_self
    have en : Enabled c s (.accept j b) := by
      refine ⟨hjn, by rw [hbh, hjh], by rw [hbv, hjv], by rw [hbh, hbv]; exact hjr, ?_⟩
      rw [countP_all c.n _ hjc]; exact m_le_n c
    let s1 : State := apply c s (.accept j b)
    have hs1 : ∀ i, i ≠ j → s1.nodes i = s.nodes i := fun i hi => upd_other _ _ _ hi
    have hs1j : s1.nodes j = nextHeight (s.nodes j) b := upd_same _ _ _
    have hpre1 : ∀ i, i ∈ L → i < c.n ∧ (s1.nodes i).height = h ∧ (s1.nodes i).view = 0 ∧
        Item.prepReq (c.primary h 0) b ∈ (s1.nodes i).known ∧
        ∀ k, k < c.n → committed (s1.nodes i).known b k = true := by
      intro i hi
      have hij : i ≠ j := fun e => hjL (e ▸ hi)
      rw [hs1 i hij]; exact hpre i (List.mem_cons_of_mem _ hi)
    obtain ⟨s', hrun', hnet', hin', hout'⟩ := ih hndL s1 hpre1
    refine ⟨s', ?_, hnet'.trans rfl, ?_, ?_⟩
    · simp only [List.map_cons]; rw [run_cons_enabled _ en]; exact hrun'
    · intro i hi
      rcases List.mem_cons.mp hi with e | m
      · subst e; rw [hout' i hjL, hs1j]
      · have hij : i ≠ j := fun e => hjL (e ▸ m)
        rw [hin' i m, hs1 i hij]
    · intro i hi
      have hij : i ≠ j := fun e => hi (e ▸ List.mem_cons_self)
      have hiL : i ∉ L := fun e => hi (List.mem_cons_of_mem _ e)
      rw [hout' i hiL, hs1 i hij]

end NeoModel.Dbft
