/-
C20 (b) helper lemmas: the pool reconstruction on restart returns exactly the pending set; the invariant
holds over batches and restarts.
-/
import NeoModel.Proofs.StateSyncTraverse
namespace NeoModel.StateSync

variable (db : Hash → Option SNode) (root : Hash)

/-- In a clean module state the pending set is: reachable through stored nodes, not stored itself. -/
theorem pool_iff_desc (wf : WF db root) (s : MS) (hi : Inv db root s) (hcl : Clean s) (x : Hash × Path) :
    x ∈ s.pool ↔ Desc db s.refs (root, []) x ∧ s.refs x.1 = 0 := by
  have stored : ∀ y ∈ s.done, 0 < s.refs y.1 := by
    intro y hy
    rw [hi.refsEq]
    exact List.length_pos_of_mem (a := y) (by simp [hy])
  -- every restored or pending position is reached through stored nodes
  have up : ∀ h p, Pos db root h p → ((h, p) ∈ s.pool ∨ (h, p) ∈ s.done) → Desc db s.refs (root, []) (h, p) := by
    intro h p hp
    induction hp with
    | root => intro _; exact .refl _
    | kid hpar hn hk ih =>
      rename_i h' p' n' k'
      intro hin
      have hparent : (h', p') ∈ s.done := by
        have hpp : (k'.2, p' ++ k'.1) = (root, []) ∨ ∃ y ∈ s.done, IsKidOf db (k'.2, p' ++ k'.1) y := by
          rcases hin with h1 | h1
          · exact hi.poolParent _ h1
          · exact hi.doneParent _ h1
        rcases hpp with hr | ⟨y, hy, n2, k2, hn2, hk2, he⟩
        · exact absurd hr (wf.rootNotKid h' p' n' k' hpar hn hk)
        · have := wf.uniqueParent h' p' n' k' y.1 y.2 n2 k2 hpar (hi.donePos _ hy) hn hn2 hk hk2 he
          have : y = (h', p') := Prod.ext this.1.symm this.2.symm
          rw [← this]; exact hy
      exact (ih (.inr hparent)).tail db s.refs (stored _ hparent) ⟨n', k', hn, hk, rfl⟩
  -- everything reached through stored nodes is restored or pending
  have down : ∀ a d, Desc db s.refs a d → (a ∈ s.pool ∨ a ∈ s.done) → (d ∈ s.pool ∨ d ∈ s.done) := by
    intro a d hd
    induction hd with
    | refl => exact id
    | @head a' k' d' hs hk _ ih =>
      intro hin
      apply ih
      have : a' ∈ s.done := by
        rcases hin with h1 | h1
        · have := hcl _ h1; omega
        · exact h1
      exact hi.closed _ this _ hk
  constructor
  · intro hx
    exact ⟨up x.1 x.2 (hi.poolPos _ hx) (.inl hx), hcl _ hx⟩
  · rintro ⟨hd, h0⟩
    rcases down _ _ hd hi.rootIn with h1 | h1
    · exact h1
    · have := stored _ h1; omega

/-- The pool reconstruction of `defineSyncStage` returns exactly the pending set of the uninterrupted
module (and a duplicate-free list). -/
theorem rebuild_pool (wf : WF db root) (rk : Hash → Nat) (hrk : Ranked db rk) (fuel : Nat) (s : MS)
    (hi : Inv db root s) (hcl : Clean s) (hf : ∀ h m, db h = some m → rk h < fuel) :
    (∀ x, x ∈ (rebuild db fuel root s).pool ↔ x ∈ s.pool) ∧ (rebuild db fuel root s).pool.Nodup := by
  have hst : ∀ c, 0 < s.refs c → ∃ n, db c = some n := stored_in_db db root wf s hi
  -- the root is a trie node unless nothing is stored at all
  have hj0 : J db root s.refs [(root, [])] (fun _ => False) :=
    ⟨fun _ _ h => h, fun _ h => h.elim,
     fun x hx => by
       rcases hx with hx | hx
       · simp at hx; subst hx; exact ⟨Pos.root, .inl rfl⟩
       · exact hx.elim,
     by simp⟩
  show (∀ x, x ∈ traverse db s.refs fuel [(root, [])] root [] ↔ x ∈ s.pool) ∧
    (traverse db s.refs fuel [(root, [])] root []).Nodup
  by_cases hroot : s.refs root = 0
  · -- nothing below an unstored root is visited
    have : traverse db s.refs fuel [(root, [])] root [] = [(root, [])] := by
      cases fuel with
      | zero => rfl
      | succ f => rw [traverse_succ]; simp [hroot]
    rw [this]
    refine ⟨fun x => ?_, by simp⟩
    rw [pool_iff_desc db root wf s hi hcl]
    constructor
    · intro hx; simp at hx; subst hx; exact ⟨.refl _, hroot⟩
    · rintro ⟨hd, _⟩
      rw [desc_unstored db s.refs _ _ hroot hd]; simp
  · obtain ⟨n, hn⟩ := hst root (by omega)
    obtain ⟨Q, hj, _, hpost⟩ := traverse_spec db root s.refs wf rk hrk hst fuel [(root, [])] (fun _ => False)
      root [] hj0 (.inl (by simp)) (hf root n hn)
    refine ⟨fun x => ?_, hj.nodup⟩
    rw [pool_iff_desc db root wf s hi hcl]
    constructor
    · intro hx
      -- a pending position of the traversal hangs below processed ones up to the root
      have upT : ∀ h p, Pos db root h p →
          ((h, p) ∈ traverse db s.refs fuel [(root, [])] root [] ∨ Q (h, p)) → Desc db s.refs (root, []) (h, p) := by
        intro h p hp
        induction hp with
        | root => intro _; exact .refl _
        | kid hpar hn' hk ih =>
          rename_i h' p' n' k'
          intro hin
          rcases (hj.par _ hin).2 with hr | ⟨y, hy, n2, k2, hn2, hk2, he⟩
          · exact absurd hr (wf.rootNotKid h' p' n' k' hpar hn' hk)
          · have := wf.uniqueParent h' p' n' k' y.1 y.2 n2 k2 hpar (hj.par _ (.inr hy)).1 hn' hn2 hk hk2 he
            have hyq : y = (h', p') := Prod.ext this.1.symm this.2.symm
            rw [hyq] at hy
            exact (ih (.inr hy)).tail db s.refs (hj.done _ hy).1 ⟨n', k', hn', hk, rfl⟩
      have hd := upT x.1 x.2 (hj.par _ (.inl hx)).1 (.inl hx)
      refine ⟨hd, ?_⟩
      cases hr : s.refs x.1 with
      | zero => rfl
      | succ m => exact absurd ((hpost x hd).2 (by omega)) (hj.disj _ hx)
    · rintro ⟨hd, h0⟩
      rcases (hpost x hd).1 with h1 | h1
      · exact h1
      · have := (hj.done _ h1).1; omega

theorem inv_of_pool_eq (s : MS) (P : Pool) (hi : Inv db root s) (he : ∀ x, x ∈ P ↔ x ∈ s.pool) (hn : P.Nodup) :
    Inv db root { s with pool := P } :=
  ⟨fun x hx => hi.poolPos x ((he x).1 hx), hi.donePos, hn, hi.doneNodup,
   fun x hx => hi.disj x ((he x).1 hx),
   by rcases hi.rootIn with h | h
      · exact .inl ((he _).2 h)
      · exact .inr h,
   fun x hx y hk => by
     rcases hi.closed x hx y hk with h | h
     · exact .inl ((he _).2 h)
     · exact .inr h,
   fun x hx => hi.poolParent x ((he x).1 hx), hi.doneParent, hi.refsEq, hi.tempEq⟩

def EvOk : Ev → Prop
  | .batch items => ∀ it ∈ items, ItemOk db it
  | .restart => True

theorem inv_runEvs (wf : WF db root) (rk : Hash → Nat) (hrk : Ranked db rk) (fuel : Nat)
    (hf : ∀ h m, db h = some m → rk h < fuel) (s : MS) (evs : List Ev)
    (hi : Inv db root s) (hcl : Clean s) (hok : ∀ e ∈ evs, EvOk db e) :
    Inv db root (runEvs db fuel root s evs) ∧ Clean (runEvs db fuel root s evs) := by
  unfold runEvs
  induction evs generalizing s with
  | nil => exact ⟨hi, hcl⟩
  | cons e r ih =>
    simp only [List.foldl_cons]
    have hr : ∀ e ∈ r, EvOk db e := fun e he => hok e (by simp [he])
    cases e with
    | batch items =>
      have hk : ∀ it ∈ items, ItemOk db it := hok (.batch items) (by simp)
      exact ih _ (inv_deliver db root wf fuel s items hi hk)
        (clean_deliver db root wf rk hrk fuel s items hi hk hf hcl) hr
    | restart =>
      obtain ⟨he, hn⟩ := rebuild_pool db root wf rk hrk fuel s hi hcl hf
      refine ih _ (inv_of_pool_eq db root s _ hi he hn) ?_ hr
      intro x hx
      exact hcl x ((he x).1 hx)

end NeoModel.StateSync
