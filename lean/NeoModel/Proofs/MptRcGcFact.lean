/-
C11: the predicate of the garbage collection as the source has it (regenerated AST fact) and as numbers.
-/
import NeoModel.Generated.GcCompare
import NeoModel.Model.MptRc
import NeoModel.Proofs.MptRcRun
namespace NeoModel.MptRc
open NeoModel.Generated

/-- what the source of `stateroot.Module.GC` says (regenerated from /repo's syntax tree on every run,
harness/cmd/extract/gccompare.go): the callback handed to `store.SeekGC` tests `!mpt.IsActiveValue(v)`,
DECODES the last four bytes with `binary.LittleEndian.Uint32` and compares the number with `h <= index`;
a record goes (`return false, true`) only inside both tests. This is the model's `gc`
(`.rc _ false n` kept iff `g < n`, numbers compared). -/
theorem gc_source_fact :
    GcCompare.callee = "store.SeekGC" ∧
    GcCompare.conds = ["!mpt.IsActiveValue(v)", "h <= index"] ∧
    GcCompare.assigns = ["h := binary.LittleEndian.Uint32(v[len(v)-4:])"] ∧
    GcCompare.returns = ["return false, true", "return true, true"] := by decide

/-- the stored height: 4 bytes little-endian (`binary.LittleEndian.PutUint32`). -/
def le32b (n : Nat) : List Nat := [n % 256, n / 256 % 256, n / 65536 % 256, n / 16777216 % 256]

/-- `binary.LittleEndian.Uint32`. -/
def decLE32 : List Nat → Nat
  | [a, b, c, d] => a + 256 * b + 65536 * c + 16777216 * d
  | _ => 0

theorem decLE32_le32b (n : Nat) (h : n < 4294967296) : decLE32 (le32b n) = n := by
  simp only [le32b, decLE32]; omega

/-- lexicographic comparison of byte strings (`bytes.Compare(a, b) <= 0`). -/
def lexLe : List Nat → List Nat → Bool
  | [], _ => true
  | _ :: _, [] => false
  | a :: as, b :: bs => if a < b then true else if b < a then false else lexLe as bs

/-- the collection's predicate on the stored bytes is the NUMERIC comparison of the decoded height:
for heights and indices that fit 32 bits, `decode(le32 h) ≤ g ↔ h ≤ g` — what the model's `gc` uses. -/
theorem gc_predicate_numeric (h g : Nat) (hh : h < 4294967296) : (decLE32 (le32b h) ≤ g) ↔ h ≤ g := by
  rw [decLE32_le32b h hh]

/-- … and it is NOT the bytewise comparison of the encodings (seed C11-m8): the node deactivated at
256 compares below the index 255 bytewise (it would be collected although the root of 255 needs it),
the node deactivated at 255 compares above the index 256 (it would stay forever). -/
theorem bytewise_is_not_numeric :
    lexLe (le32b 256) (le32b 255) = true ∧ ¬ (256 ≤ 255) ∧
    lexLe (le32b 255) (le32b 256) = false ∧ 255 ≤ 256 ∧
    lexLe (le32b 65536) (le32b 65535) = true := by decide

end NeoModel.MptRc
