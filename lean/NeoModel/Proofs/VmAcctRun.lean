/-
C12 proofs, part 7: every reachable state of the accounting machine satisfies the invariant.
-/
import NeoModel.Proofs.VmAcctKindsS
namespace NeoModel.VmAcct

/-- the side conditions under which the per-instruction accounting lemmas are proved: map keys are
primitives and a map's children come in pairs (`SOp.okFor`). They are NOT hypotheses of the final
theorems: `okFor_of_step` derives them from the Map shape invariant (Proofs/VmAcctKinds*.lean), which
every reachable state satisfies. -/
def Op.okFor (op : Op) (s : St) : Prop :=
  match op with
  | .s sop => sop.core = true ∧ sop.okFor s.w
  | _ => True

theorem exec_inv {s : St} {lk : List Item} (op : Op) (hok : op.okFor s) (inv : InvS s lk) (r : Res) (h : exec op s = some r) :
    ∃ lk', InvS r.s lk' ∧ (∀ x, r.raised = some x → WfItem r.s.c.heap x) ∧ s.c.heap.length ≤ r.s.c.heap.length ∧
      (Acyclic s.c.heap → s.base = [] → lk' = lk) := by
  have fromPost : PostS s lk r → ∃ lk', InvS r.s lk' ∧ (∀ x, r.raised = some x → WfItem r.s.c.heap x) ∧
      s.c.heap.length ≤ r.s.c.heap.length ∧ (Acyclic s.c.heap → s.base = [] → lk' = lk) := fun p => by
    obtain ⟨lk', i, hl⟩ := p.ex
    exact ⟨lk', i, p.raised, p.len, fun ha _ => hl ha⟩
  cases op with
  | s sop => exact fromPost (exec_s_inv sop hok.1 hok.2 inv r h)
  | nop => exact fromPost (exec_nop_inv inv r h)
  | initsslot n => exact fromPost (exec_initsslot_inv n inv r h)
  | initslot l a => exact fromPost (exec_initslot_inv l a inv r h)
  | ld k i => exact fromPost (exec_ld_inv k i inv r h)
  | st k i => exact fromPost (exec_st_inv k i inv r h)
  | call p => exact fromPost (exec_call_inv p inv r h)
  | load m a => exact fromPost (exec_load_inv m a inv r h)
  | throw_ => exact fromPost (exec_throw_inv inv r h)
  | endfinally => exact fromPost (exec_endfinally_inv inv r h)
  | ret =>
    obtain ⟨lk', i, hr, hl, hb⟩ := exec_ret_inv inv r h
    exact ⟨lk', i, (by intro x hx; rw [hr] at hx; cases hx), hl, fun _ hbase => hb hbase⟩

/-- one step: the leaked list does not grow as long as no cyclic structure exists (exception unwinding
releases what it drops) -/
theorem step_inv {s s' : St} {lk : List Item} (op : Op) (unw : Option (Nat × Bool)) (ext : Bool) (hok : op.okFor s)
    (inv : InvS s lk) (h : step s op unw ext = some s') :
    ∃ lk', InvS s' lk' ∧ (Acyclic s.c.heap → s.base = [] → lk' = lk) := by
  simp only [step] at h
  split at h
  · cases h
  · cases he : exec op s with
    | none => simp [he] at h
    | some r =>
      simp only [he] at h
      obtain ⟨lk1, i1, hraised, _, hac⟩ := exec_inv op hok inv r he
      cases hr : r.raised with
      | none =>
        simp only [hr] at h
        split at h
        · cases h
        · simp only [Option.some.injEq] at h
          subst h
          exact ⟨lk1, i1, hac⟩
      | some x =>
        cases hu : unw with
        | none => simp [hr, hu] at h
        | some p =>
          obtain ⟨k, c⟩ := p
          simp only [hr, hu] at h
          cases hw : unwind r.s x k c with
          | none => simp [hw] at h
          | some s2 =>
            simp only [hw] at h
            split at h
            · cases h
            · simp only [Option.some.injEq] at h
              subst h
              obtain ⟨i2, _⟩ := unwind_inv x k c i1 (hraised x hr) hw
              exact ⟨lk1, i2, hac⟩

/-- the side conditions hold for every instruction that the machine executes without faulting in a
state that satisfies the Map shape invariant -/
theorem okFor_of_step {s s' : St} (op : Op) (unw : Option (Nat × Bool)) (ext : Bool) (g : MapInv s)
    (h : step s op unw ext = some s') : op.okFor s := by
  cases op with
  | s sop =>
    refine ⟨by cases sop <;> rfl, ?_⟩
    simp only [step] at h
    split at h
    · cases h
    · cases he : exec (.s sop) s with
      | none => simp [he] at h
      | some r =>
        simp only [exec] at he
        cases hx : execS sop s.w with
        | none => simp [hx] at he
        | some out => exact okFor_of_mapInv sop g out hx
  | _ => trivial

/-- runs of the accounting machine: ANY sequence of instructions, resolved arguments, unwinding
outcomes and external faults (no side condition) -/
inductive Run : St → Prop where
  | init : Run St.init
  | step {s s' : St} (op : Op) (unw : Option (Nat × Bool)) (ext : Bool) :
      Run s → step s op unw ext = some s' → Run s'

theorem init_inv : InvS St.init [] := by
  refine ⟨⟨?_, ?_, ?_⟩, ?_⟩
  · intro j x d hx; simp [St.init, chOf] at hx
  · intro id; simp [St.init, rcOf, St.roots, Frame.roots, slotItems, heldCnt]
  · simp [St.init, St.roots, Frame.roots, slotItems, heldLen]
  · intro x hx; simp [St.init] at hx

/-- every reachable state satisfies the Map shape invariant: every Map's children come in
key/value pairs with primitive keys, every compound has one kind -/
theorem run_mapInv {s : St} (h : Run s) : MapInv s := by
  induction h with
  | init => exact init_mapInv
  | step op unw ext _ hs ih => exact step_mapInv op unw ext ih hs

theorem run_inv {s : St} (h : Run s) : ∃ lk, InvS s lk := by
  induction h with
  | init => exact ⟨[], init_inv⟩
  | step op unw ext hr hs ih =>
    obtain ⟨lk, i⟩ := ih
    obtain ⟨lk', i', _⟩ := step_inv op unw ext (okFor_of_step op unw ext (run_mapInv hr) hs) i hs
    exact ⟨lk', i'⟩

/-- **refs_sound**: in every state the accounting machine reaches, what is reachable by walking does
not exceed the implementation's counter. -/
theorem refs_sound {s : St} (h : Run s) : (s.reach : Int) ≤ s.c.refs := by
  obtain ⟨lk, i⟩ := run_inv h
  exact reach_le_refs s.c s.roots lk (i.ctr.congr (by intro id; simp) (by simp))

end NeoModel.VmAcct

namespace NeoModel.VmAcct

/-- runs in which no cyclic structure was ever built -/
inductive RunExact : St → Prop where
  | init : RunExact St.init
  | step {s s' : St} (op : Op) (unw : Option (Nat × Bool)) (ext : Bool) :
      RunExact s → Acyclic s.c.heap →
      step s op unw ext = some s' → RunExact s'

theorem RunExact.run {s : St} (h : RunExact s) : Run s := by
  induction h with
  | init => exact Run.init
  | step op unw ext _ _ hs ih => exact Run.step op unw ext ih hs

end NeoModel.VmAcct
