/-
Helper lemmas for C04: copy-on-write of the native caches over the DAO layers (heap model of
Model/Exec.lean `CStack`): what GetRWCache guarantees (`rwRef_spec`), what a cache update does
(`write_spec`), and the theorems native_cache_cow / native_cache_persist.
-/
import NeoModel.Model.Exec
namespace NeoModel.Exec

def lrefs (l : CLayer) : List Nat := l.map (·.2)
def allRefs : List CLayer → List Nat
  | [] => []
  | l :: rest => lrefs l ++ allRefs rest

/-- no cell is referenced twice (no aliasing between layers or ids), all cells are allocated. -/
def CInv (ls : List CLayer) (n : Nat) : Prop := (allRefs ls).Nodup ∧ ∀ r ∈ allRefs ls, r < n

def readL (ls : List CLayer) (h : Nat → Nat) (id : Nat) : Option Nat := (roRef ls id).map h

/-- the two stacks have the same depth and show the same values at every depth. -/
def Agree : List CLayer → (Nat → Nat) → List CLayer → (Nat → Nat) → Prop
  | [], _, [], _ => True
  | l :: r, h, l' :: r', h' => (∀ id, readL (l :: r) h id = readL (l' :: r') h' id) ∧ Agree r h r' h'
  | _, _, _, _ => False

theorem clookup_mem {l : CLayer} {id : Nat} {r : Nat} (h : clookup l id = some r) : r ∈ lrefs l := by
  induction l with
  | nil => simp [clookup] at h
  | cons p rest ih =>
    obtain ⟨k, r0⟩ := p
    simp only [clookup] at h
    split at h
    · cases h; simp [lrefs]
    · simp only [lrefs, List.map_cons, List.mem_cons]; exact Or.inr (ih h)

theorem roRef_mem {ls : List CLayer} {id : Nat} {r : Nat} (h : roRef ls id = some r) : r ∈ allRefs ls := by
  induction ls with
  | nil => simp [roRef] at h
  | cons l rest ih =>
    simp only [roRef] at h
    simp only [allRefs, List.mem_append]
    cases hc : clookup l id with
    | some r0 => rw [hc] at h; cases h; exact Or.inl (clookup_mem hc)
    | none => rw [hc] at h; exact Or.inr (ih h)

theorem readL_congr {ls : List CLayer} {h h' : Nat → Nat} (hh : ∀ r ∈ allRefs ls, h' r = h r) (id : Nat) :
    readL ls h' id = readL ls h id := by
  unfold readL
  cases hr : roRef ls id with
  | none => rfl
  | some r => simp [hh r (roRef_mem hr)]

theorem agree_refl (ls : List CLayer) (h : Nat → Nat) : Agree ls h ls h := by
  induction ls with
  | nil => trivial
  | cons l r ih => exact ⟨fun _ => rfl, ih⟩

theorem agree_congr {ls ls' : List CLayer} {h h' h'' : Nat → Nat} (ha : Agree ls h ls' h')
    (hh : ∀ r ∈ allRefs ls', h'' r = h' r) : Agree ls h ls' h'' := by
  induction ls generalizing ls' with
  | nil => cases ls' <;> simp_all [Agree]
  | cons l r ih =>
    cases ls' with
    | nil => simp [Agree] at ha
    | cons l' r' =>
      obtain ⟨h1, h2⟩ := ha
      refine ⟨fun id => ?_, ih h2 (fun x hx => hh x ?_)⟩
      · rw [h1 id]; exact (readL_congr hh id).symm
      · simp only [allRefs, List.mem_append]; exact Or.inr hx

theorem cinv_tail {l : CLayer} {rest : List CLayer} {n : Nat} (h : CInv (l :: rest) n) : CInv rest n := by
  obtain ⟨h1, h2⟩ := h
  simp only [allRefs] at h1 h2
  exact ⟨(List.nodup_append.mp h1).2.1, fun r hr => h2 r (List.mem_append.mpr (Or.inr hr))⟩

/-- everything `GetRWCache` guarantees. -/
def RwSpec (ls : List CLayer) (h : Nat → Nat) (n : Nat) (id : Nat)
    (out : List CLayer × (Nat → Nat) × Nat × Option Nat) : Prop :=
  CInv out.1 out.2.2.1 ∧ n ≤ out.2.2.1 ∧ Agree ls h out.1 out.2.1 ∧ (∀ r, r < n → out.2.1 r = h r) ∧
  (∀ r ∈ allRefs out.1, r ∈ allRefs ls ∨ (n ≤ r ∧ r < out.2.2.1)) ∧
  (∀ r, out.2.2.2 = some r → ∃ l' rest', out.1 = l' :: rest' ∧ clookup l' id = some r) ∧
  (out.2.2.2 = none → roRef ls id = none)

theorem rwRef_spec (ls : List CLayer) : ∀ (h : Nat → Nat) (n : Nat) (id : Nat), CInv ls n →
    RwSpec ls h n id (rwRef ls h n id) := by
  induction ls with
  | nil =>
    intro h n id hi
    simp only [rwRef, RwSpec]
    exact ⟨hi, Nat.le_refl _, trivial, fun _ _ => trivial, fun r hr => Or.inl hr, (fun r hr => by cases hr), fun _ => rfl⟩
  | cons l rest ih =>
    intro h n id hi
    simp only [rwRef]
    cases hc : clookup l id with
    | some r =>
      simp only [RwSpec]
      exact ⟨hi, Nat.le_refl _, agree_refl _ _, fun _ _ => trivial, fun r hr => Or.inl hr,
        (fun r' hr' => ⟨l, rest, rfl, by cases hr'; exact hc⟩), fun hn => by cases hn⟩
    | none =>
      simp only
      have hit := cinv_tail hi
      have hs := ih h n id hit
      obtain ⟨hi1, hi2⟩ := hi
      simp only [allRefs] at hi1 hi2
      have hnd := List.nodup_append.mp hi1
      generalize hout : rwRef rest h n id = out at hs
      obtain ⟨rest', h', n', res⟩ := out
      obtain ⟨s1, s2, s3, s4, s5, s6, s7⟩ := hs
      simp only at s1 s2 s3 s4 s5 s6 s7
      have hlb : ∀ r ∈ lrefs l, r < n := fun r hr => hi2 r (List.mem_append.mpr (Or.inl hr))
      -- the refs of `l` stay apart from those of rest'
      have hdisj : ∀ a ∈ lrefs l, ∀ b ∈ allRefs rest', a ≠ b := by
        intro a ha b hb
        rcases s5 b hb with hb1 | hb2
        · exact hnd.2.2 a ha b hb1
        · intro e; have := hlb a ha; omega
      have htop : ∀ id'', clookup l id'' = none → readL (l :: rest) h id'' = readL rest h id'' := by
        intro id'' hn; simp [readL, roRef, hn]
      cases res with
      | none =>
        simp only [RwSpec]
        refine ⟨⟨?_, ?_⟩, s2, ⟨?_, s3⟩, s4, ?_, (fun r hr => by cases hr), fun _ => by simp [roRef, hc, s7 rfl]⟩
        · simp only [allRefs]
          exact List.nodup_append.mpr ⟨hnd.1, s1.1, hdisj⟩
        · intro r hr
          simp only [allRefs, List.mem_append] at hr
          rcases hr with hr | hr
          · exact Nat.lt_of_lt_of_le (hlb r hr) s2
          · exact s1.2 r hr
        · intro id''
          cases hc2 : clookup l id'' with
          | some r2 =>
            simp only [readL, roRef, hc2, Option.map]
            rw [s4 r2 (hlb r2 (clookup_mem hc2))]
          | none =>
            simp only [readL, roRef, hc2]
            cases rest with
            | nil => cases rest' <;> simp_all [Agree, roRef]
            | cons a b =>
              cases rest' with
              | nil => simp [Agree] at s3
              | cons a' b' => exact s3.1 id''
        · intro r hr
          simp only [allRefs, List.mem_append] at hr ⊢
          rcases hr with hr | hr
          · exact Or.inl (Or.inl hr)
          · rcases s5 r hr with h1 | h2
            · exact Or.inl (Or.inr h1)
            · exact Or.inr h2
      | some r =>
        obtain ⟨l', rest'', hre, hcl⟩ := s6 r rfl
        have hrmem : r ∈ allRefs rest' := by
          rw [hre]; simp only [allRefs, List.mem_append]; exact Or.inl (clookup_mem hcl)
        have hrlt : r < n' := s1.2 r hrmem
        simp only [RwSpec]
        have hfresh : ∀ b ∈ allRefs rest', b ≠ n' := fun b hb e => by have := s1.2 b hb; omega
        have hh'' : ∀ x ∈ allRefs rest', (fun x => if x = n' then h' r else h' x) x = h' x := by
          intro x hx; simp [hfresh x hx]
        refine ⟨⟨?_, ?_⟩, by omega, ⟨?_, agree_congr s3 hh''⟩, ?_, ?_, ?_, fun hn => by cases hn⟩
        · simp only [allRefs, lrefs, List.map_cons, List.cons_append]
          refine List.nodup_cons.mpr ⟨?_, List.nodup_append.mpr ⟨hnd.1, s1.1, hdisj⟩⟩
          intro hm
          rcases List.mem_append.mp hm with hm | hm
          · have := hlb n' hm; omega
          · exact hfresh n' hm rfl
        · intro x hx
          simp only [allRefs, lrefs, List.map_cons, List.cons_append, List.mem_cons, List.mem_append] at hx
          rcases hx with hx | hx | hx
          · omega
          · have := hlb x hx; omega
          · have := s1.2 x hx; omega
        · intro id''
          by_cases hid : id = id''
          · subst hid
            have h1 : readL (l :: rest) h id = readL rest h id := htop id hc
            have h2 : readL rest h id = readL rest' h' id := by
              cases rest with
              | nil => rw [hre] at s3; simp [Agree] at s3
              | cons a b => rw [hre] at s3 ⊢; exact s3.1 id
            have h3 : readL rest' h' id = some (h' r) := by
              rw [hre]; simp [readL, roRef, hcl]
            rw [h1, h2, h3]
            simp [readL, roRef, clookup]
          · cases hc2 : clookup l id'' with
            | some r2 =>
              have hr2 := hlb r2 (clookup_mem hc2)
              have : r2 ≠ n' := by omega
              simp only [readL, roRef, clookup, hid, if_false, hc2, Option.map, this]
              rw [s4 r2 hr2]
            | none =>
              have h1 : readL (l :: rest) h id'' = readL rest h id'' := htop id'' hc2
              rw [h1]
              simp only [readL, roRef, clookup, hid, if_false, hc2]
              have h2 : Option.map (fun x => if x = n' then h' r else h' x) (roRef rest' id'') = readL rest' h' id'' :=
                readL_congr (ls := rest') hh'' id''
              rw [h2]
              cases rest with
              | nil => rw [hre] at s3; simp [Agree] at s3
              | cons a b => rw [hre] at s3 ⊢; exact s3.1 id''
        · intro x hx
          have : x ≠ n' := by omega
          simp only [this, if_false]
          exact s4 x hx
        · intro x hx
          simp only [allRefs, lrefs, List.map_cons, List.cons_append, List.mem_cons, List.mem_append] at hx ⊢
          rcases hx with hx | hx | hx
          · exact Or.inr ⟨by omega, by omega⟩
          · exact Or.inl (Or.inl hx)
          · rcases s5 x hx with h1 | h2
            · exact Or.inl (Or.inr h1)
            · exact Or.inr ⟨h2.1, by omega⟩
        · intro x hx
          cases hx
          exact ⟨(id, n') :: l, rest', rfl, by simp [clookup]⟩

end NeoModel.Exec

namespace NeoModel.Exec

def CStack.inv (st : CStack) : Prop := CInv st.layers st.next

theorem agree_top {ls ls' : List CLayer} {h h' : Nat → Nat} (ha : Agree ls h ls' h') (id : Nat) :
    readL ls h id = readL ls' h' id := by
  cases ls with
  | nil => cases ls' <;> simp_all [Agree, readL, roRef]
  | cons l r =>
    cases ls' with
    | nil => simp [Agree] at ha
    | cons l' r' => exact ha.1 id

theorem agree_tail {ls ls' : List CLayer} {h h' : Nat → Nat} (ha : Agree ls h ls' h') :
    Agree ls.tail h ls'.tail h' := by
  cases ls with
  | nil => cases ls' <;> simp_all [Agree]
  | cons l r =>
    cases ls' with
    | nil => simp [Agree] at ha
    | cons l' r' => exact ha.2

theorem agree_trans {a b c : List CLayer} {h1 h2 h3 : Nat → Nat} (h12 : Agree a h1 b h2) (h23 : Agree b h2 c h3) :
    Agree a h1 c h3 := by
  induction a generalizing b c with
  | nil => cases b <;> cases c <;> simp_all [Agree]
  | cons l r ih =>
    cases b with
    | nil => simp [Agree] at h12
    | cons l2 r2 =>
      cases c with
      | nil => simp [Agree] at h23
      | cons l3 r3 => exact ⟨fun id => (h12.1 id).trans (h23.1 id), ih h12.2 h23.2⟩

theorem clookup_ne {l : CLayer} {id id' : Nat} {r r' : Nat} (hn : (lrefs l).Nodup) (hid : id ≠ id')
    (h1 : clookup l id = some r) (h2 : clookup l id' = some r') : r ≠ r' := by
  induction l with
  | nil => simp [clookup] at h1
  | cons p rest ih =>
    obtain ⟨k, r0⟩ := p
    simp only [lrefs, List.map_cons, List.nodup_cons] at hn
    simp only [clookup] at h1 h2
    by_cases hk : k = id
    · subst hk
      simp only [if_true] at h1
      have hk' : ¬ k = id' := hid
      simp only [hk', if_false] at h2
      cases h1
      intro e; subst e
      exact hn.1 (clookup_mem h2)
    · simp only [hk, if_false] at h1
      by_cases hk' : k = id'
      · simp only [hk', if_true] at h2
        cases h2
        intro e; subst e
        exact hn.1 (clookup_mem h1)
      · simp only [hk', if_false] at h2
        exact ih hn.2 h1 h2

/-- a cache update at ic.DAO: invariant kept, every layer below ic.DAO shows what it showed, other
    ids show what they showed, the written id shows the new value. -/
theorem write_spec (st : CStack) (id v : Nat) (hi : st.inv) :
    (st.write id v).inv ∧
    Agree st.layers.tail st.heap (st.write id v).layers.tail (st.write id v).heap ∧
    (∀ id', id' ≠ id → (st.write id v).read id' = st.read id') ∧
    (st.read id ≠ none → (st.write id v).read id = some v) := by
  have hs := rwRef_spec st.layers st.heap st.next id hi
  unfold CStack.write
  generalize rwRef st.layers st.heap st.next id = out at hs
  obtain ⟨ls, h, n, res⟩ := out
  obtain ⟨s1, s2, s3, s4, s5, s6, s7⟩ := hs
  simp only at s1 s2 s3 s4 s5 s6 s7
  cases res with
  | none =>
    simp only
    refine ⟨s1, agree_tail s3, fun id' _ => (agree_top s3 id').symm, fun hne => ?_⟩
    -- the id is not cached anywhere (cannot happen for an initialised native): reads stay `none`
    exfalso
    apply hne
    simp [CStack.read, s7 rfl]
  | some r =>
    simp only
    obtain ⟨l', rest', hre, hcl⟩ := s6 r rfl
    subst hre
    have hnd := List.nodup_append.mp s1.1
    have hrl : r ∈ lrefs l' := clookup_mem hcl
    have hrn : ∀ x ∈ allRefs rest', (fun x => if x = r then v else h x) x = h x := by
      intro x hx
      have : x ≠ r := fun e => hnd.2.2 r hrl x hx e.symm
      simp [this]
    refine ⟨s1, ?_, ?_, fun _ => ?_⟩
    · exact agree_trans (agree_tail s3) (agree_congr (agree_refl rest' h) hrn)
    · intro id' hid
      show readL (l' :: rest') _ id' = readL st.layers st.heap id'
      rw [agree_top s3 id']
      unfold readL
      cases hro : roRef (l' :: rest') id' with
      | none => rfl
      | some r2 =>
        have : r2 ≠ r := by
          simp only [roRef] at hro
          cases hc2 : clookup l' id' with
          | some r3 =>
            rw [hc2] at hro; cases hro
            exact clookup_ne hnd.1 hid hc2 hcl
          | none =>
            rw [hc2] at hro
            intro e; subst e
            exact hnd.2.2 r2 hrl r2 (roRef_mem hro) rfl
        simp [this]
    · show readL (l' :: rest') _ id = some v
      simp [readL, roRef, hcl]

end NeoModel.Exec

namespace NeoModel.Exec

theorem push_inv (st : CStack) (hi : st.inv) : st.push.inv := by
  unfold CStack.inv CStack.push CInv at *
  simpa [allRefs, lrefs] using hi

/-- several cache updates at ic.DAO. -/
def CStack.writes (st : CStack) (ws : List (Nat × Nat)) : CStack := ws.foldl (fun s w => s.write w.1 w.2) st

theorem writes_spec (ws : List (Nat × Nat)) : ∀ (st : CStack), st.inv →
    (st.writes ws).inv ∧ Agree st.layers.tail st.heap (st.writes ws).layers.tail (st.writes ws).heap := by
  induction ws with
  | nil => intro st hi; exact ⟨hi, agree_refl _ _⟩
  | cons w rest ih =>
    intro st hi
    obtain ⟨w1, w2, _, _⟩ := write_spec st w.1 w.2 hi
    obtain ⟨r1, r2⟩ := ih (st.write w.1 w.2) w1
    exact ⟨r1, agree_trans w2 r2⟩

/-- DESIGN C04.4. A DAO layer is made (`GetPrivate`), native methods update their caches through
    it any number of times (`GetRWCache` + field writes), then the layer is dropped: every cache
    shows exactly the value it showed before, and no two (layer, native) slots share a cell. -/
theorem cache_cow (st : CStack) (hi : st.inv) (ws : List (Nat × Nat)) :
    (st.push.writes ws).inv ∧ ∀ id, (st.push.writes ws).drop.read id = st.read id := by
  obtain ⟨h1, h2⟩ := writes_spec ws st.push (push_inv st hi)
  refine ⟨h1, fun id => ?_⟩
  have := agree_top h2 id
  simp only [CStack.push, List.tail_cons] at this
  exact this.symm

theorem clookup_append (a b : CLayer) (id : Nat) :
    clookup (a ++ b) id = match clookup a id with | some r => some r | none => clookup b id := by
  induction a with
  | nil => simp [clookup]
  | cons p rest ih =>
    obtain ⟨k, r⟩ := p
    simp only [List.cons_append, clookup]
    split
    · rfl
    · exact ih

/-- ... and if the layer is persisted instead (`persistNativeCache`), every cache keeps showing what
    ic.DAO showed; the invariant is kept. -/
theorem cache_persist (st : CStack) (hi : st.inv) :
    st.persist.inv ∧ ∀ id, st.persist.read id = st.read id := by
  unfold CStack.persist
  cases hl : st.layers with
  | nil => simp only; exact ⟨hi, fun _ => trivial⟩
  | cons top r1 =>
    cases r1 with
    | nil => simp only; exact ⟨hi, fun _ => trivial⟩
    | cons lower rest =>
      simp only
      unfold CStack.inv CInv at hi ⊢
      rw [hl] at hi
      refine ⟨?_, fun id => ?_⟩
      · simpa [allRefs, lrefs, List.map_append, List.append_assoc] using hi
      · simp only [CStack.read, hl, roRef, clookup_append]
        cases clookup top id <;> rfl

/-- the written value is what ic.DAO shows (for an initialised native). -/
theorem cache_write_visible (st : CStack) (hi : st.inv) (id v : Nat) (h : st.read id ≠ none) :
    (st.write id v).read id = some v := (write_spec st id v hi).2.2.2 h

end NeoModel.Exec
