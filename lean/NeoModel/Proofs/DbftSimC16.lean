/- C19 simulation, part C16: timeouts, transactions, the event loop. -/
import NeoModel.Proofs.DbftSimC15
namespace NeoModel.Dbft.Mach
open NeoModel.Dbft

/-- dbft.go:204-246 on the machine -/
theorem prog_onTimeout {e : Env} {as : State} {i : Nat} {w : W} (h : Good e as i w) (hh v : Nat)
    (htab : w.nd.isPrimary = true → w.nd.requestSOR = false → TableOK e w.fresh w.nd.bi w.nd.view w.nd.my) :
    Prog e i as (onTimeout e w hh v) := by
  unfold onTimeout
  simp only
  by_cases hbp : w.nd.blockProcessed = true
  · rw [if_pos hbp]; exact Prog.of_good h
  rw [if_neg hbp]
  have hbp' : w.nd.blockProcessed = false := by simpa using hbp
  split
  · exact Prog.of_good h
  split
  · rename_i hc
    simp only [Bool.and_eq_true, Bool.not_eq_true'] at hc
    exact prog_sendPrepareRequest h hbp' hc.1 hc.2 (htab hc.1 hc.2)
  split
  · exact Prog.of_good (good_changeTimer (good_sendRecoveryMessage h) _)
  · rename_i hcs
    exact prog_sendChangeView (kok_onReceive e i fuel) h hbp' (by simpa using hcs) 0

theorem onTransaction_eq (e : Env) (w : W) (t : Nat) :
    onTransaction e w t =
      if w.nd.isPrimary || w.nd.notAccepting e || !w.nd.requestSOR || w.nd.responseSent || w.nd.commitSent
          || w.nd.blockProcessed || w.nd.missing.isEmpty then w
      else match w.nd.missing.idxOf? t with
        | none => w
        | some idx =>
          let w1 := w.upd fun nd => { nd with txs := if nd.txs.contains t then nd.txs else nd.txs ++ [t] }
          let w2 :=
            if w1.nd.hasAllTx then
              if !(createAndCheckBlock (onReceive e fuel) e w1).2 then (createAndCheckBlock (onReceive e fuel) e w1).1
              else checkPrepare e (sendPrepareResponse (extendTimer e (createAndCheckBlock (onReceive e fuel) e w1).1 2))
            else w1
          if w2.nd.missing.isEmpty then w2
          else w2.upd fun nd => { nd with missing := nd.missing.eraseIdx idx } := rfl

/-- dbft.go:53-70, 164-188 on the machine -/
theorem prog_onTransaction {e : Env} {as : State} {i : Nat} {w : W} (h : Good e as i w) (t : Nat) :
    Prog e i as (onTransaction e w t) := by
  rw [onTransaction_eq]
  split
  · exact Prog.of_good h
  rename_i hg
  simp only [Bool.or_eq_true, not_or, Bool.not_eq_true, Bool.not_eq_true', Bool.not_eq_false] at hg
  obtain ⟨⟨⟨⟨⟨⟨hprim, _⟩, hreq⟩, hresp⟩, hcs⟩, hbp⟩, _⟩ := hg
  cases hidx : w.nd.missing.idxOf? t with
  | none => exact Prog.of_good h
  | some idx =>
    simp only
    have g1 := good_upd h (fun nd => { nd with txs := if nd.txs.contains t then nd.txs else nd.txs ++ [t] })
      rfl rfl rfl rfl rfl rfl rfl rfl rfl id rfl
    generalize hw1 : (w.upd fun nd => { nd with txs := if nd.txs.contains t then nd.txs else nd.txs ++ [t] }) = w1 at *
    have e1 : w1.nd.blockProcessed = false ∧ w1.nd.commitSent = false ∧ w1.nd.my = w.nd.my ∧ w1.nd.pidx = w.nd.pidx ∧
        w1.nd.bi = w.nd.bi ∧ w1.nd.view = w.nd.view ∧ w1.nd.responseSent = false := by
      subst hw1; exact ⟨hbp, hcs, rfl, rfl, rfl, rfl, hresp⟩
    obtain ⟨b1, c1, m1, p1, bi1, v1, rs1⟩ := e1
    have fin : ∀ as' w', Good e as' i w' → Prog e i as' (if w'.nd.missing.isEmpty then w'
        else w'.upd fun nd => { nd with missing := nd.missing.eraseIdx idx }) := by
      intro as' w' g
      split
      · exact Prog.of_good g
      · exact Prog.of_good (good_upd g _ rfl rfl rfl rfl rfl rfl rfl rfl rfl id rfl)
    have mid : Prog e i as (if w1.nd.hasAllTx then
          if !(createAndCheckBlock (onReceive e fuel) e w1).2 then (createAndCheckBlock (onReceive e fuel) e w1).1
          else checkPrepare e (sendPrepareResponse (extendTimer e (createAndCheckBlock (onReceive e fuel) e w1).1 2))
        else w1) := by
      split
      · obtain ⟨pc, hok⟩ := prog_createAndCheckBlock (kok_onReceive e i fuel) g1 b1 c1
        by_cases hcb : (!(createAndCheckBlock (onReceive e fuel) e w1).2) = true
        · rw [if_pos hcb]; exact pc
        rw [if_neg hcb]
        rw [hok (by simpa using hcb)]
        have g2 := good_extendTimer g1 2
        obtain ⟨f1, f2, f3, f4, f5, f6, f7, f8, f9, f10, f11, _, _⟩ := extendTimer_fields e w1 2
        obtain ⟨hbi, hview, hgp, hgc⟩ := h.synced hbp
        have hngp : ¬ ∃ b ∈ (as.nodes i).myPreps, b.h = (extendTimer e w1 2).nd.bi ∧ b.v = (extendTimer e w1 2).nd.view := by
          rw [f7, f8, bi1, v1]
          intro hx'; have := (hgp hx').2; rw [hresp] at this; cases this
        have hne : (extendTimer e w1 2).nd.my ≠ (extendTimer e w1 2).nd.pidx := by
          rw [f1, f9, m1, p1]
          intro heq; simp [Node.isPrimary, heq] at hprim
        have b2 : (extendTimer e w1 2).nd.blockProcessed = false := by rw [f10]; exact b1
        refine (prog_sendPrepareResponse g2 b2 hne hngp).bind ?_
        intro as' g3
        exact prog_checkPrepare g3 (by
          have : (sendPrepareResponse (extendTimer e w1 2)).nd.blockProcessed = (extendTimer e w1 2).nd.blockProcessed := by
            unfold sendPrepareResponse; simp only; split <;> rfl
          rw [this]; exact b2)
      · exact Prog.of_good g1
    obtain ⟨as2, x2, g2⟩ := mid
    obtain ⟨as3, x3, g3⟩ := fin as2 _ g2
    exact ⟨as3, x2.trans x3, g3⟩

/-- consensus.go:364-399: filling in the preparation hash does not change what the message claims -/
theorem claims_fillPrepHash {e : Env} {as : State} (nd : Node) (m : Pl) (h : Claims e as m) :
    Claims e as (fillPrepHash e nd m) := by
  unfold fillPrepHash
  cases m with
  | recMsg x r =>
    simp only
    split
    · exact h
    · split
      · exact h
      · exact h
  | _ => exact h

end NeoModel.Dbft.Mach
