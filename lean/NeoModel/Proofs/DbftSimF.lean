/- C19 simulation, frame: no handler of the machine but the chain-block Reset changes the block index. -/
import NeoModel.Proofs.DbftSimC10
namespace NeoModel.Dbft.Mach

def BiK (k : W → Pl → W) : Prop := ∀ w m, (k w m).nd.bi = w.nd.bi

@[simp] theorem bi_changeTimer (w : W) (d : Nat) : (changeTimer w d).nd.bi = w.nd.bi := rfl
@[simp] theorem bi_bcast (w : W) (p : Pl) : (bcast w p).nd.bi = w.nd.bi := rfl
@[simp] theorem bi_stopTx (w : W) : (stopTx w).nd.bi = w.nd.bi := rfl
@[simp] theorem bi_extendTimer (e : Env) (w : W) (c : Nat) : (extendTimer e w c).nd.bi = w.nd.bi := by
  unfold extendTimer; split <;> rfl

@[simp] theorem bi_processMissingTx (e : Env) (w : W) : (processMissingTx e w).nd.bi = w.nd.bi :=
  (processMissingTx_frame e w).2.2.2.2.2.2.1

@[simp] theorem bi_sendRecoveryRequest (e : Env) (w : W) : (sendRecoveryRequest e w).nd.bi = w.nd.bi := by
  unfold sendRecoveryRequest; split <;> simp

@[simp] theorem bi_sendRecoveryMessage (w : W) : (sendRecoveryMessage w).nd.bi = w.nd.bi := rfl

@[simp] theorem bi_onRecoveryRequest (e : Env) (w : W) (x : Hd) : (onRecoveryRequest e w x).nd.bi = w.nd.bi := by
  unfold onRecoveryRequest; simp only; split <;> simp

@[simp] theorem bi_sendCommit (w : W) : (sendCommit w).nd.bi = w.nd.bi := by
  unfold sendCommit; simp only; split
  · rfl
  · split <;> rfl

@[simp] theorem bi_checkCommit (e : Env) (w : W) : (checkCommit e w).nd.bi = w.nd.bi := by
  unfold checkCommit
  simp only
  split
  · rfl
  split
  · rfl
  split
  · rfl
  · simp only [W.upd, W.emit, postBlock]
    split <;> rfl

@[simp] theorem bi_checkPrepare (e : Env) (w : W) : (checkPrepare e w).nd.bi = w.nd.bi := by
  unfold checkPrepare
  simp only
  split
  all_goals
    split
    · simp [W.upd]
    · split
      · simp [W.upd]
      · simp [W.upd]

@[simp] theorem bi_sendPrepareResponse (w : W) : (sendPrepareResponse w).nd.bi = w.nd.bi := by
  unfold sendPrepareResponse; simp only; split <;> rfl

theorem bi_replay {k : W → Pl → W} (hk : BiK k) (fuel : Nat) : ∀ (w : W) (g : List (Nat × Pl)), (replay k fuel w g).nd.bi = w.nd.bi := by
  induction fuel with
  | zero => intro w g; rfl
  | succ f ih =>
    intro w g
    unfold replay
    split
    · rfl
    · rw [ih, hk]

theorem bi_reset (e : Env) (nd : Node) (view ts : Nat) (hv : view ≠ 0) : (reset e nd view ts).bi = nd.bi := by
  have : (view == 0) = false := by simpa using hv
  unfold reset; simp [this]

theorem bi_initConsensus {k : W → Pl → W} (hk : BiK k) (e : Env) (w : W) (view ts : Nat) (hv : view ≠ 0) :
    (initConsensus k e w view ts).nd.bi = w.nd.bi := by
  unfold initConsensus
  simp only [bi_changeTimer]
  split
  · simp [W.upd, stopTx, W.emit, bi_reset e w.nd view ts hv]
  · simp only [bi_replay hk]
    simp [W.upd, stopTx, W.emit, bi_reset e w.nd view ts hv]

theorem bi_checkChangeView {k : W → Pl → W} (hk : BiK k) (e : Env) (w : W) (view : Nat) :
    (checkChangeView k e w view).nd.bi = w.nd.bi := by
  unfold checkChangeView
  simp only
  split
  · rfl
  rename_i hlt
  split
  · rfl
  · have hv : view ≠ 0 := by omega
    rw [bi_initConsensus hk e _ view _ hv]
    split
    · split <;> rfl
    · rfl

theorem bi_sendChangeView {k : W → Pl → W} (hk : BiK k) (e : Env) (w : W) (r : Nat) :
    (sendChangeView k e w r).nd.bi = w.nd.bi := by
  unfold sendChangeView
  simp only
  split
  · simp
  · rw [bi_checkChangeView hk]; rfl

theorem bi_createAndCheckBlock {k : W → Pl → W} (hk : BiK k) (e : Env) (w : W) :
    (createAndCheckBlock k e w).1.nd.bi = w.nd.bi := by
  unfold createAndCheckBlock
  split
  · rfl
  · split
    · rfl
    · exact bi_sendChangeView hk e w 4

theorem bi_onChangeView {k : W → Pl → W} (hk : BiK k) (e : Env) (w : W) (m : Pl) :
    (onChangeView k e w m).nd.bi = w.nd.bi := by
  unfold onChangeView
  simp only
  split
  · simp
  split
  · simp
  split
  · split
    · rfl
    · rw [bi_checkChangeView hk]; rfl
  · rw [bi_checkChangeView hk]; rfl

/-- dbft.go:346-357: the world after the request has been stored -/
def oprMid (e : Env) (w : W) (msg : Pl) (p : Nat) : W :=
  let w := w.upd fun nd => { nd with lastProposal := (e.prop p).txs }
  let w := extendTimer e w 2
  let w := w.upd fun nd => { nd with txHashes := (e.prop p).txs }
  let w := processMissingTx e w
  let w := w.upd fun nd => { nd with prep := nd.prep.map fun s => match s with
      | some (.prepResp y ph) => if ph != p then none else some (.prepResp y ph)
      | s => s }
  w.upd fun nd => { nd with prep := nd.prep.set msg.hd.frm (some msg) }

theorem onPrepareRequest_eq (k : W → Pl → W) (e : Env) (w : W) (msg : Pl) (p : Nat) :
    onPrepareRequest k e w msg p =
      if w.nd.requestSOR then w
      else if w.nd.view != msg.hd.v then w
      else if msg.hd.frm != w.nd.pidx then w
      else if !verifyRequest e w.nd p then sendChangeView k e w 5
      else if !(oprMid e w msg p).nd.hasAllTx then oprMid e w msg p
      else if !(createAndCheckBlock k e (oprMid e w msg p)).2 then (createAndCheckBlock k e (oprMid e w msg p)).1
      else checkPrepare e (sendPrepareResponse (createAndCheckBlock k e (oprMid e w msg p)).1) := rfl

@[simp] theorem bi_oprMid (e : Env) (w : W) (msg : Pl) (p : Nat) : (oprMid e w msg p).nd.bi = w.nd.bi := by
  unfold oprMid
  simp [W.upd]

theorem bi_onPrepareRequest {k : W → Pl → W} (hk : BiK k) (e : Env) (w : W) (m : Pl) (p : Nat) :
    (onPrepareRequest k e w m p).nd.bi = w.nd.bi := by
  rw [onPrepareRequest_eq]
  split
  · rfl
  split
  · rfl
  split
  · rfl
  split
  · exact bi_sendChangeView hk e w 5
  split
  · simp
  split
  · rw [bi_createAndCheckBlock hk]; simp
  · simp only [bi_checkPrepare, bi_sendPrepareResponse]
    rw [bi_createAndCheckBlock hk]; simp

theorem bi_onPrepareResponse (e : Env) (w : W) (m : Pl) (ph : Nat) : (onPrepareResponse e w m ph).nd.bi = w.nd.bi := by
  unfold onPrepareResponse
  simp only
  split
  · rfl
  split
  · rfl
  split
  · rfl
  split
  · split
    · rfl
    · split <;> simp [W.upd]
  · split <;> simp [W.upd]

theorem bi_onCommit (e : Env) (w : W) (m : Pl) (sb : Block) : (onCommit e w m sb).nd.bi = w.nd.bi := by
  unfold onCommit
  simp only
  split
  · rfl
  split
  · split
    · simp [W.upd]
    · split
      · simp [W.upd]
      · simp [W.upd]
  · rfl

theorem bi_foldk {k : W → Pl → W} (hk : BiK k) {α : Type} (f : α → Pl) (l : List α) (w : W) :
    (l.foldl (fun w a => k w (f a)) w).nd.bi = w.nd.bi := by
  induction l generalizing w with
  | nil => rfl
  | cons a t ih => simp only [List.foldl_cons]; rw [ih, hk]

/-- dbft.go:697-706 -/
def ormCvs (k : W → Pl → W) (x : Hd) (r : Rec) (w : W) : W :=
  if x.v > w.nd.view then r.cvs.foldl (fun w c => k w (.cv ⟨c.1, x.h, c.2⟩ 0)) w else w

/-- dbft.go:708-723 -/
def ormPreps (k : W → Pl → W) (e : Env) (x : Hd) (r : Rec) (w : W) : W :=
  if x.v == w.nd.view && !w.nd.notAccepting e && !w.nd.commitSent then
    let w :=
      if !w.nd.requestSOR then
        match recPrepReq e x r w.nd.pidx with
        | some m => k w m
        | none => w
      else w
    match r.ph with
    | none => w
    | some ph => r.preps.foldl (fun w j => k w (.prepResp ⟨j, x.h, x.v⟩ ph)) w
  else w

/-- dbft.go:725-736 -/
def ormCommits (k : W → Pl → W) (x : Hd) (r : Rec) (w : W) : W :=
  if x.v ≤ w.nd.view then r.commits.foldl (fun w c => k w (.commit ⟨c.2.1, x.h, c.1⟩ c.2.2)) w else w

theorem onRecoveryMessage_eq (k : W → Pl → W) (e : Env) (w : W) (x : Hd) (r : Rec) :
    onRecoveryMessage k e w x r =
      (if decide (x.v > (w.upd fun nd => { nd with recovering := true }).nd.view) &&
            (w.upd fun nd => { nd with recovering := true }).nd.commitSent then
          w.upd fun nd => { nd with recovering := true }
        else ormCommits k x r (ormPreps k e x r (ormCvs k x r (w.upd fun nd => { nd with recovering := true })))).upd
        fun nd => { nd with recovering := false } := rfl

theorem bi_ormCvs {k : W → Pl → W} (hk : BiK k) (x : Hd) (r : Rec) (w : W) : (ormCvs k x r w).nd.bi = w.nd.bi := by
  unfold ormCvs; split
  · exact bi_foldk hk (fun c : Nat × Nat => Pl.cv ⟨c.1, x.h, c.2⟩ 0) r.cvs w
  · rfl

theorem bi_ormCommits {k : W → Pl → W} (hk : BiK k) (x : Hd) (r : Rec) (w : W) : (ormCommits k x r w).nd.bi = w.nd.bi := by
  unfold ormCommits; split
  · exact bi_foldk hk (fun c : Nat × Nat × Block => Pl.commit ⟨c.2.1, x.h, c.1⟩ c.2.2) r.commits w
  · rfl

theorem bi_ormPreps {k : W → Pl → W} (hk : BiK k) (e : Env) (x : Hd) (r : Rec) (w : W) :
    (ormPreps k e x r w).nd.bi = w.nd.bi := by
  unfold ormPreps
  split
  · have h1 : (if (!w.nd.requestSOR) = true then
          match recPrepReq e x r w.nd.pidx with
          | some m => k w m
          | none => w
        else w).nd.bi = w.nd.bi := by
      split
      · split
        · exact hk _ _
        · rfl
      · rfl
    simp only
    split
    · exact h1
    · rw [bi_foldk hk (fun j : Nat => Pl.prepResp ⟨j, x.h, x.v⟩ _)]; exact h1
  · rfl

theorem bi_onRecoveryMessage {k : W → Pl → W} (hk : BiK k) (e : Env) (w : W) (x : Hd) (r : Rec) :
    (onRecoveryMessage k e w x r).nd.bi = w.nd.bi := by
  rw [onRecoveryMessage_eq]
  show (if _ then _ else _ : W).nd.bi = _
  split
  · rfl
  · rw [bi_ormCommits hk, bi_ormPreps hk, bi_ormCvs hk]; rfl

/-- dbft.go:271-274: a payload of a later view is kept for later, except ChangeViews and RecoveryMessages -/
def isFuture (nd : Node) (msg : Pl) : Bool :=
  match msg with
  | .cv .. | .recMsg .. => false
  | _ => decide (msg.hd.v > nd.view)

/-- dbft.go:283-286 -/
def or1Seen (w : W) (x : Hd) : W :=
  match slot w.nd.lastSeen x.frm with
  | some (h, v) =>
    if h < x.h || v < x.v then w.upd fun nd => { nd with lastSeen := nd.lastSeen.set x.frm (some (x.h, x.v)) } else w
  | none => w.upd fun nd => { nd with lastSeen := nd.lastSeen.set x.frm (some (x.h, x.v)) }

/-- dbft.go:288-316 -/
def or1Dispatch (k : W → Pl → W) (e : Env) (w : W) (msg : Pl) : W :=
  match msg with
  | .recReq x => onRecoveryRequest e w x
  | _ =>
    if w.nd.blockProcessed then w
    else match msg with
      | .cv .. => onChangeView k e w msg
      | .prepReq _ p => onPrepareRequest k e w msg p
      | .prepResp _ ph => onPrepareResponse e w msg ph
      | .commit _ b => onCommit e w msg b
      | .recReq x => onRecoveryRequest e w x
      | .recMsg x r => onRecoveryMessage k e w x r

theorem onReceive1_eq (k : W → Pl → W) (e : Env) (w : W) (msg : Pl) :
    onReceive1 k e w msg =
      if msg.hd.frm ≥ e.n then w
      else if msg.hd.h < w.nd.bi then { w with hints := w.hints.drop 1 }
      else if msg.hd.h > w.nd.bi || isFuture w.nd msg then
        ({ w with hints := w.hints.drop 1 } : W).upd fun nd => { nd with cache := cacheAdd nd.cache msg }
      else or1Dispatch k e (or1Seen { w with hints := w.hints.drop 1 } msg.hd) msg := by
  unfold onReceive1 isFuture or1Dispatch or1Seen
  cases msg <;> rfl

@[simp] theorem bi_or1Seen (w : W) (x : Hd) : (or1Seen w x).nd.bi = w.nd.bi := by
  unfold or1Seen
  split
  · split <;> rfl
  · rfl

theorem bi_or1Dispatch {k : W → Pl → W} (hk : BiK k) (e : Env) (w : W) (m : Pl) : (or1Dispatch k e w m).nd.bi = w.nd.bi := by
  unfold or1Dispatch
  cases m with
  | recReq x => simp
  | cv x r => simp only; split
              · rfl
              · exact bi_onChangeView hk e w _
  | prepReq x p => simp only; split
                   · rfl
                   · exact bi_onPrepareRequest hk e w _ p
  | prepResp x p => simp only; split
                    · rfl
                    · exact bi_onPrepareResponse e w _ p
  | commit x b => simp only; split
                  · rfl
                  · exact bi_onCommit e w _ b
  | recMsg x r => simp only; split
                  · rfl
                  · exact bi_onRecoveryMessage hk e w x r

theorem bi_onReceive1 {k : W → Pl → W} (hk : BiK k) (e : Env) (w : W) (m : Pl) : (onReceive1 k e w m).nd.bi = w.nd.bi := by
  rw [onReceive1_eq]
  split
  · rfl
  split
  · rfl
  split
  · rfl
  · rw [bi_or1Dispatch hk, bi_or1Seen]

theorem bi_onReceive (e : Env) (fuel : Nat) : BiK (onReceive e fuel) := by
  induction fuel with
  | zero => intro w m; rfl
  | succ f ih => intro w m; exact bi_onReceive1 ih e w m

end NeoModel.Dbft.Mach
