/-
Frame lemmas: which operations leave the governance caches (committee, validators, their new-epoch values) alone,
and that every operation keeps `gasSupply - gasMinted + gasBurned` — the GAS supply moves only together with a
`Transfer` notification from / to null of the same amount.
-/
import NeoModel.Proofs.TokensDelta
namespace NeoModel.Tokens

/-- the part of the ledger only OnPersist / PostPersist of the NEO contract write. -/
def sameGov (l l' : Ledger) : Prop :=
  l'.committee = l.committee ∧ l'.nextVals = l.nextVals ∧ l'.neCommittee = l.neCommittee ∧ l'.neVals = l.neVals

/-- GAS supply not accounted for by mint / burn notifications. -/
def supGap (l : Ledger) : Int := l.gasSupply - l.gasMinted + l.gasBurned

/-- the GAS-per-block records only grow, by records with non-negative amounts (setGasPerBlock). -/
def GpbExt (l l' : Ledger) : Prop := ∃ extra : List (Nat × Int), l'.gpb = l.gpb ++ extra ∧ ∀ r ∈ extra, 0 ≤ r.2

def Frame (l l' : Ledger) : Prop := sameGov l l' ∧ supGap l' = supGap l ∧ GpbExt l l'

theorem GpbExt.refl (l : Ledger) : GpbExt l l := ⟨[], by simp, by simp⟩

theorem GpbExt.of_eq {l l' : Ledger} (h : l'.gpb = l.gpb) : GpbExt l l' := ⟨[], by simp [h], by simp⟩

theorem GpbExt.trans {a b c : Ledger} (h1 : GpbExt a b) (h2 : GpbExt b c) : GpbExt a c := by
  obtain ⟨x1, e1, p1⟩ := h1
  obtain ⟨x2, e2, p2⟩ := h2
  refine ⟨x1 ++ x2, by rw [e2, e1, List.append_assoc], fun r hr => ?_⟩
  rcases List.mem_append.mp hr with h | h
  · exact p1 r h
  · exact p2 r h

theorem Frame.refl (l : Ledger) : Frame l l := ⟨⟨rfl, rfl, rfl, rfl⟩, rfl, GpbExt.refl l⟩

theorem Frame.trans {a b c : Ledger} (h1 : Frame a b) (h2 : Frame b c) : Frame a c := by
  obtain ⟨⟨a1, a2, a3, a4⟩, a5, a6⟩ := h1
  obtain ⟨⟨b1, b2, b3, b4⟩, b5, b6⟩ := h2
  exact ⟨⟨b1.trans a1, b2.trans a2, b3.trans a3, b4.trans a4⟩, b5.trans a5, a6.trans b6⟩

/-- the eight fields are untouched. -/
theorem Frame.of_eq {l l' : Ledger} (h1 : l'.committee = l.committee) (h2 : l'.nextVals = l.nextVals)
    (h3 : l'.neCommittee = l.neCommittee) (h4 : l'.neVals = l.neVals) (h8 : l'.gpb = l.gpb)
    (h5 : l'.gasSupply = l.gasSupply) (h6 : l'.gasMinted = l.gasMinted) (h7 : l'.gasBurned = l.gasBurned) : Frame l l' :=
  ⟨⟨h1, h2, h3, h4⟩, by simp [supGap, h5, h6, h7], GpbExt.of_eq h8⟩

theorem dropIfZero_frame (l l' : Ledger) (c : Nat) (cd : Cand) (h : dropIfZero l c cd = some l') : Frame l l' := by
  unfold dropIfZero at h
  split at h
  · simp at h
  · injection h with h; subst h; exact Frame.of_eq rfl rfl rfl rfl rfl rfl rfl rfl

theorem modVotes_frame (l : Ledger) (acc : NeoAcc) (v : Int) (isNew : Bool) : Frame l (modVotes l acc v isNew).1 := by
  unfold modVotes
  simp only []
  split
  · exact Frame.of_eq rfl rfl rfl rfl rfl rfl rfl rfl
  · split
    · exact Frame.of_eq rfl rfl rfl rfl rfl rfl rfl rfl
    · split
      · exact Frame.of_eq rfl rfl rfl rfl rfl rfl rfl rfl
      · split
        · rename_i l' hd
          exact (Frame.of_eq (l' := { l with votesChanged := true }) rfl rfl rfl rfl rfl rfl rfl rfl).trans (dropIfZero_frame _ _ _ _ hd)
        · exact Frame.of_eq rfl rfl rfl rfl rfl rfl rfl rfl

theorem neoInc_frame (e : Env) (l : Ledger) (si : Option NeoAcc) (amt : Int) (cb : Option Int) :
    Frame l (neoInc e l si amt cb).l := by
  unfold neoInc
  simp only []
  split
  · exact Frame.refl _
  · split
    · exact Frame.refl _
    · rename_i acc1 newGas _
      split
      · exact Frame.refl _
      · have hf := modVotes_frame l acc1 amt false
        split
        · rename_i l1 hm
          rw [hm] at hf; exact hf
        · rename_i l1 hm
          rw [hm] at hf
          refine hf.trans ?_
          split
          · exact Frame.of_eq rfl rfl rfl rfl rfl rfl rfl rfl
          · exact Frame.refl _

theorem updNeo_frame (e : Env) (l : Ledger) (a : Nat) (amt : Int) (req : Option Int) : Frame l (updNeo e l a amt req).1 := by
  have run : ∀ si, Frame l (if (neoInc e l si amt req).ok = true then
      ({ (neoInc e l si amt req).l with neo := store (neoInc e l si amt req).l.neo a (neoInc e l si amt req).si }, true, (neoInc e l si amt req).dist)
      else ((neoInc e l si amt req).l, false, none)).1 := by
    intro si
    split
    · exact (neoInc_frame e l si amt req).trans (Frame.of_eq rfl rfl rfl rfl rfl rfl rfl rfl)
    · exact neoInc_frame e l si amt req
  unfold updNeo
  simp only []
  split
  · split
    · exact Frame.refl _
    · split
      · exact Frame.refl _
      · split
        · exact Frame.refl _
        · exact run none
  · exact run _

theorem updGas_frame (l : Ledger) (a : Nat) (amt : Int) (req : Option Int) : Frame l (updGas l a amt req).1 := by
  have run : ∀ si, Frame l (if (gasInc l si amt req).ok = true then
      ({ (gasInc l si amt req).l with gas := store (gasInc l si amt req).l.gas a (gasInc l si amt req).si }, true, (none : Option Int))
      else ((gasInc l si amt req).l, false, none)).1 := by
    intro si
    split
    · simp only [gasInc_l]; exact Frame.of_eq rfl rfl rfl rfl rfl rfl rfl rfl
    · simp only [gasInc_l]; exact Frame.refl _
  unfold updGas
  simp only []
  split
  · split
    · exact Frame.refl _
    · split
      · exact Frame.refl _
      · split
        · exact Frame.refl _
        · exact run none
  · exact run _

theorem upd_frame (t : Tok) (e : Env) (l : Ledger) (a : Nat) (amt : Int) (req : Option Int) : Frame l (upd t e l a amt req).1 := by
  cases t with
  | neo => exact updNeo_frame e l a amt req
  | gas => exact updGas_frame l a amt req

/-- a notification with both ends given does not move the ghost totals. -/
theorem addEvent_xfer_frame (l : Ledger) (t : Tok) (src dst : Nat) (amt : Int) :
    Frame l (addEvent l ⟨t, some src, some dst, amt⟩) := by
  refine Frame.of_eq rfl rfl rfl rfl rfl rfl ?_ ?_ <;> simp [addEvent]

theorem transferPre_frame (t : Tok) (e : Env) (l : Ledger) (src dst : Nat) (amt : Int) (wit : Bool) (r : TPre)
    (h : transferPre t e l src dst amt wit = r) :
    (∀ l' b, r = .ret l' b → Frame l l') ∧ (∀ l' d1 d2, r = .posted l' d1 d2 → Frame l l') := by
  unfold transferPre at h
  simp only [] at h
  split at h
  · subst h; exact ⟨fun _ _ h => (by cases h), fun _ _ _ h => (by cases h)⟩
  · split at h
    · subst h
      refine ⟨fun l' b h => ?_, fun _ _ _ h => (by cases h)⟩
      injection h with h1 _; subst h1; exact Frame.refl _
    · have h1 := upd_frame t e l src (if src = dst ∨ amt = 0 then 0 else -amt) (some amt)
      cases hu : upd t e l src (if src = dst ∨ amt = 0 then 0 else -amt) (some amt) with
      | mk l1 r1 =>
        obtain ⟨b, d1⟩ := r1
        rw [hu] at h1 h
        cases b with
        | false =>
          simp only [] at h
          subst h
          refine ⟨fun l' b h => ?_, fun _ _ _ h => (by cases h)⟩
          injection h with h1' _; subst h1'; exact h1
        | true =>
          simp only [] at h
          split at h
          · subst h
            refine ⟨fun _ _ h => (by cases h), fun l' d1 d2 h => ?_⟩
            injection h with h1' _ _; subst h1'
            exact h1.trans (addEvent_xfer_frame _ _ _ _ _)
          · have h2 := upd_frame t e l1 dst amt none
            cases hu2 : upd t e l1 dst amt none with
            | mk l2 r2 =>
              obtain ⟨b2, d2⟩ := r2
              rw [hu2] at h2 h
              cases b2 with
              | false =>
                simp only [] at h
                subst h
                refine ⟨fun l' b h => ?_, fun _ _ _ h => (by cases h)⟩
                injection h with h1' _; subst h1'; exact h1.trans h2
              | true =>
                simp only [] at h
                subst h
                refine ⟨fun _ _ h => (by cases h), fun l' d1 d2 h => ?_⟩
                injection h with h1' _ _; subst h1'
                exact (h1.trans h2).trans (addEvent_xfer_frame _ _ _ _ _)

theorem gasAddTokens_frame (l l' : Ledger) (h : Nat) (amt : Int) (hr : gasAddTokens l h amt = some l') :
    sameGov l l' ∧ l'.gasSupply = l.gasSupply + amt ∧ l'.gasMinted = l.gasMinted ∧ l'.gasBurned = l.gasBurned ∧
    l'.gpb = l.gpb := by
  unfold gasAddTokens at hr
  simp only [] at hr
  split at hr
  · injection hr with hr; subst hr
    refine ⟨⟨?_, ?_, ?_, ?_⟩, ?_, ?_, ?_, ?_⟩ <;> simp [gasInc_l]
  · simp at hr

theorem mintGas_frame (l l' : Ledger) (h : Nat) (amt : Int) (hr : mintGas l h amt = some l') : Frame l l' := by
  unfold mintGas at hr
  split at hr
  · injection hr with hr; subst hr; exact Frame.refl _
  · cases hg : gasAddTokens l h amt with
    | none => simp [hg] at hr
    | some l1 =>
      simp [hg] at hr; subst hr
      obtain ⟨⟨g1, g2, g3, g4⟩, s1, s2, s3, s4⟩ := gasAddTokens_frame l l1 h amt hg
      refine ⟨⟨g1, g2, g3, g4⟩, ?_, GpbExt.of_eq s4⟩
      simp [supGap, addEvent, s1, s2, s3]; omega

theorem burnGas_frame (l l' : Ledger) (h : Nat) (amt : Int) (hr : burnGas l h amt = some l') : Frame l l' := by
  unfold burnGas at hr
  split at hr
  · injection hr with hr; subst hr; exact Frame.refl _
  · cases hg : gasAddTokens l h (-amt) with
    | none => simp [hg] at hr
    | some l1 =>
      simp [hg] at hr; subst hr
      obtain ⟨⟨g1, g2, g3, g4⟩, s1, s2, s3, s4⟩ := gasAddTokens_frame l l1 h (-amt) hg
      refine ⟨⟨g1, g2, g3, g4⟩, ?_, GpbExt.of_eq s4⟩
      simp [supGap, addEvent, s1, s2, s3]; omega

theorem mintNeo_frame (e : Env) (l l' : Ledger) (h : Nat) (amt : Int) (hr : mintNeo e l h amt = some l') : Frame l l' := by
  unfold mintNeo at hr
  split at hr
  · injection hr with hr; subst hr; exact Frame.refl _
  · simp only [] at hr
    split at hr
    · injection hr with hr; subst hr
      refine (neoInc_frame e l (get l.neo h) amt none).trans ?_
      refine Frame.of_eq rfl rfl rfl rfl rfl rfl ?_ ?_ <;> simp [addEvent]
    · simp at hr

theorem mintGasCb_frame (e : Env) (l l' : Ledger) (h : Nat) (amt : Int) (hr : mintGasCb e l h amt = some l') : Frame l l' := by
  unfold mintGasCb at hr
  split at hr
  · simp at hr
  · exact mintGas_frame l l' h amt hr

theorem mintDists_frame (e : Env) (l l' : Ledger) (d1 d2 : Option (Nat × Int)) (hr : mintDists e l d1 d2 = some l') :
    Frame l l' := by
  unfold mintDists at hr
  simp only [] at hr
  cases d1 with
  | none =>
    simp only [] at hr
    cases d2 with
    | none => simp at hr; subst hr; exact Frame.refl _
    | some p => obtain ⟨h2, g2⟩ := p; exact mintGasCb_frame e l l' h2 g2 hr
  | some p =>
    obtain ⟨h1, g1⟩ := p
    simp only [] at hr
    cases hm : mintGasCb e l h1 g1 with
    | none => simp [hm] at hr
    | some l1 =>
      simp only [hm] at hr
      have f1 := mintGasCb_frame e l l1 h1 g1 hm
      cases d2 with
      | none => simp at hr; subst hr; exact f1
      | some p => obtain ⟨h2, g2⟩ := p; exact f1.trans (mintGasCb_frame e l1 l' h2 g2 hr)

theorem registerInternal_frame (l : Ledger) (pub : Nat) : Frame l (registerInternal l pub) := by
  unfold registerInternal
  split
  · exact Frame.of_eq rfl rfl rfl rfl rfl rfl rfl rfl
  · simp only []
    split <;> exact Frame.of_eq rfl rfl rfl rfl rfl rfl rfl rfl

theorem unregister_frame (l : Ledger) (pub : Nat) (wit : Bool) : Frame l (unregister l pub wit).1 := by
  unfold unregister
  split
  · exact Frame.refl _
  · split
    · exact Frame.refl _
    · simp only []
      split
      · rename_i l' hd
        exact (Frame.of_eq (l' := { l with votesChanged := true }) rfl rfl rfl rfl rfl rfl rfl rfl).trans (dropIfZero_frame _ _ _ _ hd)
      · exact Frame.of_eq rfl rfl rfl rfl rfl rfl rfl rfl

theorem votePre_frame (e : Env) (l : Ledger) (h : Nat) (pub : Option Nat) (wit : Bool) : Frame l (votePre e l h pub wit).1 := by
  unfold votePre
  split
  · exact Frame.refl _
  · split
    · exact Frame.refl _
    · split
      · exact Frame.refl _
      · simp only []
        rename_i acc _ _
        generalize hl1 : (if (acc.vote.isNone != pub.isNone) = true then
            { l with voters := l.voters + (if pub.isNone = true then -acc.bal else acc.bal) } else l) = l1
        have f1 : Frame l l1 := by
          subst hl1; split
          · exact Frame.of_eq rfl rfl rfl rfl rfl rfl rfl rfl
          · exact Frame.refl _
        split
        · exact f1
        · rename_i acc1 newGas _
          have f2 := modVotes_frame l1 acc1 (-acc1.bal) false
          split
          · rename_i l2 hm; rw [hm] at f2; exact f1.trans f2
          · rename_i l2 hm; rw [hm] at f2
            have f3 := modVotes_frame l2 (voteNewAcc l2 acc1 pub) (voteNewAcc l2 acc1 pub).bal true
            split
            · rename_i l3 hm3; rw [hm3] at f3; exact (f1.trans f2).trans f3
            · rename_i l3 hm3; rw [hm3] at f3
              exact ((f1.trans f2).trans f3).trans (Frame.of_eq rfl rfl rfl rfl rfl rfl rfl rfl)

theorem notaryOnPayment_frame (e : Env) (l l' : Ledger) (src : Nat) (amt : Int) (dto : Option Nat) (till : Nat)
    (h : notaryOnPayment e l src amt dto till = some l') : Frame l l' := by
  unfold notaryOnPayment at h
  simp only [] at h
  cases hg : get l.deps (dto.getD src) with
  | none =>
    simp only [hg] at h
    split at h
    · simp at h
    · split at h
      · simp at h
      · split at h
        · simp at h
        · injection h with h; subst h; exact Frame.of_eq rfl rfl rfl rfl rfl rfl rfl rfl
  | some d =>
    simp only [hg] at h
    split at h
    · simp at h
    · split at h
      · simp at h
      · injection h with h; subst h; exact Frame.of_eq rfl rfl rfl rfl rfl rfl rfl rfl

theorem lockDeposit_frame (e : Env) (l : Ledger) (a till : Nat) (wit : Bool) : Frame l (lockDeposit e l a till wit).1 := by
  unfold lockDeposit
  split
  · exact Frame.refl _
  · split
    · exact Frame.refl _
    · split
      · exact Frame.refl _
      · split
        · exact Frame.refl _
        · exact Frame.of_eq rfl rfl rfl rfl rfl rfl rfl rfl

theorem withdrawPre_frame (e : Env) (l l' : Ledger) (src : Nat) (wit : Bool) (amt : Int)
    (h : withdrawPre e l src wit = some (l', amt)) : Frame l l' := by
  unfold withdrawPre at h
  split at h
  · simp at h
  · split at h
    · simp at h
    · split at h
      · simp at h
      · injection h with h; injection h with h1 _; subst h1; exact Frame.of_eq rfl rfl rfl rfl rfl rfl rfl rfl

theorem neoOnPayment_frame (e : Env) (l l' : Ledger) (amt : Int) (p : Nat) (w : Bool)
    (h : neoOnPayment e l amt p w = some l') : Frame l l' := by
  unfold neoOnPayment at h
  split at h
  · simp at h
  · split at h
    · simp at h
    · exact (registerInternal_frame l p).trans (burnGas_frame _ _ _ _ h)

theorem burnFees_frame (l l' : Ledger) (txs : List TxFee) (h : burnFees l txs = some l') : Frame l l' := by
  induction txs generalizing l with
  | nil => simp [burnFees] at h; subst h; exact Frame.refl _
  | cons t ts ih =>
    simp only [burnFees] at h
    cases hb : burnGas l t.sender (t.sys + t.net) with
    | none => simp [hb] at h
    | some l1 =>
      simp only [hb] at h
      exact (burnGas_frame _ _ _ _ hb).trans (ih l1 h)

theorem gasOnPersist_frame (e : Env) (l l' : Ledger) (primary : Nat) (txs : List TxFee)
    (h : gasOnPersist e l primary txs = some l') : Frame l l' := by
  unfold gasOnPersist at h
  split at h
  · injection h with h; subst h; exact Frame.refl _
  · cases hb : burnFees l txs with
    | none => simp [hb] at h
    | some l1 =>
      simp only [hb] at h
      exact (burnFees_frame _ _ _ hb).trans (mintGas_frame _ _ _ _ h)

theorem notaryCharge_frame (e : Env) (l l' : Ledger) (txs : List TxFee) (n : Int)
    (h : notaryCharge e l txs = some (l', n)) : Frame l l' := by
  induction txs generalizing l n with
  | nil => simp [notaryCharge] at h; obtain ⟨h, _⟩ := h; subst h; exact Frame.refl _
  | cons t ts ih =>
    simp only [notaryCharge] at h
    cases hk : t.nkeys with
    | none => simp only [hk] at h; exact ih l n h
    | some kk =>
      simp only [hk] at h
      have key : ∀ l1 : Ledger, Frame l l1 →
          (match notaryCharge e l1 ts with
            | none => none
            | some (l2, n) => some (l2, n + (kk : Int) + 1)) = some (l', n) → Frame l l' := by
        intro l1 f1 hh
        cases hr : notaryCharge e l1 ts with
        | none => simp [hr] at hh
        | some r =>
          obtain ⟨l2, n2⟩ := r
          simp only [hr] at hh
          injection hh with hh; injection hh with h1 _; subst h1
          exact f1.trans (ih l1 n2 hr)
      split at h
      · simp at h
      · rename_i l1 heq
        refine key l1 ?_ h
        split at heq
        · split at heq
          · simp at heq
          · split at heq
            · simp at heq
            · split at heq
              · simp at heq
              · split at heq
                · injection heq with heq; subst heq; exact Frame.of_eq rfl rfl rfl rfl rfl rfl rfl rfl
                · injection heq with heq; subst heq; exact Frame.of_eq rfl rfl rfl rfl rfl rfl rfl rfl
        · injection heq with heq; subst heq; exact Frame.refl _

theorem mintAll_frame (l l' : Ledger) (hs : List Nat) (g : Int) (h : mintAll l hs g = some l') : Frame l l' := by
  induction hs generalizing l with
  | nil => simp [mintAll] at h; subst h; exact Frame.refl _
  | cons x xs ih =>
    simp only [mintAll] at h
    cases hm : mintGas l x g with
    | none => simp [hm] at h
    | some l1 =>
      simp only [hm] at h
      exact (mintGas_frame _ _ _ _ hm).trans (ih l1 h)

theorem notaryOnPersist_frame (e : Env) (l l' : Ledger) (notaries : List Nat) (txs : List TxFee)
    (h : notaryOnPersist e l notaries txs = some l') : Frame l l' := by
  unfold notaryOnPersist at h
  cases hc : notaryCharge e l txs with
  | none => simp [hc] at h
  | some r =>
    obtain ⟨l1, n⟩ := r
    simp only [hc] at h
    have f1 := notaryCharge_frame e l l1 txs n hc
    split at h
    · injection h with h; subst h; exact f1
    · split at h
      · injection h with h; subst h; exact f1
      · exact f1.trans (mintAll_frame _ _ _ _ h)

theorem voterRewards_frame (e : Env) (vr : Int) (l : Ledger) (cs : List (Nat × Int)) (i : Nat) :
    Frame l (voterRewards e vr l cs i) := by
  induction cs generalizing l i with
  | nil => exact Frame.refl _
  | cons c rest ih =>
    obtain ⟨pub, cached⟩ := c
    simp only [voterRewards]
    refine Frame.trans ?_ (ih _ _)
    split <;> split <;> first | exact Frame.of_eq rfl rfl rfl rfl rfl rfl rfl rfl | exact Frame.refl _

theorem neoPostPersist_frame (e : Env) (l l' : Ledger) (committee : List (Nat × Nat × Int))
    (h : neoPostPersist e l committee = some l') : Frame l l' := by
  unfold neoPostPersist at h
  cases hg : gasPerBlockAt l.gpb.reverse (e.index + 1) with
  | none => simp [hg] at h
  | some gas =>
    simp only [hg] at h
    split at h
    · simp at h
    · cases hm : committee[e.index % e.csize]? with
      | none => simp [hm] at h
      | some m =>
        obtain ⟨p, acc, v⟩ := m
        simp only [hm] at h
        cases hmint : mintGas l acc (gas * 10 / 100) with
        | none => simp [hmint] at h
        | some l1 =>
          simp only [hmint] at h
          have f1 := mintGas_frame _ _ _ _ hmint
          split at h
          · injection h with h; subst h; exact f1.trans (voterRewards_frame _ _ _ _ _)
          · injection h with h; subst h; exact f1

theorem setGasPerBlock_frame (e : Env) (l l' : Ledger) (g : Int) (w : Bool) (h : setGasPerBlock e l g w = some l') :
    Frame l l' := by
  unfold setGasPerBlock at h
  split at h
  · simp at h
  · rename_i hg
    split at h
    · simp at h
    · injection h with h; subst h
      exact ⟨⟨rfl, rfl, rfl, rfl⟩, rfl, ⟨[(e.index + 1, g)], rfl, fun r hr => by simp at hr; subst hr; simp; omega⟩⟩

theorem setRegisterPrice_frame (l l' : Ledger) (p : Int) (w : Bool) (h : setRegisterPrice l p w = some l') : Frame l l' := by
  unfold setRegisterPrice at h
  split at h
  · simp at h
  · split at h
    · simp at h
    · injection h with h; subst h; exact Frame.of_eq rfl rfl rfl rfl rfl rfl rfl rfl

theorem blockAccount_frame (e : Env) (l l' : Ledger) (acc : Nat) (b : Bool) (h : blockAccount e l acc = some (l', b)) :
    Frame l l' := by
  unfold blockAccount at h
  split at h
  · injection h with h; injection h with h1 _; subst h1; exact Frame.refl _
  · have fv := votePre_frame e l acc none true
    simp only [] at h
    split at h
    · rename_i l1 _ hvp
      rw [hvp] at fv
      injection h with h; injection h with h1 _; subst h1
      exact fv.trans (Frame.of_eq rfl rfl rfl rfl rfl rfl rfl rfl)
    · rename_i l1 hvp
      rw [hvp] at fv
      injection h with h; injection h with h1 _; subst h1
      exact fv.trans (Frame.of_eq rfl rfl rfl rfl rfl rfl rfl rfl)
    · rename_i l1 g hvp
      rw [hvp] at fv
      cases hm : mintGasCb e l1 acc g with
      | none => simp [hm] at h
      | some l2 =>
        simp only [hm] at h
        injection h with h; injection h with h1 _; subst h1
        exact (fv.trans (mintGasCb_frame _ _ _ _ _ hm)).trans (Frame.of_eq rfl rfl rfl rfl rfl rfl rfl rfl)

theorem designateNotary_frame (e : Env) (l l' : Ledger) (ns : List Nat) (w : Bool) (h : designateNotary e l ns w = some l') :
    Frame l l' := by
  unfold designateNotary at h
  split at h
  · simp at h
  · split at h
    · simp at h
    · split at h
      · simp at h
      · split at h
        · simp at h
        · split at h
          · simp at h
          · injection h with h; subst h; exact Frame.of_eq rfl rfl rfl rfl rfl rfl rfl rfl

theorem unblockAccount_frame (l : Ledger) (acc : Nat) : Frame l (unblockAccount l acc).1 := by
  unfold unblockAccount
  split
  · exact Frame.of_eq rfl rfl rfl rfl rfl rfl rfl rfl
  · exact Frame.refl _

end NeoModel.Tokens
