/-
C20 (a) helper lemmas: arithmetic, the clean-up loop, and the invariant of every reachable state of the
queue model (all interleavings).
-/
import NeoModel.Model.Queue
namespace NeoModel.Queue

/-! ### arithmetic -/

theorem mod_eq_lt_add {a b c : Nat} (h : a % c = b % c) (hlt : b < a) : b + c ≤ a := by
  have h0 : (a - b) % c = 0 := Nat.sub_mod_eq_zero_of_mod_eq h
  have hd : c ∣ (a - b) := Nat.dvd_of_mod_eq_zero h0
  have : c ≤ a - b := Nat.le_of_dvd (by omega) hd
  omega

/-! ### setSlot / cleanup -/

theorem setSlot_same (r : Nat → Option Elem) (p : Nat) (v : Option Elem) : setSlot r p v p = v := by
  simp [setSlot]

theorem setSlot_other (r : Nat → Option Elem) {p q : Nat} (v : Option Elem) (h : q ≠ p) : setSlot r p v q = r q := by
  simp [setSlot, h]

/-- the clean-up loop only ever clears slots … -/
theorem cleanup_sub (cap n i : Nat) (ring : Nat → Option Elem) (len : Int) (p : Nat) (x : Elem) :
    (cleanup cap n i ring len).1 p = some x → ring p = some x := by
  induction n generalizing i ring len with
  | zero => simp [cleanup]
  | succ n ih =>
    simp only [cleanup]
    split
    · split
      · intro h
        have := ih _ _ _ h
        by_cases hp : p = posOf cap (i + 1)
        · subst hp; simp [setSlot] at this
        · rwa [setSlot_other _ _ hp] at this
      · exact ih _ _ _
    · exact ih _ _ _

/-- … and only slots holding an index at or below the height it was run up to. -/
theorem cleanup_keeps (cap n i : Nat) (ring : Nat → Option Elem) (len : Int) (p : Nat) (x : Elem)
    (h : ring p = some x) (hx : i + n < x.idx) : (cleanup cap n i ring len).1 p = some x := by
  induction n generalizing i ring len with
  | zero => simpa [cleanup] using h
  | succ n ih =>
    simp only [cleanup]
    split
    · rename_i y hy
      split
      · rename_i hyi
        apply ih
        · by_cases hp : p = posOf cap (i + 1)
          · subst hp; rw [h] at hy; cases hy; omega
          · rwa [setSlot_other _ _ hp]
        · omega
      · exact ih _ _ _ h (by omega)
    · exact ih _ _ _ h (by omega)

/-- Invariant of every reachable state (all interleavings). -/
structure Inv (s : State) : Prop where
  cap_pos : 0 < s.cap
  slot : ∀ p x, s.ring p = some x → posOf s.cap x.idx = p
  win : ∀ p x, s.ring p = some x → x.idx ≤ s.height + s.cap
  pcH : ∀ h, s.pc = .haveH h → h ≤ s.height
  pcB : ∀ b pos, (s.pc = .holding b pos ∨ s.pc = .added b pos) →
          posOf s.cap b.idx = pos ∧ b.idx ≤ s.height + s.cap

theorem put_cases (s : State) (e : Elem) (hr : Nat) :
    put s e hr = s ∨ put s e hr = { s with signal := true } ∨
    (s.discarded = false ∧ hr < e.idx ∧ e.idx ≤ hr + s.cap ∧
      keepsOld (s.ring (posOf s.cap e.idx)) e = false ∧ put s e hr = insert s e) := by
  unfold put
  split; · exact .inl rfl
  split; · exact .inl rfl
  split; · exact .inl rfl
  split
  · exact .inr (.inl rfl)
  · refine .inr (.inr ⟨by simpa using ‹¬ s.discarded = true›, by omega, by omega, by simpa using ‹¬ keepsOld _ _ = true›, rfl⟩)

theorem inv_signal (s : State) (h : Inv s) : Inv { s with signal := true } :=
  ⟨h.cap_pos, h.slot, h.win, h.pcH, h.pcB⟩

theorem inv_insert (s : State) (e : Elem) (h : Inv s) (hw : e.idx ≤ s.height + s.cap) : Inv (insert s e) := by
  refine ⟨h.cap_pos, ?_, ?_, h.pcH, h.pcB⟩
  · intro p x hx
    simp only [insert, setSlot] at hx
    split at hx
    · cases hx; subst_vars; rfl
    · exact h.slot _ _ hx
  · intro p x hx
    simp only [insert, setSlot] at hx
    split at hx
    · cases hx; exact hw
    · exact h.win _ _ hx

theorem inv_put (s : State) (e : Elem) (hr : Nat) (hhr : hr ≤ s.height) (h : Inv s) : Inv (put s e hr) := by
  rcases put_cases s e hr with h1 | h1 | ⟨_, _, h3, _, h5⟩
  · rw [h1]; exact h
  · rw [h1]; exact inv_signal s h
  · rw [h5]; exact inv_insert s e h (by omega)

theorem inv_adv (s : State) (h : Inv s) : Inv (chainAdvance s) := by
  refine ⟨h.cap_pos, h.slot, ?_, ?_, ?_⟩
  · intro p x hx; have := h.win p x hx; simp only [chainAdvance]; omega
  · intro hh hp; have := h.pcH hh hp; simp only [chainAdvance]; omega
  · intro b pos hp; have := h.pcB b pos hp; simp only [chainAdvance]; exact ⟨this.1, by omega⟩

theorem inv_discard (s : State) (h : Inv s) : Inv (discard s) := by
  unfold discard
  split
  · exact h
  · exact ⟨h.cap_pos, by intro p x hx; simp at hx, by intro p x hx; simp at hx, h.pcH, h.pcB⟩

theorem inv_lockSection (s : State) (hh : Nat) (h : Inv s) : Inv (lockSection s hh) := by
  have hsub := cleanup_sub s.cap (hh - s.lastHeight) s.lastHeight s.ring s.len
  refine ⟨h.cap_pos, fun p x hx => h.slot p x (hsub p x hx), fun p x hx => h.win p x (hsub p x hx), ?_, ?_⟩
  · intro h' hp; simp only [lockSection] at hp; split at hp
    · cases hp
    · split at hp <;> cases hp
  · intro b pos hp
    simp only [lockSection] at hp
    split at hp
    · rcases hp with hp | hp <;> cases hp
    · rename_i b' hb
      split at hp
      · rcases hp with hp | hp <;> cases hp
      · rcases hp with hp | hp
        · cases hp; exact ⟨h.slot _ _ hb, h.win _ _ hb⟩
        · cases hp

theorem inv_addItem (s : State) (b : Elem) (pos : Nat) (hpc : s.pc = .holding b pos) (h : Inv s) :
    Inv (addItem s b pos) := by
  have hb := h.pcB b pos (.inl hpc)
  have hle : s.height ≤ (addItem s b pos).height := by simp only [addItem]; split <;> omega
  refine ⟨h.cap_pos, h.slot, ?_, by intro _ hp; simp [addItem] at hp, ?_⟩
  · intro p x hx; have := h.win p x hx; show x.idx ≤ (addItem s b pos).height + s.cap; omega
  · intro b' pos' hp
    have : b' = b ∧ pos' = pos := by
      rcases hp with hp | hp <;> simp [addItem] at hp; exact ⟨hp.1.symm, hp.2.symm⟩
    obtain ⟨rfl, rfl⟩ := this
    exact ⟨hb.1, by show b'.idx ≤ (addItem s b' pos').height + s.cap; omega⟩

theorem finish_ring_sub (s : State) (b : Elem) (pos p : Nat) (x : Elem) :
    (finish s b pos).ring p = some x → s.ring p = some x := by
  simp only [finish]
  split
  · simp only [setSlot]; split
    · intro h; cases h
    · exact id
  · exact id

theorem inv_finish (s : State) (b : Elem) (pos : Nat) (h : Inv s) : Inv (finish s b pos) :=
  ⟨h.cap_pos, fun p x hx => h.slot p x (finish_ring_sub s b pos p x hx),
   fun p x hx => h.win p x (finish_ring_sub s b pos p x hx),
   by intro _ hp; simp [finish] at hp, by intro _ _ hp; simp [finish] at hp⟩

theorem inv_run (s : State) (h : Inv s) : Inv (runStep s) := by
  unfold runStep
  split
  · exact ⟨h.cap_pos, h.slot, h.win, by intro _ hp; simp [start] at hp, by intro _ _ hp; simp [start] at hp⟩
  · unfold wake
    split
    · exact ⟨h.cap_pos, h.slot, h.win, by intro _ hp; simp at hp, by intro _ _ hp; simp at hp⟩
    · split
      · exact ⟨h.cap_pos, h.slot, h.win, by intro _ hp; simp at hp, by intro _ _ hp; simp at hp⟩
      · exact h
  · exact ⟨h.cap_pos, h.slot, h.win, by intro _ hp; simp [readH] at hp; subst hp; exact Nat.le_refl _, by intro _ _ hp; simp [readH] at hp⟩
  · exact inv_lockSection s _ h
  · exact inv_addItem s _ _ (by assumption) h
  · exact inv_finish s _ _ h
  · exact h

theorem inv_apply (s : State) (a : Act) (h : Inv s) : Inv (apply s a) := by
  cases a with
  | put e hr => exact inv_put s e _ (Nat.min_le_right _ _) h
  | run => exact inv_run s h
  | adv => exact inv_adv s h
  | disc => exact inv_discard s h
  | notify =>
    simp only [apply, notify]
    split
    · exact h
    · exact inv_signal s h

theorem inv_init (cap h0 : Nat) (hc : 0 < cap) : Inv (init cap h0) :=
  ⟨hc, by intro p x hx; simp [init] at hx, by intro p x hx; simp [init] at hx,
   by intro _ hp; simp [init] at hp, by intro _ _ hp; simp [init] at hp⟩

theorem inv_exec (s : State) (as : List Act) (h : Inv s) : Inv (exec s as) := by
  induction as generalizing s with
  | nil => exact h
  | cons a r ih => exact ih _ (inv_apply s a h)

end NeoModel.Queue
