/-
C15 — binary DecodeBinary ∘ EncodeBinary = id for rules and signers.
Core Lean only (helpers of Props/C15Decode.lean).
-/
import NeoModel.Model.Witness.Encode
import NeoModel.Proofs.WitnessDecode
namespace NeoModel.Witness

theorem decodeMany_encode {α : Type} (dec : Bytes → Option (α × Bytes)) (enc : α → Bytes) :
    ∀ (xs : List α) (r : Bytes), (∀ x ∈ xs, ∀ r', dec (enc x ++ r') = some (x, r')) →
      decodeMany dec xs.length ((xs.map enc).flatten ++ r) = some (xs, r)
  | [], r, _ => by simp [decodeMany]
  | x :: xs, r, h => by
      have hx := h x (by simp) ((xs.map enc).flatten ++ r)
      have ih := decodeMany_encode dec enc xs r (fun y hy => h y (by simp [hy]))
      simp only [List.length_cons, decodeMany, List.map_cons, List.flatten_cons, List.append_assoc, hx, ih]

theorem readArrayMax_write {α : Type} (dec : Bytes → Option (α × Bytes)) (enc : α → Bytes) (xs : List α) (r : Bytes)
    (hl : xs.length ≤ maxSubitems) (h : ∀ x ∈ xs, ∀ r', dec (enc x ++ r') = some (x, r')) :
    readArrayMax dec maxSubitems (writeArray enc xs ++ r) = some (xs, r) := by
  unfold readArrayMax writeArray
  rw [List.append_assoc, readVarUint_small xs.length _ (by simpa [maxSubitems] using hl)]
  simp only [if_neg (show ¬ xs.length > maxSubitems by omega)]
  exact decodeMany_encode dec enc xs r h

/-- `WitnessRule.DecodeBinary ∘ EncodeBinary = id` on well-formed rules. -/
theorem decodeRule_encode (dk : Bytes → Option (Key × Bytes)) (ek : Key → Bytes)
    (hk : ∀ k r, dk (ek k ++ r) = some (k, r)) (x : Rule) (r : Bytes) (hw : x.wellFormed) (hh : x.cond.hashesOk) :
    decodeRule dk (encodeRule ek x ++ r) = some (x, r) := by
  obtain ⟨ha, hd, hwd⟩ := hw
  have hc := decode_encode dk ek hk x.cond maxConditionNesting r hd hwd hh
  have hb : (UInt8.ofNat x.action).toNat = x.action := by
    rcases ha with h | h <;> simp [h, actAllow]
  have hact : ¬ ((UInt8.ofNat x.action).toNat ≠ 0 ∧ (UInt8.ofNat x.action).toNat ≠ actAllow) := by
    rw [hb]; rcases ha with h | h <;> simp [h]
  simp only [decodeRule, encodeRule, List.cons_append, decodeBinaryCondition, hc]
  have : ((UInt8.ofNat x.action).toNat != 0 && (UInt8.ofNat x.action).toNat != actAllow) = false := by
    simpa using hact
  rw [hb] at this
  simp only [hb, this, Bool.false_eq_true, if_false]

/-- the hashes of a signer fit 20 bytes. -/
def Signer.hashesOk (s : Signer) : Prop :=
  s.account < 2 ^ 160 ∧ (∀ h ∈ s.allowedContracts, h < 2 ^ 160) ∧ (∀ r ∈ s.rules, r.cond.hashesOk)

theorem scopes_byte {s : Nat} (hlt : s < 256) : (UInt8.ofNat s).toNat = s := by
  simp [UInt8.toNat_ofNat']; omega

/-- `Signer.DecodeBinary ∘ EncodeBinary = id` on everything the wire format admits: well-formed signers
(valid scope byte, lists within 16 and only under their bit, well-formed rules) with 20-byte hashes. -/
theorem decodeSigner_encode (dk : Bytes → Option (Key × Bytes)) (ek : Key → Bytes)
    (hk : ∀ k r, dk (ek k ++ r) = some (k, r)) (s : Signer) (r : Bytes) (hw : s.wellFormed) (hh : s.hashesOk)
    (hb : s.scopes < 256) : decodeSigner dk (encodeSigner ek s ++ r) = some (s, r) := by
  obtain ⟨hv, hlc, hlg, hlr, hrw, hec, heg, her⟩ := hw
  obtain ⟨hacc, hcs, hrs⟩ := hh
  have hsb := scopes_byte hb
  unfold decodeSigner encodeSigner
  simp only [List.append_assoc, List.cons_append, List.nil_append]
  rw [readHash_beBytes s.account _ hacc]
  simp only [hsb, hv, Bool.not_true, Bool.false_eq_true, if_false]
  -- contracts
  have h1 : ∀ rest, (if hasScope s.scopes scCustomContracts = true then
        readArrayMax readHash maxSubitems
          ((if hasScope s.scopes scCustomContracts = true then writeArray (beBytes 20) s.allowedContracts else []) ++ rest)
      else some ([], (if hasScope s.scopes scCustomContracts = true then writeArray (beBytes 20) s.allowedContracts else []) ++ rest))
      = some (s.allowedContracts, rest) := by
    intro rest
    by_cases hc : hasScope s.scopes scCustomContracts = true
    · simp only [hc, if_true]
      exact readArrayMax_write readHash (beBytes 20) _ rest hlc (fun h hm r' => readHash_beBytes h r' (hcs h hm))
    · have := hec (by simpa using hc)
      simp [hc, this]
  have h2 : ∀ rest, (if hasScope s.scopes scCustomGroups = true then
        readArrayMax dk maxSubitems
          ((if hasScope s.scopes scCustomGroups = true then writeArray ek s.allowedGroups else []) ++ rest)
      else some ([], (if hasScope s.scopes scCustomGroups = true then writeArray ek s.allowedGroups else []) ++ rest))
      = some (s.allowedGroups, rest) := by
    intro rest
    by_cases hc : hasScope s.scopes scCustomGroups = true
    · simp only [hc, if_true]
      exact readArrayMax_write dk ek _ rest hlg (fun k _ r' => hk k r')
    · have := heg (by simpa using hc)
      simp [hc, this]
  have h3 : ∀ rest, (if hasScope s.scopes scRules = true then
        readArrayMax (decodeRule dk) maxSubitems
          ((if hasScope s.scopes scRules = true then writeArray (encodeRule ek) s.rules else []) ++ rest)
      else some ([], (if hasScope s.scopes scRules = true then writeArray (encodeRule ek) s.rules else []) ++ rest))
      = some (s.rules, rest) := by
    intro rest
    by_cases hc : hasScope s.scopes scRules = true
    · simp only [hc, if_true]
      exact readArrayMax_write (decodeRule dk) (encodeRule ek) _ rest hlr
        (fun x hm r' => decodeRule_encode dk ek hk x r' (hrw x hm) (hrs x hm))
    · have := her (by simpa using hc)
      simp [hc, this]
  rw [h1]; simp only []; rw [h2]; simp only []; rw [h3]

end NeoModel.Witness
